"""Stand-in for the native libsnark extension (absent): just enough for pysnark.libsnark.backend to import, used ONLY by the
backend-selection check (C19) to exercise configurations in which the libsnark backends are loadable."""
