_P = 21888242871839275222246405745257275088548364400416034343698204186575808495617
class LinearCombination:
    def __init__(self, x=None): self.t = {} if x is None else ({0: x} if isinstance(x, int) else {x.ix: 1})
    def __add__(self, o):
        r = LinearCombination(); r.t = dict(self.t)
        for k, v in o.t.items(): r.t[k] = r.t.get(k, 0) + v
        return r
    def __sub__(self, o): return self + (-o)
    def __mul__(self, k):
        r = LinearCombination(); r.t = {a: b * k for a, b in self.t.items()}; return r
    def __neg__(self): return self * -1
class PbVariable:
    def allocate(self, pb): pb.n += 1; self.ix = pb.n
class ProtoboardPub:
    def __init__(self): self.n = 0; self.vals = {}; self.cons = []
    def setval(self, v, x): self.vals[v.ix] = x
    def setpublic(self, v): pass
    def add_r1cs_constraint(self, c): self.cons.append(c)
class R1csConstraint:
    def __init__(self, a, b, c): self.abc = (a, b, c)
def fieldinverse(v): return pow(v, _P - 2, _P)
def get_modulus(): return _P
