From Coq Require Import ZArith List Znumtheory.
Require Import Pratt Certs.
Import ListNotations.
Open Scope Z_scope.

Lemma last_in (A:Type) (l : list A) (d x : A) : last l d = x -> l <> [] -> In x l.
Proof. intros <- H. induction l as [|a [|b l] IH]; [congruence|left; reflexivity|right; apply IH; discriminate]. Qed.

Ltac prove_prime cert :=
  let H := fresh in
  assert (H : Forall prime (map (fun e : entry => fst (fst e)) cert))
    by (apply (check_all_sound cert [2]); [constructor; [exact prime_2|constructor] | vm_compute; reflexivity]);
  rewrite Forall_forall in H; apply H; vm_compute; tauto.

Theorem bn128_prime : prime p_bn128.
Proof. prove_prime cert_bn128. Qed.
Theorem bls12_381_prime : prime p_bls12_381.
Proof. prove_prime cert_bls12_381. Qed.
Theorem curve25519_prime : prime p_curve25519.
Proof. prove_prime cert_curve25519. Qed.
Print Assumptions bn128_prime.
Print Assumptions curve25519_prime.
