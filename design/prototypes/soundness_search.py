# Prototype of the C02 direct oracle: complete search of the auxiliary-witness space of one operation
# on a small prime field, operands fixed.  Uses the real pysnark with a recording backend.
import sys, types, itertools
sys.path.insert(0,'/repo')
class LC:
    def __init__(s, d): s.d = d
    def __add__(s, o):
        d = dict(s.d)
        for k,v in o.d.items(): d[k] = d.get(k,0)+v
        return LC(d)
    def __sub__(s,o): return s+(-o)
    def __mul__(s,k): return LC({a:b*k for a,b in s.d.items()})
    def __neg__(s): return s*-1
R=types.ModuleType("pysnark.nobackend")
def reset(p): R.P=p; R.vals=[1]; R.cons=[]
def alloc(v): R.vals.append(v); return LC({len(R.vals)-1:1})
R.privval=alloc; R.pubval=alloc; R.zero=lambda: LC({}); R.one=lambda: LC({0:1})
def finv(v):
    y=pow(v,R.P-2,R.P)
    if y==0: raise ZeroDivisionError
    return y
R.fieldinverse=finv; R.get_modulus=lambda: R.P; R.add_constraint=lambda a,b,c: R.cons.append((a,b,c)); R.prove=lambda: None
reset(13); sys.modules["pysnark.nobackend"]=R
import pysnark.runtime as rt
from pysnark.runtime import PrivVal, LinComb
from pysnark.boolean import LinCombBool
from pysnark.fixedpoint import LinCombFxp

def red(lc,p): return {k:c%p for k,c in lc.d.items() if c%p}
def solve(p, cons, nvars, fixed, result, honest_result, limit=200000):
    """enumerate all assignments w (w[0]=1, fixed vars given) satisfying cons; return a w whose result differs"""
    cons=[(red(a,p),red(b,p),red(c,p)) for a,b,c in cons]
    # boolean-domain detection: constraint v*(1-v)=0 pattern => domain {0,1}
    dom={v:list(range(p)) for v in range(nvars)}
    for a,b,c in cons:
        if not c and len(a)==1 and set(b)<= (set(a)|{0}) and len(b)==2:
            (v,ca),=a.items()
            if v!=0 and (b.get(v,0)+b.get(0,0))%p==0: dom[v]=[0,1]
    order=[v for v in range(nvars) if v not in fixed and v!=0]
    w={0:1}; w.update(fixed)
    # constraints indexed by last var in order
    pos={v:i for i,v in enumerate(order)}
    ready=[[] for _ in order]; pre=[]
    for con in cons:
        vs=set(con[0])|set(con[1])|set(con[2]); vs={v for v in vs if v in pos}
        if vs: ready[max(pos[v] for v in vs)].append(con)
        else: pre.append(con)
    ev=lambda lc: sum(c*w[k] for k,c in lc.items())%p
    ok=lambda con: (ev(con[0])*ev(con[1])-ev(con[2]))%p==0
    if not all(ok(c) for c in pre): return ('unsat-pre',None)
    count=[0]; found=[None]; nsol=[0]
    rl=red(result,p)
    def rec(i):
        if found[0] is not None or count[0]>limit: return
        if i==len(order):
            nsol[0]+=1
            if ev(rl)!=honest_result%p: found[0]=dict(w)
            return
        v=order[i]
        for x in dom[v]:
            w[v]=x; count[0]+=1
            if all(ok(c) for c in ready[i]): rec(i+1)
        del w[v]
    rec(0)
    return ('exhausted' if count[0]<=limit else 'limit', found[0], nsol[0])

def lcof(r):
    if isinstance(r,(LinCombBool,LinCombFxp)): return r.lc
    return r
OPS={'mul':lambda x,y:x*y,'eq':lambda x,y:x==y,'ne':lambda x,y:x!=y,'lt':lambda x,y:x<y,'le':lambda x,y:x<=y,
     'truediv':lambda x,y:x/y,'floordiv':lambda x,y:x//y,'mod':lambda x,y:x%y,'and':lambda x,y:x&y,'xor':lambda x,y:x^y,
     'and_int3':lambda x,y:x&3,'or_int1':lambda x,y:x|1,'rshift1':lambda x,y:x>>1,'abs':lambda x,y:abs(x),'invert':lambda x,y:~x,
     'tobits0':lambda x,y:x.to_bits()[0]}
def run(p,n,opname,xv,yv):
    reset(p); rt.bitlength=n; rt.guard=None; rt.ignore_errors(False); LinComb.ONE=LinComb.ONE_SAFE
    x=PrivVal(xv); y=PrivVal(yv)
    try: r=lcof(OPS[opname](x,y))
    except Exception as e: return None
    return solve(p,R.cons,len(R.vals),{1:xv%p,2:yv%p},r.lc,r.value)
if __name__=="__main__":
    for p,n in ((13,2),(17,3)):
        for opname in OPS:
            tot=0; bad=None; lim=0
            rng=range(-2**n,2**n+1)
            for xv in rng:
                for yv in rng:
                    res=run(p,n,opname,xv,yv)
                    if res is None: continue
                    tot+=1
                    if res[0]=='limit': lim+=1
                    if res[1] is not None and bad is None: bad=(xv,yv,res[1])
            print("p=%d n=%d %-10s cases=%3d limit-hit=%d -> %s"%(p,n,opname,tot,lim,"SOUND (no alternative result)" if bad is None else "UNSOUND e.g. x=%d y=%d"%bad[:2]))
