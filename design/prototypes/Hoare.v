(* Prototype: writer-style generator monad + Hoare logic over (gst, trace); per-gadget C01/C04 lemmas. *)
From Coq Require Import ZArith List Bool Lia Znumtheory Setoid Morphisms.
Import ListNotations.
Open Scope Z_scope.

(* ---------- field ---------- *)
Section Model.
Variable p : Z.
Hypothesis Hp : prime p.
Variable finv : Z -> Z.
Hypothesis finv_spec : forall x, ~ (p | x) -> (p | x * finv x - 1).

Definition feq (a b : Z) := (p | a - b).
Notation "a == b" := (feq a b) (at level 70).
Global Instance feq_equiv : Equivalence feq.
Proof. split.
 - intros a. exists 0. ring.
 - intros a b [k H]. exists (-k). lia.
 - intros a b c [k H] [l G]. exists (k + l). lia.
Qed.
Global Instance feq_add : Proper (feq ==> feq ==> feq) Z.add.
Proof. intros a b [k H] c d [l G]. exists (k+l). lia. Qed.
Global Instance feq_sub : Proper (feq ==> feq ==> feq) Z.sub.
Proof. intros a b [k H] c d [l G]. exists (k-l). lia. Qed.
Global Instance feq_mul : Proper (feq ==> feq ==> feq) Z.mul.
Proof. intros a b [k H] c d [l G]. exists (k*c + b*l).
  replace (a*c - b*d) with ((a-b)*c + b*(c-d)) by ring. rewrite H, G. ring. Qed.
Lemma eq_feq a b : a = b -> a == b. Proof. intros ->. reflexivity. Qed.

(* ---------- syntax ---------- *)
Inductive valexp :=
| VIn (i:nat) | VConst (z:Z) | VWit (v:Z)
| VAdd (a b:valexp) | VSub (a b:valexp) | VMul (a b:valexp)
| VInv (a:valexp) | VB2Z (b:bexp)
with bexp := BTrue | BFalse | BNot (b:bexp) | BAnd (a b:bexp) | BOr (a b:bexp) | BEq (a b:valexp) | BDiv0 (a:valexp) (* p | a *).
Scheme valexp_ind2 := Induction for valexp Sort Prop
  with bexp_ind2 := Induction for bexp Sort Prop.
Combined Scheme valexp_bexp_mutind from valexp_ind2, bexp_ind2.
Definition var := Z.
Definition lc := list (var * Z).
Inductive kind := Pub | Priv.
Inductive exn := AssertionError | ValueError | ZeroDivisionError.
Inductive cmd := CAlloc (k:kind) (h:valexp) | CEmit (a b c:lc) | CRaiseIf (c:bexp) (e:exn).

Record store := { pubs : list Z; privs : list Z }.
Definition wval (s:store) (v:var) : Z :=
  if v =? 0 then 1 else
  if 0 <? v then nth (Z.to_nat (v-1)) (pubs s) 0 else nth (Z.to_nat (-v-1)) (privs s) 0.

Variable ins : list Z.
Fixpoint veval (s:store) (e:valexp) : Z :=
  match e with
  | VIn i => nth i ins 0 | VConst z => z | VWit v => wval s v
  | VAdd a b => veval s a + veval s b | VSub a b => veval s a - veval s b
  | VMul a b => veval s a * veval s b
  | VInv a => finv (veval s a)
  | VB2Z b => if beval s b then 1 else 0
  end
with beval (s:store) (b:bexp) : bool :=
  match b with
  | BTrue => true | BFalse => false | BNot b => negb (beval s b)
  | BAnd a b => beval s a && beval s b | BOr a b => beval s a || beval s b
  | BEq a b => veval s a =? veval s b
  | BDiv0 a => (veval s a) mod p =? 0
  end.

Record trace := { st : store; cons : list (lc*lc*lc); raised : option exn }.
Definition step (t:trace) (c:cmd) : trace :=
  match raised t with Some _ => t | None =>
  match c with
  | CAlloc Pub h => {| st := {| pubs := pubs (st t) ++ [veval (st t) h]; privs := privs (st t) |}; cons := cons t; raised := None |}
  | CAlloc Priv h => {| st := {| pubs := pubs (st t); privs := privs (st t) ++ [veval (st t) h] |}; cons := cons t; raised := None |}
  | CEmit a b c => {| st := st t; cons := cons t ++ [(a,b,c)]; raised := None |}
  | CRaiseIf b e => if beval (st t) b then {| st := st t; cons := cons t; raised := Some e |} else t
  end end.
Definition run (cs:list cmd) (t:trace) : trace := fold_left step cs t.
Lemma run_app a b t : run (a ++ b) t = run b (run a t). Proof. apply fold_left_app. Qed.
Lemma step_raised t c e : raised t = Some e -> step t c = t.
Proof. unfold step. intros ->. reflexivity. Qed.
Lemma run_raised cs t e : raised t = Some e -> run cs t = t.
Proof. revert t; induction cs as [|c cs IH]; simpl; intros t H; [reflexivity|].
  rewrite (step_raised _ _ _ H). apply IH, H. Qed.

(* ---------- semantics of constraints ---------- *)
Definition eval (w : var -> Z) (l : lc) : Z := fold_right (fun vc acc => snd vc * w (fst vc) + acc) 0 l.
Definition holds (w : var -> Z) (c : lc*lc*lc) := eval w (fst (fst c)) * eval w (snd (fst c)) == eval w (snd c).
Definition var_ok (s:store) (v:var) := v = 0 \/ 1 <= v <= Z.of_nat (length (pubs s)) \/ 1 <= - v <= Z.of_nat (length (privs s)).
Definition lc_ok (s:store) (l:lc) := Forall (fun vc => var_ok s (fst vc)) l.
Definition con_ok (s:store) (c:lc*lc*lc) := lc_ok s (fst (fst c)) /\ lc_ok s (snd (fst c)) /\ lc_ok s (snd c).
Fixpoint vexp_ok (s:store) (e:valexp) : Prop :=
  match e with
  | VIn _ | VConst _ => True | VWit v => var_ok s v
  | VAdd a b | VSub a b | VMul a b => vexp_ok s a /\ vexp_ok s b
  | VInv a => vexp_ok s a | VB2Z b => bexp_ok s b
  end
with bexp_ok (s:store) (b:bexp) : Prop :=
  match b with
  | BTrue | BFalse => True | BNot b => bexp_ok s b
  | BAnd a b | BOr a b => bexp_ok s a /\ bexp_ok s b
  | BEq a b => vexp_ok s a /\ vexp_ok s b | BDiv0 a => vexp_ok s a
  end.

Definition ext (s s':store) := (exists l, pubs s' = pubs s ++ l) /\ (exists l, privs s' = privs s ++ l).
Lemma ext_refl s : ext s s. Proof. split; exists []; now rewrite app_nil_r. Qed.
Lemma ext_trans a b c : ext a b -> ext b c -> ext a c.
Proof. intros [[l1 H1] [l2 H2]] [[l3 H3] [l4 H4]]. split; [exists (l1++l3)|exists (l2++l4)]; rewrite ?H3, ?H4, ?H1, ?H2, app_assoc; reflexivity. Qed.
Lemma var_ok_ext s s' v : ext s s' -> var_ok s v -> var_ok s' v.
Proof. intros [[l1 H1] [l2 H2]] [H|[H|H]]; [left; exact H|right; left|right; right];
  rewrite ?H1, ?H2, app_length; lia. Qed.
Lemma wval_ext s s' v : ext s s' -> var_ok s v -> wval s' v = wval s v.
Proof.
  intros [[l1 H1] [l2 H2]] H. unfold wval. destruct (v =? 0) eqn:E0; [reflexivity|].
  destruct H as [H|[H|H]]; [lia| |].
  - replace (0 <? v) with true by lia. rewrite H1. apply app_nth1. lia.
  - replace (0 <? v) with false by lia. rewrite H2. apply app_nth1. lia.
Qed.
Lemma eval_ext s s' l : ext s s' -> lc_ok s l -> eval (wval s') l = eval (wval s) l.
Proof. intros E H. induction H as [|vc l Hv _ IH]; simpl; [reflexivity|]. rewrite IH, (wval_ext _ _ _ E Hv). reflexivity. Qed.
Lemma lc_ok_ext s s' l : ext s s' -> lc_ok s l -> lc_ok s' l.
Proof. intros E H. eapply Forall_impl; [|exact H]. intros vc. apply var_ok_ext, E. Qed.
Lemma veval_ext s s' : ext s s' ->
  (forall e, vexp_ok s e -> veval s' e = veval s e) /\ (forall b, bexp_ok s b -> beval s' b = beval s b).
Proof.
  intros E. apply valexp_bexp_mutind; simpl; intros; try reflexivity;
  repeat match goal with H : _ /\ _ |- _ => destruct H end;
  repeat match goal with IH : ?P -> _ = _, H : ?P |- _ => rewrite (IH H); clear IH end; try reflexivity.
  apply wval_ext; assumption.
Qed.

(* ---------- stage 1: writer-style generator monad ---------- *)
Record slc := { sval : valexp; wire : lc }.
Record gst := { npub : Z; npriv : Z; guard : option slc; ignore : bexp; one : slc }.
Definition G (A:Type) := gst -> (A + exn) * gst * list cmd.
Definition ret {A} (a:A) : G A := fun s => (inl a, s, []).
Definition bind {A B} (m:G A) (f:A -> G B) : G B :=
  fun s => match m s with
           | (inl a, s1, c1) => match f a s1 with (r, s2, c2) => (r, s2, c1 ++ c2) end
           | (inr e, s1, c1) => (inr e, s1, c1)
           end.
Notation "x <- m ;; f" := (bind m (fun x => f)) (at level 61, m at next level, right associativity).
Notation "m ;;; f" := (bind m (fun _ => f)) (at level 61, right associativity).
Definition get : G gst := fun s => (inl s, s, []).
Definition tell (c:cmd) : G unit := fun s => (inl tt, s, [c]).
Definition privval (h:valexp) : G slc := fun s =>
  let v := - (npriv s + 1) in
  (inl {| sval := VWit v; wire := [(v,1)] |},
   {| npub := npub s; npriv := npriv s + 1; guard := guard s; ignore := ignore s; one := one s |}, [CAlloc Priv h]).
Definition emit (a b y:slc) : G unit := tell (CEmit (wire a) (wire b) (wire y)).
Definition raise_if (b:bexp) (e:exn) : G unit := tell (CRaiseIf b e).

Fixpoint lc_get (l:lc) (v:var) : option Z :=
  match l with [] => None | (w,c)::l' => if w =? v then Some c else lc_get l' v end.
Definition lc_add (a b : lc) : lc :=
  map (fun vc => (fst vc, match lc_get b (fst vc) with Some d => snd vc + d | None => snd vc end)) a
  ++ filter (fun vc => match lc_get a (fst vc) with Some _ => false | None => true end) b.
Definition lc_scale (a:lc) (k:Z) : lc := map (fun vc => (fst vc, snd vc * k)) a.
Definition ZERO : slc := {| sval := VConst 0; wire := [] |}.
Definition ONE : slc := {| sval := VConst 1; wire := [(0,1)] |}.
Definition add (x y:slc) : slc := {| sval := VAdd (sval x) (sval y); wire := lc_add (wire x) (wire y) |}.
Definition neg (x:slc) : slc := {| sval := VSub (VConst 0) (sval x); wire := lc_scale (wire x) (-1) |}.
Definition sub (x y:slc) : slc := add x (neg y).

Definition mul (x y:slc) : G slc := r <- privval (VMul (sval x) (sval y)) ;; emit x y r ;;; ret r.
Definition check_zero (x:slc) : G slc :=
  let z := VB2Z (BEq (sval x) (VConst 0)) in
  r <- privval z ;;
  raise_if (BDiv0 (VAdd (sval x) z)) ZeroDivisionError ;;;
  w <- privval (VInv (VAdd (sval x) z)) ;;
  emit x w (sub ONE r) ;;; emit x r ZERO ;;; ret r.

(* ---------- invariants ---------- *)
Definition sync (s:gst) (t:trace) := npub s = Z.of_nat (length (pubs (st t))) /\ npriv s = Z.of_nat (length (privs (st t))).
Definition sat (t:trace) := Forall (holds (wval (st t))) (cons t).
Definition wf (t:trace) := Forall (con_ok (st t)) (cons t).
Definition Inv (s:gst) (t:trace) := sync s t /\ raised t = None /\ wf t /\ sat t.
Definition coh (t:trace) (x:slc) :=
  vexp_ok (st t) (sval x) /\ lc_ok (st t) (wire x) /\ veval (st t) (sval x) == eval (wval (st t)) (wire x).

Lemma coh_ext t t' x : ext (st t) (st t') -> coh t x -> coh t' x.
Proof.
  intros E (Hv & Hl & Hc). split; [|split].
  - revert Hv. generalize (sval x). clear -E.
    apply (proj1 (valexp_bexp_mutind
      (fun e => vexp_ok (st t) e -> vexp_ok (st t') e) (fun b => bexp_ok (st t) b -> bexp_ok (st t') b)
      ltac:(simpl;auto) ltac:(simpl;auto) ltac:(simpl; intros; eapply var_ok_ext; eauto)
      ltac:(simpl;tauto) ltac:(simpl;tauto) ltac:(simpl;tauto) ltac:(simpl;auto) ltac:(simpl;auto)
      ltac:(simpl;auto) ltac:(simpl;auto) ltac:(simpl;auto) ltac:(simpl;tauto) ltac:(simpl;tauto)
      ltac:(simpl;tauto) ltac:(simpl;auto))).
  - eapply lc_ok_ext; eauto.
  - rewrite (proj1 (veval_ext _ _ E) _ Hv), (eval_ext _ _ _ E Hl). exact Hc.
Qed.

(* ---------- Hoare triples over (generator state, trace) ---------- *)
Definition spec {A} (g : G A) (P : gst -> trace -> Prop) (Q : A -> trace -> trace -> Prop) :=
  forall s t r s' cs, g s = (inl r, s', cs) -> Inv s t -> P s t ->
    raised (run cs t) = None -> Inv s' (run cs t) /\ ext (st t) (st (run cs t)) /\ Q r t (run cs t).

Lemma spec_ret A (a:A) P : spec (ret a) P (fun r t t' => r = a /\ t' = t).
Proof. intros s t r s' cs H I _ _. inversion H; subst. simpl. auto using ext_refl. Qed.

Lemma spec_bind A B (m:G A) (f:A -> G B) P Q1 Q2 (R : B -> trace -> trace -> Prop) :
  spec m P Q1 ->
  (forall a, spec (f a) (fun s t => exists t0, Q1 a t0 t /\ ext (st t0) (st t) /\ (exists s0, P s0 t0)) (Q2 a)) ->
  (forall a b t0 t1 t2, Q1 a t0 t1 -> Q2 a b t1 t2 -> ext (st t0) (st t1) -> ext (st t1) (st t2) -> R b t0 t2) ->
  spec (bind m f) P R.
Proof.
  intros Hm Hf HR s t r s' cs H I HP Hn. unfold bind in H.
  destruct (m s) as [[[a|e] s1] c1] eqn:Em; [|discriminate].
  destruct (f a s1) as [[r2 s2] c2] eqn:Ef. inversion H; subst; clear H.
  rewrite run_app in *.
  assert (N1: raised (run c1 t) = None).
  { destruct (raised (run c1 t)) eqn:E; [|reflexivity]. rewrite (run_raised _ _ _ E) in Hn. congruence. }
  destruct (Hm _ _ _ _ _ Em I HP N1) as (I1 & E1 & q1).
  destruct (Hf a _ _ _ _ _ Ef I1 (ex_intro _ t (conj q1 (conj E1 (ex_intro _ s HP)))) Hn) as (I2 & E2 & q2).
  split; [exact I2|]. split; [eapply ext_trans; eauto|]. eapply HR; eauto.
Qed.

Lemma length_app1 (A:Type) (l:list A) x : Z.of_nat (length (l ++ [x])) = Z.of_nat (length l) + 1.
Proof. rewrite app_length. simpl. lia. Qed.

Lemma spec_privval h :
  spec (privval h) (fun s t => vexp_ok (st t) h)
       (fun r t t' => coh t' r /\ veval (st t') (sval r) = veval (st t) h /\ cons t' = cons t).
Proof.
  intros s t r s' cs H (Sy & Rn & Wf & Sa) Hh _. unfold privval in H. inversion H; subst; clear H.
  cbn [run fold_left]. unfold step. rewrite Rn. cbn.
  destruct Sy as [Sp Sv].
  set (t' := {| st := {| pubs := pubs (st t); privs := privs (st t) ++ [veval (st t) h] |}; cons := cons t; raised := None |}).
  assert (E: ext (st t) (st t')) by (split; [exists []; simpl; now rewrite app_nil_r | exists [veval (st t) h]; reflexivity]).
  assert (V: var_ok (st t') (- (npriv s + 1))).
  { right; right. simpl. rewrite length_app1. lia. }
  assert (W: wval (st t') (- (npriv s + 1)) = veval (st t) h).
  { unfold wval. replace (- (npriv s + 1) =? 0) with false by lia. replace (0 <? - (npriv s + 1)) with false by lia.
    simpl. replace (Z.to_nat (- - (npriv s + 1) - 1)) with (length (privs (st t))) by lia.
    rewrite app_nth2 by lia. now rewrite Nat.sub_diag. }
  split; [|split; [exact E|]].
  - split; [|split; [reflexivity|split]].
    + split; simpl; [exact Sp| rewrite length_app1; lia].
    + eapply Forall_impl; [|exact Wf]. intros [[a b] c] (A1 & A2 & A3). repeat split; eapply lc_ok_ext; eauto.
    + unfold sat. change (cons t') with (cons t). apply Forall_forall. intros c Hc.
      pose proof (proj1 (Forall_forall _ _) Sa c Hc) as S1.
      destruct (proj1 (Forall_forall _ _) Wf c Hc) as (A1 & A2 & A3).
      unfold holds in *. rewrite !(eval_ext _ _ _ E) by assumption. exact S1.
  - split; [|split; [exact W|reflexivity]].
    split; [exact V|split].
    + constructor; [exact V|constructor].
    + cbn [sval wire veval eval fold_right fst snd]. apply eq_feq. ring.
Qed.

Lemma spec_emit a b y :
  spec (emit a b y)
       (fun s t => coh t a /\ coh t b /\ coh t y /\ veval (st t) (sval a) * veval (st t) (sval b) == veval (st t) (sval y))
       (fun _ t t' => st t' = st t).
Proof.
  intros s t r s' cs H (Sy & Rn & Wf & Sa) (Ca & Cb & Cy & Id) _. inversion H; subst; clear H.
  cbn [run fold_left]. unfold step. rewrite Rn. cbn.
  destruct Ca as (_ & La & Ea), Cb as (_ & Lb & Eb), Cy as (_ & Ly & Ey).
  split; [|split; [apply ext_refl|reflexivity]].
  split; [exact Sy|split; [reflexivity|split]].
  - apply Forall_app; split; [exact Wf|]. constructor; [|constructor]. repeat split; assumption.
  - apply Forall_app; split; [exact Sa|]. constructor; [|constructor]. unfold holds; simpl.
    rewrite <- Ea, <- Eb, <- Ey. exact Id.
Qed.

Lemma spec_raise_if b e :
  spec (raise_if b e) (fun _ _ => True) (fun _ t t' => t' = t /\ beval (st t) b = false).
Proof.
  intros s t r s' cs H I _ Hn. inversion H; subst; clear H. destruct I as (Sy & Rn & Wf & Sa).
  cbn [run fold_left] in *. unfold step in *. rewrite Rn in *.
  destruct (beval (st t) b) eqn:Eb; [discriminate|]. split; [exact (conj Sy (conj Rn (conj Wf Sa)))|]. split; [apply ext_refl|]. split; reflexivity.
Qed.

Lemma spec_conseq A (g:G A) (P P':gst->trace->Prop) (Q Q':A->trace->trace->Prop) :
  spec g P Q -> (forall s t, P' s t -> P s t) -> (forall r t t', ext (st t) (st t') -> Q r t t' -> Q' r t t') -> spec g P' Q'.
Proof. intros H HP HQ s t r s' cs E I Pp Hn. destruct (H _ _ _ _ _ E I (HP _ _ Pp) Hn) as (I' & Ex & q). auto. Qed.

Lemma veval_coh_ext t t' x : ext (st t) (st t') -> coh t x -> veval (st t') (sval x) = veval (st t) (sval x).
Proof. intros E (Hv & _). apply (proj1 (veval_ext _ _ E)), Hv. Qed.

(* ---- completeness + coherence of the multiplication gadget ---- *)
Lemma coh_st t t' x : st t' = st t -> coh t x -> coh t' x.
Proof. unfold coh. intros ->. auto. Qed.

Theorem mul_spec x y :
  spec (mul x y) (fun _ t => coh t x /\ coh t y)
       (fun r t t' => coh t' r /\ veval (st t') (sval r) = veval (st t) (sval x) * veval (st t) (sval y)).
Proof.
  unfold mul.
  eapply spec_bind with
    (Q1 := fun r t t' => coh t' r /\ veval (st t') (sval r) = veval (st t) (VMul (sval x) (sval y)) /\ cons t' = cons t)
    (Q2 := fun r (b:slc) t t' => b = r /\ st t' = st t).
  - eapply spec_conseq; [apply spec_privval| |].
    + intros s t (Cx & Cy). simpl. split; [apply Cx|apply Cy].
    + intros r t t' _ H. exact H.
  - intros r.
    eapply spec_bind with (Q1 := fun _ t t' => st t' = st t) (Q2 := fun _ r' t t' => r' = r /\ t' = t).
    + eapply spec_conseq; [apply spec_emit| |].
      * intros s t (t0 & (Cr & Vr & _) & E & s0 & Cx & Cy).
        split; [eapply coh_ext; eauto|]. split; [eapply coh_ext; eauto|]. split; [exact Cr|].
        rewrite Vr. simpl. rewrite (veval_coh_ext _ _ _ E Cx), (veval_coh_ext _ _ _ E Cy). reflexivity.
      * intros u t t' _ H. exact H.
    + intros u. eapply spec_conseq; [apply spec_ret| |].
      * intros; exact I.
      * intros r' t t' _ H. exact H.
    + intros u b t0 t1 t2 E1 (-> & ->) _ _. split; [reflexivity|exact E1].
  - intros r b t0 t1 t2 (Cr & Vr & _) (-> & E12) _ _. split.
    + eapply coh_st; eauto.
    + rewrite E12. exact Vr.
Qed.
Print Assumptions mul_spec.
End Model.
