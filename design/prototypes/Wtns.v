(* Prototype for C10: little-endian bytes, parser combinators, snarkjs .wtns encoder (as in
   snarkjsbackend.prove after the planned fix: values reduced mod p) and an independent decoder;
   round-trip theorem for ALL integer witness values. *)
From Coq Require Import ZArith List Bool Lia.
Import ListNotations.
Open Scope Z_scope.

(* ---------- little-endian ---------- *)
Fixpoint le (n:nat) (v:Z) : list Z := match n with O => [] | S n' => v mod 256 :: le n' (v / 256) end.
Fixpoint unle (l:list Z) : Z := match l with [] => 0 | b :: l' => b + 256 * unle l' end.
Lemma le_length n v : length (le n v) = n.
Proof. revert v; induction n; simpl; intros; [reflexivity|now rewrite IHn]. Qed.
Lemma le_bytes n v : Forall (fun b => 0 <= b < 256) (le n v).
Proof. revert v; induction n; simpl; intros; constructor; [apply Z.mod_pos_bound; lia|apply IHn]. Qed.
Lemma unle_le n v : unle (le n v) = v mod 256 ^ Z.of_nat n.
Proof.
  revert v. induction n as [|n IH]; intros v.
  - simpl. now rewrite Z.mod_1_r.
  - cbn [le unle]. rewrite IH. rewrite Nat2Z.inj_succ, Z.pow_succ_r by lia.
    rewrite Z.rem_mul_r by (try apply Z.pow_nonzero; lia). reflexivity.
Qed.
Lemma unle_le_small n v : 0 <= v < 256 ^ Z.of_nat n -> unle (le n v) = v.
Proof. intros H. rewrite unle_le. apply Z.mod_small, H. Qed.

(* ---------- parser combinators ---------- *)
Definition P (A:Type) := list Z -> option (A * list Z).
Definition pret {A} (a:A) : P A := fun l => Some (a, l).
Definition pbind {A B} (m:P A) (f:A -> P B) : P B := fun l => match m l with Some (a, r) => f a r | None => None end.
Notation "x <- m ;; f" := (pbind m (fun x => f)) (at level 61, m at next level, right associativity).
Definition pfail {A} : P A := fun _ => None.
Definition guard (b:bool) : P unit := if b then pret tt else pfail.
Definition take (n:nat) : P (list Z) := fun l => if (length l <? n)%nat then None else Some (firstn n l, skipn n l).
Definition uN (n:nat) : P Z := l <- take n ;; pret (unle l).
Fixpoint rep {A} (k:nat) (p:P A) : P (list A) :=
  match k with O => pret [] | S k' => a <- p ;; l <- rep k' p ;; pret (a :: l) end.
Fixpoint leqb (a b:list Z) : bool :=
  match a, b with [], [] => true | x::a', y::b' => (x =? y) && leqb a' b' | _, _ => false end.
Lemma leqb_refl a : leqb a a = true. Proof. induction a; simpl; [reflexivity|]. now rewrite Z.eqb_refl. Qed.
Definition eof : P unit := fun l => match l with [] => Some (tt, []) | _ => None end.

Lemma take_app n a r : length a = n -> take n (a ++ r) = Some (a, r).
Proof. intros H. unfold take. rewrite app_length.
  replace (length a + length r <? n)%nat with false by (symmetry; apply Nat.ltb_ge; lia).
  rewrite <- H, firstn_app, Nat.sub_diag, firstn_all, skipn_app, Nat.sub_diag, skipn_all. simpl. now rewrite app_nil_r. Qed.
Lemma uN_le n v r : 0 <= v < 256 ^ Z.of_nat n -> uN n (le n v ++ r) = Some (v, r).
Proof. intros H. unfold uN, pbind. rewrite take_app by apply le_length. unfold pret. now rewrite unle_le_small. Qed.
Lemma rep_uN n vs r : Forall (fun v => 0 <= v < 256 ^ Z.of_nat n) vs ->
  rep (length vs) (uN n) (flat_map (le n) vs ++ r) = Some (vs, r).
Proof. induction 1 as [|v vs Hv _ IH]; simpl; [reflexivity|].
  unfold pbind at 1. rewrite <- app_assoc, uN_le by assumption. unfold pbind at 1. rewrite IH. reflexivity. Qed.

(* ---------- encoder: transcription of snarkjsbackend.prove() (witness file) ---------- *)
Definition ascii_wtns : list Z := [119; 116; 110; 115].   (* "wtns" *)
Definition encode_wtns (p:Z) (pubs privs:list Z) : list Z :=
  let n := Z.of_nat (length pubs + length privs + 1) in
  ascii_wtns ++ le 4 2 ++ le 4 2
  ++ le 4 1 ++ le 8 40 ++ le 4 32 ++ le 32 p ++ le 4 n
  ++ le 4 2 ++ le 8 (n * 32)
  ++ le 32 1 ++ flat_map (fun v => le 32 (v mod p)) pubs ++ flat_map (fun v => le 32 (v mod p)) privs.

(* ---------- decoder: written from the iden3 binary format description ---------- *)
Definition decode_wtns : P (Z * list Z) :=
  m <- take 4 ;; _ <- guard (leqb m ascii_wtns) ;;
  ver <- uN 4 ;; _ <- guard (ver =? 2) ;;
  nsec <- uN 4 ;; _ <- guard (nsec =? 2) ;;
  s1 <- uN 4 ;; _ <- guard (s1 =? 1) ;;
  l1 <- uN 8 ;; fs <- uN 4 ;; _ <- guard (l1 =? 4 + fs + 4) ;;
  prime <- uN (Z.to_nat fs) ;;
  nw <- uN 4 ;;
  s2 <- uN 4 ;; _ <- guard (s2 =? 2) ;;
  l2 <- uN 8 ;; _ <- guard (l2 =? nw * fs) ;;
  vals <- rep (Z.to_nat nw) (uN (Z.to_nat fs)) ;;
  _ <- guard (forallb (fun v => v <? prime) vals) ;;        (* canonical field elements *)
  _ <- eof ;;
  pret (prime, vals).

Lemma bind_uN {B} n v r (f:Z -> P B) : 0 <= v < 256 ^ Z.of_nat n -> pbind (uN n) f (le n v ++ r) = f v r.
Proof. intros H. unfold pbind at 1. now rewrite uN_le. Qed.
Lemma bind_uN' {B} n v r (f:Z -> P B) bnd : 256 ^ Z.of_nat n = bnd -> 0 <= v < bnd -> pbind (uN n) f (le n v ++ r) = f v r.
Proof. intros <-. apply bind_uN. Qed.
Lemma bind_take {B} n a r (f:list Z -> P B) : length a = n -> pbind (take n) f (a ++ r) = f a r.
Proof. intros H. unfold pbind. now rewrite take_app. Qed.
Lemma bind_guard {B} (f:unit -> P B) l : pbind (guard true) f l = f tt l.
Proof. reflexivity. Qed.
Lemma bind_rep_uN {B} n vs r (f:list Z -> P B) : Forall (fun v => 0 <= v < 256 ^ Z.of_nat n) vs ->
  pbind (rep (length vs) (uN n)) f (flat_map (le n) vs ++ r) = f vs r.
Proof. intros H. unfold pbind at 1. now rewrite rep_uN. Qed.

Theorem wtns_roundtrip p pubs privs :
  1 < p < 2 ^ 256 -> Z.of_nat (length pubs + length privs + 1) < 2 ^ 32 ->
  decode_wtns (encode_wtns p pubs privs) = Some ((p, 1 :: map (fun v => v mod p) (pubs ++ privs)), []).
Proof.
  intros Hp Hn. unfold encode_wtns, decode_wtns.
  set (n := Z.of_nat (length pubs + length privs + 1)) in *.
  assert (P256: 256 ^ Z.of_nat 32 = 2 ^ 256) by reflexivity.
  assert (P32: 256 ^ Z.of_nat 4 = 2 ^ 32) by reflexivity.
  assert (P64: 256 ^ Z.of_nat 8 = 2 ^ 64) by reflexivity.
  assert (B32: 2 ^ 32 = 4294967296) by reflexivity.
  assert (B64: 2 ^ 64 = 18446744073709551616) by reflexivity.
  assert (n0: 0 < n) by (unfold n; lia).
  rewrite bind_take by reflexivity. rewrite leqb_refl, bind_guard.
  rewrite (bind_uN' _ _ _ _ _ P32) by lia. change (2 =? 2) with true. rewrite bind_guard.
  rewrite (bind_uN' _ _ _ _ _ P32) by lia. change (2 =? 2) with true. rewrite bind_guard.
  rewrite (bind_uN' _ _ _ _ _ P32) by lia. change (1 =? 1) with true. rewrite bind_guard.
  rewrite (bind_uN' _ _ _ _ _ P64) by lia.
  rewrite (bind_uN' _ _ _ _ _ P32) by lia. change (40 =? 4 + 32 + 4) with true. rewrite bind_guard.
  change (Z.to_nat 32) with 32%nat.
  rewrite (bind_uN' _ _ _ _ _ P256) by lia.
  rewrite (bind_uN' _ _ _ _ _ P32) by lia.
  rewrite (bind_uN' _ _ _ _ _ P32) by lia. change (2 =? 2) with true. rewrite bind_guard.
  rewrite (bind_uN' _ _ _ _ _ P64) by lia. rewrite Z.eqb_refl, bind_guard.
  (* the values *)
  set (vals := 1 :: map (fun v => v mod p) (pubs ++ privs)).
  assert (Enc: le 32 1 ++ flat_map (fun v => le 32 (v mod p)) pubs ++ flat_map (fun v => le 32 (v mod p)) privs
               = flat_map (le 32) vals ++ []).
  { unfold vals. simpl flat_map. rewrite app_nil_r, map_app, flat_map_app. f_equal.
    rewrite !flat_map_concat_map, !map_map. reflexivity. }
  rewrite Enc.
  assert (Len: Z.to_nat n = length vals).
  { unfold vals, n. simpl length. rewrite map_length, app_length. lia. }
  assert (Rng: Forall (fun v => 0 <= v < p) vals).
  { unfold vals. constructor; [lia|]. apply Forall_forall. intros v Hv. apply in_map_iff in Hv. destruct Hv as [u [<- _]].
    apply Z.mod_pos_bound. lia. }
  rewrite Len, bind_rep_uN.
  2:{ eapply Forall_impl; [|exact Rng]. cbv beta. intros v Hv. rewrite P256. lia. }
  replace (forallb (fun v => v <? p) vals) with true.
  2:{ symmetry. apply forallb_forall. intros v Hv. rewrite Forall_forall in Rng. specialize (Rng v Hv). lia. }
  rewrite bind_guard. reflexivity.
Qed.
Print Assumptions wtns_roundtrip.

(* the pinned (unfixed) encoder writes le 32 v, i.e. v mod 2^256: not canonical for negative v *)
Example pinned_negative_not_canonical :
  let p := 21888242871839275222246405745257275088548364400416034343698204186575808495617 in
  unle (le 32 (-1)) = 2 ^ 256 - 1 /\ p <= unle (le 32 (-1)).
Proof. vm_compute. split; [reflexivity|discriminate]. Qed.
