(* Abstract core of C09: the merge discipline of pysnark's block API (BranchContext.exit: every tracked
   variable := select(cond, value after branch, backup)) computes what native control flow computes.
   Values computed under a false guard are UNSPECIFIED (junk oracle), as in the code (dummy hints). *)
From Coq Require Import ZArith List Bool Lia.
Open Scope Z_scope.

Section C09.
Variable V : Type.
Variable V_eq_dec : forall x y : V, {x = y} + {x <> y}.
Definition store := V -> Z.
Definition upd (s:store) (x:V) (v:Z) : store := fun y => if V_eq_dec y x then v else s y.

Inductive cmd :=
| Skip
| Assign (x:V) (e:store -> Z)
| Seq (a b:cmd)
| If (c:store -> bool) (t e:cmd)
| For (stop:store -> Z) (max:nat) (body:nat -> cmd).   (* for i in _range(stop, max=max): body i *)

(* native semantics *)
Fixpoint iter (body:nat -> store -> store) (k n:nat) (s:store) : store :=
  match n with O => s | S n' => iter body (S k) n' (body k s) end.
Fixpoint nexec (c:cmd) (s:store) : store :=
  match c with
  | Skip => s
  | Assign x e => upd s x (e s)
  | Seq a b => nexec b (nexec a s)
  | If c t e => if c s then nexec t s else nexec e s
  | For stop max body => iter (fun k => nexec (body k)) 0 (Z.to_nat (stop s)) s
  end.

(* oblivious semantics: g = value of the active guard; junk = what a computation yields when g is false *)
Variable junk : V -> store -> Z.
Definition merge (c:bool) (a b:store) : store := fun x => if c then a x else b x.

Fixpoint oloop (oexec_body : nat -> bool -> store -> store) (g:bool) (stopv:Z) (alive:bool) (k n:nat) (s:store) : store :=
  match n with
  | O => s
  | S n' =>
      let cond := alive && negb (Z.of_nat k =? stopv) in          (* self.cond & (ix != stop) *)
      let sb := oexec_body k (g && cond) s in                      (* body under the nested guard *)
      oloop oexec_body g stopv cond (S k) n' (merge cond sb s)     (* exit(): select on cond *)
  end.

Fixpoint oexec (c:cmd) (g:bool) (s:store) : store :=
  match c with
  | Skip => s
  | Assign x e => upd s x (if g then e s else junk x s)
  | Seq a b => oexec b g (oexec a g s)
  | If c t e =>
      let cv := c s in                                             (* cond evaluated once, at _if *)
      let s1 := merge cv (oexec t (g && cv) s) s in                 (* _else(): exit then-branch *)
      merge (negb cv) (oexec e (g && negb cv) s1) s1                (* _endif(): exit else-branch *)
  | For stop max body => oloop (fun k => oexec (body k)) g (stop s) true 0 max s
  end.

Lemma merge_true a b : merge true a b = a. Proof. reflexivity. Qed.
Lemma merge_false a b : merge false a b = b. Proof. reflexivity. Qed.

Lemma oloop_dead ob g sv k n s : oloop ob g sv false k n s = s.
Proof. revert k s. induction n as [|n IH]; intros k s; simpl; [reflexivity|]. rewrite merge_false. apply IH. Qed.

Lemma oloop_native ob nb sv : 
  (forall k s, ob k true s = nb k s) ->
  forall n k s, 0 <= sv -> (Z.of_nat k <= sv) -> (sv <= Z.of_nat (k + n)) ->
  oloop ob true sv true k n s = iter nb k (Z.to_nat sv - k) s.
Proof.
  intros H. induction n as [|n IH]; intros k s H0 Hk Hn.
  - simpl. replace (Z.to_nat sv - k)%nat with O by lia. reflexivity.
  - simpl. destruct (Z.of_nat k =? sv) eqn:E.
    + simpl. rewrite merge_false, oloop_dead. replace (Z.to_nat sv - k)%nat with O by lia. reflexivity.
    + simpl. rewrite merge_true, H. rewrite IH by lia.
      replace (Z.to_nat sv - k)%nat with (S (Z.to_nat sv - S k)) by lia. reflexivity.
Qed.

(* Main refinement: under a true guard the oblivious execution is the native one.
   Side condition of the for-loop: 0 <= stop <= max at loop entry (checkstopmax). *)
Fixpoint ok (c:cmd) : Prop :=
  match c with
  | Skip | Assign _ _ => True
  | Seq a b => ok a /\ ok b
  | If _ t e => ok t /\ ok e
  | For stop max body => (forall s, 0 <= stop s <= Z.of_nat max) /\ (forall k, ok (body k))
  end.

Theorem oexec_refines c : ok c -> forall s, oexec c true s = nexec c s.
Proof.
  induction c as [| x e | a IHa b IHb | cnd t IHt e IHe | stop max body IH]; simpl; intros Hok s.
  - reflexivity.
  - reflexivity.
  - destruct Hok. rewrite IHa, IHb; auto.
  - destruct Hok as [Ht He]. destruct (cnd s); simpl.
    + rewrite merge_true, merge_false. apply IHt, Ht.
    + rewrite merge_false, merge_true. apply IHe, He.
  - destruct Hok as [Hs Hb]. specialize (Hs s).
    rewrite (oloop_native _ (fun k => nexec (body k)) (stop s)); try lia.
    + f_equal. lia.
    + intros k s'. apply IH, Hb.
Qed.

(* Variables a branch does not assign keep their value, whatever the condition and the guard. *)
Fixpoint assigns (c:cmd) (x:V) : Prop :=
  match c with
  | Skip => False | Assign y _ => x = y
  | Seq a b => assigns a x \/ assigns b x
  | If _ t e => assigns t x \/ assigns e x
  | For _ _ body => exists k, assigns (body k) x
  end.
Theorem untouched c : forall g s x, ~ assigns c x -> oexec c g s x = s x.
Proof.
  induction c as [| y e | a IHa b IHb | cnd t IHt e IHe | stop max body IH]; simpl; intros g s x Hx.
  - reflexivity.
  - unfold upd. destruct (V_eq_dec x y); [contradiction|reflexivity].
  - rewrite IHb, IHa; tauto.
  - unfold merge. destruct (cnd s); simpl; rewrite ?IHe, ?IHt; tauto.
  - assert (forall n k alive s0, oloop (fun k => oexec (body k)) g (stop s) alive k n s0 x = s0 x) as L.
    { induction n as [|n IHn]; intros k alive s0; simpl; [reflexivity|]. rewrite IHn. unfold merge.
      destruct (alive && negb (Z.of_nat k =? stop s)); [|reflexivity]. apply IH. intro A. apply Hx. eauto. }
    apply L.
Qed.
End C09.
Print Assumptions oexec_refines.
Print Assumptions untouched.
