import sys
from sympy import factorint, isprime
sys.setrecursionlimit(10000)
P = {
 'bn128': 21888242871839275222246405745257275088548364400416034343698204186575808495617,
 'bls12_381': 52435875175126190479447740508185965837690552500527637822603658699938581184513,
 'curve25519': 7237005577332262213973186563042994240857116359379907606001950938285454250989,
}
HINTS=[198211423230930754013084525763697, 276602624281642239937218680557139826668747]
def fact(n):
    f={}
    for h in HINTS:
        while n%h==0: f[h]=f.get(h,0)+1; n//=h
    for q,e in factorint(n).items(): f[q]=f.get(q,0)+e
    return f
def chain(p, seen, out):
    if p in seen or p==2: return
    assert isprime(p)
    f=fact(p-1)
    for q in sorted(f): chain(q, seen, out)
    a=2
    while not (pow(a,p-1,p)==1 and all(pow(a,(p-1)//q,p)!=1 for q in f)): a+=1
    seen.add(p); out.append((p,a,sorted(f.items())))
with open('Certs.v','w') as fh:
    fh.write("From Coq Require Import ZArith List.\nImport ListNotations.\nOpen Scope Z_scope.\n")
    for name,p in P.items():
        out=[]; chain(p,set(),out)
        fh.write("Definition cert_%s : list (Z * Z * list (Z * Z)) := [\n"%name)
        fh.write(";\n".join("  (%d, %d, [%s])"%(p_,a,"; ".join("(%d, %d)"%(q,e) for q,e in fs)) for p_,a,fs in out))
        fh.write("].\nDefinition p_%s := %d.\n"%(name,p))
        print(name, len(out), "entries")
