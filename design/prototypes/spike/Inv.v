From Coq Require Import ZArith List Zpow_facts.
Open Scope Z_scope.
(* fuelled extended Euclid: returns s with s*a = gcd (mod b) *)
Fixpoint egcd (fuel:nat) (r0 r1 s0 s1 : Z) : Z :=
  match fuel with O => s0 | S f =>
    if r1 =? 0 then s0 else let q := r0 / r1 in egcd f r1 (r0 - q * r1) s1 (s0 - q * s1) end.
Definition finv_fast (p x : Z) : Z :=
  let a := x mod p in
  let y := (egcd 600 a p 1 0) mod p in
  if (a * y) mod p =? 1 then y else Zpow_mod x (p - 2) p.
Definition bn := 21888242871839275222246405745257275088548364400416034343698204186575808495617.
Time Eval vm_compute in finv_fast bn (-7).
Time Eval vm_compute in Zpow_mod (-7) (bn-2) bn.
Time Eval vm_compute in finv_fast bn 123456789123456789123456789123456789.
Time Eval vm_compute in Zpow_mod 123456789123456789123456789123456789 (bn-2) bn.
