(* Pipeline spike: two-stage model (gen ; interp) for a LinComb-only fragment. *)
From Coq Require Import ZArith List Bool Zpow_facts.
Import ListNotations.
Open Scope Z_scope.

Inductive valexp :=
| VIn (i:nat) | VConst (z:Z) | VWit (v:Z)
| VAdd (a b:valexp) | VSub (a b:valexp) | VMul (a b:valexp)
| VDiv (a b:valexp) | VMod (a b:valexp)
| VLand (a b:valexp) | VShl (a b:valexp) | VShr (a b:valexp)
| VInv (a:valexp) | VIte (c:bexp) (a b:valexp) | VB2Z (b:bexp)
with bexp :=
| BTrue | BFalse | BNot (b:bexp) | BAnd (a b:bexp) | BOr (a b:bexp)
| BEq (a b:valexp) | BLt (a b:valexp) | BLe (a b:valexp) | BBitLenLe (a:valexp) (k:Z).

Definition var := Z.
Definition lc := list (var * Z).
Inductive kind := Pub | Priv.
Inductive exn := AssertionError | ValueError | ZeroDivisionError | TypeError | RuntimeError.
Inductive cmd := CAlloc (k:kind) (h:valexp) | CEmit (a b c:lc) | CRaiseIf (c:bexp) (e:exn).

(* ---------------- stage 2 ---------------- *)
Record store := { pubs : list Z; privs : list Z }.
Definition wval (s:store) (v:var) : Z :=
  if v =? 0 then 1 else
  if 0 <? v then nth (Z.to_nat (v-1)) (pubs s) 0 else nth (Z.to_nat (-v-1)) (privs s) 0.
Definition bit_length (v : Z) : Z := if v =? 0 then 0 else Z.log2 (Z.abs v) + 1.

Section Interp.
Variable p : Z.
Variable ins : list Z.
Fixpoint veval (s:store) (e:valexp) : Z :=
  match e with
  | VIn i => nth i ins 0 | VConst z => z | VWit v => wval s v
  | VAdd a b => veval s a + veval s b | VSub a b => veval s a - veval s b
  | VMul a b => veval s a * veval s b
  | VDiv a b => veval s a / veval s b | VMod a b => veval s a mod veval s b
  | VLand a b => Z.land (veval s a) (veval s b)
  | VShl a b => Z.shiftl (veval s a) (veval s b) | VShr a b => Z.shiftr (veval s a) (veval s b)
  | VInv a => Zpow_mod (veval s a) (p - 2) p
  | VIte c a b => if beval s c then veval s a else veval s b
  | VB2Z b => if beval s b then 1 else 0
  end
with beval (s:store) (b:bexp) : bool :=
  match b with
  | BTrue => true | BFalse => false | BNot b => negb (beval s b)
  | BAnd a b => beval s a && beval s b | BOr a b => beval s a || beval s b
  | BEq a b => veval s a =? veval s b | BLt a b => veval s a <? veval s b
  | BLe a b => veval s a <=? veval s b
  | BBitLenLe a k => bit_length (veval s a) <=? k
  end.

Record trace := { st : store; kinds : list kind; cons : list (lc*lc*lc); raised : option exn }.
Definition step (t:trace) (c:cmd) : trace :=
  match raised t with Some _ => t | None =>
  match c with
  | CAlloc Pub h => {| st := {| pubs := pubs (st t) ++ [veval (st t) h]; privs := privs (st t) |};
                       kinds := kinds t ++ [Pub]; cons := cons t; raised := None |}
  | CAlloc Priv h => {| st := {| pubs := pubs (st t); privs := privs (st t) ++ [veval (st t) h] |};
                       kinds := kinds t ++ [Priv]; cons := cons t; raised := None |}
  | CEmit a b c => {| st := st t; kinds := kinds t; cons := cons t ++ [(a,b,c)]; raised := None |}
  | CRaiseIf b e => if beval (st t) b then {| st := st t; kinds := kinds t; cons := cons t; raised := Some e |} else t
  end end.
Definition init : trace := {| st := {| pubs := []; privs := [] |}; kinds := []; cons := []; raised := None |}.
Definition interp (cs:list cmd) : trace := fold_left step cs init.
End Interp.

(* ---------------- backend LC: python dict semantics ---------------- *)
Fixpoint lc_get (l:lc) (v:var) : option Z :=
  match l with [] => None | (w,c)::l' => if w =? v then Some c else lc_get l' v end.
Definition lc_add (a b : lc) : lc :=
  map (fun vc => (fst vc, match lc_get b (fst vc) with Some d => snd vc + d | None => snd vc end)) a
  ++ filter (fun vc => match lc_get a (fst vc) with Some _ => false | None => true end) b.
Definition lc_scale (a:lc) (k:Z) : lc := map (fun vc => (fst vc, snd vc * k)) a.
Definition lc_neg a := lc_scale a (-1).
Definition lc_sub a b := lc_add a (lc_neg b).

(* ---------------- stage 1 ---------------- *)
Record slc := { sval : valexp; wire : lc }.
Record gst := { npub : Z; npriv : Z; out : list cmd (* reversed *); guard : option slc; ignore : bexp; one : slc }.
Record cfg := { modulus : Z; bitlength : nat; ign : bool }.
Definition G (A:Type) := gst -> (A + exn) * gst.
Definition ret {A} (a:A) : G A := fun s => (inl a, s).
Definition bind {A B} (m:G A) (f:A -> G B) : G B :=
  fun s => match m s with (inl a, s') => f a s' | (inr e, s') => (inr e, s') end.
Notation "x <- m ;; f" := (bind m (fun x => f)) (at level 61, m at next level, right associativity).
Notation "m ;;; f" := (bind m (fun _ => f)) (at level 61, right associativity).
Definition upd_out (s:gst) (o:list cmd) : gst := {| npub := npub s; npriv := npriv s; out := o; guard := guard s; ignore := ignore s; one := one s |}.
Definition emitc (c:cmd) : G unit := fun s => (inl tt, upd_out s (c :: out s)).
Definition static_raise {A} (e:exn) : G A := fun s => (inr e, upd_out s (CRaiseIf BTrue e :: out s)).
Definition get : G gst := fun s => (inl s, s).
Definition set_guard (g:option slc) (i:bexp) (o:slc) : G unit := fun s =>
  (inl tt, {| npub := npub s; npriv := npriv s; out := out s; guard := g; ignore := i; one := o |}).

Section Gen.
Variable c : cfg.

Definition privval (h:valexp) : G slc := fun s =>
  let v := - (npriv s + 1) in
  (inl {| sval := VWit v; wire := [(v,1)] |}, {| npub := npub s; npriv := npriv s + 1; out := CAlloc Priv h :: out s; guard := guard s; ignore := ignore s; one := one s |}).
Definition pubval (h:valexp) : G slc := fun s =>
  let v := npub s + 1 in
  (inl {| sval := VWit v; wire := [(v,1)] |}, {| npub := npub s + 1; npriv := npriv s; out := CAlloc Pub h :: out s; guard := guard s; ignore := ignore s; one := one s |}).
Definition constv (k:Z) : slc := {| sval := VConst k; wire := [(0,k)] |}.
Definition ZERO : slc := {| sval := VConst 0; wire := [] |}.
Definition ONE : slc := {| sval := VConst 1; wire := [(0,1)] |}.
Definition add (x y:slc) : slc := {| sval := VAdd (sval x) (sval y); wire := lc_add (wire x) (wire y) |}.
Definition neg (x:slc) : slc := {| sval := VSub (VConst 0) (sval x); wire := lc_neg (wire x) |}.
Definition sub (x y:slc) : slc := add x (neg y).
Definition scale (x:slc) (k:Z) : slc := {| sval := VMul (sval x) (VConst k); wire := lc_scale (wire x) k |}.
Definition addc (x:slc) (k:Z) : slc := add x (constv k).
Definition rsubc (k:Z) (x:slc) : slc := add (neg x) (constv k).   (* k - x  ==  k + (-x) via __radd__ *)

Definition emit (a b y:slc) : G unit := emitc (CEmit (wire a) (wire b) (wire y)).
Definition raise_if (b:bexp) (e:exn) : G unit := emitc (CRaiseIf b e).

Definition mul (x y:slc) : G slc := r <- privval (VMul (sval x) (sval y)) ;; emit x y r ;;; ret r.
Definition isg (s:gst) : bexp := match guard s with None => BTrue | Some g => BEq (sval g) (VConst 1) end.
Definition add_constraint (v w y:slc) (check:bool) : G unit :=
  s <- get ;;
  match guard s with
  | Some g =>
      d <- privval (VSub (VMul (sval v) (sval w)) (sval y)) ;;
      emit v w (add y d) ;;; emit g d ZERO
  | None =>
      raise_if (BAnd (BNot (BEq (VMul (sval v) (sval w)) (sval y))) (if check then BNot (ignore s) else BFalse)) AssertionError ;;;
      emit v w y
  end.
Definition assert_zero (x:slc) : G unit :=
  s <- get ;;
  raise_if (BAnd (BNot (ignore s)) (BNot (BEq (sval x) (VConst 0)))) AssertionError ;;;
  add_constraint ZERO ZERO x true.
Definition check_zero (x:slc) : G slc :=
  let z := VB2Z (BEq (sval x) (VConst 0)) in
  r <- privval z ;;
  raise_if (BEq (VMod (VAdd (sval x) z) (VConst (modulus c))) (VConst 0)) ZeroDivisionError ;;;
  w <- privval (VInv (VAdd (sval x) z)) ;;
  emit x w (sub ONE r) ;;; emit x r ZERO ;;; ret r.
Definition boolctor (x:slc) : G slc :=
  raise_if (BNot (BOr (BEq (sval x) (VConst 0)) (BEq (sval x) (VConst 1)))) ValueError ;;;
  add_constraint x (rsubc 1 x) ZERO true ;;; ret x.
Definition privbool (h:valexp) : G slc := x <- privval h ;; boolctor x.

Fixpoint mapM_range {A} (f : nat -> G A) (i n : nat) : G (list A) :=
  match n with O => ret [] | S n' => a <- f i ;; l <- mapM_range f (S i) n' ;; ret (a :: l) end.

(* sum([b_i * (1<<i)]) with python's sum starting at int 0 *)
Fixpoint from_bits_aux (acc:slc) (bs:list slc) (i:Z) : slc :=
  match bs with [] => acc | b::bs' => from_bits_aux (add acc (scale b (2^i))) bs' (i+1) end.
Definition from_bits (bs:list slc) : slc :=
  match bs with [] => ZERO (* really int 0 *) | b::bs' => from_bits_aux (addc (scale b 1) 0) bs' 1 end.

Definition pybit (x:valexp) (i:nat) : valexp :=
  VShr (VLand x (VShl (VConst 1) (VConst (Z.of_nat i)))) (VConst (Z.of_nat i)).

Definition to_bits (x:slc) (k:nat) : G (list slc) :=
  s <- get ;;
  raise_if (BAnd (BNot (ignore s)) (BOr (BLt (sval x) (VConst 0)) (BNot (BBitLenLe (sval x) (Z.of_nat k))))) AssertionError ;;;
  bs <- mapM_range (fun i => privbool (pybit (sval x) i)) 0 k ;;
  assert_zero (sub x (from_bits bs)) ;;; ret bs.

Definition check_positive (x:slc) (k:nat) : G slc :=
  s <- get ;;
  let A := BAnd (isg s) (BBitLenLe (sval x) (Z.of_nat k)) in
  raise_if (BAnd (BNot A) (BNot (ignore s))) ValueError ;;;
  r <- privbool (VIte A (VB2Z (BLe (VConst 0) (sval x))) (VConst 0)) ;;
  let ab := VIte (BLe (VConst 0) (sval x)) (sval x) (VSub (VSub (VConst 0) (sval x)) (VConst 1)) in
  bs <- mapM_range (fun i => privbool (VIte A (pybit ab i) (VConst 0))) 0 k ;;
  add_constraint (scale r 2) x (add (add x (from_bits bs)) (rsubc 1 r)) true ;;; ret r.

(* LinComb & LinComb (bitwise), used by nested guards *)
Fixpoint zipmul (xs ys:list slc) : G (list slc) :=
  match xs, ys with
  | x::xs', y::ys' => r <- mul y x ;; l <- zipmul xs' ys' ;; ret (r::l)
  | _, _ => ret []
  end.
Definition from_bits_lc (bs:list slc) : slc := from_bits bs.
Definition land_lc (x y:slc) : G slc :=
  xb <- to_bits x (bitlength c) ;; yb <- to_bits y (bitlength c) ;;
  rs <- zipmul xb yb ;; ret (from_bits rs).

Definition add_guard (cnd:slc) : G (option slc * bexp * slc) :=
  s <- get ;;
  raise_if (BAnd (BNot (ignore s)) (BAnd (BNot (BEq (sval cnd) (VConst 0))) (BNot (BEq (sval cnd) (VConst 1))))) RuntimeError ;;;
  g <- match guard s with None => ret cnd | Some g0 => land_lc g0 cnd end ;;
  set_guard (Some g) (BOr (ignore s) (BEq (sval cnd) (VConst 0))) g ;;;
  ret (guard s, ignore s, one s).
Definition restore_guard (b:option slc * bexp * slc) : G unit :=
  let '(g,i,o) := b in set_guard g i o.
Definition ensurelc (k:Z) : G slc := s <- get ;; ret (scale (one s) k).
Inductive expr :=
| EPriv (i:nat) | EPubIn (i:nat)
| EAdd (a b:expr) | ESub (a b:expr) | EMul (a b:expr)
| EAddC (a:expr) (k:Z) | EMulC (a:expr) (k:Z)
| EEq (a b:expr) | ELt (a b:expr) | EBits (a:expr) (k:nat) | EVal (a:expr)
| EGuard (cnd body:expr) | EAssertEqC (a:expr) (k:Z).

Fixpoint gen (e:expr) : G slc :=
  match e with
  | EPriv i => privval (VIn i) | EPubIn i => pubval (VIn i)
  | EAdd a b => x <- gen a ;; y <- gen b ;; ret (add x y)
  | ESub a b => x <- gen a ;; y <- gen b ;; ret (sub x y)
  | EMul a b => x <- gen a ;; y <- gen b ;; mul x y
  | EAddC a k => x <- gen a ;; ret (addc x k)
  | EMulC a k => x <- gen a ;; ret (scale x k)
  | EEq a b => x <- gen a ;; y <- gen b ;; check_zero (sub x y)
  | ELt a b => x <- gen a ;; y <- gen b ;; check_positive (addc (sub y x) (-1)) (bitlength c)
  | EBits a k => x <- gen a ;; bs <- to_bits x k ;; ret (from_bits bs)
  | EVal a => x <- gen a ;; o <- pubval (sval x) ;; assert_zero (sub x o) ;;; ret x
  | EGuard cn b => g <- gen cn ;; bak <- add_guard g ;; r <- gen b ;; restore_guard bak ;;; ret r
  | EAssertEqC a k => x <- gen a ;; o <- ensurelc k ;; s <- get ;;
      raise_if (BAnd (BNot (ignore s)) (BNot (BEq (sval x) (sval o)))) AssertionError ;;;
      assert_zero (sub x o) ;;; ret x
  end.
End Gen.

Definition model_run (c:cfg) (e:expr) (ins:list Z) : trace * option (Z * lc) :=
  match gen c e {| npub := 0; npriv := 0; out := []; guard := None; ignore := (if ign c then BTrue else BFalse); one := ONE |} with
  | (r, s) =>
    let t := interp (modulus c) ins (rev (out s)) in
    (t, match r, raised t with
        | inl x, None => Some (veval (modulus c) ins (st t) (sval x), wire x)
        | _, _ => None end)
  end.

Require Import ExtrOcamlBasic.
Extraction "model2.ml" model_run.
