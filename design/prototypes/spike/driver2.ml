module BZ = Z
open Model2
(* ---- conversions between zarith and extracted Coq numbers (driver-side only) ---- *)
let rec pos_of_z (n : BZ.t) : positive =
  if BZ.equal n BZ.one then XH
  else if BZ.is_even n then XO (pos_of_z (BZ.shift_right n 1)) else XI (pos_of_z (BZ.shift_right n 1))
let cz_of_z (n : BZ.t) : z = if BZ.sign n = 0 then Z0 else if BZ.sign n > 0 then Zpos (pos_of_z n) else Zneg (pos_of_z (BZ.neg n))
let rec z_of_pos = function XH -> BZ.one | XO p -> BZ.shift_left (z_of_pos p) 1 | XI p -> BZ.succ (BZ.shift_left (z_of_pos p) 1)
let z_of_cz = function Z0 -> BZ.zero | Zpos p -> z_of_pos p | Zneg p -> BZ.neg (z_of_pos p)
let rec nat_of_int n = if n <= 0 then O else S (nat_of_int (n-1))
(* ---- tiny s-expression parser ---- *)
type sx = A of string | L of sx list
let parse (s:string) : sx =
  let n = String.length s in
  let rec go i acc = 
    if i >= n then (List.rev acc, i) else
    match s.[i] with
    | ' ' -> go (i+1) acc
    | '(' -> let (l, j) = go (i+1) [] in go j (L l :: acc)
    | ')' -> (List.rev acc, i+1)
    | _ -> let j = ref i in while !j < n && s.[!j] <> ' ' && s.[!j] <> '(' && s.[!j] <> ')' do incr j done;
           go !j (A (String.sub s i (!j - i)) :: acc) in
  match fst (go 0 []) with [x] -> x | l -> L l
let zs s = cz_of_z (BZ.of_string s)
let rec expr = function
  | L [A "priv"; A i] -> EPriv (nat_of_int (int_of_string i))
  | L [A "pub"; A i] -> EPubIn (nat_of_int (int_of_string i))
  | L [A "add"; a; b] -> EAdd (expr a, expr b) | L [A "sub"; a; b] -> ESub (expr a, expr b)
  | L [A "mul"; a; b] -> EMul (expr a, expr b)
  | L [A "addc"; a; A k] -> EAddC (expr a, zs k) | L [A "mulc"; a; A k] -> EMulC (expr a, zs k)
  | L [A "eq"; a; b] -> EEq (expr a, expr b) | L [A "lt"; a; b] -> ELt (expr a, expr b)
  | L [A "bits"; a; A k] -> EBits (expr a, nat_of_int (int_of_string k))
  | L [A "val"; a] -> EVal (expr a)
  | L [A "guard"; a; b] -> EGuard (expr a, expr b)
  | L [A "asserteqc"; a; A k] -> EAssertEqC (expr a, zs k)
  | _ -> failwith "bad expr"
let pmod p v = let r = BZ.rem v p in if BZ.sign r < 0 then BZ.add r p else r
let canon_lc p (l : (z * z) list) =
  let l = List.map (fun (v,c) -> (z_of_cz v, pmod p (z_of_cz c))) l in
  let l = List.filter (fun (_,c) -> BZ.sign c <> 0) l in
  let l = List.sort (fun (a,_) (b,_) -> BZ.compare a b) l in
  String.concat "," (List.map (fun (v,c) -> BZ.to_string v ^ ":" ^ BZ.to_string c) l)
let exn_s = function AssertionError -> "AssertionError" | ValueError -> "ValueError" | ZeroDivisionError -> "ZeroDivisionError" | TypeError -> "TypeError" | RuntimeError -> "RuntimeError"
let () =
  try while true do
    let line = input_line stdin in
    match String.split_on_char '|' line with
    | [c; e; ins] ->
      let cw = List.filter (fun s -> s <> "") (String.split_on_char ' ' c) in
      let p = BZ.of_string (List.nth cw 0) in
      let cfg = { modulus = cz_of_z p; bitlength = nat_of_int (int_of_string (List.nth cw 1)); ign = (List.nth cw 2 = "1") } in
      let ins = List.map zs (List.filter (fun s -> s <> "") (String.split_on_char ' ' ins)) in
      let (t, r) = model_run cfg (expr (parse (String.trim e))) ins in
      let pubs = ref t.st.pubs and privs = ref t.st.privs in
      let buf = Buffer.create 256 in
      Buffer.add_string buf "K ";
      List.iter (fun k -> Buffer.add_char buf (match k with Pub -> 'x' | Priv -> 'w')) t.kinds;
      Buffer.add_string buf " W";
      List.iter (fun k ->
        let src = (match k with Pub -> pubs | Priv -> privs) in
        match !src with v :: tl -> src := tl; Buffer.add_string buf (" " ^ BZ.to_string (pmod p (z_of_cz v))) | [] -> ()) t.kinds;
      List.iter (fun (((a,b),c)) ->
        let a = canon_lc p a and b = canon_lc p b in
        let (a,b) = if compare a b <= 0 then (a,b) else (b,a) in
        Buffer.add_string buf (" C " ^ a ^ "|" ^ b ^ "|" ^ canon_lc p c)) t.cons;
      (match r with Some (v, l) -> Buffer.add_string buf (" R " ^ BZ.to_string (z_of_cz v) ^ " " ^ canon_lc p l) | None -> Buffer.add_string buf " R none");
      Buffer.add_string buf (" X " ^ (match t.raised with Some e -> exn_s e | None -> "none"));
      print_endline (Buffer.contents buf)
    | _ -> print_endline "BADLINE"
  done with End_of_file -> ()
