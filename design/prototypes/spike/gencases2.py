import random, sys
rnd=random.Random(int(sys.argv[1])); N=int(sys.argv[2])
BN=21888242871839275222246405745257275088548364400416034343698204186575808495617
def expr(d, nin):
    if d==0 or rnd.random()<0.2: return "(%s %d)"%(rnd.choice(['priv','priv','pub']), rnd.randrange(nin))
    op=rnd.choice(['add','sub','mul','addc','mulc','eq','lt','bits','val','mul','lt','eq','guard','guard','guard','asserteqc'])
    if op in('add','sub','mul','eq','lt'): return "(%s %s %s)"%(op,expr(d-1,nin),expr(d-1,nin))
    if op=='addc': return "(addc %s %d)"%(expr(d-1,nin), rnd.choice([0,1,-1,5,-7,2**20,BN-1,BN,-BN-3]))
    if op=='mulc': return "(mulc %s %d)"%(expr(d-1,nin), rnd.choice([0,1,-1,3,-2,2**17,BN+2]))
    if op=='bits': return "(bits %s %d)"%(expr(d-1,nin), rnd.choice([1,2,3,4,8,16,20]))
    if op=='guard':
        c=rnd.choice(['(priv 0)','(priv 0)','(pub 0)','(eq (priv 1) (priv 2))','(lt (priv 1) (priv 2))', expr(d-1,nin)])
        return "(guard %s %s)"%(c,expr(d-1,nin))
    if op=='asserteqc': return "(asserteqc %s %d)"%(expr(d-1,nin), rnd.choice([0,1,2,3,5,-1]))
    return "(val %s)"%expr(d-1,nin)
for _ in range(N):
    p=rnd.choice([BN,BN,13,17,251,65537,52435875175126190479447740508185965837690552500527637822603658699938581184513])
    n=rnd.choice([2,3,4,8,16,16]); ign=rnd.choice([0,0,0,1]); nin=3
    pool=[0,1,-1,2,3,5,7,2**(n-1)-1,2**(n-1),2**n-1,2**n,-2**n,2**n+1,p-1,p,p+1,-p,rnd.randrange(-2**n,2**n),rnd.randrange(0,2**n)]
    ins=[rnd.choice(pool) for _ in range(nin)]
    if rnd.random()<0.7: ins[0]=rnd.choice([0,1,1])
    print("%d %d %d | %s | %s"%(p,n,ign,expr(rnd.choice([1,2,3,3,4]),nin)," ".join(map(str,ins))))
