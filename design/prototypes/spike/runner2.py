import sys, types, re
sys.path.insert(0, sys.argv[1] if len(sys.argv)>1 else '/repo')
# ---- recording backend (snarkjs-style ids: 0 one, k>0 public, k<0 private) ----
class LC:
    def __init__(s, d): s.d = d
    def __add__(s, o):
        d = dict()
        for a in s.d: d[a] = s.d[a] + o.d[a] if a in o.d else s.d[a]
        for b in o.d:
            if b not in s.d: d[b] = o.d[b]
        return LC(d)
    def __sub__(s,o): return s+(-o)
    def __mul__(s,k): return LC({a:b*k for a,b in s.d.items()})
    def __neg__(s): return s*-1
R = types.ModuleType("pysnark.nobackend")
def reset(p):
    R.P=p; R.pubs=[]; R.privs=[]; R.kinds=[]; R.cons=[]
def privval(v): R.privs.append(v); R.kinds.append('w'); return LC({-len(R.privs):1})
def pubval(v): R.pubs.append(v); R.kinds.append('x'); return LC({len(R.pubs):1})
R.privval=privval; R.pubval=pubval; R.zero=lambda: LC({}); R.one=lambda: LC({0:1})
def fieldinverse(v):
    y = pow(v, R.P-2, R.P)
    if y == 0: raise ZeroDivisionError
    return y
R.fieldinverse=fieldinverse; R.get_modulus=lambda: R.P
R.add_constraint=lambda a,b,c: R.cons.append((a,b,c)); R.prove=lambda: None
reset(13)
sys.modules["pysnark.nobackend"]=R
import pysnark.runtime as rt
from pysnark.runtime import PrivVal, PubVal, LinComb
from pysnark.boolean import LinCombBool
assert rt.backend is R

def parse(s):
    toks = re.findall(r'\(|\)|[^\s()]+', s)
    def go(i):
        if toks[i]=='(':
            l=[]; i+=1
            while toks[i]!=')':
                x,i=go(i); l.append(x)
            return l,i+1
        return toks[i],i+1
    return go(0)[0]
def ev(e, ins):
    op=e[0]
    if op=='priv': return PrivVal(ins[int(e[1])])
    if op=='pub': return PubVal(ins[int(e[1])])
    if op in('add','sub','mul','eq','lt'):
        a=ev(e[1],ins); b=ev(e[2],ins)
        r={'add':lambda:a+b,'sub':lambda:a-b,'mul':lambda:a*b,'eq':lambda:a==b,'lt':lambda:a<b}[op]()
        return r.lc if isinstance(r,LinCombBool) else r
    if op=='addc': return ev(e[1],ins)+int(e[2])
    if op=='mulc': return ev(e[1],ins)*int(e[2])
    if op=='bits': return LinComb.from_bits(ev(e[1],ins).to_bits(int(e[2])))
    if op=='guard':
        c=ev(e[1],ins)
        return rt.guarded(c)(lambda: ev(e[2],ins))()
    if op=='asserteqc':
        x=ev(e[1],ins); x.assert_eq(int(e[2])); return x
    if op=='val':
        x=ev(e[1],ins); x.val(); return x
    raise Exception("bad op "+op)
def canon(lc,p):
    items=sorted((v,c%p) for v,c in lc.d.items() if c%p)
    return ",".join("%d:%d"%vc for vc in items)
for line in sys.stdin:
    c,e,ins=line.split('|')
    cw=c.split(); p=int(cw[0]); rt.bitlength=int(cw[1]); rt.ignore_errors(cw[2]=='1')
    reset(p); rt.guard=None; LinComb.ONE=LinComb.ONE_SAFE
    ins=[int(x) for x in ins.split()]
    exn='none'; res=None
    try: res=ev(parse(e.strip()),ins)
    except (AssertionError,ValueError,ZeroDivisionError,TypeError,RuntimeError) as ex: exn=type(ex).__name__
    out="K "+"".join(R.kinds)+" W"
    pi=iter(R.pubs); wi=iter(R.privs)
    for k in R.kinds: out+=" %d"%((next(pi) if k=='x' else next(wi))%p)
    for a,b,cc in R.cons:
        a=canon(a,p); b=canon(b,p)
        if a>b: a,b=b,a
        out+=" C %s|%s|%s"%(a,b,canon(cc,p))
    out+=(" R %d %s"%(res.value,canon(res.lc,p)) if res is not None and exn=='none' else " R none")
    out+=" X "+exn
    print(out)
