(* Feasibility prototype for DESIGN.md §2/§6.6: the two-stage model's stage 2 (interp) and the
   obliviousness meta-theorem: the variable kinds and constraints of a completing run are a
   function of the command list alone. *)
From Coq Require Import ZArith List Bool Lia.
Import ListNotations.
Open Scope Z_scope.

Inductive valexp :=
| VIn (i:nat) | VConst (z:Z) | VWit (v:Z)
| VAdd (a b:valexp) | VMul (a b:valexp) | VSub (a b:valexp)
| VDiv (a b:valexp) | VMod (a b:valexp)
| VIte (c:bexp) (a b:valexp)
with bexp :=
| BTrue | BNot (b:bexp) | BAnd (a b:bexp) | BEq (a b:valexp) | BLt (a b:valexp).

Definition var := Z.
Definition lc := list (var * Z).
Inductive kind := Pub | Priv.
Inductive exn := AssertionError | ValueError.
Inductive cmd := CAlloc (k:kind) (h:valexp) | CEmit (a b c:lc) | CRaiseIf (c:bexp) (e:exn).

Record store := { pubs : list Z; privs : list Z }.
Definition wval (s:store) (v:var) : Z :=
  if v =? 0 then 1 else
  if 0 <? v then nth (Z.to_nat (v-1)) (pubs s) 0 else nth (Z.to_nat (-v-1)) (privs s) 0.

Section Interp.
Variable ins : list Z.
Fixpoint veval (s:store) (e:valexp) : Z :=
  match e with
  | VIn i => nth i ins 0 | VConst z => z | VWit v => wval s v
  | VAdd a b => veval s a + veval s b | VMul a b => veval s a * veval s b
  | VSub a b => veval s a - veval s b
  | VDiv a b => veval s a / veval s b | VMod a b => veval s a mod veval s b
  | VIte c a b => if beval s c then veval s a else veval s b
  end
with beval (s:store) (b:bexp) : bool :=
  match b with
  | BTrue => true | BNot b => negb (beval s b) | BAnd a b => beval s a && beval s b
  | BEq a b => veval s a =? veval s b | BLt a b => veval s a <? veval s b
  end.

Record trace := { st : store; kinds : list kind; cons : list (lc*lc*lc); raised : option exn }.

Definition step (t:trace) (c:cmd) : trace :=
  match raised t with Some _ => t | None =>
  match c with
  | CAlloc Pub h => {| st := {| pubs := pubs (st t) ++ [veval (st t) h]; privs := privs (st t) |};
                       kinds := kinds t ++ [Pub]; cons := cons t; raised := None |}
  | CAlloc Priv h => {| st := {| pubs := pubs (st t); privs := privs (st t) ++ [veval (st t) h] |};
                       kinds := kinds t ++ [Priv]; cons := cons t; raised := None |}
  | CEmit a b c => {| st := st t; kinds := kinds t; cons := cons t ++ [(a,b,c)]; raised := None |}
  | CRaiseIf b e => if beval (st t) b then {| st := st t; kinds := kinds t; cons := cons t; raised := Some e |} else t
  end end.

Definition init : trace := {| st := {| pubs := []; privs := [] |}; kinds := []; cons := []; raised := None |}.
Definition interp (cs:list cmd) : trace := fold_left step cs init.
End Interp.

Definition shape_step (sh : list kind * list (lc*lc*lc)) (c:cmd) :=
  match c with
  | CAlloc k _ => (fst sh ++ [k], snd sh)
  | CEmit a b c => (fst sh, snd sh ++ [(a,b,c)])
  | CRaiseIf _ _ => sh
  end.

Lemma step_raised ins t c e : raised t = Some e -> step ins t c = t.
Proof. unfold step. intros ->. reflexivity. Qed.
Lemma fold_raised ins cs t e : raised t = Some e -> fold_left (step ins) cs t = t.
Proof. revert t. induction cs as [|c cs IH]; simpl; intros t H; [reflexivity|].
  rewrite (step_raised _ _ _ _ H). apply IH, H. Qed.

Lemma interp_shape_gen ins cs t sh :
  raised (fold_left (step ins) cs t) = None ->
  (kinds t, cons t) = sh ->
  (kinds (fold_left (step ins) cs t), cons (fold_left (step ins) cs t)) = fold_left shape_step cs sh.
Proof.
  revert t sh. induction cs as [|c cs IH]; simpl; intros t sh Hn Hs; [exact Hs|].
  destruct (raised t) eqn:Er.
  { rewrite (step_raised _ _ _ _ Er) in Hn. rewrite (fold_raised _ _ _ _ Er) in Hn. congruence. }
  apply IH; [exact Hn|].
  subst sh. unfold step. rewrite Er.
  destruct c as [[|] h|a b c|b e]; simpl; try reflexivity.
  destruct (beval ins (st t) b) eqn:Eb; simpl; [|reflexivity].
  exfalso.
  assert (Hs: step ins t (CRaiseIf b e) = {| st := st t; kinds := kinds t; cons := cons t; raised := Some e |}).
  { unfold step. rewrite Er, Eb. reflexivity. }
  rewrite Hs in Hn. erewrite fold_raised in Hn by reflexivity. discriminate.
Qed.

Theorem interp_oblivious cs ins1 ins2 :
  raised (interp ins1 cs) = None -> raised (interp ins2 cs) = None ->
  (kinds (interp ins1 cs), cons (interp ins1 cs)) = (kinds (interp ins2 cs), cons (interp ins2 cs)).
Proof.
  intros H1 H2. unfold interp in *.
  rewrite (interp_shape_gen ins1 cs init ([],[]) H1 eq_refl).
  rewrite (interp_shape_gen ins2 cs init ([],[]) H2 eq_refl). reflexivity.
Qed.
Print Assumptions interp_oblivious.

Example ex1 : let cs := [CAlloc Priv (VIn 0); CAlloc Priv (VIn 1);
                         CRaiseIf (BEq (VWit (-2)) (VConst 0)) ValueError;
                         CAlloc Priv (VDiv (VWit (-1)) (VWit (-2)));
                         CEmit [(-3,1)] [(-2,1)] [(-1,1)]] in
  privs (st (interp [6;3] cs)) = [6;3;2] /\ raised (interp [6;0] cs) = Some ValueError.
Proof. vm_compute. split; reflexivity. Qed.
