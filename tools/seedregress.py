#!/usr/bin/env python3
"""Re-run the quick check of its property against every stored seeded change (applied to /repo, undone straight afterwards).
Usage: seedregress.py [id ...]   Writes /verif/seeded/<id>/meta.json['last_run'] and prints a table."""
import json, os, subprocess, sys, time, glob
def sh(cmd, cwd=None, timeout=3000):
    r = subprocess.run(cmd, shell=True, cwd=cwd, stdout=subprocess.PIPE, stderr=subprocess.STDOUT, text=True, timeout=timeout)
    return r.returncode, r.stdout
ids = sys.argv[1:] or sorted(os.path.basename(d) for d in glob.glob("/verif/seeded/C*"))
assert sh("git -C /repo status --porcelain --untracked-files=no")[1].strip() == "", "/repo not clean"
rows = []
for sid in ids:
    d = "/verif/seeded/%s" % sid
    pid = sid.split("-")[0]
    rc, out = sh("git -C /repo apply %s/patch.diff" % d)
    if rc: rows.append((sid, "patch does not apply", "")); continue
    try:
        t = time.time()
        rc, out = sh("./check quick %s" % pid, cwd="/verif")
        lines = [l for l in out.split("\n") if l.startswith("VIOLATION")]
        first = {}
        for l in lines:
            if "replay=" in l:
                try:
                    dd = json.load(open(l.split("replay=")[1].split()[0]))
                    v = (dd.get("violations") or [{}])[0]
                    first = {k: v.get(k) for k in ("kind", "op", "key", "what") if k in v}
                except Exception: pass
        res = dict(caught=bool(lines), exit=rc, concrete=bool(lines) and "no-failing-input-found" not in lines[0], wall=round(time.time() - t), first=first)
    finally:
        sh("git -C /repo checkout -- .")
    m = json.load(open(d + "/meta.json")); m["last_run"] = res
    json.dump(m, open(d + "/meta.json", "w"), indent=1)
    rows.append((sid, "CAUGHT" if res["caught"] else "MISSED", ("concrete " if res["concrete"] else "no-input ") + str(first.get("key") or first.get("what", ""))[:70]))
    print(rows[-1], flush=True)
assert sh("git -C /repo status --porcelain --untracked-files=no")[1].strip() == "", "/repo not clean at the end"
