#!/usr/bin/env python3
"""Evaluate a seeded change: (1) confirm it in a scratch worktree (suite passes, demo fails with / passes without),
(2) apply it to /repo, run the given checks, undo it.  Usage: seedtest.py <dir with patch.diff, demo.py, meta.json> <id> <check> [<check> ...]"""
import json, os, shutil, subprocess, sys, time
src, sid, checks = sys.argv[1], sys.argv[2], sys.argv[3:]
PY = "/venv/bin/python"
wt = "/tmp/seedwt-%s" % sid
def sh(cmd, cwd=None, env=None, timeout=1800):
    r = subprocess.run(cmd, shell=True, cwd=cwd, env=env, stdout=subprocess.PIPE, stderr=subprocess.STDOUT, text=True, timeout=timeout)
    return r.returncode, r.stdout
res = {"id": sid, "source": src}
subprocess.run("git -C /repo worktree remove --force %s" % wt, shell=True, stderr=subprocess.DEVNULL)
rc, out = sh("git -C /repo worktree add -q --detach %s HEAD" % wt)
try:
    env = dict(os.environ, PYTHONPATH=wt, PYTHONHASHSEED="0")
    env.pop("PYSNARK_BACKEND", None)
    rc0, o0 = sh("%s %s/demo.py" % (PY, os.path.abspath(src)), cwd=wt, env=env)
    res["demo_without_change"] = rc0
    rc, out = sh("git apply %s/patch.diff" % os.path.abspath(src), cwd=wt)
    res["patch_applies"] = (rc == 0)
    rc, out = sh("%s -m pytest -q -p no:cacheprovider test 2>&1 | tail -3" % PY, cwd=wt)
    res["suite"] = out.strip().split("\n")[-1] if "passed" not in out else [l for l in out.split("\n") if "passed" in l][0]
    rc1, o1 = sh("%s %s/demo.py" % (PY, os.path.abspath(src)), cwd=wt, env=env)
    res["demo_with_change"] = rc1
    res["demo_output_tail"] = o1[-400:]
finally:
    subprocess.run("git -C /repo worktree remove --force %s" % wt, shell=True)
res["confirmed"] = bool(res.get("patch_applies") and res.get("demo_without_change") == 0 and res.get("demo_with_change") not in (0, None) and "75 passed" in str(res.get("suite")))
# (2) run the checks against /repo with the change applied
res["checks"] = {}
if res["confirmed"] and checks:
    assert sh("git -C /repo status --porcelain --untracked-files=no")[1].strip() == "", "/repo not clean"
    rc, out = sh("git -C /repo apply %s/patch.diff" % os.path.abspath(src))
    try:
        for c in checks:
            t = time.time()
            rc, out = sh("./check quick %s" % c, cwd="/verif", timeout=3000)
            lines = [l for l in out.split("\n") if l.startswith("VIOLATION") or l.startswith("KNOWN-FINDING")]
            lines.sort(key=lambda l: not l.startswith("VIOLATION"))
            res["checks"][c] = dict(rc=rc, wall=round(time.time() - t), lines=lines[:8])
            for l in lines:
                if l.startswith("VIOLATION") and "replay=" in l:
                    rp = l.split("replay=")[1].split()[0]
                    try:
                        d = json.load(open(rp))
                        v = (d.get("violations") or d.get("broken") or [{}])[0]
                        res["checks"][c]["first"] = {k: v.get(k) for k in ("kind", "op", "key", "what") if k in v}
                    except Exception: pass
    finally:
        sh("git -C /repo checkout -- .")
print(json.dumps(res, indent=1))
dst = "/verif/seeded/%s" % sid
if res["confirmed"]:
    os.makedirs(dst, exist_ok=True)
    for f in ("patch.diff", "demo.py"): shutil.copy(os.path.join(src, f), dst)
    meta = json.load(open(os.path.join(src, "meta.json")))
    meta["confirmation"] = {k: res[k] for k in ("suite", "demo_without_change", "demo_with_change")}
    meta["checks_run"] = res["checks"]
    meta["what_was_run"] = "scratch worktree: git apply patch.diff; pytest (suite); demo.py with and without the change. Then git -C /repo apply; ./check quick <ids>; git -C /repo checkout -- ."
    json.dump(meta, open(os.path.join(dst, "meta.json"), "w"), indent=1)
