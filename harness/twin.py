"""Plain-Python reference ("twin") of the shared program language on ints (C05) and on exact
fixed-point representations (C14): the direct oracle for value semantics."""
from fractions import Fraction


class TwinRaise(Exception):
    pass


class Fx:
    """fixed-point value: integer representation rep = v * 2^r (exact)"""
    def __init__(self, rep): self.rep = rep


def _floor_div(a, b):
    if b == 0: raise TwinRaise("division by zero")
    return a // b


class Twin:
    def __init__(self, cfg):
        self.n = cfg["n"]; self.r = cfg["res"]; self.R = 1 << cfg["res"]
        self.dom_ok = True       # every operation so far stayed inside the documented domain
        self.notes = []

    # ---- domain bookkeeping
    def fits(self, v, what=""):
        if isinstance(v, Fx): v = v.rep
        if isinstance(v, int) and not (-(1 << (self.n - 1)) < v < (1 << (self.n - 1))):
            self.dom_ok = False

    def tofx(self, v):
        if isinstance(v, Fx): return v
        if isinstance(v, float):
            x = Fraction(v) * self.R
            return Fx(int(x) if x >= 0 else -int(-x))        # int() truncates toward zero
        if isinstance(v, int): return Fx(v * self.R)
        raise TwinRaise("bad fxp operand")

    def binop(self, op, a, b):
        if isinstance(a, Fx) or isinstance(b, Fx) or isinstance(a, float) or isinstance(b, float):
            return self.fxop(op, a, b)
        if isinstance(a, (list, tuple)) or isinstance(b, (list, tuple)) or a is None or b is None: raise TwinRaise("type")
        self.fits(a); self.fits(b)
        if op == "add": return a + b
        if op == "sub": return a - b
        if op == "mul": return a * b
        if op == "truediv":
            if b == 0: raise TwinRaise("zero division")
            if a % b != 0: raise TwinRaise("inexact")
            return a // b
        if op == "floordiv": return _floor_div(a, b)
        if op == "mod":
            if b == 0: raise TwinRaise("zero division")
            return a % b
        if op == "divmod":
            if b == 0: raise TwinRaise("zero division")
            return (a // b, a % b)
        if op == "pow":
            if b < 0: raise TwinRaise("negative exponent")
            if b > 64 or abs(a) > (1 << 64): self.dom_ok = False
            if b > 4096: raise TwinRaise("huge")
            return a ** b
        if op in ("lshift", "rshift") and b >= self.n: self.dom_ok = False     # shifting by the full width or more
        if op == "lshift":
            if b < 0: raise TwinRaise("negative shift")
            if b > 4096: raise TwinRaise("huge")
            return a << b
        if op == "rshift":
            if b < 0: raise TwinRaise("negative shift")
            if a < 0: self.dom_ok = False
            return a >> b
        if op in ("and", "or", "xor"):
            if isinstance(a, bool) != isinstance(b, bool) and (a not in (0, 1) or b not in (0, 1)): self.dom_ok = False
            if a < 0 or b < 0: self.dom_ok = False         # documented for non-negative operands
            if a >= (1 << self.n) or b >= (1 << self.n): self.dom_ok = False
            res = {"and": a & b, "or": a | b, "xor": a ^ b}[op]
            # a LinCombBool combined with a 0/1 int stays a LinCombBool in pysnark (Python would give an int)
            if (isinstance(a, bool) or isinstance(b, bool)) and res in (0, 1): res = bool(res)
            return res
        if op in ("lt", "le", "eq", "ne", "gt", "ge"):
            if isinstance(a, bool) != isinstance(b, bool) and (a not in (0, 1) or b not in (0, 1)): self.dom_ok = False
            self.fits(a - b); self.fits(b - a)
            return {"lt": a < b, "le": a <= b, "eq": a == b, "ne": a != b, "gt": a > b, "ge": a >= b}[op]
        raise TwinRaise("op")

    def fxop(self, op, a, b):
        """C14: fixed-point semantics on exact representations"""
        if isinstance(a, (list, tuple)) or isinstance(b, (list, tuple)) or a is None or b is None: raise TwinRaise("type")
        if op in ("and", "or", "xor", "pow", "lshift", "rshift"):
            if op == "pow" and isinstance(a, Fx) and isinstance(b, int) and not isinstance(b, bool):
                if b < 0: raise TwinRaise("negative exponent")
                if b > 64: raise TwinRaise("huge")
                if b == 0: return Fx(self.R)
                acc = a.rep
                for _ in range(b - 1): acc = (a.rep * acc) // self.R        # self * self ** (k-1), each product floored
                return Fx(acc)
            if op in ("lshift", "rshift") and isinstance(a, Fx) and isinstance(b, int):
                if b < 0: raise TwinRaise("negative shift")
                if op == "rshift" and a.rep < 0: self.dom_ok = False
                return Fx(a.rep << b if op == "lshift" else a.rep >> b)
            raise TwinRaise("unsupported on fixed point")
        # integer operand kept as integer for exact scaling rules
        if op == "mul" and isinstance(b, int) and isinstance(a, Fx): return Fx(a.rep * b)
        if op == "mul" and isinstance(a, int) and isinstance(b, Fx): return Fx(b.rep * a)
        if op == "truediv" and isinstance(b, int) and isinstance(a, Fx):
            if b == 0: raise TwinRaise("zero division")
            return Fx(a.rep // b)
        x, y = self.tofx(a), self.tofx(b)
        self.fits(x.rep); self.fits(y.rep)
        if op == "add": return Fx(x.rep + y.rep)
        if op == "sub": return Fx(x.rep - y.rep)
        if op == "mul": return Fx((x.rep * y.rep) // self.R)
        if op == "truediv":
            if y.rep == 0: raise TwinRaise("zero division")
            return Fx((x.rep * self.R) // y.rep)
        if op in ("floordiv", "mod", "divmod"):
            if y.rep == 0: raise TwinRaise("zero division")
            q, rm = x.rep // y.rep, x.rep % y.rep
            res = (Fx(q * self.R), Fx(rm))
            return res[0] if op == "floordiv" else res[1] if op == "mod" else res
        if op in ("lt", "le", "eq", "ne", "gt", "ge"):
            a_, b_ = x.rep, y.rep
            self.fits(a_ - b_); self.fits(b_ - a_)
            return {"lt": a_ < b_, "le": a_ <= b_, "eq": a_ == b_, "ne": a_ != b_, "gt": a_ > b_, "ge": a_ >= b_}[op]
        raise TwinRaise("op")

    def unop(self, op, a):
        if isinstance(a, Fx):
            if op == "neg": return Fx(-a.rep)
            if op == "pos": return a
            if op == "abs": return Fx(abs(a.rep))
            raise TwinRaise("type")
        if not isinstance(a, int): raise TwinRaise("type")
        self.fits(a)
        if op == "neg": return -a
        if op == "pos": return a
        if op == "abs": return abs(a)
        if op == "invert":
            if isinstance(a, bool): return not a          # LinCombBool.__invert__ is documented as logical not
            if a < 0: self.dom_ok = False
            return ~a
        raise TwinRaise("op")

    def meth(self, name, k, recv, args):
        n = self.n if k is None else k
        if isinstance(recv, bool) and name.startswith("assert_") and any(isinstance(a, int) and not isinstance(a, bool) and a not in (0, 1) for a in args):
            self.dom_ok = False          # a LinCombBool method coerces its argument to a boolean: a non-boolean number is outside its domain
        if name == "from_bits":
            return sum(b << i for i, b in enumerate(recv))
        v = recv.rep if isinstance(recv, Fx) else recv
        if not isinstance(v, int): raise TwinRaise("type")
        self.fits(v)
        conv = (lambda x: self.tofx(x).rep) if isinstance(recv, Fx) else (lambda x: x)
        if name == "to_bits":
            if not (0 <= v < (1 << n)): raise TwinRaise("range")
            return [bool((v >> i) & 1) for i in range(n)]
        if name == "check_positive":
            if not (-(1 << n) <= v < (1 << n)): self.dom_ok = False
            return v >= 0
        if name == "assert_positive":
            if not (0 <= v < (1 << n)): raise TwinRaise("assert")
            return None
        if name == "check_zero": return v == 0
        if name == "check_nonzero": return v != 0
        if name == "assert_zero":
            if v != 0: raise TwinRaise("assert")
            return None
        if name == "assert_nonzero":
            if v == 0: raise TwinRaise("assert")
            return None
        if name == "assert_range":
            lo, hi = conv(args[0]), conv(args[1])
            if not (lo <= v < hi): raise TwinRaise("assert")
            self.fits(v - lo); self.fits(hi - v)
            return None
        if name.startswith("assert_"):
            o = conv(args[0])
            rel = {"lt": v < o, "le": v <= o, "eq": v == o, "ne": v != o, "gt": v > o, "ge": v >= o}[name[7:]]
            if not rel: raise TwinRaise("assert")
            self.fits(v - o); self.fits(o - v)
            return None
        if name == "val": return None
        raise TwinRaise("meth")


# reasons for which the TWIN gives up (not Python exceptions): nothing can be concluded from them
LIMITS = {"huge", "type", "not in twin language", "meth", "stmt", "op", "unsupported on fixed point", "non-boolean", "non-boolean condition",
          "OverflowError", "MemoryError", "KeyError", "TypeError", "IndexError"}


def run_twin(case, max_pc=None):
    """Returns (outs, raised_at_pc or None, twin, dom_ok_at): outs = list of per-statement plain results
    [(pc, value)], aligned with the implementation's statement counter."""
    tw = Twin(case["cfg"])
    regs = {}
    outs = []
    pc = [0]
    dom_at = {}
    def go(prog):
        for s in prog:
            pc[0] += 1
            if max_pc is not None and pc[0] > max_pc: return
            op = s[0]
            before = tw.dom_ok
            if op == "guarded" or op == "ignore": raise TwinRaise("not in twin language")
            d = s[1]
            if op == "input":
                v = case["ins"][s[3]]
                if s[2].endswith("bool"):
                    if v not in (0, 1): raise TwinRaise("non-boolean")
                    v = bool(v)
                elif s[2].endswith("fxp"): v = Fx(v * tw.R)
            elif op == "const": v = s[2][1] if s[2][0] == "int" else float(s[2][1]) / float(2 ** s[2][2])
            elif op == "constval": v = s[2]
            elif op == "un": v = tw.unop(s[2], regs[s[3]])
            elif op == "bin": v = tw.binop(s[2], regs[s[3]], regs[s[4]])
            elif op == "ite":
                c = regs[s[2]]
                if s[3] == s[4]: v = regs[s[3]]
                else:
                    if c not in (0, 1): raise TwinRaise("non-boolean condition")
                    v = regs[s[3]] if c == 1 else regs[s[4]]
            elif op == "list": v = [regs[i] for i in s[2]]
            elif op == "index": v = regs[s[2]][s[3]]
            elif op == "meth": v = tw.meth(s[2], s[3], regs[s[4]], [regs[i] for i in s[5]])
            else: raise TwinRaise("stmt")
            regs[d] = v
            outs.append((pc[0], v))
            dom_at[pc[0]] = tw.dom_ok
    raised = None
    try:
        go(case["prog"])
    except TwinRaise as e:
        raised = (pc[0], str(e))
    except (ZeroDivisionError, ValueError, OverflowError, TypeError, KeyError, IndexError, MemoryError) as e:
        raised = (pc[0], type(e).__name__)
    return outs, raised, tw, dom_at
