"""Deterministic case matrices shared by several property checks.

assertion_contexts: every assertion / decomposition / division method x receiver kind x argument kind x a small set of
satisfying and violating operand values x the ways a statement can be reached (plain, inside guarded regions with a true or a
false guard, nested, lazy if_then_else branch taken / not taken, block-API _if taken / not taken).  Random generation reaches
each cell only occasionally; the properties quantify over all of them."""
import progs

BIN_ASSERTS = ["assert_lt", "assert_le", "assert_gt", "assert_ge", "assert_eq", "assert_ne"]
ARG_KINDS = {"lc": ["lc", "int"], "bool": ["bool", "lc", "int"], "fxp": ["fxp", "int", "lc", "float", "bool"]}
CONTEXTS = ["plain", "g1", "g0", "g1g1", "g1g0", "lazy1", "lazy0", "if1", "if0"]
QUICK_CONTEXTS = ["plain", "g1", "g0", "g1g1", "lazy1", "if1", "if0"]


def _operand(prog, nreg, kind, slot, val):
    """a register of the given kind carrying val; slot = index into ins for secret kinds"""
    d = nreg[0]; nreg[0] += 1
    if kind == "lc": prog.append(["input", d, "priv", slot])
    elif kind == "bool": prog.append(["input", d, "privbool", slot])
    elif kind == "fxp": prog.append(["input", d, "privfxp", slot])
    elif kind == "int": prog.append(["const", d, ["int", val]])
    elif kind == "float": prog.append(["const", d, ["float", val * 2, 1]])      # val as the dyadic 2*val / 2
    return d


def _wrap(ctx, stmts, nreg, res_reg):
    """statements reaching `stmts` through the context; guard / condition inputs use ins[2] (outer) and ins[3] (inner)"""
    pre = []
    g = nreg[0]; nreg[0] += 1
    pre.append(["input", g, "priv", 2])
    if ctx == "plain": return stmts, (1, 1)
    if ctx in ("g1", "g0"): return pre + [["guarded", g, stmts]], ((1, 1) if ctx == "g1" else (0, 1))
    if ctx in ("g1g1", "g1g0"):
        g2 = nreg[0]; nreg[0] += 1
        return pre + [["input", g2, "priv", 3], ["guarded", g, [["guarded", g2, stmts]]]], ((1, 1) if ctx == "g1g1" else (1, 0))
    one = nreg[0]; nreg[0] += 1
    cb = nreg[0]; nreg[0] += 1
    pre += [["const", one, ["int", 1]], ["bin", cb, "eq", g, one]]                # a LinCombBool condition
    if ctx in ("lazy1", "lazy0"):
        d = nreg[0]; nreg[0] += 1
        return pre + [["itelazy", d, cb, stmts, g, [], g]], ((1, 1) if ctx == "lazy1" else (0, 1))
    if ctx in ("if1", "if0"):
        return pre + [["oif", cb, stmts, [], None]], ((1, 1) if ctx == "if1" else (0, 1))
    raise ValueError(ctx)


MAIN_KINDS = (("lc", "lc"), ("lc", "int"), ("fxp", "bool"), ("fxp", "fxp"), ("bool", "bool"), ("fxp", "lc"))


def assertion_contexts(tier="quick", ps=None, n=8, ctxs=None, bin_ctxs=None):
    ps = ps or [progs.BN]
    out = []
    ctxs = ctxs or (QUICK_CONTEXTS if tier == "quick" else CONTEXTS)
    bin_ctxs = bin_ctxs or (["plain", "g1", "g0", "if1"] if tier == "quick" else ctxs)
    pairs = [(2, 5), (5, 5), (5, 2), (0, 1), (1, 0), (1, 1), (-1, 0)]
    def add(build, vals, ctx, p, label):
        prog, nreg = [], [0]
        ins = [0, 0, 0, 0]
        stmts, res = build(prog, nreg, ins, vals)
        again = []
        if ctx.endswith("+plain"):
            # the same statement once more, on fresh registers, after the region has ended
            pre2 = []
            again, _ = build(pre2, nreg, ins, vals)
            again = pre2 + again
        body, (gv, gv2) = _wrap(ctx.split("+")[0], stmts, nreg, res)
        ins[2], ins[3] = gv, gv2
        out.append(dict(cfg=dict(p=p, n=n, res=2, ign=0), prog=prog + body + again, ins=ins, matrix=label + ":" + ctx, pybool=len(out) % 2))
    for p in ps:
        for ctx in ctxs:
            # binary assertions: receiver kind x argument kind x value pairs
            for m in BIN_ASSERTS:
                for rk, aks in ARG_KINDS.items():
                    for ak in aks:
                        for (x, y) in pairs:
                            if rk == "bool" and x not in (0, 1): continue
                            if ak == "bool" and y not in (0, 1): continue
                            if ctx not in bin_ctxs: continue
                            if tier == "quick":
                                if (rk, ak) in MAIN_KINDS:
                                    if (x, y) not in ((2, 5), (5, 5), (5, 2), (0, 1), (1, 1), (1, 0)): continue
                                    if "bool" not in (rk, ak) and (x, y) in ((0, 1), (1, 1), (1, 0)): continue
                                elif (x, y) not in ((5, 2), (1, 0)): continue
                            def build(prog, nreg, ins, vals, m=m, rk=rk, ak=ak):
                                x, y = vals
                                ins[0], ins[1] = x, y
                                a = _operand(prog, nreg, rk, 0, x); b = _operand(prog, nreg, ak, 1, y)
                                d = nreg[0]; nreg[0] += 1
                                return [["meth", d, m, None, a, [b]]], a
                            add(build, (x, y), ctx, p, "%s:%s:%s:%d,%d" % (m, rk, ak, x, y))
            # unary assertions / decompositions on a secret integer
            for m, k, vals in (("assert_zero", None, [0, 3, -1]), ("assert_nonzero", None, [0, 3]), ("assert_positive", None, [5, -1, 2 ** n]),
                               ("assert_positive", 3, [5, 8, -1]), ("to_bits", None, [5, 2 ** n, -1]), ("to_bits", 3, [7, 8]),
                               ("check_positive", None, [5, -5, 2 ** n + 1]), ("check_zero", None, [0, 4]), ("check_nonzero", None, [0, 4])):
                for x in vals:
                    def build(prog, nreg, ins, vals, m=m, k=k):
                        ins[0] = vals
                        a = _operand(prog, nreg, "lc", 0, vals)
                        d = nreg[0]; nreg[0] += 1
                        return [["meth", d, m, k, a, []]], a
                    add(build, x, ctx, p, "%s:%r:%d" % (m, k, x))
            # assert_zero on the other classes (LinCombBool, LinCombFxp)
            for rk, vals in (("bool", [0, 1]), ("fxp", [0, 2])):
                for x in vals:
                    def build(prog, nreg, ins, vals, rk=rk):
                        ins[0] = vals
                        a = _operand(prog, nreg, rk, 0, vals)
                        d = nreg[0]; nreg[0] += 1
                        return [["meth", d, "assert_zero", None, a, []]], a
                    add(build, x, ctx, p, "assert_zero:%s:%d" % (rk, x))
            # assert_range with int bounds
            for (x, lo, hi) in ((3, 0, 5), (5, 0, 5), (-1, 0, 5), (0, 0, 1)):
                def build(prog, nreg, ins, vals):
                    x, lo, hi = vals
                    ins[0] = x
                    a = _operand(prog, nreg, "lc", 0, x); l = _operand(prog, nreg, "int", 1, lo); h = _operand(prog, nreg, "int", 1, hi)
                    d = nreg[0]; nreg[0] += 1
                    return [["meth", d, "assert_range", None, a, [l, h]]], a
                add(build, (x, lo, hi), ctx, p, "assert_range:%d,%d,%d" % (x, lo, hi))
            # divisions (exact quotient / zero divisor / inexact)
            for op in ("truediv", "floordiv", "mod"):
                for (x, y) in ((6, 3), (7, 3), (6, 0), (-6, 3)):
                    for ak in ("lc", "int"):
                        if ak == "int" and y == 0 and tier == "quick": continue
                        def build(prog, nreg, ins, vals, op=op, ak=ak):
                            x, y = vals
                            ins[0], ins[1] = x, y
                            a = _operand(prog, nreg, "lc", 0, x); b = _operand(prog, nreg, ak, 1, y)
                            d = nreg[0]; nreg[0] += 1
                            return [["bin", d, op, a, b]], d
                        add(build, (x, y), ctx, p, "%s:%s:%d,%d" % (op, ak, x, y))
    return out


def with_pending(pending, profile):
    """casegen that first hands out the pending (deterministic) cases, then random programs of the profile"""
    gen = [None]
    pend = list(reversed(pending))
    def casegen(rnd):
        if pend: return pend.pop()
        if gen[0] is None: gen[0] = progs.Gen(rnd, profile)
        return gen[0].case()
    return casegen


def hash_then_use(p=None):
    """a hash gadget (whose implementation accumulates sums starting from the library's shared constants) followed by
    comparisons and assertions that rely on those constants: the constants must still be what they were"""
    p = p or progs.BN
    out = []
    for kind in ("poseidon", "permute"):
        nin = 5 if kind == "permute" else 3
        for (x, y) in ((3, 3), (3, 4)):
            prog = [["input", i, "priv", i % 4] for i in range(nin)] + [["list", nin, list(range(nin))], [kind, nin + 1, "nobackend", nin]]
            r = nin + 2
            prog += [["bin", r, "eq", 0, 1], ["bin", r + 1, "ne", 0, 1], ["bin", r + 2, "sub", 0, 0], ["meth", r + 3, "assert_zero", None, r + 2, []],
                     ["bin", r + 4, "lt", 0, 1], ["meth", r + 5, "check_zero", None, r + 2, []], [kind, r + 6, "nobackend", nin], ["bin", r + 7, "eq", 0, 1]]
            out.append(dict(cfg=dict(p=p, n=8, res=2, ign=0), prog=prog, ins=[x, y, 7, 1], matrix="%s-then-use:%d,%d" % (kind, x, y)))
    return out


ALL_BIN = ["add", "sub", "mul", "truediv", "floordiv", "mod", "pow", "lshift", "rshift", "and", "or", "xor", "lt", "le", "eq", "ne", "gt", "ge"]


def operator_kinds(n=8, p=None, kinds=None):
    """one program per binary operator x operand-kind pair (secret int, fixed point, boolean, int, float on either side)"""
    p = p or progs.BN
    kinds = kinds or ["lc", "fxp", "bool", "int", "float"]
    out = []
    for op in ALL_BIN:
        for ka in kinds:
            for kb in kinds:
                if ka in ("int", "float") and kb in ("int", "float"): continue
                prog, nreg = [], [0]
                x, y = (1, 1) if "bool" in (ka, kb) else (6, 3)
                if op in ("pow", "lshift", "rshift") and kb in ("int", "float"): y = 2
                a = _operand(prog, nreg, ka, 0, x if ka != "bool" else 1); b = _operand(prog, nreg, kb, 1, y if kb != "bool" else 1)
                d = nreg[0]; nreg[0] += 1
                prog.append(["bin", d, op, a, b])
                out.append(dict(cfg=dict(p=p, n=n, res=2, ign=0), prog=prog, ins=[x if ka != "bool" else 1, y if kb != "bool" else 1, 1, 1],
                                matrix="op:%s:%s:%s" % (op, ka, kb), kinds=(ka, kb)))
    return out


def sign_variants(case):
    """the same program on operands of other signs / zero / beyond the bitlength, with error checking off (so that it completes)"""
    import copy
    n = case["cfg"]["n"]
    ka, kb = case["kinds"]
    out = []
    for (x, y) in ((6, -3), (-6, 3), (-6, -3), (0, 3), (6, 0), (7, 3), (2 ** n + 1, 3), (6, 2 ** n)):
        if ka == "bool": x = 0 if x <= 0 else 1
        if kb == "bool": y = 0 if y <= 0 else 1
        if ka in ("int", "float") or kb in ("int", "float"):
            continue          # constants are part of the program: only secret operands vary
        v = copy.deepcopy(case); v["cfg"]["ign"] = 1; v["ins"] = [x, y, 1, 1]
        out.append(v)
    if not out:
        for (x, y) in ((-6, 3), (0, 3), (2 ** n + 1, 3)):
            v = copy.deepcopy(case); v["cfg"]["ign"] = 1
            xv = x if ka != "bool" else (0 if x <= 0 else 1)
            yv = x if kb != "bool" else (0 if x <= 0 else 1)
            v["ins"] = [xv if ka not in ("int", "float") else case["ins"][0], yv if kb not in ("int", "float") else case["ins"][1], 1, 1]
            out.append(v)
    v = copy.deepcopy(case); v["cfg"]["ign"] = 1
    out.append(v)
    return out


def cancellation_cases(p=None):
    """linear combinations in which terms cancel exactly (x - x, (x+y+z) - x, (x+1) - 1, 2x + y - x - x), coefficients that are exact
    multiples of the prime ((x/3)*3 - x, x - (x/3)*3, x*(2p), values -p, -2p), and combinations over the same variables that differ in one
    coefficient only (-1 against -2, 1 against 2); every result is used in a constraint"""
    p = p or progs.BN
    out = []
    def case(stmts, ins, tag): out.append(dict(cfg=dict(p=p, n=8, res=2, ign=0), prog=[["input", 0, "priv", 0], ["input", 1, "priv", 1], ["input", 2, "priv", 2]] + stmts, ins=ins, matrix="cancellation:" + tag))
    c = lambda r, k: ["const", r, ["int", k]]
    case([["bin", 3, "add", 0, 1], ["bin", 4, "add", 3, 2], ["bin", 5, "sub", 4, 0], ["bin", 6, "mul", 5, 5], ["bin", 7, "sub", 0, 0], ["bin", 8, "mul", 7, 1]], [3, 4, 5, 1], "x+y+z-x")
    case([c(3, 1), ["bin", 4, "add", 0, 3], ["bin", 5, "sub", 4, 3], ["bin", 6, "mul", 5, 1], c(7, 2), ["bin", 8, "mul", 0, 7], ["bin", 9, "add", 8, 1], ["bin", 10, "sub", 9, 0], ["bin", 11, "sub", 10, 0], ["bin", 12, "mul", 11, 11]], [3, 4, 5, 1], "x+1-1")
    case([c(3, 3), ["bin", 4, "truediv", 0, 3], ["bin", 5, "mul", 4, 3], ["bin", 6, "sub", 5, 0], ["bin", 7, "mul", 6, 1], ["bin", 8, "sub", 0, 5], ["bin", 9, "mul", 8, 1]], [6, 4, 5, 1], "(x/3)*3-x")
    case([c(3, 2 * p), ["bin", 4, "mul", 0, 3], ["bin", 5, "mul", 4, 1], c(6, -p), ["bin", 7, "mul", 1, 6], ["bin", 8, "add", 7, 0], ["bin", 9, "mul", 8, 8]], [3, 4, 5, 1], "x*2p")
    case([c(3, 1), c(4, 2), c(5, 3), ["bin", 6, "sub", 0, 3], ["bin", 7, "sub", 0, 4], ["bin", 8, "sub", 0, 5], ["bin", 9, "mul", 6, 7], ["bin", 10, "mul", 9, 8],
          ["bin", 11, "sub", 0, 1], ["bin", 12, "sub", 11, 1], ["bin", 13, "mul", 11, 2], ["bin", 14, "mul", 12, 2]], [2, 4, 5, 1], "(x-1)(x-2)(x-3)")
    case([["bin", 3, "mul", 0, 1], ["bin", 4, "mul", 3, 2]], [-p, -4, p, 1], "values-p")
    case([["bin", 3, "mul", 0, 1], ["bin", 4, "mul", 3, 2]], [-2 * p, 3, -p - 1, 1], "values-2p")
    return out


def suppressed_operator_cases(tier="quick", n=8, p=None):
    """operators on operands for which the run-time check would raise (inexact / zero / negative divisor, operands beyond the
    bitlength, negative shift operands), reached where the library suppresses the error: ignore_errors(True), a false guard,
    a lazy branch that is not taken, a block-API _if that is not taken.  What the objects report must still be what their
    wires evaluate to (C04); the traces must still match the model."""
    p = p or progs.BN
    out = []
    if tier == "quick":
        ops = ["truediv", "floordiv", "mod", "lt", "rshift", "pow", "mul"]
        kinds = [("lc", "lc"), ("lc", "int"), ("fxp", "int"), ("fxp", "fxp")]
        ctxs = ["ign", "g0"]
    else:
        ops = ALL_BIN
        kinds = [("lc", "lc"), ("lc", "int"), ("int", "lc"), ("fxp", "int"), ("fxp", "fxp"), ("fxp", "lc"), ("lc", "fxp"), ("bool", "lc"), ("lc", "bool")]
        ctxs = ["ign", "g0", "lazy0", "if0", "g1g0"]
    pairs = [(7, 3), (6, 0), (-7, 3), (2 ** n + 1, 3), (7, -3)]
    for op in ops:
        for (ka, kb) in kinds:
            for (x, y) in pairs:
                if op in ("pow", "lshift", "rshift") and kb in ("int",) and y <= 0: continue
                if ka == "bool" and x not in (0, 1): x = 1
                if kb == "bool" and y not in (0, 1): y = 1
                for ctx in (ctxs + (["lazy0"] if tier == "quick" and op == "truediv" else [])):
                    prog, nreg = [], [0]
                    a = _operand(prog, nreg, ka, 0, x); b = _operand(prog, nreg, kb, 1, y)
                    d = nreg[0]; nreg[0] += 1
                    stmts = [["bin", d, op, a, b]]
                    # the result is used once more inside the region (its value feeds a further constraint)
                    e = nreg[0]; nreg[0] += 1
                    stmts.append(["bin", e, "mul", d, a] if ka != "int" else ["bin", e, "mul", d, b])
                    ins = [x, y, 0, 0]
                    if ctx == "ign":
                        body, gv = stmts, (1, 1)
                    else:
                        body, gv = _wrap(ctx, stmts, nreg, d)
                    ins[2], ins[3] = gv
                    out.append(dict(cfg=dict(p=p, n=n, res=2, ign=1 if ctx == "ign" else 0), prog=prog + body, ins=ins,
                                    matrix="suppressed:%s:%s:%s:%d,%d:%s" % (op, ka, kb, x, y, ctx)))
    return out


def bigdiv_cases(p=None):
    """exact divisions whose quotient does not fit a float (above 2^53, odd low bits), by public and secret divisors"""
    p = p or progs.BN
    out = []
    for n, big in ((100, 2 ** 64 + 2 ** 40 + 12345), (100, -(2 ** 70) - 7), (62, 3 * 2 ** 57 + 3), (100, 2 ** 80 + 1)):
        for d in (3, 7, -3):
            for kb in ("int", "lc"):
                for op in ("truediv", "floordiv"):
                    prog = [["input", 0, "priv", 0], (["const", 1, ["int", d]] if kb == "int" else ["input", 1, "priv", 1]), ["bin", 2, op, 0, 1]]
                    out.append(dict(cfg=dict(p=p, n=n, res=2, ign=0), prog=prog, ins=[big * d, d, 1, 1], matrix="bigdiv:%s:%s" % (op, kb)))
    return out

def midprove_cases(p):
    """prove() called in the middle of a session and again at the end (notebook / REPL use): new public values, with and without
    new constraints, between the two calls; the artefacts of the last call describe the whole trace"""
    out = []
    base = [["input", 0, "priv", 1], ["bin", 1, "mul", 0, 0]]
    tails = [[["input", 2, "pub", 2]],                                                             # a new public value, no new constraint
             [["input", 2, "pub", 2], ["bin", 3, "mul", 0, 2], ["meth", 4, "val", None, 3, []]],     # new public values and constraints
             [["meth", 2, "val", None, 1, []]],
             [["input", 2, "priv", 2], ["bin", 3, "mul", 2, 1]]]
    for t in tails:
        out.append(dict(cfg=dict(p=p, n=8, res=2, ign=0), prog=base + t, ins=[1, 3, 5, 1], prove_at=2))
    # coefficients far outside (-p, 2p): products of field inverses, constants wider than the field
    out.append(dict(cfg=dict(p=p, n=8, res=2, ign=0), prog=[["input", 0, "priv", 1], ["input", 1, "priv", 2], ["const", 2, ["int", 3]], ["bin", 3, "truediv", 0, 2], ["const", 4, ["int", 5]],
                                                             ["bin", 5, "truediv", 3, 4], ["bin", 6, "mul", 5, 1], ["const", 7, ["int", -5]], ["bin", 8, "mul", 3, 7], ["bin", 9, "mul", 8, 1],
                                                             ["const", 10, ["int", 3 * 2 ** 300 + 1]], ["bin", 11, "mul", 0, 10], ["bin", 12, "mul", 11, 1]], ins=[1, 15, 7, 1]))
    return out
