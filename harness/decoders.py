"""Independent decoders (direct oracles) for the artefact formats: iden3 .wtns / .r1cs."""


class Bad(Exception):
    pass


class Rd:
    def __init__(s, b): s.b = b; s.i = 0
    def take(s, n):
        if s.i + n > len(s.b): raise Bad("truncated at %d (+%d)" % (s.i, n))
        r = s.b[s.i:s.i + n]; s.i += n
        return r
    def u(s, n): return int.from_bytes(s.take(n), "little")
    def eof(s): return s.i == len(s.b)


def decode_wtns(b):
    r = Rd(b)
    if r.take(4) != b"wtns": raise Bad("magic")
    if r.u(4) != 2: raise Bad("version")
    if r.u(4) != 2: raise Bad("number of sections")
    if r.u(4) != 1: raise Bad("section 1 id")
    l1 = r.u(8); fs = r.u(4)
    if l1 != 4 + fs + 4: raise Bad("section 1 size")
    prime = r.u(fs); nw = r.u(4)
    if r.u(4) != 2: raise Bad("section 2 id")
    if r.u(8) != nw * fs: raise Bad("section 2 size %d" % nw)
    vals = [r.u(fs) for _ in range(nw)]
    if not r.eof(): raise Bad("trailing bytes after last declared section")
    for i, v in enumerate(vals):
        if v >= prime: raise Bad("non-canonical field element in witness[%d]" % i)
    return prime, vals


def decode_r1cs(b):
    r = Rd(b)
    if r.take(4) != b"r1cs": raise Bad("magic")
    if r.u(4) != 1: raise Bad("version")
    if r.u(4) != 3: raise Bad("number of sections")
    if r.u(4) != 1: raise Bad("section 1 id")
    l1 = r.u(8); fs = r.u(4)
    if l1 != 4 + fs + 4 * 4 + 8 + 4: raise Bad("header size")
    prime = r.u(fs); nw = r.u(4); npo = r.u(4); npi = r.u(4); nvi = r.u(4); nlab = r.u(8); ncon = r.u(4)
    if r.u(4) != 2: raise Bad("section 2 id")
    l2 = r.u(8)
    start = r.i
    cons = []
    for _ in range(ncon):
        tri = []
        for _ in range(3):
            n = r.u(4); lc = []
            for _ in range(n):
                w = r.u(4); c = r.u(fs)
                if c >= prime: raise Bad("non-canonical coefficient")
                if w >= nw: raise Bad("wire id out of range")
                lc.append((w, c))
            tri.append(lc)
        cons.append(tri)
    if r.i - start != l2: raise Bad("constraints section: declared size %d, actual %d" % (l2, r.i - start))
    if r.u(4) != 3: raise Bad("section 3 id")
    if r.u(8) != 8 * nw: raise Bad("wire map size")
    wmap = [r.u(8) for _ in range(nw)]
    if not r.eof(): raise Bad("trailing bytes after last declared section")
    return dict(prime=prime, nwires=nw, npubout=npo, npubin=npi, nprvin=nvi, nlabels=nlab, cons=cons, wmap=wmap)
