"""Generator and plain-list twin for pysnark.array.Array programs (C15)."""
import random


def gen_case(rnd, moduli):
    p = rnd.choice(moduli)
    n = rnd.choice([4, 5, 6])
    while 2 ** (n + 1) > p: n -= 1
    cfg = dict(p=p, n=n, res=1, ign=0)
    prog = []
    nreg = [0]
    def reg():
        nreg[0] += 1; return nreg[0] - 1
    ins = []
    def secret(v):
        r = reg(); prog.append(["input", r, "priv", len(ins)]); ins.append(v); return r
    def const(v):
        r = reg(); prog.append(["const", r, ["int", v]]); return r
    two_d = rnd.random() < 0.35
    small = lambda: rnd.randrange(0, 4)
    def elem():
        return secret(small()) if rnd.random() < 0.6 else const(small())
    if two_d:
        rows, cols = rnd.choice([2, 3]), rnd.choice([2, 3])
        rregs = []
        for _ in range(rows):
            es = [elem() for _ in range(cols)]
            rr = reg(); prog.append(["arrnew", rr, es]); rregs.append(rr)
        a = reg(); prog.append(["arrnew", a, rregs])
        shape = (rows, cols)
    else:
        ln = rnd.choice([1, 2, 3, 4])
        es = [elem() for _ in range(ln)]
        a = reg(); prog.append(["arrnew", a, es])
        shape = (ln,)
    def index(dim, allow_out):
        hi = shape[dim]
        if rnd.random() < 0.75:
            v = rnd.randrange(0, hi)
            if allow_out and rnd.random() < 0.12: v = rnd.choice([-1, hi, hi + 1])
            return secret(v)
        return const(rnd.randrange(0, hi))
    for _ in range(rnd.choice([2, 3, 4, 5])):
        idx = [index(d, True) for d in range(len(shape))]
        if two_d and rnd.random() < 0.2: idx = idx[:1]          # read a whole row
        if rnd.random() < 0.5 or len(idx) < len(shape):
            prog.append(["arrget", reg(), a, idx])
        else:
            prog.append(["arrset", a, idx, elem()])
    if rnd.random() < 0.4:
        # copies: Array(row) of a row read with a secret index (or Array(a) of a 1-D array), taken twice; a write into one copy
        # must not show through the other copy, the row or the original array
        if rnd.random() < 0.35:
            # two Arrays built from one and the same plain list object
            ln = rnd.choice([2, 3])
            src = reg(); prog.append(["list", src, [elem() for _ in range(ln)]])
        elif two_d:
            src = reg(); prog.append(["arrget", src, a, [secret(rnd.randrange(0, shape[0]))]])
            ln = shape[1]
        else:
            src = a; ln = shape[0]
        b1 = reg(); prog.append(["arrcopy", b1, src])
        b2 = reg(); prog.append(["arrcopy", b2, src])
        w = secret(rnd.randrange(0, ln)) if rnd.random() < 0.6 else const(rnd.randrange(0, ln))
        prog.append(["arrset", b1, [w], elem()])
        for k in range(ln):
            prog.append(["arrget", reg(), b1, [const(k)]])
            prog.append(["arrget", reg(), b2, [const(k)]])
    # read everything back with public indexes
    if two_d:
        for i in range(shape[0]):
            for j in range(shape[1]):
                prog.append(["arrget", reg(), a, [const(i), const(j)]])
    else:
        for i in range(shape[0]):
            prog.append(["arrget", reg(), a, [const(i)]])
    return dict(cfg=cfg, prog=prog, ins=ins)


class TwinIndexError(Exception):
    pass


def twin(case):
    """plain Python lists; returns {register: value} for registers produced by arrget (elements as ints, rows as lists)"""
    regs = {}
    ins = case["ins"]
    out = {}
    for s in case["prog"]:
        op = s[0]
        if op == "input": regs[s[1]] = ins[s[3]]
        elif op == "const": regs[s[1]] = s[2][1]
        elif op == "arrnew": regs[s[1]] = [regs[q] for q in s[2]]
        elif op == "arrcopy": regs[s[1]] = list(regs[s[2]])
        elif op == "list": regs[s[1]] = [regs[q] for q in s[2]]
        elif op == "arrget":
            v = regs[s[2]]
            for q in s[3]:
                i = regs[q]
                secret = case["prog"][[t[1] for t in case["prog"] if t[0] in ("input", "const")].index(q)][0] == "input" if False else None
                if not (-len(v) <= i < len(v)): raise TwinIndexError(s)
                if i < 0 and is_secret(case, q): raise TwinIndexError(s)       # a secret index must be in 0..len-1
                v = v[i]
            regs[s[1]] = v
            out[s[1]] = [list(x) if isinstance(x, list) else x for x in v] if isinstance(v, list) else v
            if isinstance(v, list): regs[s[1]] = v
        elif op == "arrset":
            v = regs[s[1]]
            idx = [regs[q] for q in s[2]]
            for q, i in zip(s[2][:-1], idx[:-1]):
                if not (0 <= i < len(v)) and is_secret(case, q): raise TwinIndexError(s)
                if not (-len(v) <= i < len(v)): raise TwinIndexError(s)
                # rows are copied by the secret-index path in pysnark; the plain list twin must not alias rows either
                v[i] = list(v[i])
                v = v[i]
            i = idx[-1]
            if not (0 <= i < len(v)) and is_secret(case, s[2][-1]): raise TwinIndexError(s)
            if not (-len(v) <= i < len(v)): raise TwinIndexError(s)
            v[i] = regs[s[3]]
    return out


def is_secret(case, q):
    for t in case["prog"]:
        if t[0] == "input" and t[1] == q: return True
        if t[0] == "const" and t[1] == q: return False
    return False
