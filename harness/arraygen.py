"""Generator and plain-list twin for pysnark.array.Array programs (C15)."""
import random


def gen_case(rnd, moduli):
    p = rnd.choice(moduli)
    n = rnd.choice([4, 5, 6])
    while 2 ** (n + 1) > p: n -= 1
    cfg = dict(p=p, n=n, res=1, ign=0)
    prog = []
    nreg = [0]
    def reg():
        nreg[0] += 1; return nreg[0] - 1
    ins = []
    def secret(v):
        r = reg(); prog.append(["input", r, "priv", len(ins)]); ins.append(v); return r
    cvals = {}
    def const(v):
        r = reg(); prog.append(["const", r, ["int", v]]); cvals[r] = v; return r
    two_d = rnd.random() < 0.35
    # the [row] * n idiom: every row of the matrix is ONE Array object.  Writes whose first index is secret re-bind rows (value
    # semantics, as in the model); a write through a public first index would mutate the shared object in place as plain Python
    # lists of lists do, so such writes are not generated for these arrays
    alias = two_d and rnd.random() < 0.3
    small = lambda: rnd.randrange(0, 4)
    def elem():
        return secret(small()) if rnd.random() < 0.6 else const(small())
    if two_d:
        rows, cols = rnd.choice([2, 3]), rnd.choice([2, 3])
        rregs = []
        for _ in range(rows):
            es = [elem() for _ in range(cols)]
            rr = reg(); prog.append(["arrnew", rr, es]); rregs.append(rr)
            if alias: rregs = [rr] * rows; break
        a = reg(); prog.append(["arrnew", a, rregs])
        shape = (rows, cols)
    else:
        ln = rnd.choice([1, 2, 3, 4])
        es = [elem() for _ in range(ln)]
        a = reg(); prog.append(["arrnew", a, es])
        shape = (ln,)
    def index(dim, allow_out):
        hi = shape[dim]
        if rnd.random() < 0.75:
            v = rnd.randrange(0, hi)
            if allow_out and rnd.random() < 0.12: v = rnd.choice([-1, hi, hi + 1])
            return secret(v)
        return const(rnd.randrange(0, hi))
    for _ in range(rnd.choice([2, 3, 4, 5])):
        idx = [index(d, True) for d in range(len(shape))]
        if two_d and rnd.random() < 0.2: idx = idx[:1]          # read a whole row
        if rnd.random() < 0.5 or len(idx) < len(shape):
            prog.append(["arrget", reg(), a, idx])
        else:
            if alias and idx[0] in cvals: idx[0] = secret(cvals[idx[0]])
            prog.append(["arrset", a, idx, elem()])
    if two_d and not alias and rnd.random() < 0.35:
        # a row selected with a secret index is stored at a public position, then one cell of the stored row is written through a
        # public row index: the write must land in the array (the stored row is a read-only view of the selection)
        rr = reg(); prog.append(["arrget", rr, a, [secret(rnd.randrange(0, shape[0]))]])
        pos = rnd.randrange(0, shape[0])
        prog.append(["arrset", a, [const(pos)], rr])
        prog.append(["arrset", a, [const(pos), index(1, False)], elem()])
    if rnd.random() < 0.4:
        # copies: Array(row) of a row read with a secret index (or Array(a) of a 1-D array), taken twice; a write into one copy
        # must not show through the other copy, the row or the original array
        if rnd.random() < 0.35:
            # two Arrays built from one and the same plain list object
            ln = rnd.choice([2, 3])
            src = reg(); prog.append(["list", src, [elem() for _ in range(ln)]])
        elif two_d:
            src = reg(); prog.append(["arrget", src, a, [secret(rnd.randrange(0, shape[0]))]])
            ln = shape[1]
        else:
            src = a; ln = shape[0]
        b1 = reg(); prog.append(["arrcopy", b1, src])
        b2 = reg(); prog.append(["arrcopy", b2, src])
        w = secret(rnd.randrange(0, ln)) if rnd.random() < 0.6 else const(rnd.randrange(0, ln))
        prog.append(["arrset", b1, [w], elem()])
        for k in range(ln):
            prog.append(["arrget", reg(), b1, [const(k)]])
            prog.append(["arrget", reg(), b2, [const(k)]])
    # read everything back with public indexes
    if two_d:
        for i in range(shape[0]):
            for j in range(shape[1]):
                prog.append(["arrget", reg(), a, [const(i), const(j)]])
    else:
        for i in range(shape[0]):
            prog.append(["arrget", reg(), a, [const(i)]])
    return dict(cfg=cfg, prog=prog, ins=ins)


class TwinIndexError(Exception):
    pass


def twin(case):
    """plain Python lists; returns {register: value} for registers produced by arrget (elements as ints, rows as lists)"""
    regs = {}
    ins = case["ins"]
    out = {}
    flat = []
    def walk(stmts):
        for s in stmts:
            if s[0] == "guarded":
                flat.append(("guard", s[1])); walk(s[2]); flat.append(("endguard",))
            else: flat.append(s)
    walk(case["prog"])
    skip = 0
    for s in flat:
        op = s[0]
        if op == "guard":
            if skip or not regs[s[1]]: skip += 1
            continue
        if op == "endguard":
            if skip: skip -= 1
            continue
        if skip: continue
        if op == "bin":
            x, y = regs[s[3]], regs[s[4]]
            regs[s[1]] = {"ge": int(x >= y), "lt": int(x < y), "eq": int(x == y)}[s[2]]
            continue
        if op == "input": regs[s[1]] = ins[s[3]]
        elif op == "const": regs[s[1]] = s[2][1]
        elif op == "arrnew": regs[s[1]] = [regs[q] for q in s[2]]
        elif op == "arrcopy": regs[s[1]] = list(regs[s[2]])
        elif op == "list": regs[s[1]] = [regs[q] for q in s[2]]
        elif op == "arrget":
            v = regs[s[2]]
            for q in s[3]:
                i = regs[q]
                secret = case["prog"][[t[1] for t in case["prog"] if t[0] in ("input", "const")].index(q)][0] == "input" if False else None
                if not (-len(v) <= i < len(v)): raise TwinIndexError(s)
                if i < 0 and is_secret(case, q): raise TwinIndexError(s)       # a secret index must be in 0..len-1
                v = v[i]
            regs[s[1]] = v
            out[s[1]] = [list(x) if isinstance(x, list) else x for x in v] if isinstance(v, list) else v
            if isinstance(v, list): regs[s[1]] = v
        elif op == "arrset":
            v = regs[s[1]]
            idx = [regs[q] for q in s[2]]
            for q, i in zip(s[2][:-1], idx[:-1]):
                if not (0 <= i < len(v)) and is_secret(case, q): raise TwinIndexError(s)
                if not (-len(v) <= i < len(v)): raise TwinIndexError(s)
                # rows are copied by the secret-index path in pysnark; the plain list twin must not alias rows either
                v[i] = list(v[i])
                v = v[i]
            i = idx[-1]
            if not (0 <= i < len(v)) and is_secret(case, s[2][-1]): raise TwinIndexError(s)
            if not (-len(v) <= i < len(v)): raise TwinIndexError(s)
            v[i] = regs[s[3]]
    return out


def fixed_cases(p):
    """accesses inside a region whose secret condition (input >= 2) may be false, with indexes inside and outside the array: the
    constraints are the same for every index value and every condition value, and nothing is raised where the region is not taken"""
    out = []
    for two_d in (False, True):
        for write in (False, True):
            prog = [["input", 0, "priv", 0], ["input", 1, "priv", 1], ["input", 2, "priv", 2], ["input", 3, "priv", 3], ["input", 4, "priv", 4],
                    ["const", 5, ["int", 2]], ["bin", 6, "ge", 4, 5]]
            if two_d:
                prog += [["arrnew", 7, [0, 1, 2]], ["const", 8, ["int", 7]], ["arrnew", 9, [1, 8, 0]], ["arrnew", 10, [7, 9]], ["const", 11, ["int", 1]]]
                acc = ["arrset", 10, [11, 3], 2] if write else ["arrget", 12, 10, [11, 3]]
                tail = [["arrget", 20 + 3 * i + j, 10, [30 + i, 40 + j]] for i in range(2) for j in range(3)]
                consts = [["const", 30 + i, ["int", i]] for i in range(2)] + [["const", 40 + j, ["int", j]] for j in range(3)]
            else:
                prog += [["arrnew", 10, [0, 1, 2]]]
                acc = ["arrset", 10, [3], 1] if write else ["arrget", 12, 10, [3]]
                tail = [["arrget", 20 + j, 10, [40 + j]] for j in range(3)]
                consts = [["const", 40 + j, ["int", j]] for j in range(3)]
            prog += [["guarded", 6, [acc]]] + consts + tail
            base = [1, 2, 3, 1, 0]
            out.append(dict(cfg=dict(p=p, n=5, res=1, ign=0), prog=prog, ins=base, fixed=1,
                            alt_ins=[[1, 2, 3, 2, 0], [1, 2, 3, 5, 0], [1, 2, 3, -1, 1], [1, 2, 3, 0, 3], [1, 2, 3, 2, 2], [3, 3, 1, 7, 1]]))
    return out


def alias_cases(p):
    """matrices whose rows are one and the same Array object ([row] * n): a cell write / a whole-row write through a SECRET row
    index changes the selected row only; everything is read back with public indexes"""
    out = []
    for rows in (2, 3):
        for rowwrite in (False, True):
            for x in range(rows):
                prog = [["input", 0, "priv", 0], ["input", 1, "priv", 1], ["input", 2, "priv", 2], ["const", 3, ["int", 0]], ["input", 4, "priv", 3],
                        ["arrnew", 5, [3, 4]], ["arrnew", 6, [5] * rows]]
                if rowwrite: prog += [["arrnew", 7, [2, 1]], ["arrset", 6, [0], 7]]
                else: prog += [["arrset", 6, [0, 1], 2]]
                prog += [["const", 10 + i, ["int", i]] for i in range(3)]
                prog += [["arrget", 20 + 2 * i + j, 6, [10 + i, 10 + j]] for i in range(rows) for j in range(2)]
                out.append(dict(cfg=dict(p=p, n=5, res=1, ign=0), prog=prog, ins=[x, 1, 3, 2]))
    return out


def is_secret(case, q):
    for t in case["prog"]:
        if t[0] == "input" and t[1] == q: return True
        if t[0] == "const" and t[1] == q: return False
    return False
