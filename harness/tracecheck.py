"""Shared engine of the trace-based property checks (C01, C04, C05, C06, C07, ...):
corpus + generated cases -> implementation run (recorder) -> Coq model (vm_compute) -> digest comparison
-> property oracle on the implementation's records -> shrinking -> evidence."""
import collections, copy, glob, json, os, random, time
import common, progs


def load_corpus(pid):
    out = []
    for f in sorted(glob.glob(os.path.join(common.VERIF, "corpus", pid, "*.json"))):
        try:
            c = json.load(open(f))
            c["corpus"] = os.path.basename(f)
            out.append(c)
        except Exception:
            pass
    return out


def stmt_regs(s):
    """(defined register or None, used registers) of one statement"""
    op = s[0]
    if op == "input": return s[1], []
    if op == "const" or op == "constval": return s[1], []
    if op == "un": return s[1], [s[3]]
    if op == "bin": return s[1], [s[3], s[4]]
    if op == "meth": return s[1], [s[4]] + list(s[5])
    if op == "ite": return s[1], [s[2], s[3], s[4]]
    if op == "list": return s[1], list(s[2])
    if op == "index": return s[1], [s[2]]
    if op == "guarded":
        used = [s[1]]
        for b in s[2]: used += stmt_regs(b)[1]
        return None, used
    if op in ("pack", "unpack", "permute", "poseidon", "ggh"): return s[1], [s[3]]
    if op == "snark":
        def lv(t): return [t] if isinstance(t, int) else [y for x in t[1] for y in lv(x)]
        used = [y for t in s[2] for y in lv(t)] + lv(s[4])
        for b in s[3]: used += stmt_regs(b)[1]
        return s[1], used
    if op == "arrnew": return s[1], list(s[2])
    if op == "arrget": return s[1], [s[2]] + list(s[3])
    if op == "arrset": return s[1], [s[1], s[3]] + list(s[2])
    if op == "arrcopy": return s[1], [s[2]]
    if op == "barrset": return None, [s[3]] + list(s[2])
    if op == "bset": return None, [s[2]]
    if op == "bget" or op == "bgetidx": return s[1], []
    if op == "bsetidx": return None, [s[3]]
    if op == "breakif": return None, [s[1]]
    if op == "oif":
        used = [s[1]]
        for b in s[2]: used += stmt_regs(b)[1]
        for cb, cr, body in s[3]:
            used.append(cr)
            for b in cb + body: used += stmt_regs(b)[1]
        for b in (s[4] or []): used += stmt_regs(b)[1]
        return None, used
    if op == "owhile":
        used = [s[2]]
        for b in s[1] + s[4]: used += stmt_regs(b)[1]
        return None, used
    if op == "ofor":
        used = [s[3]]
        for b in s[6]: used += stmt_regs(b)[1]
        return None, used
    if op == "itelazy":
        used = [s[2], s[4], s[6]]
        for b in s[3] + s[5]: used += stmt_regs(b)[1]
        return s[1], used
    return None, []


def all_used(prog):
    u = set()
    for s in prog: u |= set(stmt_regs(s)[1])
    return u


def shrink(case, fails, budget=40):
    """Greedy statement deletion keeping the program well-formed; `fails(case) -> bool`."""
    best = case
    tries = 0
    changed = True
    while changed and tries < budget:
        changed = False
        prog = best["prog"]
        for i in range(len(prog) - 1, -1, -1):
            d, _ = stmt_regs(prog[i])
            rest = prog[:i] + prog[i + 1:]
            if d is not None and d in all_used(rest): continue
            cand = dict(best, prog=rest)
            tries += 1
            if tries > budget: break
            try:
                if fails(cand):
                    best = cand
                    changed = True
                    break
            except Exception:
                pass
    return best


def op_hist(cases):
    h = collections.Counter()
    def walk(prog):
        for s in prog:
            if s[0] == "bin": h["bin:" + s[2]] += 1
            elif s[0] == "un": h["un:" + s[2]] += 1
            elif s[0] == "meth": h["meth:" + s[2]] += 1
            elif s[0] == "input": h["input:" + s[2]] += 1
            elif s[0] == "guarded":
                h["guarded"] += 1
                walk(s[2])
            elif s[0] == "itelazy":
                h["itelazy"] += 1
                walk(s[3]); walk(s[5])
            elif s[0] == "oif":
                h["oif"] += 1; walk(s[2])
                for cb, cr, body in s[3]:
                    h["elif"] += 1; walk(cb); walk(body)
                if s[4] is not None:
                    h["else"] += 1; walk(s[4])
            elif s[0] == "owhile":
                h["owhile"] += 1; walk(s[1]); walk(s[4])
            elif s[0] == "ofor":
                h["ofor"] += 1; walk(s[6])
            else: h[s[0]] += 1
    for c in cases: walk(c["prog"])
    return dict(h)


def run(pid, tier, seed, profile, oracle, n_quick, n_thorough, variants=None, casegen=None, level="proof", extra_assumptions=None,
        require_props=True, post=None, mask=1 | 2 | 4 | 8 | 32 | 64, mutation_oracle=False, shrink_budget=None):
    """oracle(case, rec, group) -> list of violation dicts (kind='oracle').
    variants(case, rnd) -> list of extra cases derived from `case` (same program, other inputs/flags); the
    group of records of one program is passed to the oracle of its first member."""
    t0 = time.time()
    rnd = random.Random(seed)
    tr_ok, tr_msg = common.translate()
    props = common.props_check(pid) if require_props else None
    viol = common.proof_violations(pid, tr_ok, tr_msg, props)
    n = n_quick if tier == "quick" else n_thorough
    gen = progs.Gen(rnd, profile)
    cases = load_corpus(pid)
    ncorpus = len(cases)
    groups = []          # list of lists of indexes
    for i in range(ncorpus): groups.append([i])
    while len(cases) < n + ncorpus:
        c = casegen(rnd) if casegen else gen.case()
        idx = [len(cases)]
        cases.append(c)
        if variants:
            for v in variants(c, rnd):
                idx.append(len(cases))
                cases.append(v)
        groups.append(idx)
    for i, c in enumerate(cases): c["id"] = i
    try:
        recs = progs.run_impl_cases(cases)
    except Exception as e:
        viol.append(dict(kind="harness", concrete=False, what="implementation runner failed", detail=str(e)[-1500:]))
        return common.finish(pid, tier, seed, t0, props, dict(evaluations=len(cases), distinct_nontrivial=0, samples=[], explanation="runner failed"), viol, level=level)
    model_built = os.path.exists(os.path.join(common.COQ, "theories", "Model", "Prog.vo"))
    codes, errs = ([None] * len(cases), ["model not built"])
    if model_built:
        # cases marked "nomodel" use runner-only statements (try/except around a region, objects the model has no value for):
        # they are decided by the property's direct oracle alone
        mi = [i for i, c in enumerate(cases) if not c.get("nomodel")]
        mcodes, errs = progs.run_model_compare([cases[i] for i in mi], [recs[i] for i in mi])
        codes = [0] * len(cases)
        for i, cd in zip(mi, mcodes): codes[i] = cd
    for e in errs:
        viol.append(dict(kind="correspondence", concrete=False, what="in-Coq evaluation of the model failed", detail=e))
    # only the digest components the property's theorems are about can break its tie to the code
    other = sum(1 for c in codes if c and not (c & mask))
    mism = [i for i, c in enumerate(codes) if c and (c & mask)]
    # a mismatching case is re-run alone in a fresh interpreter before it is believed
    confirmed = []
    if mism:
        again = progs.run_impl_cases([cases[i] for i in mism[:30]])
        for i, r2 in zip(mism[:30], again):
            if r2["dig"] == recs[i]["dig"]: confirmed.append(i)
            else: viol.append(dict(kind="harness", concrete=False, what="case %d gives different traces when run alone (cross-case contamination in the harness)" % i))
    # the same cases once more, this time one after the other in shared interpreters (only the documented globals are reset
    # between them): a trace must not depend on what the process traced before -- caches, module-level tables, constants
    # captured on first use
    try:
        shared = progs.run_impl_cases(cases, isolate=False)
        leaks = [i for i, (r1, r2) in enumerate(zip(recs, shared)) if r1["dig"] != r2["dig"] and not cases[i].get("reimport")]
        for i in leaks[:2]:
            viol.append(dict(kind="oracle", op="isolation", key="trace-depends-on-earlier-runs",
                             what="the trace of this program differs when other programs were traced earlier in the same process (state kept by the library between runs)",
                             case=dict(cfg=cases[i]["cfg"], prog=cases[i]["prog"], ins=cases[i]["ins"]),
                             fresh=dict(exn=recs[i]["exn"], nvars=recs[i]["nvars"], ncons=recs[i]["ncons"]),
                             after_others=dict(exn=shared[i]["exn"], nvars=shared[i]["nvars"], ncons=shared[i]["ncons"])))
    except Exception as e:
        viol.append(dict(kind="oracle", concrete=False, op="isolation", key="shared-interpreter-run-failed",
                         what="tracing the same programs one after the other in one interpreter failed although each of them runs alone (state kept by the library between runs)",
                         detail=str(e)[-800:]))
    # property oracle on the implementation
    oviol = []
    for g in groups:
        grp = [(cases[i], recs[i]) for i in g]
        for (c, r) in grp:
            extra = []
            if r.get("mutated"):
                extra.append(dict(op="operand-mutation", key="operand-mutation", what="an operation altered the value of an existing object (one of its operands or an earlier result)",
                                  observed=r["mutated"][:2]))
            if r.get("config") is not None and list(r["config"]) != [c["cfg"]["n"], c["cfg"]["res"]]:
                # no statement of the language sets the bitlength or the resolution: the library changed its own configuration
                extra_cfg = [dict(op="configuration", key="configuration-changed-by-the-run",
                                  what="the run left the library configuration changed: (bitlength, resolution) = %r, configured %r (exception: %s)" % (r["config"], [c["cfg"]["n"], c["cfg"]["res"]], r["exn"]))]
            else: extra_cfg = []
            if r.get("format_effects"):
                extra_cfg.append(dict(op="formatting", key="formatting-a-value-has-effects",
                                      what="repr() / str() of a value allocated variables or emitted constraints (statements %r)" % (r["format_effects"],)))
            for v in list(oracle(c, r, grp)) + (extra if mutation_oracle else []) + extra_cfg:
                v.setdefault("kind", "oracle")
                v.setdefault("case", dict(cfg=c["cfg"], prog=c["prog"], ins=c["ins"]))
                oviol.append(v)
    # keep at most a few per (op) key, shrunk
    seen = collections.Counter()
    for v in oviol:
        key = (v.get("op"), v.get("what"))
        seen[key] += 1
        if seen[key] <= 3: viol.append(v)
    for i in confirmed[:3]:
        bits = codes[i] & mask
        parts = [nm for b, nm in ((1, "variables/witness"), (2, "constraints"), (4, "results"), (8, "exception/globals"), (32, "scoping"), (64, "shape"), (128, "value identity at emission (vjustb)")) if bits & b]
        case = dict(cfg=cases[i]["cfg"], prog=cases[i]["prog"], ins=cases[i]["ins"])
        def fails(cand):
            r = progs.run_impl_cases([cand])
            cd, _ = progs.run_model_compare([cand], r)
            return bool(cd[0])
        small = shrink(case, fails, budget=shrink_budget if shrink_budget is not None else (12 if tier == "quick" else 40))
        viol.append(dict(kind="correspondence", concrete=False,
                         what="model and implementation traces differ (%s)" % ", ".join(parts),
                         detail=json.dumps(dict(case=small, impl_exn=recs[i]["exn"], impl_msg=recs[i]["msg"]))[:3000]))
    if len(confirmed) > 5:
        viol.append(dict(kind="correspondence", concrete=False, what="%d further trace mismatches" % (len(confirmed) - 5)))
    # evidence
    exh = collections.Counter(r["exn"] or "completed" for r in recs)
    nontriv = set()
    for c, r in zip(cases, recs):
        if r["ncons"] >= 1 and r["nvars"] >= 1: nontriv.add((r["dig"][1], r["dig"][0]))
    guarded = sum(1 for c in cases if any(s[0] == "guarded" for s in c["prog"]))
    cov = dict(evaluations=len(cases), distinct_nontrivial=len(nontriv),
               rule="seeded type-directed generator (harness/progs.py) + corpus; each case = (modulus, bitlength, resolution, error-checking flag, program, inputs); "
                    "run on the real pysnark with the recording backend and on the Coq model (vm_compute), four trace digests compared; "
                    "non-trivial = distinct (constraint-digest, witness-digest) among cases with >= 1 constraint",
               samples=[dict(cfg=cases[i]["cfg"], prog=cases[i]["prog"], ins=cases[i]["ins"], exn=recs[i]["exn"], ncons=recs[i]["ncons"]) for i in range(min(3, len(cases)))],
               traces_validated_against_impl=sum(1 for c in codes if c is not None and not (c & mask)), trace_mismatches=len(confirmed),
               digest_components_compared=[nm for b, nm in ((1, "variables/witness"), (2, "constraints"), (4, "results"), (8, "exception/globals"), (32, "scoping")) if mask & b],
               mismatches_in_components_not_relevant_to_this_property=other,
               corpus_cases=ncorpus, exception_histogram=dict(exh), operator_histogram=op_hist(cases),
               moduli=dict(collections.Counter(str(c["cfg"]["p"])[:12] for c in cases)),
               bitlengths=dict(collections.Counter(c["cfg"]["n"] for c in cases)),
               error_checking_off=sum(1 for c in cases if c["cfg"]["ign"]), cases_with_guarded_region=guarded,
               oracle_violations=len(oviol), programs=len(cases), disagreements_checked=len(confirmed) + len(oviol))
    if post:
        more = post(cov, cases, recs)
        if more: viol += more
    return common.finish(pid, tier, seed, t0, props, cov, viol, level=level, assumptions=extra_assumptions)
