"""./check setup | quick <id> | thorough <id> | replay <file>"""
import importlib, json, os, sys, time
sys.path.insert(0, os.path.dirname(os.path.abspath(__file__)))
import common


def setup():
    t0 = time.time()
    ok, msg = common.translate()
    print(msg)
    if not ok:
        print("setup: translation failed")
        return 1
    ok, log = common.coq_make(None, timeout=3000)
    print(log[-3000:])
    if not ok:
        print("setup: coq build failed")
        return 1
    rc = 0
    if os.path.exists(os.path.join(common.OCAML, "Makefile")):
        rc, out = common.sh(["make", "-C", common.OCAML], timeout=600)
        print(out[-2000:])
    print("setup done in %.0fs" % (time.time() - t0))
    return rc


def main(argv):
    if len(argv) < 1:
        print(__doc__)
        return 2
    cmd = argv[0]
    if cmd == "setup":
        return setup()
    if cmd in ("quick", "thorough"):
        pid = argv[1]
        tier = os.environ.get("VERIF_TIER") or cmd
        if tier not in ("quick", "thorough"):
            tier = cmd
        seed = int(os.environ.get("VERIF_SEED", "1") or "1")
        mod = importlib.import_module("props." + pid.lower())
        return mod.run(tier, seed)
    if cmd == "replay":
        payload = json.load(open(argv[1]))
        pid = payload["property"]
        mod = importlib.import_module("props." + pid.lower())
        return mod.replay(payload)
    print(__doc__)
    return 2


if __name__ == "__main__":
    sys.exit(main(sys.argv[1:]))
