"""Shared machinery for the per-property checks (see DESIGN.md §5.2, §8).

Protocol of one check run (quick / thorough):
  1. translate constants from /repo's working tree into coq/theories/Generated*.v
  2. (re)build the Coq obligations of the property  -> proof_ok / broken theorem names
  3. correspondence: model (evaluated inside Coq by vm_compute and/or extracted OCaml) vs implementation
  4. direct oracle on the implementation (search for a concrete failing input)
  5. replay known findings; print KNOWN-FINDING lines
  6. write evidence/<id>.json; exit 0 or print VIOLATION ... and exit 1
"""
import fcntl, hashlib, json, os, re, shutil, subprocess, sys, tempfile, time

VERIF = os.path.dirname(os.path.dirname(os.path.abspath(__file__)))
REPO = os.environ.get("PYSNARK_REPO", "/repo")
COQ = os.path.join(VERIF, "coq")
OCAML = os.path.join(VERIF, "ocaml")
PY = "/venv/bin/python"
NPROC = max(1, min(16, os.cpu_count() or 1))


def sh(cmd, timeout=600, cwd=None, env=None, stdin=None):
    """Run a command, return (rc, stdout+stderr).  rc 124 on timeout."""
    try:
        r = subprocess.run(cmd, cwd=cwd, env=env, input=stdin, stdout=subprocess.PIPE, stderr=subprocess.STDOUT,
                           timeout=timeout, text=True, shell=isinstance(cmd, str))
        return r.returncode, r.stdout
    except subprocess.TimeoutExpired as e:
        out = e.stdout if isinstance(e.stdout, str) else (e.stdout or b"").decode("utf8", "replace")
        return 124, out + "\n*** TIMEOUT after %ss" % timeout


class Lock:
    def __init__(self, name):
        self.path = os.path.join(VERIF, ".lock-" + name)

    def __enter__(self):
        self.f = open(self.path, "w")
        fcntl.flock(self.f, fcntl.LOCK_EX)
        return self

    def __exit__(self, *a):
        fcntl.flock(self.f, fcntl.LOCK_UN)
        self.f.close()


def scratch(prefix="pysnark-verif-"):
    base = os.environ.get("TMPDIR", "/tmp")
    return tempfile.mkdtemp(prefix=prefix, dir=base)


def impl_env(extra=None, stubs=True):
    """Environment for running the implementation: /repo first on the path, fixed hash seed."""
    env = dict(os.environ)
    pp = [REPO]
    if stubs:
        pp.append(os.path.join(VERIF, "stubs"))
    pp.append(os.path.join(VERIF, "harness"))
    env["PYTHONPATH"] = os.pathsep.join(pp)
    env["PYTHONHASHSEED"] = "0"
    env["PYTHONDONTWRITEBYTECODE"] = "1"
    env["PYSNARK_VERIF"] = "1"
    env["QAPTOOLS_BIN"] = os.path.join(VERIF, "stubs", "qaptools_bin")
    env.pop("PYSNARK_BACKEND", None)
    if extra:
        for k, v in extra.items():
            if v is None:
                env.pop(k, None)
            else:
                env[k] = v
    return env


def run_impl(args, stdin=None, extra_env=None, cwd=None, timeout=600):
    """Run a python script on the implementation side.  Returns (rc, stdout, stderr)."""
    try:
        r = subprocess.run([PY] + args, cwd=cwd, env=impl_env(extra_env), input=stdin, stdout=subprocess.PIPE,
                           stderr=subprocess.PIPE, timeout=timeout, text=True)
        return r.returncode, r.stdout, r.stderr
    except subprocess.TimeoutExpired as e:
        return 124, "", "TIMEOUT"


# ---------------------------------------------------------------- Coq side

def translate():
    rc, out = sh([PY, os.path.join(VERIF, "tools", "translate_consts.py")], timeout=120,
                 env=dict(os.environ, PYSNARK_REPO=REPO))
    return rc == 0, out.strip()


def ensure_makefile():
    mk = os.path.join(COQ, "Makefile")
    cp = os.path.join(COQ, "_CoqProject")
    if not os.path.exists(mk) or os.path.getmtime(mk) < os.path.getmtime(cp):
        sh(["coq_makefile", "-f", "_CoqProject", "-o", "Makefile"], cwd=COQ, timeout=60)


def coq_make(targets=None, timeout=2400):
    """Full .vo build (never -vos/-vok) of the given targets, serialised by a lock."""
    with Lock("coq"):
        ensure_makefile()
        cmd = ["timeout", str(timeout), "make", "-j%d" % NPROC] + (targets or [])
        rc, out = sh(cmd, cwd=COQ, timeout=timeout + 30)
        return rc == 0, out


THEOREM_RE = re.compile(r"^\s*(Theorem|Lemma|Corollary|Example|Fact|Proposition)\s+([A-Za-z0-9_']+)", re.M)
FORBIDDEN_RE = re.compile(r"\b(Admitted|admit|Axiom|Axioms|Parameter|Parameters|Conjecture|Admit Obligations|"
                          r"Unset Guard Checking|Unset Positivity Checking|Unset Universe Checking|bypass_check|"
                          r"type-in-type|impredicative-set)\b")


def scan_forbidden():
    """No Admitted/admit/Axiom/Parameter/... anywhere in the development (comments excluded)."""
    bad = []
    for root, _, files in os.walk(os.path.join(COQ, "theories")):
        for fn in files:
            if not fn.endswith(".v"):
                continue
            path = os.path.join(root, fn)
            txt = open(path).read()
            txt = re.sub(r"\(\*.*?\*\)", "", txt, flags=re.S)
            for m in FORBIDDEN_RE.finditer(txt):
                bad.append("%s: %s" % (os.path.relpath(path, COQ), m.group(0)))
    return bad


def props_check(pid, timeout=2400):
    """Rebuild Props/<pid>.vo from scratch (its dependencies incrementally) and collect what Coq said.
    Returns dict(ok, theorems, assumptions, log, broken)."""
    rel = "theories/Props/%s.v" % pid
    src = os.path.join(COQ, rel)
    res = dict(ok=False, theorems=[], assumptions=[], log="", broken=[])
    if not os.path.exists(src):
        res["log"] = "no Props file"
        return res
    txt = open(src).read()
    res["theorems"] = [m.group(2) for m in THEOREM_RE.finditer(re.sub(r"\(\*.*?\*\)", "", txt, flags=re.S))]
    bad = scan_forbidden()
    if bad:
        res["log"] = "forbidden declarations: " + "; ".join(bad)
        res["broken"] = ["forbidden:" + b for b in bad]
        return res
    vo = src + "o"
    with Lock("props-" + pid):
        if os.path.exists(vo):
            os.remove(vo)
        ok, log = coq_make([rel + "o"], timeout=timeout)
    res["log"] = log[-6000:]
    if not ok:
        m = re.search(r'File "\./([^"]+)", line (\d+)', log)
        where = "%s:%s" % (m.group(1), m.group(2)) if m else "?"
        # name the enclosing theorem if the failure is inside a theories file
        name = "?"
        if m:
            try:
                lines = open(os.path.join(COQ, m.group(1))).read().split("\n")[: int(m.group(2))]
                for ln in reversed(lines):
                    mm = THEOREM_RE.match(ln)
                    if mm:
                        name = mm.group(2)
                        break
            except OSError:
                pass
        res["broken"] = ["%s (%s)" % (name, where)]
        return res
    # Print Assumptions output: one block per theorem, in order
    blocks = re.findall(r"(Closed under the global context|Axioms:\n(?:.+\n?)+?(?=\n\S|\Z))", log)
    res["assumptions"] = [b.strip() for b in blocks]
    res["ok"] = True
    return res


def coq_eval(vtext, name="cases", timeout=600, workdir=None):
    """Compile one scratch .v file against the built development; returns (ok, output)."""
    d = workdir or scratch()
    try:
        path = os.path.join(d, name + ".v")
        with open(path, "w") as f:
            f.write(vtext)
        rc, out = sh(["timeout", str(timeout), "coqc", "-w", "-all", "-Q", os.path.join(COQ, "theories"), "PySnark", path],
                     cwd=d, timeout=timeout + 30)
        return rc == 0, out
    finally:
        if workdir is None:
            shutil.rmtree(d, ignore_errors=True)


def coq_eval_many(files, timeout=900):
    """files: list of (name, text).  Compiled in parallel.  Returns list of (name, ok, output)."""
    d = scratch()
    try:
        procs = []
        for name, text in files:
            path = os.path.join(d, name + ".v")
            with open(path, "w") as f:
                f.write(text)
        names = [n for n, _ in files]
        results = {}
        pending = list(names)
        running = []
        while pending or running:
            while pending and len(running) < NPROC:
                n = pending.pop(0)
                p = subprocess.Popen(["timeout", str(timeout), "coqc", "-w", "-all", "-Q", os.path.join(COQ, "theories"),
                                      "PySnark", os.path.join(d, n + ".v")], cwd=d, stdout=subprocess.PIPE,
                                     stderr=subprocess.STDOUT, text=True)
                running.append((n, p))
            n, p = running.pop(0)
            out, _ = p.communicate()
            results[n] = (p.returncode == 0, out)
        return [(n,) + results[n] for n in names]
    finally:
        shutil.rmtree(d, ignore_errors=True)


def zlit(x):
    return "(%d)" % x if x < 0 else "%d" % x


# ---------------------------------------------------------------- findings / evidence

def load_known():
    p = os.path.join(VERIF, "known_findings.json")
    if not os.path.exists(p):
        return []
    return json.load(open(p))["findings"]


def matches(entry, viol):
    """A known-finding entry matches a violation iff every key of entry['match'] is a regex that
    fully matches str(viol[key])."""
    for k, pat in entry.get("match", {}).items():
        if k not in viol or re.fullmatch(pat, str(viol[k])) is None:
            return False
    return True


def write_replay(pid, payload):
    d = os.path.join(VERIF, "replays")
    os.makedirs(d, exist_ok=True)
    body = json.dumps(payload, indent=1, sort_keys=True, default=str)
    h = hashlib.sha1(body.encode()).hexdigest()[:10]
    path = os.path.join(d, "%s-%s.json" % (pid, h))
    with open(path, "w") as f:
        f.write(body)
    return path


TRUSTED_COMMON = [
    "Coq 8.16.1 kernel (coqc full .vo build, no -vos/-vok); vm_compute for Examples, refuted-witnesses, test vectors, primality certificates and the in-Coq correspondence; no native_compute",
    "no Axiom/Parameter/Admitted in the development (scanned on every run); Print Assumptions of every property theorem is captured on every run",
    "tools/translate_consts.py (ast.literal_eval on named assignments, fail-closed) regenerates Generated.v/GeneratedPoseidon.v from /repo on every run",
    "hand-written Gallina model of the pysnark code (modelled, not verified): tied to /repo by the correspondence check on the cases of this run only",
    "harness: runner/recorder/decoders/stubs under /verif/harness and /verif/stubs; CPython 3.12 semantics of int arithmetic",
]


def finish(pid, tier, seed, t0, props, coverage, violations, level="proof", assumptions=None, extra_trusted=None,
           proof_required=True):
    """Common tail: classify violations against known findings, print lines, write evidence, return exit code.
    violations: list of dicts with at least 'kind', 'what'; concrete ones carry 'case'.
    props: result of props_check (or None)."""
    known = [e for e in load_known() if e["property"] == pid and e.get("status", "finding") == "finding"]
    unlisted, listed = [], {}
    for v in violations:
        hit = None
        for e in known:
            if matches(e, v):
                hit = e
                break
        if hit is None:
            unlisted.append(v)
        else:
            listed.setdefault(hit["id"], (hit, []))[1].append(v)
    lines = []
    for fid, (e, vs) in sorted(listed.items()):
        lines.append("KNOWN-FINDING: property=%s %s [%s; %d case(s) this run]" % (pid, e["what"], fid, len(vs)))
    rc = 0
    concrete = [v for v in unlisted if v.get("concrete", True)]
    abstract = [v for v in unlisted if not v.get("concrete", True)]
    if concrete:
        path = write_replay(pid, dict(property=pid, tier=tier, seed=seed, violations=concrete[:20],
                                      also_broken=[v["what"] for v in abstract]))
        lines.append("VIOLATION property=%s replay=%s" % (pid, path))
        rc = 1
    elif abstract:
        path = write_replay(pid, dict(property=pid, tier=tier, seed=seed, no_failing_input_found=True,
                                      broken=[dict(kind=v["kind"], what=v["what"], detail=v.get("detail", "")) for v in abstract]))
        lines.append("VIOLATION property=%s replay=%s no-failing-input-found" % (pid, path))
        rc = 1
    cov = dict(coverage)
    if props is not None:
        cov.setdefault("obligations", len(props["theorems"]))
        cov.setdefault("discharged", len(props["theorems"]) if props["ok"] else 0)
        cov.setdefault("checker_cmd", "make -C coq theories/Props/%s.vo (coqc 8.16.1, full .vo) + Print Assumptions" % pid)
        cov.setdefault("theorems", props["theorems"])
        cov.setdefault("print_assumptions", props["assumptions"])
        if props["broken"]:
            cov["broken_obligations"] = props["broken"]
    cov.setdefault("trusted_base", TRUSTED_COMMON + (extra_trusted or []))
    cov["known_findings_reproduced"] = sorted(listed.keys())
    ev = dict(property_id=pid, tier=tier, seed=seed, level=level, coverage=cov,
              assumptions=(assumptions or []), wall_s=round(time.time() - t0, 2), violations=len(unlisted))
    os.makedirs(os.path.join(VERIF, "evidence"), exist_ok=True)
    with open(os.path.join(VERIF, "evidence", pid + ".json"), "w") as f:
        json.dump(ev, f, indent=1, default=str)
    for ln in lines:
        print(ln)
    print("%s %s: %s (wall %.1fs, unlisted violations %d, known findings %d)" %
          (pid, tier, "OK" if rc == 0 else "FAILED", time.time() - t0, len(unlisted), len(listed)))
    sys.stdout.flush()
    return rc


def proof_violations(pid, tr_ok, tr_msg, props):
    """Violations (non-concrete) arising from a broken translation or proof obligation."""
    out = []
    if not tr_ok:
        out.append(dict(kind="translation", concrete=False, what="constant translation failed: " + tr_msg))
    if props is not None and not props["ok"]:
        out.append(dict(kind="proof", concrete=False,
                        what="proof obligation no longer checks: " + ", ".join(props["broken"] or ["?"]),
                        detail=props["log"][-1500:]))
    return out
