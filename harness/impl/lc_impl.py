"""Implementation side of the C13 check: runs DAGs of linear-combination operations on the *real*
backend classes and reports every node's content, operand snapshots, moduli and inverses.
stdin: JSON {dags: [[node,...],...], inv: [x,...]} ; stdout: JSON."""
import sys, json, importlib, copy

req = json.load(sys.stdin)
out = {"backends": {}}

def items_dict(o): return [[k, v] for k, v in o.lc.items()]
def items_sig(o): return [[c, int(n[1:])] for (c, n) in o.sig]

specs = [
    ("snarkjs", "pysnark.snarkjsbackend", "dict"),
    ("zkinterface", "pysnark.zkinterface.backend", "dict"),
    ("zkifbellman", "pysnark.zkinterface.backendbellman", "dict"),
    ("zkifbulletproofs", "pysnark.zkinterface.backendbulletproofs", "dict"),
    ("qaptools", "pysnark.qaptools.backend", "sig"),
]
for name, modname, style in specs:
    res = {"style": style}
    try:
        # each zkinterface variant re-sets the shared module's modulus at import; import order matters
        if modname in sys.modules: del sys.modules[modname]
        mod = importlib.import_module(modname)
    except Exception as e:
        res["import_error"] = "%s: %s" % (type(e).__name__, e)
        out["backends"][name] = res
        continue
    res["modulus"] = mod.get_modulus()
    if style == "dict":
        cls = mod.LinearCombination
        mk = lambda v: cls({v: 1}); one = lambda: cls({0: 1}); zero = lambda: cls({}); items = items_dict
        res["one"] = items(mod.one()); res["zero"] = items(mod.zero())
    else:
        cls = mod.Sig
        mk = lambda v: cls([(1, "w%d" % v)]); one = lambda: cls([(1, "w0")]); zero = lambda: cls([]); items = items_sig
        res["zero"] = items(mod.zero())
    dags = []
    for dag in req["dags"]:
        objs, snaps, mutated = [], [], []
        for node in dag:
            op = node[0]
            if op == "var": o = mk(node[1])
            elif op == "one": o = one()
            elif op == "zero": o = zero()
            elif op == "add": o = objs[node[1]] + objs[node[2]]
            elif op == "sub": o = objs[node[1]] - objs[node[2]]
            elif op == "neg": o = -objs[node[1]]
            elif op == "scale": o = objs[node[1]] * node[2]
            else: raise ValueError(op)
            # operands must be unaltered (and so must every other earlier object)
            for i, (ob, sn) in enumerate(zip(objs, snaps)):
                if items(ob) != sn: mutated.append([len(objs), i])
            objs.append(o); snaps.append(copy.deepcopy(items(o)))
        dags.append({"nodes": snaps, "mutated": mutated})
    res["dags"] = dags
    inv = []
    for x in req["inv"]:
        try: inv.append(mod.fieldinverse(x))
        except ZeroDivisionError: inv.append(None)
        except Exception as e: inv.append("%s" % type(e).__name__)
    res["inv"] = inv
    out["backends"][name] = res
json.dump(out, sys.stdout)
