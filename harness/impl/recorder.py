"""Recording backend, injected under an existing backend module name before pysnark.runtime is
imported (stage 1 of pysnark's own selection logic then picks it up; /repo needs no hook).
Same variable numbering and dict-merge semantics as the snarkjs / zkinterface backends
(whose real classes are checked separately by C13)."""
import sys, types


class LC:
    __slots__ = ("d",)
    def __init__(s, d): s.d = d
    def __add__(s, o):
        d = dict()
        for a in s.d: d[a] = s.d[a] + o.d[a] if a in o.d else s.d[a]
        for b in o.d:
            if b not in s.d: d[b] = o.d[b]
        return LC(d)
    def __sub__(s, o): return s + (-o)
    def __mul__(s, k): return LC({a: b * k for a, b in s.d.items()})
    def __neg__(s): return s * -1


def install(modname="pysnark.nobackend"):
    R = types.ModuleType(modname)
    R.LC = LC
    def reset(p):
        R.P = p; R.pubs = []; R.privs = []; R.kinds = []; R.cons = []; R.proved = 0
    def privval(v): R.privs.append(v); R.kinds.append('w'); return LC({-len(R.privs): 1})
    def pubval(v): R.pubs.append(v); R.kinds.append('x'); return LC({len(R.pubs): 1})
    def fieldinverse(v):
        from pysnark import gmpy
        return int(gmpy.invert(v, R.P))
    def prove(): R.proved += 1
    R.reset = reset; R.privval = privval; R.pubval = pubval
    R.zero = lambda: LC({}); R.one = lambda: LC({0: 1})
    R.fieldinverse = fieldinverse; R.get_modulus = lambda: R.P
    R.add_constraint = lambda a, b, c: R.cons.append((a, b, c)); R.prove = prove
    reset(13)
    sys.modules[modname] = R
    return R
