"""Implementation side of the trace correspondence: runs programs of the shared language on the
real pysnark (with the recording backend) and reports, per case, the trace digests, the canonical
trace itself (optional) and the verdicts of the direct oracles.
stdin: one JSON case per line; stdout: one JSON record per line."""
import sys, json, operator, os
import recorder
MOD = os.environ.get("VERIF_BACKEND_MODULE", "pysnark.nobackend")
REAL = os.environ.get("VERIF_REAL_BACKEND")          # run on a real dict-style backend (snarkjs, zkinterface, ...) instead of the recorder
if REAL:
    os.environ["PYSNARK_BACKEND"] = REAL
    import pysnark.runtime as rt
    rt.autoprove = False
    class _Adapter:
        def __init__(s, b): s.b = b; s.P = b.get_modulus()
        def reset(s, p):
            s.b.privvals.clear(); s.b.pubvals.clear(); s.b.constraints.clear()
        pubs = property(lambda s: s.b.pubvals); privs = property(lambda s: s.b.privvals)
        cons = property(lambda s: [tuple(c) for c in s.b.constraints])
        kinds = property(lambda s: ['x'] * len(s.b.pubvals) + ['w'] * len(s.b.privvals))
    R = _Adapter(rt.backend)
else:
    R = recorder.install(MOD)
    import pysnark.runtime as rt
from pysnark.runtime import PrivVal, PubVal, ConstVal, LinComb
import pysnark.boolean as pb
from pysnark.boolean import LinCombBool, PrivValBool, PubValBool
import pysnark.fixedpoint as fx
from pysnark.fixedpoint import LinCombFxp, PrivValFxp, PubValFxp
import pysnark.branching as br
from pysnark.array import Array, ArrayRow
import pysnark.pack as pk
import digest as D
assert REAL or rt.backend is R, "recorder not selected as backend"
ONE0 = LinComb.ONE          # the constant-one object created at import
ZERO0 = LinComb.ZERO
FULL = os.environ.get("VERIF_FULL_TRACE") == "1"

BIN = {"add": operator.add, "sub": operator.sub, "mul": operator.mul, "truediv": operator.truediv,
       "floordiv": operator.floordiv, "mod": operator.mod, "divmod": divmod, "pow": operator.pow,
       "lshift": operator.lshift, "rshift": operator.rshift, "and": operator.and_, "or": operator.or_,
       "xor": operator.xor, "lt": operator.lt, "le": operator.le, "eq": operator.eq, "ne": operator.ne,
       "gt": operator.gt, "ge": operator.ge}
IBIN = {"add": operator.iadd, "sub": operator.isub, "mul": operator.imul, "truediv": operator.itruediv, "floordiv": operator.ifloordiv,
        "mod": operator.imod, "pow": operator.ipow, "lshift": operator.ilshift, "rshift": operator.irshift, "and": operator.iand,
        "or": operator.ior, "xor": operator.ixor}
UN = {"neg": operator.neg, "pos": operator.pos, "abs": abs, "invert": operator.invert}
INP = {"priv": PrivVal, "pub": PubVal, "privbool": PrivValBool, "pubbool": PubValBool, "privfxp": PrivValFxp, "pubfxp": PubValFxp}


def items(lc): return list((lc.d if hasattr(lc, "d") else lc.lc).items())


def out_val(v, outs):
    if isinstance(v, bool) or isinstance(v, int): outs.append((0, int(v), []))
    elif isinstance(v, LinComb): outs.append((1, v.value, items(v.lc)))
    elif isinstance(v, LinCombBool): outs.append((2, v.lc.value, items(v.lc.lc)))
    elif isinstance(v, LinCombFxp): outs.append((3, v.lc.value, items(v.lc.lc)))
    elif isinstance(v, float):
        m, den = v.as_integer_ratio()
        outs.append((4, m, [(0, den.bit_length() - 1)]))
    elif isinstance(v, Array):
        outs.append((12, len(v.arr), []))
        for x in v.arr: out_val(x, outs)
    elif isinstance(v, list):
        outs.append((5, len(v), []))
        for x in v: out_val(x, outs)
    elif isinstance(v, tuple):
        outs.append((6, len(v), []))
        for x in v: out_val(x, outs)
    elif v is None: outs.append((7, 0, []))
    elif v is NotImplemented: outs.append((8, 0, []))
    else: outs.append((99, 0, []))


def plain(v):
    if isinstance(v, bool): return int(v)
    if isinstance(v, int): return v
    if isinstance(v, LinComb): return {"lc": v.value}
    if isinstance(v, LinCombBool): return {"b": v.lc.value}
    if isinstance(v, LinCombFxp): return {"fx": v.lc.value}
    if isinstance(v, float):
        m, den = v.as_integer_ratio()
        return {"f": [m, den.bit_length() - 1]}
    if isinstance(v, (list, tuple)): return [plain(x) for x in v]
    if isinstance(v, Array): return {"arr": [plain(x) for x in v.arr]}
    if v is None: return None
    return {"other": type(v).__name__}


def coherent(v, p, w):
    """C04 oracle: reported value == wire evaluated on the recorded witness (mod p)."""
    bad = []
    def chk(x):
        lc = x if isinstance(x, LinComb) else x.lc
        if (lc.value - sum(c * w(k) for k, c in items(lc.lc))) % p != 0: bad.append(repr(x))
    def walk(x):
        if isinstance(x, (LinComb, LinCombBool, LinCombFxp)): chk(x)
        elif isinstance(x, (list, tuple)):
            for y in x: walk(y)
        elif isinstance(x, Array):
            for y in x.arr: walk(y)
    walk(v)
    return bad


SCHEMA_MEMO = None      # cfg["share"]: structurally equal sub-schemas of one case are ONE packer object (packers are stateless, so
                        # sharing an instance between positions / statements must not change anything)


def mk_schema(j):
    if SCHEMA_MEMO is not None:
        key = json.dumps(j)
        if key not in SCHEMA_MEMO: SCHEMA_MEMO[key] = mk_schema_(j)
        return SCHEMA_MEMO[key]
    return mk_schema_(j)


def mk_schema_(j):
    if j[0] == "bool": return pk.PackBool()
    if j[0] == "intmod": return pk.PackIntMod(j[1])
    if j[0] == "list": return pk.PackList([mk_schema(x) for x in j[1]])
    if j[0] == "repeat": return pk.PackRepeat(mk_schema(j[1]), j[2])
    raise ValueError(j)


def build_tree(t, regs):
    if isinstance(t, int): return regs[t]
    if t[0] == "list": return [build_tree(x, regs) for x in t[1]]
    if t[0] == "tuple": return tuple(build_tree(x, regs) for x in t[1])
    raise ValueError(t)


def bind_tree(t, val, regs):
    if isinstance(t, int): regs[t] = val
    else:
        for x, v in zip(t[1], val): bind_tree(x, v, regs)


_WHILE_CALLERS = {}
def while_caller(key):
    """_while() recognises 'the same loop' by the caller's line number: give every loop statement its own line"""
    f = _WHILE_CALLERS.get(key)
    if f is None:
        ns = {"br": br}
        exec(compile("\n" * (len(_WHILE_CALLERS) + 1) + "f = lambda c, ctx: br._while(c, ctx)", "<verif-while>", "exec"), ns)
        f = _WHILE_CALLERS[key] = ns["f"]
    return f


def cond_value(v):
    if isinstance(v, LinComb): return v.value
    if isinstance(v, LinCombBool): return v.lc.value
    return v if isinstance(v, int) else None


def run_stmts(prog, regs, ins, outs, st):
    for s in prog:
        try:
            run_stmt(s, regs, ins, outs, st)
        except BaseException:
            if st["exn_ctx"] is None:
                # guard context of the innermost statement that raised: [(cond register, polarity, cond value)]
                st["exn_ctx"] = [(q, pol, cond_value(regs.get(q))) for q, pol in st["gstack"]]
                st["exn_pc"] = st["pc"]
            raise


def run_stmt(s, regs, ins, outs, st):
    for s in [s]:
        op = s[0]
        st["pc"] += 1
        if op == "guarded":
            c = regs[s[1]]
            st["guard_conds"].append(cond_value(c))
            def body():
                st["gstack"].append((s[1], 1))
                try:
                    run_stmts(s[2], regs, ins, outs, st)
                finally:
                    st["gstack"].pop()
            rt.guarded(c)(body)()
            continue
        if op == "ignore":
            rt.ignore_errors(bool(s[1])); continue
        if op == "_prove":
            # an early prove() in the middle of the program (REPL / notebook use): what it writes is discarded; the artefacts
            # written by the final prove() must describe the whole trace all the same
            st["pc"] -= 1
            import tempfile, shutil, io, contextlib
            d0 = tempfile.mkdtemp(prefix="pysnark-verif-prove0-"); cwd0 = os.getcwd()
            try:
                os.chdir(d0)
                with contextlib.redirect_stdout(io.StringIO()), contextlib.redirect_stderr(io.StringIO()):
                    rt.backend.prove()
            finally:
                os.chdir(cwd0); shutil.rmtree(d0, ignore_errors=True)
            continue
        if op == "try":
            # runner-only statement (not in the Coq model): run the body, swallow an ordinary exception, carry on
            depth = len(st["gstack"])
            try:
                run_stmts(s[1], regs, ins, outs, st)
            except Exception as e:
                st.setdefault("caught", []).append((st["pc"], type(e).__name__, len(R.cons), len(R.kinds)))
                del st["gstack"][depth:]
            continue
        if op == "arrset":
            a, idx, v = regs[s[1]], [regs[q] for q in s[2]], regs[s[3]]
            a[idx[0] if len(idx) == 1 else tuple(idx)] = v
            st["snap"][s[1]] = (plain(a),)          # a legitimate in-place update of the array register
            continue
        if op == "bset":
            setattr(st["bv"], "v%d" % s[1], regs[s[2]]); continue
        if op == "bsetidx":
            tgt = getattr(st["bv"], "v%d" % s[1])
            for i in s[2][:-1]: tgt = tgt[i]
            tgt[s[2][-1]] = regs[s[3]]; continue
        if op == "bset_uncopyable":
            # runner-only: a variable holding an object copy.deepcopy cannot copy (the snapshot taken on entering a block fails)
            setattr(st["bv"], "v%d" % s[1], (x for x in [1])); continue
        if op == "barrset":
            idx = [regs[q] for q in s[2]]
            getattr(st["bv"], "v%d" % s[1])[idx[0] if len(idx) == 1 else tuple(idx)] = regs[s[3]]; continue
        if op == "raise":
            raise {"KeyboardInterrupt": KeyboardInterrupt, "SystemExit": SystemExit, "ValueError": ValueError, "RuntimeError": RuntimeError}[s[1]]("raised by the program")
        if op == "breakif":
            br._breakif(regs[s[1]], st["bv"]); continue
        if op == "oif":
            _, cn, thenb, elifs, elseb = s
            if br._if(regs[cn], st["bv"]):
                run_stmts(thenb, regs, ins, outs, st)
            for condb, cr, body in elifs:
                def cf(condb=condb, cr=cr):
                    run_stmts(condb, regs, ins, outs, st)
                    return regs[cr]
                if br._elif(cf, st["bv"]):
                    run_stmts(body, regs, ins, outs, st)
            if elseb is not None:
                if br._else(st["bv"]):
                    run_stmts(elseb, regs, ins, outs, st)
            br._endif(st["bv"])
            continue
        if op == "owhile":
            _, condb, cr, iters, body = s
            wc = while_caller(id(s))
            k = 0
            def cv():
                run_stmts(condb, regs, ins, outs, st)
                return regs[cr]
            while wc(cv(), st["bv"]) and k < iters:
                run_stmts(body, regs, ins, outs, st)
                k += 1
            br._endwhile(st["bv"])
            continue
        if op == "ofor":
            _, ix, start, stop, maxv, check, body = s
            for i in br._range(start, regs[stop], max=maxv, ctx=st["bv"], checkstopmax=bool(check)):
                regs[ix] = i
                st["snap"][ix] = (plain(i),)
                st["vals"].append((st["pc"], plain(i)))
                out_val(i, outs)
                run_stmts(body, regs, ins, outs, st)
            br._endfor(st["bv"])
            continue
        if op == "probe":
            g = rt.guard
            outs.append((10, -1 if g is None else g.value, [])); outs.append((11, 1 if rt._ignore_errors else 0, []))
            st["probes"].append((st["pc"], None if g is None else g.value, bool(rt._ignore_errors),
                                 [(q, pol, cond_value(regs.get(q))) for q, pol in st["gstack"]], LinComb.ONE is (g if g is not None else ONE0)))
            continue
        if op == "itelazy":
            d, cn, tb, tr_, fb, fr_ = s[1:]
            cond = regs[cn]
            def mk(body, ret, polarity):
                def f():
                    st["gstack"].append((cn, polarity))
                    try:
                        run_stmts(body, regs, ins, outs, st)
                    finally:
                        st["gstack"].pop()
                    return regs[ret]
                return f
            v = br.if_then_else(cond, mk(tb, tr_, 1), mk(fb, fr_, 0))
            regs[d] = v
            st["snap"][d] = (plain(v),)
            st["vals"].append((st["pc"], plain(v)))
            out_val(v, outs)
            continue
        d = s[1]
        if op == "input":
            iv = ins[s[3]]
            if PYBOOL and iv in (0, 1) and not isinstance(iv, bool) and (s[3] + st["pc"]) % 2 == 0: iv = bool(iv)     # True / False instead of 1 / 0
            v = INP[s[2]](iv)
        elif op == "const": v = s[2][1] if s[2][0] == "int" else float(s[2][1]) / float(2 ** s[2][2])
        elif op == "constval": v = ConstVal(s[2])
        elif op == "un": v = UN[s[2]](regs[s[3]])
        elif op == "bin":
            if len(s) > 5 and s[5] == "i" and s[2] in IBIN:
                v = regs[s[3]]; v = IBIN[s[2]](v, regs[s[4]])          # t = a; t <op>= b   (the in-place operator path)
            else: v = BIN[s[2]](regs[s[3]], regs[s[4]])
        elif op == "ite": v = br.if_then_else(regs[s[2]], regs[s[3]], regs[s[4]])
        elif op == "list": v = [regs[i] for i in s[2]]
        elif op == "index": v = regs[s[2]][s[3]]
        elif op == "bget": v = getattr(st["bv"], "v%d" % s[2])
        elif op == "bgetidx":
            v = getattr(st["bv"], "v%d" % s[2])
            for i in s[3]: v = v[i]
        elif op in ("permute", "poseidon"):
            import pysnark.poseidon_hash as ph
            v = ph.permute(regs[s[3]]) if op == "permute" else ph.poseidon_hash(regs[s[3]])
        elif op == "ggh":
            import pysnark.ggh_hash as gh
            st["ggh_coeffs"] = [gh.SHA512_prng(i) for i in range(len(regs[s[3]]))]
            v = gh.ggh_hash(regs[s[3]])
        elif op == "pack": v = mk_schema(s[2]).pack(regs[s[3]])
        elif op == "unpack": v = mk_schema(s[2]).unpack(regs[s[3]], 0)
        elif op == "snark":
            _, d_, args, body, res = s
            def fn(*conv):
                for t, cv in zip(args, conv): bind_tree(t, cv, regs)
                run_stmts(body, regs, ins, outs, st)
                return build_tree(res, regs)
            ret = rt.snark(fn)(*[build_tree(t, regs) for t in args])
            def rec_plain(x):
                if isinstance(x, (list, tuple)):
                    for y in x: rec_plain(y)
                elif isinstance(x, float): outs.append((9, round(x * (1 << fx.resolution)), []))
                else: out_val(x, outs)
            rec_plain(ret)
            st["snark_returns"].append(plain(ret))
            v = None
        elif op == "arrnew": v = Array([regs[q] for q in s[2]])
        elif op == "arrcopy": v = Array(regs[s[2]])
        elif op == "arrget":
            idx = [regs[q] for q in s[3]]
            v = regs[s[2]][idx[0] if len(idx) == 1 else tuple(idx)]
        elif op == "meth":
            name, k, recv, args = s[2], s[3], regs[s[4]], [regs[i] for i in s[5]]
            if name == "from_bits": v = LinComb.from_bits(recv)
            elif name == "val":
                r = recv.val()
                if isinstance(recv, LinCombFxp):
                    outs.append((9, recv.lc.value, []))
                    if abs(recv.lc.value) < 2 ** 53 and r != recv.lc.value / (1 << fx.resolution): st["floatbad"] = True
                else: outs.append((0, r, []))
                v = None
            else:
                f = getattr(recv, name)
                v = f(*args) if k is None else f(*(args + [k]))
        else: raise Exception("bad stmt " + op)
        # no operation may alter an existing object (operands are shared): compare with the snapshots
        for q, sv in st["snap"].items():
            if q in regs and q != d and plain(regs[q]) != sv[0]:
                st["mutated"].append((st["pc"], q, sv[0], plain(regs[q])))
                st["snap"][q] = (plain(regs[q]),)
        regs[d] = v
        st["snap"][d] = (plain(v),)
        st["vals"].append((st["pc"], plain(v)))
        out_val(v, outs)
        # formatting a value (debug output, error messages) is an observation: it allocates nothing and emits nothing
        n0 = (len(R.pubs), len(R.privs), len(R.cons))
        try: repr(v); str(v)
        except Exception: pass
        if (len(R.pubs), len(R.privs), len(R.cons)) != n0: st.setdefault("format_effects", []).append(st["pc"])
        for q in regs: st["coh"] += coherent(regs[q], R.P, st["w"])


PYBOOL = False


def run_case(case):
    global PYBOOL, SCHEMA_MEMO
    PYBOOL = bool(case.get("pybool"))
    cfg = case["cfg"]; p = cfg["p"]
    SCHEMA_MEMO = {} if cfg.get("share") else None
    R.reset(p)
    if REAL: p = R.P
    rt.guard = None; rt._ignore_errors = bool(cfg["ign"]); LinComb.ONE = ONE0
    for m in case.get("reimport", ()): sys.modules.pop(m, None)     # the case's first use of these modules imports them afresh
    rt.bitlength = cfg["n"]; fx.resolution = cfg["res"]
    w = lambda k: 1 if k == 0 else (R.pubs[k - 1] if k > 0 else R.privs[-k - 1])
    outs = []; st = {"pc": 0, "coh": [], "w": w, "vals": [], "snap": {}, "mutated": [], "gstack": [], "probes": [], "exn_ctx": None, "condvals": {}, "guard_conds": [], "snark_returns": []}
    exn = None; gobs = None
    st["regs"] = {}
    st["bv"] = br.BranchingValues()
    try:
        prog_ = case["prog"]
        if REAL and case.get("prove") == 2:
            k_ = case.get("prove_at", len(prog_) // 2)
            prog_ = prog_[:k_] + [["_prove"]] + prog_[k_:]
        run_stmts(prog_, st["regs"], case["ins"], outs, st)
    except (AssertionError, ValueError, ZeroDivisionError, TypeError, RuntimeError, NotImplementedError, IndexError,
            AttributeError, StopIteration, KeyboardInterrupt, SystemExit) as e:
        exn = type(e).__name__
        st["msg"] = str(e)[:200]
        import traceback as _tb; st["tb"] = _tb.format_exc()[-900:]
    st["bv"].stack.clear()      # BranchingValues.__del__ raises when branches are left open
    st["final_bvals"] = {k: plain(v) for k, v in st["bv"].vals.items()}
    g = rt.guard
    cur = (None if g is None else items(g.lc), bool(rt._ignore_errors), items(LinComb.ONE.lc))
    if exn is None:
        outs.append((-1, 1 if cur[1] else 0, cur[0] if cur[0] is not None else []))
        outs.append((-2, 0 if cur[0] is None else 1, cur[2]))
    cons = [(items(a), items(b), items(c)) for a, b, c in R.cons]
    # C01 oracle: every constraint satisfied by the recorded witness
    unsat = []
    for i, (a, b, c) in enumerate(R.cons):
        ev = lambda l: sum(cf * w(k) for k, cf in items(l))
        try:
            if (ev(a) * ev(b) - ev(c)) % p != 0: unsat.append(i)
        except IndexError:
            unsat.append(i)          # a constraint over a variable that was never allocated in this trace
    rec = {"id": case.get("id"), "exn": exn, "msg": st.get("msg"), "tb": st.get("tb"), "caught": st.get("caught", []), "nvars": len(R.kinds), "ncons": len(cons), "npub": len(R.pubs),
           "dig": [D.digest_vars(p, R.kinds, R.pubs, R.privs), D.digest_cons(p, cons), D.digest_outs(p, outs), D.digest_exn(p, exn, cur)],
           "unsat": unsat[:5], "incoherent": st["coh"][:5], "mutated": st["mutated"][:5], "floatbad": st.get("floatbad", False), "pc": st["pc"],
           "shape": [D.digest_cons(p, cons), "".join(R.kinds), D.digest_outs(p, [(t, 0, l) for t, v, l in outs if t > 0])],
           "ggh_coeffs": st.get("ggh_coeffs"), "guard_conds": st["guard_conds"][:50], "snark_returns": st["snark_returns"][:20], "pubs_order": list(R.pubs)[:200], "final_bvals": st["final_bvals"],
           "globals": [rt.guard is None, bool(rt._ignore_errors), LinComb.ONE is ONE0],
           "config": [rt.bitlength, fx.resolution], "format_effects": st.get("format_effects", [])[:5],
           "final_regs": {str(k): plain(v) for k, v in list(st.get("regs", {}).items())[:200]},
           "vals": st["vals"][:300], "probes": st["probes"][:50], "exn_ctx": st["exn_ctx"], "exn_pc": st.get("exn_pc")}
    if REAL and case.get("prove"):
        # let the real backend write its artefacts for this trace, in a scratch directory
        import tempfile, shutil, io, contextlib
        d = tempfile.mkdtemp(prefix="pysnark-verif-prove-")
        cwd = os.getcwd()
        try:
            os.chdir(d)
            with contextlib.redirect_stdout(io.StringIO()), contextlib.redirect_stderr(io.StringIO()):
                rt.backend.prove()
            rec["files"] = {fn: open(os.path.join(d, fn), "rb").read().hex() for fn in sorted(os.listdir(d))}
        except Exception as e:
            rec["prove_error"] = "%s: %s" % (type(e).__name__, e)
        finally:
            os.chdir(cwd); shutil.rmtree(d, ignore_errors=True)
    if FULL or case.get("full"):
        rec["trace"] = {"kinds": "".join(R.kinds), "pubs": R.pubs, "privs": R.privs, "cons": cons, "outs": outs, "globals": cur}
    return rec


def run_isolated(case):
    """each case runs in a forked child of this (freshly imported) interpreter: whatever state the library keeps between
    calls -- module globals, class-level caches, lazily imported modules -- starts from the import-time state for every case"""
    r, w = os.pipe()
    pid = os.fork()
    if pid == 0:
        os.close(r)
        try:
            out = json.dumps(run_case(case))
        except BaseException as e:
            import traceback
            sys.stderr.write("runner child failed on case %r: %s\n" % (case.get("id"), traceback.format_exc()[-1500:]))
            out = ""
        with os.fdopen(w, "w") as f: f.write(out)
        sys.stderr.flush()
        os._exit(0)
    os.close(w)
    with os.fdopen(r) as f: data = f.read()
    os.waitpid(pid, 0)
    return data


for line in sys.stdin:
    line = line.strip()
    if not line: continue
    if os.environ.get("VERIF_NOFORK"): print(json.dumps(run_case(json.loads(line))))
    else: print(run_isolated(json.loads(line)))
    sys.stdout.flush()
