"""Implementation side of C12: run a scenario on the real qaptools backend (external binaries replaced by failing stubs),
call prove() (which runs qapsplit and then stops at qapgen), and return every file written.
stdin: JSON scenario; cwd: scratch directory (PYSNARK_KEYDIR/PROOFDIR default to cwd)."""
import sys, json, os, io, contextlib
sc = json.load(sys.stdin)
os.environ["PYSNARK_BACKEND"] = "qaptools"
import pysnark.runtime as rt
from pysnark.runtime import PrivVal, PubVal, LinComb
import pysnark.qaptools.backend as qb
rt.autoprove = False
assert rt.backend is qb

calls = []          # log of sub-circuit calls: (function, argument values, result values)

def make_fn(kind):
    if kind == "sq":
        @qb.subqap("sq")
        def f(x): return x * x
    elif kind == "madd":
        @qb.subqap("madd")
        def f(x, y): return x * y + x
    elif kind == "pair":
        @qb.subqap("pair")
        def f(x, y): return [x * y, x + y]
    elif kind == "nest":
        sq = make_fn("sq")
        @qb.subqap("nest")
        def f(x, y): return sq(x) * y
    elif kind == "iszero":         # uses LinComb.ONE_SAFE of the main context inside the callee
        @qb.subqap("iszero")
        def f(x): return (x == 0).lc
    elif kind == "poly":           # same name, value-dependent body: inconsistent equation sets
        @qb.subqap("poly")
        def f(x): return x * x * x if x.value % 2 else x * x
    elif kind == "perm":           # value-dependent body whose two variants differ only by a permutation of the tokens of a line
        @qb.subqap("perm")
        def f(x, y): return (x * 2) * y if x.value % 2 else y * y
    elif kind == "perm2":          # ... or by the order of two equations
        @qb.subqap("perm2")
        def f(x, y):
            if x.value % 2:
                u = x * y; v = y * y
            else:
                v = y * y; u = x * y
            return u + 3 * v
    elif kind == "layout":         # identical constraints, value-dependent I/O block layout (which wires are returned)
        @qb.subqap("layout")
        def f(x, y):
            m = x * y
            return [m, x] if x.value % 2 else [m, y]
    elif kind == "closure":        # the callee hands a wire of the CALLER's context (captured by closure) to a nested sub-circuit
        sqm = make_fn("madd")
        @qb.subqap("closure")
        def f(x, y):
            v = x * x
            return sqm(v, CAPT[0]) + y
    else: raise ValueError(kind)
    return f

CAPT = [None]

FN = {}
regs = {}
err = None
try:
    for st in sc["steps"]:
        op = st[0]
        if op == "priv":
            regs[st[1]] = PrivVal(st[2])
            if CAPT[0] is None: CAPT[0] = regs[st[1]]           # the first secret of the main context
        elif op == "pub": regs[st[1]] = PubVal(st[2])
        elif op == "bin":
            a, b = regs[st[3]], (regs[st[4]] if isinstance(st[4], str) else st[4])
            regs[st[1]] = {"add": lambda: a + b, "sub": lambda: a - b, "mul": lambda: a * b}[st[2]]()
        elif op == "val": regs[st[1]].val()
        elif op == "prove":                                   # prove() in the middle of a session (REPL / notebook use): tracing goes on afterwards
            with contextlib.redirect_stderr(io.StringIO()), contextlib.redirect_stdout(io.StringIO()):
                qb.prove()
        elif op == "call":
            kind, args, dst = st[1], st[2], st[3]
            if kind not in FN: FN[kind] = make_fn(kind)
            r = FN[kind](*[regs[a] for a in args])
            flat = r if isinstance(r, list) else [r]
            calls.append([kind, [regs[a].value for a in args], [x.value for x in flat]])
            if isinstance(r, list):
                for i, x in enumerate(r): regs["%s%d" % (dst, i)] = x
                regs[dst] = r[0]
            else: regs[dst] = r
    buf = io.StringIO()
    with contextlib.redirect_stderr(buf), contextlib.redirect_stdout(buf):
        qb.prove()
    log = buf.getvalue()
except Exception as e:
    err = "%s: %s" % (type(e).__name__, e)
    log = ""
for f in (qb.qape, qb.qapv, qb.qapvo):
    try: f.flush()
    except Exception: pass
files = {}
for fn in sorted(os.listdir(".")):
    if fn.startswith("pysnark_"):
        files[fn] = open(fn).read()
json.dump({"files": files, "calls": calls, "error": err, "log": log[-3000:], "p": qb.vc_p}, sys.stdout)
