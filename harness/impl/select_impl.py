"""Implementation side of C19: import pysnark.runtime under one configuration and report which backend is in effect.
argv[1]: JSON {env: str|null, preimport: [module...], blocked: [module...], libsnark_stub: bool}"""
import sys, json, os, io, importlib, importlib.abc, contextlib
cfg = json.loads(sys.argv[1])
class Blocker(importlib.abc.MetaPathFinder):
    def find_spec(self, name, path, target=None):
        if name in cfg["blocked"]: raise ImportError("blocked by the selection check: " + name)
        return None
sys.meta_path.insert(0, Blocker())
if cfg.get("env") is None: os.environ.pop("PYSNARK_BACKEND", None)
else: os.environ["PYSNARK_BACKEND"] = cfg["env"]
out = {"preimport_errors": []}
buf = io.StringIO()
with contextlib.redirect_stdout(buf), contextlib.redirect_stderr(buf):
    for m in cfg["preimport"]:
        try: importlib.import_module(m)
        except Exception as e: out["preimport_errors"].append("%s: %s" % (m, type(e).__name__))
    out["in_sys_modules"] = sorted(m for m in sys.modules if m.startswith("pysnark.") and "backend" in m)
    try:
        import pysnark.runtime as rt
        rt.autoprove = False
        out["name"] = rt.backend_name
        out["module"] = None if rt.backend is None else rt.backend.__name__
        try: out["modulus"] = rt.backend.get_modulus()
        except Exception as e: out["modulus"] = "error: %s" % type(e).__name__
        api = ["privval", "pubval", "zero", "one", "fieldinverse", "get_modulus", "add_constraint", "prove"]
        out["missing_api"] = [a for a in api if not hasattr(rt.backend, a)]
        # the field the backend's own arithmetic works in is the field it reports
        try:
            md = rt.backend.get_modulus()
            out["inverse_in_reported_field"] = all((rt.backend.fieldinverse(k) * k) % md == 1 for k in (3, 7, md - 2))
        except Exception as e:
            out["inverse_in_reported_field"] = "error: %s" % type(e).__name__
        try:
            from pysnark.runtime import PrivVal
            x = PrivVal(3); y = x * x; (y + 1).val()
            out["usable"] = True
        except Exception as e:
            out["usable"] = "%s: %s" % (type(e).__name__, e)
    except BaseException as e:
        out["exception"] = "%s: %s" % (type(e).__name__, str(e)[:200])
text = buf.getvalue()
out["unknown_msg"] = "unknown backend in environment variables" in text
out["load_errors"] = [ln.split("Error loading backend ")[1].split(":")[0] for ln in text.split("\n") if "Error loading backend" in ln]
print(json.dumps(out))
