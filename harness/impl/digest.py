"""Digest of a canonical trace -- mirrors Model/Sym.v (hq, hr, hlc, hmix, hcon, digest_*)."""
HQ = (1 << 61) - 1
_hr = {}
def hr(v):
    r = _hr.get(v)
    if r is None:
        t = v + 1048576
        r = _hr[v] = ((((t * t) % HQ) * t) % HQ + 12345 * ((t * t) % HQ) + 6789 * t + 1) % HQ
    return r
def hlc(p, items):
    acc = 0
    for v, c in items: acc = (acc + (c % p) * hr(v)) % HQ
    return acc
def hmix(h, x): return (h * 1000003 + (x % HQ)) % HQ
def hcon(p, a, b, y):
    ha = hlc(p, a); hb = hlc(p, b)
    return hmix(hmix(hmix(17, (ha + hb) % HQ), (ha * hb) % HQ), hlc(p, y))
EXN = {"AssertionError": 1, "ValueError": 2, "ZeroDivisionError": 3, "TypeError": 4, "RuntimeError": 5,
       "NotImplementedError": 6, "IndexError": 7, "AttributeError": 8, "StopIteration": 9, "KeyboardInterrupt": 11, "SystemExit": 12}
def hgobs(p, guard_items, ig, one_items):
    return hmix(hmix(hmix(23, 0 if guard_items is None else 1 + hlc(p, guard_items)), 1 if ig else 0), hlc(p, one_items))
def digest_vars(p, kinds, pubs, privs):
    h = 7; pi = iter(pubs); wi = iter(privs)
    for k in kinds:
        h = hmix(hmix(h, 1), next(pi) % p) if k == 'x' else hmix(hmix(h, 2), next(wi) % p)
    return h
def digest_cons(p, cons):
    h = 11
    for a, b, y in cons: h = hmix(h, hcon(p, a, b, y))
    return h
def digest_outs(p, outs):
    h = 13
    for tag, v, l in outs: h = hmix(hmix(hmix(h, tag), v), hlc(p, l))
    return h
def digest_exn(p, exn, gobs):
    if exn is None: return 0
    return hmix(EXN.get(exn, 99), hgobs(p, *gobs))
