"""Implementation side of C09's implicit-context scenarios: the oblivious constructs called without ctx=, the way
examples/*.py use them (the BranchingValues instance is found in the caller's locals).  Each scenario is a small
hand-written program given twice -- with _if/_while/_range on secret values and with native control flow on the plain
values -- run on several inputs; the two must agree and the recorded constraints must hold on the recorded witness.
argv[1]: JSON list of [scenario, ins]; stdout: one JSON record per line."""
import sys, json
import recorder
R = recorder.install("pysnark.nobackend")
import pysnark.runtime as rt
rt.autoprove = False
from pysnark.runtime import PrivVal, LinComb
from pysnark.branching import BranchingValues, _if, _elif, _else, _endif, _range, _endfor, _while, _endwhile, _breakif
BN = 21888242871839275222246405745257275088548364400416034343698204186575808495617
_ = BranchingValues()          # a module-level context named `_`: functions that keep their own context under another name must still use their own
_.unused = 0


def pv(x): return x.value if isinstance(x, LinComb) else (x.lc.value if hasattr(x, "lc") and not isinstance(x, LinComb) else x)


# ---- scenario: helper with its own `_`, called several times one after the other (examples/factorial.py)
def fac_o(n, mx):
    _ = BranchingValues()
    _.ret = 1
    for i in _range(1, n + 1, max=mx + 1):
        _.ret = _.ret * i
    _endfor()
    return _.ret
def fac_n(n, mx):
    r = 1
    for i in range(1, n + 1): r *= i
    return r


# ---- scenario: recursion with a public depth bound; the recursive activation opens its own block inside the caller's block
def sumto_o(n, d):
    _ = BranchingValues()
    _.r = 0
    if d == 0: return _.r
    if _if(n > 0):
        _.r = n + sumto_o(n - 1, d - 1)
    _endif()
    return _.r
def sumto_n(n, d):
    if d == 0: return 0
    return n + sumto_n(n - 1, d - 1) if n > 0 else 0


# ---- scenario: recursion where the block comes after the recursive call returned (two live instances of the same code)
def steps_o(n, d):
    bv = BranchingValues()
    bv.c = 0
    if d == 0: return bv.c
    sub = steps_o(n - 1, d - 1)
    if _if(n > 0):
        bv.c = sub + 1
    if _else():
        bv.c = sub
    _endif()
    return bv.c
def steps_n(n, d):
    if d == 0: return 0
    sub = steps_n(n - 1, d - 1)
    return sub + 1 if n > 0 else sub


# ---- scenario: an earlier activation's instance is kept alive while the function is called again
KEEP = []
def keep_o(a, b):
    _ = BranchingValues()
    KEEP.append(_)
    _.x = 5
    if _if(a > b):
        _.x = a - b
    if _elif(lambda: a == b):
        _.x = 77
    _endif()
    return _.x
def keep_n(a, b):
    return a - b if a > b else (77 if a == b else 5)


# ---- scenario: while loop in a helper with a differently named instance, caller has its own `_` with an open block
def count_o(n, mx):
    w = BranchingValues()
    w.k = 0; w.t = n
    k = 0
    while _while(w.t > 0) and k < mx:
        w.t = w.t - 2
        w.k = w.k + 1
        k += 1
    _endwhile()
    return w.k
def count_n(n, mx):
    k = 0; t = n
    while t > 0 and k < mx: t -= 2; k += 1
    return k
def outer_o(a, n, mx):
    _ = BranchingValues()
    _.y = 100
    if _if(a > 1):
        _.y = count_o(n, mx) + 1
    if _else():
        _.y = count_o(n + 1, mx) + 10
    _endif()
    return _.y
def outer_n(a, n, mx):
    return count_n(n, mx) + 1 if a > 1 else count_n(n + 1, mx) + 10


# ---- scenario: `_` is preferred over another BranchingValues that comes first in the locals
def pref_o(a):
    other = BranchingValues()
    other.z = 3
    _ = BranchingValues()
    _.z = 4
    if _if(a > 2):
        _.z = 40
        other.z = 30          # not managed by the block: an unconditional assignment
    _endif()
    return [_.z, other.z]
def pref_n(a):
    return [40 if a > 2 else 4, 30]


# ---- scenario: nested helper calls of *different* functions, each with `_`, loop with break
def firstge_o(xs, t):
    _ = BranchingValues()
    _.ix = -1
    for i in _range(len(xs)):
        _breakif(xs[i] >= t)
        _.ix = i
    _endfor()
    return _.ix
def firstge_n(xs, t):
    ix = -1
    for i in range(len(xs)):
        if xs[i] >= t: break
        ix = i
    return ix
def twice_o(xs, t, a):
    _ = BranchingValues()
    _.u = 0
    if _if(a > 0):
        _.u = firstge_o(xs, t) + firstge_o(xs, t + 1)
    _endif()
    return _.u
def twice_n(xs, t, a):
    return firstge_n(xs, t) + firstge_n(xs, t + 1) if a > 0 else 0


SCEN = {
    "factorial-sequence": (lambda ins: [fac_o(PrivVal(x), 6) for x in ins], lambda ins: [fac_n(x, 6) for x in ins]),
    "recursion-block-around-call": (lambda ins: [sumto_o(PrivVal(x), 4) for x in ins], lambda ins: [sumto_n(x, 4) for x in ins]),
    "recursion-block-after-call": (lambda ins: [steps_o(PrivVal(x), 4) for x in ins], lambda ins: [steps_n(x, 4) for x in ins]),
    "instance-kept-alive": (lambda ins: [keep_o(PrivVal(ins[i]), PrivVal(ins[i + 1])) for i in range(len(ins) - 1)],
                            lambda ins: [keep_n(ins[i], ins[i + 1]) for i in range(len(ins) - 1)]),
    "helper-in-callers-block": (lambda ins: [outer_o(PrivVal(ins[0]), PrivVal(x), 4) for x in ins[1:]], lambda ins: [outer_n(ins[0], x, 4) for x in ins[1:]]),
    "underscore-preferred": (lambda ins: [pref_o(PrivVal(x)) for x in ins], lambda ins: [pref_n(x) for x in ins]),
    "nested-helpers-break": (lambda ins: [twice_o([PrivVal(x) for x in ins[1:]], PrivVal(ins[0]), PrivVal(ins[1]))],
                             lambda ins: [twice_n(ins[1:], ins[0], ins[1])]),
}


def flat(v):
    if isinstance(v, list): return [flat(x) for x in v]
    return pv(v)


def main():
    for name, ins in json.loads(sys.argv[1]):
        R.reset(BN); KEEP.clear()
        rt.guard = None; rt._ignore_errors = False
        rec = dict(scenario=name, ins=ins)
        try:
            rec["want"] = SCEN[name][1](ins)
            rec["got"] = flat(SCEN[name][0](ins))
            rec["exn"] = None
        except BaseException as e:
            rec["exn"] = "%s: %s" % (type(e).__name__, str(e)[:200])
        def ev(lc): return sum(c * (1 if k == 0 else R.pubs[k - 1] if k > 0 else R.privs[-k - 1]) for k, c in lc.d.items())
        rec["unsat"] = [i for i, (a, b, c) in enumerate(R.cons) if (ev(a) * ev(b) - ev(c)) % BN != 0][:5]
        rec["ncons"] = len(R.cons); rec["guard_restored"] = rt.guard is None
        for b in KEEP: b.stack.clear()
        KEEP.clear()
        print(json.dumps(rec)); sys.stdout.flush()


main()
