"""Direct scenarios for C17 (run on the real pysnark with the recording backend): sequences of wrapped calls that share
argument objects / result wires.  Prints one JSON list of violations."""
import sys, json, os
sys.path.insert(0, os.path.dirname(os.path.abspath(__file__)))
import recorder
R = recorder.install("pysnark.nobackend")
import pysnark.runtime as rt
from pysnark.runtime import snark, PrivVal, LinComb
rt.autoprove = False
assert rt.backend is R
P = 21888242871839275222246405745257275088548364400416034343698204186575808495617
R.reset(P)
viol = []
def bad(key, what): viol.append(dict(kind="oracle", op="snark", key=key, what=what))
def w(k): return 1 if k == 0 else (R.pubs[k - 1] if k > 0 else R.privs[-k - 1])
def flat(x):
    if isinstance(x, (list, tuple)): return [z for y in x for z in flat(y)]
    if isinstance(x, dict): return [z for k in x for z in flat(x[k])]
    return [x]

def call(name, fn, plain_fn, args, nsecret=None):
    """one wrapped call: public vector must grow by exactly flatten(args) then flatten(results), returned value = plain_fn(*args)"""
    import copy
    before = copy.deepcopy(args)
    n0 = len(R.pubs)
    want_ret = plain_fn(*copy.deepcopy(args))
    got = snark(fn)(*args)
    new = list(R.pubs[n0:])
    want = flat(before) + flat(want_ret)
    if got != want_ret: bad("returned-values:" + name, "%s returned %r, the undecorated function gives %r" % (name, got, want_ret))
    if new != want: bad("public-vector:" + name, "%s published %r, expected its arguments then its results %r" % (name, new, want))
    if args != before: bad("arguments-mutated:" + name, "%s changed its caller's argument structure from %r to %r" % (name, before, [repr(a)[:60] for a in args]))

try:
    data = [3, 4, 5]
    total = lambda l: sum(l)
    call("sum#1", total, total, [data])
    call("sum#2-same-list-object", total, total, [data])
    nested = lambda l: l[0][0] * l[1][0] + l[0][2]
    call("nested-same-list-object", nested, nested, [[data, [9]]])
    tup = lambda t, k: [t[0] + k, t[1]]
    pair = (6, 2)
    call("tuple#1", tup, tup, [pair, 7])
    call("tuple#2-same-tuple", tup, tup, [pair, 1])
    dct = lambda d: d["a"] * d["b"]
    dd = {"a": 2, "b": 11}
    call("dict#1", dct, dct, [dd])
    call("dict#2-same-dict", dct, dct, [dd])
    # the same result wire in several result positions, and returned by several calls
    twice = lambda l: [l[0], l[0]]
    call("same-wire-twice", twice, twice, [[5]])
    keep = {}
    def capture(x):
        keep["w"] = x * x
        return keep["w"]
    call("capture", capture, lambda x: x * x, [12])
    def again(y): return [y, keep["w"]]
    call("captured-wire-returned-again", again, lambda y: [y, 144], [2])
    # the SAME container object at several positions of one call (and of one result)
    norm = lambda u, v: sum(x * y for x, y in zip(u, v))
    vec = [3, 4]
    call("same-list-twice-in-one-call", norm, norm, [vec, vec])
    row = [1, 2]
    mat = lambda m: m[0][0] + m[1][1] + m[2][0]
    call("same-row-twice-in-a-matrix", mat, mat, [[row, [5, 6], row]])
    tp = (2, 5)
    call("same-tuple-twice", lambda a, b: a[0] * b[1], lambda a, b: a[0] * b[1], [tp, tp])
    dd2 = {"k": 3}
    call("same-dict-twice", lambda a, b: a["k"] + b["k"], lambda a, b: a["k"] + b["k"], [dd2, dd2])
    def same_result_list(x):
        sq = [x * x, x + 1]
        return [sq, sq]
    call("same-result-list-twice", same_result_list, lambda x: [[x * x, x + 1], [x * x, x + 1]], [7])
    three = lambda a, b: [a + b, [a * b, a + b], (a, b)]
    call("shared-subresult", lambda a, b: (lambda s_: [s_, [a * b, s_], (a, b)])(a + b), three, [4, 6])
    # nested structures of every kind in arguments and results: dict in dict, list in dict in tuple, dict in list
    area = lambda d: d["size"]["w"] * d["size"]["h"] + d["pad"]
    call("dict-in-dict", area, area, [{"size": {"w": 6, "h": 7}, "pad": 1}])
    deep = lambda t: t[0]["a"][1] * t[1][0]["b"] + t[0]["a"][0]
    call("list-in-dict-in-tuple", deep, deep, [({"a": [2, 3]}, [{"b": 5}])])
    nres = lambda a, b: {"res": {"prod": a * b, "sum": a + b}, "pair": [a, (b, {"k": a + 1})]}
    call("nested-results", nres, nres, [4, 9])
    # keyword arguments are refused
    for args, kw in (((3,), dict(k=2)), ((6, [7, 8]), dict(k=2)), ((True, 2.5), dict(k=1)), ((), dict(x=4))):
        n0, c0 = len(R.pubs), len(R.cons)
        try:
            snark(lambda *x, k=1: x[0] if x else k)(*args, **kw)
            bad("kwargs-accepted", "a keyword argument was accepted by a wrapped call")
        except (RuntimeError, TypeError, ValueError):
            pass
        # a refused call has no effect: nothing became public, nothing was emitted
        if (len(R.pubs), len(R.cons)) != (n0, c0):
            bad("refused-call-left-public-inputs", "a wrapped call refused for its keyword arguments left %d public value(s) and %d constraint(s) behind (arguments %r)" % (len(R.pubs) - n0, len(R.cons) - c0, args))
            break
    # a call after the refused ones publishes exactly its own arguments and result
    n0 = len(R.pubs)
    snark(lambda x, y: x * y)(5, 4)
    if list(R.pubs[n0:]) != [5, 4, 20]:
        bad("public-vector:after-refused-calls", "after refused calls a wrapped call published %r, expected [5, 4, 20]" % (list(R.pubs[n0:]),))
    # every recorded constraint holds on the recorded witness (each output is tied to its wire)
    ev = lambda lc: sum(c * w(k) for k, c in lc.d.items()) % P
    for i, (a, b, c) in enumerate(R.cons):
        if (ev(a) * ev(b) - ev(c)) % P: bad("unsatisfied", "constraint %d violated by the recorded witness" % i); break
    # one linking constraint per public output: count them
except Exception as e:
    bad("scenario-crashed", "%s: %s" % (type(e).__name__, str(e)[:200]))
print(json.dumps(viol))
