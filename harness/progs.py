"""Program language shared by the implementation runner and the Coq model: generator, Coq printer,
and the correspondence driver (model evaluated inside Coq by vm_compute; digests compared)."""
import json, os, random, re, subprocess
import common
from common import zlit

BN = 21888242871839275222246405745257275088548364400416034343698204186575808495617
BLS = 52435875175126190479447740508185965837690552500527637822603658699938581184513
C25519 = 7237005577332262213973186563042994240857116359379907606001950938285454250989
SMALL_P = [13, 17, 31, 61, 251, 65537]

BOPS = ["add", "sub", "mul", "truediv", "floordiv", "mod", "divmod", "pow", "lshift", "rshift", "and", "or", "xor",
        "lt", "le", "eq", "ne", "gt", "ge"]
COQ_BOP = {"add": "OAdd", "sub": "OSub", "mul": "OMul", "truediv": "OTrueDiv", "floordiv": "OFloorDiv", "mod": "OMod",
           "divmod": "ODivmod", "pow": "OPow", "lshift": "OLshift", "rshift": "ORshift", "and": "OAnd", "or": "OOr",
           "xor": "OXor", "lt": "OLt", "le": "OLe", "eq": "OEq", "ne": "ONe", "gt": "OGt", "ge": "OGe"}
COQ_UOP = {"neg": "UNeg", "pos": "UPos", "abs": "UAbs", "invert": "UInvert"}
COQ_IN = {"priv": "IPriv", "pub": "IPub", "privbool": "IPrivBool", "pubbool": "IPubBool", "privfxp": "IPrivFxp", "pubfxp": "IPubFxp"}
COQ_METH = {"to_bits": "MToBits", "from_bits": "MFromBits", "check_positive": "MCheckPositive", "assert_positive": "MAssertPositive",
            "check_zero": "MCheckZero", "check_nonzero": "MCheckNonzero", "assert_zero": "MAssertZero",
            "assert_nonzero": "MAssertNonzero", "assert_range": "MAssertRange", "assert_lt": "MAssertLt", "assert_le": "MAssertLe",
            "assert_eq": "MAssertEq", "assert_ne": "MAssertNe", "assert_gt": "MAssertGt", "assert_ge": "MAssertGe", "val": "MVal"}
KMETH = ("to_bits", "check_positive", "assert_positive")


def nl(l): return "[" + "; ".join("%d%%nat" % i for i in l) + "]"


def coq_stmt(s):
    op = s[0]
    if op == "input": return "SInput %d %s %d" % (s[1], COQ_IN[s[2]], s[3])
    if op == "const":
        v = s[2]
        return "SConst %d (%s)" % (s[1], "LInt %s" % zlit(v[1]) if v[0] == "int" else "LFloat %s %s" % (zlit(v[1]), zlit(v[2])))
    if op == "constval": return "SConstVal %d %s" % (s[1], zlit(s[2]))
    if op == "un": return "SUn %d %s %d" % (s[1], COQ_UOP[s[2]], s[3])
    if op == "bin": return "SBin %d %s %d %d" % (s[1], COQ_BOP[s[2]], s[3], s[4])
    if op == "meth":
        m = COQ_METH[s[2]]
        if s[2] in KMETH: m = "(%s %s)" % (m, "None" if s[3] is None else "(Some %d%%nat)" % s[3])
        return "SMeth %d %s %d %s" % (s[1], m, s[4], nl(s[5]))
    if op == "ite": return "SIte %d %d %d %d" % (s[1], s[2], s[3], s[4])
    if op == "list": return "SList %d %s" % (s[1], nl(s[2]))
    if op == "index": return "SIndex %d %d %d" % (s[1], s[2], s[3])
    if op == "guarded": return "SGuarded %d %s" % (s[1], coq_prog(s[2]))
    if op == "ignore": return "SIgnore %s" % ("true" if s[1] else "false")
    if op == "probe": return "SProbe"
    if op == "permute": return "SPermute %d poseidon_%s %d" % (s[1], s[2], s[3])
    if op == "poseidon": return "SPoseidon %d poseidon_%s %d" % (s[1], s[2], s[3])
    if op == "ggh": return "SGgh %d [%s] %d" % (s[1], "; ".join(str(x) for x in s[2]), s[3])
    if op == "pack": return "SPack %d %s %d" % (s[1], coq_schema(s[2]), s[3])
    if op == "unpack": return "SUnpack %d %s %d" % (s[1], coq_schema(s[2]), s[3])
    if op == "snark": return "SSnark %d [%s] %s %s" % (s[1], "; ".join(coq_rtree(t) for t in s[2]), coq_prog(s[3]), coq_rtree(s[4]))
    if op == "arrnew": return "SArrNew %d %s" % (s[1], nl(s[2]))
    if op == "arrget": return "SArrGet %d %d %s" % (s[1], s[2], nl(s[3]))
    if op == "arrset": return "SArrSet %d %s %d" % (s[1], nl(s[2]), s[3])
    if op == "arrcopy": return "SArrCopy %d %d" % (s[1], s[2])
    if op == "barrset": return "SBArrSet %d %s %d" % (s[1], nl(s[2]), s[3])
    if op == "bset": return "SBSet %d %d" % (s[1], s[2])
    if op == "bget": return "SBGet %d %d" % (s[1], s[2])
    if op == "bsetidx": return "SBSetIdx %d %s %d" % (s[1], nl(s[2]), s[3])
    if op == "bgetidx": return "SBGetIdx %d %d %s" % (s[1], s[2], nl(s[3]))
    if op == "raise": return "SRaise %s" % {"KeyboardInterrupt": "KeyboardInterrupt_", "SystemExit": "SystemExit_", "ValueError": "ValueError", "RuntimeError": "RuntimeError"}[s[1]]
    if op == "breakif": return "SBreakIf %d" % s[1]
    if op == "oif":
        return "SOIf %d %s [%s] %s" % (s[1], coq_prog(s[2]), "; ".join("(%s, %d%%nat, %s)" % (coq_prog(cb), cr, coq_prog(b)) for cb, cr, b in s[3]),
                                       "None" if s[4] is None else "(Some %s)" % coq_prog(s[4]))
    if op == "owhile": return "SOWhile %s %d %d %s" % (coq_prog(s[1]), s[2], s[3], coq_prog(s[4]))
    if op == "ofor": return "SOFor %d %s %d %s %s %s" % (s[1], zlit(s[2]), s[3], zlit(s[4]), "true" if s[5] else "false", coq_prog(s[6]))
    if op == "itelazy": return "SIteLazy %d %d %s %d %s %d" % (s[1], s[2], coq_prog(s[3]), s[4], coq_prog(s[5]), s[6])
    raise ValueError(op)


def coq_schema(j):
    if j[0] == "bool": return "KBool"
    if j[0] == "intmod": return "(KIntMod %d)" % j[1]
    if j[0] == "list": return "(KList [%s])" % "; ".join(coq_schema(x) for x in j[1])
    if j[0] == "repeat": return "(KRepeat %s %d%%nat)" % (coq_schema(j[1]), j[2])


def coq_rtree(t):
    if isinstance(t, int): return "(RLeaf %d%%nat)" % t
    return "(%s [%s])" % ("RList" if t[0] == "list" else "RTuple", "; ".join(coq_rtree(x) for x in t[1]))


def coq_prog(p): return "[" + "; ".join(coq_stmt(s) for s in p) + "]"


def coq_cfg(c):
    return "{| bitlength := %d%%nat; resolution := %d |}" % (c["n"], c["res"])


def coq_case(case, dig):
    return "(%d, %s, %s, [%s], %s, [%s])" % (case["cfg"]["p"], coq_cfg(case["cfg"]), coq_prog(case["prog"]),
                                            "; ".join(zlit(i) for i in case["ins"]), "true" if case["cfg"]["ign"] else "false",
                                            "; ".join(str(d) for d in dig))


HDR = ("From Coq Require Import ZArith List.\nFrom PySnark Require Import GeneratedPoseidon.\nFrom PySnark.Model Require Import Util Lc Sym Gadgets Api Prog.\nFrom PySnark.Proofs Require Import Meta.\n"
       "Import ListNotations.\nOpen Scope Z_scope.\n")


def cases_v(cases, digs):
    body = ";\n".join(coq_case(c, d) for c, d in zip(cases, digs))
    return (HDR + "Definition cases : list (Z * cfg * list stmt * list Z * bool * list Z) := [\n" + body + "].\n"
            "Definition cmp (x : Z * cfg * list stmt * list Z * bool * list Z) : Z :=\n"
            "  let '(p0, c, pr, i, g, d) := x in\n"
            "  (fix go (a b : list Z) (w : Z) : Z := match a, b with u :: a', v :: b' => (if u =? v then 0 else w) + go a' b' (2 * w) | [], [] => 0 | _, _ => 64 end) (digests (p:=p0) c pr i g) d 1\n"
            "  + (if scoped_cmds 0 0 (gen_prog (p:=p0) c pr) then 0 else 32)\n"
            "  + (if g then 0 else if vjustb i g (gen_prog (p:=p0) c pr) Sym.init then 0 else 128).\n"
            "Eval vm_compute in (map cmp cases).\n")


def run_impl_cases(cases, full=False, backend_module=None, timeout=900, real_backend=None, isolate=True):
    """Run cases on the real pysnark; sharded over processes.  Returns list of records (same order)."""
    nshard = min(common.NPROC, max(1, len(cases) // 40))
    shards = [cases[i::nshard] for i in range(nshard)]
    procs = []
    env = common.impl_env({"VERIF_FULL_TRACE": "1" if full else None, "VERIF_BACKEND_MODULE": backend_module, "VERIF_REAL_BACKEND": real_backend,
                           "VERIF_NOFORK": None if isolate else "1"})
    env["PYTHONPATH"] = env["PYTHONPATH"] + os.pathsep + os.path.join(common.VERIF, "harness", "impl")
    for sh in shards:
        p = subprocess.Popen([common.PY, os.path.join(common.VERIF, "harness", "impl", "runner.py")], env=env,
                             stdin=subprocess.PIPE, stdout=subprocess.PIPE, stderr=subprocess.PIPE, text=True)
        procs.append((p, sh))
    outs = []
    for p, sh in procs:
        try:
            o, e = p.communicate("\n".join(json.dumps(c) for c in sh) + "\n", timeout=timeout)
        except subprocess.TimeoutExpired:
            p.kill(); o, e = "", "TIMEOUT"
        recs = [json.loads(l) for l in o.split("\n") if l.strip()]
        if len(recs) != len(sh):
            raise RuntimeError("implementation runner failed: rc=%s stderr=%s" % (p.returncode, e[-2000:]))
        outs.append(recs)
    res = [None] * len(cases)
    for k, recs in enumerate(outs):
        for j, r in enumerate(recs): res[k + j * nshard] = r
    return res


def run_model_compare(cases, recs, shard=None, timeout=1500):
    """Evaluate the model inside Coq on every case and compare the four digests.
    Returns (codes, errors): codes[i] = 0 if all digests equal, else bitmask (1 vars, 2 constraints, 4 results, 8 exception/globals)."""
    if any(c.get("nomodel") for c in cases):
        # cases with runner-only statements (no model counterpart) are decided by the direct oracles alone
        mi = [i for i, c in enumerate(cases) if not c.get("nomodel")]
        mcodes, errors = run_model_compare([cases[i] for i in mi], [recs[i] for i in mi], shard, timeout) if mi else ([], [])
        codes = [0] * len(cases)
        for i, cd in zip(mi, mcodes): codes[i] = cd
        return codes, errors
    if shard is None:
        shard = max(15, min(150, -(-len(cases) // common.NPROC)))
    # shards are interleaved (case i goes to shard i mod nsh): expensive programs generated next to each other are spread
    # over the worker processes instead of landing in one file
    nsh = max(1, -(-len(cases) // shard))
    idx = [list(range(k, len(cases), nsh)) for k in range(nsh)]
    files = [("cases_%d" % k, cases_v([cases[i] for i in ix], [recs[i]["dig"] for i in ix])) for k, ix in enumerate(idx)]
    codes, errors = [None] * len(cases), []
    for (name, ok, out), ix in zip(common.coq_eval_many(files, timeout=timeout), idx):
        k = len(ix)
        if not ok:
            errors.append("%s: %s" % (name, out[-600:]))
            continue
        flat = " ".join(out.split())
        m = re.search(r"= \[([^\]]*)\] : list Z", flat)
        if not m:
            errors.append("%s: unreadable output %s" % (name, out[-300:]))
            continue
        vals = [int(x.strip().strip("()")) for x in m.group(1).split(";") if x.strip()]
        if len(vals) != k:
            errors.append("%s: %d results for %d cases" % (name, len(vals), k))
            continue
        for i, v in zip(ix, vals): codes[i] = v
    return codes, errors


def model_trace(case, timeout=300):
    """Debug aid: the model's trace for one case, as Coq prints it."""
    v = HDR + "Eval vm_compute in (let t := model_run (p:=%d) %s %s [%s] %s in (kinds t, pubs (st t), privs (st t), cons t, outs t, raised t)).\n" % (
        case["cfg"]["p"], coq_cfg(case["cfg"]), coq_prog(case["prog"]), "; ".join(zlit(i) for i in case["ins"]), "true" if case["cfg"]["ign"] else "false")
    ok, out = common.coq_eval(v, timeout=timeout)
    return out


# ------------------------------------------------------------------ generator

class Gen:
    """Type-directed generator with conservative kind tracking.
    kinds: lc, bool, fxp, int, float, bits (list of LinCombBool), none, any"""

    def __init__(self, rnd, profile):
        self.rnd = rnd
        self.pf = profile

    def cfg(self):
        r = self.rnd
        pf = self.pf
        p = r.choice(pf.get("moduli", [BN, BN, BLS, C25519] + SMALL_P))
        n = r.choice(pf.get("bitlengths", [2, 3, 4, 5, 8, 16]))
        while 2 ** (n + 1) > p: n -= 1
        return dict(p=p, n=max(n, 1), res=r.choice(pf.get("resolutions", [0, 1, 2, 3, 8])), ign=1 if r.random() < pf.get("p_ignore", 0.15) else 0)

    def pool(self, cfg):
        n, p, r = cfg["n"], cfg["p"], self.rnd
        return [0, 1, -1, 2, 3, 5, 7, 2 ** (n - 1) - 1, 2 ** (n - 1), 2 ** n - 1, 2 ** n, -2 ** n, 2 ** n + 1, -(2 ** n) + 1,
                p - 1, p, p + 1, -p, r.randrange(-2 ** n, 2 ** n + 1), r.randrange(0, 2 ** n), r.randrange(0, 2 ** n), r.randrange(0, 2 ** n),
                r.randrange(1, max(2, 2 ** (n // 2))), r.randrange(1, max(2, 2 ** (n // 2)))]

    def case(self):
        r = self.rnd
        pf = self.pf
        cfg = self.cfg()
        nin = 4
        pool = self.pool(cfg)
        ins = [r.choice(pool) for _ in range(nin)]
        ins[0] = r.choice([0, 1, 1, 1]) if r.random() < 0.85 else r.choice(pool)     # usually boolean: guard / bool input
        if r.random() < pf.get("p_valid_inputs", 0.6):
            n = cfg["n"]
            ins[1:] = [r.randrange(0, 2 ** max(1, n - 1)) for _ in range(nin - 1)]
            if r.random() < 0.5: ins[3] = r.randrange(1, max(2, 2 ** max(1, n // 2)))
        self.pybool = r.random() < 0.3          # some runs pass True / False where the program says 1 / 0
        for gi in pf.get("guard_inputs", [0]):
            if gi != 0: ins[gi] = r.choice([0, 1, 1])
        self.regs = []          # (index, kind)
        self.ints = {}          # register -> value of int constants
        self.nreg = 0
        prog = self.block(cfg, r.choice(pf.get("lengths", [3, 5, 8, 12])), depth=0)
        return dict(cfg=cfg, prog=prog, ins=ins, pybool=int(self.pybool))

    def new(self, kind):
        i = self.nreg
        self.nreg += 1
        self.regs.append((i, kind))
        return i

    def pick(self, kinds=None):
        c = [i for i, k in self.regs if kinds is None or k in kinds]
        return self.rnd.choice(c) if c else None

    def kind(self, i):
        return dict(self.regs)[i]

    def int_const(self, cfg, small=False):
        r = self.rnd
        n, p = cfg["n"], cfg["p"]
        if small: return r.choice([0, 1, 2, 3, 1, 2, 5])
        return r.choice([0, 1, -1, 2, 3, -3, 7, 2 ** n - 1, 2 ** n, p, p - 1, -p - 2, r.randrange(-8, 9), r.randrange(1, 2 ** n)])

    def block(self, cfg, length, depth):
        r = self.rnd
        pf = self.pf
        out = []
        kinds_in = pf.get("inputs", ["priv", "priv", "priv", "pub", "privbool", "privfxp"])
        # always start with two secret operands
        if depth == 0:
            out.append(["input", self.new("lc"), "priv", 1])
            out.append(["input", self.new("lc"), r.choice(["priv", "pub"]), 2])
        ops = pf.get("ops", BOPS)
        while len(out) < length:
            t = r.random()
            w = pf.get("weights", dict(input=0.12, const=0.08, bin=0.45, un=0.06, meth=0.17, ite=0.05, guarded=0.05, ignore=0.01, list=0.03))
            acc = 0
            choice = None
            for k, v in w.items():
                acc += v
                if t < acc:
                    choice = k
                    break
            if choice is None: choice = "bin"
            if choice == "input":
                k = r.choice(kinds_in)
                idx = 0 if k.endswith("bool") and r.random() < 0.9 else r.randrange(0, 4)
                out.append(["input", self.new({"priv": "lc", "pub": "lc", "privbool": "bool", "pubbool": "bool", "privfxp": "fxp", "pubfxp": "fxp"}[k]), k, idx])
            elif choice == "const":
                if r.random() < pf.get("p_float", 0.25):
                    e = r.choice([0, 1, 2, 3, 4]); m = r.randrange(-40, 41)
                    out.append(["const", self.new("float"), ["float", m, e]])
                elif r.random() < 0.2:
                    out.append(["constval", self.new("lc"), self.int_const(cfg)])
                else:
                    kv = self.int_const(cfg)
                    out.append(["const", self.new("int"), ["int", kv]])
                    self.ints[self.nreg - 1] = kv
            elif choice == "bin":
                op = r.choice(ops)
                a = self.pick(pf.get("operand_kinds"))
                b = self.pick(pf.get("operand_kinds"))
                if a is None or b is None: continue
                ka, kb = self.kind(a), self.kind(b)
                if ka in ("int", "float") and kb in ("int", "float"): continue      # plain Python arithmetic: not pysnark
                if {"none", "bits", "tuple"} & {ka, kb}: continue
                if op in ("pow", "lshift", "rshift") and (r.random() < 0.8 or kb in ("int", "float")):
                    # keep public exponents / shift counts small
                    kv = r.choice([0, 1, 2, 3, 2, 1, -1 if r.random() < 0.1 else 2, cfg["n"], cfg["n"] + 1])
                    out.append(["const", self.new("int"), ["int", kv]])
                    b = self.nreg - 1
                    self.ints[b] = kv
                    kb = "int"
                    if ka in ("int", "float"): continue
                rk = self.res_kind(op, ka, kb)
                if op == "rshift" and ka in ("lc", "any") and kb == "int":
                    kv = self.ints.get(b)
                    if kv is None: continue
                    if kv >= cfg["n"]:
                        if ka == "any": continue       # would be the plain int 0 if the operand turns out to be a LinComb
                        rk = "int"                     # from_bits([]) is the plain int 0
                out.append(["bin", self.new(rk), op, a, b] + (["i"] if r.random() < 0.2 else []))     # "i": written as t = a; t <op>= b
                if rk == "int" and op == "rshift": self.ints[self.nreg - 1] = 0
            elif choice == "un":
                a = self.pick(["lc", "bool", "fxp", "int", "any"])
                if a is None: continue
                op = r.choice(["neg", "pos", "abs", "invert", "neg"])
                ka = self.kind(a)
                rk = {"neg": {"lc": "lc", "bool": "lc", "fxp": "fxp", "int": "int"}.get(ka, "any"), "pos": ka,
                      "abs": {"lc": "lc", "bool": "lc", "fxp": "fxp"}.get(ka, "any"), "invert": {"lc": "lc", "bool": "bool"}.get(ka, "any")}[op]
                if ka == "int" and op in ("abs", "invert", "pos", "neg"): continue
                out.append(["un", self.new(rk), op, a])
            elif choice == "meth":
                a = self.pick(["lc", "lc", "bool", "fxp", "bits", "any"])
                if a is None: continue
                ka = self.kind(a)
                if ka == "bits":
                    out.append(["meth", self.new("lc"), "from_bits", None, a, []])
                    continue
                name = r.choice(list(COQ_METH.keys()))
                if name == "from_bits": continue
                k = None
                args = []
                if name in KMETH and ka == "lc" and r.random() < 0.6:
                    k = r.choice([1, 2, 3, cfg["n"], cfg["n"] + 1, max(1, cfg["n"] - 1), 8])
                if name == "to_bits" and ka != "lc": continue
                if name == "assert_range":
                    if ka not in ("lc", "fxp"): continue
                    lo = self.pick(["lc", "int"] if ka == "lc" else ["fxp", "int", "lc", "float"])
                    hi = self.pick(["lc", "int"] if ka == "lc" else ["fxp", "int", "lc", "float"])
                    if lo is None or hi is None: continue
                    args = [lo, hi]
                elif name.startswith("assert_") and name[7:] in ("lt", "le", "eq", "ne", "gt", "ge"):
                    o = self.pick({"lc": ["lc", "int"], "bool": ["bool", "lc", "int"], "fxp": ["fxp", "int", "lc", "float", "bool"]}.get(ka, ["lc", "int"]))
                    if o is None: continue
                    args = [o]
                if name == "check_nonzero" and ka == "bool": continue
                rk = {"to_bits": "bits", "check_positive": "bool", "check_zero": "bool", "check_nonzero": "bool"}.get(name, "none")
                if ka == "any" : rk = "any" if rk != "none" else "none"
                out.append(["meth", self.new(rk), name, k, a, args])
            elif choice == "ite":
                cnd = self.pick(["bool", "bool", "bool", "int", "lc"] if r.random() < 0.9 else None)
                t_ = self.pick(["lc", "bool", "fxp", "int", "any"])
                f_ = self.pick(["lc", "bool", "fxp", "int", "any"])
                if cnd is None or t_ is None or f_ is None: continue
                rk = "any"
                if t_ == f_: rk = self.kind(t_)
                elif self.kind(cnd) == "int":
                    cv = self.ints.get(cnd)
                    if cv is None: continue     # an int condition of unknown value could select a plain int branch
                    rk = self.kind(t_) if cv == 1 else self.kind(f_) if cv == 0 else "any"
                if rk == "int": continue        # keep plain ints out of later operators
                if self.kind(t_) == "int" and self.kind(f_) == "int": continue   # `truev is falsev` holds for equal small ints: a plain int result
                out.append(["ite", self.new(rk), cnd, t_, f_])
            elif choice == "guarded" and depth < pf.get("max_guard_depth", 2):
                g = self.pick(["lc"])
                if g is None or r.random() < 0.5:
                    # fresh guard candidate from input 0 (usually 0/1)
                    out.append(["input", self.new("lc"), "priv", r.choice(pf.get("guard_inputs", [0]))])
                    g = self.nreg - 1
                saved = list(self.regs)
                body = self.block(cfg, r.choice([1, 2, 3, 4]), depth + 1)
                # registers defined inside the body stay defined afterwards (same Python dict)
                out.append(["guarded", g, body])
            elif choice == "itelazy" and depth < pf.get("max_guard_depth", 2):
                cnd = self.pick(["bool"])
                if cnd is None:
                    a = self.pick(["lc"]); b = self.pick(["lc"])
                    if a is None or b is None: continue
                    out.append(["bin", self.new("bool"), r.choice(["lt", "eq", "le", "ne"]), a, b])
                    cnd = self.nreg - 1
                tb = self.block(cfg, r.choice([1, 2, 3]), depth + 1)
                tr_ = self.pick(["lc", "bool", "fxp"])
                fb = self.block(cfg, r.choice([1, 2, 3]), depth + 1)
                fr_ = self.pick(["lc", "bool", "fxp"])
                if tr_ is None or fr_ is None: continue
                out.append(["itelazy", self.new("any"), cnd, tb, tr_, fb, fr_])
            elif choice == "probe":
                out.append(["probe"])
            elif choice == "raise":
                if depth == 0 and r.random() < 0.7: continue        # mostly inside guarded regions / lazy branches
                out.append(["raise", r.choice(pf.get("raise_kinds", ["KeyboardInterrupt", "SystemExit", "ValueError", "RuntimeError"]))])
                break
            elif choice == "ignore" and depth == 0:
                out.append(["ignore", r.choice([True, False])])
            elif choice == "list":
                a = self.pick(["bits", "tuple"])
                if a is not None:
                    out.append(["index", self.new("bool" if self.kind(a) == "bits" else "any"), a, r.randrange(0, 2)])
        return out

    @staticmethod
    def res_kind(op, ka, kb):
        cmpop = op in ("lt", "le", "eq", "ne", "gt", "ge")
        ks = {ka, kb}
        if op == "divmod": return "tuple"
        if "any" in ks: return "any"
        if cmpop: return "bool"
        if "fxp" in ks: return "fxp"
        if op in ("and", "or", "xor") and "bool" in ks: return "bool"
        if op == "pow" and ka == "bool": return "bool"
        if op == "divmod": return "tuple"
        return "lc"
