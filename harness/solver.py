"""Direct oracle for soundness (C02, C03, C16, C15): search of the auxiliary-witness space of a captured R1CS.

Input: the constraint system the *real* pysnark emitted for one operation (trace from harness/impl/runner.py),
the variables whose values are fixed (the operands), and a target linear combination.
  - small prime fields: complete enumeration (boolean-constrained variables get domain {0,1}; constraints are
    checked as soon as their last variable is assigned)  -> 'exhausted' is a complete answer
  - large fields: propagation (a constraint that is linear in a single unknown determines it) + branching on
    boolean-constrained variables; gives up ('unknown') when neither applies.
This is a search used to find concrete counterexamples; it is never presented as a proof."""


def red(items, p):
    d = {}
    for k, c in items:
        c %= p
        if c: d[k] = (d.get(k, 0) + c) % p
    return {k: c for k, c in d.items() if c}


def var_index(kinds):
    """snarkjs-style ids: 0 one, k>0 k-th public, k<0 |k|-th private -> position in allocation order"""
    order = []
    npub = npriv = 0
    for k in kinds:
        if k == 'x':
            npub += 1; order.append(npub)
        else:
            npriv += 1; order.append(-npriv)
    return order


class Solver:
    def __init__(self, p, cons, variables, fixed, limit=300000):
        self.p = p
        self.cons = [(red(a, p), red(b, p), red(c, p)) for a, b, c in cons]
        self.vars = [v for v in variables if v not in fixed and v != 0]
        self.fixed = dict(fixed)
        self.limit = limit
        self.count = 0
        self.booleans = set()
        for a, b, c in self.cons:
            if not c and len(a) == 1:
                (v, ca), = a.items()
                if v != 0 and set(b) <= {v, 0} and len(b) == 2 and (b.get(v, 0) + b.get(0, 0)) % p == 0:
                    self.booleans.add(v)

    def ev(self, lc, w):
        return sum(c * w[k] for k, c in lc.items()) % self.p

    def ok(self, con, w):
        return (self.ev(con[0], w) * self.ev(con[1], w) - self.ev(con[2], w)) % self.p == 0

    # ---------- complete enumeration (small fields)
    def enumerate(self, accept):
        """calls accept(w) on every satisfying assignment until it returns True.  Returns (status, witness, nsol)."""
        p = self.p
        order = sorted(self.vars, key=lambda v: (v not in self.booleans,))     # booleans first: cheap pruning
        pos = {v: i for i, v in enumerate(order)}
        ready = [[] for _ in order]
        pre = []
        for con in self.cons:
            vs = {v for v in (set(con[0]) | set(con[1]) | set(con[2])) if v in pos}
            (ready[max(pos[v] for v in vs)] if vs else pre).append(con)
        w = {0: 1}
        w.update(self.fixed)
        if not all(self.ok(c, w) for c in pre): return ("exhausted", None, 0)
        found = [None]
        nsol = [0]
        def rec(i):
            if found[0] is not None or self.count > self.limit: return
            if i == len(order):
                nsol[0] += 1
                if accept(w): found[0] = dict(w)
                return
            v = order[i]
            for x in ((0, 1) if v in self.booleans else range(p)):
                w[v] = x
                self.count += 1
                if all(self.ok(c, w) for c in ready[i]): rec(i + 1)
                if found[0] is not None or self.count > self.limit: break
            w.pop(v, None)
        rec(0)
        return ("exhausted" if self.count <= self.limit else "limit", found[0], nsol[0])

    # ---------- propagation + boolean branching (large fields)
    def propagate(self, w):
        """extend w by every variable determined by a constraint linear in that single unknown; False on conflict"""
        p = self.p
        changed = True
        while changed:
            changed = False
            for a, b, c in self.cons:
                unk = {v for v in (set(a) | set(b) | set(c)) if v not in w}
                if not unk:
                    if (self.ev(a, w) * self.ev(b, w) - self.ev(c, w)) % p: return False
                    continue
                if len(unk) != 1: continue
                (u,) = unk
                if u in a and u in b: continue             # quadratic in u
                part = lambda lc: sum(cf * w[k] for k, cf in lc.items() if k != u) % p
                # (A0 + a_u u)(B0 + b_u u) = C0 + c_u u  with a_u*b_u = 0
                A0, B0, C0 = part(a), part(b), part(c)
                au, bu, cu = a.get(u, 0), b.get(u, 0), c.get(u, 0)
                coef = (au * B0 + bu * A0 - cu) % p
                rhs = (C0 - A0 * B0) % p
                if coef == 0:
                    if rhs: return False
                    continue                               # u unconstrained by this constraint
                w[u] = rhs * pow(coef, p - 2, p) % p
                self.count += 1
                changed = True
        return True

    def branch(self, accept):
        """Returns (status, witness): status in exhausted / unknown / limit"""
        unknown = [False]
        found = [None]
        def rec(w):
            if found[0] is not None or self.count > self.limit: return
            if not self.propagate(w): return
            free = [v for v in self.vars if v not in w]
            if not free:
                if accept(w): found[0] = dict(w)
                return
            bs = [v for v in free if v in self.booleans]
            if not bs:
                unknown[0] = True                           # free non-boolean variables in a large field
                return
            v = bs[0]
            for x in (0, 1):
                w2 = dict(w)
                w2[v] = x
                self.count += 1
                rec(w2)
        w0 = {0: 1}
        w0.update(self.fixed)
        rec(w0)
        if found[0] is not None: return ("found", found[0])
        if self.count > self.limit: return ("limit", None)
        return ("unknown" if unknown[0] else "exhausted", None)


def analyse(trace, p, fixed_vars, target_items, honest_value, small_limit=300000):
    """Search for a satisfying assignment that keeps `fixed_vars` at their recorded values and gives the target
    wire a value different from honest_value.  Returns dict(status, alt)."""
    order = var_index(trace["kinds"])
    pi = iter(trace["pubs"]); wi = iter(trace["privs"])
    val = {}
    for k, v in zip(trace["kinds"], order): val[v] = (next(pi) if k == 'x' else next(wi)) % p
    fixed = {v: val[v] for v in fixed_vars}
    tgt = red(target_items, p)
    S = Solver(p, trace["cons"], order, fixed, limit=small_limit)
    acc = lambda w: S.ev(tgt, w) != honest_value % p
    if p < 300:
        st, wit, nsol = S.enumerate(acc)
        return dict(status=("found" if wit else st), alt=wit, nsol=nsol, honest=val)
    st, wit = S.branch(acc)
    return dict(status=st, alt=wit, honest=val)


def satisfiable(trace, p, fixed_vars, small_limit=300000):
    """Is there any satisfying assignment extending the fixed operand values? (C03: rejected relations must be UNSAT)"""
    order = var_index(trace["kinds"])
    pi = iter(trace["pubs"]); wi = iter(trace["privs"])
    val = {}
    for k, v in zip(trace["kinds"], order): val[v] = (next(pi) if k == 'x' else next(wi)) % p
    fixed = {v: val[v] for v in fixed_vars}
    S = Solver(p, trace["cons"], order, fixed, limit=small_limit)
    if p < 300:
        st, wit, nsol = S.enumerate(lambda w: True)
        return dict(status=("sat" if wit else ("unsat" if st == "exhausted" else st)), witness=wit)
    st, wit = S.branch(lambda w: True)
    return dict(status={"found": "sat", "exhausted": "unsat"}.get(st, st), witness=wit)
