"""Independent reader of the FlatBuffers wire format, specialised by hand to pysnark/zkinterface/zkinterface.fbs
(written from the schema and the format description; does not use the flatbuffers package or the generated accessors).
Checks: size prefixes, offsets inside the buffer, vtable sizes, vector lengths, alignment of scalars."""
import struct


class Bad(Exception):
    pass


class Buf:
    def __init__(s, b): s.b = b
    def u(s, fmt, off):
        n = struct.calcsize(fmt)
        if off < 0 or off + n > len(s.b): raise Bad("read outside buffer at %d" % off)
        return struct.unpack_from(fmt, s.b, off)[0]
    def table(s, off):
        """returns field accessor: slot -> absolute offset of the field or None"""
        vt = off - s.u("<i", off)
        vsize = s.u("<H", vt); osize = s.u("<H", vt + 2)
        if vsize < 4 or vsize % 2: raise Bad("vtable size")
        nf = (vsize - 4) // 2
        fields = [s.u("<H", vt + 4 + 2 * i) for i in range(nf)]
        for f in fields:
            if f >= max(osize, 4) and f != 0: raise Bad("field offset beyond object")
        return lambda slot: (off + fields[slot]) if slot < nf and fields[slot] != 0 else None
    def indirect(s, off): return off + s.u("<I", off)
    def vector(s, off, elem):
        v = s.indirect(off)
        n = s.u("<I", v)
        if v + 4 + n * elem > len(s.b): raise Bad("vector beyond buffer")
        return v + 4, n


def read_variables(B, off):
    t = B.table(off)
    ids, vals = [], b""
    f = t(0)
    if f is not None:
        st, n = B.vector(f, 8)
        if (st + 4) % 8: raise Bad("uint64 vector misaligned")        # positions are relative to the size-prefixed buffer
        ids = [B.u("<Q", st + 8 * i) for i in range(n)]
    f = t(1)
    if f is not None:
        st, n = B.vector(f, 1)
        vals = bytes(B.b[st:st + n])
    return ids, vals


def split_values(ids, vals):
    if not ids: return []
    if len(vals) % len(ids): raise Bad("values length %d is not a multiple of the number of ids %d" % (len(vals), len(ids)))
    w = len(vals) // len(ids)
    return [int.from_bytes(vals[i * w:(i + 1) * w], "little") for i in range(len(ids))], w


MSG = {1: "CircuitHeader", 2: "ConstraintSystem", 3: "Witness", 4: "Command"}


def read_messages(data):
    """-> list of dicts, one per size-prefixed message"""
    out = []
    pos = 0
    while pos < len(data):
        if pos + 4 > len(data): raise Bad("truncated size prefix")
        size = struct.unpack_from("<I", data, pos)[0]
        if pos + 4 + size > len(data): raise Bad("message size %d exceeds the file" % size)
        B = Buf(data[pos + 4:pos + 4 + size])
        root = B.indirect(0)
        t = B.table(root)
        f = t(0)
        mtype = B.u("<B", f) if f is not None else 0
        f = t(1)
        if f is None: raise Bad("Root without message")
        m = B.indirect(f)
        msg = dict(type=MSG.get(mtype, "?%d" % mtype), size=size)
        tt = B.table(m)
        if mtype == 1:
            fv = tt(0)
            ids, vals = read_variables(B, B.indirect(fv)) if fv is not None else ([], b"")
            msg["instance_ids"] = ids
            msg["instance_values"], msg["width"] = split_values(ids, vals) if ids else ([], 0)
            ff = tt(1)
            msg["free_variable_id"] = B.u("<Q", ff) if ff is not None else 0
            if ff is not None and (ff + 4) % 8: raise Bad("uint64 field misaligned")
            fm = tt(2)
            if fm is not None:
                st, n = B.vector(fm, 1)
                msg["field_maximum"] = int.from_bytes(bytes(B.b[st:st + n]), "little"); msg["field_maximum_len"] = n
            else: msg["field_maximum"] = None
        elif mtype == 2:
            fc = tt(0)
            cons = []
            if fc is not None:
                st, n = B.vector(fc, 4)
                for i in range(n):
                    c = B.table(B.indirect(st + 4 * i))
                    tri = []
                    for slot in range(3):
                        fl = c(slot)
                        ids, vals = read_variables(B, B.indirect(fl)) if fl is not None else ([], b"")
                        vs, w = split_values(ids, vals) if ids else ([], 0)
                        tri.append(list(zip(ids, vs)))
                    cons.append(tri)
            msg["constraints"] = cons
        elif mtype == 3:
            fv = tt(0)
            ids, vals = read_variables(B, B.indirect(fv)) if fv is not None else ([], b"")
            msg["assigned_ids"] = ids
            msg["assigned_values"], msg["width"] = split_values(ids, vals) if ids else ([], 0)
        out.append(msg)
        pos += 4 + size
    return out
