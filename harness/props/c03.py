"""C03 — assertions and declared types are enforced inside the circuit (same relation as the run-time check)."""
import collections, copy, json, multiprocessing, os, random, time
import common, progs, solver

PID = "C03"
BN = progs.BN
REL = ["assert_lt", "assert_le", "assert_eq", "assert_ne", "assert_gt", "assert_ge"]


def make_jobs(rnd, tier):
    jobs = []
    fields = [(13, 2), (31, 2), (31, 3), (61, 3), (BN, 3)] if tier == "quick" else [(13, 2), (17, 2), (31, 3), (31, 2), (61, 3), (61, 4), (127, 4), (BN, 3), (BN, 4), (progs.BLS, 3)]
    per = 4 if tier == "quick" else 60
    TRUTH = {"assert_lt": lambda a, b: a < b, "assert_le": lambda a, b: a <= b, "assert_eq": lambda a, b: a == b, "assert_ne": lambda a, b: a != b,
             "assert_gt": lambda a, b: a > b, "assert_ge": lambda a, b: a >= b}
    def add(p, n, prog, ins, op, kinds, res=0, truth=None):
        jobs.append(dict(cfg=dict(p=p, n=n, res=res, ign=0), prog=prog, ins=ins, op=op, kinds=kinds, truth=truth, pybool=len(jobs) % 2))   # half of the runs pass True / False for 1 / 0
    for (p, n) in fields:
        lim = 2 ** n
        B = min(lim + 1, (p - lim - 2) // 2)        # keep every difference small relative to p (no wrap-around)
        vals = list(range(-B, B + 1))
        def clip(v): return max(-B, min(B, v))
        def pick(): return rnd.choice(vals) if rnd.random() < 0.5 else clip(rnd.choice([0, 1, lim - 1, lim, lim // 2, lim // 2 - 1, -1, rnd.randrange(0, lim)]))
        for m in REL:
            for kb in ("priv", "int", "pub"):
                for _ in range(per):
                    a, b = pick(), pick()
                    if rnd.random() < 0.3: b = clip(a + rnd.choice([-1, 0, 1]))
                    prog = [["input", 0, "priv", 0], (["const", 1, ["int", b]] if kb == "int" else ["input", 1, kb, 1]), ["meth", 2, m, None, 0, [1]]]
                    add(p, n, prog, [a, b], m, "priv/" + kb)
            # fixed-point and boolean receivers
            for _ in range(per // 2):
                a, b = rnd.randrange(-2, 3), rnd.randrange(-2, 3)
                add(p, n, [["input", 0, "privfxp", 0], ["input", 1, "privfxp", 1], ["meth", 2, m, None, 0, [1]]], [a, b], m, "privfxp/privfxp", res=rnd.choice([0, 1]))
                a, b = rnd.choice([0, 1]), rnd.choice([0, 1])
                add(p, n, [["input", 0, "privbool", 0], ["input", 1, "privbool", 1], ["meth", 2, m, None, 0, [1]]], [a, b], m, "privbool/privbool")
            # mixed operand classes: the argument is converted to the receiver's class (a secret bit or integer b means the number b)
            for (ka, kb) in (("privfxp", "privbool"), ("privfxp", "priv"), ("privfxp", "int"), ("privbool", "priv"), ("privbool", "int"), ("priv", "privbool")):
                for _ in range(max(2, per // 2)):
                    a = rnd.choice([0, 1]) if ka == "privbool" else rnd.randrange(-2, 3)
                    b = rnd.choice([0, 1]) if kb == "privbool" or ka == "privbool" else rnd.randrange(-2, 3)
                    prog = [["input", 0, ka, 0], (["const", 1, ["int", b]] if kb == "int" else ["input", 1, kb, 1]), ["meth", 2, m, None, 0, [1]]]
                    res = rnd.choice([1, 2]) if ka == "privfxp" else 0
                    # the relation is decided by the gadget only while the (scaled) difference fits the bitlength
                    if (abs(a) + abs(b) + 1) * 2 ** res + 2 ** n + 2 >= p // 2: continue      # no wrap-around on tiny fields
                    decided = (abs(a - b) * 2 ** res + 1) < 2 ** n
                    add(p, n, prog, [a, b], m, "%s/%s" % (ka, kb), res=res, truth=TRUTH[m](a, b) if decided else None)
        for m in ("assert_zero", "assert_nonzero"):
            for _ in range(per):
                a = rnd.choice([0, 0, 1, -1, pick(), pick()])
                add(p, n, [["input", 0, "priv", 0], ["meth", 1, m, None, 0, []]], [a], m, "priv")
        for m in ("assert_positive", "to_bits"):
            for k in (None, 0, 1, 2, 3, n + 1, max(1, n - 1)):
                w = n if k is None else k
                if 2 ** (w + 1) > p and p < 1000: continue
                for _ in range(per):
                    a = rnd.choice([0, 1, 2 ** w - 1, 2 ** w, 2 ** w + 1, -1, 2 ** n - 1, 2 ** n, rnd.randrange(0, 2 ** w), rnd.randrange(-2, 2 ** (w + 1))])
                    if not (-(p - 2 ** w) < a < p - 2 ** w): continue
                    add(p, n, [["input", 0, "priv", 0], ["meth", 1, m, k, 0, []]], [a], "%s(%s)" % (m, "default" if k is None else "k=%d" % k), "priv")
        for _ in range(per * 2):
            lo, hi = sorted([clip(rnd.randrange(-2, lim)), clip(rnd.randrange(-2, lim + 1))])
            a = clip(rnd.choice([lo - 1, lo, hi - 1, hi, hi + 1, rnd.randrange(lo - 1, hi + 2)]))
            add(p, n, [["input", 0, "priv", 0], ["const", 1, ["int", lo]], ["const", 2, ["int", hi]], ["meth", 3, "assert_range", None, 0, [1, 2]]], [a], "assert_range", "priv/int/int")
            add(p, n, [["input", 0, "priv", 0], ["input", 1, "priv", 1], ["input", 2, "priv", 2], ["meth", 3, "assert_range", None, 0, [1, 2]]], [a, lo, hi], "assert_range", "priv/priv/priv")
        # an n-bit declaration repeated after the same object was decomposed inside a guarded region
        for _ in range(per * 2):
            c = rnd.choice([0, 1]); w = rnd.choice([n, max(1, n - 1)])
            a = clip(rnd.choice([0, 1, 2 ** w - 1, 2 ** w, -1, rnd.randrange(0, 2 ** w)]))
            m2 = rnd.choice(["to_bits", "assert_positive"])
            add(p, n, [["input", 0, "priv", 0], ["input", 1, "priv", 1], ["guarded", 0, [["meth", 2, "to_bits", (None if w == n else w), 1, []]]], ["meth", 3, m2, (None if w == n else w), 1, []]],
                [c, a], "%s-after-guarded-to_bits" % m2, "priv/priv")
        # a narrower declaration after a wider decomposition of the same object (and the other way round): each call enforces its own width
        for _ in range(per * 2):
            k = rnd.choice([0, 1, 2, max(1, n - 1)])
            a = clip(rnd.choice([0, 1, 2 ** k - 1, 2 ** k, 2 ** k + 1, 2 ** n - 1, rnd.randrange(0, 2 ** n)]))
            m1, m2 = rnd.choice(["to_bits", "assert_positive"]), rnd.choice(["to_bits", "assert_positive"])
            first = [["meth", 1, m1, None, 0, []], ["meth", 2, m2, k, 0, []]]
            if rnd.random() < 0.3: first = [["meth", 1, m2, k, 0, []], ["meth", 2, m1, None, 0, []]]
            if rnd.random() < 0.3: first = [["const", 5, ["int", 1]], ["bin", 1, "rshift", 0, 5], ["meth", 2, m2, k, 0, []]]
            add(p, n, [["input", 0, "priv", 0]] + first, [a], "width-sequence:%s(k=%d)" % (m2, k), "priv")
        # unpacking secret bits of a wide field (moduli beyond 2^53, next to powers of two): the value has to be below the modulus
        if p > 2 ** 200:
            for m in (2 ** 61 - 1, 2 ** 64 - 59, 2 ** 64 + 13, 2 ** 61, 2 ** 40 + 15):
                for v in (m - 1, m, 2 ** (m - 1).bit_length() - 1, 5):
                    add(p, n, [["input", 0, "priv", 0], ["pack", 1, ["intmod", m], 0], ["unpack", 2, ["intmod", m], 1]], [v], "unpack-wide-field", "priv")
                    jobs[-1]["nosolve"] = 1
        # boolean declaration of a secret through _ensurebool (LinCombBool & LinComb)
        for _ in range(per):
            a = rnd.choice([0, 1, 2, -1, 1, 0])
            add(p, n, [["input", 0, "privbool", 1], ["input", 1, "priv", 0], ["bin", 2, "and", 0, 1]], [a, 1], "boolean-declaration", "privbool/priv")
        # ... and once more after the same object was used as a boolean inside a guarded region (true or false guard): the use after
        # the region needs its own, unguarded, declaration
        for op1, op2 in (("and", "or"), ("or", "and"), ("xor", "and"), ("and", "and")):
            for a in (0, 1, 2, -1):
                for g in (0, 1):
                    add(p, n, [["input", 0, "privbool", 1], ["input", 1, "priv", 0], ["input", 2, "priv", 2],
                               ["guarded", 2, [["bin", 3, op1, 0, 1]]], ["bin", 4, op2, 0, 1]], [a, 1, g], "boolean-declaration-after-guarded-use", "privbool/priv")
    return jobs


def work(arg):
    job, rec0, rec1 = arg
    if job.get("nosolve"): return dict(status="skipped", witness=None)      # wide decompositions: correspondence with the model only
    p = job["cfg"]["p"]
    if rec1["exn"] is not None or "trace" not in rec1: return dict(status="raised-even-unchecked", exn=rec1["exn"])
    tr = rec1["trace"]
    nin = sum(1 for s in job["prog"] if s[0] == "input")
    order = solver.var_index(tr["kinds"])
    r = solver.satisfiable(tr, p, order[:nin])
    return dict(status=r["status"], witness=None if r.get("witness") is None else {str(k): v for k, v in r["witness"].items()})


def run(tier, seed):
    t0 = time.time()
    rnd = random.Random(seed)
    tr_ok, tr_msg = common.translate()
    props = common.props_check(PID)
    viol = common.proof_violations(PID, tr_ok, tr_msg, props)
    cdir = os.path.join(common.VERIF, "corpus", PID)
    jobs = [json.load(open(os.path.join(cdir, f))) for f in sorted(os.listdir(cdir)) if f.endswith(".json")]
    jobs += make_jobs(rnd, tier)
    for i, j in enumerate(jobs): j["id"] = i
    checked = progs.run_impl_cases(jobs)                               # error checking on: the run-time relation
    unchecked_jobs = []
    for j in jobs:
        u = copy.deepcopy(j); u["cfg"]["ign"] = 1; u["full"] = 1
        unchecked_jobs.append(u)
    unchecked = progs.run_impl_cases(unchecked_jobs, full=True)         # error checking off: the constraints for any values
    codes, errs = progs.run_model_compare(unchecked_jobs, unchecked) if os.path.exists(os.path.join(common.COQ, "theories", "Model", "Prog.vo")) else ([None] * len(jobs), ["model not built"])
    for e in errs: viol.append(dict(kind="correspondence", concrete=False, what="in-Coq evaluation of the model failed", detail=e))
    mism = [i for i, c in enumerate(codes) if c and (c & (1 | 2))]
    with multiprocessing.Pool(common.NPROC) as pool:
        results = pool.map(work, list(zip(jobs, checked, unchecked)), chunksize=8)
    stat = collections.Counter()
    nontrivial = set()
    for job, r0, r1, res in zip(jobs, checked, unchecked, results):
        accepted = r0["exn"] is None
        if r0["exn"] not in (None, "AssertionError", "ValueError", "ZeroDivisionError"):
            stat["type-error"] += 1; continue
        st = res["status"]
        stat["%s/%s" % ("accepted" if accepted else "rejected", st)] += 1
        if r1["ncons"] >= 1: nontrivial.add((job["op"], job["kinds"], job["cfg"]["p"], tuple(job["ins"])))
        key = "%s:%s" % (job["op"], job["kinds"])
        case = dict(cfg=job["cfg"], prog=job["prog"], ins=job["ins"])
        if job.get("truth") is not None and r0["exn"] in (None, "AssertionError") and accepted != bool(job["truth"]):
            viol.append(dict(kind="oracle", op=job["op"], key=key + ":relation", what="the run-time check %s operands for which the asserted relation is %s" % ("accepts" if accepted else "rejects", "true" if job["truth"] else "false"), case=case))
        if accepted and r0["unsat"]:
            viol.append(dict(kind="oracle", op=job["op"], key=key, what="assertion accepted at run time but its constraints are violated by the recorded witness", case=case))
        if accepted and st == "unsat":
            viol.append(dict(kind="oracle", op=job["op"], key=key, what="assertion accepted at run time but its constraints are unsatisfiable", case=case))
        if (not accepted) and st == "sat":
            viol.append(dict(kind="oracle", op=job["op"], key=key, what="assertion rejected at run time but its constraints are satisfiable for these operand values (the circuit enforces a weaker relation)",
                             case=case, run_time_error=r0["exn"], msg=r0["msg"], satisfying_witness=res["witness"]))
    seen = collections.Counter(); kept = []
    for v in viol:
        if v.get("kind") == "oracle":
            seen[v["key"]] += 1
            if seen[v["key"]] > 2: continue
        kept.append(v)
    viol = kept
    for i in mism[:3]:
        viol.append(dict(kind="correspondence", concrete=False, what="model and implementation traces differ for a single-assertion program",
                         detail=json.dumps(dict(cfg=unchecked_jobs[i]["cfg"], prog=jobs[i]["prog"], ins=jobs[i]["ins"]))[:1500]))
    cov = dict(evaluations=len(jobs), distinct_nontrivial=len(nontrivial),
               rule="every assertion kind x operand kinds x values on both sides of the relation incl. boundaries, widths k != bitlength; each run twice: with error checking on "
                    "(run-time relation) and off (constraints for arbitrary values); satisfiability of the captured R1CS with the operands fixed decided by complete enumeration "
                    "(small fields) or propagation+boolean branching (real fields); violation iff run-time acceptance and satisfiability disagree",
               samples=[dict(cfg=j["cfg"], prog=j["prog"], ins=j["ins"]) for j in jobs[:3]], outcome_matrix=dict(stat),
               traces_validated_against_impl=sum(1 for c in codes if c is not None and not (c & 3)), trace_mismatches=len(mism))
    return common.finish(PID, tier, seed, t0, props, cov, viol,
                         assumptions=["operand values are small relative to p (no wrap-around of differences): |v| <= 2^n + 1 and 2^(n+1) <= p",
                                      "'unknown'/'limit' outcomes of the incomplete large-field search are counted, not treated as violations"])


def replay(payload):
    print(json.dumps(payload, indent=1)[:4000])
    return run("quick", payload.get("seed", 1))
