"""C09 — oblivious if/elif/else, while and for compute what native control flow computes."""
import copy
import tracecheck, progs, blockgen

PID = "C09"
MODULI = [progs.BN, progs.BN, progs.BLS, 65537, 251]


PENDING = []


def casegen(rnd):
    if PENDING: return PENDING.pop()
    return blockgen.gen_case(rnd, MODULI)


def variants(case, rnd):
    """the same program on other values of the secret conditions / loop bounds (obliviousness, other paths)"""
    out = []
    for _ in range(2):
        v = copy.deepcopy(case)
        v["ins"] = [rnd.choice([0, 1, 2, 3]), rnd.choice([0, 1, 2, 3, 4]), rnd.choice([0, 1, 2])]
        out.append(v)
    return out


def key_for(case, err):
    return "for-loop:" + err


def oracle(case, rec, group):
    out = []
    try:
        want = blockgen.twin(case)
        terr = None
    except blockgen.TwinError as e:
        want, terr = None, str(e)
    if terr == "assert":
        if rec["exn"] != "AssertionError":
            out.append(dict(op="for", key="stop-exceeds-max", what="secret loop bound above the public maximum with checkstopmax=True did not raise AssertionError (got %s)" % rec["exn"], msg=rec["msg"]))
        return out
    if terr in ("stop-below-start", "index", "overflow"):
        return out         # outside the side conditions of the constructs ('start <= stop'; array index inside the array)
    if terr is not None: return out
    if rec["exn"] is not None:
        out.append(dict(op="block", key="raised:%s" % rec["exn"], what="oblivious program raised %s where the native program completes" % rec["exn"], msg=rec["msg"], native=want))
        return out
    got = rec["final_bvals"]
    def norm(g):
        if isinstance(g, list): return [norm(x) for x in g]
        if isinstance(g, dict) and "arr" in g: return [norm(x) for x in g["arr"]]
        return g.get("lc", g.get("b")) if isinstance(g, dict) else g
    for v, w in want.items():
        gv = norm(got.get("v%d" % v))
        if gv != w:
            out.append(dict(op="block", key="value", what="variable x%d ends as %r with the oblivious constructs, %r with native control flow" % (v, gv, w), native=want, oblivious=got))
            break
    if rec["unsat"] and not case["cfg"]["ign"]:
        out.append(dict(op="block", key="unsatisfied", what="constraints of the oblivious program are violated by the recorded witness", unsatisfied=rec["unsat"]))
    # independence of the path taken: all completing runs of the program have the same shape
    if case is group[0][0]:
        done = [(c, r) for c, r in group if r["exn"] is None]
        for c, r in done[1:]:
            if r["shape"] != done[0][1]["shape"]:
                out.append(dict(op="block", key="shape", what="constraint system depends on which branches were taken", case=dict(cfg=c["cfg"], prog=c["prog"], ins=c["ins"], other_ins=done[0][0]["ins"])))
                break
    return out


SCENARIOS = ["factorial-sequence", "recursion-block-around-call", "recursion-block-after-call", "instance-kept-alive",
             "helper-in-callers-block", "underscore-preferred", "nested-helpers-break"]


def implicit_context_jobs(rnd, n):
    jobs = [["factorial-sequence", [0, 3, 6, 2]], ["recursion-block-around-call", [0, 2, 3, 5]], ["recursion-block-after-call", [0, 2, 4, 7]],
            ["instance-kept-alive", [3, 1, 1, 5, 2]], ["helper-in-callers-block", [2, 0, 3, 5, 8]], ["helper-in-callers-block", [1, 0, 3, 5, 8]],
            ["underscore-preferred", [1, 3]], ["nested-helpers-break", [3, 1, 2, 3, 4, 5]], ["nested-helpers-break", [3, 0, 2, 3, 4, 5]]]
    while len(jobs) < n:
        nm = rnd.choice(SCENARIOS)
        jobs.append([nm, [rnd.randrange(0, 7) for _ in range(rnd.choice([3, 4, 5]))]])
    return jobs


def implicit_context(cov, rnd, n):
    """the constructs called without ctx= (the instance is looked up in the caller's locals), as examples/*.py use them:
    hand-written helper / recursion / kept-alive-instance programs against the same code with native control flow"""
    import subprocess, os, json, common
    jobs = implicit_context_jobs(rnd, n)
    env = common.impl_env()
    env["PYTHONPATH"] = env["PYTHONPATH"] + os.pathsep + os.path.join(common.VERIF, "harness", "impl")
    d = common.scratch("pysnark-verif-ictx-")
    out = []
    try:
        r = subprocess.run([common.PY, os.path.join(common.VERIF, "harness", "impl", "implicit_ctx.py"), json.dumps(jobs)], cwd=d, env=env,
                           stdout=subprocess.PIPE, stderr=subprocess.PIPE, text=True, timeout=900)
    finally:
        import shutil; shutil.rmtree(d, ignore_errors=True)
    recs = [json.loads(ln) for ln in r.stdout.split("\n") if ln.startswith("{")]
    if len(recs) != len(jobs):
        out.append(dict(kind="oracle", op="implicit-context", key="crash", what="implicit-context scenarios did not all run (%d of %d)" % (len(recs), len(jobs)),
                        detail=(r.stdout[-300:] + r.stderr[-800:])))
    seen = set()
    for rec in recs:
        bad = None
        if rec["exn"]: bad = "raised %s where the native program completes" % rec["exn"]
        elif rec["got"] != rec["want"]: bad = "returns %r with the oblivious constructs, %r with native control flow" % (rec["got"], rec["want"])
        elif rec["unsat"]: bad = "constraints %r are violated by the recorded witness" % rec["unsat"]
        elif not rec["guard_restored"]: bad = "guard not restored after the program"
        if bad and rec["scenario"] not in seen:
            seen.add(rec["scenario"])
            out.append(dict(kind="oracle", op="implicit-context", key=rec["scenario"], what="scenario %s (constructs called without ctx=) on inputs %r %s" % (rec["scenario"], rec["ins"], bad),
                            case=dict(scenario=rec["scenario"], ins=rec["ins"], source="harness/impl/implicit_ctx.py")))
    cov["implicit_context_runs"] = len(recs)
    cov["implicit_context_scenarios"] = SCENARIOS
    return out


def post(cov, cases, recs):
    import random
    cov["programs"] = len(cases) // 3
    cov["completed"] = sum(1 for r in recs if r["exn"] is None)
    return implicit_context(cov, random.Random(len(cases) * 7919 + sum(c["ins"][0] for c in cases[:50])), 40 if len(cases) < 2000 else 300)


def run(tier, seed):
    PENDING[:] = list(reversed(blockgen.fixed_cases(progs.BN) + (blockgen.fixed_cases(65537) if tier != "quick" else [])))
    return tracecheck.run(PID, tier, seed, {}, oracle, n_quick=150 + 3 * len(PENDING), n_thorough=3000 + 3 * len(PENDING), shrink_budget=4, variants=variants, casegen=casegen, post=post, mask=1 | 2 | 4 | 8)


def replay(payload):
    import json
    print(json.dumps(payload, indent=1)[:3000])
    return run("quick", payload.get("seed", 1))
