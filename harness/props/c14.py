"""C14 — fixed-point operations equal exact scaled-integer arithmetic."""
import tracecheck, twin

PID = "C14"
PROFILE = {"p_ignore": 0.0, "p_valid_inputs": 0.9, "p_float": 0.6, "inputs": ["privfxp", "privfxp", "priv", "privbool", "pubfxp"],
           "operand_kinds": ["fxp", "fxp", "fxp", "lc", "int", "float", "bool", "any"], "resolutions": [0, 1, 2, 3, 4], "bitlengths": [8, 12, 16],
           "ops": ["add", "sub", "mul", "truediv", "floordiv", "mod", "divmod", "lt", "le", "eq", "ne", "gt", "ge", "pow", "lshift", "rshift"],
           "weights": dict(input=0.12, const=0.14, bin=0.55, un=0.06, meth=0.08, ite=0.03, guarded=0.0, ignore=0.0, list=0.02)}
VALUE_ERRORS = ("AssertionError", "ValueError", "ZeroDivisionError")


def same(tv, iv, R):
    if isinstance(iv, dict):
        if "fx" in iv:
            if isinstance(tv, twin.Fx): return tv.rep == iv["fx"]
            return False
        if "lc" in iv: return isinstance(tv, int) and not isinstance(tv, twin.Fx) and int(tv) == iv["lc"]
        if "b" in iv: return isinstance(tv, int) and int(tv) == iv["b"]
        return None
    if isinstance(iv, list): return isinstance(tv, (list, tuple)) and len(tv) == len(iv) and all(same(a, b, R) is not False for a, b in zip(tv, iv))
    if iv is None: return tv is None
    if isinstance(iv, int): return isinstance(tv, int) and int(tv) == iv
    return None


def kind_of(v):
    return "fxp" if isinstance(v, twin.Fx) else "float" if isinstance(v, float) else "bool" if isinstance(v, bool) else "int" if isinstance(v, int) else type(v).__name__


def oracle(case, rec, group):
    outs, raised, tw, dom_at = twin.run_twin(case)
    t = dict(outs)
    regv = {}
    for pc_, v_ in outs:
        st_ = case["prog"][pc_ - 1] if 0 < pc_ <= len(case["prog"]) else None
        if st_ is not None and st_[0] not in ("guarded", "ignore"): regv[st_[1]] = v_
    out = []
    def involved(s):
        if s and s[0] == "bin": return [regv.get(s[3]), regv.get(s[4])]
        if s and s[0] == "un": return [regv.get(s[3])]
        if s and s[0] == "meth": return [regv.get(s[4])] + [regv.get(q) for q in s[5]]
        return []
    for pc, iv in rec["vals"]:
        s = case["prog"][pc - 1] if 0 < pc <= len(case["prog"]) else None
        ops = involved(s)
        fxp_involved = any(isinstance(o, (twin.Fx, float)) for o in ops)
        if pc in t and fxp_involved:
            ok = same(t[pc], iv, tw.R)
            if ok is False:
                kinds = "/".join(kind_of(o) for o in ops)
                # secret int compared with / combined into a fixed-point value in the integer class's own method
                out.append(dict(op=s[2] if s[0] in ("bin", "un", "meth") else s[0], key="%s:%s" % (s[2], kinds),
                                what="fixed-point result differs from exact scaled-integer arithmetic", statement=s, pc=pc,
                                expected_representation=(t[pc].rep if isinstance(t[pc], twin.Fx) else repr(t[pc])), pysnark=iv,
                                operands=[(o.rep if isinstance(o, twin.Fx) else o) for o in ops], resolution=case["cfg"]["res"]))
                break
    if rec["floatbad"]:
        out.append(dict(op="val", key="val:float", what="val() of a fixed-point value is not representation / 2^resolution"))
    return out


def run(tier, seed):
    return tracecheck.run(PID, tier, seed, PROFILE, oracle, n_quick=450, n_thorough=8000, require_props=False, mask=1 | 4 | 8, mutation_oracle=True,
                          level="translation_validation")


def replay(payload):
    import json
    print(json.dumps(payload, indent=1)[:3000])
    return run("quick", payload.get("seed", 1))
