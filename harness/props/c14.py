"""C14 — fixed-point operations equal exact scaled-integer arithmetic."""
import tracecheck, twin

PID = "C14"
PROFILE = {"p_ignore": 0.0, "p_valid_inputs": 0.9, "p_float": 0.6, "inputs": ["privfxp", "privfxp", "priv", "privbool", "pubfxp"],
           "operand_kinds": ["fxp", "fxp", "fxp", "lc", "int", "float", "bool", "any"], "resolutions": [0, 1, 2, 3, 4], "bitlengths": [8, 12, 16],
           "ops": ["add", "sub", "mul", "truediv", "floordiv", "mod", "divmod", "lt", "le", "eq", "ne", "gt", "ge", "pow", "lshift", "rshift"],
           "weights": dict(input=0.12, const=0.14, bin=0.55, un=0.06, meth=0.08, ite=0.03, guarded=0.0, ignore=0.0, list=0.02)}
VALUE_ERRORS = ("AssertionError", "ValueError", "ZeroDivisionError")
import progs

# systematic part: every operator x every operand-kind pair with a fixed-point value on at least one side, both orders,
# with fractional, negative and constant (int / float, both signs) operands -- the random programs cover compositions
MATRIX_OPS = ["add", "sub", "mul", "truediv", "floordiv", "mod", "divmod", "lt", "le", "eq", "ne", "gt", "ge"]
KINDS = ["fxp", "fxpfrac", "lc", "bool", "int", "float"]


def matrix_cases(rnd, reps):
    out = []
    for op in MATRIX_OPS:
        for ka in KINDS:
            for kb in KINDS:
                if not ({ka, kb} & {"fxp", "fxpfrac"}): continue
                for _ in range(reps):
                    res = rnd.choice([1, 2, 3, 4, 8]); n = rnd.choice([12, 16])
                    prog = []; nreg = [0]
                    def new():
                        nreg[0] += 1
                        return nreg[0] - 1
                    def operand(k, slot):
                        if k == "fxp":
                            d = new(); prog.append(["input", d, "privfxp", slot]); return d
                        if k == "fxpfrac":       # an input times a dyadic constant: a fractional (possibly negative) fixed-point value
                            a = new(); prog.append(["input", a, "privfxp", slot])
                            c = new(); prog.append(["const", c, ["float", rnd.choice([1, 3, -1, -3, 5]), rnd.choice([1, 2])]])
                            d = new(); prog.append(["bin", d, "mul", a, c]); return d
                        if k == "lc":
                            d = new(); prog.append(["input", d, "priv", slot]); return d
                        if k == "bool":
                            d = new(); prog.append(["input", d, "privbool", 2 + slot]); return d
                        if k == "int":
                            d = new(); prog.append(["const", d, ["int", rnd.choice([1, 2, 3, 5, -1, -2, -3, 0, 4])]]); return d
                        d = new(); prog.append(["const", d, ["float", rnd.choice([1, 3, 5, -1, -3, -5, 8, 0]), rnd.choice([0, 1, 2])]]); return d
                    a = operand(ka, 0); b = operand(kb, 1)
                    prog.append(["bin", new(), op, a, b] + (["i"] if rnd.random() < 0.25 else []))
                    if rnd.random() < 0.3: prog.append(["bin", new(), rnd.choice(["add", "sub"]), a, b])       # the operands are used again afterwards
                    ins = [rnd.choice([0, 1, 2, 3, 5, 6, 7, -1, -2, -3, -6]), rnd.choice([1, 2, 3, 4, 6, -1, -2, -3, 0]), rnd.choice([0, 1]), rnd.choice([0, 1])]
                    out.append(dict(cfg=dict(p=rnd.choice([progs.BN, progs.BLS]), n=n, res=res, ign=0), prog=prog, ins=ins))
    return out


def same(tv, iv, R, p=None):
    if isinstance(iv, dict):
        if "fx" in iv:
            # LinCombFxp.__pow__ reduces its value modulo the field prime: beyond the field size values can only agree modulo p
            if isinstance(tv, twin.Fx): return tv.rep == iv["fx"] or (p is not None and abs(tv.rep) >= p and (tv.rep - iv["fx"]) % p == 0)
            return False
        if "lc" in iv: return isinstance(tv, int) and not isinstance(tv, twin.Fx) and int(tv) == iv["lc"]
        if "b" in iv: return isinstance(tv, int) and int(tv) == iv["b"]
        return None
    if isinstance(iv, list): return isinstance(tv, (list, tuple)) and len(tv) == len(iv) and all(same(a, b, R, p) is not False for a, b in zip(tv, iv))
    if iv is None: return tv is None
    if isinstance(iv, int): return isinstance(tv, int) and int(tv) == iv
    return None


def kind_of(v):
    return "fxp" if isinstance(v, twin.Fx) else "float" if isinstance(v, float) else "bool" if isinstance(v, bool) else "int" if isinstance(v, int) else type(v).__name__


def oracle(case, rec, group):
    outs, raised, tw, dom_at = twin.run_twin(case)
    t = dict(outs)
    regv = {}
    for pc_, v_ in outs:
        st_ = case["prog"][pc_ - 1] if 0 < pc_ <= len(case["prog"]) else None
        if st_ is not None and st_[0] not in ("guarded", "ignore"): regv[st_[1]] = v_
    out = []
    def involved(s):
        if s and s[0] == "bin": return [regv.get(s[3]), regv.get(s[4])]
        if s and s[0] == "un": return [regv.get(s[3])]
        if s and s[0] == "meth": return [regv.get(s[4])] + [regv.get(q) for q in s[5]]
        return []
    P = case["cfg"]["p"]
    def beyond(v):
        if isinstance(v, twin.Fx): return abs(v.rep) >= P
        if isinstance(v, (list, tuple)): return any(beyond(x) for x in v)
        return isinstance(v, int) and abs(v) >= P
    impl_reg = {}
    for pc_, iv_ in rec["vals"]:
        st_ = case["prog"][pc_ - 1] if 0 < pc_ <= len(case["prog"]) else None
        if st_ is not None and st_[0] not in ("guarded", "ignore"): impl_reg[st_[1]] = iv_
    def operand_regs(s):
        if s and s[0] == "bin": return [s[3], s[4]]
        if s and s[0] == "un": return [s[3]]
        if s and s[0] == "meth": return [s[4]] + list(s[5])
        return []
    for pc, iv in rec["vals"]:
        s = case["prog"][pc - 1] if 0 < pc <= len(case["prog"]) else None
        ops = involved(s)
        if any(beyond(o) for o in ops): break
        # the operands themselves must agree with the reference: a divergence that comes from an earlier non-fixed-point
        # operation (e.g. ~x on an integer secret, a C05 finding) is not this operation's
        if any(q in regv and q in impl_reg and same(regv[q], impl_reg[q], tw.R, P) is False for q in operand_regs(s)): break       # an operand at or beyond the field size: integers and field elements part ways from here on
        fxp_involved = any(isinstance(o, (twin.Fx, float)) for o in ops)
        if pc in t and fxp_involved:
            ok = same(t[pc], iv, tw.R, case["cfg"]["p"])
            if ok is False:
                kinds = "/".join(kind_of(o) for o in ops)
                # secret int compared with / combined into a fixed-point value in the integer class's own method
                out.append(dict(op=s[2] if s[0] in ("bin", "un", "meth") else s[0], key="%s:%s" % (s[2], kinds),
                                what="fixed-point result differs from exact scaled-integer arithmetic", statement=s, pc=pc,
                                expected_representation=(t[pc].rep if isinstance(t[pc], twin.Fx) else repr(t[pc])), pysnark=iv,
                                operands=[(o.rep if isinstance(o, twin.Fx) else o) for o in ops], resolution=case["cfg"]["res"]))
                break
    if rec["floatbad"]:
        out.append(dict(op="val", key="val:float", what="val() of a fixed-point value is not representation / 2^resolution"))
    return out


def run(tier, seed):
    import random
    pending = matrix_cases(random.Random(seed * 7919 + 14), 2 if tier == "quick" else 12)
    gen = [None]
    def casegen(rnd):
        if pending: return pending.pop()
        if gen[0] is None: gen[0] = progs.Gen(rnd, PROFILE)
        return gen[0].case()
    nm = len(pending)
    return tracecheck.run(PID, tier, seed, PROFILE, oracle, n_quick=nm + 350, n_thorough=nm + 6000, mask=1 | 4 | 8, mutation_oracle=True,
                          casegen=casegen)


def replay(payload):
    import json
    print(json.dumps(payload, indent=1)[:3000])
    return run("quick", payload.get("seed", 1))
