"""C07 — a false guard makes code inert; a true guard is transparent."""
import copy
import random
import tracecheck, progs, matrixcases, blockgen

PID = "C07"
PROFILE = {"p_ignore": 0.0, "p_valid_inputs": 0.45, "guard_inputs": [0, 3], "max_guard_depth": 3, "lengths": [4, 6, 8, 10],
           "weights": dict(input=0.10, const=0.08, bin=0.36, un=0.05, meth=0.12, ite=0.03, guarded=0.14, itelazy=0.08, probe=0.0, ignore=0.0, list=0.01)}
VALUE_ERRORS = ("AssertionError", "ValueError", "ZeroDivisionError")


def inline_guards(prog):
    out = []
    for s in prog:
        if s[0] == "guarded": out += inline_guards(s[2])
        else: out.append(s)
    return out


def has(prog, kind):
    return any(s[0] == kind or (s[0] == "guarded" and has(s[2], kind)) or (s[0] == "itelazy" and (has(s[3], kind) or has(s[5], kind))) for s in prog)


def block_cases(seed, k):
    """block-API programs (not-taken _if / _elif / loop iterations are regions with a false guard): in-place writes into list and
    Array variables, boolean variables; compared with the native-control-flow twin"""
    rnd = random.Random(seed * 31 + 7)
    out = [dict(c, block=1) for c in blockgen.fixed_cases(progs.BN)]
    k += len(out)
    while len(out) < k:
        c = blockgen.gen_case(rnd, [progs.BN, 65537])
        if c.get("arrays") or "bsetidx" in str(c["prog"]) or rnd.random() < 0.3:
            c["block"] = 1; out.append(c)
    return out


def variants(case, rnd):
    if case.get("block"):
        import props.c09 as c09
        return [dict(v, block=1) for v in c09.variants(case, rnd)]
    """(1) guards forced false with arbitrary (possibly invalid) body operands; (2) guards forced true + the same program with the
    guarded regions inlined (transparency twin)"""
    n, p = case["cfg"]["n"], case["cfg"]["p"]
    pool = [0, 1, -1, 2 ** n, -2 ** n - 1, p, 3, 2 ** n + 5, rnd.randrange(-2 ** (n + 1), 2 ** (n + 1))]
    if case.get("matrix"):
        # deterministic matrix cases: operands are inputs 0 and 1, guards inputs 2 and 3
        bools = {s[3] for s in case["prog"] if s[0] == "input" and s[2].endswith("bool")}
        def opnd(i): return rnd.choice([0, 1]) if i in bools else rnd.choice(pool)
        v1 = copy.deepcopy(case); v1["ins"] = [opnd(0), opnd(1), 0, 0]; v1["role"] = "false-guards"
        v2 = copy.deepcopy(case); v2["ins"] = [case["ins"][0], case["ins"][1], 1, 1]; v2["role"] = "true-guards"
        out = [v1, v2]
        if has(case["prog"], "guarded") and not has(case["prog"], "itelazy") and not has(case["prog"], "oif"):
            v3 = copy.deepcopy(v2); v3["prog"] = inline_guards(v2["prog"]); v3["role"] = "inlined"
            out.append(v3)
        return out
    v1 = copy.deepcopy(case); v1["ins"] = [0, rnd.choice(pool), rnd.choice(pool), 0]; v1["role"] = "false-guards"
    v2 = copy.deepcopy(case); v2["ins"] = [1, case["ins"][1], case["ins"][2], 1]; v2["role"] = "true-guards"
    out = [v1, v2]
    if has(case["prog"], "guarded") and not has(case["prog"], "itelazy"):
        v3 = copy.deepcopy(v2); v3["prog"] = inline_guards(v2["prog"]); v3["role"] = "inlined"
        out.append(v3)
    return out


def false_guard(ctx):
    return any((cv == 0 and pol == 1) or (cv == 1 and pol == 0) for q, pol, cv in ctx)


def key_of(rec):
    m = rec.get("msg") or ""
    if "Division by zero" in m: return "zero-divisor-under-false-guard"
    if "LinCombBool can only take Boolean values" in m: return "non-boolean-LinCombBool-under-false-guard"
    if rec["exn"] == "ZeroDivisionError": return "no-field-inverse-under-false-guard"       # raised by backend.fieldinverse (value = 0 mod p, not 0)
    return "other:" + (rec["exn"] or "")


def oracle(case, rec, group):
    if case.get("block"):
        import props.c09 as c09
        vs = c09.oracle(case, rec, group)
        for v in vs: v["op"] = "inert-block"
        return vs
    out = []
    # inert: nothing inside a region whose effective guard is false may raise because of the values it meets
    if rec["exn"] in VALUE_ERRORS and rec.get("exn_ctx") and false_guard(rec["exn_ctx"]) and not case["cfg"]["ign"]:
        out.append(dict(op="inert", key=key_of(rec), what="code under a false guard raised %s" % rec["exn"], msg=rec["msg"], guard_context=rec["exn_ctx"], pc=rec.get("exn_pc")))
    # ... and the constraint system stays satisfied
    if rec["exn"] is None and not case["cfg"]["ign"] and rec["unsat"]:
        out.append(dict(op="inert", key="unsatisfied", what="run with guarded regions completed but the recorded witness violates a constraint", unsatisfied=rec["unsat"]))
    # transparent: with every guard true, same values and same errors as the unguarded program
    if case.get("role") == "inlined" and group is not None:
        tw = [r for c, r in group if c.get("role") == "true-guards"]
        if tw and all(cv == 1 for cv in tw[0]["guard_conds"]) and not (tw[0]["msg"] or "").startswith("incorrect guard value"):
            g = tw[0]
            if (g["exn"] or None) != (rec["exn"] or None):
                out.append(dict(op="transparent", key="exception", what="guarded (guard true) and unguarded versions end differently: %s vs %s" % (g["exn"], rec["exn"]), msg=[g["msg"], rec["msg"]]))
            elif rec["exn"] is None:
                a, b = g["final_regs"], rec["final_regs"]
                diff = [k for k in b if k in a and a[k] != b[k]]
                if diff:
                    out.append(dict(op="transparent", key="values", what="guarded (guard true) and unguarded versions compute different values", registers=diff[:4],
                                    guarded=[a[k] for k in diff[:4]], unguarded=[b[k] for k in diff[:4]]))
    return out


def post(cov, cases, recs):
    cov["runs_with_all_guards_false"] = sum(1 for c in cases if c.get("role") == "false-guards")
    cov["transparency_pairs"] = sum(1 for c, r in zip(cases, recs) if c.get("role") == "true-guards" and r["guard_conds"] and all(cv == 1 for cv in r["guard_conds"]))
    cov["raised_under_false_guard"] = sum(1 for r in recs if r["exn"] and r.get("exn_ctx") and false_guard(r["exn_ctx"]))


def pack_cases():
    """pack / unpack of a secret value inside a guarded region (matrix layout: operand = input 0, guards = inputs 2 and 3): with the guard
    false nothing is raised whatever the bits decode to; with the guard true the region behaves as if it were not guarded"""
    out = []
    for sch in (["intmod", 5], ["intmod", 100], ["list", [["bool"], ["intmod", 5]]], ["repeat", ["intmod", 6], 2]):
        for ctx in ("g1", "lazy1", "g0", "lazy0", "if0"):
            prog, nreg = [], [0]
            if sch[0] == "intmod":
                a = matrixcases._operand(prog, nreg, "lc", 0, 3); src = a
            elif sch[0] == "list":
                a = matrixcases._operand(prog, nreg, "lc", 1, 1); b = matrixcases._operand(prog, nreg, "lc", 0, 3)
                src = nreg[0]; nreg[0] += 1; prog.append(["list", src, [a, b]])
            else:
                a = matrixcases._operand(prog, nreg, "lc", 0, 3); b = matrixcases._operand(prog, nreg, "lc", 1, 1)
                src = nreg[0]; nreg[0] += 1; prog.append(["list", src, [a, b]])
            d1 = nreg[0]; d2 = nreg[0] + 1; nreg[0] += 2
            body, gv = matrixcases._wrap(ctx, [["pack", d1, sch, src], ["unpack", d2, sch, d1]], nreg, d2)
            # in the regions that are not taken the secret holds a value whose bits decode to something outside the field (7 for moduli 5 and 6, 127 for 100)
            v0 = 3 if ctx in ("g1", "lazy1") else (127 if sch == ["intmod", 100] else 7)
            out.append(dict(cfg=dict(p=progs.BN, n=8, res=2, ign=0), prog=prog + body, ins=[v0, 1, gv[0], gv[1]], matrix="pack-unpack:%s:%s" % (sch[0], ctx)))
    return out


def run(tier, seed):
    # deterministic part: every assertion / decomposition / division x operand kinds inside guarded regions, each run with the
    # guards false on arbitrary operands (inert), true (transparent) and with the regions inlined
    pending = matrixcases.assertion_contexts(tier, ctxs=["g1", "g1g1", "lazy1"], bin_ctxs=["g1"])
    if tier == "quick": pending = pending[seed % 2::2]            # half of the matrix per run (which half depends on the seed)
    pending += pack_cases()
    pending += block_cases(seed, 24 if tier == "quick" else 300)
    return tracecheck.run(PID, tier, seed, PROFILE, oracle, n_quick=4 * len(pending) + 320, n_thorough=4 * len(pending) + 6000, variants=variants, post=post, mask=1 | 2 | 4 | 8,
                          casegen=matrixcases.with_pending(pending, PROFILE))


def replay(payload):
    import json
    print(json.dumps(payload, indent=1)[:3000])
    return run("quick", payload.get("seed", 1))
