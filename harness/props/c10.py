"""C10 — snarkjs files encode exactly the traced circuit and a valid witness."""
import collections, json, os, random, time
import common, progs, decoders
from common import zlit

PID = "C10"
BN = progs.BN
PROFILE = {"moduli": [BN], "bitlengths": [2, 3, 4], "p_ignore": 0.1, "lengths": [2, 3, 4, 6], "p_valid_inputs": 0.5,
           "ops": ["add", "sub", "mul", "eq", "lt", "truediv", "and", "xor", "ne", "le"],
           "weights": dict(input=0.15, const=0.1, bin=0.5, un=0.05, meth=0.12, ite=0.03, guarded=0.05)}
HDR = ("From Coq Require Import ZArith List.\nFrom PySnark.Model Require Import Util Lc Snarkjs.\nImport ListNotations.\nOpen Scope Z_scope.\n"
       "Definition zl_eqb := list_eqb Z.eqb.\n")


def lc_lit(items): return "[" + "; ".join("(%s, %s)" % (zlit(k), zlit(c)) for k, c in items) + "]"


def case_v(i, tr, files):
    cons = "[" + ";\n ".join("(%s, %s, %s)" % (lc_lit(a), lc_lit(b), lc_lit(c)) for a, b, c in tr["cons"]) + "]"
    by = lambda h: "[" + "; ".join(str(x) for x in bytes.fromhex(h)) + "]"
    return ("Definition ok%d : Z := (if zl_eqb (encode_wtns %d [%s] [%s]) %s then 0 else 1) + (if zl_eqb (encode_r1cs %d %d %d %s) %s then 0 else 2)"
            " + (match decode_r1cs %s with Some (r, []) => if (r_nwires r =? %d) then 0 else 4 | _ => 4 end) + (match decode_wtns %s with Some (_, []) => 0 | _ => 8 end).\n"
            % (i, BN, "; ".join(zlit(v) for v in tr["pubs"]), "; ".join(zlit(v) for v in tr["privs"]), by(files["witness.wtns"]),
               BN, len(tr["pubs"]), len(tr["privs"]), cons, by(files["circuit.r1cs"]),
               by(files["circuit.r1cs"]), len(tr["pubs"]) + len(tr["privs"]) + 1, by(files["witness.wtns"])))


def oracle(case, rec):
    """independent decoding of the real files + comparison with the traced system + satisfaction"""
    out = []
    tr = rec["trace"]; files = rec["files"]
    def bad(what, **kw): out.append(dict(kind="oracle", op="file", key=what.split(":")[0], what=what, case=dict(cfg=case["cfg"], prog=case["prog"], ins=case["ins"]), **kw))
    try:
        prime, vals = decoders.decode_wtns(bytes.fromhex(files["witness.wtns"]))
    except decoders.Bad as e:
        bad("witness.wtns malformed: %s" % e); return out
    try:
        r = decoders.decode_r1cs(bytes.fromhex(files["circuit.r1cs"]))
    except decoders.Bad as e:
        bad("circuit.r1cs malformed: %s" % e); return out
    p = BN
    if prime != p or r["prime"] != p: bad("prime: file declares another modulus")
    want = [1] + [v % p for v in tr["pubs"]] + [v % p for v in tr["privs"]]
    if vals != want: bad("witness: decoded assignment differs from the traced one (one, publics, privates in creation order, reduced mod p)", decoded=vals[:6], traced=want[:6])
    npub = len(tr["pubs"])
    wire = lambda k: k if k >= 0 else npub - k
    wantc = [[[(wire(k), c % p) for k, c in lc] for lc in con] for con in tr["cons"]]
    gotc = [[[tuple(t) for t in lc] for lc in con] for con in r["cons"]]
    if gotc != wantc: bad("constraints: decoded constraint system differs from the traced one")
    if r["nwires"] != len(want) or r["npubout"] != npub: bad("header: declared counts differ from the content")
    if rec["exn"] is None and not case["cfg"]["ign"] and len(vals) == r["nwires"]:
        ev = lambda lc: sum(c * vals[w] for w, c in lc) % p
        for i, (a, b, c) in enumerate(gotc):
            if (ev(a) * ev(b) - ev(c)) % p: bad("satisfaction: decoded witness violates decoded constraint %d" % i); break
    return out


def run(tier, seed):
    t0 = time.time()
    rnd = random.Random(seed)
    tr_ok, tr_msg = common.translate()
    props = common.props_check(PID)
    viol = common.proof_violations(PID, tr_ok, tr_msg, props)
    n = 60 if tier == "quick" else 600
    cdir = os.path.join(common.VERIF, "corpus", PID)
    cases = [json.load(open(os.path.join(cdir, f))) for f in sorted(os.listdir(cdir)) if f.endswith(".json")]
    import matrixcases
    cases += matrixcases.midprove_cases(BN) + matrixcases.cancellation_cases(BN)
    n += len(matrixcases.midprove_cases(BN)) + len(matrixcases.cancellation_cases(BN))
    gen = progs.Gen(rnd, PROFILE)
    while len(cases) < n:
        c = gen.case()
        if rnd.random() < 0.4:          # witness values: negative, at/above the prime, wider than 256 bits
            c["ins"] = [c["ins"][0]] + [rnd.choice([-1, -5, BN, BN + 3, 2 ** 256 + 7, 2 ** 300, -2 ** 260, 3, BN - 1, -BN, -2 * BN, 2 * BN, -BN - 1]) for _ in c["ins"][1:]]
            c["cfg"]["ign"] = 1
        cases.append(c)
    for i, c in enumerate(cases): c.update(id=i, prove=(2 if (i % 2 or "prove_at" in c) else 1), full=1)
    try:
        recs = progs.run_impl_cases(cases, full=True, real_backend="snarkjs")
    except Exception as e:
        viol.append(dict(kind="harness", concrete=False, what="implementation runner failed", detail=str(e)[-1500:]))
        return common.finish(PID, tier, seed, t0, props, dict(evaluations=len(cases), distinct_nontrivial=0, samples=[], explanation="runner failed"), viol)
    files_v = []
    idx = []
    nontrivial = set(); stats = collections.Counter()
    for i, (c, r) in enumerate(zip(cases, recs)):
        if "files" not in r or "witness.wtns" not in r.get("files", {}):
            viol.append(dict(kind="oracle", op="file", key="prove-failed", what="prove() did not write both files: %s" % r.get("prove_error"), case=dict(cfg=c["cfg"], prog=c["prog"], ins=c["ins"])))
            continue
        stats["files"] += 1
        stats["constraints"] += len(r["trace"]["cons"])
        stats["negative_or_large_values"] += sum(1 for v in r["trace"]["pubs"] + r["trace"]["privs"] if v < 0 or v >= BN)
        stats["zero_coefficients"] += sum(1 for con in r["trace"]["cons"] for lc in con for k, cf in lc if cf % BN == 0)
        stats["empty_combinations"] += sum(1 for con in r["trace"]["cons"] for lc in con if not lc)
        viol += oracle(c, r)
        nontrivial.add(r["files"]["circuit.r1cs"][:2000] + r["files"]["witness.wtns"][-200:])
        if len(r["trace"]["cons"]) <= 40:
            idx.append(i)
    # correspondence: the Coq encoders reproduce the real files byte for byte; the Coq decoders accept them
    shard = 8
    files = []
    for s in range(0, len(idx), shard):
        part = idx[s:s + shard]
        body = "".join(case_v(k, recs[k]["trace"], recs[k]["files"]) for k in part)
        files.append(("c10_%d" % (s // shard), HDR + body + "Eval vm_compute in [%s].\n" % "; ".join("ok%d" % k for k in part)))
    import re
    ncorr = 0; mism = 0
    if os.path.exists(os.path.join(common.COQ, "theories", "Model", "Snarkjs.vo")):
        for (name, ok, outp), s in zip(common.coq_eval_many(files), range(0, len(idx), shard)):
            part = idx[s:s + shard]
            flat = " ".join(outp.split())
            m = re.search(r"= \[([^\]]*)\] : list Z", flat)
            if not ok or not m:
                viol.append(dict(kind="correspondence", concrete=False, what="in-Coq evaluation of %s failed" % name, detail=outp[-600:])); continue
            vals = [int(x.strip()) for x in m.group(1).split(";") if x.strip()]
            for k, v in zip(part, vals):
                ncorr += 1
                if v:
                    mism += 1
                    parts = [nm for b, nm in ((1, "witness.wtns bytes"), (2, "circuit.r1cs bytes"), (4, "Coq decoder rejects circuit.r1cs"), (8, "Coq decoder rejects witness.wtns")) if v & b]
                    viol.append(dict(kind="correspondence", concrete=False, what="model encoder and prove() disagree (%s)" % ", ".join(parts),
                                     detail=json.dumps(dict(cfg=cases[k]["cfg"], prog=cases[k]["prog"], ins=cases[k]["ins"]))[:1500]))
    else:
        viol.append(dict(kind="correspondence", concrete=False, what="model not built"))
    seen = collections.Counter(); kept = []
    for v in viol:
        if v.get("kind") == "oracle":
            seen[v["key"]] += 1
            if seen[v["key"]] > 2: continue
        kept.append(v)
    cov = dict(evaluations=len(cases), distinct_nontrivial=len(nontrivial),
               rule="generated programs on the real snarkjs backend; prove() called on the trace; both files decoded by independent Python decoders and compared with the traced "
                    "system; byte-compared with the Coq encoders and parsed by the Coq decoders (vm_compute); non-trivial = distinct file contents",
               samples=[dict(cfg=c["cfg"], prog=c["prog"], ins=c["ins"]) for c in cases[:3]], stats=dict(stats),
               traces_validated_against_impl=ncorr - mism, byte_mismatches=mism)
    return common.finish(PID, tier, seed, t0, props, cov, kept,
                         assumptions=["size guards of the theorems: p < 2^256, counts < 2^32, section size < 2^64 (4- and 8-byte fields)", "what snarkjs itself accepts is not tested (tool absent); the iden3 format descriptions are the reference"])


def replay(payload):
    print(json.dumps(payload, indent=1)[:4000])
    return run("quick", payload.get("seed", 1))
