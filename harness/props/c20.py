"""C20 — hash gadgets equal a plain reference and use the active backend's parameters."""
import collections, json, os, random, shutil, subprocess, time
from concurrent.futures import ThreadPoolExecutor
import common, progs, poseidon_ref

PID = "C20"
FIELDS = {"zkinterface": ("pysnark.zkinterface.backend", progs.BN), "zkifbellman": ("pysnark.zkinterface.backendbellman", progs.BLS),
          "zkifbulletproofs": ("pysnark.zkinterface.backendbulletproofs", progs.C25519), "nobackend": ("pysnark.nobackend", None)}
VEC = {"zkinterface": [0x299c867db6c1fdd79dcefa40e4510b9837e60ebb1ce0663dbaa525df65250465, 0x1148aaef609aa338b27dafd89bb98862d8bb2b429aceac47d86206154ffe053d,
                       0x24febb87fed7462e23f6665ff9a0111f4044c38ee1672c1ac6b0637d34f24907, 0x0eb08f6d809668a981c186beaf6110060707059576406b248e5d9cf6e78b3d3e,
                       0x07748bc6877c9b82c8b98666ee9d0626ec7f5be4205f79ee8528ef1c4a376fc7],
       "zkifbellman": [0x2a918b9c9f9bd7bb509331c81e297b5707f6fc7393dcee1b13901a0b22202e18, 0x65ebf8671739eeb11fb217f2d5c5bf4a0c3f210e3f3cd3b08b5db75675d797f7,
                       0x2cc176fc26bc70737a696a9dfd1b636ce360ee76926d182390cdb7459cf585ce, 0x4dc4e29d283afd2a491fe6aef122b9a968e74eff05341f3cc23fda1781dcb566,
                       0x03ff622da276830b9451b88b85e6184fd6ae15c8ab3ee25a5667be8592cce3b1]}
SEL_SCRIPT = '''import sys, json, os, importlib
cfg = json.loads(sys.argv[1])
for m in cfg["preimport"]: importlib.import_module(m)
out = {}
try:
    import pysnark.runtime as rt
    rt.autoprove = False
    out["backend_name"] = rt.backend_name
    import pysnark.poseidon_hash as ph
    out["params"] = [ph.R_F, ph.R_P, ph.t, ph.a, ph.round_constants[0][0], ph.matrix[0][0]]
except BaseException as e:
    out["exception"] = "%s: %s" % (type(e).__name__, str(e)[:120])
print("RESULT " + json.dumps(out))
'''


def hash_case(rnd, name, p, kind):
    prog, ins = [], []
    n = {"permute": 5}.get(kind) or rnd.choice([0, 1, 2, 3, 4, 5, 7, 8, 9, 12])
    regs = []
    for i in range(n):
        k = rnd.choice(["priv", "priv", "pub", "privfxp", "privbool"]) if kind == "poseidon" else "priv"
        v = rnd.choice([0, 1]) if k == "privbool" else rnd.choice([0, 1, 2, p - 1, p + 5, -3, rnd.randrange(0, 2 ** 64), rnd.randrange(0, p)])
        prog.append(["input", i, k, i]); ins.append(v); regs.append(i)
    prog.append(["list", n, regs])
    prog.append([kind, n + 1, name, n])
    return dict(cfg=dict(p=p, n=8, res=2, ign=0), prog=prog, ins=ins, kind=kind, pname=name)


def plain_inputs(case):
    if "hash_inputs" in case: return list(case["hash_inputs"])
    R = 1 << case["cfg"]["res"]
    out = []
    for s in case["prog"]:
        if s[0] == "input": out.append(case["ins"][s[3]] * (R if s[2].endswith("fxp") else 1))
    return out


def ggh_coeff_ref(p, i):
    """independent derivation of the i-th subset-sum coefficient (libsnark's nothing-up-my-sleeve generator)"""
    import hashlib, struct
    nb = p.bit_length(); it = 0
    while True:
        v = int.from_bytes(hashlib.sha512(struct.pack("<QQ", i, it)).digest(), "little") & ((1 << nb) - 1)
        if v < p: return v
        it += 1


def run(tier, seed):
    t0 = time.time()
    rnd = random.Random(seed)
    tr_ok, tr_msg = common.translate()
    props = common.props_check(PID)
    viol = common.proof_violations(PID, tr_ok, tr_msg, props)
    params = poseidon_ref.load_params(common.REPO)
    stats = collections.Counter(); nontrivial = set(); samples = []
    ncorr = nmism = 0
    def bad(key, what, case=None, **kw): viol.append(dict(kind="oracle", op="hash", key=key, what=what, case=case, **kw))
    # ---- 1. traced gadgets vs the plain reference (Python), on the real parameter sets and the real fields
    for name, (modname, p) in FIELDS.items():
        ps = params[name]
        pp = p if p is not None else rnd.choice([65537, progs.BN])
        cases = []
        k = 4 if tier == "quick" else 30
        if name in VEC:
            cases.append(dict(cfg=dict(p=pp, n=8, res=2, ign=0), prog=[["input", i, "priv", i] for i in range(5)] + [["list", 5, [0, 1, 2, 3, 4]], ["permute", 6, name, 5]], ins=[0, 1, 2, 3, 4], kind="vector", pname=name))
        for _ in range(k): cases.append(hash_case(rnd, name, pp, "permute"))
        # inputs that cancel the first round constants: state cells are exactly 0 at the first mix layer
        t_ = ps["t"]
        cases.append(dict(cfg=dict(p=pp, n=8, res=2, ign=0), prog=[["input", i, "priv", i] for i in range(t_)] + [["list", t_, list(range(t_))], ["permute", t_ + 1, name, t_]],
                          ins=[-int(ps["round_constants"][0][i]) for i in range(t_)], kind="permute", pname=name))
        cases.append(dict(cfg=dict(p=pp, n=8, res=2, ign=0), prog=[["input", i, "priv", i] for i in range(t_)] + [["list", t_, list(range(t_))], ["permute", t_ + 1, name, t_]],
                          ins=[(-int(ps["round_constants"][0][i]) if i % 2 else 7 + i) for i in range(t_)], kind="permute", pname=name))
        for _ in range(k + 2): cases.append(hash_case(rnd, name, pp, "poseidon"))
        # the gadget's module is first used (imported) inside a guarded region, taken or not, and then again at top level:
        # the hash computed afterwards is still the reference hash
        for gv in (0, 1):
            for kind in ("poseidon", "permute"):
                nin = t_ if kind == "permute" else 2
                cases.append(dict(cfg=dict(p=pp, n=8, res=2, ign=0),
                                  prog=[["input", i, "priv", i] for i in range(nin)] + [["list", nin, list(range(nin))], ["input", nin + 1, "priv", nin],
                                        ["guarded", nin + 1, [[kind, nin + 2, name, nin]]], [kind, nin + 3, name, nin]],
                                  ins=[5 + i for i in range(nin)] + [gv], kind=kind, pname=name, hash_inputs=[5 + i for i in range(nin)],
                                  reimport=["pysnark.poseidon_hash"]))
        for i, c in enumerate(cases): c["id"] = i
        try:
            recs = progs.run_impl_cases(cases, backend_module=modname)
        except Exception as e:
            viol.append(dict(kind="harness", concrete=False, what="implementation runner failed for %s" % name, detail=str(e)[-1200:])); continue
        counts = collections.defaultdict(set)
        shapes = collections.defaultdict(dict)
        for c, r in zip(cases, recs):
            if r["exn"] is None and c["kind"] in ("permute", "vector") and len(c["ins"]) == ps["t"]:
                shapes[json.dumps(r["shape"], sort_keys=True, default=str)][tuple(c["ins"])] = c
        if len(shapes) > 1:
            (a, ca), (b, cb) = [(k_, list(v_.values())[0]) for k_, v_ in list(shapes.items())[:2]]
            bad("circuit-depends-on-input-values", "two permutations of %d secret inputs record different constraint systems (the circuit depends on the input values)" % ps["t"],
                dict(backend=name, cfg=ca["cfg"], prog=ca["prog"], ins=[str(x) for x in ca["ins"]], other_ins=[str(x) for x in cb["ins"]]))
        for c, r in zip(cases, recs):
            stats["traced:" + name] += 1
            cs = dict(cfg=c["cfg"], prog=c["prog"], ins=c["ins"], backend=name)
            if r["exn"] is not None: bad("raised:%s" % r["exn"], "hash gadget raised %s: %s" % (r["exn"], r["msg"]), cs); continue
            got = [v.get("lc") for v in r["vals"][-1][1]]
            xs = plain_inputs(c)
            want = poseidon_ref.permute(ps, pp, xs) if c["kind"] in ("permute", "vector") else poseidon_ref.sponge(ps, pp, xs)
            if [g % pp for g in got] != want: bad("differs-from-reference:%s" % c["kind"], "traced %s differs from the plain reference" % c["kind"], cs, traced=got[:2], reference=want[:2])
            if c["kind"] == "vector" and [g % pp for g in got] != VEC[name]: bad("test-vector", "published test vector not reproduced", cs)
            if r["unsat"]: bad("unsatisfied", "constraints of the hash gadget violated by the recorded witness", cs)
            nblocks = len(poseidon_ref.pad(ps["t"] - 1, xs)) // (ps["t"] - 1) if c["kind"] == "poseidon" else 1
            nb = sum(1 for s in c["prog"] if s[0] == "input" and s[2].endswith("bool"))
            counts[(c["kind"] == "poseidon", nblocks, bool(c.get("reimport")))].add(r["ncons"] - nb)
            nontrivial.add((name, tuple(xs)))
            if len(samples) < 2: samples.append(dict(backend=name, inputs=[str(x)[:20] for x in xs], kind=c["kind"], constraints=r["ncons"]))
        for key, cset in counts.items():
            if len(cset) > 1: bad("constraint-count-varies", "number of constraints of %s with %d block(s) depends on the input values: %s" % ("poseidon_hash" if key[0] else "permute", key[1], sorted(cset)), dict(backend=name))
        # padding: messages of different length never share a padded form
        rate = ps["t"] - 1
        seenp = {}
        for ln in range(0, 3 * rate + 1):
            for msg in ([0] * ln, [1] * ln, [1] + [0] * (ln - 1) if ln else []):
                pd = tuple(poseidon_ref.pad(rate, msg))
                if pd in seenp and seenp[pd] != tuple(msg): bad("padding-collision", "two messages share a padded form", dict(a=list(seenp[pd]), b=list(msg)))
                seenp[pd] = tuple(msg)
    # ---- 2. model = code (trace correspondence) on the toy parameter set (fast in the kernel) + subset-sum hash
    toy = []
    for _ in range(6 if tier == "quick" else 40):
        toy.append(hash_case(rnd, "nobackend", rnd.choice([65537, 251, progs.BN]), rnd.choice(["permute", "poseidon"])))
    if tier == "thorough":
        pass
    groups = collections.defaultdict(list)
    for c in toy: groups[c["cfg"]["p"]].append(c)
    for p, cs in groups.items():
        for i, c in enumerate(cs): c["id"] = i
        recs = progs.run_impl_cases(cs, backend_module="pysnark.nobackend")
        codes, errs = progs.run_model_compare(cs, recs)
        for e in errs: viol.append(dict(kind="correspondence", concrete=False, what="in-Coq evaluation of the model failed", detail=e))
        for c, cd in zip(cs, codes):
            ncorr += 1
            if cd:
                nmism += 1
                viol.append(dict(kind="correspondence", concrete=False, what="model and implementation traces of the hash gadget differ", detail=json.dumps(dict(cfg=c["cfg"], prog=c["prog"], ins=c["ins"]))[:1200]))
    # subset-sum hash
    for p in (progs.BN, 65537, progs.BLS, progs.C25519):
        cs = []
        for _ in range(5 if tier == "quick" else 40):
            n = rnd.choice([1, 2, 5, 9])
            prog = []; ins = []
            for i in range(n):
                secret = rnd.random() < 0.7 or i == 0
                if secret: prog.append(["input", i, "priv", len(ins)]); ins.append(rnd.choice([0, 1]))
                else: prog.append(["const", i, ["int", rnd.choice([0, 1])]])
            prog.append(["list", n, list(range(n))]); prog.append(["ggh", n + 1, [], n])
            cs.append(dict(cfg=dict(p=p, n=8, res=2, ign=0), prog=prog, ins=ins))
        for i, c in enumerate(cs): c["id"] = i
        recs = progs.run_impl_cases(cs, backend_module="pysnark.nobackend")
        for c, r in zip(cs, recs):
            if r.get("ggh_coeffs"): c["prog"][-1][2] = r["ggh_coeffs"]
            stats["ggh"] += 1
            # the coefficients themselves: SHA-512 of (i, counter), masked to the bit length of the prime, first value below the prime
            if r.get("ggh_coeffs"):
                want_cf = [ggh_coeff_ref(p, i) for i in range(len(r["ggh_coeffs"]))]
                if list(r["ggh_coeffs"]) != want_cf:
                    bad("ggh-coefficients", "the subset-sum coefficients derived for the field of %d bits differ from the SHA-512 definition (first difference at index %d)" % (p.bit_length(), [a_ != b_ for a_, b_ in zip(r["ggh_coeffs"], want_cf)].index(True)),
                        dict(cfg=c["cfg"], prog=c["prog"][:2], ins=c["ins"]))
            if r["exn"] is None:
                bits = [c["ins"][s[3]] if s[0] == "input" else s[2][1] for s in c["prog"] if s[0] in ("input", "const")]
                want = poseidon_ref.ggh(p, r["ggh_coeffs"], bits)
                got = r["vals"][-1][1].get("lc")
                if got % p != want: bad("ggh-differs", "traced subset-sum hash differs from the plain one", dict(cfg=c["cfg"], prog=c["prog"][:3], ins=c["ins"]))
            else:
                bad("ggh-raised:%s" % r["exn"], "ggh_hash raised %s: %s" % (r["exn"], r["msg"]), dict(cfg=c["cfg"], prog=[s for s in c["prog"] if s[0] != "ggh"], ins=c["ins"]))
        ok = [(c, r) for c, r in zip(cs, recs) if r.get("ggh_coeffs")]
        if ok:
            codes, errs = progs.run_model_compare([c for c, _ in ok], [r for _, r in ok])
            for c, cd in zip([c for c, _ in ok], codes):
                ncorr += 1
                if cd:
                    nmism += 1
                    viol.append(dict(kind="correspondence", concrete=False, what="model and implementation traces of ggh_hash differ", detail=json.dumps(dict(cfg=c["cfg"], ins=c["ins"]))[:600]))
    # ---- 3. the parameter set in use is the one registered for the backend actually selected
    sel = [dict(env="zkinterface", preimport=[]), dict(env="zkifbellman", preimport=[]), dict(env="zkifbulletproofs", preimport=[]), dict(env="nobackend", preimport=[]),
           dict(env=None, preimport=["pysnark.zkinterface.backend"]), dict(env=None, preimport=["pysnark.nobackend"]), dict(env=None, preimport=[]),
           dict(env="snarkjs", preimport=[]), dict(env="foo", preimport=[]), dict(env="zkifbellman", preimport=["pysnark.zkinterface.backend"])]
    def run_sel(cfg):
        d = common.scratch("pysnark-verif-pos-")
        try:
            open(os.path.join(d, "s.py"), "w").write(SEL_SCRIPT)
            env = common.impl_env({"PYSNARK_BACKEND": cfg["env"]})
            r = subprocess.run([common.PY, "s.py", json.dumps(cfg)], cwd=d, env=env, stdout=subprocess.PIPE, stderr=subprocess.PIPE, text=True, timeout=120)
            for ln in r.stdout.split("\n"):
                if ln.startswith("RESULT "): return json.loads(ln[7:])
            return dict(crash=(r.stdout + r.stderr)[-400:])
        finally:
            shutil.rmtree(d, ignore_errors=True)
    with ThreadPoolExecutor(common.NPROC) as ex:
        sres = list(ex.map(run_sel, sel))
    for cfg, res in zip(sel, sres):
        stats["selection_paths"] += 1
        if "crash" in res: bad("selection-crash", "parameter-selection run crashed: " + res["crash"][-150:], cfg); continue
        bn = res.get("backend_name")
        if "params" in res:
            ps = params.get(bn)
            if ps is None: bad("params-for-unregistered-backend", "backend %s has no registered parameter set but Poseidon loaded one" % bn, cfg, observed=res["params"][:4])
            elif res["params"] != [ps["R_F"], ps["R_P"], ps["t"], ps["a"], ps["round_constants"][0][0], ps["matrix"][0][0]]:
                bad("wrong-parameter-set", "backend in effect is %s but Poseidon uses another parameter set (R_F=%s, R_P=%s, a=%s)" % (bn, res["params"][0], res["params"][1], res["params"][3]), cfg)
        else:
            if bn in params: bad("params-missing", "backend %s has a registered parameter set but Poseidon failed: %s" % (bn, res.get("exception")), cfg)
            elif "NotImplementedError" not in res.get("exception", ""): bad("unregistered-backend-not-refused", "unregistered backend %s: %s" % (bn, res.get("exception")), cfg)
    seen = collections.Counter(); kept = []
    for x in viol:
        if x.get("kind") == "oracle":
            seen[x["key"]] += 1
            if seen[x["key"]] > 2: continue
        kept.append(x)
    cov = dict(evaluations=sum(stats.values()), distinct_nontrivial=len(nontrivial),
               rule="traced permute / poseidon_hash on the real parameter sets over their real fields (recorder registered under the backend's module name) vs an independent plain "
                    "reference, incl. published vectors, 0..3 blocks, fixed-point / boolean inputs, values at and above p; constraint counts per block count; padding collisions; "
                    "trace correspondence of the Coq model of the traced gadget on the toy parameter set and of ggh_hash; one subprocess per parameter-selection path",
               samples=samples, stats=dict(stats), traces_validated_against_impl=ncorr - nmism, trace_mismatches=nmism)
    return common.finish(PID, tier, seed, t0, props, cov, kept,
                         assumptions=["SHA-512 is external: the model of ggh_hash is fed the coefficients the implementation derived",
                                      "kernel evaluation of the traced-gadget model on the 254-bit real parameter sets is too slow (bit-serial Z division): correspondence uses the toy set; the real sets are tied by the kernel-checked test vectors and by the Python reference"])


def replay(payload):
    print(json.dumps(payload, indent=1)[:4000])
    return run("quick", payload.get("seed", 1))
