"""C12 — qaptools equation / wire / I-O files are consistent and split faithfully."""
import collections, json, os, random, re, shutil, subprocess, time
import common

PID = "C12"
FN_ARITY = {"sq": 1, "madd": 2, "pair": 2, "nest": 2, "perm": 2, "perm2": 2, "layout": 2, "closure": 2}
VALUE_DEPENDENT = ("poly", "perm", "perm2", "layout")


def gen_scenario(rnd, special=None):
    steps = [["priv", "a", rnd.choice([0, 1, 3, -2, 7, 2 ** 70])], ["pub", "b", rnd.choice([0, 2, 5, -1])], ["priv", "c", rnd.randrange(-5, 9)]]
    names = ["a", "b", "c"]
    k = 0
    for _ in range(rnd.choice([2, 3, 4, 6])):
        t = rnd.random()
        if t < 0.4:
            d = "t%d" % k; k += 1
            steps.append(["bin", d, rnd.choice(["add", "sub", "mul", "mul"]), rnd.choice(names), rnd.choice(names + [3, -1, 0])]); names.append(d)
        elif t < 0.85:
            fn = special if (special and special != "midprove" and rnd.random() < 0.5) else rnd.choice(["sq", "madd", "pair", "nest"])
            ar = FN_ARITY.get(fn, 1)
            d = "r%d" % k; k += 1
            steps.append(["call", fn, [rnd.choice(names) for _ in range(ar)], d])
            names += ["%s0" % d, "%s1" % d] if fn in ("pair", "layout") else [d]
        else:
            steps.append(["val", rnd.choice(names)])
    steps.append(["val", names[-1]])
    if special == "midprove":
        # an early prove() somewhere after the first statement; the same functions are called before and after it
        pos = rnd.randrange(4, len(steps))
        steps.insert(pos, ["prove"])
        d = "q%d" % k
        steps += [["call", "sq", [names[0]], d], ["call", "madd", [names[0], d], d + "x"], ["val", d + "x"]]
        steps.insert(3, ["call", "sq", ["c"], "q_pre"])
    return dict(steps=steps, special=special)


def midprove_scenarios():
    return [dict(steps=[["priv", "a", 3], ["call", "sq", ["a"], "r0"], ["prove"], ["call", "sq", ["r0"], "r1"], ["val", "r1"]], special="midprove"),
            dict(steps=[["priv", "a", 3], ["pub", "b", 2], ["call", "madd", ["a", "b"], "r0"], ["prove"], ["bin", "t", "mul", "r0", "a"], ["val", "t"]], special="midprove"),
            dict(steps=[["priv", "a", -2], ["call", "nest", ["a", "a"], "r0"], ["val", "r0"], ["prove"], ["call", "nest", ["r0", "a"], "r1"], ["prove"], ["call", "sq", ["r1"], "r2"], ["val", "r2"]], special="midprove")]


def run_scenario(sc):
    d = common.scratch("pysnark-verif-qap-")
    try:
        env = common.impl_env({"PYSNARK_KEYDIR": None, "PYSNARK_PROOFDIR": None})
        r = subprocess.run([common.PY, os.path.join(common.VERIF, "harness", "impl", "qap_impl.py")], input=json.dumps(sc), cwd=d, env=env,
                           stdout=subprocess.PIPE, stderr=subprocess.PIPE, text=True, timeout=120)
        if r.returncode != 0: return dict(crash=r.stderr[-1500:])
        return json.loads(r.stdout)
    finally:
        shutil.rmtree(d, ignore_errors=True)


def parse_terms(toks):
    if len(toks) % 2: raise ValueError("odd term list %r" % toks)
    return [(int(toks[i]), toks[i + 1]) for i in range(0, len(toks), 2)]


def parse_eq(line):
    body = line.strip()
    if body.endswith("."): body = body[:-1].strip()
    left, right = body.split("=")
    a, b = left.split("*")
    return parse_terms(a.split()), parse_terms(b.split()), parse_terms(right.split())


def oracle(sc, res):
    out = []
    def bad(key, what, **kw): out.append(dict(kind="oracle", op="qaptools", key=key, what=what, case=sc, **kw))
    if "crash" in res: bad("crash", "scenario crashed: " + res["crash"][-300:]); return out, {}
    p = res["p"]; files = res["files"]
    if res["error"]:
        if "Inconsistent" in res["error"] and sc.get("special") == "iszero": bad("inconsistent-contexts-subqap-one", "a sub-circuit that uses a comparison / LinComb.ONE fails at proving time: " + res["error"][:160])
        elif "Inconsistent functions" in res["error"] and sc.get("special") in VALUE_DEPENDENT: pass          # the inconsistency is reported, as required
        elif "Inconsistent contexts" in res["error"] and sc.get("special") == "closure": pass                 # a wire of another context inside a sub-circuit: reported, as required
        else: bad("error:" + res["error"].split(":")[0], "scenario raised " + res["error"][:200])
        return out, {}
    if sc.get("special") in VALUE_DEPENDENT:
        kinds = {tuple(c[1]) and (c[1][0] % 2) for c in res["calls"] if c[0] == sc["special"]}
        if len(kinds) > 1: bad("inconsistent-function-not-reported", "calls of one function with different equation sets were accepted without an error")
    vals = {}
    for fn in ("pysnark_wires", "pysnark_values"):
        for ln in files.get(fn, "").split("\n"):
            if ":" in ln and not ln.startswith("#"):
                k, v = ln.split(":"); vals[k.strip()] = int(v)
    eqs = [ln for ln in files.get("pysnark_eqs", "").split("\n") if ln.strip() and not ln.startswith("#")]
    stats = collections.Counter()
    fns = {}          # call -> function
    percall = collections.defaultdict(list)
    blocks = collections.defaultdict(dict)
    glues = []
    def val(name):
        if name.endswith("/one"): return 1
        if name not in vals: raise KeyError(name)
        return vals[name]
    for ln in eqs:
        toks = ln.split()
        if toks[0] == "[function]": fns[toks[2]] = toks[1]; continue
        if toks[0] == "[ioblock]":
            foreign = [t for t in toks[3:] if t.split("/", 1)[0] != toks[1]]
            if foreign: bad("block-lists-foreign-wire", "an I/O block of call %s lists wires of another function context (%s) and proving did not report it" % (toks[1], " ".join(foreign[:3])))
        if toks[0] == "[ioblock]": blocks[toks[1]][toks[2]] = toks[3:]; percall[toks[1]].append("[ioblock] " + toks[2] + " " + " ".join(t.split("/", 1)[1] for t in toks[3:])); continue
        if toks[0] == "[glue]": glues.append(toks[1:]); continue
        if toks[0] == "[external]": continue
        try:
            a, b, c = parse_eq(ln)
        except Exception as e:
            bad("unparsable", "equation line not in the grammar: %r" % ln); continue
        stats["equations"] += 1
        try:
            ev = lambda ts: sum(cf * val(v) for cf, v in ts) % p
            lhs = (ev(a) * ev(b)) % p if (a or b) else 0
            if (lhs - ev(c)) % p: bad("unsatisfied", "equation not satisfied by the wire / I-O values: %s" % ln[:200])
        except KeyError as e:
            bad("missing-wire", "equation mentions %s which has no value in the wire / I-O files" % e)
        ctxs = {v.split("/")[0] for ts in (a, b, c) for _, v in ts}
        if len(ctxs) != 1: bad("mixed-contexts", "equation mixes variables of several calls: %s" % ln[:160]); continue
        (cx,) = ctxs
        percall[cx].append(" ".join(t if "/" not in t else t.split("/", 1)[1] for t in toks))
    # public values tied to their wires
    for k, v in vals.items():
        m = re.match(r"(.*)/o_(\d+)$", k)
        if m:
            stats["public_values"] += 1
            link = [ln for ln in eqs if ln.startswith("* = 1 ") and ln.endswith(" -1 " + k)]
            if len(link) != 1: bad("public-value-untied", "I/O value %s has %d linking equations" % (k, len(link))); continue
            w = link[0].split()[3]
            if vals.get(w, None) is None or (vals[w] - v) % p: bad("public-value-differs", "I/O value %s differs from its wire %s" % (k, w))
    # per-function files: every call of a function has exactly the lines of the function's file
    for call, fn in fns.items():
        f = files.get("pysnark_eqs_" + fn)
        if f is None: bad("missing-function-file", "no pysnark_eqs_%s" % fn); continue
        have = [l for l in f.split("\n") if l.strip()]
        want = sorted(percall[call])
        norm = lambda ls: sorted(" ".join(l.split()) for l in ls)
        if norm(have) != norm(want):
            missing = [l for l in norm(want) if l not in norm(have)]
            bad("split-unfaithful", "pysnark_eqs_%s differs from the equations traced for call %s (%d traced lines missing from the file)" % (fn, call, len(missing)), missing=missing[:3])
        stats["calls"] += 1
    # glue: every sub-circuit call is tied to its caller by paired blocks with pairwise equal values over all arguments and results
    sub = [c for c in res["calls"]]
    if len([g for g in glues]) < len(sub): bad("glue-missing", "%d sub-circuit calls but %d [glue] lines" % (len(sub), len(glues)))
    for g in glues:
        c1, b1, c2, b2 = g
        w1, w2 = blocks.get(c1, {}).get(b1), blocks.get(c2, {}).get(b2)
        if w1 is None or w2 is None or len(w1) != len(w2): bad("glue-blocks", "glue %r without two matching blocks" % g); continue
        for x, y in zip(w1, w2):
            if (vals.get(x, 0) - vals.get(y, 1)) % p: bad("glue-values", "glued wires %s and %s carry different values" % (x, y)); break
        stats["glues"] += 1
    for kind, args, rets in sub:
        stats["subcalls"] += 1
    # each call's block lists all of its arguments and results
    callees = [c for c in fns if c != "main"]
    for (kind, args, rets), g in zip(sub, [g for g in glues if True]):
        pass
    return out, stats


def run(tier, seed):
    t0 = time.time()
    rnd = random.Random(seed)
    tr_ok, tr_msg = common.translate()
    props = common.props_check(PID)
    viol = common.proof_violations(PID, tr_ok, tr_msg, props)
    n = 40 if tier == "quick" else 400
    scs = [json.load(open(os.path.join(common.VERIF, "corpus", PID, f))) for f in sorted(os.listdir(os.path.join(common.VERIF, "corpus", PID))) if f.endswith(".json")]
    scs += midprove_scenarios()
    for i in range(n):
        scs.append(gen_scenario(rnd, special=("iszero" if i % 13 == 5 else "poly" if i % 13 == 9 else "perm" if i % 13 == 2 else "perm2" if i % 13 == 11 else "layout" if i % 13 == 7 else "closure" if i % 13 == 4 else "midprove" if i % 13 == 6 else None)))
    from concurrent.futures import ThreadPoolExecutor
    with ThreadPoolExecutor(common.NPROC) as ex:
        results = list(ex.map(run_scenario, scs))
    total = collections.Counter(); nontrivial = set()
    for sc, res in zip(scs, results):
        vs, st = oracle(sc, res)
        viol += vs
        total.update(st)
        if st.get("equations", 0) >= 2: nontrivial.add(json.dumps(sc["steps"]))
    seen = collections.Counter(); kept = []
    for v in viol:
        if v.get("kind") == "oracle":
            seen[v["key"]] += 1
            if seen[v["key"]] > 2: continue
        kept.append(v)
    cov = dict(evaluations=len(scs), distinct_nontrivial=len(nontrivial),
               rule="random scenarios (arithmetic in main, sub-circuit functions sq/madd/pair/nest called several times and nested, negative and 70-bit values, "
                    "a value-dependent function, a function using a comparison) on the real qaptools backend with failing stand-ins for the external binaries; "
                    "prove() runs qapsplit; all files parsed by an independent evaluator of the equation grammar",
               samples=[scs[i] for i in range(min(2, len(scs)))], stats=dict(total), explanation="see rule")
    return common.finish(PID, tier, seed, t0, props, cov, kept,
                         assumptions=["digest (md5 prefix) injective on the equation lists (hypothesis of C12_calls_of_a_function_are_identical)",
                                      "external qaptools binaries absent: nothing after qapsplit is exercised", "random deltav/deltaw/deltay/rnd wires are ignored"])


def replay(payload):
    print(json.dumps(payload, indent=1)[:4000])
    return run("quick", payload.get("seed", 1))
