"""C06 — the constraint system does not depend on the values processed."""
import copy
import random
import tracecheck, matrixcases, arraygen, progs

PID = "C06"
PROFILE = {"p_ignore": 0.0, "p_valid_inputs": 0.85, "guard_inputs": [0, 3], "max_guard_depth": 3,
           "weights": dict(input=0.10, const=0.08, bin=0.42, un=0.06, meth=0.12, ite=0.05, guarded=0.15, ignore=0.0, list=0.02)}


def variants(case, rnd):
    """same program: another valid-ish input vector (other guard value), and an arbitrary one with error checking off"""
    if case.get("matrix", "").startswith("op:"): return matrixcases.sign_variants(case)
    if case.get("array"):
        # other index values, in range and (error checking off) out of range / negative: one constraint system
        v = copy.deepcopy(case); v["ins"] = [rnd.randrange(0, 3) if 0 <= x < 4 else x for x in case["ins"]]
        u = copy.deepcopy(case); u["cfg"] = dict(case["cfg"], ign=1); u["ins"] = [rnd.choice([-1, -2, 5, 1000]) if 0 <= x < 4 else x for x in case["ins"]]
        w_ = copy.deepcopy(case); w_["cfg"] = dict(case["cfg"], ign=1)
        return [v, u, w_]
    n, p = case["cfg"]["n"], case["cfg"]["p"]
    v1 = copy.deepcopy(case)
    v1["ins"] = [1 - case["ins"][0] if case["ins"][0] in (0, 1) else 1] + [rnd.randrange(0, 2 ** max(1, n - 1)) for _ in case["ins"][1:]]
    v1["ins"][3] = case["ins"][3]
    v4 = copy.deepcopy(case)
    v4["ins"][3] = 1 - case["ins"][3] if case["ins"][3] in (0, 1) else 0
    v5 = copy.deepcopy(v1)
    v5["ins"][3] = v4["ins"][3]
    v2 = copy.deepcopy(case)
    v2["cfg"]["ign"] = 1
    pool = [0, 1, -1, 2 ** n, -2 ** n, 2 ** n + 1, p - 1, p, 3, 5, rnd.randrange(-2 ** (n + 1), 2 ** (n + 1))]
    v2["ins"] = [rnd.choice([0, 1])] + [rnd.choice(pool) for _ in case["ins"][1:]]
    v3 = copy.deepcopy(case)
    v3["cfg"]["ign"] = 1
    return [v1, v2, v3, v4, v5]


def oracle(case, rec, group):
    # report once per group (at its first member): all completing runs of one program have the same shape
    if case is not group[0][0]: return []
    done = [(c, r) for c, r in group if r["exn"] is None]
    out = []
    for c, r in done[1:]:
        if r["shape"] != done[0][1]["shape"]:
            which = [nm for a, b, nm in zip(r["shape"], done[0][1]["shape"], ("constraints", "variable kinds/order", "result wires")) if a != b]
            out.append(dict(op="shape", what="two completing runs of one program emit different constraint systems (%s)" % ", ".join(which),
                            case=dict(cfg=c["cfg"], prog=c["prog"], ins=c["ins"], other_cfg=done[0][0]["cfg"], other_ins=done[0][0]["ins"])))
            break
    return out


def post(cov, cases, recs):
    cov["programs"] = len(cases) // 6
    cov["input_vectors_per_program"] = 6
    cov["pairs_both_completing"] = sum(1 for r in recs if r["exn"] is None)


def run(tier, seed):
    # deterministic part: every binary operator x operand kinds (secret int, fixed point, boolean, constants), each on operands
    # of all sign combinations / zero / beyond the bitlength with error checking off: one shape per program
    pending = matrixcases.operator_kinds(kinds=["lc", "fxp", "bool", "int"] if tier == "quick" else None)
    nm = sum(1 + len(matrixcases.sign_variants(c)) for c in pending)
    arnd = random.Random(seed * 13 + 1)
    arrs = [dict(arraygen.gen_case(arnd, [progs.BN, 65537]), array=1) for _ in range(20 if tier == "quick" else 200)]
    pending = pending + arrs; nm += 4 * len(arrs)
    return tracecheck.run(PID, tier, seed, PROFILE, oracle, n_quick=nm + 540, n_thorough=nm + 9000, variants=variants, post=post, mask=1 | 2 | 4,
                          casegen=matrixcases.with_pending(pending, PROFILE),
                          extra_assumptions=["shape = (kinds in allocation order, constraints in order with unordered multiplicands and coefficients mod p, result wires)"])


def replay(payload):
    import json
    print(json.dumps(payload, indent=1)[:3000])
    return run("quick", payload.get("seed", 1))
