"""C08 — guard state is restored on every exit path and nests as a conjunction."""
import copy
import tracecheck, progs, matrixcases

PID = "C08"
PROFILE = {"p_ignore": 0.2, "p_valid_inputs": 0.4, "guard_inputs": [0, 3], "max_guard_depth": 4, "lengths": [4, 6, 8, 10],
           "weights": dict(input=0.10, const=0.06, bin=0.25, un=0.04, meth=0.12, ite=0.02, guarded=0.17, itelazy=0.09, probe=0.09, ignore=0.0, list=0.01, **{"raise": 0.05})}


def variants(case, rnd):
    v = copy.deepcopy(case)
    v["ins"] = [1 - case["ins"][0] if case["ins"][0] in (0, 1) else 1, case["ins"][1], case["ins"][2], rnd.choice([0, 1])]
    return [v]


def oracle(case, rec, group):
    out = []
    none, ign, one = rec["globals"]
    # after the program (completed or aborted by an exception propagating out of guarded regions): initial state again
    if not none or ign != bool(case["cfg"]["ign"]) or not one:
        blk = any(s[0] in ("oif", "owhile", "ofor") for s in case["prog"])
        # an error raised by the block's own exit (merge of the tracked variables) comes AFTER the guard was restored
        at_exit = rec["exn"] == "RuntimeError" and any(t in (rec["msg"] or "") for t in ("branch did not set value", "branch set spurious value", "conditional write to undefined", "if branch set"))
        out.append(dict(op="restore", key="after-%s%s" % ("exception" if rec["exn"] else "return", ("-raised-by-block-exit" if at_exit else "-inside-block-api-region") if blk and rec["exn"] else ""),
                        what="after the outermost guarded region ended (%s) the guard / error-suppression mode / constant ONE are not what they were before" % (rec["exn"] or "normally"),
                        observed=dict(guard_is_None=none, ignore_errors=ign, ONE_is_constant=one), pc=rec.get("exn_pc")))
    # the guard WIRES (not only their values) are a function of the program: two completing runs of one program on
    # different guard values record the same constraint system (a conjunction computed through a value-dependent shortcut is not one)
    if group and case is group[0][0] and not case.get("nomodel"):      # (a refused / aborted entry legitimately depends on the guard value)
        done = [(c, r) for c, r in group if r["exn"] is None]
        for c, r in done[1:]:
            if r["shape"] != done[0][1]["shape"]:
                out.append(dict(op="conjunction", key="shape", what="the constraint system recorded for the nested regions depends on the guard values",
                                case=dict(cfg=c["cfg"], prog=c["prog"], ins=c["ins"], other_ins=done[0][0]["ins"])))
                break
    # inside nested regions the effective guard is the conjunction of the enclosing conditions
    for pc, gval, pign, ctx, one_ok in rec["probes"]:
        if any(cv not in (0, 1) for q, pol, cv in ctx): continue
        want = None
        if ctx:
            want = 1
            for q, pol, cv in ctx: want *= (cv if pol == 1 else 1 - cv)
        if gval != want:
            out.append(dict(op="conjunction", key="guard-value", what="effective guard value %r differs from the conjunction of the enclosing conditions %r" % (gval, want), context=ctx, pc=pc)); break
        wign = bool(case["cfg"]["ign"]) or (want == 0)
        if pign != wign:
            out.append(dict(op="conjunction", key="ignore-flag", what="error-suppression mode %r inside the region, expected %r" % (pign, wign), context=ctx, pc=pc)); break
        if not one_ok:
            out.append(dict(op="conjunction", key="one", what="LinComb.ONE is not the active guard inside the region", context=ctx, pc=pc)); break
    return out


def post(cov, cases, recs):
    cov["probes"] = sum(len(r["probes"]) for r in recs)
    cov["nested_probes"] = sum(1 for r in recs for pr in r["probes"] if len(pr[3]) >= 2)
    cov["runs_aborted_inside_guarded_region"] = sum(1 for r in recs if r["exn"] and r.get("exn_ctx"))
    cov["max_nesting"] = max([len(pr[3]) for r in recs for pr in r["probes"]] + [0])


def aborted_enter_cases():
    """entering a block fails before the region is established (the snapshot of the variables cannot be taken): the caller catches
    the error and carries on -- guard, error mode and ONE must be what they were (top level and inside an active region)"""
    out = []
    for c in (0, 1):
        core = [["const", 1, ["int", 1]], ["bin", 2, "eq", 0, 1], ["bset_uncopyable", 9], ["try", [["oif", 2, [["probe"]], [], None]]], ["probe"]]
        out.append(dict(cfg=dict(p=progs.BN, n=8, res=2, ign=0), prog=[["input", 0, "priv", 0]] + core, ins=[c, 1, 1, 1], nomodel=1))
        out.append(dict(cfg=dict(p=progs.BN, n=8, res=2, ign=0), prog=[["input", 0, "priv", 0], ["input", 3, "priv", 1], ["guarded", 3, core + [["probe"]]], ["probe"]],
                        ins=[c, 1, 1, 1], nomodel=1))
    # a region whose entry is refused (guard value neither 0 nor 1) with the refusal caught by the caller, at top level and
    # inside an active region; and a region left by an exception the caller catches
    for gv in (2, -1):
        inner = [["try", [["guarded", 1, [["probe"]]]]], ["probe"]]
        out.append(dict(cfg=dict(p=progs.BN, n=8, res=2, ign=0), prog=[["input", 0, "priv", 0], ["input", 1, "priv", 1]] + inner, ins=[1, gv, 1, 1], nomodel=1))
        out.append(dict(cfg=dict(p=progs.BN, n=8, res=2, ign=0), prog=[["input", 0, "priv", 0], ["input", 1, "priv", 1], ["guarded", 0, inner + [["probe"]]], ["probe"]],
                        ins=[1, gv, 1, 1], nomodel=1))
    for c in (0, 1):
        for exn in ("ValueError", "KeyboardInterrupt"):
            if exn == "KeyboardInterrupt": continue          # the runner's `try` swallows ordinary exceptions only
            inner = [["try", [["guarded", 1, [["raise", exn]]]]], ["probe"]]
            out.append(dict(cfg=dict(p=progs.BN, n=8, res=2, ign=0), prog=[["input", 0, "priv", 0], ["input", 1, "priv", 1]] + inner, ins=[1, c, 1, 1], nomodel=1))
            out.append(dict(cfg=dict(p=progs.BN, n=8, res=2, ign=0), prog=[["input", 0, "priv", 0], ["input", 1, "priv", 1], ["guarded", 0, inner + [["probe"]]], ["probe"]],
                            ins=[1, c, 1, 1], nomodel=1))
    return out


def run(tier, seed):
    # deterministic part: every assertion / division reached through every kind of region (the error paths of C08), an integer
    # first used inside a region and again after it, and block entries that fail before the region exists
    pending = aborted_enter_cases() + matrixcases.assertion_contexts(tier, ctxs=["g1", "g0", "g1g0", "lazy0", "if1", "g0+plain", "g1+plain"],
                                                                     bin_ctxs=["g0", "g0+plain", "g1+plain"])
    if tier == "quick": pending = pending[:4] + pending[4:][seed % 2::2]      # half of the matrix per run (which half depends on the seed)
    return tracecheck.run(PID, tier, seed, PROFILE, oracle, n_quick=2 * len(pending) + 240, n_thorough=2 * len(pending) + 6000, variants=variants, post=post, mask=1 | 4 | 8,
                          casegen=matrixcases.with_pending(pending, PROFILE))


def replay(payload):
    import json
    print(json.dumps(payload, indent=1)[:3000])
    return run("quick", payload.get("seed", 1))
