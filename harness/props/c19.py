"""C19 — the backend in use is the one the configuration names."""
import ast, collections, json, os, random, re, shutil, subprocess, time
from concurrent.futures import ThreadPoolExecutor
import common

PID = "C19"
MODULUS = {"pysnark.snarkjsbackend": "bn128", "pysnark.zkinterface.backend": "bn128", "pysnark.zkinterface.backendbellman": "bls12-381",
           "pysnark.zkinterface.backendbulletproofs": "curve25519", "pysnark.qaptools.backend": "bn128", "pysnark.nobackend": "toy",
           "pysnark.libsnark.backend": "bn128", "pysnark.libsnark.backendgg": "bn128"}
FIELD = {21888242871839275222246405745257275088548364400416034343698204186575808495617: "bn128",
         52435875175126190479447740508185965837690552500527637822603658699938581184513: "bls12-381",
         7237005577332262213973186563042994240857116359379907606001950938285454250989: "curve25519", 10000: "toy"}


def backends_from_source():
    tree = ast.parse(open(os.path.join(common.REPO, "pysnark", "runtime.py")).read())
    for n in tree.body:
        if isinstance(n, ast.Assign) and getattr(n.targets[0], "id", None) == "backends": return ast.literal_eval(n.value)
    raise RuntimeError("backends not found")


def run_cfg(cfg):
    d = common.scratch("pysnark-verif-sel-")
    try:
        env = common.impl_env({"PYSNARK_KEYDIR": None})
        if cfg.get("libsnark_stub"): env["PYTHONPATH"] = env["PYTHONPATH"] + os.pathsep + os.path.join(common.VERIF, "stubs_libsnark")
        if cfg.get("no_qaptools"): env["QAPTOOLS_BIN"] = os.path.join(d, "nonexistent")
        r = subprocess.run([common.PY, os.path.join(common.VERIF, "harness", "impl", "select_impl.py"), json.dumps(cfg)], cwd=d, env=env,
                           stdout=subprocess.PIPE, stderr=subprocess.PIPE, text=True, timeout=120)
        for ln in r.stdout.split("\n"):
            if ln.startswith("{") and '"in_sys_modules"' in ln:
                try: return json.loads(ln)
                except Exception: pass
        return dict(crash=(r.stdout + r.stderr)[-800:])
    finally:
        shutil.rmtree(d, ignore_errors=True)


def coq_str(s): return '"%s"' % s
def coq_strs(l): return "[" + "; ".join(coq_str(x) for x in l) + "]"


def run(tier, seed):
    t0 = time.time()
    rnd = random.Random(seed)
    tr_ok, tr_msg = common.translate()
    props = common.props_check(PID)
    viol = common.proof_violations(PID, tr_ok, tr_msg, props)
    order = backends_from_source()
    names = [a for a, _ in order]; mods = [b for _, b in order]
    cfgs = []
    envs = [None] + names + ["foo", "", "SNARKJS"]
    block_patterns = [[], ["pysnark.snarkjsbackend"], ["pysnark.zkinterface.backend"], ["flatbuffers"], ["pysnark.snarkjsbackend", "flatbuffers"],
                      ["pysnark.snarkjsbackend", "pysnark.zkinterface.backend", "pysnark.zkinterface.backendbellman", "pysnark.zkinterface.backendbulletproofs"]]
    for e in envs:
        for bl in block_patterns[: (3 if tier == "quick" else len(block_patterns))]:
            for ls in (False, True):
                for nq in (False, True):
                    if tier == "quick" and (ls != nq) and e not in (None, "qaptools", "libsnark"): continue
                    cfgs.append(dict(env=e, preimport=[], blocked=bl, libsnark_stub=ls, no_qaptools=nq))
    pre_sets = [[m] for m in mods] + [["pysnark.snarkjsbackend", "pysnark.nobackend"], ["pysnark.nobackend", "pysnark.zkinterface.backend"],
                                       ["pysnark.zkinterface.backendbulletproofs", "pysnark.snarkjsbackend"], ["pysnark.nobackend", "pysnark.snarkjsbackend"]]
    for ps in pre_sets:
        for e in ([None, "snarkjs", "foo"] if tier == "quick" else envs):
            cfgs.append(dict(env=e, preimport=ps, blocked=[], libsnark_stub=True, no_qaptools=False))
            cfgs.append(dict(env=e, preimport=list(reversed(ps)), blocked=[], libsnark_stub=False, no_qaptools=True))
    with ThreadPoolExecutor(common.NPROC) as ex:
        results = list(ex.map(run_cfg, cfgs))
    stats = collections.Counter()
    rows = []
    for cfg, res in zip(cfgs, results):
        case = dict(cfg)
        def bad(key, what): viol.append(dict(kind="oracle", op="select", key=key, what=what, case=case, observed=res))
        if "crash" in res: bad("crash", "selection run crashed: " + res["crash"][-200:]); continue
        stats["runs"] += 1
        pre = set(res["in_sys_modules"])
        # loadability of each module in this configuration, decided from the configuration itself
        def loadable(m):
            if m in cfg["blocked"]: return False
            if m.startswith("pysnark.zkinterface") and ("flatbuffers" in cfg["blocked"] or "pysnark.zkinterface.backend" in cfg["blocked"]): return False
            if m.startswith("pysnark.libsnark"): return bool(cfg["libsnark_stub"]) and not (m.endswith("backendgg") and "pysnark.libsnark.backend" in cfg["blocked"])
            if m.startswith("pysnark.qaptools"): return not cfg["no_qaptools"]
            return True
        load = [m for m in mods if loadable(m)]
        e = cfg["env"]
        preim = [m for m in mods if m in pre]
        if "exception" in res:
            obs = "ImportFails"
            stats["import-fails"] += 1
        else:
            obs = "Selected"
            stats["selected:" + str(res.get("name"))] += 1
            # every selectable backend offers the complete interface and works
            if res.get("missing_api"): bad("incomplete-interface:%s" % res["module"], "backend %s lacks %s" % (res["module"], res["missing_api"]))
            # the reported name identifies the backend in effect: module of that name, and the field it works in
            want_mod = dict(order).get(res["name"])
            if want_mod != res["module"]: bad("name-module", "backend_name %r but constraints go to module %s" % (res["name"], res["module"]))
            fld = FIELD.get(res.get("modulus"), str(res.get("modulus")))
            if MODULUS.get(want_mod) and fld != MODULUS[want_mod]:
                bad("name-field:%s" % res["name"], "backend_name %r (field %s) but the field in effect is %s (pre-imported: %s)" % (res["name"], MODULUS[want_mod], fld, preim))
            if res.get("inverse_in_reported_field") is False and fld in ("bn128", "bls12-381", "curve25519"):
                bad("field-arithmetic:%s" % res["name"], "backend %r reports the field %s but its fieldinverse does not invert in that field" % (res["name"], fld))
            # a pre-imported variant that configures its base module: the variant is what the user asked for
            variants = [m for m in cfg["preimport"] if m in ("pysnark.zkinterface.backendbellman", "pysnark.zkinterface.backendbulletproofs", "pysnark.libsnark.backendgg")]
            if variants and not res["preimport_errors"] and res["module"] not in cfg["preimport"]:
                bad("preimported-variant-reported-as-base", "pre-imported %s but the backend reported is %s (%s)" % (variants, res["name"], res["module"]))
            # a known name was given and no backend pre-imported: exactly that one
            if not preim and e in names and res["name"] != e: bad("env-ignored", "PYSNARK_BACKEND=%s but %s is in use" % (e, res["name"]))
            if not preim and e is not None and e not in names and not res["unknown_msg"]: bad("unknown-not-reported", "unknown backend name %r was not reported" % e)
        rows.append((preim, e, load, obs, res.get("name"), res.get("module"), bool(res.get("unknown_msg")), res.get("load_errors", [])))
        if obs == "ImportFails" and not (e in names and not loadable(dict(order)[e]) and not preim):
            bad("unexpected-failure", "importing pysnark.runtime failed: %s" % res["exception"][:160])
    # decision model vs observation
    def row_v(r):
        preim, e, load, obs, name, mod, unk, errs = r
        want = "ImportFails_" if obs == "ImportFails" else 'Selected %s %s %s %s' % (coq_str(name), coq_str(mod), "true" if unk else "false", coq_strs(errs))
        return "(%s, %s, %s, %s)" % (coq_strs(preim), "None" if e is None else "(Some %s)" % coq_str(e), coq_strs(load), "None" if obs == "ImportFails" else "(Some (%s))" % want)
    body = ";\n".join(row_v(r) for r in rows)
    v = ("From Coq Require Import ZArith List Bool String.\nFrom PySnark Require Import Generated.\nFrom PySnark.Model Require Import Util Select.\nImport ListNotations.\nOpen Scope string_scope.\n"
         "Definition mem (l : list string) (x : string) := existsb (String.eqb x) l.\n"
         "Definition strl_eqb := list_eqb String.eqb.\n"
         "Definition rows : list (list string * option string * list string * option outcome) := [\n%s].\n"
         "Definition ok (r : list string * option string * list string * option outcome) : bool :=\n"
         "  let '(pre, e, load, obs) := r in\n  match select backends (mem pre) (mem load) e, obs with\n"
         "  | Selected n m u errs, Some (Selected n' m' u' errs') => String.eqb n n' && String.eqb m m' && Bool.eqb u u' && strl_eqb errs errs'\n"
         "  | ImportFails _, None => true\n  | _, _ => false end.\n"
         "Eval vm_compute in (bad_idx ok rows).\n" % body)
    okc, outp = common.coq_eval(v)
    flat = " ".join(outp.split())
    m = re.search(r"= \[([^\]]*)\] : list Z", flat)
    ncorr = 0
    if not okc or not m:
        viol.append(dict(kind="correspondence", concrete=False, what="in-Coq evaluation of the selection model failed", detail=outp[-600:]))
    else:
        badi = [int(x.strip().strip("()")) for x in m.group(1).split(";") if x.strip()]
        ncorr = len(rows) - len(badi)
        for b in badi[:4]:
            viol.append(dict(kind="correspondence", concrete=False, what="selection model and pysnark.runtime disagree", detail=json.dumps(dict(row=rows[b]))[:900]))
    seen = collections.Counter(); kept = []
    for x in viol:
        if x.get("kind") == "oracle":
            seen[x["key"]] += 1
            if seen[x["key"]] > 2: continue
        kept.append(x)
    cov = dict(evaluations=len(cfgs), distinct_nontrivial=len({json.dumps(c, sort_keys=True) for c in cfgs}),
               rule="one subprocess per configuration: PYSNARK_BACKEND in {unset, every known name, unknown names}, pre-imported backend modules (each single one, pairs, both orders), "
                    "loadability patterns (sys.meta_path blocker, stub libsnark / flatbuffers present or not, qaptools binaries present or not); observed: backend_name, module, modulus, messages, "
                    "interface completeness, a small computation; compared with the Coq selection model over the `backends` list translated from the source",
               samples=[dict(cfg=c, observed={k: r.get(k) for k in ("name", "module", "unknown_msg", "load_errors", "exception")}) for c, r in list(zip(cfgs, results))[:3]],
               stats=dict(stats), traces_validated_against_impl=ncorr)
    return common.finish(PID, tier, seed, t0, props, cov, kept,
                         assumptions=["import semantics (sys.modules, side effects of importing a backend module) observed, not proved", "libsnark / flatbuffers / qaptools are stand-ins"])


def replay(payload):
    print(json.dumps(payload, indent=1)[:4000])
    return run("quick", payload.get("seed", 1))
