"""C18 — proof artefacts are emitted at exit only for successful runs, and completely."""
import collections, json, os, random, re, shutil, subprocess, time
from concurrent.futures import ThreadPoolExecutor
import common, decoders

PID = "C18"
MODES = [
    ("falloff", "pass", "R [] FallOff"),
    ("sys.exit()", "sys.exit()", "R [] (SysExit ANone)"), ("sys.exit(None)", "sys.exit(None)", "R [] (SysExit ANone)"), ("sys.exit(0)", "sys.exit(0)", "R [] (SysExit (AInt 0))"),
    ("sys.exit(1)", "sys.exit(1)", "R [] (SysExit (AInt 1))"), ("sys.exit(3)", "sys.exit(3)", "R [] (SysExit (AInt 3))"), ("sys.exit('msg')", "sys.exit('failed')", "R [] (SysExit AStr)"),
    ("sys.exit(False)", "sys.exit(False)", "R [] (SysExit AFalse)"), ("sys.exit(True)", "sys.exit(True)", "R [] (SysExit ATrue)"),
    ("sys.exit('')", "sys.exit('')", "R [] (SysExit AEmptyStr)"), ("sys.exit([])", "sys.exit([])", "R [] (SysExit AEmptyList)"),
    ("raise SystemExit(0)", "raise SystemExit(0)", "R [] (RaiseSystemExit (AInt 0))"), ("raise SystemExit()", "raise SystemExit()", "R [] (RaiseSystemExit ANone)"),
    ("raise SystemExit(1)", "raise SystemExit(1)", "R [] (RaiseSystemExit (AInt 1))"), ("raise SystemExit('msg')", "raise SystemExit('failed')", "R [] (RaiseSystemExit AStr)"),
    ("exit(0)", "exit(0)", "R [] (BuiltinExit (AInt 0))"), ("exit(2)", "exit(2)", "R [] (BuiltinExit (AInt 2))"), ("quit(1)", "quit(1)", "R [] (BuiltinExit (AInt 1))"),
    ("uncaught ValueError", "raise ValueError('boom')", "R [] Uncaught"), ("uncaught AssertionError from pysnark", "PrivVal(1).assert_zero()", "R [] Uncaught"),
    ("KeyboardInterrupt", "raise KeyboardInterrupt()", "R [] KbdInterrupt"),
    ("uncaught AssertionError from pysnark inside a guarded function", "rt.guarded(PrivVal(1))(lambda: PrivVal(1).assert_zero())()", "R [] Uncaught"),
    ("uncaught ValueError inside a guarded function", "rt.guarded(PrivVal(1))(lambda: (_ for _ in ()).throw(ValueError('boom')))()", "R [] Uncaught"),
    ("KeyboardInterrupt inside a guarded function", "rt.guarded(PrivVal(0))(lambda: (_ for _ in ()).throw(KeyboardInterrupt()))()", "R [] KbdInterrupt"),
    ("os._exit(0)", "sys.stdout.flush(); sys.stderr.flush(); os._exit(0)", "R [] (OsExit 0)"), ("os._exit(1)", "sys.stdout.flush(); sys.stderr.flush(); os._exit(1)", "R [] (OsExit 1)"),
    # histories: a sys.exit whose SystemExit is swallowed or replaced, then another way of ending
    ("sys.exit(0) swallowed, then uncaught ValueError", "try: sys.exit(0)\n    except SystemExit: pass\n    raise ValueError('boom')", "R [AInt 0] Uncaught"),
    ("sys.exit(0) inside try whose finally raises", "try: sys.exit(0)\n    finally: raise ValueError('cleanup failed')", "R [AInt 0] Uncaught"),
    ("sys.exit() swallowed, then KeyboardInterrupt", "try: sys.exit()\n    except SystemExit: pass\n    raise KeyboardInterrupt()", "R [ANone] KbdInterrupt"),
    ("sys.exit(0) swallowed, then falloff", "try: sys.exit(0)\n    except SystemExit: pass", "R [AInt 0] FallOff"),
    ("sys.exit(0) swallowed, then sys.exit(3)", "try: sys.exit(0)\n    except SystemExit: pass\n    sys.exit(3)", "R [AInt 0] (SysExit (AInt 3))"),
    ("sys.exit(2) swallowed, then uncaught ValueError", "try: sys.exit(2)\n    except SystemExit: pass\n    raise ValueError('boom')", "R [AInt 2] Uncaught"),
    ("sys.exit(0) swallowed twice, then sys.exit(0)", "try: sys.exit(0)\n    except SystemExit: pass\n    try: sys.exit(None)\n    except SystemExit: pass\n    sys.exit(0)", "R [AInt 0; ANone] (SysExit (AInt 0))"),
]
BACKENDS = {"snarkjs": ["witness.wtns", "circuit.r1cs"], "zkinterface": ["computation.zkif", "circuit.zkif"], "qaptools": ["pysnark_schedule"]}
SCRIPT = '''import sys, os
import pysnark.runtime as rt
from pysnark.runtime import PrivVal, PubVal
rt.autoprove = %(autoprove)s
_orig = rt.backend.prove
def _counted():
    with open("prove_calls", "a") as f: f.write("x")
    return _orig()
rt.backend.prove = _counted
%(pre)s
def term():
    %(action)s
if %(pos)d == 0: term()
x = PrivVal(3); y = x * x
if %(pos)d == 1: term()
(y + 1).val()
z = (x < y)
if %(pos)d == 2: term()
'''
NCONS_AT = {0: 0, 1: 1, 2: None}        # constraints emitted before the termination point (None = all)


def run_one(job):
    mode, action, coqmode, pos, backend, autoprove = job[:6]
    pre = "rt.ignore_errors(True)" if (len(job) > 6 and job[6]) else "pass"
    d = common.scratch("pysnark-verif-exit-")
    try:
        open(os.path.join(d, "s.py"), "w").write(SCRIPT % dict(autoprove=autoprove, action=action, pos=pos, pre=pre))
        env = common.impl_env({"PYSNARK_BACKEND": backend, "PYSNARK_KEYDIR": None, "PYSNARK_PROOFDIR": None})
        r = subprocess.run([common.PY, "s.py"], cwd=d, env=env, stdout=subprocess.PIPE, stderr=subprocess.PIPE, text=True, timeout=120)
        calls = len(open(os.path.join(d, "prove_calls")).read()) if os.path.exists(os.path.join(d, "prove_calls")) else 0
        arts = {f: os.path.exists(os.path.join(d, f)) for f in BACKENDS[backend]}
        ncons = None
        if backend == "snarkjs" and arts["circuit.r1cs"]:
            try: ncons = len(decoders.decode_r1cs(open(os.path.join(d, "circuit.r1cs"), "rb").read())["cons"])
            except Exception as e: ncons = "undecodable: %s" % e
        status = r.returncode
        return dict(status=status, calls=calls, artefacts=arts, ncons=ncons, skipped_msg="skipping proof generation" in r.stderr,
                    hook_traceback=("Error in atexit" in r.stderr or "Exception ignored in atexit" in r.stderr), stderr_tail=r.stderr[-300:])
    finally:
        shutil.rmtree(d, ignore_errors=True)


EARLY = '''import sys, os, json
import pysnark.runtime as rt
from pysnark.runtime import PrivVal, PubVal
x = PrivVal(3); y = x * x
(y + 1).val()
rt.backend.prove()                      # an explicit prove() in the middle of the script
%(tail)s
import pysnark.snarkjsbackend as be
json.dump(dict(npub=len(be.pubvals), npriv=len(be.privvals), ncons=len(be.constraints)), open("trace.json", "w"))
'''
EARLY_TAILS = [("nothing", "pass"), ("new-public-value", "a = PubVal(7)"), ("new-values-linear-ops", "a = PubVal(7); b = PrivVal(5); c = a + b * 3"),
               ("new-constraint", "b = PrivVal(5); c = b * y"), ("files-removed", "os.remove('witness.wtns'); os.remove('circuit.r1cs')"),
               ("new-values-then-exit0", "a = PubVal(7); b = PrivVal(2); sys.exit(0)")]


def run_early(tail):
    """a script that calls prove() itself before its end: the artefacts left at exit describe the WHOLE trace"""
    d = common.scratch("pysnark-verif-exit-")
    try:
        open(os.path.join(d, "s.py"), "w").write(EARLY % dict(tail=tail[1]))
        env = common.impl_env({"PYSNARK_BACKEND": "snarkjs"})
        r = subprocess.run([common.PY, "s.py"], cwd=d, env=env, stdout=subprocess.PIPE, stderr=subprocess.PIPE, text=True, timeout=120)
        out = dict(status=r.returncode, tail=tail[0])
        tp = os.path.join(d, "trace.json")
        if tail[0].endswith("exit0"): out["trace"] = dict(npub=2, npriv=3, ncons=2)      # the script ends before writing trace.json
        elif os.path.exists(tp): out["trace"] = json.load(open(tp))
        try:
            rr = decoders.decode_r1cs(open(os.path.join(d, "circuit.r1cs"), "rb").read())
            pr, vals = decoders.decode_wtns(open(os.path.join(d, "witness.wtns"), "rb").read())
            out["file"] = dict(nwires=rr["nwires"], npubout=rr["npubout"], ncons=len(rr["cons"]), nvals=len(vals))
        except Exception as e:
            out["file_error"] = "%s: %s" % (type(e).__name__, str(e)[:150])
        return out
    finally:
        shutil.rmtree(d, ignore_errors=True)


def early_prove_violations(stats):
    viol = []
    with ThreadPoolExecutor(common.NPROC) as ex:
        res = list(ex.map(run_early, EARLY_TAILS))
    for r in res:
        stats["early-prove-runs"] += 1
        case = dict(mode="explicit prove() mid-script, then: " + r["tail"], backend="snarkjs", autoprove=True)
        def bad(key, what): viol.append(dict(kind="oracle", op="exit", key=key, what=what, case=case, observed=r))
        if r["status"] != 0: bad("early-prove:status", "script with an explicit prove() ended with status %d" % r["status"]); continue
        if "file_error" in r or "trace" not in r: bad("early-prove:no-artefacts", "after a successful script with an explicit prove() the artefacts are missing or undecodable: %s" % r.get("file_error")); continue
        t, f_ = r["trace"], r["file"]
        want = dict(nwires=1 + t["npub"] + t["npriv"], npubout=t["npub"], ncons=t["ncons"], nvals=1 + t["npub"] + t["npriv"])
        if f_ != want: bad("early-prove:incomplete-trace", "the artefacts left at exit describe %r, the trace at the end of the script is %r" % (f_, want))
    return viol


def run(tier, seed):
    t0 = time.time()
    tr_ok, tr_msg = common.translate()
    props = common.props_check(PID)
    viol = common.proof_violations(PID, tr_ok, tr_msg, props)
    jobs = []
    backends = list(BACKENDS)
    for mi, (mode, action, coqmode) in enumerate(MODES):
        for pos in (0, 1, 2):
            for bi, backend in enumerate(backends):
                for autoprove in (True, False):
                    pass
                    pass
                    jobs.append((mode, action, coqmode, pos, backend, autoprove))
                    # the same with the run-time checks switched off by the script (ignore_errors(True)): what counts as a failed
                    # run does not depend on that mode
                    if backend == "snarkjs" and pos != 1 and "from pysnark" not in mode: jobs.append((mode + " [ignore_errors on]", action, coqmode, pos, backend, autoprove, True))
    with ThreadPoolExecutor(common.NPROC) as ex:
        results = list(ex.map(run_one, jobs))
    full_ncons = None
    for job, res in zip(jobs, results):
        if job[0] == "falloff" and job[4] == "snarkjs" and job[5] and isinstance(res["ncons"], int): full_ncons = res["ncons"]
    stats = collections.Counter()
    rows = []
    for job, res in zip(jobs, results):
        mode, action, coqmode, pos, backend, autoprove = job[:6]
        case_mode = mode
        mode = mode.replace(" [ignore_errors on]", "")
        case = dict(mode=case_mode, position=pos, backend=backend, autoprove=autoprove, action=action)
        produced = all(res["artefacts"].values())
        partial = any(res["artefacts"].values()) and not produced
        stats["runs"] += 1
        stats["status=%s" % res["status"]] += 1
        ok_status = res["status"] == 0
        key_mode = mode.split("(")[0].strip().replace(" ", "-")
        def bad(key, what): viol.append(dict(kind="oracle", op="exit", key=key, what=what, case=case, observed=res))
        if partial: bad("partial-artefacts", "only some artefacts were written")
        if autoprove:
            if produced and not ok_status: bad("artefacts-after-nonzero-status:%s" % key_mode, "script ended with status %d through %s, yet proof artefacts were produced" % (res["status"], mode))
            if ok_status and not produced and not mode.startswith("os._exit"): bad("no-artefacts-after-success:%s" % key_mode, "script ended successfully through %s but no artefacts were produced" % mode)
            if produced and res["calls"] != 1: bad("prove-call-count", "the proving step ran %d times" % res["calls"])
            if produced and backend == "snarkjs" and isinstance(res["ncons"], int):
                want = full_ncons if (mode == "falloff" or mode.endswith("then falloff")) else {0: 0, 1: 1}.get(pos, full_ncons)
                if want is not None and res["ncons"] != want: bad("incomplete-trace", "circuit.r1cs holds %d constraints, %d were traced before the script ended" % (res["ncons"], want))
            if produced and isinstance(res["ncons"], str): bad("undecodable", "artefact could not be decoded: " + res["ncons"])
        else:
            if produced or res["calls"]: bad("artefacts-with-autoprove-off", "automatic proving is off but artefacts were produced")
            if res["hook_traceback"]: bad("exit-hook-failed", "the exit hook raised with automatic proving off: " + res["stderr_tail"][-160:])
        rows.append((coqmode, autoprove, res["calls"] >= 1, res["status"]))
    viol += early_prove_violations(stats)
    # the decision model reproduces what was observed (prove ran / status) for every run
    body = "; ".join("(%s, %s, %s, %d)" % (m, "true" if a else "false", "true" if c else "false", s if s >= 0 else 128 - s) for m, a, c, s in rows)
    v = ("From Coq Require Import ZArith List Bool.\nFrom PySnark.Model Require Import Util ExitHook.\nImport ListNotations.\nOpen Scope Z_scope.\n"
         "Definition rows : list (hrun * bool * bool * Z) := [%s].\n"
         "Definition ok (r : hrun * bool * bool * Z) := let '(m, a, c, s) := r in Bool.eqb (h_prove_runs a m) c && (h_status m =? s).\n"
         "Eval vm_compute in (bad_idx ok rows).\n" % body)
    okc, outp = common.coq_eval(v)
    flat = " ".join(outp.split())
    m = re.search(r"= \[([^\]]*)\] : list Z", flat)
    ncorr = 0
    if not okc or not m:
        viol.append(dict(kind="correspondence", concrete=False, what="in-Coq evaluation of the exit-hook model failed", detail=outp[-500:]))
    else:
        badi = [int(x.strip().strip("()")) for x in m.group(1).split(";") if x.strip()]
        ncorr = len(rows) - len(badi)
        for b in badi[:4]:
            job, res = jobs[b], results[b]
            viol.append(dict(kind="correspondence", concrete=False, what="exit-hook decision model and the interpreter disagree for %s (autoprove=%s, %s): observed prove_calls=%d status=%d" % (job[0], job[5], job[4], res["calls"], res["status"]),
                             detail=res["stderr_tail"]))
    seen = collections.Counter(); kept = []
    for x in viol:
        if x.get("kind") == "oracle":
            seen[x["key"]] += 1
            if seen[x["key"]] > 2: continue
        kept.append(x)
    cov = dict(evaluations=len(jobs), distinct_nontrivial=len({(j[0], j[3], j[4], j[5]) for j in jobs}),
               rule="one fresh interpreter per (termination mode, statement position in {before, between, after the constraints}, backend in {snarkjs, zkinterface+stub, qaptools+stubs}, autoprove); "
                    "observed: exit status, number of calls of the proving step, artefact files, decoded constraint count, stderr; compared with the Coq decision model",
               samples=[dict(mode=j[0], position=j[3], backend=j[4], autoprove=j[5], observed={k: r[k] for k in ("status", "calls", "artefacts", "ncons")}) for j, r in list(zip(jobs, results))[:3]],
               stats=dict(stats), traces_validated_against_impl=ncorr, exhaustive=(tier == "thorough"), modes=[m[0] for m in MODES])
    return common.finish(PID, tier, seed, t0, props, cov, kept,
                         assumptions=["CPython 3.12 shutdown behaviour is observed, not proved (the table in Model/ExitHook.v)", "stub flatbuffers / failing qaptools stand-ins make two of the three backends loadable"])


def replay(payload):
    print(json.dumps(payload, indent=1)[:4000])
    return run("quick", payload.get("seed", 1))
