"""C11 — zkinterface files encode the traced circuit; the verifier file has no witness."""
import collections, copy, json, os, random, re, time
import common, progs, fbreader
from common import zlit

PID = "C11"
FIELDS = [("zkinterface", progs.BN), ("zkifbellman", progs.BLS), ("zkifbulletproofs", progs.C25519)]
HDR = ("From Coq Require Import ZArith List Bool.\nFrom PySnark.Model Require Import Util Lc Zkif.\nImport ListNotations.\nOpen Scope Z_scope.\nOpen Scope bool_scope.\n"
       "Definition zl := list_eqb Z.eqb.\nDefinition zzl := list_eqb zz_eqb.\n"
       "Definition con_eqb (a b : list (Z*Z) * list (Z*Z) * list (Z*Z)) := zzl (fst (fst a)) (fst (fst b)) && zzl (snd (fst a)) (snd (fst b)) && zzl (snd a) (snd b).\n"
       "Definition msg_eqb (a b : zmsg) : bool := match a, b with\n"
       " | ZHeader i v f m, ZHeader i' v' f' m' => zl i i' && zl v v' && (f =? f') && (m =? m')\n"
       " | ZWitness i v, ZWitness i' v' => zl i i' && zl v v'\n | ZConstraints c, ZConstraints c' => list_eqb con_eqb c c'\n | _, _ => false end.\n")


def zl(xs): return "[" + "; ".join(zlit(x) for x in xs) + "]"
def pl(items): return "[" + "; ".join("(%s, %s)" % (zlit(a), zlit(b)) for a, b in items) + "]"


def msg_v(m):
    if m["type"] == "CircuitHeader": return "ZHeader %s %s %s %s" % (zl(m["instance_ids"]), zl(m["instance_values"]), zlit(m["free_variable_id"]), zlit(m["field_maximum"] if m["field_maximum"] is not None else -1))
    if m["type"] == "Witness": return "ZWitness %s %s" % (zl(m["assigned_ids"]), zl(m["assigned_values"]))
    if m["type"] == "ConstraintSystem": return "ZConstraints [%s]" % "; ".join("(%s, %s, %s)" % (pl(a), pl(b), pl(c)) for a, b, c in m["constraints"])
    return "ZConstraints []"


def lc_lit(items): return "[" + "; ".join("(%s, %s)" % (zlit(k), zlit(c)) for k, c in items) + "]"


def case_v(i, p, tr, comp, circ):
    cons = "[" + ";\n ".join("(%s, %s, %s)" % (lc_lit(a), lc_lit(b), lc_lit(c)) for a, b, c in tr["cons"]) + "]"
    args = "%d %s %s %s" % (p, zl(tr["pubs"]), zl(tr["privs"]), cons)
    return ("Definition ok%d : Z := (if list_eqb msg_eqb (computation_file %s) [%s] then 0 else 1) + (if list_eqb msg_eqb (circuit_file %s) [%s] then 0 else 2).\n"
            % (i, args, "; ".join(msg_v(m) for m in comp), args, "; ".join(msg_v(m) for m in circ)))


def oracle(case, rec, p, name):
    out = []
    tr = rec["trace"]; files = rec["files"]
    def bad(what, **kw): out.append(dict(kind="oracle", op="file", key=what.split(":")[0], backend=name, what=what, case=dict(cfg=case["cfg"], prog=case["prog"], ins=case["ins"], backend=name), **kw))
    try:
        comp = fbreader.read_messages(bytes.fromhex(files["computation.zkif"]))
        circ = fbreader.read_messages(bytes.fromhex(files["circuit.zkif"]))
    except fbreader.Bad as e:
        bad("malformed: %s" % e); return out, None, None
    if [m["type"] for m in comp] != ["CircuitHeader", "Witness", "ConstraintSystem"]: bad("sequence: computation.zkif holds %s" % [m["type"] for m in comp])
    if [m["type"] for m in circ] != ["CircuitHeader", "ConstraintSystem"]: bad("sequence: circuit.zkif holds %s" % [m["type"] for m in circ])
    if any(m["type"] == "Witness" for m in circ): bad("witness-in-circuit-file: the verifier file contains a Witness message")
    n, m_ = len(tr["pubs"]), len(tr["privs"])
    BL = (p.bit_length() + 7) // 8
    for f, ms in (("computation.zkif", comp), ("circuit.zkif", circ)):
        h = ms[0]
        if h["type"] != "CircuitHeader": continue
        if h["instance_ids"] != list(range(1, n + 1)): bad("header: instance variable ids %r, expected 1..%d" % (h["instance_ids"][:5], n))
        if h["instance_values"] != [v % p for v in tr["pubs"]]: bad("header: instance values differ from the traced public values (canonical)")
        if n and h["width"] != BL: bad("header: values are %d bytes wide, the field needs %d" % (h["width"], BL))
        if h["free_variable_id"] != n + m_ + 1: bad("header: free_variable_id %d, expected %d" % (h["free_variable_id"], n + m_ + 1))
        if h["field_maximum"] != p - 1: bad("header: field_maximum is not p-1")
    w = [x for x in comp if x["type"] == "Witness"]
    if w:
        if w[0]["assigned_ids"] != list(range(n + 1, n + m_ + 1)): bad("witness: assigned ids are not exactly the private variables")
        if w[0]["assigned_values"] != [v % p for v in tr["privs"]]: bad("witness: assigned values differ from the traced private values (canonical)")
    wire = lambda k: k if k >= 0 else n - k
    want = [[[(wire(k), c % p) for k, c in lc] for lc in con] for con in tr["cons"]]
    for f, ms in (("computation.zkif", comp), ("circuit.zkif", circ)):
        cs = [x for x in ms if x["type"] == "ConstraintSystem"]
        if cs and [[[tuple(t) for t in lc] for lc in con] for con in cs[0]["constraints"]] != want: bad("constraints: %s decodes to another constraint system than the traced one" % f)
    if rec["exn"] is None and not case["cfg"]["ign"] and w and not out:
        a = {0: 1}
        for i, v in zip(comp[0]["instance_ids"], comp[0]["instance_values"]): a[i] = v
        for i, v in zip(w[0]["assigned_ids"], w[0]["assigned_values"]): a[i] = v
        ev = lambda lc: sum(c * a[k] for k, c in lc) % p
        for i, (x, y, z) in enumerate(comp[2]["constraints"]):
            if (ev(x) * ev(y) - ev(z)) % p: bad("satisfaction: decoded assignment violates decoded constraint %d" % i); break
    return out, comp, circ


def run(tier, seed):
    t0 = time.time()
    rnd = random.Random(seed)
    tr_ok, tr_msg = common.translate()
    props = common.props_check(PID)
    viol = common.proof_violations(PID, tr_ok, tr_msg, props)
    per = 14 if tier == "quick" else 150
    files_v = []; meta = []
    stats = collections.Counter(); nontrivial = set()
    samples = []
    for name, p in FIELDS:
        profile = {"moduli": [p], "bitlengths": [2, 3, 4], "p_ignore": 0.1, "lengths": [2, 3, 4, 6], "p_valid_inputs": 0.5,
                   "ops": ["add", "sub", "mul", "eq", "lt", "truediv", "and", "ne"], "weights": dict(input=0.2, const=0.1, bin=0.5, un=0.05, meth=0.12, ite=0.03)}
        gen = progs.Gen(rnd, profile)
        cases = []
        for _ in range(per):
            c = gen.case()
            if rnd.random() < 0.3:
                c["ins"] = [c["ins"][0]] + [rnd.choice([-1, p, p + 3, 2 ** 300, -2 ** 260, 3, p - 1]) for _ in c["ins"][1:]]
                c["cfg"]["ign"] = 1
            cases.append(c)
            # same program and public inputs, other private values: the circuit-only file must be byte-identical
            v = copy.deepcopy(c); v["twin_of"] = len(cases) - 1
            pub_ix = set()
            def walk(pr):
                for s in pr:
                    if s[0] == "input" and s[2].startswith("pub"): pub_ix.add(s[3])
                    if s[0] == "guarded": walk(s[2])
            walk(c["prog"])
            v["ins"] = [x if i in pub_ix else x + 1 for i, x in enumerate(c["ins"])]
            cases.append(v)
        # deterministic cases: coefficients and values whose integer magnitude reaches or exceeds the field size, and negative ones
        # (scaling by p+5 / -p-2, chained constant divisions: products of field inverses), on small valid inputs
        for extra in (
            [["input", 0, "priv", 1], ["input", 1, "pub", 2], ["const", 2, ["int", p + 5]], ["bin", 3, "mul", 0, 2], ["const", 4, ["int", -p - 2]], ["bin", 5, "mul", 1, 4],
             ["bin", 6, "mul", 3, 5], ["bin", 7, "add", 6, 3], ["meth", 8, "val", None, 7, []]],
            [["input", 0, "priv", 1], ["input", 1, "priv", 2], ["const", 2, ["int", 3]], ["bin", 3, "truediv", 0, 2], ["const", 4, ["int", 5]], ["bin", 5, "truediv", 3, 4],
             ["bin", 6, "mul", 5, 1], ["const", 7, ["int", -7]], ["bin", 8, "truediv", 1, 7], ["bin", 9, "mul", 8, 5], ["meth", 10, "val", None, 9, []]],
            [["input", 0, "priv", 1], ["input", 1, "pub", 2], ["bin", 2, "mul", 0, 0], ["bin", 3, "mul", 2, 2], ["bin", 4, "mul", 3, 3], ["bin", 5, "mul", 4, 1], ["un", 6, "neg", 5], ["bin", 7, "mul", 6, 6]]):
            for ins_ in ([1, 30, 105, 1], [1, 2 ** 130 + 1, -(2 ** 129), 1]):
                cases.append(dict(cfg=dict(p=p, n=8, res=2, ign=1 if abs(ins_[1]) > 1000 else 0), prog=extra, ins=ins_))
        import matrixcases
        cases += matrixcases.midprove_cases(p)[:4] + matrixcases.cancellation_cases(p)
        for i, c in enumerate(cases): c.update(id=i, prove=(2 if (i % 2 or "prove_at" in c) else 1), full=1)
        try:
            recs = progs.run_impl_cases(cases, full=True, real_backend=name)
        except Exception as e:
            viol.append(dict(kind="harness", concrete=False, what="implementation runner failed for %s" % name, detail=str(e)[-1500:])); continue
        for i, (c, r) in enumerate(zip(cases, recs)):
            if "files" not in r or "circuit.zkif" not in r.get("files", {}):
                viol.append(dict(kind="oracle", op="file", key="prove-failed", backend=name, what="prove() did not write both files: %s" % r.get("prove_error"), case=dict(cfg=c["cfg"], prog=c["prog"], ins=c["ins"], backend=name)))
                continue
            stats["files:" + name] += 1
            vs, comp, circ = oracle(c, r, p, name)
            viol += vs
            if comp is None: continue
            nontrivial.add(r["files"]["computation.zkif"][-400:])
            if len(samples) < 2: samples.append(dict(backend=name, cfg=c["cfg"], prog=c["prog"], ins=c["ins"], decoded=[{k: (v if not isinstance(v, list) else v[:3]) for k, v in m.items()} for m in comp]))
            if len(r["trace"]["cons"]) <= 25:
                files_v.append((name, i, case_v(len(meta), p, r["trace"], comp, circ))); meta.append((name, c))
            if "twin_of" in c:
                r0 = recs[c["twin_of"]]
                if "files" in r0 and r0["exn"] is None and r["exn"] is None and r0["trace"]["pubs"] == r["trace"]["pubs"] and len(r0["trace"]["privs"]) == len(r["trace"]["privs"]):
                    stats["circuit_file_pairs"] += 1
                    if r0["files"]["circuit.zkif"] != r["files"]["circuit.zkif"]:
                        viol.append(dict(kind="oracle", op="file", key="circuit-file-depends-on-private-values", backend=name,
                                         what="circuit.zkif differs between two runs with equal public values and different private values",
                                         case=dict(cfg=c["cfg"], prog=c["prog"], ins=c["ins"], other_ins=cases[c["twin_of"]]["ins"], backend=name)))
    # correspondence with the Coq message-level model
    shard = 10
    files = []
    for s in range(0, len(files_v), shard):
        part = files_v[s:s + shard]
        files.append(("c11_%d" % (s // shard), HDR + "".join(x[2] for x in part) + "Eval vm_compute in [%s].\n" % "; ".join("ok%d" % (s + j) for j in range(len(part)))))
    ncorr = mism = 0
    if os.path.exists(os.path.join(common.COQ, "theories", "Model", "Zkif.vo")):
        for (nm, ok, outp), s in zip(common.coq_eval_many(files), range(0, len(files_v), shard)):
            flat = " ".join(outp.split())
            m = re.search(r"= \[([^\]]*)\] : list Z", flat)
            if not ok or not m:
                viol.append(dict(kind="correspondence", concrete=False, what="in-Coq evaluation of %s failed" % nm, detail=outp[-600:])); continue
            for j, v in enumerate(int(x.strip()) for x in m.group(1).split(";") if x.strip()):
                ncorr += 1
                if v:
                    mism += 1
                    name, c = meta[s + j]
                    viol.append(dict(kind="correspondence", concrete=False, what="message-level model and decoded %s output disagree (%s)" % (name, "computation.zkif" if v & 1 else "circuit.zkif"),
                                     detail=json.dumps(dict(cfg=c["cfg"], prog=c["prog"], ins=c["ins"]))[:1500]))
    else:
        viol.append(dict(kind="correspondence", concrete=False, what="model not built"))
    seen = collections.Counter(); kept = []
    for v in viol:
        if v.get("kind") == "oracle":
            seen[v["key"]] += 1
            if seen[v["key"]] > 2: continue
        kept.append(v)
    cov = dict(evaluations=sum(v for k, v in stats.items() if k.startswith("files:")), distinct_nontrivial=len(nontrivial),
               rule="generated programs on the three real zkinterface backend modules (bn128, bls12-381, curve25519 fields) with the stub flatbuffers Builder; prove() called; "
                    "both files decoded by an independent FlatBuffers reader written from zkinterface.fbs; decoded messages compared with the traced system and with the Coq message-level model; "
                    "pairs of runs with equal public / different private values compare circuit.zkif byte for byte",
               samples=samples, stats=dict(stats), traces_validated_against_impl=ncorr - mism, message_mismatches=mism)
    return common.finish(PID, tier, seed, t0, props, cov, kept,
                         assumptions=["flatbuffers is absent: /verif/stubs/flatbuffers stands in for the library (trusted); byte-level well-formedness is what the independent reader accepts",
                                      "determinism of the builder (same calls, same bytes)"])


def replay(payload):
    print(json.dumps(payload, indent=1)[:4000])
    return run("quick", payload.get("seed", 1))
