"""C13 — backend linear combinations: faithful immutable algebra over a prime field."""
import json, os, random, time
import common
from common import zlit

PID = "C13"
R_BN128 = 21888242871839275222246405745257275088548364400416034343698204186575808495617
R_BLS = 52435875175126190479447740508185965837690552500527637822603658699938581184513
L_25519 = 2**252 + 27742317777372353535851937790883648493
SPEC = {"snarkjs": R_BN128, "zkinterface": R_BN128, "qaptools": R_BN128, "zkifbellman": R_BLS, "zkifbulletproofs": L_25519}
GEN_NAME = {"snarkjs": "snarkjsp", "zkinterface": "zkif_modulus", "qaptools": "vc_p",
            "zkifbellman": "bellman_modulus", "zkifbulletproofs": "bulletproofs_modulus"}


def gen_dag(rnd, n):
    scal = [0, 1, -1, 2, -3, 7, 2**64, R_BN128 - 1, R_BN128, R_BN128 + 5, -R_BN128 - 2, L_25519, 2**300 + 1]
    nodes = []
    nleaf = rnd.choice([1, 2, 3])
    for _ in range(nleaf):
        k = rnd.random()
        nodes.append(["var", rnd.choice([-3, -2, -1, 1, 2, 3])] if k < 0.7 else (["one"] if k < 0.9 else ["zero"]))
    while len(nodes) < n:
        op = rnd.choice(["add", "add", "sub", "sub", "neg", "scale", "scale", "var", "one", "zero"])
        i = rnd.randrange(len(nodes)); j = rnd.randrange(len(nodes))
        if op in ("add", "sub"): nodes.append([op, i, j])
        elif op == "neg": nodes.append(["neg", i])
        elif op == "scale": nodes.append(["scale", i, rnd.choice(scal) if rnd.random() < 0.8 else rnd.randrange(-2**260, 2**260)])
        elif op == "var": nodes.append(["var", rnd.choice([-3, -2, -1, 1, 2, 3, 4])])
        else: nodes.append([op])
    return nodes


def tree(dag, i):
    n = dag[i]; op = n[0]
    if op == "var": return "(LVar %s)" % zlit(n[1])
    if op == "one": return "LOne"
    if op == "zero": return "LZero"
    if op == "add": return "(LAdd %s %s)" % (tree(dag, n[1]), tree(dag, n[2]))
    if op == "sub": return "(LSub %s %s)" % (tree(dag, n[1]), tree(dag, n[2]))
    if op == "neg": return "(LNeg %s)" % tree(dag, n[1])
    if op == "scale": return "(LScale %s %s)" % (tree(dag, n[1]), zlit(n[2]))
    raise ValueError(op)


def sem(dag, i, w):
    n = dag[i]; op = n[0]
    if op == "var": return w[n[1]]
    if op == "one": return w[0]
    if op == "zero": return 0
    if op == "add": return sem(dag, n[1], w) + sem(dag, n[2], w)
    if op == "sub": return sem(dag, n[1], w) - sem(dag, n[2], w)
    if op == "neg": return -sem(dag, n[1], w)
    if op == "scale": return sem(dag, n[1], w) * n[2]


def depth_ok(dag):
    # keep expanded trees small: cap the expanded size of every node
    size = []
    for n in dag:
        if n[0] in ("add", "sub"): size.append(1 + size[n[1]] + size[n[2]])
        elif n[0] in ("neg", "scale"): size.append(1 + size[n[1]])
        else: size.append(1)
    return max(size) <= 200


def pairs(items):
    return "[" + "; ".join("(%s, %s)" % (zlit(a), zlit(b)) for a, b in items) + "]"


def run(tier, seed):
    t0 = time.time()
    rnd = random.Random(seed)
    tr_ok, tr_msg = common.translate()
    props = common.props_check(PID)
    viol = common.proof_violations(PID, tr_ok, tr_msg, props)
    ndag = 120 if tier == "quick" else 1500
    dags = []
    while len(dags) < ndag:
        d = gen_dag(rnd, rnd.choice([3, 5, 8, 12]))
        if depth_ok(d): dags.append(d)
    ninv = 6 if tier == "quick" else 40
    invs = [1, -1, 0, 2, -7, 3]
    for _ in range(ninv):
        invs.append(rnd.choice([rnd.randrange(-2**256, 2**256), rnd.randrange(-50, 50), R_BN128 * rnd.randrange(-3, 4) + rnd.randrange(-2, 3),
                                R_BLS * rnd.randrange(-2, 3), L_25519 * rnd.randrange(-2, 3) + rnd.randrange(0, 2)]))
    rc, out, err = common.run_impl([os.path.join(common.VERIF, "harness", "impl", "lc_impl.py")],
                                   stdin=json.dumps(dict(dags=dags, inv=invs)), timeout=600)
    stats = dict(dags=len(dags), nodes=sum(len(d) for d in dags), backends={}, inverse_args=len(invs))
    samples = []
    if rc != 0:
        viol.append(dict(kind="harness", concrete=False, what="implementation runner failed", detail=err[-1500:]))
        return common.finish(PID, tier, seed, t0, props, dict(evaluations=0, distinct_nontrivial=0, samples=[], explanation="runner failed"), viol)
    impl = json.loads(out)["backends"]
    # ---------------- direct oracle on the implementation (independent of the Coq model)
    nontrivial = set()
    evals = 0
    for name, res in impl.items():
        if "import_error" in res:
            viol.append(dict(kind="harness", concrete=False, what="backend %s could not be imported: %s" % (name, res["import_error"])))
            continue
        p = res["modulus"]
        bst = dict(modulus_matches_spec=(p == SPEC[name]), mutated=0, eval_mismatch=0, inv_mismatch=0)
        if p != SPEC[name]:
            viol.append(dict(kind="oracle", op="modulus", backend=name, what="backend %s reports modulus %d, not the scalar-field order of its curve" % (name, p),
                             case=dict(backend=name, modulus=p, expected=SPEC[name])))
        for di, (dag, r) in enumerate(zip(dags, res["dags"])):
            for (node, operand) in r["mutated"]:
                bst["mutated"] += 1
                viol.append(dict(kind="oracle", op="immutability", backend=name, what="operation altered an operand",
                                 case=dict(backend=name, dag=dag, node=node, altered=operand)))
            w = {v: rnd.randrange(p) for v in range(-4, 6)}; w[0] = 1
            for i, items in enumerate(r["nodes"]):
                evals += 1
                if res["style"] == "dict":
                    got = sum(c * w[v] for v, c in items)
                    if len(set(v for v, _ in items)) != len(items):
                        viol.append(dict(kind="oracle", op="dupkeys", backend=name, what="duplicate key", case=dict(backend=name, dag=dag, node=i)))
                else:
                    got = sum(c * w[v] for c, v in items)
                if (got - sem(dag, i, w)) % p != 0:
                    bst["eval_mismatch"] += 1
                    viol.append(dict(kind="oracle", op=dag[i][0], backend=name, what="evaluation of the built object differs from the field expression of the operands",
                                     case=dict(backend=name, dag=dag, node=i, items=items, assignment={str(k): v for k, v in w.items()})))
                if len(items) >= 2 and dag[i][0] in ("add", "sub", "scale", "neg"):
                    nontrivial.add((name, json.dumps(items)))
        for x, y in zip(invs, res["inv"]):
            evals += 1
            if x % p == 0:
                good = y is None
            else:
                good = isinstance(y, int) and 0 < y < p and (x * y) % p == 1
            if not good:
                bst["inv_mismatch"] += 1
                viol.append(dict(kind="oracle", op="fieldinverse", backend=name, what="fieldinverse(%d) returned %r" % (x, y),
                                 case=dict(backend=name, x=x, got=y, modulus=p)))
        stats["backends"][name] = bst
    # ---------------- correspondence: model evaluated inside Coq (vm_compute) vs implementation
    files = []
    hdr = ("From Coq Require Import ZArith List.\nFrom PySnark Require Import Generated.\nFrom PySnark.Model Require Import Util Lc.\n"
           "Import ListNotations.\nOpen Scope Z_scope.\n")
    case_index = {}
    for name, res in impl.items():
        if "import_error" in res: continue
        rows = []
        idx = []
        for di, (dag, r) in enumerate(zip(dags, res["dags"])):
            for i, items in enumerate(r["nodes"]):
                if dag[i][0] in ("var", "one", "zero") and rnd.random() < 0.7: continue
                rows.append("(%s, %s)" % (tree(dag, i), pairs(items)))
                idx.append((di, i))
        shard = 400
        for s in range(0, len(rows), shard):
            fname = "lc_%s_%d" % (name, s // shard)
            if res["style"] == "dict":
                body = "Definition cases : list (lcexpr * lc) := [\n" + ";\n".join(rows[s:s + shard]) + "].\n" \
                       "Definition ok (c : lcexpr * lc) := zzl_eqb (build (fst c)) (snd c).\n"
            else:
                body = "Definition cases : list (lcexpr * sg) := [\n" + ";\n".join(rows[s:s + shard]) + "].\n" \
                       "Definition ok (c : lcexpr * sg) := zzl_eqb (sg_build %s (fst c)) (snd c).\n" % GEN_NAME[name]
            files.append((fname, hdr + body + "Eval vm_compute in (bad_idx ok cases).\n"))
            case_index[fname] = (name, idx[s:s + shard])
        # modulus as read by the translator == modulus the running module reports; inverses
        inv_rows = "; ".join("(%s, %s)" % (zlit(x), "None" if y is None else "Some %s" % zlit(y) if isinstance(y, int) else "None")
                             for x, y in zip(invs, res["inv"]))
        files.append(("inv_" + name, hdr +
                      "Definition mod_ok := (%s =? %s).\nEval vm_compute in mod_ok.\n" % (GEN_NAME[name], zlit(res["modulus"])) +
                      "Definition cases : list (Z * option Z) := [%s].\n" % inv_rows +
                      "Definition ok (c : Z * option Z) := optz_eqb (invert (fst c) %s) (snd c).\n" % GEN_NAME[name] +
                      "Eval vm_compute in (bad_idx ok cases).\n"))
        case_index["inv_" + name] = (name, None)
    ncorr = 0
    mism = 0
    if props["ok"] or os.path.exists(os.path.join(common.COQ, "theories", "Model", "Lc.vo")):
        for fname, ok, outp in common.coq_eval_many(files):
            name, idx = case_index[fname]
            if not ok:
                viol.append(dict(kind="correspondence", concrete=False, what="in-Coq evaluation of %s failed" % fname, detail=outp[-800:]))
                continue
            import re
            flat = " ".join(outp.split())
            if fname.startswith("inv_"):
                if "= true : bool" not in flat:
                    mism += 1
                    viol.append(dict(kind="correspondence", concrete=False, backend=name,
                                     what="modulus translated from the source differs from what the running module %s reports" % name))
            m = re.search(r"= \[([^\]]*)\] : list Z", flat)
            bad = [int(x.strip().strip("()")) for x in m.group(1).split(";") if x.strip()] if m else None
            if bad is None:
                viol.append(dict(kind="correspondence", concrete=False, what="could not read the result of %s" % fname, detail=outp[-500:]))
                continue
            ncorr += (len(idx) if idx is not None else len(invs))
            for b in bad:
                mism += 1
                if idx is None:
                    viol.append(dict(kind="correspondence", concrete=False, backend=name, op="fieldinverse",
                                     what="model invert and %s.fieldinverse disagree on x=%d" % (name, invs[b]), detail=str(impl[name]["inv"][b])))
                else:
                    di, i = idx[b]
                    viol.append(dict(kind="correspondence", concrete=False, backend=name, op=dags[di][i][0],
                                     what="model and %s class disagree on a built object" % name,
                                     detail=json.dumps(dict(dag=dags[di], node=i, impl=impl[name]["dags"][di]["nodes"][i]))))
    else:
        viol.append(dict(kind="correspondence", concrete=False, what="model not built; correspondence not run"))
    stats["correspondence_cases"] = ncorr
    stats["correspondence_mismatches"] = mism
    samples = [dict(dag=dags[0], snarkjs_nodes=impl.get("snarkjs", {}).get("dags", [{}])[0].get("nodes")),
               dict(inverse_args=invs[:8], snarkjs=impl.get("snarkjs", {}).get("inv", [])[:8])]
    cov = dict(evaluations=evals, distinct_nontrivial=len(nontrivial),
               rule="random DAGs (3-12 nodes, shared operands) over var/one/zero/add/sub/neg/scale with scalars incl. 0, negatives, >p, 300-bit; "
                    "run on the real LinearCombination/Sig classes of 5 backends; non-trivial = distinct built object with >= 2 terms produced by an operation; "
                    "every node compared with the Coq model (vm_compute) and evaluated on a random assignment; operands snapshotted around every operation",
               samples=samples, traces_validated_against_impl=ncorr, stats=stats,
               not_covered="libsnark native LC class (extension absent); gmpy2 branch of invert (gmpy2 absent)")
    return common.finish(PID, tier, seed, t0, props, cov, viol,
                         assumptions=["Python dict preserves insertion order (language guarantee since 3.7)",
                                      "flatbuffers stub only needed to import pysnark.zkinterface.backend"])


def replay(payload):
    print(json.dumps(payload, indent=1)[:4000])
    return run("quick", payload.get("seed", 1))
