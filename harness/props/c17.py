"""C17 — a @snark function exposes exactly its arguments and results as public values."""
import json, random
import tracecheck, progs

PID = "C17"
BN = progs.BN


def rand_tree(rnd, leaves, depth=0):
    """structure consuming at least one of the available leaves (popped from the end); returns (tree, None)"""
    if depth >= 2 or len(leaves) <= 1 or rnd.random() < 0.5:
        return leaves.pop(), None
    kind = rnd.choice(["list", "tuple"])
    kids = []
    for _ in range(rnd.choice([1, 2, 3])):
        if not leaves: break
        kids.append(rand_tree(rnd, leaves, depth + 1)[0])
    return [kind, kids], None


def tree_leaves(t):
    return [t] if isinstance(t, int) else [y for x in t[1] for y in tree_leaves(x)]


def casegen(rnd):
    cfg = dict(p=rnd.choice([BN, progs.BLS, 65537]), n=rnd.choice([8, 16]), res=rnd.choice([1, 2, 3]), ign=0)
    prog = []
    nreg = [0]
    def reg():
        nreg[0] += 1; return nreg[0] - 1
    ncalls = rnd.choice([1, 1, 2])
    meta = []
    guard_reg = None
    if rnd.random() < 0.35:
        guard_reg = reg(); prog.append(["input", guard_reg, "priv", 0])
    use_float = rnd.random() < 0.35
    for _ in range(ncalls):
        nargs = rnd.choice([1, 2, 3, 4])
        argregs, argvals = [], []
        for _ in range(nargs):
            r = reg()
            if use_float and rnd.random() < 0.4:
                m = rnd.randrange(0, 30); prog.append(["const", r, ["float", m, 1]]); argvals.append(m / 2.0)
            else:
                v = rnd.randrange(0, 12); prog.append(["const", r, ["int", v]]); argvals.append(v)
            argregs.append(r)
        pool = list(reversed(argregs))
        args = []
        while pool:
            t, _ = rand_tree(rnd, pool)
            args.append(t)
        # body: a few operations on the (converted) arguments
        body = []
        regs_in = list(argregs)
        results = []
        for _ in range(rnd.choice([1, 2, 3])):
            a, b = rnd.choice(regs_in), rnd.choice(regs_in)
            d = reg()
            body.append(["bin", d, rnd.choice(["add", "mul", "sub", "lt", "eq", "add"]), a, b])
            regs_in.append(d); results.append(d)
        extra = []
        if rnd.random() < 0.3:
            k = reg(); body.append(["const", k, ["int", rnd.randrange(0, 5)]]); extra.append(k)      # a plain int in the result stays plain
        rl = list(reversed(results + extra + ([rnd.choice(argregs)] if rnd.random() < 0.3 else [])))
        rts = []
        while rl:
            t, _ = rand_tree(rnd, rl)
            rts.append(t)
        res = rts[0] if len(rts) == 1 else ["tuple", rts]
        d = reg()
        st = ["snark", d, args, body, res]
        if guard_reg is not None and rnd.random() < 0.7:
            # the wrapped call is made inside a region with a secret guard (taken or not): arguments and results are exposed and
            # tied to their wires all the same, and the constraint system does not depend on the guard's value
            st = ["guarded", guard_reg, [st]]
        prog.append(st)
        meta.append(dict(args=args, argvals=dict(zip(argregs, argvals)), res=res, body=body, plain=extra, guarded=(st[0] == "guarded")))
    return dict(cfg=cfg, prog=prog, ins=[rnd.choice([0, 1])] if guard_reg is not None else [], meta=meta, use_float=use_float)


def variants(case, rnd):
    if not case["ins"]: return []
    import copy
    v = copy.deepcopy(case); v["ins"] = [1 - case["ins"][0]]
    return [v]


def expected_returns(case, m):
    """plain values the undecorated function returns (ints; fixed point as exact representation / 2^r)"""
    import twin
    from fractions import Fraction
    tw = twin.Twin(case["cfg"])
    regs = dict(m["argvals"])
    for st in m["body"]:
        if st[0] == "const": regs[st[1]] = st[2][1]
        elif st[0] == "bin": regs[st[1]] = tw.binop(st[2], regs[st[3]], regs[st[4]])
    def conv(v):
        if isinstance(v, twin.Fx): return Fraction(v.rep, tw.R)
        if isinstance(v, float): return Fraction(tw.tofx(v).rep, tw.R)       # a float argument comes back as its fixed-point value
        return int(v)
    def build(t): return conv(regs[t]) if isinstance(t, int) else [build(x) for x in t[1]]
    return build(m["res"])


def plain_of(x):
    from fractions import Fraction
    if isinstance(x, dict) and "f" in x: return Fraction(x["f"][0], 2 ** x["f"][1])
    if isinstance(x, list): return [plain_of(y) for y in x]
    return x


def oracle(case, rec, group):
    out = []
    if rec["exn"] is not None:
        return out          # the body itself raised (operand types/values): nothing to compare
    R = 1 << case["cfg"]["res"]
    pubs = rec["pubs_order"]
    pos = 0
    for m, ret in zip(case["meta"], rec["snark_returns"]):
        m = dict(m, argvals={int(k_): v_ for k_, v_ in m["argvals"].items()})
        leaves = [y for t in m["args"] for y in tree_leaves(t)]
        want_in = [int(m["argvals"][l] * R) if isinstance(m["argvals"][l], float) else m["argvals"][l] for l in leaves]
        got_in = pubs[pos:pos + len(want_in)]
        mixed = any(isinstance(v, float) for v in m["argvals"].values()) and any(isinstance(v, int) for v in m["argvals"].values())
        if sorted(got_in) != sorted(want_in):
            out.append(dict(op="snark", key="inputs-set", what="public inputs %r are not the numeric arguments %r" % (got_in, want_in))); return out
        if got_in != want_in:
            out.append(dict(op="snark", key="inputs-order:%s" % ("mixed-int-float" if mixed else "uniform"),
                            what="public inputs are not in argument order: got %r, arguments in order %r" % (got_in, want_in))); return out
        pos += len(want_in)
        res_leaves = tree_leaves(m["res"])
        nsecret = sum(1 for l in res_leaves if l not in m["plain"])
        want = expected_returns(case, m)
        got = plain_of(ret)
        # inside a region that is not taken the computed values are not meaningful (run-time checks and hints are off there):
        # what is compared is what is exposed (the arguments, the number of outputs) and, across guard values, the constraints
        not_taken = m.get("guarded") and case["ins"] and case["ins"][0] == 0
        if not_taken:
            pos += nsecret
            continue
        if got != want:
            out.append(dict(op="snark", key="returned-values", what="wrapped call returned %r, the undecorated function gives %r" % (got, want))); return out
        # each secret result is one public output carrying its value (ints first, then fixed point, then booleans: by class passes)
        outs = pubs[pos:pos + nsecret]
        def flat(x): return [z for y in x for z in flat(y)] if isinstance(x, list) else [x]
        want_out = [int(v * R) if not isinstance(v, int) else v for v, l in zip(flat(want), res_leaves) if l not in m["plain"]]
        if sorted(outs) != sorted(want_out):
            out.append(dict(op="snark", key="outputs-set", what="public outputs %r are not the secret results %r" % (outs, want_out))); return out
        pos += nsecret
    if pos != len(pubs):
        out.append(dict(op="snark", key="extra-public", what="%d public values were created, %d expected (arguments + secret results)" % (len(pubs), pos)))
    if rec["unsat"]:
        out.append(dict(op="snark", key="unsatisfied", what="linking constraints violated by the recorded witness"))
    if group and case is group[0][0]:
        done = [(c, r) for c, r in group if r["exn"] is None]
        for c, r in done[1:]:
            if r["shape"] != done[0][1]["shape"]:
                out.append(dict(op="snark", key="shape-depends-on-guard", what="the constraints recorded for a wrapped call inside a guarded region depend on the guard's value (a result is not tied to its wire in one of the runs)",
                                case=dict(cfg=c["cfg"], prog=c["prog"], ins=c["ins"], other_ins=done[0][0]["ins"])))
                break
    return out


def post(cov, cases, recs):
    """sequences of wrapped calls sharing argument objects / result wires (direct scenarios on the real code)"""
    import subprocess, os, common
    script = os.path.join(common.VERIF, "harness", "impl", "snark_scenarios.py")
    r = subprocess.run([common.PY, script], env=common.impl_env({}), stdout=subprocess.PIPE, stderr=subprocess.PIPE, text=True, timeout=120)
    cov["direct_call_sequence_scenarios"] = 12
    if r.returncode != 0:
        return [dict(kind="harness", concrete=False, what="direct @snark scenarios crashed", detail=r.stderr[-800:])]
    vs = json.loads(r.stdout.strip().split("\n")[-1])
    for v in vs: v["case"] = dict(replay="PYTHONPATH=/repo:/verif/harness /venv/bin/python /verif/harness/impl/snark_scenarios.py")
    return vs


def run(tier, seed):
    return tracecheck.run(PID, tier, seed, {}, oracle, n_quick=300, n_thorough=4500, casegen=casegen, variants=variants, post=post,
                          mask=1 | 2 | 4 | 8, shrink_budget=6)


def replay(payload):
    print(json.dumps(payload, indent=1)[:3000])
    return run("quick", payload.get("seed", 1))
