"""C15 — secret-index array access reads and writes exactly one element."""
import copy
import tracecheck, progs, arraygen

PID = "C15"
MODULI = [progs.BN, progs.BLS, 65537, 251, 61]


FIXED = []


def casegen(rnd):
    if FIXED: return FIXED.pop()
    return arraygen.gen_case(rnd, MODULI)


def variants(case, rnd):
    """same program, other index values (the constraints must be identical for every index value)"""
    if case.get("alt_ins"):
        return [dict(copy.deepcopy(case), ins=i) for i in case["alt_ins"]]
    v = copy.deepcopy(case)
    v["ins"] = [rnd.randrange(0, 4) if 0 <= x < 4 else x for x in case["ins"]]
    # error checking off and an index outside every array: the accesses must leave the constraint system unsatisfiable
    # for the honest witness (an out-of-bounds index cannot be proven)
    u = copy.deepcopy(case)
    u["cfg"] = dict(case["cfg"], ign=1)
    u["ins"] = [rnd.choice([5, 7, -1, 1000]) if 0 <= x < 4 else x for x in case["ins"]]
    u["role"] = "oob-unchecked"
    return [v, u]


def is_secret_oob(case, st):
    """the failing access uses a secret index (public out-of-range indices are plain Python IndexErrors)"""
    return st is not None and st[0] in ("arrget", "arrset") and any(arraygen.is_secret(case, q) for q in (st[3] if st[0] == "arrget" else st[2]))


def val_of(iv):
    if isinstance(iv, dict):
        if "lc" in iv: return iv["lc"]
        if "b" in iv: return iv["b"]
        if "arr" in iv: return [val_of(x) for x in iv["arr"]]
    if isinstance(iv, list): return [val_of(x) for x in iv]
    return iv


def oracle(case, rec, group):
    out = []
    try:
        want = arraygen.twin(case); oob = None
    except arraygen.TwinIndexError as e:
        want, oob = None, e.args[0]
    if oob is not None and case["cfg"]["ign"]:
        if rec["exn"] is None and not rec["unsat"] and is_secret_oob(case, oob):
            out.append(dict(op="index", key="out-of-bounds-provable", what="with error checking off, a secret index outside the array leaves every recorded constraint satisfied: the out-of-bounds access can be proven", statement=oob))
        return out
    if oob is not None:
        if rec["exn"] != "IndexError":
            out.append(dict(op="index", key="out-of-bounds", what="index outside the array did not raise IndexError (got %s)" % rec["exn"], statement=oob, msg=rec["msg"]))
        return out
    if rec["exn"] is not None:
        out.append(dict(op="index", key="raised:%s" % rec["exn"], what="array program raised %s where the list twin completes" % rec["exn"], msg=rec["msg"]))
        return out
    # the value each read returned AT THE TIME of the read (a row read with a public index is a view of the array:
    # comparing final register contents would see later writes through it)
    at = dict((pc, iv) for pc, iv in rec["vals"])
    pc_of = {s[1]: i + 1 for i, s in enumerate(case["prog"]) if s[0] == "arrget"}
    for r, w in want.items():
        if case.get("fixed"): break          # statement numbers of nested programs differ from the top-level positions: shape / errors / satisfaction only
        if pc_of.get(r) not in at: continue
        g = val_of(at[pc_of[r]])
        if g != w:
            out.append(dict(op="access", key="value", what="register %d holds %r, the plain-list program gives %r (a read returned another element, or a write changed another element)" % (r, g, w)))
            break
    if rec["unsat"]:
        out.append(dict(op="access", key="unsatisfied", what="constraints violated by the recorded witness", unsatisfied=rec["unsat"]))
    if case is group[0][0]:
        done = [(c, r) for c, r in group if r["exn"] is None]
        for c, r in done[1:]:
            if r["shape"] != done[0][1]["shape"]:
                out.append(dict(op="access", key="shape", what="constraints differ for different index values", case=dict(cfg=c["cfg"], prog=c["prog"], ins=c["ins"], other_ins=done[0][0]["ins"])))
                break
    return out


def run(tier, seed):
    FIXED[:] = arraygen.fixed_cases(progs.BN) + arraygen.alias_cases(progs.BN)
    return tracecheck.run(PID, tier, seed, {}, oracle, n_quick=300 + 7 * len(FIXED), n_thorough=5000, variants=variants, casegen=casegen,
                          mask=1 | 2 | 4 | 8, shrink_budget=6)


def replay(payload):
    import json
    print(json.dumps(payload, indent=1)[:3000])
    return run("quick", payload.get("seed", 1))
