"""C02 — soundness: constraints determine every result uniquely from its operands."""
import collections, json, multiprocessing, os, random, time
import common, progs, solver

PID = "C02"
BN = progs.BN
UN = ["neg", "abs", "invert"]
METHS = [("to_bits", None), ("to_bits", 2), ("check_positive", None), ("check_zero", None), ("check_nonzero", None)]


def operand(kind, idx, reg):
    if kind == "int": return None
    return ["input", reg, kind, idx]


def make_jobs(rnd, tier):
    """one operation per job; operands are the first allocated variables (fixed in the search)"""
    jobs = []
    fields = [(13, 2), (17, 3), (31, 3), (BN, 3), (BN, 4)] if tier == "quick" else [(13, 2), (17, 2), (17, 3), (31, 3), (61, 4), (BN, 3), (BN, 4), (progs.BLS, 4), (progs.C25519, 3)]
    combos = [("priv", "priv"), ("priv", "int"), ("int", "priv"), ("privbool", "privbool"), ("privbool", "priv"), ("priv", "privbool"),
              ("privfxp", "privfxp"), ("privfxp", "priv"), ("priv", "privfxp"), ("privfxp", "int"), ("pub", "priv")]
    per = 3 if tier == "quick" else 40
    for (p, n) in fields:
        rng = list(range(-2 ** n, 2 ** n + 1))
        for op in progs.BOPS:
            for (ka, kb) in combos:
                if p > 1000 and ka != "priv" and kb != "priv": continue
                for _ in range(per if p < 1000 else max(1, per // 3)):
                    res = rnd.choice([0, 1]) if "fxp" in ka + kb else 0
                    pos = list(range(0, 2 ** n))
                    a = rnd.choice(rng) if rnd.random() < 0.3 else rnd.choice(pos)
                    b = rnd.choice(rng) if rnd.random() < 0.3 else rnd.choice(pos)
                    if op in ("truediv", "floordiv", "mod", "divmod") and rnd.random() < 0.8:
                        b = rnd.choice(pos[1:]); a = b * rnd.randrange(0, max(1, 2 ** n // b)) if op == "truediv" else a
                    if ka.endswith("bool"): a = rnd.choice([0, 1])
                    if kb.endswith("bool"): b = rnd.choice([0, 1])
                    if op in ("pow", "lshift", "rshift") and kb == "int": b = rnd.choice([0, 1, 2, 3])
                    prog = []
                    ins = [a, b]
                    fixed_regs = []
                    for r, (k, v) in enumerate(((ka, a), (kb, b))):
                        if k == "int": prog.append(["const", r, ["int", v]])
                        else:
                            prog.append(["input", r, k, r]); fixed_regs.append(r)
                    prog.append(["bin", 2, op, 0, 1])
                    jobs.append(dict(cfg=dict(p=p, n=n, res=res, ign=0), prog=prog, ins=ins, op=op, kinds="%s/%s" % (ka, kb), full=1))
        for op in UN:
            for ka in ("priv", "privbool", "privfxp"):
                for _ in range(per):
                    a = rnd.choice(rng) if not ka.endswith("bool") else rnd.choice([0, 1])
                    jobs.append(dict(cfg=dict(p=p, n=n, res=0, ign=0), prog=[["input", 0, ka, 0], ["un", 1, op, 0]], ins=[a], op=op, kinds=ka, full=1))
        for (m, k) in METHS:
            for _ in range(per):
                a = rnd.choice(rng)
                jobs.append(dict(cfg=dict(p=p, n=n, res=0, ign=0), prog=[["input", 0, "priv", 0], ["meth", 1, m, k, 0, []]], ins=[a],
                                 op=m if k is None else "%s(%d)" % (m, k), kinds="priv", full=1))
        # selection with a secret boolean condition
        for _ in range(per * 2):
            c, a, b = rnd.choice([0, 1]), rnd.choice(rng), rnd.choice(rng)
            jobs.append(dict(cfg=dict(p=p, n=n, res=0, ign=0), prog=[["input", 0, "privbool", 0], ["input", 1, "priv", 1], ["input", 2, "priv", 2], ["ite", 3, 0, 1, 2]],
                             ins=[c, a, b], op="if_then_else", kinds="privbool/priv/priv", full=1))
        # compositions: a comparison feeding a selection feeding a product
        for _ in range(per * 2):
            a, b = rnd.choice(rng), rnd.choice(rng)
            o1 = rnd.choice(["lt", "le", "eq", "ne", "ge"]); o2 = rnd.choice(["mul", "add", "sub", "and", "xor"])
            jobs.append(dict(cfg=dict(p=p, n=n, res=0, ign=0),
                             prog=[["input", 0, "priv", 0], ["input", 1, "priv", 1], ["bin", 2, o1, 0, 1], ["ite", 3, 2, 0, 1], ["bin", 4, o2, 3, 0]],
                             ins=[a, b], op="compose:%s,ite,%s" % (o1, o2), kinds="priv/priv", full=1))
        # an object first decomposed inside a (possibly not taken) guarded region, then used again outside
        for _ in range(per * 3):
            c, a, b = rnd.choice([0, 1]), rnd.randrange(0, 2 ** n), rnd.randrange(0, 2 ** n)
            inner = rnd.choice([["meth", 3, "to_bits", None, 1, []], ["bin", 3, "and", 1, 2], ["bin", 3, "rshift", 1, 4], ["un", 3, "invert", 1], ["bin", 3, "lt", 1, 2]])
            outer = rnd.choice([["bin", 5, "and", 1, 2], ["bin", 5, "xor", 1, 2], ["bin", 5, "rshift", 1, 4], ["un", 5, "invert", 1], ["bin", 5, "or", 2, 1]])
            jobs.append(dict(cfg=dict(p=p, n=n, res=0, ign=0),
                             prog=[["input", 0, "priv", 0], ["input", 1, "priv", 1], ["input", 2, "priv", 2], ["const", 4, ["int", 1]], ["guarded", 0, [inner]], outer],
                             ins=[c, a, b], op="reuse-after-guard:%s,%s" % (inner[2], outer[2]), kinds="priv/priv/priv", full=1))
        # array access with a secret index: the element read / the array written is determined by the contents and the index
        for (e0, e1, e2, ix) in ((1, 3, 0, 1), (2, 0, 3, 0), (1, 2, 0, 2), (0, 1, 3, 1)):
            jobs.append(dict(cfg=dict(p=p, n=n, res=0, ign=0),
                             prog=[["input", 0, "priv", 0], ["input", 1, "priv", 1], ["input", 2, "priv", 2], ["input", 3, "priv", 3], ["arrnew", 4, [0, 1, 2]], ["arrget", 5, 4, [3]]],
                             ins=[e0, e1, e2, ix], op="array-read", kinds="priv[3]/priv", full=1, last_only=1))
            jobs.append(dict(cfg=dict(p=p, n=n, res=0, ign=0),
                             prog=[["input", 0, "priv", 0], ["input", 1, "priv", 1], ["input", 2, "priv", 2], ["input", 3, "priv", 3], ["arrnew", 4, [0, 1, 2]], ["arrset", 4, [3], 0],
                                   ["const", 6, ["int", 1]], ["arrget", 5, 4, [6]]],
                             ins=[e0, e1, e2, ix], op="array-write-read", kinds="priv[3]/priv", full=1, last_only=1))
        # error checking switched off (ignore_errors): whatever the operands, a result that is returned is still determined by them
        for op in ("truediv", "floordiv", "mod"):
            for (a, b) in ((0, 0), (3, 0), (0, 3), (6, 3)):
                jobs.append(dict(cfg=dict(p=p, n=n, res=0, ign=1), prog=[["input", 0, "priv", 0], ["input", 1, "priv", 1], ["bin", 2, op, 0, 1]], ins=[a, b],
                                 op=op, kinds="priv/priv", full=1))
        # an exception raised inside a lazy branch / guarded function, caught by the caller; the program carries on:
        # what is computed afterwards must be as sound as if the region had never been entered
        if p > 1000 or tier != "quick":
            for c in (0, 1):
                for x in (2, 7):
                    follow = [["const", 8, ["int", 5]], ["bin", 9, rnd.choice(["lt", "ge", "eq"]), 1, 8]]
                    # (a) zero divisor inside the branch that is not taken (it raises even there: recorded under C07)
                    jobs.append(dict(cfg=dict(p=p, n=n, res=0, ign=0), last_only=1, nomodel=1,
                                     prog=[["input", 0, "priv", 0], ["input", 1, "priv", 1], ["const", 2, ["int", 0]], ["bin", 3, "ne", 0, 2],
                                           ["try", [["itelazy", 4, 3, [["bin", 5, "truediv", 1, 0]], 5, [], 1]]]] + follow,
                                     ins=[0, x], op="after-caught-exception:lazy-branch-division", kinds="priv/priv", full=1))
                    # (b) the program's own exception inside a lazy branch (taken or not), (c) inside a guarded function
                    jobs.append(dict(cfg=dict(p=p, n=n, res=0, ign=0), last_only=1, nomodel=1,
                                     prog=[["input", 0, "priv", 0], ["input", 1, "priv", 1], ["const", 2, ["int", 1]], ["bin", 3, "eq", 0, 2],
                                           ["try", [["itelazy", 4, 3, [["raise", "ValueError"]], 1, [], 1]]]] + follow,
                                     ins=[c, x], op="after-caught-exception:lazy-branch-raise", kinds="priv/priv", full=1))
                    jobs.append(dict(cfg=dict(p=p, n=n, res=0, ign=0), last_only=1, nomodel=1,
                                     prog=[["input", 0, "priv", 0], ["input", 1, "priv", 1], ["try", [["guarded", 0, [["raise", "ValueError"]]]]]] + follow,
                                     ins=[c, x], op="after-caught-exception:guarded-raise", kinds="priv/priv", full=1))
    # widths beyond the default bitlength of 16 (tables sized at import time would be too short): decompositions, shifts, comparisons
    for nn in (20, 24):
        for (prog, ins, op) in (([["input", 0, "priv", 0], ["meth", 1, "to_bits", None, 0, []]], [1000], "to_bits"),
                                ([["input", 0, "priv", 0], ["const", 1, ["int", 4]], ["bin", 2, "rshift", 0, 1]], [1000], "rshift"),
                                ([["input", 0, "priv", 0], ["input", 1, "priv", 1], ["bin", 2, "lt", 0, 1]], [70000, 5], "lt"),
                                ([["input", 0, "priv", 0], ["meth", 1, "check_positive", None, 0, []]], [-70000], "check_positive"),
                                ([["input", 0, "priv", 0], ["input", 1, "priv", 1], ["bin", 2, "and", 0, 1]], [70001, 65537], "and")):
            # (decided by the trace correspondence with the model, whose theorems cover every width; the witness-space search does not scale to 20+ free bits)
            jobs.append(dict(cfg=dict(p=BN, n=nn, res=0, ign=0), prog=prog, ins=ins, op=op + "(n=%d)" % nn, kinds="priv" if len(ins) == 1 else "priv/priv", full=1, nosolve=1))
    return jobs


def targets_of(outs_entry_list):
    """result wires of the last statement: list of (tag, value, items)"""
    return outs_entry_list


def last_stmt_outs(rec, nstmts):
    """the out entries produced by the last statement of the program"""
    # outs are in statement order; count entries of earlier statements
    t = rec["trace"]["outs"]
    # walk: each statement with a dst yields entries per out_val: lists/tuples expand
    idx = 0
    spans = []
    i = 0
    def span(i):
        tag, v, l = t[i]
        if tag in (5, 6):
            j = i + 1
            for _ in range(v): j = span(j)
            return j
        return i + 1
    while i < len(t) and t[i][0] >= 0:
        j = span(i); spans.append((i, j)); i = j
    if nstmts is None: nstmts = len(spans)       # the last statement that produced a result
    if len(spans) < nstmts or not spans: return []
    a, b = spans[nstmts - 1]
    return [e for e in t[a:b] if e[0] in (1, 2, 3)]


def work(arg):
    job, rec = arg
    if job.get("nosolve"): return dict(status="skipped")
    if rec["exn"] is not None or "trace" not in rec: return dict(status="raised", exn=rec["exn"])
    p = job["cfg"]["p"]
    tr = rec["trace"]
    nin = sum(1 for s in job["prog"] if s[0] == "input")
    order = solver.var_index(tr["kinds"])
    # operands = variables allocated by the input statements (booleanity of a bool input adds no variable)
    fixed = order[:nin]
    res = []
    ndst = sum(1 for s_ in job["prog"] if s_[0] not in ("guarded", "ignore")) + sum(len(s_[2]) for s_ in job["prog"] if s_[0] == "guarded")
    for tag, v, items in last_stmt_outs(rec, None if job.get("last_only") else ndst):
        r = solver.analyse(tr, p, fixed, items, v)
        entry = dict(status=r["status"], tag=tag)
        if r["status"] == "found":
            entry["alt"] = {str(k): x for k, x in r["alt"].items()}
            entry["honest_value"] = v
            entry["alt_value"] = sum(c * r["alt"][k] for k, c in items) % p
        if tag == 2 and r["status"] != "found":
            # boolean-typed result: forced to 0/1 ?
            S = solver.Solver(p, tr["cons"], order, {q: r["honest"][q] for q in fixed})
            tgt = solver.red(items, p)
            if p < 300:
                st, wit, _ = S.enumerate(lambda w: S.ev(tgt, w) not in (0, 1))
            else:
                st, wit = S.branch(lambda w: S.ev(tgt, w) not in (0, 1))
                st = "found" if wit else st
            if wit: entry = dict(status="found", tag=tag, alt={str(k): x for k, x in wit.items()}, honest_value=v, alt_value=S.ev(tgt, wit), nonboolean=True)
        res.append(entry)
    return dict(status="done", results=res)


def classify_key(job):
    op = job["op"]; ka = job["kinds"]
    base = op.split("(")[0]
    if base in ("and", "or", "xor") and "int" in ka.split("/") and "privbool" not in ka: return "bitop-with-int:free-witness"
    if base in ("floordiv", "mod", "divmod"): return "division:quotient-unconstrained"
    if base == "rshift" and "int" not in ka.split("/")[1:]: return "division:quotient-unconstrained"
    if "fxp" in ka and base in ("mul", "truediv", "floordiv", "mod", "divmod", "pow"): return "division:quotient-unconstrained"
    return "%s:%s" % (base, ka)


def run(tier, seed):
    t0 = time.time()
    rnd = random.Random(seed)
    tr_ok, tr_msg = common.translate()
    props = common.props_check(PID)
    viol = common.proof_violations(PID, tr_ok, tr_msg, props)
    jobs = [json.load(open(os.path.join(common.VERIF, "corpus", PID, f))) for f in sorted(os.listdir(os.path.join(common.VERIF, "corpus", PID))) if f.endswith(".json")]
    jobs += make_jobs(rnd, tier)
    for i, j in enumerate(jobs): j["id"] = i
    recs = progs.run_impl_cases(jobs, full=True)
    # the operations whose theorems are used must be the model's operations: trace correspondence on the same jobs
    codes, errs = progs.run_model_compare(jobs, recs) if os.path.exists(os.path.join(common.COQ, "theories", "Model", "Prog.vo")) else ([None] * len(jobs), ["model not built"])
    for e in errs: viol.append(dict(kind="correspondence", concrete=False, what="in-Coq evaluation of the model failed", detail=e))
    mism = [i for i, c in enumerate(codes) if c and (c & (1 | 2 | 4))]
    with multiprocessing.Pool(common.NPROC) as pool:
        results = pool.map(work, list(zip(jobs, recs)), chunksize=8)
    stat = collections.Counter()
    per_op = collections.defaultdict(collections.Counter)
    nontrivial = set()
    for job, rec, res in zip(jobs, recs, results):
        if res["status"] != "done":
            stat["raised"] += 1; continue
        for e in res["results"]:
            stat[e["status"]] += 1
            per_op[job["op"] + " " + job["kinds"]][e["status"]] += 1
            if rec["ncons"] >= 1: nontrivial.add((job["op"], job["kinds"], job["cfg"]["p"], tuple(job["ins"])))
            if e["status"] == "found":
                viol.append(dict(kind="oracle", op=job["op"], operand_kinds=job["kinds"], key=classify_key(job),
                                 what="a satisfying assignment keeps the operands but gives the result another value" if not e.get("nonboolean") else "a boolean-typed result can be assigned a value other than 0/1",
                                 case=dict(cfg=job["cfg"], prog=job["prog"], ins=job["ins"]), honest_value=e["honest_value"], forged_value=e["alt_value"], forged_witness=e["alt"]))
    # after a caught exception the following statements record exactly the constraints they record in a fresh program
    # (a region that was left by an exception leaves nothing behind that weakens later constraints)
    fresh = {}
    for job, rec in zip(jobs, recs):
        if not job["op"].startswith("after-caught-exception") or rec["exn"] is not None: continue
        if not rec.get("caught"):
            continue                      # nothing was raised on this tree for this scenario
        follow = job["prog"][-2:]
        key = json.dumps([job["cfg"], follow, job["ins"]])
        if key not in fresh:
            tw = dict(cfg=job["cfg"], prog=[s_ for s_ in job["prog"] if s_[0] == "input"] + follow, ins=job["ins"], id=0)
            r2 = progs.run_impl_cases([tw])[0]
            fresh[key] = (r2["ncons"], r2["nvars"] - sum(1 for s_ in tw["prog"] if s_[0] == "input"))
        pc, en, nc0, nv0 = rec["caught"][-1]
        got = (rec["ncons"] - nc0, rec["nvars"] - nv0)
        if got != fresh[key]:
            viol.append(dict(kind="oracle", op=job["op"], operand_kinds=job["kinds"], key=job["op"] + ":constraints-differ",
                             what="after an exception raised inside a region was caught, the next statements record %d constraints / %d new variables; in a fresh program they record %d / %d (state left behind by the aborted region)" % (got + fresh[key]),
                             case=dict(cfg=job["cfg"], prog=job["prog"], ins=job["ins"]), caught=en))
    # dedupe: keep 2 per key
    seen = collections.Counter(); kept = []
    for v in viol:
        if v.get("kind") == "oracle":
            seen[v["key"]] += 1
            if seen[v["key"]] > 2: continue
        kept.append(v)
    viol = kept
    for i in mism[:3]:
        viol.append(dict(kind="correspondence", concrete=False, what="model and implementation traces differ for a single-operation program",
                         detail=json.dumps(dict(cfg=jobs[i]["cfg"], prog=jobs[i]["prog"], ins=jobs[i]["ins"]))[:1500]))
    cov = dict(evaluations=len(jobs), distinct_nontrivial=len(nontrivial),
               rule="one operation (or a 3-step composition) per job over every operator x operand-kind combination; operands fixed to their values; "
                    "complete enumeration of the auxiliary witness on p in {13,17,31,61}, propagation+boolean branching on the real fields; "
                    "non-trivial = distinct (operator, kinds, modulus, operand values) with >= 1 constraint",
               samples=[dict(cfg=j["cfg"], prog=j["prog"], ins=j["ins"]) for j in jobs[:3]],
               search_status=dict(stat), exhaustive=False, traces_validated_against_impl=sum(1 for c in codes if c == 0), trace_mismatches=len(mism),
               unknown_by_operator={k: dict(v) for k, v in per_op.items() if v.get("unknown") or v.get("limit")})
    return common.finish(PID, tier, seed, t0, props, cov, viol,
                         assumptions=["field-level theorems assume 2^(bitlength+1) <= p and p prime",
                                      "'exhausted' on a small field is a complete search for those operand values; on the 254-bit fields the search is incomplete ('unknown' counted)"])


def replay(payload):
    print(json.dumps(payload, indent=1)[:4000])
    return run("quick", payload.get("seed", 1))
