"""C05 — traced arithmetic agrees with Python semantics, or raises."""
import tracecheck, twin

PID = "C05"
PROFILE = {"p_ignore": 0.0, "p_valid_inputs": 0.8, "p_float": 0.0, "inputs": ["priv", "priv", "pub", "privbool"],
           "operand_kinds": ["lc", "int", "bool", "any"],
           "weights": dict(input=0.10, const=0.10, bin=0.55, un=0.07, meth=0.12, ite=0.05, guarded=0.0, ignore=0.0, list=0.01)}


import progs
ALL_OPS = ["add", "sub", "mul", "truediv", "floordiv", "mod", "divmod", "pow", "lshift", "rshift", "and", "or", "xor", "lt", "le", "eq", "ne", "gt", "ge"]


def matrix_cases(rnd, reps):
    """every operator x the three operand-kind combinations (secret op secret, secret op int, int op secret) plus booleans,
    on values from {negative, zero, small, boundary of the bitlength range, just beyond it}"""
    out = []
    for op in ALL_OPS:
        for ka, kb in (("lc", "lc"), ("lc", "int"), ("int", "lc"), ("bool", "bool"), ("bool", "lc"), ("lc", "bool"), ("bool", "int"), ("int", "bool")):
            for _ in range(reps):
                n = rnd.choice([3, 4, 5, 8])
                if rnd.random() < 0.15: n = rnd.choice([62, 100])          # wide configurations: values beyond 2^53 (no float can carry them)
                edge = [0, 1, 2, 3, -1, -2, 5, 2 ** (n - 1) - 1, 2 ** (n - 1), 2 ** n - 1, 2 ** n, -(2 ** n) + 1, -(2 ** n), 2 ** n + 1]
                if n > 60: edge += [2 ** 59 - 1, 2 ** 59 - 3, 3 * (2 ** 57) + 3, -(2 ** 58) - 2, 2 ** 60 - 6]
                small = [0, 1, 2, 3, n - 1, n, n + 1, -1] if op in ("pow", "lshift", "rshift") else edge
                if n > 60 and op in ("truediv", "floordiv", "mod", "divmod"): small = [1, 2, 3, -1, -2, 6, 5]
                if n > 60 and op in ("pow", "lshift"): n = 8; edge = [0, 1, 2, 3, -1, 5]; small = [0, 1, 2, 3, 7, 8, 9]
                prog = []; nreg = [0]
                def new():
                    nreg[0] += 1
                    return nreg[0] - 1
                ins = [rnd.choice(edge), rnd.choice(small), rnd.choice([0, 1]), rnd.choice([0, 1])]
                def operand(k, slot):
                    d = new()
                    if k == "lc": prog.append(["input", d, "priv" if rnd.random() < 0.8 else "pub", slot])
                    elif k == "bool": prog.append(["input", d, "privbool", 2 + slot])
                    else: prog.append(["const", d, ["int", ins[slot]]])
                    return d
                a = operand(ka, 0); b = operand(kb, 1)
                prog.append(["bin", new(), op, a, b] + (["i"] if rnd.random() < 0.25 else []))
                if rnd.random() < 0.3:          # the operands are used again afterwards: an operator must not have changed them
                    prog.append(["bin", new(), rnd.choice(["add", "mul", "sub"]), a, b])
                out.append(dict(cfg=dict(p=rnd.choice([progs.BN, progs.BN, progs.BLS, 65537]), n=n, res=2, ign=0), prog=prog, ins=ins))
    return out


def inert_cases(tier):
    """operators on operands inside their documented domain, reached in a region that is NOT taken (false guard, lazy branch not
    taken, block-API _if not taken): the native program skips the region, so nothing may be raised there"""
    import matrixcases
    out = []
    ops = ["floordiv", "mod", "divmod", "truediv", "lt", "ge", "rshift", "lshift", "pow", "and", "mul"] if tier == "quick" else ALL_OPS
    ctxs = ["g0", "lazy0", "if0"] if tier == "quick" else ["g0", "lazy0", "if0", "g1g0"]
    for op in ops:
        for ka, kb in (("lc", "lc"), ("lc", "int"), ("int", "lc")):
            x, y = (6, 3)
            if op in ("pow", "lshift", "rshift"): y = 2
            for ctx in ctxs:
                prog, nreg = [], [0]
                a = matrixcases._operand(prog, nreg, ka, 0, x); b = matrixcases._operand(prog, nreg, kb, 1, y)
                d = nreg[0]; nreg[0] += 1
                body, gv = matrixcases._wrap(ctx, [["bin", d, op, a, b]], nreg, d)
                out.append(dict(cfg=dict(p=progs.BN, n=8, res=2, ign=0), prog=prog + body, ins=[x, y, gv[0], gv[1]], inert=1, matrix="inert:%s:%s:%s:%s" % (op, ka, kb, ctx)))
    return out


def same(tv, iv, p):
    """twin value vs implementation value (values at or beyond the field size can only agree modulo p)"""
    def eqv(a, b): return a == b or (abs(a) >= p and (a - b) % p == 0)
    if isinstance(iv, dict):
        if "lc" in iv: return isinstance(tv, int) and eqv(int(tv), iv["lc"])
        if "b" in iv: return isinstance(tv, int) and int(tv) == iv["b"]
        return None            # fixed point / float: C14's business
    if isinstance(iv, list): return isinstance(tv, (list, tuple)) and len(tv) == len(iv) and all(same(a, b, p) is not False for a, b in zip(tv, iv))
    if iv is None: return tv is None
    if isinstance(iv, int): return isinstance(tv, int) and eqv(int(tv), iv)
    return None


def key_of(s, t, case=None, tv=None, iv=None):
    """stable classification of the failing call site (used to match known findings narrowly)"""
    if s is None: return "?"
    if case is not None and s[0] == "bin" and s[2] == "pow" and isinstance(tv, int) and tv < 0 and isinstance(iv, dict) and "lc" in iv \
            and (tv - iv["lc"]) % case["cfg"]["p"] == 0 and 0 <= iv["lc"] < case["cfg"]["p"]:
        d = [q for q in case["prog"] if q[0] == "input" and q[1] == s[4]]
        if d: return "pow:negative-power-with-secret-exponent"
    regval = {}
    if s[0] == "bin" and s[2] in ("and", "or", "xor"):
        a, b = t.get("r%d" % s[3]), t.get("r%d" % s[4])
        if isinstance(a, bool) != isinstance(b, bool) and (a not in (0, 1) or b not in (0, 1)): return "%s:bool-with-nonboolean-int" % s[2]
    if s[0] == "bin" and s[2] == "pow" and isinstance(t.get("r%d" % s[3]), bool): return "pow:bool-base"
    if s[0] == "bin":
        return "%s:%s" % (s[2], "negative-divisor" if s[2] in ("floordiv", "mod", "divmod") and isinstance(t.get("r%d" % s[4]), int) and t["r%d" % s[4]] < 0 else "other")
    if s[0] == "un": return "%s:%s" % (s[2], "int-operand" if not isinstance(t.get("r%d" % s[3]), bool) else "bool-operand")
    return "%s:other" % (s[2] if s[0] == "meth" else s[0])


def stmt_at(prog, pc):
    return prog[pc - 1] if 0 < pc <= len(prog) else None


def oracle(case, rec, group):
    if case.get("inert"):
        if rec["exn"] in ("AssertionError", "ValueError", "ZeroDivisionError"):      # data-dependent errors; a TypeError is the program's own
            return [dict(op=case["matrix"].split(":")[1], key="raised-in-region-not-taken:" + case["matrix"].split(":")[1],
                         what="an operator on in-domain operands raised %s inside a region that is not taken (the native program skips it)" % rec["exn"], msg=rec["msg"])]
        return []
    outs, raised, tw, dom_at = twin.run_twin(case)
    t = dict(outs)
    for pc_, v_ in outs:
        st_ = stmt_at(case["prog"], pc_)
        if st_ is not None and st_[0] not in ("guarded", "ignore"): t["r%d" % st_[1]] = v_
    out = []
    P = case["cfg"]["p"]
    def beyond(v):
        if isinstance(v, (list, tuple)): return any(beyond(x) for x in v)
        return isinstance(v, int) and abs(v) >= P
    def operands(s):
        if s is None: return []
        if s[0] == "bin": return [t.get("r%d" % s[3]), t.get("r%d" % s[4])]
        if s[0] == "un": return [t.get("r%d" % s[3])]
        if s[0] == "meth": return [t.get("r%d" % s[4])] + [t.get("r%d" % q) for q in s[5]]
        if s[0] == "ite": return [t.get("r%d" % s[2]), t.get("r%d" % s[3]), t.get("r%d" % s[4])]
        return []
    def shift_beyond(s):
        # x << y, x >> y multiply / divide by 2 ** y: with 2 ** y at or beyond the field size the intermediate power wraps (tiny test fields only)
        if s is None or s[0] != "bin" or s[2] not in ("lshift", "rshift"): return False
        b = t.get("r%d" % s[4])
        return isinstance(b, int) and b >= 0 and (1 << min(b, 4096)) >= P
    for pc, iv in rec["vals"]:
        st_ = stmt_at(case["prog"], pc)
        if any(beyond(o) for o in operands(st_)) or shift_beyond(st_): break      # operands at or beyond the field size: integers and field elements part ways
        if pc in t:
            ok = same(t[pc], iv, case["cfg"]["p"])
            if ok is False:
                s = stmt_at(case["prog"], pc)
                out.append(dict(op=(s[2] if s and s[0] in ("bin", "un", "meth") else s[0] if s else "?"), key=key_of(s, t, case, t[pc], iv),
                                what="returned a value different from plain Python semantics", statement=s, pc=pc,
                                python=repr(t[pc]), pysnark=iv, operands=[repr(t.get(q)) for q in range(1, pc)][-4:]))
                break
        elif raised and raised[0] == pc and iv is not None and raised[1] not in twin.LIMITS:
            s = stmt_at(case["prog"], pc)
            out.append(dict(op=(s[2] if s and s[0] in ("bin", "un", "meth") else "?"), key=key_of(s, t),
                            what="returned a value where plain Python raises (%s)" % raised[1], statement=s, pc=pc, pysnark=iv))
            break
    # inside the documented domain the operation must not raise
    if rec["exn"] in ("AssertionError", "ValueError", "ZeroDivisionError") and not out:
        pc = rec["pc"]
        if (raised is None or raised[0] > pc) and dom_at.get(pc, False) and pc in t:
            s = stmt_at(case["prog"], pc)
            out.append(dict(op=(s[2] if s and s[0] in ("bin", "un", "meth") else "?"), key=key_of(s, t),
                            what="raised %s on operands inside the documented domain" % rec["exn"], statement=s, pc=pc, python=repr(t[pc]), msg=rec["msg"]))
    return out


def run(tier, seed):
    import random
    import matrixcases
    pending = matrix_cases(random.Random(seed * 7919 + 5), 6 if tier == "quick" else 30) + matrixcases.bigdiv_cases() + inert_cases(tier)
    gen = [None]
    def casegen(rnd):
        if pending: return pending.pop()
        if gen[0] is None: gen[0] = progs.Gen(rnd, PROFILE)
        return gen[0].case()
    nm = len(pending)
    return tracecheck.run(PID, tier, seed, PROFILE, oracle, n_quick=nm + 400, n_thorough=nm + 8000, mask=1 | 4 | 8, mutation_oracle=True,
                          casegen=casegen)


def replay(payload):
    import json
    print(json.dumps(payload, indent=1)[:3000])
    return run("quick", payload.get("seed", 1))
