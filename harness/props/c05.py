"""C05 — traced arithmetic agrees with Python semantics, or raises."""
import tracecheck, twin

PID = "C05"
PROFILE = {"p_ignore": 0.0, "p_valid_inputs": 0.8, "p_float": 0.0, "inputs": ["priv", "priv", "pub", "privbool"],
           "operand_kinds": ["lc", "int", "bool", "any"],
           "weights": dict(input=0.10, const=0.10, bin=0.55, un=0.07, meth=0.12, ite=0.05, guarded=0.0, ignore=0.0, list=0.01)}


def same(tv, iv, p):
    """twin value vs implementation value (values at or beyond the field size can only agree modulo p)"""
    def eqv(a, b): return a == b or (abs(a) >= p and (a - b) % p == 0)
    if isinstance(iv, dict):
        if "lc" in iv: return isinstance(tv, int) and eqv(int(tv), iv["lc"])
        if "b" in iv: return isinstance(tv, int) and int(tv) == iv["b"]
        return None            # fixed point / float: C14's business
    if isinstance(iv, list): return isinstance(tv, (list, tuple)) and len(tv) == len(iv) and all(same(a, b, p) is not False for a, b in zip(tv, iv))
    if iv is None: return tv is None
    if isinstance(iv, int): return isinstance(tv, int) and eqv(int(tv), iv)
    return None


def key_of(s, t):
    """stable classification of the failing call site (used to match known findings narrowly)"""
    if s is None: return "?"
    regval = {}
    if s[0] == "bin" and s[2] in ("and", "or", "xor"):
        a, b = t.get("r%d" % s[3]), t.get("r%d" % s[4])
        if isinstance(a, bool) != isinstance(b, bool) and (a not in (0, 1) or b not in (0, 1)): return "%s:bool-with-nonboolean-int" % s[2]
    if s[0] == "bin" and s[2] == "pow" and isinstance(t.get("r%d" % s[3]), bool): return "pow:bool-base"
    if s[0] == "bin":
        return "%s:%s" % (s[2], "negative-divisor" if s[2] in ("floordiv", "mod", "divmod") and isinstance(t.get("r%d" % s[4]), int) and t["r%d" % s[4]] < 0 else "other")
    if s[0] == "un": return "%s:%s" % (s[2], "int-operand" if not isinstance(t.get("r%d" % s[3]), bool) else "bool-operand")
    return "%s:other" % (s[2] if s[0] == "meth" else s[0])


def stmt_at(prog, pc):
    return prog[pc - 1] if 0 < pc <= len(prog) else None


def oracle(case, rec, group):
    outs, raised, tw, dom_at = twin.run_twin(case)
    t = dict(outs)
    for pc_, v_ in outs:
        st_ = stmt_at(case["prog"], pc_)
        if st_ is not None and st_[0] not in ("guarded", "ignore"): t["r%d" % st_[1]] = v_
    out = []
    for pc, iv in rec["vals"]:
        if pc in t:
            ok = same(t[pc], iv, case["cfg"]["p"])
            if ok is False:
                s = stmt_at(case["prog"], pc)
                out.append(dict(op=(s[2] if s and s[0] in ("bin", "un", "meth") else s[0] if s else "?"), key=key_of(s, t),
                                what="returned a value different from plain Python semantics", statement=s, pc=pc,
                                python=repr(t[pc]), pysnark=iv, operands=[repr(t.get(q)) for q in range(1, pc)][-4:]))
                break
        elif raised and raised[0] == pc and iv is not None:
            s = stmt_at(case["prog"], pc)
            out.append(dict(op=(s[2] if s and s[0] in ("bin", "un", "meth") else "?"),
                            what="returned a value where plain Python raises (%s)" % raised[1], statement=s, pc=pc, pysnark=iv))
            break
    # inside the documented domain the operation must not raise
    if rec["exn"] in ("AssertionError", "ValueError", "ZeroDivisionError") and not out:
        pc = rec["pc"]
        if (raised is None or raised[0] > pc) and dom_at.get(pc, False) and pc in t:
            s = stmt_at(case["prog"], pc)
            out.append(dict(op=(s[2] if s and s[0] in ("bin", "un", "meth") else "?"), key=key_of(s, t),
                            what="raised %s on operands inside the documented domain" % rec["exn"], statement=s, pc=pc, python=repr(t[pc]), msg=rec["msg"]))
    return out


def run(tier, seed):
    return tracecheck.run(PID, tier, seed, PROFILE, oracle, n_quick=450, n_thorough=8000, require_props=False, mask=1 | 4 | 8, mutation_oracle=True, level="translation_validation")


def replay(payload):
    import json
    print(json.dumps(payload, indent=1)[:3000])
    return run("quick", payload.get("seed", 1))
