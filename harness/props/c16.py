"""C16 — bit decomposition and packing round-trip at the requested width."""
import collections, copy, json, multiprocessing, os, random, time
import common, progs, solver, tracecheck

PID = "C16"
BN = progs.BN


def rand_schema(rnd, depth=0):
    k = rnd.random()
    if depth >= 2 or k < 0.35: return ["bool"] if rnd.random() < 0.4 else ["intmod", rnd.choice([1, 2, 3, 5, 8, 10, 16, 17])]
    if k < 0.7:
        subs = [rand_schema(rnd, depth + 1) for _ in range(rnd.choice([1, 2, 3]))]
        if len(subs) >= 2 and rnd.random() < 0.4: subs[-1] = copy.deepcopy(subs[0])     # the same field type at two positions (shared object under cfg["share"])
        return ["list", subs]
    return ["repeat", rand_schema(rnd, depth + 1), rnd.choice([1, 2, 3])]


def rand_value(rnd, sch, out_of_range=False):
    """plain value for a schema (bools as 0/1 ints)"""
    if sch[0] == "bool": return rnd.choice([0, 1])
    if sch[0] == "intmod":
        if out_of_range and rnd.random() < 0.5: return rnd.choice([-1, sch[1], sch[1] + 1])
        return rnd.randrange(0, sch[1])
    if sch[0] == "list": return [rand_value(rnd, s, out_of_range) for s in sch[1]]
    return [rand_value(rnd, sch[1], out_of_range) for _ in range(sch[2])]


def flat(v):
    return [x for y in v for x in flat(y)] if isinstance(v, list) else [v]


def build(case_prog, ins, v, secret, nreg, rnd):
    """statements that build the (possibly secret) structured value; returns register"""
    if isinstance(v, list):
        rs = [build(case_prog, ins, x, secret, nreg, rnd) for x in v]
        r = nreg[0]; nreg[0] += 1
        case_prog.append(["list", r, rs]); return r
    r = nreg[0]; nreg[0] += 1
    if secret and rnd.random() < 0.8:
        case_prog.append(["input", r, "priv", len(ins)]); ins.append(v)
    else:
        case_prog.append(["const", r, ["int", v]])
    return r


FIXED = []


def fixed_cases():
    """fields wider than the bitlength, secret values that fit the field's width but not its modulus (rejected by unpack), and the
    same in range; the run must leave the configuration as it found it"""
    out = []
    for n, m, vals in ((6, 100, [120, 99, 100, 127, 5]), (8, 100000, [120000, 99999, 131071, 70000]), (6, 65, [64, 65, 100])):
        for v in vals:
            prog = [["input", 0, "priv", 0], ["pack", 1, ["intmod", m], 0], ["unpack", 2, ["intmod", m], 1]]
            out.append(dict(cfg=dict(p=BN, n=n, res=1, ign=0), prog=prog, ins=[v], kind="pack", schema=["intmod", m], value=v, secret=True))
    # one packer instance at several positions of a list (also inside a repetition): distinct values at the shared positions
    u8, d = ["intmod", 256], ["intmod", 10]
    for sch, val in ((["list", [u8, ["bool"], u8]], [200, 1, 17]), (["repeat", ["list", [d, d]], 2], [[3, 7], [9, 0]]),
                     (["list", [["list", [d, ["bool"]]], d, ["list", [d, ["bool"]]]]], [[4, 1], 9, [6, 0]])):
        for secret in (False, True):
            prog, ins, nreg = [], [], [0]
            src = build(prog, ins, val, secret, nreg, random.Random(7))
            prog += [["pack", nreg[0], sch, src], ["unpack", nreg[0] + 1, sch, nreg[0]]]
            out.append(dict(cfg=dict(p=BN, n=16, res=1, ign=0, share=1), prog=prog, ins=ins, kind="pack", schema=sch, value=val, secret=secret))
    return out


def casegen(rnd):
    if FIXED: return FIXED.pop()
    p = rnd.choice([BN, progs.BLS, 65537])
    cfg = dict(p=p, n=rnd.choice([6, 8, 16]), res=1, ign=0)
    k = rnd.random()
    prog, ins, nreg = [], [], [0]
    if k < 0.65:
        # pack / unpack round trip
        sch = rand_schema(rnd)
        if rnd.random() < 0.5: cfg["share"] = 1      # equal sub-schemas are one packer object, in pack and in unpack
        oor = rnd.random() < 0.2
        val = rand_value(rnd, sch, oor)
        secret = rnd.random() < 0.6
        src = build(prog, ins, val, secret, nreg, rnd)
        d1 = nreg[0]; nreg[0] += 1
        prog.append(["pack", d1, sch, src])
        d2 = nreg[0]; nreg[0] += 1
        prog.append(["unpack", d2, sch, d1])
        return dict(cfg=cfg, prog=prog, ins=ins, kind="pack", schema=sch, value=val, secret=secret)
    if k < 0.78:
        # several decompositions / non-negativity assertions of the SAME object at different widths, in any order:
        # each one must enforce its own width (whatever was computed for the object before)
        ws = [rnd.choice([1, 2, 3, 4, 5, cfg["n"], cfg["n"] + 2, 12]) for _ in range(rnd.choice([2, 3]))]
        top = max(ws)
        v = rnd.choice([0, 1, 2 ** min(ws) - 1, 2 ** min(ws), 2 ** min(ws) + 3, 2 ** top - 1, 2 ** top, rnd.randrange(0, 2 ** top)])
        prog = [["input", 0, "priv", 0]]
        for i, w in enumerate(ws):
            prog.append(["meth", i + 1, rnd.choice(["to_bits", "to_bits", "assert_positive"]), (None if w == cfg["n"] else w), 0, []])
        return dict(cfg=cfg, prog=prog, ins=[v], kind="bits-seq", widths=ws, value=v)
    # to_bits(k) / from_bits round trip at a width independent of the global bitlength
    w = rnd.choice([1, 2, 3, 5, cfg["n"], cfg["n"] + 1, 12] + ([66, 80] if p > 2 ** 100 else []))      # widths beyond 64 on the real fields
    v = rnd.choice([0, 1, 2 ** w - 1, 2 ** w, 2 ** w + 1, -1, rnd.randrange(0, 2 ** w), rnd.randrange(0, 2 ** w), 2 ** (w - 1) + 5 if w > 4 else 1])
    prog = [["input", 0, "priv", 0], ["meth", 1, "to_bits", (None if w == cfg["n"] else w), 0, []], ["meth", 2, "from_bits", None, 1, []]]
    if rnd.random() < 0.5: prog.append(["meth", 3, "assert_positive", (None if w == cfg["n"] else w), 0, []])
    return dict(cfg=cfg, prog=prog, ins=[v], kind="bits", width=w, value=v)


def plainval(iv):
    if isinstance(iv, dict):
        for k in ("lc", "b"):
            if k in iv: return iv[k]
    if isinstance(iv, list): return [plainval(x) for x in iv]
    return iv


def in_range(sch, v):
    if sch[0] == "bool": return True
    if sch[0] == "intmod": return 0 <= v < sch[1]
    if sch[0] == "list": return all(in_range(s, x) for s, x in zip(sch[1], v))
    return all(in_range(sch[1], x) for x in v)


def oracle(case, rec, group):
    out = []
    if case.get("kind") == "pack":
        ok = in_range(case["schema"], case["value"])
        if not ok:
            if rec["exn"] is None:
                out.append(dict(op="pack", key="out-of-range-accepted:%s" % ("secret" if case["secret"] else "plain"),
                                what="a value outside the schema's range was packed and unpacked without an error", schema=case["schema"], value=case["value"]))
            return out
        if rec["exn"] is not None:
            out.append(dict(op="pack", key="raised:%s" % rec["exn"], what="pack/unpack of an in-range value raised %s" % rec["exn"], msg=rec["msg"], schema=case["schema"], value=case["value"]))
            return out
        got = plainval(rec["final_regs"].get(str(len(rec["final_regs"]) - 1)))
        last = max(int(k) for k in rec["final_regs"])
        got = plainval(rec["final_regs"][str(last)])
        want = case["value"]
        if got != want:
            out.append(dict(op="pack", key="roundtrip", what="unpack(pack(x)) = %r differs from x = %r" % (got, want), schema=case["schema"]))
        if rec["unsat"]: out.append(dict(op="pack", key="unsatisfied", what="constraints violated by the recorded witness"))
    elif case.get("kind") == "bits-seq":
        v = case["value"]
        bad_at = next((i for i, w in enumerate(case["widths"]) if not (0 <= v < 2 ** w)), None)
        if bad_at is None:
            if rec["exn"] is not None:
                out.append(dict(op="to_bits", key="raised", what="decompositions of %d at widths %r raised %s" % (v, case["widths"], rec["exn"]), msg=rec["msg"]))
        else:
            if rec["exn"] is None:
                out.append(dict(op="to_bits", key="accepted-after-wider", what="%d was accepted as a %d-bit value (statement %d of a sequence of decompositions of the same object at widths %r)"
                                % (v, case["widths"][bad_at], bad_at + 2, case["widths"])))
            elif rec.get("pc") != bad_at + 2:
                out.append(dict(op="to_bits", key="wrong-statement", what="the sequence raised at statement %r, the first width that rejects %d is at statement %d" % (rec.get("pc"), v, bad_at + 2)))
        if rec["exn"] is None and rec["unsat"]: out.append(dict(op="to_bits", key="unsatisfied", what="constraints violated by the recorded witness"))
    elif case.get("kind") == "bits":
        w, v = case["width"], case["value"]
        ok = 0 <= v < 2 ** w
        if ok and rec["exn"] is not None:
            out.append(dict(op="to_bits", key="raised", what="%d-bit decomposition of %d raised %s" % (w, v, rec["exn"]), msg=rec["msg"]))
        if not ok and rec["exn"] is None:
            out.append(dict(op="to_bits", key="accepted", what="%d was accepted as a %d-bit value" % (v, w)))
        if ok and rec["exn"] is None:
            got = plainval(rec["final_regs"].get("2"))
            if got != v: out.append(dict(op="to_bits", key="roundtrip", what="from_bits(to_bits(%d, %d)) = %r" % (v, w, got)))
            bits = plainval(rec["final_regs"].get("1"))
            if not isinstance(bits, list) or len(bits) != w: out.append(dict(op="to_bits", key="width", what="to_bits(%d) returned %r bits" % (w, None if not isinstance(bits, list) else len(bits))))
    return out


def width_enforcement(rnd, tier, viol):
    """the width argument is the width the circuit enforces: run-time acceptance <-> satisfiability (as in C03), widths != bitlength"""
    import props.c03 as c03
    jobs = []
    for (p, n) in [(31, 3), (61, 4), (127, 5)] + ([(61, 3), (251, 5), (BN, 4)] if tier == "thorough" else []):
        for m in ("to_bits", "assert_positive", "check_positive"):
            for k in (1, 2, n - 1, n, n + 1):
                if k < 1 or 2 ** (k + 1) > p: continue
                for a in [0, 1, 2 ** k - 1, 2 ** k, 2 ** k + 1, -1, 2 ** n - 1, 2 ** n]:
                    if not (-(p - 2 ** k) < a < p - 2 ** k): continue
                    if m == "check_positive": continue
                    jobs.append(dict(cfg=dict(p=p, n=n, res=0, ign=0), prog=[["input", 0, "priv", 0], ["meth", 1, m, (None if k == n else k), 0, []]], ins=[a], op="%s(k=%d,n=%d)" % (m, k, n), kinds="priv", width=k))
    for i, j in enumerate(jobs): j["id"] = i
    checked = progs.run_impl_cases(jobs)
    un = []
    for j in jobs:
        u = copy.deepcopy(j); u["cfg"]["ign"] = 1; u["full"] = 1; un.append(u)
    unchecked = progs.run_impl_cases(un, full=True)
    with multiprocessing.Pool(common.NPROC) as pool:
        results = pool.map(c03.work, list(zip(jobs, checked, unchecked)), chunksize=8)
    stat = collections.Counter()
    for job, r0, r1, res in zip(jobs, checked, unchecked, results):
        accepted = r0["exn"] is None
        want = 0 <= job["ins"][0] < 2 ** job["width"]
        stat["%s/%s" % ("accepted" if accepted else "rejected", res["status"])] += 1
        case = dict(cfg=job["cfg"], prog=job["prog"], ins=job["ins"])
        if accepted != want:
            viol.append(dict(kind="oracle", op=job["op"], key="width-runtime", what="run-time check of %s %s the value %d" % (job["op"], "accepts" if accepted else "rejects", job["ins"][0]), case=case))
        if want and res["status"] == "unsat":
            viol.append(dict(kind="oracle", op=job["op"], key="width-circuit-too-strict", what="circuit of %s rejects the in-range value %d" % (job["op"], job["ins"][0]), case=case))
        if (not want) and res["status"] == "sat":
            viol.append(dict(kind="oracle", op=job["op"], key="width-circuit-too-weak", what="circuit of %s admits the out-of-range value %d: the enforced width is not the requested one" % (job["op"], job["ins"][0]), case=case))
    return dict(stat), len(jobs)


def post_factory(tier, seed):
    def post(cov, cases, recs):
        rnd = random.Random(seed + 7)
        extra = []
        stat, nj = width_enforcement(rnd, tier, extra)
        cov["width_enforcement_matrix"] = stat
        cov["width_jobs"] = nj
        cov["pack_cases"] = sum(1 for c in cases if c.get("kind") == "pack")
        cov["secret_pack_cases"] = sum(1 for c in cases if c.get("kind") == "pack" and c.get("secret"))
        return extra[:6]
    return post


def run(tier, seed):
    FIXED[:] = fixed_cases()
    return tracecheck.run(PID, tier, seed, {}, oracle, n_quick=300 + len(FIXED), n_thorough=5000, casegen=casegen, post=post_factory(tier, seed),
                          mask=1 | 2 | 4 | 8, shrink_budget=6)


def replay(payload):
    print(json.dumps(payload, indent=1)[:3000])
    return run("quick", payload.get("seed", 1))
