"""C01 — completeness: the recorded witness satisfies every emitted constraint."""
import tracecheck, progs, matrixcases

PID = "C01"
PROFILE = {"p_ignore": 0.0, "p_valid_inputs": 0.75,
           "weights": dict(input=0.10, const=0.08, bin=0.46, un=0.06, meth=0.14, ite=0.05, guarded=0.10, ignore=0.0, list=0.01)}


def uses_ignore(prog):
    return any(s[0] == "ignore" or (s[0] == "guarded" and uses_ignore(s[2])) for s in prog)


def oracle(case, rec, group):
    if rec["exn"] is not None or case["cfg"]["ign"] or uses_ignore(case["prog"]): return []
    if rec["unsat"]:
        return [dict(op="completeness", what="run completed with error checking on, yet the recorded witness violates an emitted constraint",
                     unsatisfied_constraint_indexes=rec["unsat"])]
    return []


REAL = [("snarkjs", progs.BN), ("zkinterface", progs.BN), ("zkifbellman", progs.BLS), ("zkifbulletproofs", progs.C25519)]


def real_backend_pass(cov, cases, viol_sink):
    """the same completeness oracle with the real backend modules receiving the constraints (their own
    fieldinverse / modulus / LC classes), on the cases whose modulus is that backend's"""
    tot = 0
    for name, p in REAL:
        sub = [c for c in cases if c["cfg"]["p"] == p][:150]
        if not sub: continue
        try:
            recs = progs.run_impl_cases(sub, real_backend=name)
        except Exception as e:
            viol_sink.append(dict(kind="harness", concrete=False, what="real-backend run (%s) failed" % name, detail=str(e)[-800:]))
            continue
        for c, r in zip(sub, recs):
            tot += 1
            for v in oracle(c, r, None):
                v.update(kind="oracle", backend=name, case=dict(cfg=c["cfg"], prog=c["prog"], ins=c["ins"], backend=name))
                viol_sink.append(v)
    cov["real_backend_runs"] = tot


def chained_coefficient_cases():
    """coefficients that leave (-p, 2^256) before reduction: chains of divisions by constants (products of field inverses), negations and
    large constants, each result used in a constraint"""
    out = []
    for divs in ((3, 5), (3, 5, 7), (7, 11, 13, 17)):
        for neg in (0, 1):
            prog = [["input", 0, "priv", 0], ["input", 1, "priv", 1]]
            r = 0; nreg = 2
            if neg:
                prog.append(["un", nreg, "neg", 0]); r = nreg; nreg += 1
            for d in divs:
                prog += [["const", nreg, ["int", d]], ["bin", nreg + 1, "truediv", r, nreg]]; r = nreg + 1; nreg += 2
            prog += [["bin", nreg, "mul", r, 1], ["bin", nreg + 1, "add", nreg, r], ["bin", nreg + 2, "mul", nreg + 1, nreg + 1]]
            x = 1
            for d in divs: x *= d
            out.append(dict(cfg=dict(p=progs.BN, n=8, res=2, ign=0), prog=prog, ins=[x * 2, 3, 1, 1], matrix="chained-coefficients:%s:%d" % ("/".join(map(str, divs)), neg)))
    return out


def files_pass(cov, cases, sink):
    """completeness at the level of the artefacts: the witness file written by the snarkjs backend's prove() satisfies the
    constraint file written by it (independent decoders), for runs that completed with error checking on"""
    import copy, decoders
    sub = [copy.deepcopy(c) for c in cases if c["cfg"]["p"] == progs.BN and not c["cfg"]["ign"] and not uses_ignore(c["prog"]) and not c.get("nomodel")]
    sub = [c for c in sub if str(c.get("matrix", "")).startswith("chained")] + [c for c in sub if not str(c.get("matrix", "")).startswith("chained")][:60]
    for i, c in enumerate(sub): c.update(id=i, prove=1, full=1)
    try:
        recs = progs.run_impl_cases(sub, full=True, real_backend="snarkjs")
    except Exception as e:
        sink.append(dict(kind="harness", concrete=False, what="snarkjs file pass failed", detail=str(e)[-800:])); return
    p = progs.BN; n = 0
    for c, r in zip(sub, recs):
        if r.get("exn") is not None or "files" not in r or "witness.wtns" not in r.get("files", {}): continue
        n += 1
        try:
            prime, vals = decoders.decode_wtns(bytes.fromhex(r["files"]["witness.wtns"]))
            rr = decoders.decode_r1cs(bytes.fromhex(r["files"]["circuit.r1cs"]))
        except decoders.Bad as e:
            sink.append(dict(kind="oracle", op="files", key="malformed", what="prove() wrote a file the independent decoder rejects: %s" % e, case=dict(cfg=c["cfg"], prog=c["prog"], ins=c["ins"]))); continue
        if len(vals) != rr["nwires"]: continue
        ev = lambda lc: sum(cf * vals[w] for w, cf in lc) % p
        for k, (a, b, cc) in enumerate(rr["cons"]):
            if (ev(a) * ev(b) - ev(cc)) % p:
                sink.append(dict(kind="oracle", op="files", key="file-witness-violates-file-constraint",
                                 what="the witness written by prove() violates constraint %d of the constraint file written by prove()" % k,
                                 case=dict(cfg=c["cfg"], prog=c["prog"], ins=c["ins"])))
                break
    cov["file_level_runs"] = n


def post(cov, cases, recs):
    cov["completed_runs_checked"] = sum(1 for c, r in zip(cases, recs) if r["exn"] is None and not c["cfg"]["ign"])
    cov["constraints_evaluated"] = sum(r["ncons"] for c, r in zip(cases, recs) if r["exn"] is None and not c["cfg"]["ign"])
    sink = []
    real_backend_pass(cov, cases, sink)
    files_pass(cov, cases, sink)
    return sink[:8]


def run(tier, seed):
    # deterministic part: every assertion / decomposition / division x operand kinds x the ways a statement can be reached
    # (true / false guards, nesting, lazy branches, block API), and hash gadgets followed by uses of the shared constants
    pending = matrixcases.assertion_contexts(tier) + matrixcases.hash_then_use() + chained_coefficient_cases()
    return tracecheck.run(PID, tier, seed, PROFILE, oracle, n_quick=len(pending) + 450, n_thorough=len(pending) + 8000, post=post, mask=1 | 2 | 8 | 32 | 128,
                          casegen=matrixcases.with_pending(pending, PROFILE))


def replay(payload):
    import json
    print(json.dumps(payload, indent=1)[:3000])
    return run("quick", payload.get("seed", 1))
