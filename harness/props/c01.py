"""C01 — completeness: the recorded witness satisfies every emitted constraint."""
import tracecheck, progs, matrixcases

PID = "C01"
PROFILE = {"p_ignore": 0.0, "p_valid_inputs": 0.75,
           "weights": dict(input=0.10, const=0.08, bin=0.46, un=0.06, meth=0.14, ite=0.05, guarded=0.10, ignore=0.0, list=0.01)}


def uses_ignore(prog):
    return any(s[0] == "ignore" or (s[0] == "guarded" and uses_ignore(s[2])) for s in prog)


def oracle(case, rec, group):
    if rec["exn"] is not None or case["cfg"]["ign"] or uses_ignore(case["prog"]): return []
    if rec["unsat"]:
        return [dict(op="completeness", what="run completed with error checking on, yet the recorded witness violates an emitted constraint",
                     unsatisfied_constraint_indexes=rec["unsat"])]
    return []


REAL = [("snarkjs", progs.BN), ("zkinterface", progs.BN), ("zkifbellman", progs.BLS), ("zkifbulletproofs", progs.C25519)]


def real_backend_pass(cov, cases, viol_sink):
    """the same completeness oracle with the real backend modules receiving the constraints (their own
    fieldinverse / modulus / LC classes), on the cases whose modulus is that backend's"""
    tot = 0
    for name, p in REAL:
        sub = [c for c in cases if c["cfg"]["p"] == p][:150]
        if not sub: continue
        try:
            recs = progs.run_impl_cases(sub, real_backend=name)
        except Exception as e:
            viol_sink.append(dict(kind="harness", concrete=False, what="real-backend run (%s) failed" % name, detail=str(e)[-800:]))
            continue
        for c, r in zip(sub, recs):
            tot += 1
            for v in oracle(c, r, None):
                v.update(kind="oracle", backend=name, case=dict(cfg=c["cfg"], prog=c["prog"], ins=c["ins"], backend=name))
                viol_sink.append(v)
    cov["real_backend_runs"] = tot


def post(cov, cases, recs):
    cov["completed_runs_checked"] = sum(1 for c, r in zip(cases, recs) if r["exn"] is None and not c["cfg"]["ign"])
    cov["constraints_evaluated"] = sum(r["ncons"] for c, r in zip(cases, recs) if r["exn"] is None and not c["cfg"]["ign"])
    sink = []
    real_backend_pass(cov, cases, sink)
    return sink[:6]


def run(tier, seed):
    # deterministic part: every assertion / decomposition / division x operand kinds x the ways a statement can be reached
    # (true / false guards, nesting, lazy branches, block API), and hash gadgets followed by uses of the shared constants
    pending = matrixcases.assertion_contexts(tier) + matrixcases.hash_then_use()
    return tracecheck.run(PID, tier, seed, PROFILE, oracle, n_quick=len(pending) + 450, n_thorough=len(pending) + 8000, post=post, mask=1 | 2 | 8 | 32 | 128,
                          casegen=matrixcases.with_pending(pending, PROFILE))


def replay(payload):
    import json
    print(json.dumps(payload, indent=1)[:3000])
    return run("quick", payload.get("seed", 1))
