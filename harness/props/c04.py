"""C04 — every reported value equals its wire expression on the recorded witness."""
import tracecheck

PID = "C04"
PROFILE = {"p_ignore": 0.35, "weights": dict(input=0.10, const=0.08, bin=0.45, un=0.06, meth=0.12, ite=0.05, guarded=0.12, ignore=0.01, list=0.01)}


def oracle(case, rec, group):
    out = []
    if rec["incoherent"]:
        out.append(dict(op="coherence", what="a returned secret-typed object reports a value that differs (mod p) from its linear combination on the recorded witness",
                        observed=rec["incoherent"][:3]))
    return out


def run(tier, seed):
    return tracecheck.run(PID, tier, seed, PROFILE, oracle, n_quick=450, n_thorough=6000, mask=1 | 4 | 32, mutation_oracle=True,
                          extra_assumptions=["C04_coherent_on_final_witness_partial assumes scoped_cmds (computed and checked true on every case of this run)",
                                             "the recorder's assignment is what a file-writing backend would be handed (C10-C12 check the files)"])


def replay(payload):
    import json
    print(json.dumps(payload, indent=1)[:3000])
    return run("quick", payload.get("seed", 1))
