"""C04 — every reported value equals its wire expression on the recorded witness."""
import tracecheck, progs, matrixcases

PID = "C04"
PROFILE = {"p_ignore": 0.35, "weights": dict(input=0.10, const=0.08, bin=0.45, un=0.06, meth=0.12, ite=0.05, guarded=0.12, ignore=0.01, list=0.01)}


def oracle(case, rec, group):
    out = []
    if rec["incoherent"]:
        out.append(dict(op="coherence", what="a returned secret-typed object reports a value that differs (mod p) from its linear combination on the recorded witness",
                        observed=rec["incoherent"][:3]))
    return out


REAL = [("snarkjs", progs.BN), ("zkinterface", progs.BN), ("zkifbellman", progs.BLS), ("zkifbulletproofs", progs.C25519)]


def post(cov, cases, recs):
    """the same coherence oracle with the real backend modules' own linear-combination classes (their __add__/__mul__/__neg__)
    carrying the wires, on the cases whose modulus is that backend's"""
    sink = []; tot = 0
    for name, p in REAL:
        mine = [c for c in cases if c["cfg"]["p"] == p]
        sub = [c for c in mine if str(c.get("matrix", "")).startswith("cancellation")] + [c for c in mine if not str(c.get("matrix", "")).startswith("cancellation")][:150]
        if not sub: continue
        try:
            rr = progs.run_impl_cases(sub, real_backend=name)
        except Exception as e:
            sink.append(dict(kind="harness", concrete=False, what="real-backend run (%s) failed" % name, detail=str(e)[-800:])); continue
        for c, r in zip(sub, rr):
            tot += 1
            for v in oracle(c, r, None):
                v.update(kind="oracle", backend=name, case=dict(cfg=c["cfg"], prog=c["prog"], ins=c["ins"], backend=name))
                sink.append(v)
    cov["real_backend_runs"] = tot
    return sink[:6]


def run(tier, seed):
    pending = matrixcases.bigdiv_cases() + matrixcases.hash_then_use() + matrixcases.suppressed_operator_cases(tier) + matrixcases.cancellation_cases()
    return tracecheck.run(PID, tier, seed, PROFILE, oracle, n_quick=len(pending) + 450, n_thorough=len(pending) + 6000, mask=1 | 4 | 32, mutation_oracle=True, post=post,
                          casegen=matrixcases.with_pending(pending, PROFILE),
                          extra_assumptions=["C04_coherent_on_final_witness_partial assumes scoped_cmds (computed and checked true on every case of this run)",
                                             "the recorder's assignment is what a file-writing backend would be handed (C10-C12 check the files)"])


def replay(payload):
    import json
    print(json.dumps(payload, indent=1)[:3000])
    return run("quick", payload.get("seed", 1))
