"""Generator and native-control-flow twin for programs written with pysnark.branching's block API (C09).

Program shape: three secret inputs a, b, c (registers 0..2), BranchingValues variables x0..x3 (secret ints),
nested oif / owhile / ofor blocks whose bodies assign variables from small arithmetic over inputs, variables and
the loop index.  The twin executes the same structure with native if / while+break / for on plain ints."""
import random


class Ctx:
    def __init__(self, rnd, cfg, nvars=3):
        self.rnd = rnd; self.cfg = cfg; self.nreg = 3; self.nvars = nvars
        self.defined = set()
        self.lists = {}            # list-valued variable -> shape: [n] (flat) or [n, m] (nested)
        self.arrays = {}           # pysnark.array.Array-valued variable -> length (1-D)
        self.bools = set()         # variables holding secret booleans (LinCombBool: results of comparisons)

    def paths(self, v):
        sh = self.lists[v]
        return [[i] for i in range(sh[0])] if len(sh) == 1 else [[i, j] for i in range(sh[0]) for j in range(sh[1])]

    def reg(self):
        r = self.nreg; self.nreg += 1
        return r


def gen_expr(cx, out, depth_ix=None):
    """appends statements computing a small secret value; returns its register"""
    r = cx.rnd
    srcs = [0, 1, 2]
    vs = sorted(cx.defined)
    k = r.random()
    if cx.arrays and k < 0.2:
        # read an element of an Array-valued variable (public or secret index); the alias register is used at once and never again
        v = r.choice(sorted(cx.arrays))
        t = cx.reg(); out.append(["bget", t, v])
        a = cx.reg(); out.append(["arrget", a, t, array_indexes(cx, out, cx.arrays[v])])
    elif cx.lists and k < 0.25:
        v = r.choice(sorted(cx.lists))
        a = cx.reg(); out.append(["bgetidx", a, v, r.choice(cx.paths(v))])
    elif vs and k < 0.6:
        a = cx.reg(); out.append(["bget", a, r.choice(vs)])
    else:
        a = r.choice(srcs)
    if r.random() < 0.35: return a
    op = r.choice(["add", "add", "sub", "mul"])
    if depth_ix is not None and r.random() < 0.4:
        b = depth_ix
    elif r.random() < 0.5:
        b = cx.reg(); out.append(["const", b, ["int", r.choice([1, 2, 1, 3])]])
    else:
        b = r.choice(srcs)
    d = cx.reg(); out.append(["bin", d, op, a, b])
    return d


def array_index(cx, out, n):
    """register holding an index into an array of length n: mostly a public int, sometimes the secret input 2 (values 0..2)"""
    r = cx.rnd
    if n >= 3 and r.random() < 0.3: return 2
    i = cx.reg(); out.append(["const", i, ["int", r.randrange(0, n)]])
    return i


def array_indexes(cx, out, shape):
    """index list for a 1-D (shape = n) or 2-D (shape = (rows, cols)) array variable"""
    if isinstance(shape, int): return [array_index(cx, out, shape)]
    return [array_index(cx, out, shape[0]), array_index(cx, out, shape[1])]


def gen_cond(cx, out, depth_ix=None):
    r = cx.rnd
    if cx.bools and r.random() < 0.25:
        d = cx.reg(); out.append(["bget", d, r.choice(sorted(cx.bools))])
        return d
    a = gen_expr(cx, out, depth_ix)
    if r.random() < 0.5:
        b = cx.reg(); out.append(["const", b, ["int", r.choice([0, 1, 2, 3, 5])]])
    else:
        b = r.choice([0, 1, 2])
    d = cx.reg(); out.append(["bin", d, r.choice(["lt", "le", "eq", "ne", "gt", "ge"]), a, b])
    return d


def gen_body(cx, depth, length, ix=None, in_loop=False):
    r = cx.rnd
    out = []
    for _ in range(length):
        k = r.random()
        if (k < 0.55 or depth >= 2) and cx.bools and r.random() < 0.3:
            # a boolean-valued variable assigned inside the block: the merge acts on the wrapper objects
            v = r.choice(sorted(cx.bools))
            e = gen_cond(cx, out, ix)
            out.append(["bset", v, e])
        elif (k < 0.55 or depth >= 2) and cx.arrays and r.random() < 0.45:
            # in-place write into an Array-valued variable: _.v[i] = e
            v = r.choice(sorted(cx.arrays))
            e = gen_expr(cx, out, ix)
            out.append(["barrset", v, array_indexes(cx, out, cx.arrays[v]), e])
        elif (k < 0.55 or depth >= 2) and cx.lists and r.random() < 0.45:
            # in-place write into a (nested) list variable: _.v[i][j] = e
            v = r.choice(sorted(cx.lists))
            e = gen_expr(cx, out, ix)
            out.append(["bsetidx", v, r.choice(cx.paths(v)), e])
        elif k < 0.55 or depth >= 2:
            v = r.choice(sorted(cx.defined)) if cx.defined else 0
            e = gen_expr(cx, out, ix)
            out.append(["bset", v, e])
        elif k < 0.75:
            c = gen_cond(cx, out, ix)
            thenb = gen_body(cx, depth + 1, r.choice([1, 2]), ix, in_loop)
            elifs = []
            for _ in range(r.choice([0, 0, 0, 1, 1, 2, 3])):       # chains with several _elif: the running "no branch taken yet" condition
                cb = []
                cr = gen_cond(cx, cb, ix)
                elifs.append([cb, cr, gen_body(cx, depth + 1, r.choice([1, 2]), ix, in_loop)])
            elseb = gen_body(cx, depth + 1, r.choice([1, 2]), ix, in_loop) if r.random() < 0.6 else None
            out.append(["oif", c, thenb, elifs, elseb])
        elif k < 0.88:
            # for i in range(start, stop) with a secret stop capped by a public maximum
            start = r.choice([0, 0, 1])
            maxv = r.choice([2, 3, 4])
            stop = r.choice([0, 1, 2])          # register of an input (values are chosen <= max by the case builder mostly)
            i = cx.reg()
            body = gen_body(cx, depth + 1, r.choice([1, 2]), i, True)
            out.append(["ofor", i, start, stop, maxv, 1 if r.random() < 0.5 else 0, body])
        else:
            cb = []
            cr = gen_cond(cx, cb, ix)
            body = gen_body(cx, depth + 1, r.choice([1, 2]), ix, True)
            if r.random() < 0.4:
                bc = gen_cond(cx, body, ix)
                body.append(["breakif", bc])
                if r.random() < 0.5:
                    v = r.choice(sorted(cx.defined)); e = gen_expr(cx, body, ix); body.append(["bset", v, e])
            out.append(["owhile", cb, cr, r.choice([0, 1, 2, 3]), body])
    return out


def gen_case(rnd, moduli, bitlengths=(5, 6)):
    p = rnd.choice(moduli)
    n = rnd.choice(bitlengths)
    cfg = dict(p=p, n=n, res=2, ign=0)
    cx = Ctx(rnd, cfg)
    prog = [["input", 0, "priv", 0], ["input", 1, "priv", 1], ["input", 2, "priv", 2]]
    for v in range(cx.nvars):
        r0 = cx.reg()
        if rnd.random() < 0.5: prog.append(["constval", r0, rnd.choice([0, 1, 2])])
        else: prog.append(["bin", r0, "add", rnd.choice([0, 1, 2]), rnd.choice([0, 1, 2])])
        prog.append(["bset", v, r0]); cx.defined.add(v)
    if rnd.random() < 0.4:
        # a list-valued variable (flat or nested), built from fresh registers that are never used again
        v = cx.nvars
        shape = rnd.choice([[2], [3], [2, 2], [2, 2], [1, 3]])
        def elem():
            r0 = cx.reg()
            if rnd.random() < 0.5: prog.append(["constval", r0, rnd.choice([0, 1, 2, 7])])
            else: prog.append(["bin", r0, "add", rnd.choice([0, 1, 2]), rnd.choice([0, 1, 2])])
            return r0
        if len(shape) == 1:
            es = [elem() for _ in range(shape[0])]
            d = cx.reg(); prog.append(["list", d, es])
        else:
            rows = []
            for _ in range(shape[0]):
                es = [elem() for _ in range(shape[1])]
                rr = cx.reg(); prog.append(["list", rr, es]); rows.append(rr)
            d = cx.reg(); prog.append(["list", d, rows])
        prog.append(["bset", v, d]); cx.lists[v] = shape
    if rnd.random() < 0.35:
        # an Array-valued variable (pysnark.array.Array): written in place inside the blocks, merged as a whole at block exit
        v = cx.nvars + 1
        n = rnd.choice([2, 3, 3])
        es = []
        for _ in range(n):
            r0 = cx.reg()
            if rnd.random() < 0.5: prog.append(["constval", r0, rnd.choice([0, 1, 2, 7])])
            else: prog.append(["bin", r0, "add", rnd.choice([0, 1, 2]), rnd.choice([0, 1, 2])])
            es.append(r0)
        if rnd.random() < 0.4:
            # a 2-D Array (an Array of row Arrays): cells are written in place at public or secret row / column indexes
            rows = [es]
            for _ in range(rnd.choice([1, 2])):
                es2 = []
                for _ in range(n):
                    r0 = cx.reg(); prog.append(["constval", r0, rnd.choice([0, 1, 2, 7])]); es2.append(r0)
                rows.append(es2)
            rregs = []
            for rw in rows:
                rr = cx.reg(); prog.append(["arrnew", rr, rw]); rregs.append(rr)
            d = cx.reg(); prog.append(["arrnew", d, rregs]); prog.append(["bset", v, d]); cx.arrays[v] = (len(rows), n)
        else:
            d = cx.reg(); prog.append(["arrnew", d, es]); prog.append(["bset", v, d]); cx.arrays[v] = n
    if rnd.random() < 0.4:
        v = cx.nvars + 2
        c0 = gen_cond(cx, prog)
        prog.append(["bset", v, c0]); cx.bools.add(v)
    prog += gen_body(cx, 0, rnd.choice([1, 2, 2, 3]))
    for v in sorted(cx.defined) + sorted(cx.lists) + sorted(cx.arrays) + sorted(cx.bools):
        prog.append(["bget", cx.reg(), v])
    ins = [rnd.choice([0, 1, 2, 3]), rnd.choice([0, 1, 2, 3, 4]), rnd.choice([0, 1, 2])]
    return dict(cfg=cfg, prog=prog, ins=ins, arrays=sorted(cx.arrays))


def fixed_cases(p=None):
    """hand-written block programs for corners the random generator reaches rarely: a checked for loop (checkstopmax=True) whose
    secret bound is beyond the maximum or negative inside a branch that is not taken; public (plain int) conditions in _breakif and
    _elif next to secret ones; floor division / modulo by constants in branches not taken and in loop iterations past the bound"""
    import progs
    p = p or progs.BN
    out = []
    def case(prog, ins, tag):
        pr = [["input", 0, "priv", 0], ["input", 1, "priv", 1], ["input", 2, "priv", 2], ["constval", 10, 7], ["bset", 0, 10], ["constval", 11, 1], ["bset", 1, 11]]
        pr += prog + [["bget", 90, 0], ["bget", 91, 1]]
        out.append(dict(cfg=dict(p=p, n=6, res=2, ign=0), prog=pr, ins=ins, arrays=[], fixed=tag))
    acc = lambda i, t, u: [["bget", t, 0], ["bin", u, "add", t, i], ["bset", 0, u]]
    cond = [["const", 20, ["int", 1]], ["bin", 21, "eq", 0, 20]]                       # input 0 == 1
    # (1) checked for loop in a branch that is not taken / in the else of a taken branch / nested in an inactive loop iteration
    loop = ["ofor", 30, 0, 1, 3, 1, acc(30, 31, 32)]
    for ins in ([0, 5, 0], [0, 45, 0], [0, -1, 0], [1, 2, 0], [1, 3, 0]):
        case(cond + [["oif", 21, [loop], [], None]], ins, "checked-for-in-if")
    for ins in ([1, 5, 0], [1, -2, 0], [0, 2, 0]):
        case(cond + [["oif", 21, [["bset", 1, 20]], [], [loop]]], ins, "checked-for-in-else")
    for ins in ([1, 5, 0], [3, 9, 0], [0, 2, 2], [0, -3, 0]):
        case(cond + [["ofor", 40, 0, 2, 3, 0, [["ofor", 30, 0, 1, 3, 1, acc(30, 31, 32)]]]], ins, "checked-for-in-inactive-iteration")
    # (2) public conditions: _breakif on a plain int / on a comparison of the public loop index; _elif with a public condition
    for k in (0, 1):
        for ins in ([3, 0, 0], [1, 0, 0], [0, 0, 0]):
            wh = ["owhile", [["bget", 50, 1], ["const", 51, ["int", 0]], ["bin", 52, "gt", 0, 51]], 52, 3,
                  acc(20, 53, 54) + [["const", 55, ["int", k]], ["breakif", 55]]]
            case(cond + [wh], ins, "breakif-public-int")
    for kk in (0, 1, 2):
        for ins in ([3, 3, 0], [1, 2, 0], [0, 4, 0]):
            fl = ["ofor", 60, 0, 1, 4, 0, [["const", 61, ["int", kk]], ["bin", 62, "eq", 60, 61], ["breakif", 62]] + acc(60, 63, 64)]
            case(cond + [fl], ins, "breakif-public-index-comparison")
    for k in (0, 1):
        for ins in ([0, 0, 0], [1, 0, 0]):
            chain = ["oif", 21, [["bset", 0, 20]], [[[["const", 70, ["int", k]]], 70, [["constval", 71, 20], ["bset", 0, 71]]]], [["constval", 72, 30], ["bset", 0, 72]]]
            case(cond + [chain], ins, "elif-public-int")
    # (3) // and % by constants where the region is not taken
    for op in ("floordiv", "mod"):
        for ins in ([0, 7, 0], [1, 7, 0], [0, -7, 0]):
            dv = [["const", 80, ["int", 3]], ["bin", 81, op, 1, 80], ["bset", 0, 81]]
            case(cond + [["oif", 21, dv, [], None]], ins, "const-%s-in-if" % op)
            case(cond + [["oif", 21, [["bset", 1, 20]], [], dv]], ins, "const-%s-in-else" % op)
            case(cond + [["ofor", 82, 0, 0, 3, 0, dv]], ins, "const-%s-in-for" % op)
    return out


# ------------------------------------------------------------------ native twin

class Break(Exception):
    pass


class TwinError(Exception):
    pass


def twin(case, cap_for=True):
    """native control flow on plain ints; returns dict var -> value, or raises TwinError for programs outside the
    side conditions (stop > max with checkstopmax -> expected AssertionError is reported as ('assert',))"""
    regs = {}
    vals = {}
    ins = case["ins"]
    def ev(prog):
        for s in prog:
            op = s[0]
            if op == "input": regs[s[1]] = ins[s[3]]
            elif op == "const": regs[s[1]] = s[2][1]
            elif op == "constval": regs[s[1]] = s[2]
            elif op == "bin":
                a, b = regs[s[3]], regs[s[4]]
                if s[2] in ("lt", "le", "gt", "ge") and isinstance(a, int) and isinstance(b, int):
                    # a comparison is decided on a difference that has to fit the bitlength: outside that the library refuses (its documented domain)
                    d = {"lt": b - a - 1, "le": b - a, "gt": a - b - 1, "ge": a - b}[s[2]]
                    if abs(d).bit_length() > case["cfg"]["n"]: raise TwinError("overflow")
                regs[s[1]] = {"add": lambda: a + b, "sub": lambda: a - b, "mul": lambda: a * b, "lt": lambda: int(a < b), "le": lambda: int(a <= b),
                              "eq": lambda: int(a == b), "ne": lambda: int(a != b), "gt": lambda: int(a > b), "ge": lambda: int(a >= b),
                              "floordiv": lambda: a // b, "mod": lambda: a % b}[s[2]]()
            elif op == "bset":
                x = regs[s[2]]
                vals[s[1]] = ([list(r_) if isinstance(r_, list) else r_ for r_ in x] if isinstance(x, list) and s[1] in case.get("arrays", ()) else x)
            elif op == "bget": regs[s[1]] = vals[s[2]]
            elif op == "list": regs[s[1]] = [regs[i] for i in s[2]]
            elif op == "arrnew": regs[s[1]] = [regs[i] for i in s[2]]
            elif op == "arrget":
                t = regs[s[2]]
                for q in s[3]:
                    i = regs[q]
                    if not (0 <= i < len(t)): raise TwinError("index")
                    t = t[i]
                regs[s[1]] = t
            elif op == "barrset":
                t = vals[s[1]]
                for q in s[2][:-1]:
                    i = regs[q]
                    if not (0 <= i < len(t)): raise TwinError("index")
                    t = t[i]
                i = regs[s[2][-1]]
                if not (0 <= i < len(t)): raise TwinError("index")
                t[i] = regs[s[3]]
            elif op == "bsetidx":
                t = vals[s[1]]
                for i in s[2][:-1]: t = t[i]
                t[s[2][-1]] = regs[s[3]]
            elif op == "bgetidx":
                t = vals[s[2]]
                for i in s[3]: t = t[i]
                regs[s[1]] = t
            elif op == "oif":
                _, cn, thenb, elifs, elseb = s
                # the oblivious chain evaluates the condition of EVERY _elif (outside the previous branch's guard), also after a branch
                # was taken: a condition outside the library's domain there is outside the side conditions of the construct
                done = bool(regs[cn])
                if done: ev(thenb)
                for cb, cr, body in elifs:
                    ev(cb)
                    if not done and regs[cr]:
                        ev(body); done = True
                if not done and elseb is not None: ev(elseb)
            elif op == "owhile":
                _, cb, cr, iters, body = s
                k = 0
                try:
                    while True:
                        ev(cb)
                        if not (regs[cr] and k < iters): break
                        ev(body); k += 1
                except Break:
                    pass
            elif op == "breakif":
                if regs[s[1]]: raise Break()
            elif op == "ofor":
                _, ix, start, stop, maxv, check, body = s
                st = regs[stop]
                if st > maxv:
                    if check: raise TwinError("assert")
                    st = maxv                      # capped by the public maximum
                if st < start: raise TwinError("stop-below-start")
                try:
                    for i in range(start, st):
                        regs[ix] = i
                        ev(body)
                except Break:
                    pass
            else: raise TwinError("stmt " + op)
    ev(case["prog"])
    return vals
