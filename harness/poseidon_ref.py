"""Plain-integer Poseidon (permutation + sponge with 10* padding) and subset-sum hash, written from the algorithm
description; parameters are read from /repo's poseidon_constants.py with ast (never imported)."""
import ast, os


def load_params(repo):
    tree = ast.parse(open(os.path.join(repo, "pysnark", "poseidon_constants.py")).read())
    for n in tree.body:
        if isinstance(n, ast.Assign) and getattr(n.targets[0], "id", None) == "poseidon_constants": return ast.literal_eval(n.value)
    raise RuntimeError("poseidon_constants not found")


def permute(ps, p, st):
    st = [x % p for x in st]
    rc = ps["round_constants"]; M = ps["matrix"]; a = ps["a"]
    half = ps["R_F"] // 2
    def mix(s): return [sum(M[i][k] * s[k] for k in range(len(s))) % p for i in range(len(M))]
    r = 0
    for _ in range(half):
        st = mix([pow((x + c) % p, a, p) for x, c in zip(st, rc[r])]); r += 1
    for _ in range(ps["R_P"]):
        s = [(x + c) % p for x, c in zip(st, rc[r])]; s[0] = pow(s[0], a, p); st = mix(s); r += 1
    for _ in range(half):
        st = mix([pow((x + c) % p, a, p) for x, c in zip(st, rc[r])]); r += 1
    return st


def pad(rate, msg):
    return list(msg) + [1] + [0] * (rate - len(msg) % rate - 1)


def sponge(ps, p, msg):
    t = ps["t"]; rate = t - 1
    m = pad(rate, msg)
    st = [0] * t
    for i in range(0, len(m), rate):
        st = permute(ps, p, [st[0]] + [(x + y) % p for x, y in zip(st[1:], m[i:i + rate])])
    return st[1:]


def ggh(p, coeffs, bits):
    return sum(b * c for b, c in zip(bits, coeffs)) % p
