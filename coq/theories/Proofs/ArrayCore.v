(* Field-level core of pysnark.array (C15): the one-hot selector of a secret index.
   For an array of length n (n < p) and a secret index wire idx, Array.__getitem__ / __setitem__ build selectors
   e_i = (idx == i) -- each forced by the zero-test gadget to [idx = i] (AdvGadgets.eq_forced) --, assert sum(e_i) = 1,
   and read sum(e_i * a_i) / write a_i + e_i * (v - a_i).  For ANY assignment satisfying those constraints:
   the index is congruent to exactly one position j < n, the read returns a_j, the write replaces a_j by v and leaves every
   other element unchanged; an index outside 0..n-1 admits no satisfying assignment. *)
From Coq Require Import ZArith List Bool Lia Znumtheory Setoid Morphisms.
From PySnark.Base Require Import FieldZ.
Import ListNotations.
Open Scope Z_scope.

Section AC.
Variable p : Z.
Hypothesis Hp : prime p.
Notation "a == b" := (feq p a b) (at level 70).
Local Existing Instance feq_equiv.
Local Existing Instance feq_add.
Local Existing Instance feq_sub.
Local Existing Instance feq_mul.
Local Existing Instance feq_opp.

Lemma feq_dec a b : {a == b} + {~ a == b}.
Proof.
  destruct (Z.eq_dec ((a - b) mod p) 0) as [E|E].
  - left. exists ((a - b) / p). pose proof (prime_ge_2 _ Hp). pose proof (Z.div_mod (a - b) p ltac:(lia)). lia.
  - right. intros [k Hk]. apply E. rewrite Hk. apply Z.mod_mul. pose proof (prime_ge_2 _ Hp). lia.
Qed.

(* selectors for positions k, k+1, ... *)
Fixpoint selectors (idx : Z) (k : Z) (es : list Z) : Prop :=
  match es with [] => True | e :: es' => ((idx == k -> e == 1) /\ (~ idx == k -> e == 0)) /\ selectors idx (k + 1) es' end.
Fixpoint sum (es : list Z) : Z := match es with [] => 0 | e :: es' => e + sum es' end.
Fixpoint dot (es xs : list Z) : Z := match es, xs with e :: es', x :: xs' => e * x + dot es' xs' | _, _ => 0 end.
(* Array.__setitem__ : [if_then_else(ix, value, old)] = old + ix * (value - old) *)
Fixpoint upd (es xs : list Z) (v : Z) : list Z := match es, xs with e :: es', x :: xs' => (x + e * (v - x)) :: upd es' xs' v | _, _ => [] end.

Lemma distinct j k : 0 <= k < j -> j < p -> ~ j == k.
Proof. intros H1 H2 E. apply (feq_small_false p (j - k)); [lia|]. rewrite E. apply eq_feq. ring. Qed.

Lemma onehot idx : forall es xs k v, length xs = length es -> 0 <= k -> k + Z.of_nat (length es) <= p -> selectors idx k es ->
  (exists j, (j < length es)%nat /\ idx == k + Z.of_nat j /\ sum es == 1 /\ dot es xs == nth j xs 0 /\
             nth j (upd es xs v) 0 == v /\ forall i, (i < length es)%nat -> i <> j -> nth i (upd es xs v) 0 == nth i xs 0) \/
  ((forall j, (j < length es)%nat -> ~ idx == k + Z.of_nat j) /\ sum es == 0 /\ dot es xs == 0 /\
   forall i, (i < length es)%nat -> nth i (upd es xs v) 0 == nth i xs 0).
Proof.
  induction es as [|e es IH]; intros xs k v L Hk Hn S.
  - right. cbn. repeat split; try reflexivity; intros; lia.
  - destruct xs as [|x xs]; [discriminate L|]. cbn [length] in *. destruct S as [[S1 S0] S'].
    assert (L' : length xs = length es) by lia.
    specialize (IH xs (k + 1) v L' ltac:(lia) ltac:(lia) S').
    destruct (feq_dec idx k) as [E|E].
    + (* the index is this position: no later position matches *)
      left. exists 0%nat. rewrite Z.add_0_r. split; [lia|]. split; [exact E|].
      assert (T : (forall j, (j < length es)%nat -> ~ idx == k + 1 + Z.of_nat j) /\ sum es == 0 /\ dot es xs == 0 /\ forall i, (i < length es)%nat -> nth i (upd es xs v) 0 == nth i xs 0).
      { destruct IH as [[j [Hj [Ej _]]]|T]; [|exact T]. exfalso. apply (distinct (k + 1 + Z.of_nat j) k); [lia|lia|]. rewrite <- Ej. exact E. }
      destruct T as (_ & T1 & T2 & T3). cbn [sum dot upd nth]. rewrite (S1 E), T1, T2. repeat split; try (apply eq_feq; ring).
      intros i Hi Hne. destruct i as [|i]; [lia|]. cbn [nth]. apply T3. lia.
    + specialize (S0 E). destruct IH as [[j [Hj [Ej [Hs [Hd [Hu Ho]]]]]]|[Hno [Hs [Hd Ho]]]].
      * left. exists (S j). split; [lia|]. split; [rewrite Ej; apply eq_feq; lia|]. cbn [sum dot upd nth]. rewrite S0, Hs, Hd.
        repeat split; try (apply eq_feq; ring); try exact Hu.
        intros i Hi Hne. destruct i as [|i]; cbn [nth]; [rewrite S0; apply eq_feq; ring|]. apply Ho; lia.
      * right. split; [|cbn [sum dot upd]; rewrite S0, Hs, Hd; repeat split; try (apply eq_feq; ring)].
        -- intros j Hj. destruct j as [|j]; [rewrite Z.add_0_r; exact E|]. replace (k + Z.of_nat (S j)) with (k + 1 + Z.of_nat j) by lia. apply Hno. lia.
        -- intros i Hi. destruct i as [|i]; cbn [nth]; [rewrite S0; apply eq_feq; ring|]. apply Ho. lia.
Qed.

(* the access theorem: selectors forced by the zero tests + the asserted sum *)
Theorem array_access idx es xs v : length xs = length es -> Z.of_nat (length es) <= p -> selectors idx 0 es -> sum es == 1 ->
  exists j, (j < length es)%nat /\ idx == Z.of_nat j /\ dot es xs == nth j xs 0 /\ nth j (upd es xs v) 0 == v /\
            forall i, (i < length es)%nat -> i <> j -> nth i (upd es xs v) 0 == nth i xs 0.
Proof.
  intros L Hn S H1. destruct (onehot idx es xs 0 v L ltac:(lia) ltac:(lia) S) as [[j [Hj [Ej [_ [Hd [Hu Ho]]]]]]|[_ [H0 _]]].
  - exists j. rewrite Z.add_0_l in Ej. auto.
  - exfalso. apply (feq_small_false p 1); [pose proof (prime_ge_2 _ Hp); lia|]. rewrite <- H1. exact H0.
Qed.
(* an index outside the array cannot be proven *)
Theorem out_of_bounds_unprovable idx es : Z.of_nat (length es) <= p -> selectors idx 0 es -> (forall j, (j < length es)%nat -> ~ idx == Z.of_nat j) -> ~ sum es == 1.
Proof.
  intros Hn S Hno H1. destruct (onehot idx es (map (fun _ => 0) es) 0 0 ltac:(now rewrite map_length) ltac:(lia) ltac:(lia) S) as [[j [Hj [Ej _]]]|[_ [H0 _]]].
  - rewrite Z.add_0_l in Ej. exact (Hno j Hj Ej).
  - apply (feq_small_false p 1); [pose proof (prime_ge_2 _ Hp); lia|]. rewrite <- H1. exact H0.
Qed.
End AC.
