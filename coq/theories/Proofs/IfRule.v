(* C09: a Hoare rule for the oblivious if-block of the model (Prog.gen_top on [SOIf cond body [] None], i.e.
     if _if(cond): body
     _endif()
   on a BranchingValues object whose variables hold secret integers).  Whatever the body is -- any statements of the language, at any
   nesting -- if it satisfies a specification (run in the guarded state reached after _if it completes with the same context stack
   and variables [news]), then the whole block ends with every variable holding
       old + cond * (new - old)
   the value from the end of the body when the condition is 1 and the value from before the block when it is 0: what the native
   `if cond: body` computes.  Combines add_guard / restore_guard, the backup taken at entry and BranchContext.exit. *)
From Coq Require Import ZArith List Bool Lia Znumtheory.
From PySnark.Base Require Import FieldZ Bits.
From PySnark.Model Require Import Lc Sym Good Gadgets Api Prog.
From PySnark.Proofs Require Import Meta Frame Wp WpBase GadgetsOK ApiOK ProgOK MergeValues.
Import ListNotations.
Open Scope Z_scope.

Section IR.
Context {p : Z}.
Variable ins : list Z.
Variable ig : bool.
Hypothesis F : field_ok p.
Variable c : cfg.
Local Notation gst := (@Gadgets.gst p).
Local Notation slc := (Sym.slc p).
Local Notation pyval := (Api.pyval p).
Local Notation ve := (Sym.veval p ins ig).
Local Notation wp := (Wp.wp (p:=p) ins ig).
Local Notation Inv := (WpBase.Inv (p:=p) ins ig).
Local Notation bdict := (Prog.bdict (p:=p)).
Local Notation bst := (@Prog.bst p).
Local Notation bctx := (@Prog.bctx p).
Local Notation sc := (MergeValues.sc (p:=p)).
Local Notation pre := (MergeValues.pre ins ig).
Local Notation G1 := (@Gadgets.M p true).

(* wp through a bind, backwards *)
Lemma wp_bind_inv : forall lvl A B (m : M lvl A) (f : A -> M lvl B) s sg Q,
  wp (bind m f) s sg Q -> wp m s sg (fun a s' sg' => wp (f a) s' sg' Q).
Proof.
  intros lvl A B m. induction m as [A a|A e|A k IH|A h k IH|A h k IH|A k IH|A c0 k IH|A b e k IH|A X g i body IHb k IHk|A H g i o k IH];
    intros f s sg Q W; cbn [wp bind] in *; auto.
  - intros C. destruct (W C) as [W1 W2]. split; [exact W1|]. apply IH. exact W2.
  - intros C. eapply wp_mono; [|exact (W C)]. intros x s1 sg1 W1. cbn beta in *. apply IHk. exact W1.
Qed.
(* the anonymous block fixpoint inside gen_top is gen_stmts *)
Lemma wp_blk : forall (l : list stmt) (b0 : bst) s sg Q, wp (gen_stmts c l b0) s sg Q ->
  wp ((fix go (l : list stmt) (b0 : bst) : G1 bst :=
         match l with [] => ret b0 | s1 :: l' => b1 <- gen_top c s1 b0 ;; go l' b1 end) l b0) s sg Q.
Proof.
  induction l as [|s1 l IH]; intros b0 s sg Q H; [exact H|]. cbn [gen_stmts] in H. apply wp_bind. apply wp_bind_inv in H.
  eapply wp_mono; [|exact H]. intros b1 s1' sg1 H1. apply IH. exact H1.
Qed.

Definition lcs (d : list (nat * slc)) : bdict := map (fun nt => (fst nt, PLC (snd nt))) d.
Lemma deepcopy_lcs d : map (fun jv : nat * pyval => (fst jv, deepcopy (snd jv))) (lcs d) = lcs d.
Proof. unfold lcs. induction d as [|[nm x] d IH]; [reflexivity|]. cbn [map fst snd deepcopy]. f_equal. exact IH. Qed.
Lemma dget_lcs_in : forall d k x, NoDup (map fst d) -> In (k, x) d -> dget (lcs d) k = Some (PLC x).
Proof.
  induction d as [|[j y] d IH]; intros k x Hd H; [destruct H|]. cbn [lcs map dget fst snd]. inversion Hd as [|? ? Hn Hd']; subst.
  destruct H as [H|H].
  - inversion H; subst. rewrite Nat.eqb_refl. reflexivity.
  - destruct (Nat.eqb_spec k j) as [->|N]; [exfalso; apply Hn; exact (in_map fst _ _ H)|]. apply IH; assumption.
Qed.

(* the merged dictionary has the shape of the old one *)
Lemma dset_lcs_skip : forall (pd : list (nat * slc)) n t x rest, ~ In n (map fst pd) ->
  dset (lcs (pd ++ (n, t) :: rest)) n (PLC x) = lcs (pd ++ (n, x) :: rest).
Proof.
  induction pd as [|[j y] pd IH]; intros n t x rest Hn; cbn [app lcs map dset fst snd].
  - rewrite Nat.eqb_refl. reflexivity.
  - cbn [map fst] in Hn. destruct (Nat.eqb_spec n j) as [->|N]; [exfalso; apply Hn; left; reflexivity|].
    f_equal. apply IH. intros H. apply Hn. right. exact H.
Qed.
Lemma store_all_lcs_gen : forall (xs new pd : list (nat * slc)), map fst xs = map fst new -> NoDup (map fst pd ++ map fst new) ->
  store_all (lcs (pd ++ new)) xs = lcs (pd ++ xs).
Proof.
  induction xs as [|[n x] xs IH]; intros new pd Hm Hd; destruct new as [|[n' t] new]; try discriminate Hm; [reflexivity|].
  cbn [map fst] in Hm. inversion Hm as [[Hn Hm']]. subst n'. unfold store_all. cbn [fold_left fst snd]. fold (store_all (dset (lcs (pd ++ (n, t) :: new)) n (PLC x)) xs).
  rewrite dset_lcs_skip.
  - replace (pd ++ (n, x) :: new) with ((pd ++ [(n, x)]) ++ new) by (rewrite <- app_assoc; reflexivity).
    rewrite (IH new (pd ++ [(n, x)]) Hm').
    + rewrite <- app_assoc. reflexivity.
    + rewrite map_app. cbn [map fst]. rewrite <- app_assoc. exact Hd.
  - cbn [map fst] in Hd. apply NoDup_remove_2 in Hd. intros H. apply Hd. apply in_or_app. left. exact H.
Qed.
Lemma store_all_lcs (xs new : list (nat * slc)) : map fst xs = map fst new -> NoDup (map fst new) -> store_all (lcs new) xs = lcs xs.
Proof. intros Hm Hd. exact (store_all_lcs_gen xs new [] Hm Hd). Qed.

(* BranchContext.exit with the shape of the result: the merged variables, in the order of the dictionary *)
Definition merged (bak : bdict) (cb : slc) (sg : store) (s' : gst) (sg' : store) (nt nx : nat * slc) : Prop :=
  fst nx = fst nt /\ sc s' (snd nx) /\ exists f, dget bak (fst nt) = Some (PLC f) /\
  ve sg' (sval (snd nx)) = sel (ve sg (sval cb)) (ve sg (sval (snd nt))) (ve sg (sval f)).
Lemma ctx_exit_shape (cx : bctx) o cb (new : list (nat * slc)) s sg (Q : bdict * bdict -> gst -> store -> Prop) :
  Inv s sg -> tvalid ins ig (borig cx) s sg -> (bnodef cx = None \/ bnodef cx = Some []) -> bcond cx = PBool o cb -> sc s cb ->
  NoDup (map fst new) -> Forall (pre (bbak cx) s sg) new ->
  (forall xs s' sg', Inv s' sg' -> ext sg sg' -> Forall2 (merged (bbak cx) cb sg s' sg') new xs -> Q (lcs xs, []) s' sg') ->
  wp (ctx_exit c cx (lcs new)) s sg Q.
Proof.
  intros I V Hn Hc Scb Hd Hp HQ. unfold ctx_exit. apply wp_bind.
  apply (restore_guard_TOK ins ig (borig cx) s sg I V). intros _ s1 sg1 I1 E1 _.
  rewrite Hc.
  assert (Hall : Forall (fun nt : nat * slc => exists f, dget (bbak cx) (fst nt) = Some f) new).
  { eapply Forall_impl; [|exact Hp]. intros nt (_ & f & Hf & _). exists (PLC f). exact Hf. }
  assert (Hnd : wp (match bnodef cx with None => ret (filter (fun jv : nat * pyval => negb (dmem (bbak cx) (fst jv))) (lcs new)) | Some nd => merge_nodef c (PBool o cb) (lcs new) nd end) s1 sg1 (fun nodef s' sg' => nodef = [] /\ s' = s1 /\ sg' = sg1)).
  { destruct Hn as [Hn|Hn]; rewrite Hn; [unfold lcs; rewrite (filter_all_in_bak (bbak cx) new Hall)|cbn [merge_nodef]]; cbn [ret wp]; auto. }
  apply wp_bind. eapply wp_mono; [|exact Hnd]. intros nodef s' sg' (-> & -> & ->). cbn [ret bind fold_left wp].
  apply wp_bind.
  assert (C1 : cnt s sg) by exact (proj1 I). assert (C2 : cnt s1 sg1) by exact (proj1 I1).
  destruct (cnt_mono _ _ _ _ C1 C2 E1) as [M1 M2].
  assert (Scb1 : sc s1 cb) by (unfold MergeValues.sc in *; eapply vscopedb_mono; eauto).
  assert (Hp1 : Forall (pre (bbak cx) s1 sg1) new).
  { eapply Forall_impl; [|exact Hp]. intros nt (St & f & Hf & Sf & Hid). split; [unfold MergeValues.sc in *; eapply vscopedb_mono; eauto|].
    exists f. split; [exact Hf|]. split; [unfold MergeValues.sc in *; eapply vscopedb_mono; eauto|]. intros Es.
    rewrite (ve_ext ins ig _ _ _ _ C1 E1 St), (ve_ext ins ig _ _ _ _ C1 E1 Sf). exact (Hid Es). }
  unfold lcs at 1 2. apply (merge_bak_value ins ig c o cb (bbak cx) s1 sg1 I1 Scb1 new _ s1 sg1); [exact I1|apply ext_refl|exact Hp1|].
  intros xs s2 sg2 I2 E2 H2.
  assert (Names : map fst xs = map fst new).
  { clear - H2. induction H2 as [|nt nx new xs [A _] _ IH]; [reflexivity|]. cbn [map]. rewrite A, IH. reflexivity. }
  fold (lcs new). rewrite (store_all_lcs xs new Names Hd).
  assert (Hm : Forall2 (merged (bbak cx) cb sg s2 sg2) new xs).
  { rewrite Forall_forall in Hp. clear - H2 Hp C1 E1 Scb.
    induction H2 as [|nt nx new xs (A & B & f & D & V) _ IH]; constructor.
    - destruct (Hp nt (or_introl eq_refl)) as (St & f' & Hf' & Sf' & _). rewrite D in Hf'. inversion Hf'; subst f'.
      split; [exact A|]. split; [exact B|]. exists f. split; [exact D|]. rewrite V.
      rewrite (ve_ext ins ig _ _ _ _ C1 E1 St), (ve_ext ins ig _ _ _ _ C1 E1 Sf'), (ve_ext ins ig _ _ _ _ C1 E1 Scb). reflexivity.
    - apply IH. intros x Hx. apply Hp. right. exact Hx. }
  destruct (bk cx); cbn [ret wp]; (apply HQ; [exact I2|eapply ext_trans; eauto|exact Hm]).
Qed.

Theorem oif_rule (cn : nat) (thenb : list stmt) (b : bst) o cb (olds : list (nat * slc)) s sg
        (R : list (nat * slc) -> store -> Prop) (Q : bst -> gst -> store -> Prop) :
  Inv s sg -> rget (bregs b) cn = PBool o cb -> sc s cb -> bvals b = lcs olds ->
  (* the body, started in any state reached by entering the block (guard installed, backup taken) *)
  (forall orig ic s1 sg1, Inv s1 sg1 -> ext sg sg1 -> tvalid ins ig orig s1 sg1 ->
     let cx := {| bk := KIf; bcond := PBool o cb; bbak := lcs olds; borig := orig; bnodef := None; bicond := Some ic |} in
     wp (gen_stmts c thenb (with_stack b (cx :: bstack b))) s1 sg1
        (fun b2 s2 sg2 => Inv s2 sg2 /\ ext sg1 sg2 /\ bstack b2 = cx :: bstack b /\
           exists news, bvals b2 = lcs news /\ NoDup (map fst news) /\ Forall (pre (lcs olds) s2 sg2) news /\ R news sg2)) ->
  (* then the block as a whole *)
  (forall b3 s3 sg3 news sgb, Inv s3 sg3 -> ext sg sgb -> ext sgb sg3 -> R news sgb -> bstack b3 = bstack b ->
     (forall nm t, In (nm, t) news -> exists x f, dget (bvals b3) nm = Some (PLC x) /\ dget (lcs olds) nm = Some (PLC f) /\ sc s3 x /\
        ve sg3 (sval x) = sel (ve sg (sval cb)) (ve sgb (sval t)) (ve sgb (sval f))) ->
     Q b3 s3 sg3) ->
  wp (gen_top c (SOIf cn thenb [] None) b) s sg Q.
Proof.
  intros I Hc Scb Hv HB HQ. cbn [gen_top]. rewrite Hc. apply wp_bind.
  apply (bnot_v_TOK ins ig F c (PBool o cb) s sg I). intros ic s1 sg1 I1 E1 _.
  apply wp_bind. unfold ctx_enter. apply wp_bind.
  apply (add_guard_v_TOK ins ig c (PBool o cb) s1 sg1 I1). intros orig s2 sg2 I2 E2 T2. cbn [ret wp].
  rewrite Hv, deepcopy_lcs. apply wp_bind. apply wp_blk.
  assert (E02 : ext sg sg2) by (eapply ext_trans; eauto).
  eapply wp_mono; [|exact (HB orig ic s2 sg2 I2 E02 T2)]. cbv zeta.
  intros b2 s3 sg3 (I3 & E3 & Hs & news & Hn & Hd & Hp & HR). cbn [bind ret]. rewrite Hs.
  apply wp_bind. rewrite Hn.
  assert (T3 : tvalid ins ig orig s3 sg3) by exact (tvalid_mono ins ig _ _ _ _ _ T2 (proj1 I2) (proj1 I3) E3).
  assert (C0 : cnt s sg) by exact (proj1 I). assert (C3 : cnt s3 sg3) by exact (proj1 I3).
  assert (E03 : ext sg sg3) by (eapply ext_trans; eauto).
  assert (Scb3 : sc s3 cb) by exact (MergeValues.sc_mono s s3 sg sg3 cb C0 C3 E03 Scb).
  apply (ctx_exit_value ins ig c) with (o := o) (cb := cb) (new := news);
    try reflexivity; try assumption.
  intros r s4 sg4 I4 E4 Hl. cbn [ret wp snd fst bicond fold_left bstack with_stack with_vals].
  apply (HQ _ s4 sg4 news sg3); [exact I4|exact E03|exact E4|exact HR|reflexivity|].
  intros nm t Hin. destruct (Hl nm t Hin) as (x & f & A & B & Sx & Vx). exists x, f. repeat split; try assumption.
  rewrite Vx. rewrite (ve_ext ins ig _ _ _ _ C0 E03 Scb). reflexivity.
Qed.
(* ---- the step of every loop: WhileContext._while(nwcond) = exit the current guard period, and the conditions, enter the next ---- *)
Lemma and_bool_wp o1 a o2 b0 s sg (Q : pyval -> gst -> store -> Prop) : Inv s sg ->
  (forall m s' sg', Inv s' sg' -> ext sg sg' -> sc s' m -> ve sg' (sval m) = ve sg (sval a) * ve sg (sval b0) -> Q (PBool 0 m) s' sg') ->
  wp (Api.pyop (p:=p) c OAnd (PBool o1 a) (PBool o2 b0)) s sg Q.
Proof.
  intros I HQ. unfold pyop, FUEL. cbn [binop dispatch bool_dunder ensurebool bind ret same_class NI].
  apply wp_bind. apply wp_bind. apply mul_wp; [exact I|]. intros m s' sg' (I' & E' & _) Sm Vm _ _. unfold mkbool, raise_if. cbn [bind ret wp]. intros _ _.
  apply HQ; [exact I'|exact E'| |exact Vm]. unfold MergeValues.sc. unfold slc_scoped in Sm. apply andb_prop in Sm. exact (proj1 Sm).
Qed.
Lemma ctx_while_shape (cx : bctx) o cb (new : list (nat * slc)) o' nw s sg (Q : bctx * bdict -> gst -> store -> Prop) :
  Inv s sg -> tvalid ins ig (borig cx) s sg -> (bnodef cx = None \/ bnodef cx = Some []) -> bcond cx = PBool o cb -> sc s cb -> sc s nw ->
  NoDup (map fst new) -> Forall (pre (bbak cx) s sg) new ->
  (forall xs cc orig s' sg', Inv s' sg' -> ext sg sg' -> tvalid ins ig orig s' sg' -> Forall2 (merged (bbak cx) cb sg s' sg') new xs ->
     sc s' cc -> ve sg' (sval cc) = ve sg (sval cb) * ve sg (sval nw) ->
     Q ({| bk := KWhile; bcond := PBool 0 cc; bbak := lcs xs; borig := orig; bnodef := Some []; bicond := None |}, lcs xs) s' sg') ->
  wp (ctx_while c cx (lcs new) (PBool o' nw)) s sg Q.
Proof.
  intros I V Hn Hc Scb Snw Hd Hp HQ. unfold ctx_while. apply wp_bind.
  apply (ctx_exit_shape cx o cb new s sg); try assumption.
  intros xs s1 sg1 I1 E1 Hm. cbn [fst snd]. rewrite Hc. apply wp_bind. apply wp_lift.
  assert (C0 : cnt s sg) by exact (proj1 I). assert (C1 : cnt s1 sg1) by exact (proj1 I1).
  apply and_bool_wp; [exact I1|]. intros cc s2 sg2 I2 E2 Scc Vcc.
  apply wp_bind. unfold ctx_enter. apply wp_bind.
  apply (add_guard_v_TOK ins ig c (PBool 0 cc) s2 sg2 I2). intros orig s3 sg3 I3 E3 T3. cbn [ret wp]. rewrite deepcopy_lcs.
  assert (C2 : cnt s2 sg2) by exact (proj1 I2). assert (C3 : cnt s3 sg3) by exact (proj1 I3).
  assert (E23 : ext sg2 sg3) by exact E3. assert (E13 : ext sg1 sg3) by (eapply ext_trans; eauto).
  apply HQ; [exact I3|eapply ext_trans; eauto|exact T3| |exact (MergeValues.sc_mono s2 s3 sg2 sg3 cc C2 C3 E3 Scc)|].
  - clear - Hm C1 C3 E13. induction Hm as [|nt nx new xs (A & B & f & D & V) _ IH]; constructor; [|exact IH].
    split; [exact A|]. split; [exact (MergeValues.sc_mono s1 s3 sg1 sg3 _ C1 C3 E13 B)|]. exists f. split; [exact D|].
    rewrite (ve_ext ins ig _ _ _ _ C1 E13 B). exact V.
  - rewrite (ve_ext ins ig _ _ _ _ C2 E3 Scc), Vcc.
    rewrite (ve_ext ins ig _ _ _ _ C0 E1 Scb), (ve_ext ins ig _ _ _ _ C0 E1 Snw). reflexivity.
Qed.

Lemma bnot_v_bool_wp o cb s sg (Q : pyval -> gst -> store -> Prop) : Q (PBool 0 (bnot cb)) s sg -> wp (bnot_v c (PBool o cb)) s sg Q.
Proof. intros HQ. unfold bnot_v, mkbool, raise_if. apply wp_lift. cbn [bind wp ret]. intros _ _. exact HQ. Qed.
Lemma bnot_val sg (cb : slc) : ve sg (sval (bnot cb)) = 1 - ve sg (sval cb).
Proof. unfold bnot, rsubc. cbn [sval add neg constv]. esimp. ring. Qed.
Lemma bnot_sc s (cb : slc) : sc s cb -> sc s (bnot cb).
Proof. unfold MergeValues.sc, bnot, rsubc. cbn [sval add neg constv vscopedb]. intros H. rewrite H. reflexivity. Qed.
(* _breakif(c) inside a loop: the variables are merged under the accumulated condition and the loop continues under acc * (1 - c) *)
Theorem obreakif_rule (cn : nat) (b : bst) (cx : bctx) (rest : list bctx) o cb (new : list (nat * slc)) o' bc s sg (Q : bst -> gst -> store -> Prop) :
  Inv s sg -> bstack b = cx :: rest -> rget (bregs b) cn = PBool o' bc -> bvals b = lcs new ->
  tvalid ins ig (borig cx) s sg -> (bnodef cx = None \/ bnodef cx = Some []) -> bcond cx = PBool o cb -> sc s cb -> sc s bc ->
  NoDup (map fst new) -> Forall (pre (bbak cx) s sg) new ->
  (forall xs cc orig s' sg', Inv s' sg' -> ext sg sg' -> tvalid ins ig orig s' sg' -> Forall2 (merged (bbak cx) cb sg s' sg') new xs ->
     sc s' cc -> ve sg' (sval cc) = ve sg (sval cb) * (1 - ve sg (sval bc)) ->
     Q (with_stack (with_vals b (lcs xs)) ({| bk := KWhile; bcond := PBool 0 cc; bbak := lcs xs; borig := orig; bnodef := Some []; bicond := None |} :: rest)) s' sg') ->
  wp (gen_top c (SBreakIf cn) b) s sg Q.
Proof.
  intros I Hs Hc Hv T Hn Hcx Scb Sbc Hd Hp HQ. cbn [gen_top]. rewrite Hs, Hc. apply wp_bind. apply bnot_v_bool_wp.
  apply wp_bind. rewrite Hv. apply (ctx_while_shape cx o cb new 0 (bnot bc) s sg); try assumption; [apply bnot_sc; exact Sbc|].
  intros xs cc orig s' sg' I' E' T' Hm Scc Vcc. cbn [ret wp fst snd]. apply HQ; try assumption. rewrite Vcc, bnot_val. reflexivity.
Qed.

(* ---- the oblivious while loop:  k = 0; while _while(<condb>; regs[cr]) and k < iters: body; k += 1;  _endwhile() ---- *)
Section While.
Variables (condb body : list stmt) (cr iters : nat) (b : bst).
(* the user's loop invariant: after k iterations, the registers, the variables (secret integers), the accumulated condition -- the
   product of all conditions evaluated so far -- and a store in which their values are to be read *)
Variable J : nat -> regs (p:=p) -> list (nat * slc) -> slc -> store -> Prop.
Let blk := (fix go (l : list stmt) (b0 : bst) : G1 bst :=
              match l with [] => ret b0 | s1 :: l' => b1 <- gen_top c s1 b0 ;; go l' b1 end).
Let loop := (fix loop (k : nat) (b0 : bst) : G1 bst :=
               match k with
               | O => ret b0
               | S k' =>
                   b1 <- blk body b0 ;;
                   b2 <- blk condb b1 ;;
                   match bstack b2 with
                   | cx0 :: rest => r <- ctx_while c cx0 (bvals b2) (rget (bregs b2) cr) ;;
                                    loop k' (with_stack (with_vals b2 (snd r)) (fst r :: rest))
                   | [] => static_raise IndexError
                   end
               end).
(* the state at the head of the loop *)
Definition Head (k : nat) (b0 : bst) (s : gst) (sg : store) : Prop :=
  exists cx vals o cc sgJ, bstack b0 = cx :: bstack b /\ bvals b0 = lcs vals /\ bbak cx = lcs vals /\ bcond cx = PBool o cc /\
    (bnodef cx = None \/ bnodef cx = Some []) /\ tvalid ins ig (borig cx) s sg /\ sc s cc /\ NoDup (map fst vals) /\
    Forall (fun nt => sc s (snd nt)) vals /\ J k (bregs b0) vals cc sgJ /\ ext sgJ sg /\
    exists sJ, cnt sJ sgJ /\ Forall (fun nt => sc sJ (snd nt)) vals.
(* one iteration: body, then the condition, both under the current guard; the invariant is re-established from the merged values *)
Definition StepSpec : Prop :=
  forall k b0 cx vals o cc sgJ s1 sg1, (k < iters)%nat -> Inv s1 sg1 -> bstack b0 = cx :: bstack b -> bvals b0 = lcs vals -> bcond cx = PBool o cc ->
    J k (bregs b0) vals cc sgJ -> ext sgJ sg1 ->
    wp (gen_stmts c body b0) s1 sg1 (fun b1 s1' sg1' => wp (gen_stmts c condb b1) s1' sg1'
      (fun b2 s2 sg2 => Inv s2 sg2 /\ ext sg1 sg2 /\ bstack b2 = bstack b0 /\
         exists news o' nw, bvals b2 = lcs news /\ NoDup (map fst news) /\ Forall (pre (lcs vals) s2 sg2) news /\
           rget (bregs b2) cr = PBool o' nw /\ sc s2 nw /\
           (forall xs cc' s3 sg3, Inv s3 sg3 -> ext sg2 sg3 -> Forall2 (merged (lcs vals) cc sg2 s3 sg3) news xs -> sc s3 cc' ->
              ve sg3 (sval cc') = ve sg2 (sval cc) * ve sg2 (sval nw) -> J (S k) (bregs b2) xs cc' sg3))).

Lemma loop_wp (HS : StepSpec) : forall n k b0 s sg (Q : bst -> gst -> store -> Prop), (k + n = iters)%nat -> Inv s sg -> Head k b0 s sg ->
  (forall bl s' sg', Inv s' sg' -> ext sg sg' -> Head iters bl s' sg' -> Q bl s' sg') ->
  wp (loop n b0) s sg Q.
Proof.
  induction n as [|n IH]; intros k b0 s sg Q Hk I H HQ.
  - cbn [loop ret wp]. assert (Ek : k = iters) by lia. subst k. apply HQ; [exact I|apply ext_refl|exact H].
  - destruct H as (cx & vals & o & cc & sgJ & Hs & Hv & Hb & Hc & Hn & T & Scc & Hd & Hsv & HJ & EJ & _).
    change (loop (S n) b0) with (b1 <- blk body b0 ;; b2 <- blk condb b1 ;;
                                  match bstack b2 with
                                  | cx0 :: rest => r <- ctx_while c cx0 (bvals b2) (rget (bregs b2) cr) ;; loop n (with_stack (with_vals b2 (snd r)) (fst r :: rest))
                                  | [] => static_raise IndexError end).
    apply wp_bind. apply wp_blk. assert (Hlt : (k < iters)%nat) by lia.
    eapply wp_mono; [|exact (HS k b0 cx vals o cc sgJ s sg Hlt I Hs Hv Hc HJ EJ)]. intros b1 s1 sg1 W1. cbn beta in W1.
    apply wp_bind. apply wp_blk. eapply wp_mono; [|exact W1].
    intros b2 s2 sg2 (I2 & E2 & Hs2 & news & o' & nw & Hv2 & Hd2 & Hp2 & Hcr & Snw & Hnext). cbn beta.
    rewrite Hs2, Hs. apply wp_bind. rewrite Hv2, Hcr.
    assert (C0 : cnt s sg) by exact (proj1 I). assert (C2 : cnt s2 sg2) by exact (proj1 I2).
    apply (ctx_while_shape cx o cc news o' nw s2 sg2); try assumption.
    + exact (tvalid_mono ins ig _ _ _ _ _ T C0 C2 E2).
    + exact (MergeValues.sc_mono s s2 sg sg2 cc C0 C2 E2 Scc).
    + rewrite Hb. exact Hp2.
    + intros xs cc' orig s3 sg3 I3 E3 T3 Hm Scc' Vcc'. cbn [fst snd].
      assert (Names : map fst xs = map fst news).
      { clear - Hm. induction Hm as [|nt nx news xs [A _] _ IHm]; [reflexivity|]. cbn [map]. rewrite A, IHm. reflexivity. }
      apply (IH (S k)); [lia|exact I3| |].
      * exists {| bk := KWhile; bcond := PBool 0 cc'; bbak := lcs xs; borig := orig; bnodef := Some []; bicond := None |}, xs, 0, cc', sg3.
        cbn [bstack bvals bregs with_stack with_vals bbak bcond bnodef borig].
        split; [reflexivity|]. split; [reflexivity|]. split; [reflexivity|]. split; [reflexivity|]. split; [right; reflexivity|].
        split; [exact T3|]. split; [exact Scc'|]. split; [rewrite Names; exact Hd2|].
        assert (Sxs : Forall (fun nt : nat * slc => sc s3 (snd nt)) xs).
        { clear - Hm. induction Hm as [|nt nx news xs (A & B & _) _ IHm]; constructor; [exact B|exact IHm]. }
        split; [exact Sxs|]. split; [|split; [apply ext_refl|exists s3; split; [exact (proj1 I3)|exact Sxs]]].
        rewrite Hb in Hm. exact (Hnext xs cc' s3 sg3 I3 E3 Hm Scc' Vcc').
      * intros bl s' sg' I' E' H'. apply HQ; [exact I'| |exact H']. eapply ext_trans; [exact E2|]. eapply ext_trans; eauto.
Qed.

Theorem owhile_rule (HS : StepSpec) s sg (Q : bst -> gst -> store -> Prop) :
  Inv s sg ->
  (* the first evaluation of the condition (outside any guard of this loop) *)
  wp (gen_stmts c condb b) s sg (fun bc s1 sg1 => Inv s1 sg1 /\ ext sg sg1 /\ bstack bc = bstack b /\
     exists vals o0 c0, bvals bc = lcs vals /\ rget (bregs bc) cr = PBool o0 c0 /\ sc s1 c0 /\ NoDup (map fst vals) /\
       Forall (fun nt => sc s1 (snd nt)) vals /\ J 0 (bregs bc) vals c0 sg1) ->
  (* after the loop: the invariant after [iters] iterations; the variables hold the values of [vals] *)
  (forall b4 s4 sg4 vals cc sgJ xs, Inv s4 sg4 -> ext sg sg4 -> ext sgJ sg4 -> J iters (bregs b4) vals cc sgJ -> bstack b4 = bstack b -> bvals b4 = lcs xs ->
     Forall2 (fun nt nx => fst nx = fst nt /\ sc s4 (snd nx) /\ ve sg4 (sval (snd nx)) = ve sgJ (sval (snd nt))) vals xs -> Q b4 s4 sg4) ->
  wp (gen_top c (SOWhile condb cr iters body) b) s sg Q.
Proof.
  intros I H0 HQ. cbn [gen_top]. apply wp_bind. apply wp_blk. eapply wp_mono; [|exact H0].
  intros bc s1 sg1 (I1 & E1 & Hs1 & vals & o0 & c0 & Hv & Hcr & Sc0 & Hd & Hsv & HJ0). cbn beta.
  apply wp_bind. unfold ctx_enter. apply wp_bind. rewrite Hcr.
  apply (add_guard_v_TOK ins ig c (PBool o0 c0) s1 sg1 I1). intros orig s2 sg2 I2 E2 T2. cbn [ret wp].
  rewrite Hv, deepcopy_lcs. apply wp_bind.
  assert (C1 : cnt s1 sg1) by exact (proj1 I1). assert (C2 : cnt s2 sg2) by exact (proj1 I2).
  apply (loop_wp HS iters 0%nat); [lia|exact I2| |].
  - exists {| bk := KWhile; bcond := PBool o0 c0; bbak := lcs vals; borig := orig; bnodef := None; bicond := None |}, vals, o0, c0, sg1.
    cbn [bstack bvals bregs with_stack bbak bcond bnodef borig]. rewrite Hs1.
    split; [reflexivity|]. split; [exact Hv|]. split; [reflexivity|]. split; [reflexivity|]. split; [left; reflexivity|]. split; [exact T2|].
    split; [exact (MergeValues.sc_mono s1 s2 sg1 sg2 c0 C1 C2 E2 Sc0)|]. split; [exact Hd|].
    split; [eapply Forall_impl; [|exact Hsv]; intros nt Hn; exact (MergeValues.sc_mono s1 s2 sg1 sg2 _ C1 C2 E2 Hn)|].
    split; [exact HJ0|]. split; [exact E2|]. exists s1. split; [exact C1|exact Hsv].
  - intros bl s3 sg3 I3 E3 (cx & vs & o & cc & sgJ & Hs & Hvl & Hb & Hc & Hn & T & Scc & Hdl & Hsl & HJ & EJ & sJ & CJ & HsJ). cbn beta.
    rewrite Hs. apply wp_bind. rewrite Hvl.
    apply (ctx_exit_shape cx o cc vs s3 sg3); try assumption.
    + rewrite Hb. apply Forall_forall. intros [nm t] Hin. unfold MergeValues.pre. cbn [fst snd]. rewrite Forall_forall in Hsl.
      assert (St : sc s3 t) by exact (Hsl (nm, t) Hin). split; [exact St|]. exists t. split; [apply dget_lcs_in; assumption|]. split; [exact St|]. intros _. reflexivity.
    + intros xs s4 sg4 I4 E4 Hm. cbn [ret wp fst].
      apply (HQ _ s4 sg4 vs cc sgJ xs); [exact I4| |eapply ext_trans; eauto|exact HJ|reflexivity|reflexivity|].
      * eapply ext_trans; [exact E1|]. eapply ext_trans; [exact E2|]. eapply ext_trans; eauto.
      * rewrite Hb in Hm. rewrite Forall_forall in HsJ. clear - Hm Hdl EJ CJ HsJ.
        assert (K : forall nt nx, In nt vs -> merged (lcs vs) cc sg3 s4 sg4 nt nx -> fst nx = fst nt /\ sc s4 (snd nx) /\ ve sg4 (sval (snd nx)) = ve sgJ (sval (snd nt))).
        { intros [nm t] nx Hin (A & B & f & D & V). cbn [fst snd] in *. rewrite (dget_lcs_in _ _ _ Hdl Hin) in D. inversion D; subst f.
          split; [exact A|]. split; [exact B|]. rewrite V. unfold sel. assert (St : sc sJ t) by exact (HsJ (nm, t) Hin). rewrite (ve_ext ins ig _ _ _ _ CJ EJ St). ring. }
        clear Hdl HsJ. revert K. revert Hm. generalize (lcs vs). intros bk0 Hm.
        induction Hm as [|nt nx vs' xs' Hh _ IHm]; intros K; constructor.
        -- apply K; [left; reflexivity|exact Hh].
        -- apply IHm. intros nt0 nx0 Hi Hmm. apply K; [right; exact Hi|exact Hmm].
Qed.
End While.

(* ---- the oblivious for loop:  for i in _range(start, regs[stop], max=maxv): regs[ix] = i; body;  _endfor()  (checkstopmax off) ---- *)
Lemma ne_stop_wp (i : Z) (sx : slc) s sg (Q : pyval -> gst -> store -> Prop) : Inv s sg ->
  (forall r s' sg', Inv s' sg' -> ext sg sg' -> sc s' r -> ve sg' (sval r) = (if i =? ve sg (sval sx) then 0 else 1) -> Q (PBool 0 r) s' sg') ->
  wp (Api.pyop (p:=p) c ONe (PInt i) (PLC sx)) s sg Q.
Proof.
  intros I HQ. unfold pyop, FUEL. cbn [binop dispatch lc_dunder lc_rdunder bind ret uneg same_class m_check_nonzero NI].
  repeat apply wp_bind. apply check_zero_wp; [exact F|exact I|]. intros r s' sg' (I' & E' & _) Sr _ V. cbn [ret wp bind].
  apply HQ; [exact I'|exact E'| |].
  - apply bnot_sc. unfold MergeValues.sc. unfold slc_scoped in Sr. apply andb_prop in Sr. exact (proj1 Sr).
  - rewrite bnot_val, V. unfold addc. cbn [sval add neg constv]. esimp.
    destruct (Z.eqb_spec (ve sg (sval sx) + - i) 0), (Z.eqb_spec i (ve sg (sval sx))); try reflexivity; lia.
Qed.
Lemma name_store_int_wp (b0 : bst) (d : nat) (i : Z) s sg (Q : bst -> gst -> store -> Prop) : Inv s sg ->
  (forall s' sg', Inv s' sg' -> ext sg sg' -> cur_triple s' = cur_triple s -> Q (with_regs b0 (rset (bregs b0) d (PInt i))) s' sg') ->
  wp (name_store b0 d (PInt i)) s sg Q.
Proof.
  intros I HQ. unfold name_store. cbn [name_val lift bind ret]. apply wp_bind. apply wp_lift.
  apply (OK_emit_out_val ins ig (PInt i) s sg); [exact I|]. intros _ s' sg' (I' & E' & T'). cbn [ret wp]. apply HQ; assumption.
Qed.

Section For.
Variables (body : list stmt) (ix : nat) (start : Z) (stop : nat) (maxv : Z) (b : bst) (sx : slc).
(* after k iterations (index start + k is about to run): registers, variables, accumulated condition, store *)
Variable J : nat -> regs (p:=p) -> list (nat * slc) -> slc -> store -> Prop.
(* after the last iteration has been merged *)
Variable Jend : regs (p:=p) -> list (nat * slc) -> store -> Prop.
Let n := Z.to_nat (maxv - start - 1).
Let blk := (fix go (l : list stmt) (b0 : bst) : G1 bst :=
              match l with [] => ret b0 | s1 :: l' => b1 <- gen_top c s1 b0 ;; go l' b1 end).
Let ne_stop (i : Z) : G1 pyval := lift (Api.pyop (p:=p) c ONe (PInt i) (PLC sx)).
Let loop := (fix loop (k : nat) (i : Z) (b0 : bst) : G1 bst :=
               b1 <- name_store b0 ix (PInt i) ;;
               b2 <- blk body b1 ;;
               match k with
               | O => ret b2
               | S k' =>
                   cj <- ne_stop (i + 1) ;;
                   match bstack b2 with
                   | cx0 :: rest => r <- ctx_while c cx0 (bvals b2) cj ;;
                                    loop k' (i + 1) (with_stack (with_vals b2 (snd r)) (fst r :: rest))
                   | [] => static_raise IndexError
                   end
               end).
Definition HeadF (k : nat) (b0 : bst) (s : gst) (sg : store) : Prop :=
  exists cx vals o cc sgJ, bstack b0 = cx :: bstack b /\ bvals b0 = lcs vals /\ bbak cx = lcs vals /\ bcond cx = PBool o cc /\
    (bnodef cx = None \/ bnodef cx = Some []) /\ tvalid ins ig (borig cx) s sg /\ sc s cc /\ sc s sx /\ NoDup (map fst vals) /\
    J k (bregs b0) vals cc sgJ /\ ext sgJ sg.
(* one iteration: the index register is set, the body runs under the current guard *)
Definition StepSpecF : Prop :=
  forall k b0 cx vals o cc sgJ s1 sg1, (k <= n)%nat -> Inv s1 sg1 -> bstack b0 = cx :: bstack b -> bvals b0 = lcs vals -> bcond cx = PBool o cc ->
    J k (bregs b0) vals cc sgJ -> ext sgJ sg1 ->
    wp (gen_stmts c body (with_regs b0 (rset (bregs b0) ix (PInt (start + Z.of_nat k))))) s1 sg1
      (fun b2 s2 sg2 => Inv s2 sg2 /\ ext sg1 sg2 /\ bstack b2 = bstack b0 /\
         exists news, bvals b2 = lcs news /\ NoDup (map fst news) /\ Forall (pre (lcs vals) s2 sg2) news /\
           (* another iteration follows: the invariant for index start + k + 1, under acc * [start + k + 1 <> stop] *)
           ((k < n)%nat -> forall xs cc' s3 sg3 sgc, Inv s3 sg3 -> ext sg2 sgc -> ext sgc sg3 -> Forall2 (merged (lcs vals) cc sgc s3 sg3) news xs -> sc s3 cc' ->
              ve sg3 (sval cc') = ve sg2 (sval cc) * (if (start + Z.of_nat k + 1) =? ve sg2 (sval sx) then 0 else 1) -> J (S k) (bregs b2) xs cc' sg3) /\
           (* the last iteration: its values are merged by _endfor *)
           (k = n -> forall xs s3 sg3, Inv s3 sg3 -> ext sg2 sg3 -> Forall2 (merged (lcs vals) cc sg2 s3 sg3) news xs -> Jend (bregs b2) xs sg3)).

Lemma loopF_wp (HS : StepSpecF) : forall m k b0 s sg (Q : bst -> gst -> store -> Prop), (k + m = n)%nat -> Inv s sg -> HeadF k b0 s sg ->
  (forall bl cx vals o cc news s' sg', Inv s' sg' -> ext sg sg' -> bstack bl = cx :: bstack b -> bvals bl = lcs news -> bbak cx = lcs vals -> bcond cx = PBool o cc ->
     (bnodef cx = None \/ bnodef cx = Some []) -> tvalid ins ig (borig cx) s' sg' -> sc s' cc -> NoDup (map fst news) -> Forall (pre (lcs vals) s' sg') news ->
     (forall xs s3 sg3, Inv s3 sg3 -> ext sg' sg3 -> Forall2 (merged (lcs vals) cc sg' s3 sg3) news xs -> Jend (bregs bl) xs sg3) -> Q bl s' sg') ->
  wp (loop m (start + Z.of_nat k) b0) s sg Q.
Proof.
  induction m as [|m IH]; intros k b0 s sg Q Hk I H HQ;
    destruct H as (cx & vals & o & cc & sgJ & Hs & Hv & Hb & Hc & Hn & T & Scc & Ssx & Hd & HJ & EJ).
  - assert (Ek : k = n) by lia.
    change (loop 0%nat (start + Z.of_nat k) b0) with (b1 <- name_store b0 ix (PInt (start + Z.of_nat k)) ;; b2 <- blk body b1 ;; ret b2).
    apply wp_bind. apply name_store_int_wp; [exact I|]. intros s1 sg1 I1 E1 _. apply wp_bind. apply wp_blk.
    assert (Hle : (k <= n)%nat) by lia. assert (EJ1 : ext sgJ sg1) by (eapply ext_trans; eauto).
    eapply wp_mono; [|exact (HS k b0 cx vals o cc sgJ s1 sg1 Hle I1 Hs Hv Hc HJ EJ1)].
    intros b2 s2 sg2 (I2 & E2 & Hs2 & news & Hv2 & Hd2 & Hp2 & _ & Hlast). cbn [ret wp].
    assert (C0 : cnt s sg) by exact (proj1 I). assert (C2 : cnt s2 sg2) by exact (proj1 I2). assert (E02 : ext sg sg2) by (eapply ext_trans; eauto).
    apply (HQ b2 cx vals o cc news s2 sg2); try assumption.
    + rewrite Hs2. exact Hs.
    + exact (tvalid_mono ins ig _ _ _ _ _ T C0 C2 E02).
    + exact (MergeValues.sc_mono s s2 sg sg2 cc C0 C2 E02 Scc).
    + exact (Hlast Ek).
  - change (loop (S m) (start + Z.of_nat k) b0) with
      (b1 <- name_store b0 ix (PInt (start + Z.of_nat k)) ;; b2 <- blk body b1 ;;
       cj <- ne_stop (start + Z.of_nat k + 1) ;;
       match bstack b2 with
       | cx0 :: rest => r <- ctx_while c cx0 (bvals b2) cj ;; loop m (start + Z.of_nat k + 1) (with_stack (with_vals b2 (snd r)) (fst r :: rest))
       | [] => static_raise IndexError end).
    apply wp_bind. apply name_store_int_wp; [exact I|]. intros s1 sg1 I1 E1 _. apply wp_bind. apply wp_blk.
    assert (Hle : (k <= n)%nat) by lia. assert (Hlt : (k < n)%nat) by lia. assert (EJ1 : ext sgJ sg1) by (eapply ext_trans; eauto).
    eapply wp_mono; [|exact (HS k b0 cx vals o cc sgJ s1 sg1 Hle I1 Hs Hv Hc HJ EJ1)].
    intros b2 s2 sg2 (I2 & E2 & Hs2 & news & Hv2 & Hd2 & Hp2 & Hnext & _).
    assert (C0 : cnt s sg) by exact (proj1 I). assert (C2 : cnt s2 sg2) by exact (proj1 I2). assert (E02 : ext sg sg2) by (eapply ext_trans; eauto).
    assert (Ssx2 : sc s2 sx) by exact (MergeValues.sc_mono s s2 sg sg2 sx C0 C2 E02 Ssx).
    assert (Scc2 : sc s2 cc) by exact (MergeValues.sc_mono s s2 sg sg2 cc C0 C2 E02 Scc).
    apply wp_bind. unfold ne_stop. apply wp_lift. apply ne_stop_wp; [exact I2|]. intros nw s3 sg3 I3 E3 Snw Vnw.
    rewrite Hs2, Hs. apply wp_bind. rewrite Hv2.
    assert (C3 : cnt s3 sg3) by exact (proj1 I3). assert (E03 : ext sg sg3) by (eapply ext_trans; eauto).
    apply (ctx_while_shape cx o cc news 0 nw s3 sg3); try assumption.
    + exact (tvalid_mono ins ig _ _ _ _ _ T C0 C3 E03).
    + exact (MergeValues.sc_mono s2 s3 sg2 sg3 cc C2 C3 E3 Scc2).
    + rewrite Hb. eapply Forall_impl; [|exact Hp2]. intros nt (St & f & Hf & Sf & Hid). split; [exact (MergeValues.sc_mono s2 s3 sg2 sg3 _ C2 C3 E3 St)|].
      exists f. split; [exact Hf|]. split; [exact (MergeValues.sc_mono s2 s3 sg2 sg3 _ C2 C3 E3 Sf)|]. intros Es.
      rewrite (ve_ext ins ig _ _ _ _ C2 E3 St), (ve_ext ins ig _ _ _ _ C2 E3 Sf). exact (Hid Es).
    + intros xs cc' orig s4 sg4 I4 E4 T4 Hm Scc' Vcc'. cbn [fst snd].
      assert (Names : map fst xs = map fst news).
      { clear - Hm. induction Hm as [|nt nx news xs [A _] _ IHm]; [reflexivity|]. cbn [map]. rewrite A, IHm. reflexivity. }
      replace (start + Z.of_nat k + 1) with (start + Z.of_nat (S k)) by lia.
      apply (IH (S k)); [lia|exact I4| |].
      * exists {| bk := KWhile; bcond := PBool 0 cc'; bbak := lcs xs; borig := orig; bnodef := Some []; bicond := None |}, xs, 0, cc', sg4.
        cbn [bstack bvals bregs with_stack with_vals bbak bcond bnodef borig].
        split; [reflexivity|]. split; [reflexivity|]. split; [reflexivity|]. split; [reflexivity|]. split; [right; reflexivity|].
        split; [exact T4|]. split; [exact Scc'|]. split; [exact (MergeValues.sc_mono s3 s4 sg3 sg4 sx C3 (proj1 I4) E4 (MergeValues.sc_mono s2 s3 sg2 sg3 sx C2 C3 E3 Ssx2))|].
        split; [rewrite Names; exact Hd2|]. split; [|apply ext_refl].
        rewrite Hb in Hm. apply (Hnext Hlt xs cc' s4 sg4 sg3 I4 E3 E4 Hm Scc').
        rewrite Vcc'. rewrite (ve_ext ins ig _ _ _ _ C2 E3 Scc2), Vnw. replace (start + Z.of_nat (S k)) with (start + Z.of_nat k + 1) by lia. reflexivity.
      * intros bl cx' vals' o'' cc'' news' s' sg' I' E' A1 A2 A3 A4 A5 A6 A7 A8 A9 A10. apply (HQ bl cx' vals' o'' cc'' news' s' sg'); try assumption.
        eapply ext_trans; [exact E1|]. eapply ext_trans; [exact E2|]. eapply ext_trans; [exact E3|]. eapply ext_trans; eauto.
Qed.

Theorem ofor_rule (HS : StepSpecF) (check : bool) (vals0 : list (nat * slc)) s sg (Q : bst -> gst -> store -> Prop) :
  Inv s sg -> rget (bregs b) stop = PLC sx -> sc s sx -> bvals b = lcs vals0 -> NoDup (map fst vals0) ->
  (* the invariant before the first iteration, under the condition [start <> stop] *)
  (forall cc s1 sg1, Inv s1 sg1 -> ext sg sg1 -> sc s1 cc -> ve sg1 (sval cc) = (if start =? ve sg (sval sx) then 0 else 1) -> J 0%nat (bregs b) vals0 cc sg1) ->
  (forall b4 s4 sg4 xs, Inv s4 sg4 -> ext sg sg4 -> Jend (bregs b4) xs sg4 -> bstack b4 = bstack b -> bvals b4 = lcs xs -> Q b4 s4 sg4) ->
  wp (gen_top c (SOFor ix start stop maxv check body) b) s sg Q.
Proof.
  intros I Hst Ssx Hv Hd H0 HQ. cbn [gen_top]. rewrite Hst. apply wp_bind. apply wp_lift. apply ne_stop_wp; [exact I|].
  intros c0 s1 sg1 I1 E1 Sc0 Vc0. apply wp_bind. unfold ctx_enter. apply wp_bind.
  apply (add_guard_v_TOK ins ig c (PBool 0 c0) s1 sg1 I1). intros orig s2 sg2 I2 E2 T2. cbn [ret wp].
  rewrite Hv, deepcopy_lcs. apply wp_bind.
  assert (C0 : cnt s sg) by exact (proj1 I). assert (C1 : cnt s1 sg1) by exact (proj1 I1). assert (C2 : cnt s2 sg2) by exact (proj1 I2).
  assert (E02 : ext sg sg2) by (eapply ext_trans; eauto).
  match goal with |- wp (_ _ _ ?B0) s2 sg2 ?K => pose proof (loopF_wp HS n 0%nat B0 s2 sg2 K) as W end.
  cbn [Z.of_nat] in W. rewrite Z.add_0_r in W. apply W; [lia|exact I2| |]; clear W.
  - exists {| bk := KWhile; bcond := PBool 0 c0; bbak := lcs vals0; borig := orig; bnodef := None; bicond := None |}, vals0, 0, c0, sg1.
    cbn [bstack bvals bregs with_stack bbak bcond bnodef borig].
    split; [reflexivity|]. split; [exact Hv|]. split; [reflexivity|]. split; [reflexivity|]. split; [left; reflexivity|]. split; [exact T2|].
    split; [exact (MergeValues.sc_mono s1 s2 sg1 sg2 c0 C1 C2 E2 Sc0)|]. split; [exact (MergeValues.sc_mono s s2 sg sg2 sx C0 C2 E02 Ssx)|]. split; [exact Hd|].
    split; [exact (H0 c0 s1 sg1 I1 E1 Sc0 Vc0)|exact E2].
  - intros bl cx vals o cc news s3 sg3 I3 E3 Hs Hvl Hb Hc Hn T Scc Hdl Hp Hend.
    assert (C3 : cnt s3 sg3) by exact (proj1 I3).
    assert (Ssx3 : sc s3 sx) by exact (MergeValues.sc_mono s s3 sg sg3 sx C0 C3 (ext_trans _ _ _ E02 E3) Ssx).
    (* the optional check (checkstopmax): one more condition, and-ed with the accumulated one, asserted zero; then _endfor *)
    assert (Tail : forall s5 sg5, Inv s5 sg5 -> ext sg3 sg5 ->
              wp (vn <- ctx_exit c cx (lcs news) ;; ret (with_stack (with_vals bl (fst vn)) (bstack b))) s5 sg5 Q).
    { intros s5 sg5 I5 E5. assert (C5 : cnt s5 sg5) by exact (proj1 I5). apply wp_bind.
      apply (ctx_exit_shape cx o cc news s5 sg5); try assumption.
      - exact (tvalid_mono ins ig _ _ _ _ _ T C3 C5 E5).
      - exact (MergeValues.sc_mono s3 s5 sg3 sg5 cc C3 C5 E5 Scc).
      - rewrite Hb. eapply Forall_impl; [|exact Hp]. intros nt (St & f & Hf & Sf & Hid). split; [exact (MergeValues.sc_mono s3 s5 sg3 sg5 _ C3 C5 E5 St)|].
        exists f. split; [exact Hf|]. split; [exact (MergeValues.sc_mono s3 s5 sg3 sg5 _ C3 C5 E5 Sf)|]. intros Es.
        rewrite (ve_ext ins ig _ _ _ _ C3 E5 St), (ve_ext ins ig _ _ _ _ C3 E5 Sf). exact (Hid Es).
      - intros xs s4 sg4 I4 E4 Hm. cbn [ret wp fst].
        apply (HQ _ s4 sg4 xs); [exact I4| | |reflexivity|reflexivity].
        + eapply ext_trans; [exact E02|]. eapply ext_trans; [exact E3|]. eapply ext_trans; eauto.
        + rewrite Hb in Hm. apply (Hend xs s4 sg4 I4 (ext_trans _ _ _ E5 E4)).
          rewrite Forall_forall in Hp. clear - Hm Hp C3 E5 Scc.
          induction Hm as [|nt nx news xs (A & B & f & D & V) _ IHm]; constructor.
          * destruct (Hp nt (or_introl eq_refl)) as (St & f' & Hf' & Sf' & _). rewrite D in Hf'. inversion Hf'; subst f'.
            split; [exact A|]. split; [exact B|]. exists f. split; [exact D|]. rewrite V.
            rewrite (ve_ext ins ig _ _ _ _ C3 E5 St), (ve_ext ins ig _ _ _ _ C3 E5 Sf'), (ve_ext ins ig _ _ _ _ C3 E5 Scc). reflexivity.
          * apply IHm. intros x Hx. apply Hp. right. exact Hx. }
    rewrite Hs, Hvl. destruct check.
    + apply wp_bind. apply wp_bind. apply wp_lift. apply ne_stop_wp; [exact I3|]. intros cl s4 sg4 I4 E4 Scl Vcl.
      apply wp_bind. apply wp_lift. rewrite Hc. apply and_bool_wp; [exact I4|]. intros a s5 sg5 I5 E5 Sa Va. apply wp_lift.
      apply (OK_assert_zero ins ig a s5 sg5); [exact I5|]. intros _ s6 sg6 (I6 & E6 & _).
      cbn beta. apply Tail; [exact I6|]. eapply ext_trans; [exact E4|]. eapply ext_trans; eauto.
    + cbn [bind ret]. apply Tail; [exact I3|apply ext_refl].
Qed.
End For.

(* ---- if / elif* / else chains ---- *)
Section Chain.
Variables (es : list (list stmt * nat * list stmt)) (elseb : option (list stmt)) (b : bst).
(* at the head of the chain, before branch j is examined: registers, the values the previous branch left (not yet merged), the backup it is
   merged against, the previous branch's effective condition cj and the running "no branch taken yet" condition icj *)
Variable JC : nat -> regs (p:=p) -> list (nat * slc) -> list (nat * slc) -> slc -> slc -> store -> Prop.
(* after the condition of branch j was evaluated (outside the previous branch's guard) *)
Variable JM : nat -> regs (p:=p) -> list (nat * slc) -> slc -> slc -> store -> Prop.
(* after the else body (or after the chain when there is no else): what _endif merges *)
Variable JE : regs (p:=p) -> list (nat * slc) -> list (nat * slc) -> slc -> store -> Prop.
Let blk := (fix go (l : list stmt) (b0 : bst) : G1 bst :=
              match l with [] => ret b0 | s1 :: l' => b1 <- gen_top c s1 b0 ;; go l' b1 end).
Let chain := (fix chain (es : list (list stmt * nat * list stmt)) (b0 : bst) : G1 bst :=
               match es with
               | [] => ret b0
               | (condb, cr, body) :: es' =>
                   match bstack b0 with
                   | cx0 :: rest =>
                       vn <- ctx_exit c cx0 (bvals b0) ;;
                       bc <- blk condb (with_stack (with_vals b0 (fst vn)) rest) ;;
                       let nw := rget (bregs bc) cr in
                       match bicond cx0 with
                       | Some ic0 =>
                           nn <- bnot_v c nw ;; nwic <- lift (Api.pyop (p:=p) c OAnd ic0 nn) ;;
                           en <- lift (Api.pyop (p:=p) c OAnd ic0 nw) ;;
                           cx1 <- ctx_enter c KIf (bvals bc) en (Some (snd vn)) (Some nwic) ;;
                           bb <- blk body (with_stack bc (cx1 :: bstack bc)) ;;
                           chain es' bb
                       | None => static_raise TypeError
                       end
                   | [] => static_raise IndexError
                   end
               end).
Definition HeadC (j : nat) (b0 : bst) (s : gst) (sg : store) : Prop :=
  exists cx0 news baks o cj oi icj sgJ, bstack b0 = cx0 :: bstack b /\ bvals b0 = lcs news /\ bbak cx0 = lcs baks /\ bcond cx0 = PBool o cj /\
    bicond cx0 = Some (PBool oi icj) /\ (bnodef cx0 = None \/ bnodef cx0 = Some []) /\ tvalid ins ig (borig cx0) s sg /\ sc s cj /\ sc s icj /\
    NoDup (map fst news) /\ Forall (pre (lcs baks) s sg) news /\ JC j (bregs b0) news baks cj icj sgJ /\ ext sgJ sg.
Definition CondSpec : Prop :=
  forall j condb cr body, nth_error es j = Some (condb, cr, body) ->
  forall b0 news baks cj icj sgJ xs sgm s1 sg1, JC j (bregs b0) news baks cj icj sgJ -> ext sgJ sgm -> ext sgm sg1 -> Inv s1 sg1 ->
    Forall2 (merged (lcs baks) cj sgm s1 sg1) news xs ->
    wp (gen_stmts c condb (with_stack (with_vals b0 (lcs xs)) (bstack b))) s1 sg1
       (fun bc s2 sg2 => Inv s2 sg2 /\ ext sg1 sg2 /\ bstack bc = bstack b /\ bvals bc = lcs xs /\
          exists o' nw, rget (bregs bc) cr = PBool o' nw /\ sc s2 nw /\ JM j (bregs bc) xs icj nw sg2).
Definition BodySpec : Prop :=
  forall j condb cr body, nth_error es j = Some (condb, cr, body) ->
  forall bc xs icj nw sgM en nwic orig s3 sg3, JM j (bregs bc) xs icj nw sgM -> ext sgM sg3 -> Inv s3 sg3 -> tvalid ins ig orig s3 sg3 ->
    bstack bc = bstack b -> bvals bc = lcs xs -> sc s3 en -> sc s3 nwic ->
    ve sg3 (sval en) = ve sgM (sval icj) * ve sgM (sval nw) -> ve sg3 (sval nwic) = ve sgM (sval icj) * (1 - ve sgM (sval nw)) ->
    let cx1 := {| bk := KIf; bcond := PBool 0 en; bbak := lcs xs; borig := orig; bnodef := Some []; bicond := Some (PBool 0 nwic) |} in
    wp (gen_stmts c body (with_stack bc (cx1 :: bstack b))) s3 sg3
       (fun bb s4 sg4 => Inv s4 sg4 /\ ext sg3 sg4 /\ bstack bb = cx1 :: bstack b /\
          exists news', bvals bb = lcs news' /\ NoDup (map fst news') /\ Forall (pre (lcs xs) s4 sg4) news' /\ JC (S j) (bregs bb) news' xs en nwic sg4).

Lemma chain_wp (HC : CondSpec) (HB : BodySpec) : forall rest_es j b0 s sg (Q : bst -> gst -> store -> Prop), (j <= length es)%nat -> skipn j es = rest_es -> Inv s sg -> HeadC j b0 s sg ->
  (forall bl s' sg', Inv s' sg' -> ext sg sg' -> HeadC (length es) bl s' sg' -> Q bl s' sg') ->
  wp (chain rest_es b0) s sg Q.
Proof.
  induction rest_es as [|[[condb cr] body] rest_es IH]; intros j b0 s sg Q Hle Hsk I H HQ.
  - cbn [chain ret wp]. assert (Ej : (length es <= j)%nat).
    { destruct (Nat.le_gt_cases (length es) j) as [L|L]; [exact L|]. exfalso. assert (K : length (skipn j es) = (length es - j)%nat) by apply skipn_length. rewrite Hsk in K. cbn in K. lia. }
    assert (Hj : j = length es) by lia. subst j. apply HQ; [exact I|apply ext_refl|exact H].
  - destruct H as (cx0 & news & baks & o & cj & oi & icj & sgJ & Hs & Hv & Hb & Hc & Hic & Hn & T & Scj & Sic & Hd & Hp & HJ & EJ).
    assert (Hnth : nth_error es j = Some (condb, cr, body)).
    { clear - Hsk. revert j Hsk. induction es as [|e0 es0 IHe]; intros j Hsk; destruct j; cbn in *; try discriminate; [inversion Hsk; reflexivity|apply IHe; exact Hsk]. }
    assert (Hsk' : skipn (S j) es = rest_es).
    { clear - Hsk. revert j Hsk. induction es as [|e0 es0 IHe]; intros j Hsk; destruct j; cbn in *; try discriminate; [inversion Hsk; reflexivity|apply IHe; exact Hsk]. }
    change (chain ((condb, cr, body) :: rest_es) b0) with
      (match bstack b0 with
       | cx0 :: rest =>
           vn <- ctx_exit c cx0 (bvals b0) ;;
           bc <- blk condb (with_stack (with_vals b0 (fst vn)) rest) ;;
           match bicond cx0 with
           | Some ic0 =>
               nn <- bnot_v c (rget (bregs bc) cr) ;; nwic <- lift (Api.pyop (p:=p) c OAnd ic0 nn) ;;
               en <- lift (Api.pyop (p:=p) c OAnd ic0 (rget (bregs bc) cr)) ;;
               cx1 <- ctx_enter c KIf (bvals bc) en (Some (snd vn)) (Some nwic) ;;
               bb <- blk body (with_stack bc (cx1 :: bstack bc)) ;;
               chain rest_es bb
           | None => static_raise TypeError
           end
       | [] => static_raise IndexError
       end).
    rewrite Hs. apply wp_bind. rewrite Hv.
    apply (ctx_exit_shape cx0 o cj news s sg); try assumption; [rewrite Hb; exact Hp|].
    intros xs s1 sg1 I1 E1 Hm. cbn [fst snd]. apply wp_bind. apply wp_blk. rewrite Hb in Hm.
    assert (EJ1 : ext sgJ sg) by exact EJ.
    eapply wp_mono; [|exact (HC j condb cr body Hnth b0 news baks cj icj sgJ xs sg s1 sg1 HJ EJ E1 I1 Hm)].
    intros bc s2 sg2 (I2 & E2 & Hsb & Hvb & o' & nw & Hcr & Snw & HM). cbn beta. rewrite Hic, Hcr.
    assert (C0 : cnt s sg) by exact (proj1 I). assert (C2 : cnt s2 sg2) by exact (proj1 I2). assert (E02 : ext sg sg2) by (eapply ext_trans; eauto).
    assert (Sic2 : sc s2 icj) by exact (MergeValues.sc_mono s s2 sg sg2 icj C0 C2 E02 Sic).
    apply wp_bind. apply bnot_v_bool_wp. apply wp_bind. apply wp_lift.
    apply and_bool_wp; [exact I2|]. intros nwic s3 sg3 I3 E3 Snwic Vnwic.
    apply wp_bind. apply wp_lift. assert (C3 : cnt s3 sg3) by exact (proj1 I3).
    apply and_bool_wp; [exact I3|]. intros en s4 sg4 I4 E4 Sen Ven.
    apply wp_bind. unfold ctx_enter. apply wp_bind.
    apply (add_guard_v_TOK ins ig c (PBool 0 en) s4 sg4 I4). intros orig s5 sg5 I5 E5 T5. cbn [ret wp]. rewrite Hvb, deepcopy_lcs, Hsb.
    apply wp_bind. apply wp_blk.
    assert (C4 : cnt s4 sg4) by exact (proj1 I4). assert (C5 : cnt s5 sg5) by exact (proj1 I5).
    assert (E25 : ext sg2 sg5) by (eapply ext_trans; [exact E3|eapply ext_trans; eauto]).
    assert (Ven5 : ve sg5 (sval en) = ve sg2 (sval icj) * ve sg2 (sval nw)).
    { rewrite (ve_ext ins ig _ _ _ _ C4 E5 Sen), Ven. rewrite (ve_ext ins ig _ _ _ _ C2 E3 Sic2), (ve_ext ins ig _ _ _ _ C2 E3 Snw). reflexivity. }
    assert (Vnw5 : ve sg5 (sval nwic) = ve sg2 (sval icj) * (1 - ve sg2 (sval nw))).
    { assert (E35 : ext sg3 sg5) by (eapply ext_trans; eauto). rewrite (ve_ext ins ig _ _ _ _ C3 E35 Snwic), Vnwic, bnot_val. reflexivity. }
    assert (Sen5 : sc s5 en) by exact (MergeValues.sc_mono s4 s5 sg4 sg5 en C4 C5 E5 Sen).
    assert (Snw5 : sc s5 nwic) by (assert (E35 : ext sg3 sg5) by (eapply ext_trans; eauto); exact (MergeValues.sc_mono s3 s5 sg3 sg5 nwic C3 C5 E35 Snwic)).
    eapply wp_mono; [|exact (HB j condb cr body Hnth bc xs icj nw sg2 en nwic orig s5 sg5 HM E25 I5 T5 Hsb Hvb Sen5 Snw5 Ven5 Vnw5)]. cbv zeta.
    intros bb s6 sg6 (I6 & E6 & Hsbb & news' & Hvbb & Hd' & Hp' & HJ').
    assert (HleS : (S j <= length es)%nat) by (apply nth_error_Some; rewrite Hnth; discriminate).
    apply (IH (S j)); [exact HleS|exact Hsk'|exact I6| |].
    + exists {| bk := KIf; bcond := PBool 0 en; bbak := lcs xs; borig := orig; bnodef := Some []; bicond := Some (PBool 0 nwic) |}, news', xs, 0, en, 0, nwic, sg6.
      cbn [bbak bcond bicond bnodef borig]. assert (C6 : cnt s6 sg6) by exact (proj1 I6).
      split; [exact Hsbb|]. split; [exact Hvbb|]. split; [reflexivity|]. split; [reflexivity|]. split; [reflexivity|]. split; [right; reflexivity|].
      split; [exact (tvalid_mono ins ig _ _ _ _ _ T5 C5 C6 E6)|]. split; [exact (MergeValues.sc_mono s5 s6 sg5 sg6 en C5 C6 E6 Sen5)|].
      split; [exact (MergeValues.sc_mono s5 s6 sg5 sg6 nwic C5 C6 E6 Snw5)|]. split; [exact Hd'|]. split; [exact Hp'|]. split; [exact HJ'|apply ext_refl].
    + intros bl s' sg' I' E' H'. apply HQ; [exact I'| |exact H'].
      eapply ext_trans; [exact E1|]. eapply ext_trans; [exact E2|]. eapply ext_trans; [exact E25|]. eapply ext_trans; eauto.
Qed.

(* if _if(c): thenb ; [if _elif(...): body]* ; _endif()  -- no else: the last branch is merged under its own condition *)
Theorem oifchain_rule (HC : CondSpec) (HB : BodySpec) (cn : nat) (thenb : list stmt) o cb (olds : list (nat * slc)) s sg (Q : bst -> gst -> store -> Prop) :
  Inv s sg -> rget (bregs b) cn = PBool o cb -> sc s cb -> bvals b = lcs olds ->
  (forall orig s1 sg1, Inv s1 sg1 -> ext sg sg1 -> tvalid ins ig orig s1 sg1 ->
     let cx := {| bk := KIf; bcond := PBool o cb; bbak := lcs olds; borig := orig; bnodef := None; bicond := Some (PBool 0 (bnot cb)) |} in
     wp (gen_stmts c thenb (with_stack b (cx :: bstack b))) s1 sg1
        (fun b2 s2 sg2 => Inv s2 sg2 /\ ext sg1 sg2 /\ bstack b2 = cx :: bstack b /\
           exists news, bvals b2 = lcs news /\ NoDup (map fst news) /\ Forall (pre (lcs olds) s2 sg2) news /\ JC 0%nat (bregs b2) news olds cb (bnot cb) sg2)) ->
  (forall b4 s4 sg4 news baks cj icj sgJ xs sgm, Inv s4 sg4 -> ext sg sg4 -> ext sgJ sgm -> ext sgm sg4 -> JC (length es) (bregs b4) news baks cj icj sgJ -> bstack b4 = bstack b -> bvals b4 = lcs xs ->
     Forall2 (merged (lcs baks) cj sgm s4 sg4) news xs -> Q b4 s4 sg4) ->
  wp (gen_top c (SOIf cn thenb es None) b) s sg Q.
Proof.
  intros I Hc Scb Hv HT HQ. cbn [gen_top]. rewrite Hc. apply wp_bind. apply bnot_v_bool_wp.
  apply wp_bind. unfold ctx_enter at 1. apply wp_bind.
  apply (add_guard_v_TOK ins ig c (PBool o cb) s sg I). intros orig s2 sg2 I2 E2 T2. cbn [ret wp].
  rewrite Hv, deepcopy_lcs. apply wp_bind. apply wp_blk.
  eapply wp_mono; [|exact (HT orig s2 sg2 I2 E2 T2)]. cbv zeta.
  intros b2 s3 sg3 (I3 & E3 & Hs & news & Hn & Hd & Hp & HJ0).
  assert (C0 : cnt s sg) by exact (proj1 I). assert (C2 : cnt s2 sg2) by exact (proj1 I2). assert (C3 : cnt s3 sg3) by exact (proj1 I3).
  assert (E03 : ext sg sg3) by (eapply ext_trans; eauto).
  apply wp_bind. apply (chain_wp HC HB es 0%nat); [lia|reflexivity|exact I3| |].
  - exists {| bk := KIf; bcond := PBool o cb; bbak := lcs olds; borig := orig; bnodef := None; bicond := Some (PBool 0 (bnot cb)) |}, news, olds, o, cb, 0, (bnot cb), sg3.
    cbn [bbak bcond bicond bnodef borig].
    split; [exact Hs|]. split; [exact Hn|]. split; [reflexivity|]. split; [reflexivity|]. split; [reflexivity|]. split; [left; reflexivity|].
    split; [exact (tvalid_mono ins ig _ _ _ _ _ T2 C2 C3 E3)|]. split; [exact (MergeValues.sc_mono s s3 sg sg3 cb C0 C3 E03 Scb)|].
    split; [apply bnot_sc; exact (MergeValues.sc_mono s s3 sg sg3 cb C0 C3 E03 Scb)|]. split; [exact Hd|]. split; [exact Hp|]. split; [exact HJ0|apply ext_refl].
  - intros bl s4 sg4 I4 E4 (cx0 & nws & baks & o1 & cj & oi & icj & sgJ & Hs4 & Hv4 & Hb4 & Hc4 & Hic4 & Hn4 & T4 & Scj & Sic & Hd4 & Hp4 & HJ & EJ).
    cbn [bind ret]. rewrite Hs4. apply wp_bind. rewrite Hv4.
    apply (ctx_exit_shape cx0 o1 cj nws s4 sg4); try assumption; [rewrite Hb4; exact Hp4|].
    intros xs s5 sg5 I5 E5 Hm. cbn [ret wp fst snd fold_left bstack with_stack with_vals].
    rewrite Hb4 in Hm.
    apply (HQ _ s5 sg5 nws baks cj icj sgJ xs sg4); [exact I5| |exact EJ|exact E5|exact HJ|reflexivity|reflexivity|exact Hm].
    eapply ext_trans; [exact E2|]. eapply ext_trans; [exact E3|]. eapply ext_trans; eauto.
Qed.
(* ... with a final  if _else(): body : the else body runs under the running "no branch taken" condition; _endif merges it *)
Definition ElseSpec (body : list stmt) : Prop :=
  forall b2 news baks cj oi icj sgJ xs sgm orig s3 sg3, JC (length es) (bregs b2) news baks cj icj sgJ -> ext sgJ sgm -> ext sgm sg3 -> Inv s3 sg3 ->
    tvalid ins ig orig s3 sg3 -> Forall2 (merged (lcs baks) cj sgm s3 sg3) news xs ->
    let cx1 := {| bk := KIf; bcond := PBool oi icj; bbak := lcs xs; borig := orig; bnodef := Some []; bicond := None |} in
    wp (gen_stmts c body (with_stack (with_vals b2 (lcs xs)) (cx1 :: bstack b))) s3 sg3
       (fun b3 s4 sg4 => Inv s4 sg4 /\ ext sg3 sg4 /\ bstack b3 = cx1 :: bstack b /\
          exists news_e, bvals b3 = lcs news_e /\ NoDup (map fst news_e) /\ Forall (pre (lcs xs) s4 sg4) news_e /\ JE (bregs b3) news_e xs icj sg4).
Theorem oifchain_else_rule (HC : CondSpec) (HB : BodySpec) (body : list stmt) (HE : ElseSpec body) (cn : nat) (thenb : list stmt) o cb (olds : list (nat * slc)) s sg
        (Q : bst -> gst -> store -> Prop) :
  Inv s sg -> rget (bregs b) cn = PBool o cb -> sc s cb -> bvals b = lcs olds ->
  (forall orig s1 sg1, Inv s1 sg1 -> ext sg sg1 -> tvalid ins ig orig s1 sg1 ->
     let cx := {| bk := KIf; bcond := PBool o cb; bbak := lcs olds; borig := orig; bnodef := None; bicond := Some (PBool 0 (bnot cb)) |} in
     wp (gen_stmts c thenb (with_stack b (cx :: bstack b))) s1 sg1
        (fun b2 s2 sg2 => Inv s2 sg2 /\ ext sg1 sg2 /\ bstack b2 = cx :: bstack b /\
           exists news, bvals b2 = lcs news /\ NoDup (map fst news) /\ Forall (pre (lcs olds) s2 sg2) news /\ JC 0%nat (bregs b2) news olds cb (bnot cb) sg2)) ->
  (forall b5 s5 sg5 news_e xs icj sgE fin, Inv s5 sg5 -> ext sg sg5 -> ext sgE sg5 -> JE (bregs b5) news_e xs icj sgE -> bstack b5 = bstack b -> bvals b5 = lcs fin ->
     Forall2 (merged (lcs xs) icj sgE s5 sg5) news_e fin -> Q b5 s5 sg5) ->
  wp (gen_top c (SOIf cn thenb es (Some body)) b) s sg Q.
Proof.
  intros I Hc Scb Hv HT HQ. cbn [gen_top]. rewrite Hc. apply wp_bind. apply bnot_v_bool_wp.
  apply wp_bind. unfold ctx_enter at 1. apply wp_bind.
  apply (add_guard_v_TOK ins ig c (PBool o cb) s sg I). intros orig s2 sg2 I2 E2 T2. cbn [ret wp].
  rewrite Hv, deepcopy_lcs. apply wp_bind. apply wp_blk.
  eapply wp_mono; [|exact (HT orig s2 sg2 I2 E2 T2)]. cbv zeta.
  intros b2 s3 sg3 (I3 & E3 & Hs & news & Hn & Hd & Hp & HJ0).
  assert (C0 : cnt s sg) by exact (proj1 I). assert (C2 : cnt s2 sg2) by exact (proj1 I2). assert (C3 : cnt s3 sg3) by exact (proj1 I3).
  assert (E03 : ext sg sg3) by (eapply ext_trans; eauto).
  apply wp_bind. apply (chain_wp HC HB es 0%nat); [lia|reflexivity|exact I3| |].
  - exists {| bk := KIf; bcond := PBool o cb; bbak := lcs olds; borig := orig; bnodef := None; bicond := Some (PBool 0 (bnot cb)) |}, news, olds, o, cb, 0, (bnot cb), sg3.
    cbn [bbak bcond bicond bnodef borig].
    split; [exact Hs|]. split; [exact Hn|]. split; [reflexivity|]. split; [reflexivity|]. split; [reflexivity|]. split; [left; reflexivity|].
    split; [exact (tvalid_mono ins ig _ _ _ _ _ T2 C2 C3 E3)|]. split; [exact (MergeValues.sc_mono s s3 sg sg3 cb C0 C3 E03 Scb)|].
    split; [apply bnot_sc; exact (MergeValues.sc_mono s s3 sg sg3 cb C0 C3 E03 Scb)|]. split; [exact Hd|]. split; [exact Hp|]. split; [exact HJ0|apply ext_refl].
  - intros bl s4 sg4 I4 E4 (cx0 & nws & baks & o1 & cj & oi & icj & sgJ & Hs4 & Hv4 & Hb4 & Hc4 & Hic4 & Hn4 & T4 & Scj & Sic & Hd4 & Hp4 & HJ & EJ).
    apply wp_bind. rewrite Hs4. apply wp_bind. rewrite Hv4.
    apply (ctx_exit_shape cx0 o1 cj nws s4 sg4); try assumption; [rewrite Hb4; exact Hp4|].
    intros xs s5 sg5 I5 E5 Hm. cbn [ret wp fst snd]. rewrite Hic4. apply wp_bind. unfold ctx_enter. apply wp_bind.
    apply (add_guard_v_TOK ins ig c (PBool oi icj) s5 sg5 I5). intros orig2 s6 sg6 I6 E6 T6. cbn [ret wp]. rewrite deepcopy_lcs.
    apply wp_blk. rewrite Hb4 in Hm.
    assert (C4 : cnt s4 sg4) by exact (proj1 I4). assert (C5 : cnt s5 sg5) by exact (proj1 I5). assert (C6 : cnt s6 sg6) by exact (proj1 I6).
    assert (Hm6 : Forall2 (merged (lcs baks) cj sg4 s6 sg6) nws xs).
    { clear - Hm C5 C6 E6. induction Hm as [|nt nx nws xs (A & B & f & D & V) _ IHm]; constructor; [|exact IHm].
      split; [exact A|]. split; [exact (MergeValues.sc_mono s5 s6 sg5 sg6 _ C5 C6 E6 B)|]. exists f. split; [exact D|]. rewrite (ve_ext ins ig _ _ _ _ C5 E6 B). exact V. }
    assert (E46 : ext sg4 sg6) by (eapply ext_trans; eauto).
    eapply wp_mono; [|exact (HE bl nws baks cj oi icj sgJ xs sg4 orig2 s6 sg6 HJ EJ E46 I6 T6 Hm6)]. cbv zeta.
    intros b3 s7 sg7 (I7 & E7 & Hs7 & news_e & Hv7 & Hd7 & Hp7 & HJE). rewrite Hs7. apply wp_bind. rewrite Hv7.
    assert (C7 : cnt s7 sg7) by exact (proj1 I7).
    assert (E47 : ext sg4 sg7) by (eapply ext_trans; eauto).
    apply (ctx_exit_shape {| bk := KIf; bcond := PBool oi icj; bbak := lcs xs; borig := orig2; bnodef := Some []; bicond := None |} oi icj news_e s7 sg7);
      try reflexivity; try assumption; [exact (tvalid_mono ins ig _ _ _ _ _ T6 C6 C7 E7)|right; reflexivity|exact (MergeValues.sc_mono s4 s7 sg4 sg7 icj C4 C7 E47 Sic)|].
    intros fin s8 sg8 I8 E8 Hmf. cbn [ret wp snd fst bicond fold_left bstack with_stack with_vals bbak] in *.
    apply (HQ _ s8 sg8 news_e xs icj sg7 fin); [exact I8| |exact E8|exact HJE|reflexivity|reflexivity|exact Hmf].
    eapply ext_trans; [exact E03|]. eapply ext_trans; [exact E4|]. eapply ext_trans; [exact E47|exact E8].
Qed.
End Chain.

(* ---- if / else ---- *)

Theorem oifelse_rule (cn : nat) (thenb elseb : list stmt) (b : bst) o cb (olds : list (nat * slc)) s sg
        (R1 : bst -> list (nat * slc) -> store -> Prop) (R2 : bst -> list (nat * slc) -> list (nat * slc) -> store -> Prop) (Q : bst -> gst -> store -> Prop) :
  Inv s sg -> rget (bregs b) cn = PBool o cb -> sc s cb -> bvals b = lcs olds ->
  (* the then-body *)
  (forall orig s1 sg1, Inv s1 sg1 -> ext sg sg1 -> tvalid ins ig orig s1 sg1 ->
     let cx := {| bk := KIf; bcond := PBool o cb; bbak := lcs olds; borig := orig; bnodef := None; bicond := Some (PBool 0 (bnot cb)) |} in
     wp (gen_stmts c thenb (with_stack b (cx :: bstack b))) s1 sg1
        (fun b2 s2 sg2 => Inv s2 sg2 /\ ext sg1 sg2 /\ bstack b2 = cx :: bstack b /\
           exists mids, bvals b2 = lcs mids /\ NoDup (map fst mids) /\ Forall (pre (lcs olds) s2 sg2) mids /\ R1 b2 mids sg2)) ->
  (* the else-body, started after the then-branch has been merged into [xs] *)
  (forall b2 mids xs orig sgb s3 sg3, R1 b2 mids sgb -> ext sg sgb -> ext sgb sg3 -> Inv s3 sg3 -> tvalid ins ig orig s3 sg3 ->
     Forall2 (merged (lcs olds) cb sgb s3 sg3) mids xs ->
     let cx1 := {| bk := KIf; bcond := PBool 0 (bnot cb); bbak := lcs xs; borig := orig; bnodef := Some []; bicond := None |} in
     wp (gen_stmts c elseb (with_stack (with_vals b2 (lcs xs)) (cx1 :: bstack b))) s3 sg3
        (fun b3 s4 sg4 => Inv s4 sg4 /\ ext sg3 sg4 /\ bstack b3 = cx1 :: bstack b /\
           exists news, bvals b3 = lcs news /\ NoDup (map fst news) /\ Forall (pre (lcs xs) s4 sg4) news /\ R2 b3 xs news sg4)) ->
  (* the block as a whole: every variable = else-value if cond = 0, merged then-value if cond = 1 *)
  (forall b4 b3 s5 sg5 xs news sge, Inv s5 sg5 -> ext sg sge -> ext sge sg5 -> R2 b3 xs news sge -> bstack b4 = bstack b ->
     (forall nm t, In (nm, t) news -> exists x f, dget (bvals b4) nm = Some (PLC x) /\ dget (lcs xs) nm = Some (PLC f) /\ sc s5 x /\
        ve sg5 (sval x) = sel (1 - ve sg (sval cb)) (ve sge (sval t)) (ve sge (sval f))) ->
     Q b4 s5 sg5) ->
  wp (gen_top c (SOIf cn thenb [] (Some elseb)) b) s sg Q.
Proof.
  intros I Hc Scb Hv HB1 HB2 HQ. cbn [gen_top]. rewrite Hc. apply wp_bind. apply bnot_v_bool_wp.
  apply wp_bind. unfold ctx_enter at 1. apply wp_bind.
  apply (add_guard_v_TOK ins ig c (PBool o cb) s sg I). intros orig s2 sg2 I2 E2 T2. cbn [ret wp].
  rewrite Hv, deepcopy_lcs. apply wp_bind. apply wp_blk.
  eapply wp_mono; [|exact (HB1 orig s2 sg2 I2 E2 T2)]. cbv zeta.
  intros b2 s3 sg3 (I3 & E3 & Hs & mids & Hn & Hd & Hp & HR1). cbn [bind ret]. rewrite Hs. apply wp_bind. apply wp_bind. rewrite Hn.
  assert (T3 : tvalid ins ig orig s3 sg3) by exact (tvalid_mono ins ig _ _ _ _ _ T2 (proj1 I2) (proj1 I3) E3).
  assert (C0 : cnt s sg) by exact (proj1 I). assert (C3 : cnt s3 sg3) by exact (proj1 I3).
  assert (E03 : ext sg sg3) by (eapply ext_trans; eauto).
  assert (Scb3 : sc s3 cb) by exact (MergeValues.sc_mono s s3 sg sg3 cb C0 C3 E03 Scb).
  apply (ctx_exit_shape {| bk := KIf; bcond := PBool o cb; bbak := lcs olds; borig := orig; bnodef := None; bicond := Some (PBool 0 (bnot cb)) |} o cb mids s3 sg3);
    try reflexivity; try assumption; [left; reflexivity|].
  intros xs s4 sg4 I4 E4 Hm. cbn [ret wp bicond fst snd]. apply wp_bind. unfold ctx_enter. apply wp_bind.
  apply (add_guard_v_TOK ins ig c (PBool 0 (bnot cb)) s4 sg4 I4). intros orig2 s5 sg5 I5 E5 T5. cbn [ret wp]. rewrite deepcopy_lcs.
  apply wp_blk.
  assert (Hm5 : Forall2 (merged (lcs olds) cb sg3 s5 sg5) mids xs).
  { clear - Hm I4 I5 E5. induction Hm as [|nt nx mids xs (A & B & f & D & V) _ IH]; constructor; [|exact IH].
    split; [exact A|]. split; [exact (MergeValues.sc_mono s4 s5 sg4 sg5 _ (proj1 I4) (proj1 I5) E5 B)|]. exists f. split; [exact D|].
    rewrite (ve_ext ins ig _ _ _ _ (proj1 I4) E5 B). exact V. }
  assert (E35 : ext sg3 sg5) by (eapply ext_trans; eauto).
  eapply wp_mono; [|exact (HB2 b2 mids xs orig2 sg3 s5 sg5 HR1 E03 E35 I5 T5 Hm5)]. cbv zeta.
  intros b3 s6 sg6 (I6 & E6 & Hs3 & news & Hn3 & Hd3 & Hp3 & HR2). rewrite Hs3. apply wp_bind. rewrite Hn3.
  assert (T6 : tvalid ins ig orig2 s6 sg6) by exact (tvalid_mono ins ig _ _ _ _ _ T5 (proj1 I5) (proj1 I6) E6).
  assert (E06 : ext sg sg6) by (eapply ext_trans; [exact E03|eapply ext_trans; [exact E35|exact E6]]).
  assert (Sn6 : sc s6 (bnot cb)) by (apply bnot_sc; exact (MergeValues.sc_mono s s6 sg sg6 cb C0 (proj1 I6) E06 Scb)).
  apply (ctx_exit_value_gen ins ig c) with (o := 0) (cb := bnot cb) (new := news); try reflexivity; try assumption; [right; reflexivity|].
  intros r s7 sg7 I7 E7 Hl. cbn [ret wp snd fst bicond fold_left bstack with_stack with_vals].
  apply (HQ _ b3 s7 sg7 xs news sg6); [exact I7|exact E06|exact E7|exact HR2|reflexivity|].
  intros nm t Hin. destruct (Hl nm t Hin) as (x & f & A & B & Sx & Vx). exists x, f. repeat split; try assumption.
  rewrite Vx, bnot_val. rewrite (ve_ext ins ig _ _ _ _ C0 E06 Scb). reflexivity.
Qed.

(* ---- the rule applied:   if _if(c): _.nm = e   _endif()   ---- *)
Fixpoint lset (d : list (nat * slc)) (k : nat) (x : slc) : list (nat * slc) :=
  match d with [] => [(k, x)] | (j, y) :: d' => if Nat.eqb k j then (j, x) :: d' else (j, y) :: lset d' k x end.
Lemma dset_lcs : forall d k x, dset (lcs d) k (PLC x) = lcs (lset d k x).
Proof. induction d as [|[j y] d IH]; intros k x; cbn [lcs map lset dset fst snd]; [reflexivity|]. destruct (Nat.eqb k j); cbn [lcs map fst snd]; [reflexivity|]. f_equal. apply IH. Qed.
Lemma lset_names : forall d k x, In k (map fst d) -> map fst (lset d k x) = map fst d.
Proof.
  induction d as [|[j y] d IH]; intros k x H; [destruct H|]. cbn [lset map fst] in *. destruct (Nat.eqb_spec k j) as [->|N]; cbn [map fst]; [reflexivity|].
  f_equal. apply IH. destruct H as [H|H]; [congruence|exact H].
Qed.
Lemma lset_in : forall d k x j y, NoDup (map fst d) -> In k (map fst d) -> In (j, y) (lset d k x) -> (j = k /\ y = x) \/ (j <> k /\ In (j, y) d).
Proof.
  induction d as [|[i z] d IH]; intros k x j y Hd Hk H; [destruct Hk|]. cbn [lset map fst] in *. inversion Hd as [|? ? Hn Hd']; subst.
  destruct (Nat.eqb_spec k i) as [->|N].
  - destruct H as [H|H]; [inversion H; subst; left; auto|]. right. split; [|right; exact H].
    intros ->. apply Hn. exact (in_map fst _ _ H).
  - destruct H as [H|H]; [inversion H; subst; right; split; [congruence|left; reflexivity]|].
    destruct Hk as [Hk|Hk]; [congruence|].
    destruct (IH _ _ _ _ Hd' Hk H) as [L|[Nj Hin]]; [left; exact L|right; split; [exact Nj|right; exact Hin]].
Qed.
Lemma lset_has : forall d k x, In k (map fst d) -> In (k, x) (lset d k x).
Proof.
  induction d as [|[i z] d IH]; intros k x H; [destruct H|]. cbn [lset map fst] in *. destruct (Nat.eqb_spec k i) as [->|N]; [left; reflexivity|].
  right. apply IH. destruct H as [H|H]; [congruence|exact H].
Qed.
Lemma lset_keeps : forall d k x j y, j <> k -> In (j, y) d -> In (j, y) (lset d k x).
Proof.
  induction d as [|[i z] d IH]; intros k x j y N H; [destruct H|]. cbn [lset]. destruct (Nat.eqb_spec k i) as [->|Nk].
  - destruct H as [H|H]; [inversion H; subst; congruence|right; exact H].
  - destruct H as [H|H]; [left; exact H|right; apply IH; assumption].
Qed.

Theorem oif_assign (cn nm src : nat) (b : bst) o cb (olds : list (nat * slc)) (t old : slc) s sg (Q : bst -> gst -> store -> Prop) :
  Inv s sg -> rget (bregs b) cn = PBool o cb -> sc s cb -> bvals b = lcs olds -> NoDup (map fst olds) ->
  Forall (fun nt => sc s (snd nt)) olds -> rget (bregs b) src = PLC t -> sc s t -> In (nm, old) olds ->
  (* Python: `a is b` implies a == b *)
  (forall o', same_obj (with_oid t o') old = true -> ve sg (sval t) = ve sg (sval old)) ->
  (forall b3 s3 sg3, Inv s3 sg3 -> ext sg sg3 -> bstack b3 = bstack b ->
     (exists x, dget (bvals b3) nm = Some (PLC x) /\ ve sg3 (sval x) = sel (ve sg (sval cb)) (ve sg (sval t)) (ve sg (sval old))) ->
     (forall nm' f, nm' <> nm -> In (nm', f) olds -> exists x, dget (bvals b3) nm' = Some (PLC x) /\ ve sg3 (sval x) = ve sg (sval f)) ->
     Q b3 s3 sg3) ->
  wp (gen_top c (SOIf cn [SBSet nm src] [] None) b) s sg Q.
Proof.
  intros I Hc Scb Hv Hd Hso Hsrc St Hin Hid HQ.
  assert (Hnm : In nm (map fst olds)) by exact (in_map fst _ _ Hin).
  assert (C0 : cnt s sg) by exact (proj1 I).
  assert (So : sc s old) by (rewrite Forall_forall in Hso; exact (Hso (nm, old) Hin)).
  apply (oif_rule cn [SBSet nm src] b o cb olds s sg (fun news sgb => exists o', news = lset olds nm (with_oid t o'))); try assumption.
  - (* the body *)
    intros orig ic s1 sg1 I1 E1 T1. cbv zeta. cbn [gen_stmts gen_top bregs bvals with_stack]. rewrite Hsrc, Hv.
    apply wp_bind. apply wp_bind. apply wp_lift. cbn [name_val]. apply wp_bind. apply name_lc_wp. intros o' s' N1 N2 _ Iv. cbn [ret wp].
    assert (I' : Inv s' sg1) by exact (Iv I1). assert (C1 : cnt s1 sg1) by exact (proj1 I1). assert (C' : cnt s' sg1) by exact (proj1 I').
    split; [exact I'|]. split; [apply ext_refl|]. split; [reflexivity|].
    exists (lset olds nm (with_oid t o')). cbn [bvals with_vals with_regs]. split; [apply dset_lcs|]. split; [rewrite lset_names; assumption|].
    split; [|exists o'; reflexivity].
    apply Forall_forall. intros [j y] Hj. destruct (lset_in _ _ _ _ _ Hd Hnm Hj) as [[-> ->]|[Nj Hjo]]; unfold MergeValues.pre; cbn [fst snd].
    + split; [exact (MergeValues.sc_mono s s' sg sg1 t C0 C' E1 St)|]. exists old. split; [apply dget_lcs_in; assumption|].
      split; [exact (MergeValues.sc_mono s s' sg sg1 old C0 C' E1 So)|].
      cbn [same_val]. intros Hs. cbn [sval with_oid]. rewrite (ve_ext ins ig _ _ _ _ C0 E1 St), (ve_ext ins ig _ _ _ _ C0 E1 So). exact (Hid o' Hs).
    + rewrite Forall_forall in Hso. split; [exact (MergeValues.sc_mono s s' sg sg1 y C0 C' E1 (Hso _ Hjo))|]. exists y.
      split; [apply dget_lcs_in; assumption|]. split; [exact (MergeValues.sc_mono s s' sg sg1 y C0 C' E1 (Hso _ Hjo))|]. intros _. reflexivity.
  - (* the whole block *)
    intros b3 s3 sg3 news sgb I3 Eb E3 [o' ->] Hs Hl. rewrite Forall_forall in Hso.
    apply HQ; [exact I3|eapply ext_trans; eauto|exact Hs| |].
    + destruct (Hl nm (with_oid t o') (lset_has _ _ _ Hnm)) as (x & f & A & B & _ & Vx). exists x. split; [exact A|].
      rewrite (dget_lcs_in _ _ _ Hd Hin) in B. inversion B; subst f. rewrite Vx. cbn [sval with_oid].
      rewrite (ve_ext ins ig _ _ _ _ C0 Eb St), (ve_ext ins ig _ _ _ _ C0 Eb So). reflexivity.
    + intros nm' f N Hf. destruct (Hl nm' f (lset_keeps _ _ _ _ _ N Hf)) as (x & f' & A & B & _ & Vx). exists x. split; [exact A|].
      rewrite (dget_lcs_in _ _ _ Hd Hf) in B. inversion B; subst f'. rewrite Vx. assert (Sf : sc s f) by exact (Hso (nm', f) Hf). rewrite (ve_ext ins ig _ _ _ _ C0 Eb Sf). unfold sel. ring.
Qed.
(* ---- bodies that are lists of assignments  _.nm = regs[src]  of (named) secret integers ---- *)
Definition asg (l : list (nat * nat)) : list stmt := map (fun ns => SBSet (fst ns) (snd ns)) l.
Fixpoint apply_asg (r : regs (p:=p)) (d : list (nat * slc)) (l : list (nat * nat)) : option (list (nat * slc)) :=
  match l with
  | [] => Some d
  | (nm, src) :: l' =>
      match rget r src with
      | PLC t => if (oid t =? 0) || negb (existsb (Nat.eqb nm) (map fst d)) then None else apply_asg r (lset d nm t) l'
      | _ => None
      end
  end.
Lemma apply_asg_ext r r' : (forall j, rget r j = rget r' j) -> forall l d, apply_asg r d l = apply_asg r' d l.
Proof. intros H. induction l as [|[nm src] l IH]; intros d; [reflexivity|]. cbn [apply_asg]. rewrite H. destruct (rget r' src); try reflexivity. destruct (_ || _); [reflexivity|apply IH]. Qed.
Lemma existsb_in nm (l : list nat) : existsb (Nat.eqb nm) l = true -> In nm l.
Proof. intros H. apply existsb_exists in H. destruct H as [x [Hx E]]. apply Nat.eqb_eq in E. subst. exact Hx. Qed.
Lemma asg_body : forall l (b' : bst) d news s sg (Q : bst -> gst -> store -> Prop),
  apply_asg (bregs b') d l = Some news -> bvals b' = lcs d ->
  (forall b2, bstack b2 = bstack b' -> bvals b2 = lcs news -> (forall j, rget (bregs b2) j = rget (bregs b') j) -> Q b2 s sg) ->
  wp (gen_stmts c (asg l) b') s sg Q.
Proof.
  induction l as [|[nm src] l IH]; intros b' d news s sg Q H Hv HQ.
  - cbn [apply_asg] in H. inversion H; subst. cbn [asg map gen_stmts ret wp]. apply HQ; auto.
  - cbn [apply_asg] in H. destruct (rget (bregs b') src) as [| |x| | | | | | |] eqn:Hs; try discriminate H.
    destruct (oid x =? 0) eqn:Ho; [discriminate H|]. cbn [orb] in H. destruct (existsb (Nat.eqb nm) (map fst d)) eqn:He; [|discriminate H]. cbn [negb] in H.
    cbn [asg map gen_stmts gen_top fst snd]. apply wp_bind. rewrite Hs. apply wp_bind. apply wp_lift. cbn [name_val]. unfold name_lc. rewrite Ho. cbn [bind ret wp].
    fold (asg l).
    assert (Hr : forall j, rget (bregs (with_vals (with_regs b' (rset (bregs b') src (PLC x))) (dset (bvals b') nm (PLC x)))) j = rget (bregs b') j).
    { intros j. cbn [bregs with_vals with_regs]. unfold rset. cbn [rget]. destruct (Nat.eqb_spec j src) as [->|N]; [symmetry; exact Hs|reflexivity]. }
    apply (IH _ (lset d nm x) news).
    + rewrite (apply_asg_ext _ _ Hr). exact H.
    + cbn [bvals with_vals]. rewrite Hv. apply dset_lcs.
    + intros b2 Hs2 Hv2 Hr2. apply HQ; [exact Hs2|exact Hv2|]. intros j. rewrite Hr2. apply Hr.
Qed.
Lemma apply_asg_facts r : forall l d news, apply_asg r d l = Some news -> NoDup (map fst d) ->
  map fst news = map fst d /\
  forall nm x, In (nm, x) news -> In (nm, x) d \/ exists src, In (nm, src) l /\ rget r src = PLC x /\ oid x <> 0.
Proof.
  induction l as [|[nm src] l IH]; intros d news H Hd; cbn [apply_asg] in H.
  - inversion H; subst. split; [reflexivity|]. intros nm x Hx. left. exact Hx.
  - destruct (rget r src) as [| |t| | | | | | |] eqn:Hs; try discriminate H.
    destruct (oid t =? 0) eqn:Ho; [discriminate H|]. cbn [orb] in H. destruct (existsb (Nat.eqb nm) (map fst d)) eqn:He; [|discriminate H]. cbn [negb] in H.
    assert (Hin : In nm (map fst d)) by exact (existsb_in _ _ He).
    assert (Hd' : NoDup (map fst (lset d nm t))) by (rewrite lset_names; assumption).
    destruct (IH _ _ H Hd') as [Hn Hf]. split; [rewrite Hn; apply lset_names; exact Hin|].
    intros nm' x Hx. destruct (Hf nm' x Hx) as [Hl|[src' [A [B C]]]].
    + destruct (lset_in _ _ _ _ _ Hd Hin Hl) as [[-> ->]|[_ Ho']]; [|left; exact Ho'].
      right. exists src. split; [left; reflexivity|]. split; [exact Hs|]. apply Z.eqb_neq. exact Ho.
    + right. exists src'. split; [right; exact A|]. auto.
Qed.

(* if _if(c): <assignments> ; _endif() : every variable ends as old + c * (assigned - old) *)
Theorem oif_assigns (cn : nat) (l : list (nat * nat)) (b : bst) o cb (olds news : list (nat * slc)) s sg (Q : bst -> gst -> store -> Prop) :
  Inv s sg -> rget (bregs b) cn = PBool o cb -> sc s cb -> bvals b = lcs olds -> NoDup (map fst olds) -> Forall (fun nt => sc s (snd nt)) olds ->
  apply_asg (bregs b) olds l = Some news ->
  (forall src t, In src (map snd l) -> rget (bregs b) src = PLC t -> sc s t) ->
  (forall nm t f, In (nm, t) news -> In (nm, f) olds -> same_obj t f = true -> ve sg (sval t) = ve sg (sval f)) ->
  (forall b3 s3 sg3, Inv s3 sg3 -> ext sg sg3 -> bstack b3 = bstack b ->
     (forall nm t, In (nm, t) news -> exists x f, In (nm, f) olds /\ dget (bvals b3) nm = Some (PLC x) /\
        ve sg3 (sval x) = sel (ve sg (sval cb)) (ve sg (sval t)) (ve sg (sval f))) ->
     Q b3 s3 sg3) ->
  wp (gen_top c (SOIf cn (asg l) [] None) b) s sg Q.
Proof.
  intros I Hc Scb Hv Hd Hso Ha Hsrc Hid HQ.
  assert (C0 : cnt s sg) by exact (proj1 I). rewrite Forall_forall in Hso.
  destruct (apply_asg_facts _ _ _ _ Ha Hd) as [Hn Hf].
  assert (Hold : forall nm t, In (nm, t) news -> exists f, In (nm, f) olds).
  { intros nm t Hin. assert (K : In nm (map fst olds)) by (rewrite <- Hn; exact (in_map fst _ _ Hin)).
    apply in_map_iff in K. destruct K as [[nm' f] [E K]]. cbn [fst] in E. subst nm'. exists f. exact K. }
  assert (Snew : forall nm t, In (nm, t) news -> sc s t).
  { intros nm t Hin. destruct (Hf nm t Hin) as [Ho|[src [A [B _]]]]; [exact (Hso (nm, t) Ho)|]. apply (Hsrc src t); [exact (in_map snd _ _ A)|exact B]. }
  apply (oif_rule cn (asg l) b o cb olds s sg (fun n _ => n = news)); try assumption.
  - intros orig ic s1 sg1 I1 E1 T1. cbv zeta. apply (asg_body l _ olds news); [exact Ha|exact Hv|].
    intros b2 Hs2 Hv2 _. split; [exact I1|]. split; [apply ext_refl|]. split; [exact Hs2|]. exists news. split; [exact Hv2|].
    split; [rewrite Hn; exact Hd|]. split; [|reflexivity].
    apply Forall_forall. intros [nm t] Hin. destruct (Hold nm t Hin) as [f Hfo]. unfold MergeValues.pre. cbn [fst snd].
    assert (C1 : cnt s1 sg1) by exact (proj1 I1). assert (Sf : sc s f) by exact (Hso (nm, f) Hfo).
    split; [exact (MergeValues.sc_mono s s1 sg sg1 t C0 C1 E1 (Snew _ _ Hin))|]. exists f. split; [apply dget_lcs_in; assumption|].
    split; [exact (MergeValues.sc_mono s s1 sg sg1 f C0 C1 E1 Sf)|]. cbn [same_val]. intros Hs.
    rewrite (ve_ext ins ig _ _ _ _ C0 E1 (Snew _ _ Hin)), (ve_ext ins ig _ _ _ _ C0 E1 Sf). exact (Hid nm t f Hin Hfo Hs).
  - intros b3 s3 sg3 news' sgb I3 Eb E3 -> Hs Hl. apply HQ; [exact I3|eapply ext_trans; eauto|exact Hs|].
    intros nm t Hin. destruct (Hl nm t Hin) as (x & f & A & B & _ & Vx). destruct (Hold nm t Hin) as [f' Hfo].
    rewrite (dget_lcs_in _ _ _ Hd Hfo) in B. inversion B; subst f'. exists x, f. split; [exact Hfo|]. split; [exact A|]. rewrite Vx.
    assert (Sf : sc s f) by exact (Hso (nm, f) Hfo).
    rewrite (ve_ext ins ig _ _ _ _ C0 Eb (Snew _ _ Hin)), (ve_ext ins ig _ _ _ _ C0 Eb Sf). reflexivity.
Qed.
(* ---- if / else with assignment lists on both sides: the explicit result ---- *)
Fixpoint last_asg (l : list (nat * nat)) (nm : nat) : option nat :=
  match l with
  | [] => None
  | (n, src) :: l' => match last_asg l' nm with Some s0 => Some s0 | None => if Nat.eqb n nm then Some src else None end
  end.
Lemma last_asg_in l nm src : last_asg l nm = Some src -> In src (map snd l).
Proof.
  induction l as [|[n s0] l IH]; cbn [last_asg map snd]; [discriminate|]. destruct (last_asg l nm) eqn:E.
  - intros H. inversion H; subst. right. apply IH. reflexivity.
  - destruct (Nat.eqb n nm); [|discriminate]. intros H. inversion H; subst. left. reflexivity.
Qed.
Lemma apply_asg_char r : forall l d news, apply_asg r d l = Some news -> NoDup (map fst d) ->
  map fst news = map fst d /\
  forall nm x, In (nm, x) news -> match last_asg l nm with Some src => rget r src = PLC x /\ oid x <> 0 | None => In (nm, x) d end.
Proof.
  induction l as [|[nm0 src0] l IH]; intros d news H Hd; cbn [apply_asg] in H.
  - inversion H; subst. split; [reflexivity|]. intros nm x Hx. exact Hx.
  - destruct (rget r src0) as [| |t| | | | | | |] eqn:Hs; try discriminate H.
    destruct (oid t =? 0) eqn:Ho; [discriminate H|]. cbn [orb] in H. destruct (existsb (Nat.eqb nm0) (map fst d)) eqn:He; [|discriminate H]. cbn [negb] in H.
    assert (Hin : In nm0 (map fst d)) by exact (existsb_in _ _ He).
    assert (Hd' : NoDup (map fst (lset d nm0 t))) by (rewrite lset_names; assumption).
    destruct (IH _ _ H Hd') as [Hn Hf]. split; [rewrite Hn; apply lset_names; exact Hin|].
    intros nm x Hx. specialize (Hf nm x Hx). cbn [last_asg]. destruct (last_asg l nm); [exact Hf|].
    destruct (lset_in _ _ _ _ _ Hd Hin Hf) as [[-> ->]|[N Ho']].
    + rewrite Nat.eqb_refl. split; [exact Hs|apply Z.eqb_neq; exact Ho].
    + destruct (Nat.eqb_spec nm0 nm) as [E|_]; [congruence|exact Ho'].
Qed.
Lemma apply_asg_names r : forall l d d' n, map fst d = map fst d' -> apply_asg r d l = Some n -> exists n', apply_asg r d' l = Some n'.
Proof.
  induction l as [|[nm src] l IH]; intros d d' n Hm H; cbn [apply_asg] in *; [eexists; reflexivity|].
  destruct (rget r src) as [| |t| | | | | | |]; try discriminate H. rewrite <- Hm.
  destruct ((oid t =? 0) || negb (existsb (Nat.eqb nm) (map fst d))) eqn:E; [discriminate H|].
  apply (IH (lset d nm t) (lset d' nm t) n); [|exact H].
  apply orb_false_elim in E. destruct E as [_ E]. apply negb_false_iff in E. pose proof (existsb_in _ _ E) as Hin.
  rewrite !lset_names; [exact Hm| rewrite <- Hm; exact Hin|exact Hin].
Qed.
End IR.
