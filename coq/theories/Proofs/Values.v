(* Functional correctness of the honest witness computation (C05): what value a traced operation returns when it does not
   raise, with error checking on.  Stated with the wp calculus: [returns m s sg P] means that every run of m from generator
   state s and witness store sg that ends without an exception yields a result satisfying P on the final store (Wp.wp_sound). *)
From Coq Require Import ZArith List Bool Lia Znumtheory.
From PySnark.Base Require Import FieldZ Bits.
From PySnark.Model Require Import Lc Sym Good Gadgets.
From PySnark.Proofs Require Import Meta Frame Wp WpBase GadgetsOK.
Import ListNotations.
Open Scope Z_scope.

Section V.
Context {p : Z}.
Variable ins : list Z.
Variable ig : bool.
Hypothesis F : field_ok p.
Local Notation gst := (@Gadgets.gst p).
Local Notation slc := (Sym.slc p).
Local Notation G := (@Gadgets.G p).
Local Notation ve := (Sym.veval p ins ig).
Local Notation be := (Sym.beval p ins ig).
Local Notation wp := (Wp.wp (p:=p) ins ig).
Local Notation Inv := (WpBase.Inv (p:=p) ins ig).

Definition returns {A} (m : G A) (s : gst) (sg : store) (P : A -> store -> Prop) : Prop := wp m s sg (fun a _ sg' => P a sg').

(* meaning of [returns]: an actual run (run + interp) that does not raise ends with P *)
Theorem returns_sound A (m : G A) s sg P : returns m s sg P ->
  forall t, st t = sg -> raised t = None -> forall r s' cs, run m s = (r, s', cs) ->
  let t' := fold_left (Sym.step p ins ig) cs t in raised t' = None -> exists a, r = inl a /\ P a (st t').
Proof. intros H t Ht Hr r s' cs R t' Hn. destruct (wp_sound ins ig _ _ m s sg _ H t Ht Hr r s' cs R) as [_ K]. exact (K Hn). Qed.

Variable c : cfg.
Variables (s : gst) (sg : store).
Hypothesis I : Inv s sg.
Hypothesis Chk : be sg (ignore s) = false.        (* error checking is on (outside regions whose guard is false) *)
Local Notation v x := (ve sg (sval x)).
Local Notation b2z b := (if b then 1 else 0).

Theorem mul_value x y : returns (mul x y) s sg (fun r sg' => ve sg' (sval r) = v x * v y).
Proof. apply mul_wp; [exact I|]. intros r s' sg' _ _ V _ _. exact V. Qed.

Lemma cmp_value d (P : bool) : (ve sg (sval d) >= 0 <-> P = true) ->
  returns (check_positive d (nbits c)) s sg (fun r sg' => ve sg' (sval r) = b2z P).
Proof.
  intros H. apply check_positive_wp; [exact I|]. intros r s' sg' _ _ V. rewrite (V Chk).
  destruct (Z.leb_spec 0 (ve sg (sval d))) as [L|L]; destruct P; try reflexivity; exfalso.
  - assert (K : false = true) by (apply H; lia). discriminate K.
  - assert (K : ve sg (sval d) >= 0) by (apply H; reflexivity). lia.
Qed.
Ltac opval := unfold subc, sub; cbn [sval add neg constv]; esimp.
Theorem lt_value x y : returns (lt c x y) s sg (fun r sg' => ve sg' (sval r) = b2z (v x <? v y)).
Proof. unfold lt. apply cmp_value. opval. destruct (Z.ltb_spec (v x) (v y)); split; intros; try lia; try reflexivity; discriminate. Qed.
Theorem le_value x y : returns (le c x y) s sg (fun r sg' => ve sg' (sval r) = b2z (v x <=? v y)).
Proof. unfold le. apply cmp_value. opval. destruct (Z.leb_spec (v x) (v y)); split; intros; try lia; try reflexivity; discriminate. Qed.
Theorem gt_value x y : returns (gt c x y) s sg (fun r sg' => ve sg' (sval r) = b2z (v y <? v x)).
Proof. unfold gt. apply cmp_value. opval. destruct (Z.ltb_spec (v y) (v x)); split; intros; try lia; try reflexivity; discriminate. Qed.
Theorem ge_value x y : returns (ge c x y) s sg (fun r sg' => ve sg' (sval r) = b2z (v y <=? v x)).
Proof. unfold ge. apply cmp_value. opval. destruct (Z.leb_spec (v y) (v x)); split; intros; try lia; try reflexivity; discriminate. Qed.
Theorem eq_value x y : returns (eq x y) s sg (fun r sg' => ve sg' (sval r) = b2z (v x =? v y)).
Proof.
  unfold eq. apply check_zero_wp; [exact F|exact I|]. intros r s' sg' _ _ _ V. rewrite V. opval.
  destruct (Z.eqb_spec (v x + (0 - v y)) 0), (Z.eqb_spec (v x) (v y)); try reflexivity; lia.
Qed.
Theorem ne_value x y : returns (ne x y) s sg (fun r sg' => ve sg' (sval r) = b2z (negb (v x =? v y))).
Proof.
  unfold ne. apply wp_bind. apply check_zero_wp; [exact F|exact I|]. intros r s' sg' _ _ _ V. cbn [ret wp]. unfold bnot, rsubc. cbn [sval add neg constv]. esimp. rewrite V. opval.
  destruct (Z.eqb_spec (v x + (0 - v y)) 0), (Z.eqb_spec (v x) (v y)); try reflexivity; lia.
Qed.
(* to_bits: the Python bits, whenever it does not raise; and they recompose to the value (which is then in range) *)
Theorem to_bits_value x k : returns (to_bits x k) s sg (fun bs sg' => map (fun b => ve sg' (sval b)) bs = map (fun j => Bits.pybit (v x) j) (seq 0 k)).
Proof. apply to_bits_wp; [exact I|]. intros bs s' sg' _ _ V. exact V. Qed.
(* exact division: the quotient, and it only succeeds when the division is exact and the divisor non-zero *)
Theorem truediv_value x y : returns (truediv x y) s sg (fun r sg' => ve sg' (sval r) = v x / v y /\ v x mod v y = 0 /\ v y <> 0).
Proof. apply truediv_wp; [exact I|]. intros r s' sg' _ V. exact (V Chk). Qed.
(* floor division and modulo: Python's // and % (Coq's Z.div / Z.modulo round the same way for both signs of the divisor) *)
Theorem divmod_value x y : returns (divmod c x y) s sg (fun qr sg' => ve sg' (sval (fst qr)) = v x / v y /\ ve sg' (sval (snd qr)) = v x mod v y).
Proof. apply divmod_wp; [exact I|]. intros r s' sg' _ V. exact V. Qed.
(* selection on a condition wire *)
Theorem select_value cnd t f : returns (ite_lc cnd t f) s sg (fun r sg' => ve sg' (sval r) = if v cnd =? 1 then v t else if v cnd =? 0 then v f else v f + v cnd * (v t - v f)).
Proof.
  apply ite_lc_wp; [exact I|]. intros r s' sg' _ V. rewrite V.
  destruct (Z.eqb_spec (v cnd) 1) as [->|_]; [ring|]. destruct (Z.eqb_spec (v cnd) 0) as [->|_]; ring.
Qed.
End V.
