(* Completeness of the operator dispatch (Model/Api.v): compositions of the gadgets of GadgetsOK.v. *)
From Coq Require Import ZArith List Bool Lia Znumtheory.
From PySnark.Base Require Import FieldZ.
From PySnark.Model Require Import Lc Sym Good Gadgets Api.
From PySnark.Proofs Require Import Meta Frame Wp WpBase GadgetsOK.
Import ListNotations.
Open Scope Z_scope.

Section A.
Context {p : Z}.
Variable ins : list Z.
Variable ig : bool.
Hypothesis F : field_ok p.
Local Notation G := (@Gadgets.G p).
Local Notation slc := (Sym.slc p).
Local Notation pyval := (Api.pyval p).
Local Notation OK := (GadgetsOK.OK (p:=p) ins ig).
Opaque GadgetsOK.OK.        (* keep [apply] from unifying through the definition of wp *)

Ltac okb := first
  [ match goal with
    | |- GadgetsOK.OK _ _ (ret _) => apply OK_ret
    | |- GadgetsOK.OK _ _ (Ret _) => apply OK_Ret
    | |- GadgetsOK.OK _ _ NI => apply OK_ret
    | |- GadgetsOK.OK _ _ (static_raise _) => apply OK_raise
    | |- GadgetsOK.OK _ _ (bind get _) => apply OK_getb; intros ?
    | |- GadgetsOK.OK _ _ (bind (raise_if _ _) _) => apply OK_raise_ifb
    end
  | apply OK_mul | apply OK_check_zero | apply OK_check_positive | apply OK_to_bits | apply OK_boolctor | apply OK_privval
  | apply OK_truediv | apply OK_truediv_int | apply OK_divmod | apply OK_pow_nat | apply OK_pow_lc
  | apply OK_land_lc | apply OK_lxor_lc | apply OK_lor_lc | apply OK_invert_lc | apply OK_assert_zero | apply OK_lcval
  | assumption
  | match goal with |- GadgetsOK.OK _ _ (bind _ _) => apply OK_bind; [|intros ?] end ].
Ltac ok := repeat (okb || match goal with
                          | |- GadgetsOK.OK _ _ (match ?x with _ => _ end) => destruct x
                          | |- GadgetsOK.OK _ _ (if ?b then _ else _) => destruct b
                          end).

Lemma OK_lcr (m : G slc) : OK m -> OK (lcr m).
Proof. intros H. unfold lcr. ok. Qed.
Lemma OK_boolr (m : G slc) : OK m -> OK (boolr m).
Proof. intros H. unfold boolr. ok. Qed.
Lemma OK_fxpr (m : G slc) : OK m -> OK (fxpr m).
Proof. intros H. unfold fxpr. ok. Qed.

Section D.
Variable c : cfg.
Variable rec : bop -> pyval -> pyval -> G pyval.
Hypothesis Hrec : forall op a b, OK (rec op a b).

Lemma OK_uneg v : OK (uneg v). Proof. unfold uneg. ok. Qed.
Lemma OK_m_check_positive v : OK (m_check_positive c v).
Proof. unfold m_check_positive. destruct v; try apply OK_raise; apply OK_boolr; apply OK_check_positive; exact F. Qed.
Lemma OK_m_check_zero v : OK (m_check_zero v).
Proof. unfold m_check_zero. destruct v; try apply OK_raise; apply OK_boolr; apply OK_check_zero; exact F. Qed.
Lemma OK_m_check_nonzero v : OK (m_check_nonzero v).
Proof. unfold m_check_nonzero. ok. Qed.
Lemma OK_lc_divmod x o : OK (lc_divmod c x o).
Proof. unfold lc_divmod, NI. ok. Qed.
Lemma OK_tuple_nth i v : OK (tuple_nth i v).
Proof. unfold tuple_nth. ok. Qed.
Lemma OK_lc_dunder op x o : OK (lc_dunder c rec op x o).
Proof.
  unfold lc_dunder, NI.
  destruct op; try (destruct o; ok; fail);
    repeat first [ apply OK_lc_divmod | apply OK_tuple_nth | apply OK_uneg | apply Hrec | apply OK_m_check_positive | apply OK_m_check_zero
                 | apply OK_m_check_nonzero | apply OK_lcr | apply OK_bind; [|intros ?] ];
    try (destruct o; repeat first [ apply OK_lc_divmod | apply OK_tuple_nth | apply OK_uneg | apply Hrec | apply OK_m_check_positive | apply OK_m_check_zero
                 | apply OK_m_check_nonzero | apply OK_lcr | okb | match goal with |- GadgetsOK.OK _ _ (if ?b then _ else _) => destruct b end ]).
Qed.
Ltac ok2 := repeat first
  [ apply OK_lc_divmod | apply OK_tuple_nth | apply OK_uneg | apply Hrec | apply OK_m_check_positive | apply OK_m_check_zero
  | apply OK_m_check_nonzero | apply OK_lc_dunder | apply OK_lcr | apply OK_boolr | apply OK_fxpr | okb
  | match goal with
    | |- GadgetsOK.OK _ _ (match ?x with _ => _ end) => destruct x
    | |- GadgetsOK.OK _ _ (if ?b then _ else _) => destruct b
    end ].
Lemma OK_constval_of o : OK (constval_of o). Proof. unfold constval_of. ok2. Qed.
Lemma OK_lc_rdunder op x o : OK (lc_rdunder c rec op x o).
Proof. unfold lc_rdunder. destruct op; ok2; try apply OK_constval_of. Qed.
Lemma OK_ensurebool o : OK (ensurebool o). Proof. unfold ensurebool. ok2. Qed.
Lemma OK_truthy o : OK (truthy o). Proof. unfold truthy. ok2. Qed.
Lemma OK_mkbool x : OK (mkbool x). Proof. unfold mkbool. ok2. Qed.
Ltac ok3 := repeat first
  [ apply OK_constval_of | apply OK_lc_rdunder | apply OK_ensurebool | apply OK_truthy | apply OK_mkbool
  | apply OK_lc_divmod | apply OK_tuple_nth | apply OK_uneg | apply Hrec | apply OK_m_check_positive | apply OK_m_check_zero
  | apply OK_m_check_nonzero | apply OK_lc_dunder | apply OK_lcr | apply OK_boolr | apply OK_fxpr | okb
  | match goal with
    | |- GadgetsOK.OK _ _ (match ?x with _ => _ end) => destruct x
    | |- GadgetsOK.OK _ _ (if ?b then _ else _) => destruct b
    end ].
Lemma OK_bool_dunder op b o : OK (bool_dunder c rec op b o).
Proof. unfold bool_dunder, NI. destruct op; ok3. Qed.
Lemma OK_bool_rdunder op b o : OK (bool_rdunder c rec op b o).
Proof. unfold bool_rdunder, NI. destruct op; try apply OK_bool_dunder; ok3. Qed.
Lemma OK_add_scaling o : OK (add_scaling c rec o). Proof. unfold add_scaling. ok3. Qed.
Lemma OK_mkfxp v sc : OK (mkfxp c v sc). Proof. unfold mkfxp. ok3. Qed.
Lemma OK_ensurefxp o : OK (ensurefxp c o). Proof. unfold ensurefxp. ok3. Qed.
Lemma OK_fxp_divmod f o : OK (fxp_divmod c rec f o).
Proof.
  unfold fxp_divmod, NI. apply OK_bind.
  - destruct o; ok3; try apply OK_add_scaling.
  - intros r. destruct r; ok3; try apply OK_mkfxp.
Qed.
Ltac ok4 := repeat first
  [ apply OK_add_scaling | apply OK_mkfxp | apply OK_ensurefxp | apply OK_fxp_divmod | apply OK_bool_dunder | apply OK_bool_rdunder
  | apply OK_constval_of | apply OK_lc_rdunder | apply OK_ensurebool | apply OK_truthy | apply OK_mkbool
  | apply OK_lc_divmod | apply OK_tuple_nth | apply OK_uneg | apply Hrec | apply OK_m_check_positive | apply OK_m_check_zero
  | apply OK_m_check_nonzero | apply OK_lc_dunder | apply OK_lcr | apply OK_boolr | apply OK_fxpr | okb
  | match goal with
    | |- GadgetsOK.OK _ _ (match ?x with _ => _ end) => destruct x
    | |- GadgetsOK.OK _ _ (if ?b then _ else _) => destruct b
    end ].
Lemma OK_fxp_dunder op f o : OK (fxp_dunder c rec op f o).
Proof. unfold fxp_dunder, NI. destruct op; ok4. Qed.
Lemma OK_fxp_pow f : forall k, OK (fxp_pow c rec f k).
Proof.
  induction k as [|k IH]; cbn [fxp_pow]; [ok4|]. destruct k as [|k']; [ok4|].
  apply OK_bind; [exact IH|intros g]. ok4.
Qed.
Lemma OK_fxp_dunder' op f self o : OK (fxp_dunder' c rec op f self o).
Proof. unfold fxp_dunder'. destruct op; try apply OK_fxp_dunder. destruct o; try apply OK_fxp_dunder. ok4. apply OK_fxp_pow. Qed.
Lemma OK_fxp_rdunder op f o : OK (fxp_rdunder c rec op f o).
Proof. unfold fxp_rdunder, NI. destruct op; try apply OK_fxp_dunder; ok4; apply OK_fxp_dunder. Qed.
Lemma OK_arr_dunder op l o : OK (arr_dunder rec op l o).
Proof.
  unfold arr_dunder, NI. destruct op; destruct o; ok4;
    try (first [apply OK_zipM; intros; apply Hrec | apply OK_mapM; intros; apply Hrec]).
Qed.
Lemma OK_arr_rdunder op l o : OK (arr_rdunder rec op l o).
Proof. unfold arr_rdunder, NI. destruct op; try apply OK_arr_dunder; ok4. Qed.
Ltac ok5 := repeat first
  [ apply OK_lc_rdunder | apply OK_bool_rdunder | apply OK_fxp_rdunder | apply OK_arr_rdunder | apply OK_arr_dunder | apply OK_fxp_dunder'
  | apply OK_fxp_dunder | apply OK_fxp_pow
  | apply OK_add_scaling | apply OK_mkfxp | apply OK_ensurefxp | apply OK_fxp_divmod | apply OK_bool_dunder
  | apply OK_constval_of | apply OK_ensurebool | apply OK_truthy | apply OK_mkbool
  | apply OK_lc_divmod | apply OK_tuple_nth | apply OK_uneg | apply Hrec | apply OK_m_check_positive | apply OK_m_check_zero
  | apply OK_m_check_nonzero | apply OK_lc_dunder | apply OK_lcr | apply OK_boolr | apply OK_fxpr | okb
  | match goal with
    | |- GadgetsOK.OK _ _ (match ?x with _ => _ end) => destruct x
    | |- GadgetsOK.OK _ _ (if ?b then _ else _) => destruct b
    end ].
Lemma OK_dispatch op a b : OK (dispatch c rec op a b).
Proof. unfold dispatch, NI. ok5. Qed.
Lemma OK_ite_fuel : forall fuel ident cnd t f, OK (ite_fuel c rec fuel ident cnd t f).
Proof.
  induction fuel as [|fuel IH]; intros ident cnd t f; cbn [ite_fuel]; ok5.
  apply OK_zipM. intros. apply IH.
Qed.
Lemma OK_if_then_else cnd t f : OK (if_then_else c rec cnd t f). Proof. apply OK_ite_fuel. Qed.
Lemma OK_if_then_else_evaluated cnd t f : OK (if_then_else_evaluated c rec cnd t f). Proof. apply OK_ite_fuel. Qed.
Lemma OK_unop op v : OK (unop c rec op v).
Proof. unfold unop. ok5; apply OK_if_then_else. Qed.
End D.

Lemma OK_binop c : forall fuel op a b, OK (binop c fuel op a b).
Proof. induction fuel as [|fuel IH]; intros op a b; cbn [binop]; [apply OK_raise|]. apply OK_dispatch. exact IH. Qed.
Lemma OK_pyop c op a b : OK (pyop c op a b).
Proof. apply OK_binop. Qed.
End A.
