(* Field-level soundness cores of the gadgets (C02, C03, C16): statements about ARBITRARY values
   satisfying the emitted constraints modulo a prime p -- the universally quantified prover. *)
From Coq Require Import ZArith List Bool Lia Znumtheory Setoid Morphisms.
From PySnark.Base Require Import FieldZ.
Import ListNotations.
Open Scope Z_scope.

Section S.
Variable p : Z.
Hypothesis Hp : prime p.
Notation "a == b" := (feq p a b) (at level 70).
Local Existing Instance feq_equiv.
Local Existing Instance feq_add.
Local Existing Instance feq_sub.
Local Existing Instance feq_mul.
Local Existing Instance feq_opp.

Definition isbit (b : Z) : Prop := b * (1 - b) == 0.

Lemma bits_canon bs : Forall isbit bs ->
  exists nb, Forall2 (feq p) bs nb /\ Forall (fun b => b = 0 \/ b = 1) nb /\ length nb = length bs.
Proof.
  intros H. exists (map (fun b => b mod p) bs). split; [|split].
  - clear H. induction bs; simpl; constructor; auto using feq_mod.
  - induction H; simpl; constructor; auto. apply bit_canon; assumption.
  - apply map_length.
Qed.

Lemma bits_value bs : Forall isbit bs -> exists v, 0 <= v < 2 ^ Z.of_nat (length bs) /\ wsum bs 0 == v.
Proof.
  intros H. destruct (bits_canon bs H) as [nb [F [C L]]].
  exists (wsum nb 0). split; [rewrite <- L; apply wsum_bound; assumption|]. apply wsum_proper; assumption.
Qed.

(* ---- multiplication / exact division ---- *)
Theorem mul_sound x y r : x * y == r -> r == x * y.
Proof. intros H. symmetry. exact H. Qed.
(* y * r = x with y <> 0: the quotient is unique *)
Theorem truediv_sound x y r r' : ~ y == 0 -> y * r == x -> y * r' == x -> r == r'.
Proof.
  intros Hy H1 H2. assert (E : y * (r - r') == 0).
  { transitivity (y * r - y * r'); [apply eq_feq; ring|]. rewrite H1, H2. apply eq_feq; ring. }
  apply (feq_integral p Hp) in E. destruct E as [E|E]; [contradiction|].
  transitivity (r' + (r - r')); [apply eq_feq; ring|]. rewrite E. apply eq_feq; ring.
Qed.

(* ---- selection: falsev + cond * (truev - falsev) with a boolean cond ---- *)
Theorem select_sound c t f m : isbit c -> c * (t - f) == m ->
  (c == 1 /\ f + m == t) \/ (c == 0 /\ f + m == f).
Proof.
  intros Hc Hm. destruct (bit_cases p Hp c Hc) as [E|E]; [right|left]; (split; [exact E|]); rewrite <- Hm, E; apply eq_feq; ring.
Qed.

(* ---- boolean connectives on boolean operands: results are boolean and are the connective ---- *)
Theorem and_sound a b m : isbit a -> isbit b -> a * b == m -> isbit m.
Proof.
  intros Ha Hb Hm. unfold isbit. rewrite <- Hm.
  destruct (bit_cases p Hp a Ha) as [Ea|Ea], (bit_cases p Hp b Hb) as [Eb|Eb]; rewrite Ea, Eb; apply eq_feq; ring.
Qed.
Theorem or_sound a b m : isbit a -> isbit b -> a * b == m -> isbit (a + b - m).
Proof.
  intros Ha Hb Hm. unfold isbit. rewrite <- Hm.
  destruct (bit_cases p Hp a Ha) as [Ea|Ea], (bit_cases p Hp b Hb) as [Eb|Eb]; rewrite Ea, Eb; apply eq_feq; ring.
Qed.
Theorem xor_sound a b m : isbit a -> isbit b -> (2 * a) * b == m -> isbit (a + b - m).
Proof.
  intros Ha Hb Hm. unfold isbit. rewrite <- Hm.
  destruct (bit_cases p Hp a Ha) as [Ea|Ea], (bit_cases p Hp b Hb) as [Eb|Eb]; rewrite Ea, Eb; apply eq_feq; ring.
Qed.
Theorem not_sound a : isbit a -> isbit (1 - a).
Proof. intros Ha. unfold isbit in *. rewrite <- Ha. apply eq_feq; ring. Qed.

(* ---- sign test (check_positive): bits boolean, ret boolean, (2 ret) x = x + sum + (1 - ret) ---- *)
Theorem check_positive_sound k bs r x :
  length bs = k -> Forall isbit bs -> isbit r ->
  (2 * r) * x == x + wsum bs 0 + (1 - r) ->
  (r == 1 /\ exists v, 0 <= v < 2 ^ Z.of_nat k /\ x == v) \/
  (r == 0 /\ exists v, - 2 ^ Z.of_nat k <= v < 0 /\ x == v).
Proof.
  intros L Hb Hr C. destruct (bits_value bs Hb) as [v [Rv Ev]]. rewrite L in Rv.
  destruct (bit_cases p Hp r Hr) as [E|E]; [right|left]; (split; [exact E|]).
  - exists (- v - 1). split; [lia|]. rewrite E, Ev in C.
    transitivity (x + v + (1 - 0) - v - 1); [apply eq_feq; ring|]. rewrite <- C. apply eq_feq; ring.
  - exists v. split; [lia|]. rewrite E, Ev in C.
    transitivity (2 * 1 * x - x); [apply eq_feq; ring|]. rewrite C. apply eq_feq; ring.
Qed.

(* the outcome is determined by x alone when 2^(k+1) <= p: no valid proof for the other comparison outcome *)
Theorem check_positive_unique k bs bs' r r' x :
  2 ^ (Z.of_nat k + 1) <= p ->
  length bs = k -> Forall isbit bs -> isbit r -> (2 * r) * x == x + wsum bs 0 + (1 - r) ->
  length bs' = k -> Forall isbit bs' -> isbit r' -> (2 * r') * x == x + wsum bs' 0 + (1 - r') ->
  r == r'.
Proof.
  intros Hk L Hb Hr C L' Hb' Hr' C'.
  assert (P2 : 2 ^ (Z.of_nat k + 1) = 2 * 2 ^ Z.of_nat k) by (rewrite Z.pow_add_r by lia; change (2 ^ 1) with 2; ring).
  destruct (check_positive_sound k bs r x L Hb Hr C) as [[E [v [Rv Xv]]]|[E [v [Rv Xv]]]];
  destruct (check_positive_sound k bs' r' x L' Hb' Hr' C') as [[E' [v' [Rv' Xv']]]|[E' [v' [Rv' Xv']]]];
    try (rewrite E, E'; reflexivity); exfalso.
  - apply (feq_small_false p (v - v')); [lia|]. rewrite <- Xv, <- Xv'. apply eq_feq; ring.
  - apply (feq_small_false p (v' - v)); [lia|]. rewrite <- Xv, <- Xv'. apply eq_feq; ring.
Qed.

(* and it is the sign of the centred representative: x == v with -2^k <= v < 2^k gives r = [v >= 0] *)
Theorem check_positive_correct k bs r x v :
  2 ^ (Z.of_nat k + 1) <= p -> - 2 ^ Z.of_nat k <= v < 2 ^ Z.of_nat k -> x == v ->
  length bs = k -> Forall isbit bs -> isbit r -> (2 * r) * x == x + wsum bs 0 + (1 - r) ->
  r == (if 0 <=? v then 1 else 0).
Proof.
  intros Hk Rv Xv L Hb Hr C.
  assert (P2 : 2 ^ (Z.of_nat k + 1) = 2 * 2 ^ Z.of_nat k) by (rewrite Z.pow_add_r by lia; change (2 ^ 1) with 2; ring).
  destruct (check_positive_sound k bs r x L Hb Hr C) as [[E [u [Ru Xu]]]|[E [u [Ru Xu]]]]; rewrite E;
    destruct (Z.leb_spec 0 v); try reflexivity; exfalso.
  - apply (feq_small_false p (u - v)); [lia|]. rewrite <- Xu, <- Xv. apply eq_feq; ring.
  - apply (feq_small_false p (v - u)); [lia|]. rewrite <- Xu, <- Xv. apply eq_feq; ring.
Qed.

(* an operand outside [-2^k, 2^k) (as a centred residue) admits NO satisfying assignment: cannot be proven *)
Theorem check_positive_rejects k bs r x :
  length bs = k -> Forall isbit bs -> isbit r -> (2 * r) * x == x + wsum bs 0 + (1 - r) ->
  exists v, - 2 ^ Z.of_nat k <= v < 2 ^ Z.of_nat k /\ x == v.
Proof.
  intros L Hb Hr C. destruct (check_positive_sound k bs r x L Hb Hr C) as [[_ [v [R X]]]|[_ [v [R X]]]]; exists v; split; (lia || exact X).
Qed.

(* ---- assert_zero / assert_nonzero ---- *)
Theorem assert_zero_sound x : 0 * 0 == x -> x == 0.
Proof. intros H. symmetry. rewrite <- H. apply eq_feq; ring. Qed.
Theorem assert_nonzero_sound x w : x * w == 1 -> ~ x == 0.
Proof.
  intros H E. rewrite E in H. apply (feq_small_false p 1); [pose proof (prime_ge_2 _ Hp); lia|].
  symmetry. rewrite <- H. apply eq_feq; ring.
Qed.

(* ---- n-bit decomposition: the bits are THE bits of x, and x out of range cannot be proven ---- *)
Theorem to_bits_rejects k bs x : length bs = k -> Forall isbit bs -> x == wsum bs 0 -> exists v, 0 <= v < 2 ^ Z.of_nat k /\ x == v.
Proof. intros L Hb Hx. destruct (bits_value bs Hb) as [v [R E]]. rewrite L in R. exists v. split; [exact R|]. rewrite Hx. exact E. Qed.
End S.
