(* C05: x ** k with a public exponent 1 <= k <= 400 (repeated multiplication gadgets) returns the integer power, and x << k with a
   public shift returns x * 2^k (a linear operation: nothing emitted), through the operator dispatch. *)
From Coq Require Import ZArith List Bool Lia Znumtheory.
From PySnark.Base Require Import FieldZ Bits.
From PySnark.Model Require Import Lc Sym Good Gadgets Api.
From PySnark.Proofs Require Import Meta Frame Wp WpBase GadgetsOK NoRaiseGadgets Values OpValues PoseidonValues.
Import ListNotations.
Open Scope Z_scope.

Section PW.
Context {p : Z}.
Variable ins : list Z.
Variable ig : bool.
Hypothesis F : field_ok p.
Local Notation gst := (@Gadgets.gst p).
Local Notation slc := (Sym.slc p).
Local Notation ve := (Sym.veval p ins ig).
Local Notation wp := (Wp.wp (p:=p) ins ig).
Local Notation Inv := (WpBase.Inv (p:=p) ins ig).
Local Notation sc := (NoRaiseGadgets.sc (p:=p)).
Variable c : cfg.
Variables (s : gst) (sg : store).
Hypothesis I : Inv s sg.
Local Notation v x := (ve sg (sval x)).
Local Notation returns := (Values.returns ins ig).
Local Notation is_lc := (OpValues.is_lc ins ig).

Theorem op_pow_int x k : sc s x -> 1 <= k <= 400 -> returns (pyop c OPow (PLC x) (PInt k)) s sg (is_lc (fun r => r = v x ^ k)).
Proof.
  intros Hx Hk. unfold Values.returns, pyop, FUEL. cbn [binop dispatch]. apply wp_bind. cbn [lc_dunder].
  destruct (Z.ltb_spec k 0); [lia|]. destruct (Z.ltb_spec 400 k); [lia|]. unfold lcr. apply wp_bind.
  apply (pow_nat_wp ins ig); [exact I|exact Hx|lia|]. intros r s' sg' _ _ _ _ _ Vr. cbn [ret wp is_lc]. unfold vz in Vr.
  rewrite Vr, Z2Nat.id by lia. reflexivity.
Qed.
Theorem op_lshift_int x k : 0 <= k <= 100000 -> returns (pyop c OLshift (PLC x) (PInt k)) s sg (is_lc (fun r => r = v x * 2 ^ k)).
Proof.
  intros Hk. unfold Values.returns, pyop, FUEL. cbn [binop dispatch]. apply wp_bind. cbn [lc_dunder].
  destruct (Z.ltb_spec k 0); [lia|]. destruct (Z.ltb_spec 100000 k); [lia|]. cbn [ret wp is_lc]. cbn [sval scale]. esimp. reflexivity.
Qed.
End PW.
