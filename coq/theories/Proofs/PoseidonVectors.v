(* the published Poseidon permutation test vectors, on the parameter sets translated from the source on this run *)
From Coq Require Import ZArith List.
From PySnark Require Import Generated GeneratedPoseidon.
From PySnark.Model Require Import Hash.
Import ListNotations.
Open Scope Z_scope.

Lemma vector_bn128 :
  permute_ref zkif_modulus poseidon_zkinterface [0; 1; 2; 3; 4] =
  [0x299c867db6c1fdd79dcefa40e4510b9837e60ebb1ce0663dbaa525df65250465; 0x1148aaef609aa338b27dafd89bb98862d8bb2b429aceac47d86206154ffe053d;
   0x24febb87fed7462e23f6665ff9a0111f4044c38ee1672c1ac6b0637d34f24907; 0x0eb08f6d809668a981c186beaf6110060707059576406b248e5d9cf6e78b3d3e;
   0x07748bc6877c9b82c8b98666ee9d0626ec7f5be4205f79ee8528ef1c4a376fc7].
Proof. vm_compute. reflexivity. Qed.
Lemma vector_bls12_381 :
  permute_ref bellman_modulus poseidon_zkifbellman [0; 1; 2; 3; 4] =
  [0x2a918b9c9f9bd7bb509331c81e297b5707f6fc7393dcee1b13901a0b22202e18; 0x65ebf8671739eeb11fb217f2d5c5bf4a0c3f210e3f3cd3b08b5db75675d797f7;
   0x2cc176fc26bc70737a696a9dfd1b636ce360ee76926d182390cdb7459cf585ce; 0x4dc4e29d283afd2a491fe6aef122b9a968e74eff05341f3cc23fda1781dcb566;
   0x03ff622da276830b9451b88b85e6184fd6ae15c8ab3ee25a5667be8592cce3b1].
Proof. vm_compute. reflexivity. Qed.

