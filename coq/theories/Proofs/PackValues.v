(* pysnark.pack on SECRET values (C16): PackIntMod(m).pack of a secret integer is its decomposition into bitlen(m-1) boolean
   witnesses, and unpack of those bits is their recomposition, asserted to be below m.  Whenever the round trip does not raise,
   the unpacked secret carries the value of the packed one (reduced to the field width, i.e. the value itself when it is in
   range -- which the decomposition's own run-time check enforces while error checking is on). *)
From Coq Require Import ZArith List Bool Lia Znumtheory.
From PySnark.Base Require Import FieldZ Bits.
From PySnark.Model Require Import Lc Sym Good Gadgets Api Prog.
From PySnark.Proofs Require Import Meta Frame Wp WpBase GadgetsOK Values BitValues.
Import ListNotations.
Open Scope Z_scope.

Section PKV.
Context {p : Z}.
Variable ins : list Z.
Variable ig : bool.
Hypothesis F : field_ok p.
Variable c : cfg.
Local Notation gst := (@Gadgets.gst p).
Local Notation slc := (Sym.slc p).
Local Notation pyval := (Api.pyval p).
Local Notation G := (@Gadgets.G p).
Local Notation ve := (Sym.veval p ins ig).
Local Notation wp := (Wp.wp (p:=p) ins ig).
Local Notation Inv := (WpBase.Inv (p:=p) ins ig).
Local Notation op2 := (Api.pyop (p:=p) c).
Ltac disp := unfold Prog.op2, pyop, FUEL;
  cbn [binop dispatch lc_dunder lc_rdunder bool_dunder bool_rdunder bind ret uneg same_class NI].

(* sum of b_i * 2^i over LinCombBool bits, as LinComb.from_bits computes it: no constraint, the linear combination from_bits *)
Lemma weights_eq : forall (rest : list slc) (acc : slc) i,
  (fix go (acc : pyval) (bs : list pyval) (i : Z) : G pyval :=
     match bs with [] => ret acc | b :: bs' => t <- Prog.op2 c OMul b (PInt (2 ^ i)) ;; a <- Prog.op2 c OAdd acc t ;; go a bs' (i + 1) end)
    (PLC acc) (map (PBool 0) rest) i = ret (PLC (from_bits_aux acc rest i)).
Proof. induction rest as [|b rest IH]; intros acc i; cbn [map from_bits_aux]; [reflexivity|]. disp. apply IH. Qed.

Lemma unpack_secret_eq m (b0 : slc) (rest : list slc) : length (b0 :: rest) = bitlen_of m ->
  unpack_v c (KIntMod m) (map (PBool 0) (b0 :: rest)) 0 =
  (assert_positive (rsubc (m - 1) (from_bits (b0 :: rest))) (bitlen_of m) ;;; ret (PLC (from_bits (b0 :: rest)))).
Proof.
  intros L. cbn [unpack_v]. rewrite <- L. cbn [length Nat.eqb]. unfold nth_bits. rewrite map_length. cbn [length Nat.ltb Nat.leb map nth bind ret skipn].
  rewrite firstn_all2 by (cbn [length]; rewrite map_length; lia). disp. rewrite weights_eq. cbn [bind ret]. reflexivity.
Qed.

(* the round trip *)
Theorem pack_unpack_secret m x s sg (Q : pyval -> gst -> store -> Prop) : Inv s sg -> (0 < bitlen_of m)%nat ->
  (forall q s' sg', Inv s' sg' -> ext sg sg' -> ve sg' (sval q) = ve sg (sval x) mod 2 ^ Z.of_nat (bitlen_of m) -> Q (PLC q) s' sg') ->
  wp (pk <- pack_v (KIntMod m) (PLC x) ;; match pk with PList bits => unpack_v c (KIntMod m) bits 0 | _ => static_raise TypeError end) s sg Q.
Proof.
  intros I Hk HQ. cbn [pack_v]. apply wp_bind. apply wp_bind. apply to_bits_wp; [exact I|]. intros bs s1 sg1 (I1 & E1 & T1) Sbs Vbs. cbn [ret wp].
  assert (L : length bs = bitlen_of m) by (apply (f_equal (@length Z)) in Vbs; unfold GadgetsOK.vals in Vbs; rewrite !map_length, seq_length in Vbs; exact Vbs).
  destruct bs as [|b0 rest]; [cbn in L; lia|]. rewrite (unpack_secret_eq m b0 rest L).
  apply wp_bind. apply OK_assert_positive; [exact I1|]. intros [] s3 sg3 (I3 & E3 & T3). cbn [ret wp].
  apply HQ; [exact I3|eapply ext_trans; [exact E1|exact E3]|].
  rewrite ve_from_bits.
  assert (E13 : ext sg1 sg3) by exact E3.
  rewrite (vals_keep ins ig _ _ _ _ (proj1 I1) E13 Sbs), Vbs. apply wsum_pybit_mod.
Qed.
End PKV.
