(* Abstract core of C09: the merge discipline of pysnark's block API computes what native control flow computes.
   The oblivious semantics below transcribes pysnark/branching.py at the level of VALUES:
     - BranchContext.exit : every tracked variable := if_then_else(cond, value after the branch, backup)      [merge]
     - IfContext          : _if(c): enter(c), icond = not c;  _elif(c'): exit, enter(icond & c'), icond &= not c';
                            _else: exit, enter(icond);  _endif: exit
     - WhileContext       : _while(c): first call enter(c); later calls exit, enter(cond & c);  _breakif(b) = _while(not b);
                            _endwhile: exit
     - _range(stop,max)   : a WhileContext driven by ix != stop, unrolled max times
   A computation made under a false guard yields an UNSPECIFIED value ([junk]), as in the code (dummy witness values).
   The theorems: under a true guard the oblivious execution equals the native one (if/elif/else chains of any length,
   while loops with a break point and an iteration cap, for loops with a secret bound below the public maximum), for
   all nestings; and a variable not assigned by a construct keeps its value whatever the conditions and the guard.
   The model of the real block API (Model/Prog.v: gen_top, ctx_enter, ctx_exit, ctx_while) is tied to the code by the
   trace correspondence; this core is tied to that model by reading (same structure), not by a Coq theorem. *)
From Coq Require Import ZArith List Bool Lia.
Import ListNotations.
Open Scope Z_scope.

Section Core.
Variable V : Type.
Variable V_eq_dec : forall x y : V, {x = y} + {x <> y}.
Definition store := V -> Z.
Definition upd (s : store) (x : V) (v : Z) : store := fun y => if V_eq_dec y x then v else s y.

Inductive cmd :=
| Skip
| Assign (x : V) (e : store -> Z)
| Seq (a b : cmd)
| Cond (ch : chain)                                             (* _if ... [_elif ...]* [_else ...] _endif *)
| For (stop : store -> Z) (max : nat) (body : nat -> cmd)       (* for i in _range(stop, max=max): body i *)
| While (c : store -> bool) (iters : nat) (b0 : cmd) (bc : store -> bool) (b1 : cmd)
                                       (* iters x [ _while(c); b0; _breakif(bc); b1 ]; _endwhile   (no break: bc = false, b1 = Skip) *)
with chain :=
| CEnd                                                          (* _endif without _else *)
| CElse (e : cmd)
| CElif (c : store -> bool) (t : cmd) (r : chain).              (* the first link is the _if itself *)

Scheme cmd_mut := Induction for cmd Sort Prop
with chain_mut := Induction for chain Sort Prop.

(* ---------------- native semantics ---------------- *)
Fixpoint iter (body : nat -> store -> store) (k n : nat) (s : store) : store :=
  match n with O => s | S n' => iter body (S k) n' (body k s) end.
Fixpoint nloop (c : store -> bool) (b0 : store -> store) (bc : store -> bool) (b1 : store -> store) (n : nat) (s : store) : store :=
  match n with
  | O => s
  | S n' => if c s then
              let s1 := b0 s in
              if bc s1 then s1 (* break *) else nloop c b0 bc b1 n' (b1 s1)
            else s
  end.
Fixpoint nexec (c : cmd) (s : store) : store :=
  match c with
  | Skip => s
  | Assign x e => upd s x (e s)
  | Seq a b => nexec b (nexec a s)
  | Cond ch => nchain ch s
  | For stop max body => iter (fun k => nexec (body k)) 0 (Z.to_nat (stop s)) s
  | While c iters b0 bc b1 => nloop c (nexec b0) bc (nexec b1) iters s
  end
with nchain (ch : chain) (s : store) : store :=
  match ch with
  | CEnd => s
  | CElse e => nexec e s
  | CElif c t r => if c s then nexec t s else nchain r s
  end.

(* ---------------- oblivious semantics ---------------- *)
Variable junk : V -> store -> Z.
Definition merge (c : bool) (a b : store) : store := fun x => if c then a x else b x.

Fixpoint oloop (ob : nat -> bool -> store -> store) (g : bool) (stopv : Z) (alive : bool) (k n : nat) (s : store) : store :=
  match n with
  | O => s
  | S n' =>
      let cond := alive && negb (Z.of_nat k =? stopv) in          (* self.cond & (ix != stop) *)
      let sb := ob k (g && cond) s in                              (* body under the nested guard *)
      oloop ob g stopv cond (S k) n' (merge cond sb s)             (* exit(): select on cond *)
  end.
Fixpoint owhile (c : store -> bool) (ob0 : bool -> store -> store) (bc : store -> bool) (ob1 : bool -> store -> store)
                (g : bool) (alive : bool) (n : nat) (s : store) : store :=
  match n with
  | O => s
  | S n' =>
      let alive1 := alive && c s in                                (* _while(c): enter(self.cond & c) *)
      let s1 := merge alive1 (ob0 (g && alive1) s) s in            (* exit() at the _breakif *)
      let alive2 := alive1 && negb (bc s1) in                      (* _breakif(bc) = _while(not bc) *)
      let s2 := merge alive2 (ob1 (g && alive2) s1) s1 in          (* exit() at the next _while / _endwhile *)
      owhile c ob0 bc ob1 g alive2 n' s2
  end.

Fixpoint oexec (c : cmd) (g : bool) (s : store) : store :=
  match c with
  | Skip => s
  | Assign x e => upd s x (if g then e s else junk x s)
  | Seq a b => oexec b g (oexec a g s)
  | Cond ch => ochain ch g true s
  | For stop max body => oloop (fun k => oexec (body k)) g (stop s) true 0 max s
  | While c iters b0 bc b1 => owhile c (oexec b0) bc (oexec b1) g true iters s
  end
with ochain (ch : chain) (g : bool) (icond : bool) (s : store) : store :=      (* icond: no earlier branch was taken *)
  match ch with
  | CEnd => s
  | CElse e => merge icond (oexec e (g && icond) s) s
  | CElif c t r =>
      let cv := c s in
      let br := icond && cv in                                     (* enter(icond & c) *)
      let s1 := merge br (oexec t (g && br) s) s in                 (* exit() *)
      ochain r g (icond && negb cv) s1                             (* icond &= not c *)
  end.

Lemma merge_true a b : merge true a b = a. Proof. reflexivity. Qed.
Lemma merge_false a b : merge false a b = b. Proof. reflexivity. Qed.

Lemma oloop_dead ob g sv k n s : oloop ob g sv false k n s = s.
Proof. revert k s. induction n as [|n IH]; intros k s; simpl; [reflexivity|]. rewrite merge_false. apply IH. Qed.
Lemma owhile_dead c ob0 bc ob1 g n s : owhile c ob0 bc ob1 g false n s = s.
Proof. revert s. induction n as [|n IH]; intros s; cbn [owhile]; [reflexivity|]. cbn [andb]. rewrite !merge_false. apply IH. Qed.

Lemma oloop_native ob nb sv :
  (forall k s, ob k true s = nb k s) ->
  forall n k s, 0 <= sv -> (Z.of_nat k <= sv) -> (sv <= Z.of_nat (k + n)) ->
  oloop ob true sv true k n s = iter nb k (Z.to_nat sv - k) s.
Proof.
  intros H. induction n as [|n IH]; intros k s H0 Hk Hn.
  - simpl. replace (Z.to_nat sv - k)%nat with O by lia. reflexivity.
  - simpl. destruct (Z.of_nat k =? sv) eqn:E.
    + simpl. rewrite merge_false, oloop_dead. replace (Z.to_nat sv - k)%nat with O by lia. reflexivity.
    + simpl. rewrite merge_true, H. rewrite IH by lia.
      replace (Z.to_nat sv - k)%nat with (S (Z.to_nat sv - S k)) by lia. reflexivity.
Qed.

Lemma owhile_native c ob0 nb0 bc ob1 nb1 :
  (forall s, ob0 true s = nb0 s) -> (forall s, ob1 true s = nb1 s) ->
  forall n s, owhile c ob0 bc ob1 true true n s = nloop c nb0 bc nb1 n s.
Proof.
  intros H0 H1. induction n as [|n IH]; intros s; cbn [owhile nloop]; [reflexivity|]. cbv zeta. cbn [andb].
  destruct (c s) eqn:Ec.
  - rewrite merge_true, H0. destruct (bc (nb0 s)) eqn:Eb; cbn [negb andb].
    + rewrite merge_false. apply owhile_dead.
    + rewrite merge_true, H1. apply IH.
  - cbn [andb]. rewrite !merge_false. apply owhile_dead.
Qed.

(* side condition of the for-loop: 0 <= stop <= max at loop entry (what checkstopmax asserts) *)
Fixpoint ok (c : cmd) : Prop :=
  match c with
  | Skip | Assign _ _ => True
  | Seq a b => ok a /\ ok b
  | Cond ch => okc ch
  | For stop max body => (forall s, 0 <= stop s <= Z.of_nat max) /\ (forall k, ok (body k))
  | While _ _ b0 _ b1 => ok b0 /\ ok b1
  end
with okc (ch : chain) : Prop :=
  match ch with CEnd => True | CElse e => ok e | CElif _ t r => ok t /\ okc r end.

(* Main refinement: under a true guard the oblivious execution is the native one; an if/elif/else chain entered when an
   earlier branch was already taken ([icond] = false) changes nothing. *)
Theorem oexec_refines : forall c, ok c -> forall s, oexec c true s = nexec c s.
Proof.
  apply (cmd_mut (fun c => ok c -> forall s, oexec c true s = nexec c s)
                 (fun ch => okc ch -> forall ic s, ochain ch true ic s = if ic then nchain ch s else s)).
  - reflexivity.
  - reflexivity.
  - intros a IHa b IHb [Ha Hb] s. cbn [oexec nexec]. rewrite IHa, IHb; auto.
  - intros ch IH H s. cbn [oexec nexec]. rewrite IH by exact H. reflexivity.
  - intros stop max body IH [Hs Hb] s. cbn [oexec nexec]. specialize (Hs s).
    rewrite (oloop_native _ (fun k => nexec (body k)) (stop s)); try lia.
    + f_equal. lia.
    + intros k s'. apply IH, Hb.
  - intros c iters b0 IH0 bc b1 IH1 [H0 H1] s. cbn [oexec nexec].
    apply owhile_native; intros s'; [apply IH0, H0|apply IH1, H1].
  - intros _ ic s. destruct ic; reflexivity.
  - intros e IH H ic s. cbn [ochain nchain]. destruct ic; cbn [andb]; [rewrite merge_true; apply IH, H|reflexivity].
  - intros c t IHt r IHr [Ht Hr] ic s. cbn [ochain nchain]. rewrite IHr by exact Hr.
    destruct ic; cbn [andb negb].
    + destruct (c s); cbn [negb]; [rewrite merge_true; apply IHt, Ht|rewrite merge_false; reflexivity].
    + rewrite merge_false. reflexivity.
Qed.

(* Variables a construct does not assign keep their value, whatever the conditions and the guard. *)
Fixpoint assigns (c : cmd) (x : V) : Prop :=
  match c with
  | Skip => False | Assign y _ => x = y
  | Seq a b => assigns a x \/ assigns b x
  | Cond ch => assignsc ch x
  | For _ _ body => exists k, assigns (body k) x
  | While _ _ b0 _ b1 => assigns b0 x \/ assigns b1 x
  end
with assignsc (ch : chain) (x : V) : Prop :=
  match ch with CEnd => False | CElse e => assigns e x | CElif _ t r => assigns t x \/ assignsc r x end.

Theorem untouched : forall c g s x, ~ assigns c x -> oexec c g s x = s x.
Proof.
  apply (cmd_mut (fun c => forall g s x, ~ assigns c x -> oexec c g s x = s x)
                 (fun ch => forall g ic s x, ~ assignsc ch x -> ochain ch g ic s x = s x)).
  - reflexivity.
  - intros y e g s x Hx. cbn in *. unfold upd. destruct (V_eq_dec x y); [contradiction|reflexivity].
  - intros a IHa b IHb g s x Hx. cbn in *. rewrite IHb, IHa; tauto.
  - intros ch IH g s x Hx. cbn in *. apply IH, Hx.
  - intros stop max body IH g s x Hx. cbn [oexec].
    assert (L : forall n k alive s0, oloop (fun k => oexec (body k)) g (stop s) alive k n s0 x = s0 x).
    { induction n as [|n IHn]; intros k alive s0; cbn [oloop]; [reflexivity|]. rewrite IHn. unfold merge.
      destruct (alive && negb (Z.of_nat k =? stop s)); [|reflexivity]. apply IH. intro A. apply Hx. cbn. eauto. }
    apply L.
  - intros c iters b0 IH0 bc b1 IH1 g s x Hx. cbn [oexec]. cbn in Hx.
    assert (L : forall n alive s0, owhile c (oexec b0) bc (oexec b1) g alive n s0 x = s0 x).
    { induction n as [|n IHn]; intros alive s0; cbn [owhile]; [reflexivity|]. rewrite IHn. unfold merge at 1.
      destruct (alive && c s0 && negb _); [rewrite IH1 by tauto|]; unfold merge; destruct (alive && c s0); try reflexivity; apply IH0; tauto. }
    apply L.
  - reflexivity.
  - intros e IH g ic s x Hx. cbn in *. unfold merge. destruct ic; [apply IH, Hx|reflexivity].
  - intros c t IHt r IHr g ic s x Hx. cbn in *. rewrite IHr by tauto. unfold merge. destruct (ic && c s); [apply IHt; tauto|reflexivity].
Qed.
End Core.

