(* C09: the merge performed by BranchContext.exit in the model (Prog.merge_bak, through branching.if_then_else and the
   operator dispatch).  For variables holding secret integers: after the merge under the LinCombBool condition cb, every
   variable assigned in the block holds   old + cb * (new - old)   -- the new value when the condition is 1, the value from
   before the block when it is 0 -- whatever the guard state, for all values. *)
From Coq Require Import ZArith List Bool Lia Znumtheory.
From PySnark.Base Require Import FieldZ Bits.
From PySnark.Model Require Import Lc Sym Good Gadgets Api Prog.
From PySnark.Proofs Require Import Meta Frame Wp WpBase GadgetsOK ApiOK ProgOK.
Import ListNotations.
Open Scope Z_scope.

Section MV.
Context {p : Z}.
Variable ins : list Z.
Variable ig : bool.
Variable c : cfg.
Local Notation gst := (@Gadgets.gst p).
Local Notation slc := (Sym.slc p).
Local Notation pyval := (Api.pyval p).
Local Notation ve := (Sym.veval p ins ig).
Local Notation wp := (Wp.wp (p:=p) ins ig).
Local Notation Inv := (WpBase.Inv (p:=p) ins ig).
Local Notation op2 := (Api.pyop (p:=p) c).
Local Notation bdict := (Prog.bdict (p:=p)).

Definition sc (s : gst) (x : slc) : Prop := vscopedb (npub s) (npriv s) (sval x) = true.
Definition sel (b t f : Z) : Z := f + b * (t - f).
Lemma sel_1 t f : sel 1 t f = t. Proof. unfold sel. ring. Qed.
Lemma sel_0 t f : sel 0 t f = f. Proof. unfold sel. ring. Qed.

Lemma sc_mono s s' sg sg' x : cnt s sg -> cnt s' sg' -> ext sg sg' -> sc s x -> sc s' x.
Proof. intros C C' E H. destruct (cnt_mono _ _ _ _ C C' E) as [M1 M2]. unfold sc in *. eapply vscopedb_mono; eauto. Qed.

(* giving an object an identity does not change its value *)
Lemma name_lc_wp x s sg (Q : slc -> gst -> store -> Prop) : (forall o s', npub s' = npub s -> npriv s' = npriv s -> cur_triple s' = cur_triple s -> (Inv s sg -> Inv s' sg) -> Q (with_oid x o) s' sg) ->
  wp (name_lc x) s sg Q.
Proof.
  intros HQ. unfold name_lc. destruct (oid x =? 0) eqn:E.
  - unfold fresh_oid. cbn [bind ret wp]. apply HQ; try reflexivity. intros I. exact I.
  - cbn [ret wp]. replace x with (with_oid x (oid x)) at 1 by (destruct x; reflexivity). apply HQ; auto.
Qed.

(* one merged variable: branching.if_then_else(cond, new, old) on two secret integers, then stored *)
Lemma ite1_value o cb t f s sg (Q : pyval -> gst -> store -> Prop) : Inv s sg -> sc s t -> sc s f -> sc s cb ->
  (same_val (PLC t) (PLC f) = true -> ve sg (sval t) = ve sg (sval f)) ->
  (forall x s' sg', Inv s' sg' -> ext sg sg' -> sc s' x -> ve sg' (sval x) = sel (ve sg (sval cb)) (ve sg (sval t)) (ve sg (sval f)) -> Q (PLC x) s' sg') ->
  wp (ite1 c (PBool o cb) (PLC t) (PLC f)) s sg Q.
Proof.
  intros I St Sf Sc Hid HQ. unfold ite1. apply wp_bind. apply wp_lift. unfold if_then_else. cbn [ite_fuel].
  destruct (same_val (PLC t) (PLC f)) eqn:Es; cbn [andb].
  - cbn [ret wp]. apply wp_lift. cbn [name_val]. apply wp_bind. apply name_lc_wp. intros o' s' N1 N2 _ Iv. cbn [ret wp].
    apply HQ; [exact (Iv I)|apply ext_refl|unfold sc; rewrite N1, N2; exact St|]. cbn [sval with_oid]. rewrite (Hid eq_refl). unfold sel. ring.
  - unfold pyop, FUEL. cbn [binop dispatch lc_dunder bool_dunder bool_rdunder lc_rdunder bind ret uneg same_class lcr NI].
    repeat apply wp_bind. apply mul_wp; [exact I|]. intros m s1 sg1 P Sm Vm Cc Ctf.
    cbn [ret wp bind lcr]. apply wp_lift. cbn [name_val]. apply wp_bind. apply name_lc_wp. intros o' s' N1 N2 _ Iv. cbn [ret wp].
    destruct P as (I1 & E1 & T1).
    assert (Sf1 : vscopedb (npub s1) (npriv s1) (sval f) = true) by (exact (sc_mono s s1 sg sg1 f (proj1 I) (proj1 I1) E1 Sf)).
    apply HQ; [exact (Iv I1)|exact E1| |].
    + unfold sc. rewrite N1, N2. cbn [sval with_oid add]. cbn [vscopedb]. unfold slc_scoped in Sm. apply andb_prop in Sm. destruct Sm as [Sm _]. rewrite Sf1, Sm. reflexivity.
    + cbn [sval with_oid add]. esimp. rewrite Vm. cbn [sval add neg]. esimp. rewrite (ve_ext ins ig _ _ _ _ (proj1 I) E1 Sf). unfold sel. ring.
Qed.

(* ---- dictionaries ---- *)
Lemma dget_dset_same : forall (d : bdict) k v, dget (dset d k v) k = Some v.
Proof. induction d as [|[j u] d IH]; intros k v; cbn [dset dget]; [rewrite Nat.eqb_refl; reflexivity|]. destruct (Nat.eqb k j) eqn:E; cbn [dget]; rewrite E; [reflexivity|apply IH]. Qed.
Lemma dget_dset_other : forall (d : bdict) k j v, j <> k -> dget (dset d k v) j = dget d j.
Proof.
  induction d as [|[i u] d IH]; intros k j v Hn; cbn [dset dget].
  - destruct (Nat.eqb_spec j k); [contradiction|reflexivity].
  - destruct (Nat.eqb_spec k i) as [->|Hki]; cbn [dget].
    + destruct (Nat.eqb_spec j i); [contradiction|reflexivity].
    + destruct (Nat.eqb_spec j i); [reflexivity|]. apply IH. exact Hn.
Qed.
Definition store_all (acc : bdict) (xs : list (nat * slc)) : bdict := fold_left (fun a nx => dset a (fst nx) (PLC (snd nx))) xs acc.
Lemma store_all_other : forall xs acc nm, ~ In nm (map fst xs) -> dget (store_all acc xs) nm = dget acc nm.
Proof.
  induction xs as [|[n x] xs IH]; intros acc nm Hn; cbn [store_all fold_left fst snd]; [reflexivity|]. fold (store_all (dset acc n (PLC x)) xs).
  cbn [map fst In] in Hn. rewrite IH by tauto. apply dget_dset_other. intros E. apply Hn. left. symmetry. exact E.
Qed.
Lemma store_all_in : forall xs acc nm x, NoDup (map fst xs) -> In (nm, x) xs -> dget (store_all acc xs) nm = Some (PLC x).
Proof.
  induction xs as [|[n y] xs IH]; intros acc nm x Hd Hin; [destruct Hin|]. cbn [store_all fold_left fst snd]. fold (store_all (dset acc n (PLC y)) xs).
  cbn [map fst] in Hd. inversion Hd as [|? ? Hnot Hd']; subst. destruct Hin as [E|Hin].
  - inversion E; subst. rewrite store_all_other by exact Hnot. apply dget_dset_same.
  - apply IH; assumption.
Qed.

(* ---- BranchContext.exit: the merge of every variable assigned in the block with its backup ---- *)
Section Merge.
Variables (o : Z) (cb : slc) (bak : bdict).
Variables (s0 : gst) (sg0 : store).
Hypothesis I0 : Inv s0 sg0.
Hypothesis Scb : sc s0 cb.
Local Notation v0 x := (ve sg0 (sval x)).

(* what is known about a variable (name, new value) before the merge *)
Definition pre (nt : nat * slc) : Prop :=
  sc s0 (snd nt) /\ exists f, dget bak (fst nt) = Some (PLC f) /\ sc s0 f /\ (same_val (PLC (snd nt)) (PLC f) = true -> v0 (snd nt) = v0 f).
(* ... and after it *)
Definition post (s' : gst) (sg' : store) (nt nx : nat * slc) : Prop :=
  fst nx = fst nt /\ sc s' (snd nx) /\ exists f, dget bak (fst nt) = Some (PLC f) /\ ve sg' (sval (snd nx)) = sel (v0 cb) (v0 (snd nt)) (v0 f).
Lemma post_mono s1 sg1 s2 sg2 nt nx : cnt s1 sg1 -> cnt s2 sg2 -> ext sg1 sg2 -> post s1 sg1 nt nx -> post s2 sg2 nt nx.
Proof.
  intros C1 C2 E (A & B & f & D & V). split; [exact A|]. split; [exact (sc_mono _ _ _ _ _ C1 C2 E B)|]. exists f. split; [exact D|].
  rewrite (ve_ext ins ig _ _ _ _ C1 E B). exact V.
Qed.

Lemma merge_bak_value : forall (new : list (nat * slc)) (acc : bdict) s sg (Q : bdict -> gst -> store -> Prop), Inv s sg -> ext sg0 sg ->
  Forall pre new ->
  (forall xs s' sg', Inv s' sg' -> ext sg sg' -> Forall2 (post s' sg') new xs -> Q (store_all acc xs) s' sg') ->
  wp (merge_bak c (PBool o cb) bak (map (fun nt => (fst nt, PLC (snd nt))) new) acc) s sg Q.
Proof.
  induction new as [|[nm t] new IH]; intros acc s sg Q I E Hp HQ; cbn [map merge_bak fst snd].
  - cbn [ret wp]. apply (HQ []); [exact I|apply ext_refl|constructor].
  - inversion Hp as [|? ? [St [f [Df [Sf Hid]]]] Hp']; subst. cbn [fst snd] in *. rewrite Df.
    assert (St' : sc s t) by exact (sc_mono _ _ _ _ _ (proj1 I0) (proj1 I) E St).
    assert (Sf' : sc s f) by exact (sc_mono _ _ _ _ _ (proj1 I0) (proj1 I) E Sf).
    assert (Sc' : sc s cb) by exact (sc_mono _ _ _ _ _ (proj1 I0) (proj1 I) E Scb).
    apply wp_bind. apply ite1_value; try assumption.
    + intros Es. rewrite (ve_ext ins ig _ _ _ _ (proj1 I0) E St), (ve_ext ins ig _ _ _ _ (proj1 I0) E Sf). exact (Hid Es).
    + intros x s1 sg1 I1 E1 Sx Vx. apply IH; [exact I1|eapply ext_trans; eauto|exact Hp'|].
      intros xs s2 sg2 I2 E2 Hxs. apply (HQ ((nm, x) :: xs)); [exact I2|eapply ext_trans; eauto|].
      constructor; [|exact Hxs]. apply (post_mono s1 sg1 s2 sg2 _ _ (proj1 I1) (proj1 I2) E2).
      split; [reflexivity|]. split; [exact Sx|]. exists f. split; [exact Df|]. cbn [snd]. rewrite Vx.
      rewrite (ve_ext ins ig _ _ _ _ (proj1 I0) E St), (ve_ext ins ig _ _ _ _ (proj1 I0) E Sf), (ve_ext ins ig _ _ _ _ (proj1 I0) E Scb). reflexivity.
Qed.

(* the statement in terms of dictionary look-ups *)
Theorem merge_bak_lookup (new : list (nat * slc)) (acc : bdict) (Q : bdict -> gst -> store -> Prop) : NoDup (map fst new) -> Forall pre new ->
  (forall r s' sg', Inv s' sg' -> ext sg0 sg' ->
     (forall nm t, In (nm, t) new -> exists x f, dget r nm = Some (PLC x) /\ dget bak nm = Some (PLC f) /\ sc s' x /\
                                                 ve sg' (sval x) = sel (v0 cb) (v0 t) (v0 f)) ->
     (forall nm, ~ In nm (map fst new) -> dget r nm = dget acc nm) -> Q r s' sg') ->
  wp (merge_bak c (PBool o cb) bak (map (fun nt => (fst nt, PLC (snd nt))) new) acc) s0 sg0 Q.
Proof.
  intros Hd Hp HQ. apply merge_bak_value; [exact I0|apply ext_refl|exact Hp|]. intros xs s' sg' I' E' H2.
  assert (Names : map fst xs = map fst new).
  { clear - H2. induction H2 as [|nt nx new xs [A _] _ IH]; [reflexivity|]. cbn [map]. rewrite A, IH. reflexivity. }
  apply HQ; [exact I'|exact E'| |].
  - intros nm t Hin. clear - H2 Hin Hd Names. rewrite <- Names in Hd.
    assert (K : exists x, In (nm, x) xs /\ post s' sg' (nm, t) (nm, x)).
    { clear Hd Names. induction H2 as [|nt nx new xs Hpost _ IH]; [destruct Hin|]. destruct Hin as [->|Hin].
      - destruct nx as [n' x]. destruct Hpost as (A & B & C). cbn [fst snd] in *. subst n'. exists x. split; [left; reflexivity|]. split; [reflexivity|]. split; assumption.
      - destruct (IH Hin) as [x [Hx Px]]. exists x. split; [right; exact Hx|exact Px]. }
    destruct K as [x [Hx (_ & Sx & f & Df & Vx)]]. exists x, f. cbn [fst snd] in *. split; [apply store_all_in; assumption|]. auto.
  - intros nm Hn. apply store_all_other. rewrite Names. exact Hn.
Qed.
End Merge.

(* ---- BranchContext.exit as a whole for an _if block whose variables all existed before it: restore the guard, then merge ---- *)
Hypothesis F : field_ok p.
Lemma filter_all_in_bak (bak : bdict) : forall (new : list (nat * slc)), Forall (fun nt => exists f, dget bak (fst nt) = Some f) new ->
  filter (fun jv : nat * pyval => negb (dmem bak (fst jv))) (map (fun nt => (fst nt, PLC (snd nt))) new) = [].
Proof.
  induction new as [|[nm t] new IH]; intros H; [reflexivity|]. inversion H as [|? ? [f Hf] H']; subst. cbn [map filter fst snd] in *.
  unfold dmem. rewrite Hf. cbn [negb]. apply IH. exact H'.
Qed.
Theorem ctx_exit_value_gen (cx : bctx (p:=p)) o cb (new : list (nat * slc)) s sg (Q : bdict * bdict -> gst -> store -> Prop) :
  Inv s sg -> tvalid ins ig (borig cx) s sg -> (bnodef cx = None \/ bnodef cx = Some []) -> bk cx = KIf -> bcond cx = PBool o cb -> sc s cb ->
  NoDup (map fst new) -> Forall (pre (bbak cx) s sg) new ->
  (forall r s' sg', Inv s' sg' -> ext sg sg' ->
     (forall nm t, In (nm, t) new -> exists x f, dget r nm = Some (PLC x) /\ dget (bbak cx) nm = Some (PLC f) /\ sc s' x /\
        ve sg' (sval x) = sel (ve sg (sval cb)) (ve sg (sval t)) (ve sg (sval f))) ->
     Q (r, []) s' sg') ->
  wp (ctx_exit c cx (map (fun nt => (fst nt, PLC (snd nt))) new)) s sg Q.
Proof.
  intros I V Hn Hk Hc Scb Hd Hp HQ. unfold ctx_exit. apply wp_bind.
  apply (restore_guard_TOK ins ig (borig cx) s sg I V). intros _ s1 sg1 I1 E1 _.
  rewrite Hc, Hk.
  assert (Hall : Forall (fun nt : nat * slc => exists f, dget (bbak cx) (fst nt) = Some f) new).
  { eapply Forall_impl; [|exact Hp]. intros nt (_ & f & Hf & _). exists (PLC f). exact Hf. }
  assert (Hnd : wp (match bnodef cx with None => ret (filter (fun jv : nat * pyval => negb (dmem (bbak cx) (fst jv))) (map (fun nt => (fst nt, PLC (snd nt))) new)) | Some nd => merge_nodef c (PBool o cb) (map (fun nt => (fst nt, PLC (snd nt))) new) nd end) s1 sg1 (fun nodef s' sg' => nodef = [] /\ s' = s1 /\ sg' = sg1)).
  { destruct Hn as [Hn|Hn]; rewrite Hn; [rewrite (filter_all_in_bak (bbak cx) new Hall)|cbn [merge_nodef]]; cbn [ret wp]; auto. }
  apply wp_bind. eapply wp_mono; [|exact Hnd]. intros nodef s' sg' (-> & -> & ->). cbn [ret bind fold_left wp].
  apply wp_bind.
  assert (C1 : cnt s sg) by exact (proj1 I). assert (C2 : cnt s1 sg1) by exact (proj1 I1).
  destruct (cnt_mono _ _ _ _ C1 C2 E1) as [M1 M2].
  assert (Scb1 : sc s1 cb) by (unfold sc in *; eapply vscopedb_mono; eauto).
  assert (Hp1 : Forall (pre (bbak cx) s1 sg1) new).
  { eapply Forall_impl; [|exact Hp]. intros nt (St & f & Hf & Sf & Hid). split; [unfold sc in *; eapply vscopedb_mono; eauto|].
    exists f. split; [exact Hf|]. split; [unfold sc in *; eapply vscopedb_mono; eauto|]. intros Es.
    rewrite (ve_ext ins ig _ _ _ _ C1 E1 St), (ve_ext ins ig _ _ _ _ C1 E1 Sf). exact (Hid Es). }
  apply (merge_bak_lookup o cb (bbak cx) s1 sg1 I1 Scb1 new _ _ Hd Hp1). intros r s2 sg2 I2 E2 Hl _. cbn [ret wp].
  apply HQ; [exact I2|eapply ext_trans; eauto|]. intros nm t Hin. destruct (Hl nm t Hin) as (x & f & A & B & Sx & Vx). exists x, f. repeat split; try assumption.
  rewrite Vx. rewrite Forall_forall in Hp. destruct (Hp (nm, t) Hin) as (St & f' & Hf' & Sf' & _). cbn [fst snd] in *. rewrite B in Hf'. inversion Hf'; subst f'.
  rewrite (ve_ext ins ig _ _ _ _ C1 E1 St), (ve_ext ins ig _ _ _ _ C1 E1 Sf'), (ve_ext ins ig _ _ _ _ C1 E1 Scb). reflexivity.
Qed.
Theorem ctx_exit_value (cx : bctx (p:=p)) o cb (new : list (nat * slc)) s sg (Q : bdict * bdict -> gst -> store -> Prop) :
  Inv s sg -> tvalid ins ig (borig cx) s sg -> bnodef cx = None -> bk cx = KIf -> bcond cx = PBool o cb -> sc s cb ->
  NoDup (map fst new) -> Forall (pre (bbak cx) s sg) new ->
  (forall r s' sg', Inv s' sg' -> ext sg sg' ->
     (forall nm t, In (nm, t) new -> exists x f, dget r nm = Some (PLC x) /\ dget (bbak cx) nm = Some (PLC f) /\ sc s' x /\
        ve sg' (sval x) = sel (ve sg (sval cb)) (ve sg (sval t)) (ve sg (sval f))) ->
     Q (r, []) s' sg') ->
  wp (ctx_exit c cx (map (fun nt => (fst nt, PLC (snd nt))) new)) s sg Q.
Proof. intros I V Hn. apply ctx_exit_value_gen; auto. Qed.
End MV.
