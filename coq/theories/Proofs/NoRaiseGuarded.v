(* C07, the "inert" half: inside a region whose guard is FALSE (error suppression on) the assertion, decomposition, comparison
   and multiplication gadgets do NOT raise, for ALL operand values -- in or out of their domain.  (The gadgets that can still
   raise there are the recorded findings: division / equality tests that need a field inverse, non-boolean LinCombBool.) *)
From Coq Require Import ZArith List Bool Lia Znumtheory.
From PySnark.Base Require Import FieldZ Bits.
From PySnark.Model Require Import Lc Sym Good Gadgets.
From PySnark.Proofs Require Import LcProofs Meta Frame Wp WpBase GadgetsOK NoRaise NoRaiseGadgets.
Import ListNotations.
Open Scope Z_scope.

Section NGd.
Context {p : Z}.
Variable ins : list Z.
Variable ig : bool.
Local Notation gst := (@Gadgets.gst p).
Local Notation slc := (Sym.slc p).
Local Notation G := (@Gadgets.G p).
Local Notation ve := (Sym.veval p ins ig).
Local Notation be := (Sym.beval p ins ig).
Local Notation nr := (NoRaise.nr (p:=p) ins ig).
Local Notation Inv := (WpBase.Inv (p:=p) ins ig).
Local Notation sc := (NoRaiseGadgets.sc (p:=p)).

(* inside a guarded region with error suppression on (the guard's value is then 0: invariant) *)
Definition V (s : gst) (sg : store) : Prop := Inv s sg /\ be sg (ignore s) = true /\ exists g, guard s = Some g /\ sc s g.
Definition PostV (s : gst) (sg : store) (s' : gst) (sg' : store) : Prop :=
  V s' sg' /\ ext sg sg' /\ cur_triple s' = cur_triple s /\ npub s <= npub s' /\ npriv s <= npriv s'.
Lemma PostV_refl s sg : V s sg -> PostV s sg s sg.
Proof. intros H. split; [exact H|split; [apply ext_refl|split; [reflexivity|lia]]]. Qed.
Lemma PostV_trans s sg s1 sg1 s2 sg2 : PostV s sg s1 sg1 -> PostV s1 sg1 s2 sg2 -> PostV s sg s2 sg2.
Proof. intros (U1 & E1 & T1 & M1) (U2 & E2 & T2 & M2). split; [exact U2|split; [eapply ext_trans; eauto|split; [congruence|lia]]]. Qed.
Lemma V_priv s sg z : V s sg -> PostV s sg (upd_counters s (npub s) (npriv s + 1) (noid s)) (push_priv sg z).
Proof.
  intros (I & Ig & g & Hg & Sg). split; [|split; [apply ext_push_priv|split; [reflexivity|cbn; lia]]].
  split; [apply Inv_priv; exact I|]. split.
  - cbn [ignore upd_counters]. rewrite (be_push_priv ins ig _ _ _ _ (proj1 I) (inv_ignore_scoped ins ig _ _ I)). exact Ig.
  - exists g. split; [exact Hg|]. eapply sc_mono; [| |exact Sg]; cbn; lia.
Qed.
Lemma V_ignore_scoped s sg : V s sg -> bscopedb (npub s) (npriv s) (ignore s) = true.
Proof. intros (I & _). exact (inv_ignore_scoped ins ig _ _ I). Qed.

Lemma mul_g x y s sg (Q : slc -> gst -> store -> Prop) : V s sg -> sc s x -> sc s y ->
  (forall r s' sg', PostV s sg s' sg' -> sc s' r -> Q r s' sg') -> nr (mul x y) s sg Q.
Proof.
  intros Hv Hx Hy HQ. unfold mul, privval, emit, emitc, ret. cbn [bind nr].
  pose proof (proj1 (sc_parts _ _) Hx) as [Cx _]. pose proof (proj1 (sc_parts _ _) Hy) as [Cy _]. pose proof (proj1 (proj1 Hv)) as Ic.
  split; [cbn [vscopedb]; rewrite Cx, Cy; reflexivity|].
  assert (Sr : sc (upd_counters s (npub s) (npriv s + 1) (noid s)) (var_slc (p:=p) (- (npriv s + 1)))) by (apply (new_priv_scoped _ _ Ic)).
  split.
  - apply emit_ok; [eapply sc_mono; [| |exact Hx]; cbn; lia|eapply sc_mono; [| |exact Hy]; cbn; lia|exact Sr].
  - apply HQ; [apply V_priv; exact Hv|exact Sr].
Qed.
(* add_constraint under a guard: the constraint is relaxed by a fresh dummy and guard * dummy = 0; nothing is checked *)
Lemma add_constraint_g v w y chk s sg (Q : unit -> gst -> store -> Prop) : V s sg -> sc s v -> sc s w -> sc s y ->
  (forall s' sg', PostV s sg s' sg' -> Q tt s' sg') -> nr (add_constraint v w y chk) s sg Q.
Proof.
  intros Hv Sv Sw Sy HQ. unfold add_constraint, get. cbn [bind nr]. destruct Hv as (I & Ig & g & Hg & Sg). rewrite Hg.
  unfold privval, emit, emitc. cbn [bind nr].
  pose proof (proj1 (sc_parts _ _) Sv) as [Cv _]. pose proof (proj1 (sc_parts _ _) Sw) as [Cw _]. pose proof (proj1 (sc_parts _ _) Sy) as [Cy _].
  pose proof (proj1 I) as Ic.
  split; [cbn [vscopedb]; rewrite Cv, Cw, Cy; reflexivity|].
  set (s1 := upd_counters s (npub s) (npriv s + 1) (noid s)).
  assert (Sd : sc s1 (var_slc (p:=p) (- (npriv s + 1)))) by (apply (new_priv_scoped _ _ Ic)).
  assert (M : forall x, sc s x -> sc s1 x) by (intros x Hx; eapply sc_mono; [| |exact Hx]; cbn; lia).
  split; [apply emit_ok; [apply M; exact Sv|apply M; exact Sw|apply sc_add; [apply M; exact Sy|exact Sd]]|].
  split; [apply emit_ok; [apply M; exact Sg|exact Sd|apply sc_ZERO]|].
  apply HQ. apply V_priv. split; [exact I|split; [exact Ig|exists g; split; assumption]].
Qed.
Lemma assert_zero_g x s sg (Q : unit -> gst -> store -> Prop) : V s sg -> sc s x -> (forall s' sg', PostV s sg s' sg' -> Q tt s' sg') -> nr (assert_zero x) s sg Q.
Proof.
  intros Hv Hx HQ. unfold assert_zero, get, raise_if. cbn [bind nr]. pose proof (proj1 (sc_parts _ _) Hx) as [Cx _].
  split; [unfold vne; cbn [bscopedb vscopedb]; rewrite Cx, (V_ignore_scoped _ _ Hv); reflexivity|].
  split; [esimp; rewrite (proj1 (proj2 Hv)); reflexivity|].
  apply add_constraint_g; [exact Hv|apply sc_ZERO|apply sc_ZERO|exact Hx|exact HQ].
Qed.
(* LinCombBool(x) for a 0/1-valued x *)
Lemma boolctor_g x s sg (Q : slc -> gst -> store -> Prop) : V s sg -> sc s x -> (ve sg (sval x) = 0 \/ ve sg (sval x) = 1) ->
  (forall s' sg', PostV s sg s' sg' -> Q x s' sg') -> nr (boolctor x) s sg Q.
Proof.
  intros Hv Hx Hb HQ. unfold boolctor, raise_if, ret. cbn [bind nr]. pose proof (proj1 (sc_parts _ _) Hx) as [Cx _].
  split; [unfold is_boolv; cbn [bscopedb vscopedb]; rewrite Cx; reflexivity|].
  split; [unfold is_boolv; esimp; destruct Hb as [->| ->]; reflexivity|].
  apply nr_bind. apply add_constraint_g; [exact Hv|exact Hx|apply sc_rsubc; exact Hx|apply sc_ZERO|]. intros s' sg' P. cbn [nr]. apply HQ. exact P.
Qed.
(* a boolean witness whose hint is 0/1 (the bits of a decomposition always are) *)
Lemma privbool_g h s sg (Q : slc -> gst -> store -> Prop) : V s sg -> vscopedb (npub s) (npriv s) h = true -> (ve sg h = 0 \/ ve sg h = 1) ->
  (forall r s' sg', PostV s sg s' sg' -> sc s' r -> Q r s' sg') -> nr (privbool h) s sg Q.
Proof.
  intros Hv Ch Hb HQ. unfold privbool, raise_if, privval. cbn [bind nr]. pose proof (proj1 (proj1 Hv)) as Ic.
  split; [unfold is_boolv; cbn [bscopedb vscopedb]; rewrite Ch; reflexivity|].
  split; [unfold is_boolv; esimp; destruct Hb as [->| ->]; reflexivity|]. split; [exact Ch|].
  set (s1 := upd_counters s (npub s) (npriv s + 1) (noid s)). pose proof (V_priv s sg (ve sg h) Hv) as P1. fold s1 in P1.
  assert (Sr : sc s1 (var_slc (p:=p) (- (npriv s + 1)))) by (apply (new_priv_scoped _ _ Ic)).
  assert (Vr : ve (push_priv sg (ve sg h)) (sval (var_slc (p:=p) (- (npriv s + 1)))) = ve sg h) by (apply (ve_new_priv ins ig _ _ _ Ic)).
  apply boolctor_g; [exact (proj1 P1)|exact Sr|rewrite Vr; exact Hb|].
  intros s2 sg2 P2. apply HQ; [exact (PostV_trans _ _ _ _ _ _ P1 P2)|]. destruct P2 as (_ & _ & _ & M). eapply sc_mono; [| |exact Sr]; lia.
Qed.
Lemma bits_g (h : nat -> valexp) : forall n i s sg (Q : list slc -> gst -> store -> Prop), V s sg ->
  (forall j, vscopedb (npub s) (npriv s) (h j) = true) -> (forall j sg', ext sg sg' -> ve sg' (h j) = 0 \/ ve sg' (h j) = 1) ->
  (forall bs s' sg', PostV s sg s' sg' -> Forall (sc s') bs -> Q bs s' sg') ->
  nr (mapM_range (fun j => privbool (h j)) i n) s sg Q.
Proof.
  induction n as [|n IH]; intros i s sg Q Hv Hh Hb HQ; cbn [mapM_range].
  - cbn [ret nr]. apply HQ; [apply PostV_refl; exact Hv|constructor].
  - apply nr_bind. apply privbool_g; [exact Hv|apply Hh|apply Hb; apply ext_refl|]. intros r s1 sg1 P1 Sr.
    destruct P1 as (U1 & E1 & T1 & M1).
    apply nr_bind. apply IH; [exact U1|intros j; eapply vscopedb_mono; [| |apply Hh]; lia|intros j sg' E'; apply Hb; eapply ext_trans; eauto|].
    intros bs s2 sg2 P2 Sbs. cbn [ret nr]. destruct P2 as (U2 & E2 & T2 & M2).
    apply HQ.
    + split; [exact U2|split; [eapply ext_trans; eauto|split; [congruence|lia]]].
    + constructor; [eapply sc_mono; [| |exact Sr]; lia|exact Sbs].
Qed.
Lemma pybit_01_any sg' x j : ve sg' (Gadgets.pybit x j) = 0 \/ ve sg' (Gadgets.pybit x j) = 1.
Proof. rewrite (ve_pybit ins ig). apply pybit_01. Qed.

(* to_bits(k): ANY value, in or out of [0, 2^k) *)
Lemma to_bits_g x k s sg (Q : list slc -> gst -> store -> Prop) : V s sg -> sc s x ->
  (forall bs s' sg', PostV s sg s' sg' -> Forall (sc s') bs -> Q bs s' sg') -> nr (to_bits x k) s sg Q.
Proof.
  intros Hv Hx HQ. unfold to_bits, get, raise_if. cbn [bind nr]. pose proof (proj1 (sc_parts _ _) Hx) as [Cx _].
  split; [unfold vlt0; cbn [bscopedb vscopedb]; rewrite Cx, (V_ignore_scoped _ _ Hv); reflexivity|].
  split; [esimp; rewrite (proj1 (proj2 Hv)); reflexivity|].
  apply nr_bind. apply bits_g; [exact Hv|intros j; apply pybit_scoped; exact Cx|intros j sg' _; apply pybit_01_any|].
  intros bs s1 sg1 P1 Sbs. apply nr_bind. destruct P1 as (U1 & E1 & T1 & M1).
  assert (Hx1 : sc s1 x) by (eapply sc_mono; [| |exact Hx]; lia).
  apply assert_zero_g; [exact U1|apply sc_sub; [exact Hx1|apply sc_from_bits; exact Sbs]|].
  intros s2 sg2 P2. cbn [ret nr]. apply HQ; [exact (PostV_trans _ _ _ _ _ _ (conj U1 (conj E1 (conj T1 M1))) P2)|].
  destruct P2 as (_ & _ & _ & M). eapply Forall_impl; [|exact Sbs]. intros b Hb. eapply sc_mono; [| |exact Hb]; lia.
Qed.

Section WithCfg.
Variable c : cfg.
Lemma assert_positive_g x k s sg (Q : unit -> gst -> store -> Prop) : V s sg -> sc s x ->
  (forall s' sg', PostV s sg s' sg' -> Q tt s' sg') -> nr (assert_positive x k) s sg Q.
Proof.
  intros Hv Hx HQ. unfold assert_positive, get, raise_if. cbn [bind nr]. pose proof (proj1 (sc_parts _ _) Hx) as [Cx _].
  split; [unfold vlt0; cbn [bscopedb vscopedb]; rewrite Cx, (V_ignore_scoped _ _ Hv); reflexivity|].
  split; [esimp; rewrite (proj1 (proj2 Hv)); reflexivity|].
  apply nr_bind. apply to_bits_g; [exact Hv|exact Hx|]. intros bs s' sg' P _. cbn [ret nr]. apply HQ. exact P.
Qed.
Lemma check_positive_g x k s sg (Q : slc -> gst -> store -> Prop) : V s sg -> sc s x ->
  (forall r s' sg', PostV s sg s' sg' -> sc s' r -> Q r s' sg') -> nr (check_positive x k) s sg Q.
Proof.
  intros Hv Hx HQ. unfold check_positive, get, raise_if. cbn [bind nr]. pose proof (proj1 (sc_parts _ _) Hx) as [Cx _].
  destruct Hv as (I & Ig & g & Hg & Sg). pose proof (proj1 (sc_parts _ _) Sg) as [Cg _].
  assert (Hv : V s sg) by (split; [exact I|split; [exact Ig|exists g; split; assumption]]).
  set (A := BAnd (isg s) (BBitLenLe (sval x) (Z.of_nat k))).
  set (ab := VIte (BLe (VConst 0) (sval x)) (sval x) (VSub (VSub (VConst 0) (sval x)) (VConst 1))).
  assert (CA : bscopedb (npub s) (npriv s) A = true) by (unfold A, isg; rewrite Hg; cbn [bscopedb vscopedb]; rewrite Cx, Cg; reflexivity).
  split; [cbn [bscopedb]; rewrite CA, (V_ignore_scoped _ _ Hv); reflexivity|].
  split; [esimp; rewrite Ig; cbn; apply andb_false_r|].
  apply nr_bind. apply privbool_g; [exact Hv|cbn [vscopedb bscopedb]; rewrite CA, Cx; reflexivity| |].
  { esimp. destruct (be sg A); [destruct (0 <=? ve sg (sval x)); auto|auto]. }
  intros r s1 sg1 P1 Sr.
  assert (Hh : forall j, vscopedb (npub s) (npriv s) (VIte A (Gadgets.pybit ab j) (VConst 0)) = true).
  { intros j. cbn [vscopedb]. rewrite CA. unfold Gadgets.pybit, ab. cbn [vscopedb bscopedb]. rewrite Cx. reflexivity. }
  apply nr_bind. apply bits_g; [exact (proj1 P1)|intros j; destruct P1 as (_ & _ & _ & M1); eapply vscopedb_mono; [| |apply Hh]; lia| |].
  { intros j sg' _. esimp. destruct (be sg' A); [apply pybit_01_any|auto]. }
  intros bs s2 sg2 P2 Sbs. pose proof (PostV_trans _ _ _ _ _ _ P1 P2) as P02.
  assert (Hx2 : sc s2 x) by (destruct P02 as (_ & _ & _ & M); eapply sc_mono; [| |exact Hx]; lia).
  assert (Sr2 : sc s2 r) by (destruct P2 as (_ & _ & _ & M); eapply sc_mono; [| |exact Sr]; lia).
  apply nr_bind. apply add_constraint_g; [exact (proj1 P2)|apply sc_scale; exact Sr2|exact Hx2| |].
  - apply sc_add; [apply sc_add; [exact Hx2|apply sc_from_bits; exact Sbs]|apply sc_rsubc; exact Sr2].
  - intros s3 sg3 P3. cbn [ret nr]. apply HQ; [exact (PostV_trans _ _ _ _ _ _ P02 P3)|]. destruct P3 as (_ & _ & _ & M). eapply sc_mono; [| |exact Sr2]; lia.
Qed.
Lemma assert_rel_g rel d x y s sg (Q : unit -> gst -> store -> Prop) : V s sg -> sc s x -> sc s y -> sc s (d x y) ->
  bscopedb (npub s) (npriv s) (rel (sval x) (sval y)) = true ->
  (forall s' sg', PostV s sg s' sg' -> Q tt s' sg') -> nr (assert_rel c rel d x y) s sg Q.
Proof.
  intros Hv Hx Hy Hd Cr HQ. unfold assert_rel, get, raise_if. cbn [bind nr].
  split; [cbn [bscopedb]; rewrite Cr, (V_ignore_scoped _ _ Hv); reflexivity|].
  split; [esimp; rewrite (proj1 (proj2 Hv)); reflexivity|].
  apply assert_positive_g; assumption.
Qed.
Lemma assert_eq_g x y s sg (Q : unit -> gst -> store -> Prop) : V s sg -> sc s x -> sc s y ->
  (forall s' sg', PostV s sg s' sg' -> Q tt s' sg') -> nr (assert_eq x y) s sg Q.
Proof.
  intros Hv Hx Hy HQ. unfold assert_eq, get, raise_if. cbn [bind nr].
  pose proof (proj1 (sc_parts _ _) Hx) as [Cx _]. pose proof (proj1 (sc_parts _ _) Hy) as [Cy _].
  split; [unfold vne; cbn [bscopedb vscopedb]; rewrite Cx, Cy, (V_ignore_scoped _ _ Hv); reflexivity|].
  split; [esimp; rewrite (proj1 (proj2 Hv)); reflexivity|].
  apply assert_zero_g; [exact Hv|apply sc_sub; assumption|exact HQ].
Qed.
End WithCfg.
End NGd.
