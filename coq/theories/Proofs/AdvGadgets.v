(* The constraints emitted by the gadgets of runtime.py (outside guarded regions) force their results, for EVERY assignment of
   the variables: the link between Model/Gadgets.v and the field-level cores of Proofs/Sound.v. *)
From Coq Require Import ZArith List Bool Lia Znumtheory Setoid Morphisms.
From PySnark.Base Require Import FieldZ.
From PySnark.Model Require Import Lc Sym Good Gadgets.
From PySnark.Proofs Require Import LcProofs Meta Frame Sound Adv.
Import ListNotations.
Open Scope Z_scope.

Section AG.
Context {p : Z}.
Hypothesis Hp : prime p.
Variable w : var -> Z.
Hypothesis W0 : w 0 = 1.            (* the constant-one wire *)
Local Notation gst := (@Gadgets.gst p).
Local Notation slc := (Sym.slc p).
Local Notation G := (@Gadgets.G p).
Local Notation wps := (Adv.wps (p:=p) w).
Local Notation "a == b" := (feq p a b) (at level 70).
Local Existing Instance feq_equiv.
Local Existing Instance feq_add.
Local Existing Instance feq_sub.
Local Existing Instance feq_mul.
Local Existing Instance feq_opp.

Definition ew (x : slc) : Z := eval w (wire x).
Lemma wfx (x : slc) : wf (wire x). Proof. exact (proj1 (good x)). Qed.
Lemma ew_add x y : ew (add x y) = ew x + ew y. Proof. unfold ew. cbn [wire add]. apply eval_add; apply wfx. Qed.
Lemma ew_neg x : ew (neg x) = - ew x. Proof. unfold ew. cbn [wire neg]. apply eval_neg. Qed.
Lemma ew_scale x k : ew (scale x k) = ew x * k. Proof. unfold ew. cbn [wire scale]. apply eval_scale. Qed.
Lemma ew_sub x y : ew (sub x y) = ew x - ew y. Proof. unfold sub. rewrite ew_add, ew_neg. ring. Qed.
Lemma ew_constv k : ew (constv k) = k. Proof. unfold ew. cbn [wire constv eval fold_right fst snd]. rewrite W0. ring. Qed.
Lemma ew_ZERO : ew ZERO = 0. Proof. reflexivity. Qed.
Lemma ew_ONE_SAFE : ew ONE_SAFE = 1. Proof. unfold ew. cbn [wire ONE_SAFE eval fold_right fst snd]. rewrite W0. ring. Qed.
Lemma ew_subc x k : ew (subc x k) = ew x - k. Proof. unfold subc. rewrite ew_add, ew_constv. ring. Qed.
Lemma ew_addc x k : ew (addc x k) = ew x + k. Proof. unfold addc. rewrite ew_add, ew_constv. ring. Qed.
Lemma ew_rsubc k x : ew (rsubc k x) = k - ew x. Proof. unfold rsubc. rewrite ew_add, ew_neg, ew_constv. ring. Qed.
Lemma ew_from_bits_aux : forall bs acc i, ew (from_bits_aux acc bs i) = ew acc + wsum (map ew bs) i.
Proof. induction bs as [|b bs IH]; intros acc i; cbn [from_bits_aux map wsum]; [ring|]. rewrite IH, ew_add, ew_scale. ring. Qed.
Lemma ew_from_bits bs : ew (from_bits bs) = wsum (map ew bs) 0.
Proof.
  destruct bs as [|b bs]; cbn [from_bits map wsum]; [reflexivity|]. rewrite ew_from_bits_aux, ew_addc, ew_scale. change (0 + 1) with 1. ring.
Qed.

Definition same (s s' : gst) : Prop := cur_triple s' = cur_triple s.
Lemma same_guard s s' : same s s' -> guard s' = guard s.
Proof. unfold same, cur_triple. intros H. injection H. auto. Qed.
Notation isbit := (Sound.isbit p).
(* the gadget is not inside a guarded region, or the active guard wire evaluates to 1 under the assignment
   (a true guard is transparent: C07) *)
Definition Gok (s : gst) : Prop := match guard s with None => True | Some g => ew g == 1 end.
Lemma Gok_same s s' : same s s' -> Gok s -> Gok s'.
Proof. intros S H. pose proof (same_guard s s' S) as E. unfold Gok in *. destruct (guard s') as [g'|], (guard s) as [g|]; try discriminate E; try exact I. inversion E; subst. exact H. Qed.
Lemma Gok_none s : guard s = None -> Gok s.
Proof. intros H. unfold Gok. rewrite H. exact I. Qed.

Lemma holds_unfold a b y : holds (p:=p) w (wire a, wire b, wire y) <-> ew a * ew b == ew y.
Proof. unfold holds, ew. cbn [fst snd]. reflexivity. Qed.

(* ---- primitives ---- *)
Lemma mul_s x y s (Q : slc -> gst -> Prop) : (forall r s', same s s' -> ew x * ew y == ew r -> Q r s') -> wps (mul x y) s Q.
Proof. intros HQ. unfold mul, privval, emit, emitc, ret. cbn [bind wps]. intros H. apply HQ; [reflexivity|]. apply holds_unfold. exact H. Qed.
Lemma add_constraint_s v x y chk s (Q : unit -> gst -> Prop) : Gok s -> (forall s', same s s' -> ew v * ew x == ew y -> Q tt s') -> wps (add_constraint v x y chk) s Q.
Proof.
  intros G HQ. unfold add_constraint, get. cbn [bind wps]. unfold Gok in G. destruct (guard s) as [g|].
  - unfold privval, emit, emitc. cbn [bind wps]. intros H1 H2. apply HQ; [reflexivity|].
    apply (proj1 (holds_unfold _ _ _)) in H1. apply (proj1 (holds_unfold _ _ _)) in H2. rewrite ew_add in H1. rewrite ew_ZERO, G in H2.
    assert (D : ew (var_slc (p:=p) (- (npriv s + 1))) == 0) by (rewrite <- H2; apply eq_feq; ring).
    rewrite H1, D. apply eq_feq. ring.
  - unfold raise_if, emit, emitc. cbn [bind wps]. intros H. apply HQ; [reflexivity|]. apply holds_unfold. exact H.
Qed.
Lemma assert_zero_s x s (Q : unit -> gst -> Prop) : Gok s -> (forall s', same s s' -> ew x == 0 -> Q tt s') -> wps (assert_zero x) s Q.
Proof.
  intros G HQ. unfold assert_zero, get, raise_if. cbn [bind wps]. apply add_constraint_s; [exact G|]. rewrite ew_ZERO. intros s' S H. apply HQ; [exact S|].
  symmetry. rewrite <- H. apply eq_feq. ring.
Qed.
Lemma boolctor_s x s (Q : slc -> gst -> Prop) : Gok s -> (forall s', same s s' -> isbit (ew x) -> Q x s') -> wps (boolctor x) s Q.
Proof.
  intros G HQ. unfold boolctor, raise_if, ret. cbn [bind wps]. apply wps_bind. apply add_constraint_s; [exact G|].
  rewrite ew_rsubc, ew_ZERO. intros s' S H. cbn [wps]. apply HQ; [exact S|exact H].
Qed.
Lemma privbool_s h s (Q : slc -> gst -> Prop) : Gok s -> (forall r s', same s s' -> isbit (ew r) -> Q r s') -> wps (privbool h) s Q.
Proof.
  intros G HQ. unfold privbool, raise_if, privval. cbn [bind wps]. apply boolctor_s; [exact G|]. intros s' S H. apply HQ; [exact S|exact H].
Qed.
Lemma bits_s (h : nat -> valexp) : forall n i s (Q : list slc -> gst -> Prop), Gok s ->
  (forall bs s', same s s' -> length bs = n -> Forall (fun b => isbit (ew b)) bs -> Q bs s') -> wps (mapM_range (fun j => privbool (h j)) i n) s Q.
Proof.
  induction n as [|n IH]; intros i s Q G HQ; cbn [mapM_range].
  - cbn [ret wps]. apply HQ; [reflexivity|reflexivity|constructor].
  - apply wps_bind. apply privbool_s; [exact G|]. intros r s1 S1 Hr. apply wps_bind. apply IH; [exact (Gok_same _ _ S1 G)|].
    intros bs s2 S2 L Hb. cbn [ret wps]. apply HQ; [unfold same in *; congruence|cbn; congruence|constructor; assumption].
Qed.
(* to_bits(k): k boolean wires whose weighted sum is the operand *)
Lemma to_bits_s x k s (Q : list slc -> gst -> Prop) : Gok s ->
  (forall bs s', same s s' -> length bs = k -> Forall (fun b => isbit (ew b)) bs -> ew x == wsum (map ew bs) 0 -> Q bs s') -> wps (to_bits x k) s Q.
Proof.
  intros G HQ. unfold to_bits, get, raise_if. cbn [bind wps]. apply wps_bind. apply bits_s; [exact G|]. intros bs s1 S1 L Hb.
  apply wps_bind. apply assert_zero_s; [exact (Gok_same _ _ S1 G)|]. rewrite ew_sub, ew_from_bits. intros s2 S2 H. cbn [ret wps].
  apply HQ; try assumption; [unfold same in *; congruence|]. transitivity (ew x - wsum (map ew bs) 0 + wsum (map ew bs) 0); [apply eq_feq; ring|]. rewrite H. apply eq_feq. ring.
Qed.
(* the operand of a k-bit decomposition is forced into [0, 2^k): the requested width is the width enforced (C16, C03) *)
Lemma to_bits_range_s x k s (Q : list slc -> gst -> Prop) : Gok s ->
  (forall bs s', same s s' -> (exists v, 0 <= v < 2 ^ Z.of_nat k /\ ew x == v) -> Q bs s') -> wps (to_bits x k) s Q.
Proof.
  intros G HQ. apply to_bits_s; [exact G|]. intros bs s' S L Hb Hx. apply HQ; [exact S|].
  apply (to_bits_rejects p Hp k (map ew bs) (ew x)); [rewrite map_length; exact L| |exact Hx].
  apply Forall_forall. intros z Hz. apply in_map_iff in Hz. destruct Hz as [b [<- Hin]]. rewrite Forall_forall in Hb. exact (Hb b Hin).
Qed.
Lemma assert_positive_s x k s (Q : unit -> gst -> Prop) : Gok s ->
  (forall s', same s s' -> (exists v, 0 <= v < 2 ^ Z.of_nat k /\ ew x == v) -> Q tt s') -> wps (assert_positive x k) s Q.
Proof.
  intros G HQ. unfold assert_positive, get, raise_if. cbn [bind wps]. apply wps_bind. apply to_bits_range_s; [exact G|].
  intros bs s' S H. cbn [ret wps]. apply HQ; assumption.
Qed.

(* ---- check_zero: the result is forced to [x = 0] ---- *)
Lemma check_zero_s x s (Q : slc -> gst -> Prop) :
  (forall r s', same s s' -> (ew x == 0 -> ew r == 1) /\ (~ ew x == 0 -> ew r == 0) -> Q r s') -> wps (check_zero x) s Q.
Proof.
  intros HQ. unfold check_zero, privval, raise_if, emit, emitc, ret. cbn [bind wps]. intros H1 H2. apply HQ; [reflexivity|].
  apply (proj1 (holds_unfold _ _ _)) in H1. apply (proj1 (holds_unfold _ _ _)) in H2. rewrite ew_sub, ew_ONE_SAFE in H1. rewrite ew_ZERO in H2.
  exact (check_zero_sound p Hp _ _ _ H1 H2).
Qed.

(* ---- check_positive: the sign bit of the centred representative ---- *)
Lemma check_positive_s x k s (Q : slc -> gst -> Prop) : Gok s ->
  (forall r s', same s s' ->
     (ew r == 1 /\ exists v, 0 <= v < 2 ^ Z.of_nat k /\ ew x == v) \/ (ew r == 0 /\ exists v, - 2 ^ Z.of_nat k <= v < 0 /\ ew x == v) -> Q r s') ->
  wps (check_positive x k) s Q.
Proof.
  intros G HQ. unfold check_positive, get, raise_if. cbn [bind wps]. apply wps_bind. apply privbool_s; [exact G|]. intros r s1 S1 Hr.
  apply wps_bind. apply bits_s; [exact (Gok_same _ _ S1 G)|]. intros bs s2 S2 L Hb.
  apply wps_bind. apply add_constraint_s; [exact (Gok_same _ _ S2 (Gok_same _ _ S1 G))|].
  rewrite ew_scale, !ew_add, ew_from_bits, ew_rsubc. intros s3 S3 H. cbn [ret wps]. apply HQ; [unfold same in *; congruence|].
  apply (check_positive_sound p Hp k (map ew bs) (ew r) (ew x)); [rewrite map_length; exact L| |exact Hr|].
  - apply Forall_forall. intros z Hz. apply in_map_iff in Hz. destruct Hz as [b [<- Hin]]. rewrite Forall_forall in Hb. exact (Hb b Hin).
  - rewrite <- H. apply eq_feq. ring.
Qed.

Lemma ite_lc_s cnd t f s (Q : slc -> gst -> Prop) : (forall r s', same s s' -> ew r == ew f + ew cnd * (ew t - ew f) -> Q r s') -> wps (ite_lc cnd t f) s Q.
Proof.
  intros HQ. unfold ite_lc. apply wps_bind. apply mul_s. intros m s1 S1 Hm. cbn [ret wps]. apply HQ; [exact S1|].
  rewrite ew_add, <- Hm, ew_sub. reflexivity.
Qed.
Lemma truediv_s x y s (Q : slc -> gst -> Prop) : Gok s -> (forall r s', same s s' -> ew y * ew r == ew x -> Q r s') -> wps (truediv x y) s Q.
Proof.
  intros G HQ. unfold truediv, get, raise_if, privval. cbn [bind wps]. apply wps_bind. apply add_constraint_s; [exact G|].
  intros s' S H. cbn [ret wps]. apply HQ; [exact S|exact H].
Qed.

Lemma lcval_s x s (Q : unit -> gst -> Prop) : Gok s -> (forall s', same s s' -> w (npub s + 1) == ew x -> Q tt s') -> wps (lcval x) s Q.
Proof.
  intros G HQ. unfold lcval, pubval. cbn [bind wps]. apply assert_zero_s; [exact G|]. rewrite ew_sub. intros s' S H. apply HQ; [exact S|].
  assert (E : ew (var_slc (p:=p) (npub s + 1)) = w (npub s + 1)) by (unfold ew; cbn [wire var_slc eval fold_right fst snd]; ring).
  rewrite <- E. transitivity (ew x - (ew x - ew (var_slc (p:=p) (npub s + 1)))); [apply eq_feq; ring|]. rewrite H. apply eq_feq. ring.
Qed.

Lemma assert_rel_s c rel d x y s (Q : unit -> gst -> Prop) : Gok s ->
  (forall s', same s s' -> (exists v, 0 <= v < 2 ^ Z.of_nat (nbits c) /\ ew (d x y) == v) -> Q tt s') -> wps (assert_rel c rel d x y) s Q.
Proof. intros G HQ. unfold assert_rel, get, raise_if. cbn [bind wps]. apply assert_positive_s; [exact G|exact HQ]. Qed.
Lemma assert_eq_s x y s (Q : unit -> gst -> Prop) : Gok s -> (forall s', same s s' -> ew x == ew y -> Q tt s') -> wps (assert_eq x y) s Q.
Proof.
  intros G HQ. unfold assert_eq, get, raise_if. cbn [bind wps]. apply assert_zero_s; [exact G|]. rewrite ew_sub. intros s' S H. apply HQ; [exact S|].
  transitivity (ew x - ew y + ew y); [apply eq_feq; ring|]. rewrite H. apply eq_feq. ring.
Qed.
(* the constant-one object of the state (LinComb.ONE: the guard inside a guarded region) evaluates to 1 *)
Definition Oone (s : gst) : Prop := ew (one s) == 1.
Lemma assert_nonzero_s x s (Q : unit -> gst -> Prop) : Gok s -> Oone s -> (forall s', same s s' -> ~ ew x == 0 -> Q tt s') -> wps (assert_nonzero x) s Q.
Proof.
  intros G O HQ. unfold assert_nonzero, get, raise_if, privval. cbn [bind wps]. apply add_constraint_s; [exact G|]. intros s' S H. apply HQ; [exact S|].
  unfold Oone in O. rewrite O in H. apply (assert_nonzero_sound p Hp _ _ H).
Qed.
Lemma assert_ne_s x y s (Q : unit -> gst -> Prop) : Gok s -> Oone s -> (forall s', same s s' -> ~ ew x == ew y -> Q tt s') -> wps (assert_ne x y) s Q.
Proof.
  intros G O HQ. unfold assert_ne, get, raise_if. cbn [bind wps]. apply assert_nonzero_s; [exact G|exact O|]. rewrite ew_sub. intros s' S H. apply HQ; [exact S|].
  intros E. apply H. rewrite E. apply eq_feq. ring.
Qed.
Lemma assert_range_s c x lo hi s (Q : unit -> gst -> Prop) : Gok s ->
  (forall s', same s s' -> (exists v, 0 <= v < 2 ^ Z.of_nat (nbits c) /\ ew x - ew lo == v) -> (exists v, 0 <= v < 2 ^ Z.of_nat (nbits c) /\ ew hi - ew x - 1 == v) -> Q tt s') ->
  wps (assert_range c x lo hi) s Q.
Proof.
  intros G HQ. unfold assert_range, get, raise_if. cbn [bind wps]. apply wps_bind. apply assert_positive_s; [exact G|]. intros s1 S1 H1.
  apply assert_positive_s; [exact (Gok_same _ _ S1 G)|]. intros s2 S2 H2. apply HQ; [unfold same in *; congruence| |].
  - rewrite ew_sub in H1. exact H1.
  - rewrite ew_subc, ew_sub in H2. exact H2.
Qed.

(* ---- statements about [run]: what any satisfying assignment of the emitted constraints must look like ---- *)
Section Run.
Variable c : cfg.
Variables (s : gst).
Hypothesis G : Gok s.
Notation sat cs := (Forall (holds (p:=p) w) (cons_of cs)).

Theorem mul_forced x y r s' cs : run (mul x y) s = (inl r, s', cs) -> sat cs -> ew r == ew x * ew y.
Proof. intros R H. apply (wps_sound w _ _ (mul x y) s (fun r _ => ew r == ew x * ew y)) with (s' := s') (cs := cs); auto. apply mul_s. intros r0 s0 _ E. symmetry. exact E. Qed.
Theorem check_zero_forced x r s' cs : run (check_zero x) s = (inl r, s', cs) -> sat cs -> (ew x == 0 -> ew r == 1) /\ (~ ew x == 0 -> ew r == 0).
Proof. intros R H. apply (wps_sound w _ _ (check_zero x) s (fun r _ => (ew x == 0 -> ew r == 1) /\ (~ ew x == 0 -> ew r == 0))) with (s' := s') (cs := cs); auto. apply check_zero_s. intros r0 s0 _ E. exact E. Qed.
Theorem check_positive_forced x k r s' cs : run (check_positive x k) s = (inl r, s', cs) -> sat cs ->
  (ew r == 1 /\ exists v, 0 <= v < 2 ^ Z.of_nat k /\ ew x == v) \/ (ew r == 0 /\ exists v, - 2 ^ Z.of_nat k <= v < 0 /\ ew x == v).
Proof.
  intros R H. apply (wps_sound w _ _ (check_positive x k) s (fun r _ => (ew r == 1 /\ exists v, 0 <= v < 2 ^ Z.of_nat k /\ ew x == v) \/ (ew r == 0 /\ exists v, - 2 ^ Z.of_nat k <= v < 0 /\ ew x == v))) with (s' := s') (cs := cs); auto.
  apply check_positive_s; [exact G|]. intros r0 s0 _ E. exact E.
Qed.
(* comparison of two wires whose values are (congruent to) integers with a difference inside the bitlength range: the
   result wire is forced to the truth value of the comparison *)
Lemma sign_of d k r v : 2 ^ (Z.of_nat k + 1) <= p -> - 2 ^ Z.of_nat k <= v < 2 ^ Z.of_nat k -> d == v ->
  ((r == 1 /\ exists u, 0 <= u < 2 ^ Z.of_nat k /\ d == u) \/ (r == 0 /\ exists u, - 2 ^ Z.of_nat k <= u < 0 /\ d == u)) ->
  r == (if 0 <=? v then 1 else 0).
Proof.
  intros Hk Rv Dv H.
  assert (P2 : 2 ^ (Z.of_nat k + 1) = 2 * 2 ^ Z.of_nat k) by (rewrite Z.pow_add_r by lia; change (2 ^ 1) with 2; ring).
  destruct H as [[E [u [Ru Du]]]|[E [u [Ru Du]]]]; rewrite E; destruct (Z.leb_spec 0 v); try reflexivity; exfalso.
  - apply (feq_small_false p (u - v)); [lia|]. rewrite <- Du, <- Dv. apply eq_feq; ring.
  - apply (feq_small_false p (v - u)); [lia|]. rewrite <- Du, <- Dv. apply eq_feq; ring.
Qed.
Theorem lt_forced x y r s' cs vx vy : run (lt c x y) s = (inl r, s', cs) -> sat cs ->
  2 ^ (Z.of_nat (nbits c) + 1) <= p -> ew x == vx -> ew y == vy -> - 2 ^ Z.of_nat (nbits c) <= vy - vx - 1 < 2 ^ Z.of_nat (nbits c) ->
  ew r == (if vx <? vy then 1 else 0).
Proof.
  intros R H Hk Ex Ey Rg. unfold lt in R. pose proof (check_positive_forced _ _ _ _ _ R H) as K.
  assert (Dv : ew (subc (sub y x) 1) == vy - vx - 1) by (rewrite ew_subc, ew_sub, Ex, Ey; reflexivity).
  pose proof (sign_of _ _ _ (vy - vx - 1) Hk Rg Dv K) as K'.
  replace (if vx <? vy then 1 else 0) with (if 0 <=? vy - vx - 1 then 1 else 0); [exact K'|].
  destruct (Z.leb_spec 0 (vy - vx - 1)), (Z.ltb_spec vx vy); try reflexivity; lia.
Qed.
Theorem le_forced x y r s' cs vx vy : run (le c x y) s = (inl r, s', cs) -> sat cs ->
  2 ^ (Z.of_nat (nbits c) + 1) <= p -> ew x == vx -> ew y == vy -> - 2 ^ Z.of_nat (nbits c) <= vy - vx < 2 ^ Z.of_nat (nbits c) ->
  ew r == (if vx <=? vy then 1 else 0).
Proof.
  intros R H Hk Ex Ey Rg. unfold le in R. pose proof (check_positive_forced _ _ _ _ _ R H) as K.
  assert (Dv : ew (sub y x) == vy - vx) by (rewrite ew_sub, Ex, Ey; reflexivity).
  pose proof (sign_of _ _ _ (vy - vx) Hk Rg Dv K) as K'.
  replace (if vx <=? vy then 1 else 0) with (if 0 <=? vy - vx then 1 else 0); [exact K'|].
  destruct (Z.leb_spec 0 (vy - vx)), (Z.leb_spec vx vy); try reflexivity; lia.
Qed.
Theorem eq_forced x y r s' cs : run (eq x y) s = (inl r, s', cs) -> sat cs -> (ew x == ew y -> ew r == 1) /\ (~ ew x == ew y -> ew r == 0).
Proof.
  intros R H. unfold eq in R. destruct (check_zero_forced _ _ _ _ R H) as [A B]. rewrite ew_sub in A, B. split; intros E.
  - apply A. rewrite E. apply eq_feq. ring.
  - apply B. intros Z0. apply E. transitivity (ew x - ew y + ew y); [apply eq_feq; ring|]. rewrite Z0. apply eq_feq. ring.
Qed.
Theorem gt_forced x y r s' cs vx vy : run (gt c x y) s = (inl r, s', cs) -> sat cs ->
  2 ^ (Z.of_nat (nbits c) + 1) <= p -> ew x == vx -> ew y == vy -> - 2 ^ Z.of_nat (nbits c) <= vx - vy - 1 < 2 ^ Z.of_nat (nbits c) ->
  ew r == (if vy <? vx then 1 else 0).
Proof.
  intros R H Hk Ex Ey Rg. unfold gt in R. pose proof (check_positive_forced _ _ _ _ _ R H) as K.
  assert (Dv : ew (subc (sub x y) 1) == vx - vy - 1) by (rewrite ew_subc, ew_sub, Ex, Ey; reflexivity).
  pose proof (sign_of _ _ _ (vx - vy - 1) Hk Rg Dv K) as K'.
  replace (if vy <? vx then 1 else 0) with (if 0 <=? vx - vy - 1 then 1 else 0); [exact K'|].
  destruct (Z.leb_spec 0 (vx - vy - 1)), (Z.ltb_spec vy vx); try reflexivity; lia.
Qed.
Theorem ge_forced x y r s' cs vx vy : run (ge c x y) s = (inl r, s', cs) -> sat cs ->
  2 ^ (Z.of_nat (nbits c) + 1) <= p -> ew x == vx -> ew y == vy -> - 2 ^ Z.of_nat (nbits c) <= vx - vy < 2 ^ Z.of_nat (nbits c) ->
  ew r == (if vy <=? vx then 1 else 0).
Proof.
  intros R H Hk Ex Ey Rg. unfold ge in R. pose proof (check_positive_forced _ _ _ _ _ R H) as K.
  assert (Dv : ew (sub x y) == vx - vy) by (rewrite ew_sub, Ex, Ey; reflexivity).
  pose proof (sign_of _ _ _ (vx - vy) Hk Rg Dv K) as K'.
  replace (if vy <=? vx then 1 else 0) with (if 0 <=? vx - vy then 1 else 0); [exact K'|].
  destruct (Z.leb_spec 0 (vx - vy)), (Z.leb_spec vy vx); try reflexivity; lia.
Qed.
(* boolean connectives on bit wires: forced, and boolean again *)
Theorem bit_and_forced a b r s' cs : run (bit_and a b) s = (inl r, s', cs) -> sat cs -> isbit (ew a) -> isbit (ew b) -> ew r == ew a * ew b /\ isbit (ew r).
Proof.
  intros R H Ha Hb. unfold bit_and in R. pose proof (mul_forced _ _ _ _ _ R H) as E. split; [rewrite E; apply eq_feq; ring|].
  apply (and_sound p Hp (ew a) (ew b)); try assumption. rewrite E. apply eq_feq. ring.
Qed.

(* C16 / C03: the width argument of a decomposition / non-negativity assertion is the width enforced *)
Theorem to_bits_forced x k bs s' cs : run (to_bits x k) s = (inl bs, s', cs) -> sat cs ->
  length bs = k /\ Forall (fun b => isbit (ew b)) bs /\ ew x == wsum (map ew bs) 0 /\ exists v, 0 <= v < 2 ^ Z.of_nat k /\ ew x == v.
Proof.
  intros R H. apply (wps_sound w _ _ (to_bits x k) s (fun bs _ => length bs = k /\ Forall (fun b => isbit (ew b)) bs /\ ew x == wsum (map ew bs) 0 /\ exists v, 0 <= v < 2 ^ Z.of_nat k /\ ew x == v)) with (s' := s') (cs := cs); auto.
  apply to_bits_s; [exact G|]. intros bs0 s0 _ L Hb Hx. repeat split; try assumption.
  apply (to_bits_rejects p Hp k (map ew bs0) (ew x)); [rewrite map_length; exact L| |exact Hx].
  apply Forall_forall. intros z Hz. apply in_map_iff in Hz. destruct Hz as [b [<- Hin]]. rewrite Forall_forall in Hb. exact (Hb b Hin).
Qed.
Theorem assert_positive_forced x k u s' cs : run (assert_positive x k) s = (inl u, s', cs) -> sat cs -> exists v, 0 <= v < 2 ^ Z.of_nat k /\ ew x == v.
Proof.
  intros R H. apply (wps_sound w _ _ (assert_positive x k) s (fun _ _ => exists v, 0 <= v < 2 ^ Z.of_nat k /\ ew x == v)) with (s' := s') (cs := cs) (a := u); auto.
  apply assert_positive_s; [exact G|]. intros s0 _ E. exact E.
Qed.
(* C03: an asserted relation that does not hold cannot be proven: x < y asserted => y - x - 1 is forced into [0, 2^n) *)
Theorem assert_lt_forced x y u s' cs : run (assert_lt c x y) s = (inl u, s', cs) -> sat cs -> exists v, 0 <= v < 2 ^ Z.of_nat (nbits c) /\ ew y - ew x - 1 == v.
Proof.
  intros R H. unfold assert_lt, assert_rel, get, raise_if in R. cbn [bind run] in R. destruct (bscopedb _ _ _); [|discriminate R].
  destruct (run (assert_positive _ _) s) as [[r0 s0] c0] eqn:E. inversion R; subst.
  cbn [cons_of flat_map app] in H.
  destruct (assert_positive_forced _ _ _ _ _ E H) as [v [Rv Ev]]. exists v. split; [exact Rv|]. rewrite <- Ev, ew_subc, ew_sub. reflexivity.
Qed.
Theorem select_forced cnd t f r s' cs : run (ite_lc cnd t f) s = (inl r, s', cs) -> sat cs -> isbit (ew cnd) ->
  (ew cnd == 1 /\ ew r == ew t) \/ (ew cnd == 0 /\ ew r == ew f).
Proof.
  intros R H Hc. assert (E : ew r == ew f + ew cnd * (ew t - ew f)).
  { apply (wps_sound w _ _ (ite_lc cnd t f) s (fun r _ => ew r == ew f + ew cnd * (ew t - ew f))) with (s' := s') (cs := cs); auto. apply ite_lc_s. intros r0 s0 _ E0. exact E0. }
  destruct (bit_cases p Hp _ Hc) as [C0|C1]; [right|left]; (split; [assumption|]); rewrite E; [rewrite C0|rewrite C1]; apply eq_feq; ring.
Qed.
Theorem truediv_forced x y r s' cs : run (truediv x y) s = (inl r, s', cs) -> sat cs -> ~ ew y == 0 -> ew y * ew r == ew x.
Proof.
  intros R H _. apply (wps_sound w _ _ (truediv x y) s (fun r _ => ew y * ew r == ew x)) with (s' := s') (cs := cs); auto.
  apply truediv_s; [exact G|]. intros r0 s0 _ E. exact E.
Qed.
(* val(): the new public variable is tied to the wire it publishes *)
Theorem lcval_forced x u s' cs : run (lcval x) s = (inl u, s', cs) -> sat cs -> w (npub s + 1) == ew x.
Proof.
  intros R H. apply (wps_sound w _ _ (lcval x) s (fun _ _ => w (npub s + 1) == ew x)) with (s' := s') (cs := cs) (a := u); auto.
  apply lcval_s; [exact G|]. intros s0 _ E. exact E.
Qed.
(* C03: the remaining assertions.  Whatever the prover does, an accepted proof implies the asserted relation on the wires. *)
Theorem assert_rel_forced rel d x y u s' cs : run (assert_rel c rel d x y) s = (inl u, s', cs) -> sat cs -> exists v, 0 <= v < 2 ^ Z.of_nat (nbits c) /\ ew (d x y) == v.
Proof.
  intros R H. apply (wps_sound w _ _ (assert_rel c rel d x y) s (fun _ _ => exists v, 0 <= v < 2 ^ Z.of_nat (nbits c) /\ ew (d x y) == v)) with (s' := s') (cs := cs) (a := u); auto.
  apply assert_rel_s; [exact G|]. intros s0 _ E. exact E.
Qed.
Theorem assert_le_forced x y u s' cs : run (assert_le c x y) s = (inl u, s', cs) -> sat cs -> exists v, 0 <= v < 2 ^ Z.of_nat (nbits c) /\ ew y - ew x == v.
Proof. intros R H. destruct (assert_rel_forced _ _ _ _ _ _ _ R H) as [v [Rv Ev]]. exists v. split; [exact Rv|]. rewrite <- Ev, ew_sub. reflexivity. Qed.
Theorem assert_gt_forced x y u s' cs : run (assert_gt c x y) s = (inl u, s', cs) -> sat cs -> exists v, 0 <= v < 2 ^ Z.of_nat (nbits c) /\ ew x - ew y - 1 == v.
Proof. intros R H. destruct (assert_rel_forced _ _ _ _ _ _ _ R H) as [v [Rv Ev]]. exists v. split; [exact Rv|]. rewrite <- Ev, ew_subc, ew_sub. reflexivity. Qed.
Theorem assert_ge_forced x y u s' cs : run (assert_ge c x y) s = (inl u, s', cs) -> sat cs -> exists v, 0 <= v < 2 ^ Z.of_nat (nbits c) /\ ew x - ew y == v.
Proof. intros R H. destruct (assert_rel_forced _ _ _ _ _ _ _ R H) as [v [Rv Ev]]. exists v. split; [exact Rv|]. rewrite <- Ev, ew_sub. reflexivity. Qed.
Theorem assert_eq_forced x y u s' cs : run (assert_eq x y) s = (inl u, s', cs) -> sat cs -> ew x == ew y.
Proof.
  intros R H. apply (wps_sound w _ _ (assert_eq x y) s (fun _ _ => ew x == ew y)) with (s' := s') (cs := cs) (a := u); auto.
  apply assert_eq_s; [exact G|]. intros s0 _ E. exact E.
Qed.
Theorem assert_ne_forced x y u s' cs : Oone s -> run (assert_ne x y) s = (inl u, s', cs) -> sat cs -> ~ ew x == ew y.
Proof.
  intros O R H. apply (wps_sound w _ _ (assert_ne x y) s (fun _ _ => ~ ew x == ew y)) with (s' := s') (cs := cs) (a := u); auto.
  apply assert_ne_s; [exact G|exact O|]. intros s0 _ E. exact E.
Qed.
Theorem assert_nonzero_forced x u s' cs : Oone s -> run (assert_nonzero x) s = (inl u, s', cs) -> sat cs -> ~ ew x == 0.
Proof.
  intros O R H. apply (wps_sound w _ _ (assert_nonzero x) s (fun _ _ => ~ ew x == 0)) with (s' := s') (cs := cs) (a := u); auto.
  apply assert_nonzero_s; [exact G|exact O|]. intros s0 _ E. exact E.
Qed.
(* assert_range(lo, hi): both x - lo and hi - x - 1 are forced into [0, 2^n): for integer-valued wires inside the bitlength range
   this is lo <= x < hi (the upper bound is exclusive) *)
Theorem assert_range_forced x lo hi u s' cs : run (assert_range c x lo hi) s = (inl u, s', cs) -> sat cs ->
  (exists v, 0 <= v < 2 ^ Z.of_nat (nbits c) /\ ew x - ew lo == v) /\ (exists v, 0 <= v < 2 ^ Z.of_nat (nbits c) /\ ew hi - ew x - 1 == v).
Proof.
  intros R H. apply (wps_sound w _ _ (assert_range c x lo hi) s (fun _ _ => (exists v, 0 <= v < 2 ^ Z.of_nat (nbits c) /\ ew x - ew lo == v) /\ (exists v, 0 <= v < 2 ^ Z.of_nat (nbits c) /\ ew hi - ew x - 1 == v))) with (s' := s') (cs := cs) (a := u); auto.
  apply assert_range_s; [exact G|]. intros s0 _ E1 E2. split; assumption.
Qed.
Theorem assert_range_int vx lo hi x xlo xhi u s' cs : run (assert_range c x xlo xhi) s = (inl u, s', cs) -> sat cs ->
  2 ^ (Z.of_nat (nbits c) + 1) <= p -> ew x == vx -> ew xlo == lo -> ew xhi == hi ->
  - 2 ^ Z.of_nat (nbits c) <= vx - lo < 2 ^ Z.of_nat (nbits c) -> - 2 ^ Z.of_nat (nbits c) <= hi - vx - 1 < 2 ^ Z.of_nat (nbits c) -> lo <= vx < hi.
Proof.
  intros R H Hk Ex El Eh R1 R2. destruct (assert_range_forced _ _ _ _ _ _ R H) as [[v1 [Rv1 E1]] [v2 [Rv2 E2]]].
  assert (P2 : 2 ^ (Z.of_nat (nbits c) + 1) = 2 * 2 ^ Z.of_nat (nbits c)) by (rewrite Z.pow_add_r by lia; change (2 ^ 1) with 2; ring).
  rewrite Ex, El in E1. rewrite Ex, Eh in E2.
  destruct (Z_lt_le_dec vx lo) as [L|L].
  - exfalso. apply (feq_small_false p (v1 - (vx - lo))); [lia|]. rewrite <- E1. apply eq_feq; ring.
  - split; [exact L|]. destruct (Z_lt_le_dec vx hi) as [L'|L']; [exact L'|]. exfalso.
    apply (feq_small_false p (v2 - (hi - vx - 1))); [lia|]. rewrite <- E2. apply eq_feq; ring.
Qed.
(* != and the remaining connectives on bit wires *)
Theorem ne_forced x y r s' cs : run (ne x y) s = (inl r, s', cs) -> sat cs -> (ew x == ew y -> ew r == 0) /\ (~ ew x == ew y -> ew r == 1).
Proof.
  intros R H. apply (wps_sound w _ _ (ne x y) s (fun r _ => (ew x == ew y -> ew r == 0) /\ (~ ew x == ew y -> ew r == 1))) with (s' := s') (cs := cs); auto.
  unfold ne. apply wps_bind. apply check_zero_s. intros r0 s0 _ [A B]. cbn [ret wps]. rewrite ew_sub in A, B. unfold bnot. rewrite ew_rsubc. split; intros Exy.
  - rewrite A; [apply eq_feq; ring|]. rewrite Exy. apply eq_feq. ring.
  - rewrite B; [apply eq_feq; ring|]. intros Z0. apply Exy. transitivity (ew x - ew y + ew y); [apply eq_feq; ring|]. rewrite Z0. apply eq_feq. ring.
Qed.
Theorem bit_or_forced a b r s' cs : run (bit_or a b) s = (inl r, s', cs) -> sat cs -> isbit (ew a) -> isbit (ew b) -> ew r == ew a + ew b - ew a * ew b /\ isbit (ew r).
Proof.
  intros R H Ha Hb. apply (wps_sound w _ _ (bit_or a b) s (fun r _ => ew r == ew a + ew b - ew a * ew b /\ isbit (ew r))) with (s' := s') (cs := cs); auto.
  unfold bit_or. apply wps_bind. apply mul_s. intros m s0 _ Em. cbn [ret wps]. rewrite ew_sub, ew_add.
  split; [rewrite <- Em; apply eq_feq; ring|]. apply (or_sound p Hp (ew a) (ew b)); try assumption. rewrite <- Em. apply eq_feq. ring.
Qed.
Theorem bit_xor_forced a b r s' cs : run (bit_xor a b) s = (inl r, s', cs) -> sat cs -> isbit (ew a) -> isbit (ew b) -> ew r == ew a + ew b - 2 * ew a * ew b /\ isbit (ew r).
Proof.
  intros R H Ha Hb. apply (wps_sound w _ _ (bit_xor a b) s (fun r _ => ew r == ew a + ew b - 2 * ew a * ew b /\ isbit (ew r))) with (s' := s') (cs := cs); auto.
  unfold bit_xor. apply wps_bind. apply mul_s. intros m s0 _ Em. cbn [ret wps]. rewrite ew_scale in Em. rewrite ew_sub, ew_add.
  split; [rewrite <- Em; apply eq_feq; ring|]. apply (xor_sound p Hp (ew a) (ew b)); try assumption. rewrite <- Em. apply eq_feq. ring.
Qed.
End Run.
End AG.
