(* Inside the documented domain the comparison / equality / multiplication / decomposition gadgets do not raise and return
   the Python value (unguarded code, error checking on). *)
From Coq Require Import ZArith List Bool Lia Znumtheory.
From PySnark.Base Require Import FieldZ Bits.
From PySnark.Model Require Import Lc Sym Good Gadgets.
From PySnark.Proofs Require Import LcProofs Meta Frame Wp WpBase GadgetsOK NoRaise.
Import ListNotations.
Open Scope Z_scope.

Section NG.
Context {p : Z}.
Variable ins : list Z.
Variable ig : bool.
Hypothesis F : field_ok p.
Local Notation gst := (@Gadgets.gst p).
Local Notation slc := (Sym.slc p).
Local Notation G := (@Gadgets.G p).
Local Notation ve := (Sym.veval p ins ig).
Local Notation be := (Sym.beval p ins ig).
Local Notation nr := (NoRaise.nr (p:=p) ins ig).
Local Notation Inv := (WpBase.Inv (p:=p) ins ig).

(* ---- scoping of derived linear combinations ---- *)
Lemma lc_okb_add np nw a b : lc_okb np nw a = true -> lc_okb np nw b = true -> lc_okb np nw (lc_add a b) = true.
Proof.
  unfold lc_okb, lc_add. rewrite !forallb_forall. intros Ha Hb x Hx. apply in_app_or in Hx. destruct Hx as [Hx|Hx].
  - apply in_map_iff in Hx. destruct Hx as [y [<- Hy]]. cbn [fst]. apply Ha. exact Hy.
  - apply filter_In in Hx. apply Hb. tauto.
Qed.
Lemma lc_okb_scale np nw a k : lc_okb np nw a = true -> lc_okb np nw (lc_scale a k) = true.
Proof.
  unfold lc_okb, lc_scale. rewrite !forallb_forall. intros Ha x Hx. apply in_map_iff in Hx. destruct Hx as [y [<- Hy]]. cbn [fst]. apply Ha. exact Hy.
Qed.
Definition sc (s : gst) (x : slc) : Prop := slc_scoped (npub s) (npriv s) x = true.
Lemma sc_parts s x : sc s x <-> vscopedb (npub s) (npriv s) (sval x) = true /\ lc_okb (npub s) (npriv s) (wire x) = true.
Proof. unfold sc, slc_scoped. split; intros H; [apply andb_prop in H; exact H|apply andb_true_intro; exact H]. Qed.
Lemma sc_add s x y : sc s x -> sc s y -> sc s (add x y).
Proof. rewrite !sc_parts. intros [A1 A2] [B1 B2]. cbn [sval wire add vscopedb]. rewrite A1, B1. split; [reflexivity|apply lc_okb_add; assumption]. Qed.
Lemma sc_neg s x : sc s x -> sc s (neg x).
Proof. rewrite !sc_parts. intros [A1 A2]. cbn [sval wire neg vscopedb]. rewrite A1. split; [reflexivity|apply lc_okb_scale; assumption]. Qed.
Lemma sc_scale s x k : sc s x -> sc s (scale x k).
Proof. rewrite !sc_parts. intros [A1 A2]. cbn [sval wire scale vscopedb]. rewrite A1. split; [reflexivity|apply lc_okb_scale; assumption]. Qed.
Lemma sc_constv s k : sc s (constv k). Proof. reflexivity. Qed.
Lemma sc_ZERO s : sc s ZERO. Proof. reflexivity. Qed.
Lemma sc_ONE_SAFE s : sc s ONE_SAFE. Proof. reflexivity. Qed.
Lemma sc_sub s x y : sc s x -> sc s y -> sc s (sub x y). Proof. intros. apply sc_add; [assumption|apply sc_neg; assumption]. Qed.
Lemma sc_subc s x k : sc s x -> sc s (subc x k). Proof. intros. apply sc_add; [assumption|apply sc_constv]. Qed.
Lemma sc_addc s x k : sc s x -> sc s (addc x k). Proof. intros. apply sc_add; [assumption|apply sc_constv]. Qed.
Lemma sc_rsubc s k x : sc s x -> sc s (rsubc k x). Proof. intros. apply sc_add; [apply sc_neg; assumption|apply sc_constv]. Qed.
Lemma sc_mono s s' x : npub s <= npub s' -> npriv s <= npriv s' -> sc s x -> sc s' x.
Proof. unfold sc. intros. eapply slc_scoped_mono; eauto. Qed.
Lemma sc_from_bits_aux s : forall bs acc i, sc s acc -> Forall (sc s) bs -> sc s (from_bits_aux acc bs i).
Proof. induction bs as [|b bs IH]; intros acc i Ha Hb; cbn [from_bits_aux]; [exact Ha|]. inversion Hb; subst. apply IH; [apply sc_add; [assumption|apply sc_scale; assumption]|assumption]. Qed.
Lemma sc_from_bits s bs : Forall (sc s) bs -> sc s (from_bits bs).
Proof. destruct bs as [|b bs]; intros H; cbn [from_bits]; [reflexivity|]. inversion H; subst. apply sc_from_bits_aux; [apply sc_addc; apply sc_scale; assumption|assumption]. Qed.

Lemma emit_ok s a b y : sc s a -> sc s b -> sc s y -> emittable (CEmit a b y) && cmd_scoped (npub s) (npriv s) (CEmit a b y) && cmd_vscoped (npub s) (npriv s) (CEmit a b y) = true.
Proof.
  intros Ha Hb Hy. pose proof (proj1 (sc_parts _ _) Ha) as [_ A]. pose proof (proj1 (sc_parts _ _) Hb) as [_ B]. pose proof (proj1 (sc_parts _ _) Hy) as [_ C].
  unfold sc in *. cbn [emittable cmd_scoped cmd_vscoped andb]. rewrite A, B, C, Ha, Hb, Hy. reflexivity.
Qed.

(* unguarded code with error checking on *)
Definition U (s : gst) (sg : store) : Prop := Inv s sg /\ guard s = None.
Lemma U_ignore s sg : U s sg -> be sg (ignore s) = false.
Proof. intros [(_ & _ & H) G]. rewrite G in H. exact (proj1 H). Qed.
Lemma U_ignore_scoped s sg : U s sg -> bscopedb (npub s) (npriv s) (ignore s) = true.
Proof. intros [I _]. exact (inv_ignore_scoped ins ig _ _ I). Qed.
Definition Post (s : gst) (sg : store) (s' : gst) (sg' : store) : Prop :=
  U s' sg' /\ ext sg sg' /\ cur_triple s' = cur_triple s /\ npub s <= npub s' /\ npriv s <= npriv s'.
Lemma Post_refl s sg : U s sg -> Post s sg s sg.
Proof. intros H. split; [exact H|split; [apply ext_refl|split; [reflexivity|lia]]]. Qed.
Lemma Post_trans s sg s1 sg1 s2 sg2 : Post s sg s1 sg1 -> Post s1 sg1 s2 sg2 -> Post s sg s2 sg2.
Proof. intros (U1 & E1 & T1 & M1) (U2 & E2 & T2 & M2). split; [exact U2|split; [eapply ext_trans; eauto|split; [congruence|lia]]]. Qed.
Lemma U_priv s sg z : U s sg -> Post s sg (upd_counters s (npub s) (npriv s + 1) (noid s)) (push_priv sg z).
Proof. intros [I G]. split; [split; [apply Inv_priv; exact I|exact G]|split; [apply ext_push_priv|split; [reflexivity|cbn; lia]]]. Qed.
Lemma ve_keep s sg s' sg' x : U s sg -> Post s sg s' sg' -> sc s x -> ve sg' (sval x) = ve sg (sval x).
Proof. intros [I _] (_ & E & _) Hx. apply (ve_ext ins ig _ _ _ _ (proj1 I) E). exact (proj1 (proj1 (sc_parts _ _) Hx)). Qed.

(* ---- gadgets ---- *)
Lemma mul_nr x y s sg (Q : slc -> gst -> store -> Prop) : U s sg -> sc s x -> sc s y ->
  (forall r s' sg', Post s sg s' sg' -> sc s' r -> ve sg' (sval r) = ve sg (sval x) * ve sg (sval y) -> Q r s' sg') -> nr (mul x y) s sg Q.
Proof.
  intros Hu Hx Hy HQ. unfold mul, privval, emit, emitc, ret. cbn [bind nr].
  pose proof (proj1 (sc_parts _ _) Hx) as [Cx _]. pose proof (proj1 (sc_parts _ _) Hy) as [Cy _]. pose proof (proj1 (proj1 Hu)) as Ic.
  split; [cbn [vscopedb]; rewrite Cx, Cy; reflexivity|].
  set (s1 := upd_counters s (npub s) (npriv s + 1) (noid s)).
  assert (Sr : sc s1 (var_slc (p:=p) (- (npriv s + 1)))) by (apply (new_priv_scoped _ _ Ic)).
  split.
  - apply emit_ok; [eapply sc_mono; [| |exact Hx]; cbn; lia|eapply sc_mono; [| |exact Hy]; cbn; lia|exact Sr].
  - apply HQ; [apply U_priv; exact Hu|exact Sr|]. rewrite (ve_new_priv ins ig _ _ _ Ic). esimp. reflexivity.
Qed.
Lemma add_constraint_nr v w y chk s sg (Q : unit -> gst -> store -> Prop) : U s sg -> sc s v -> sc s w -> sc s y ->
  ve sg (sval v) * ve sg (sval w) = ve sg (sval y) -> Q tt s sg -> nr (add_constraint v w y chk) s sg Q.
Proof.
  intros Hu Hv Hw Hy E HQ. unfold add_constraint, get. cbn [bind nr]. rewrite (proj2 Hu). unfold raise_if, emit, emitc. cbn [bind nr].
  pose proof (proj1 (sc_parts _ _) Hv) as [Cv _]. pose proof (proj1 (sc_parts _ _) Hw) as [Cw _]. pose proof (proj1 (sc_parts _ _) Hy) as [Cy _].
  split; [|split; [|split]].
  - unfold vne. cbn [bscopedb vscopedb]. rewrite Cv, Cw, Cy. destruct chk; cbn [bscopedb]; [rewrite (U_ignore_scoped _ _ Hu)|]; reflexivity.
  - unfold vne. esimp. rewrite E, Z.eqb_refl. reflexivity.
  - apply emit_ok; assumption.
  - exact HQ.
Qed.
Lemma assert_zero_nr x s sg (Q : unit -> gst -> store -> Prop) : U s sg -> sc s x -> ve sg (sval x) = 0 -> Q tt s sg -> nr (assert_zero x) s sg Q.
Proof.
  intros Hu Hx E HQ. unfold assert_zero, get, raise_if. cbn [bind nr]. pose proof (proj1 (sc_parts _ _) Hx) as [Cx _].
  split; [unfold vne; cbn [bscopedb vscopedb]; rewrite Cx, (U_ignore_scoped _ _ Hu); reflexivity|].
  split; [unfold vne; esimp; rewrite E; cbn; apply andb_false_r|].
  apply (add_constraint_nr ZERO ZERO x true s sg _ Hu (sc_ZERO _) (sc_ZERO _) Hx); [|exact HQ]. cbn [sval ZERO]. esimp. rewrite E. reflexivity.
Qed.
Lemma boolctor_nr x s sg (Q : slc -> gst -> store -> Prop) : U s sg -> sc s x -> (ve sg (sval x) = 0 \/ ve sg (sval x) = 1) -> Q x s sg -> nr (boolctor x) s sg Q.
Proof.
  intros Hu Hx Hb HQ. unfold boolctor, raise_if, ret. cbn [bind nr]. pose proof (proj1 (sc_parts _ _) Hx) as [Cx _].
  split; [unfold is_boolv; cbn [bscopedb vscopedb]; rewrite Cx; reflexivity|].
  split; [unfold is_boolv; esimp; destruct Hb as [->| ->]; reflexivity|].
  apply nr_bind. apply (add_constraint_nr x (rsubc 1 x) ZERO true s sg _ Hu Hx (sc_rsubc _ _ _ Hx) (sc_ZERO _)); [|cbn [nr]; exact HQ].
  unfold rsubc. cbn [sval add neg constv ZERO]. esimp. destruct Hb as [->| ->]; reflexivity.
Qed.
Lemma privbool_nr h s sg (Q : slc -> gst -> store -> Prop) : U s sg -> vscopedb (npub s) (npriv s) h = true -> (ve sg h = 0 \/ ve sg h = 1) ->
  (forall r s' sg', Post s sg s' sg' -> sc s' r -> ve sg' (sval r) = ve sg h -> Q r s' sg') -> nr (privbool h) s sg Q.
Proof.
  intros Hu Ch Hb HQ. unfold privbool, raise_if, privval. cbn [bind nr]. pose proof (proj1 (proj1 Hu)) as Ic.
  split; [unfold is_boolv; cbn [bscopedb vscopedb]; rewrite Ch; reflexivity|].
  split; [unfold is_boolv; esimp; destruct Hb as [->| ->]; reflexivity|]. split; [exact Ch|].
  set (s1 := upd_counters s (npub s) (npriv s + 1) (noid s)). pose proof (U_priv s sg (ve sg h) Hu) as P1.
  assert (Sr : sc s1 (var_slc (p:=p) (- (npriv s + 1)))) by (apply (new_priv_scoped _ _ Ic)).
  assert (Vr : ve (push_priv sg (ve sg h)) (sval (var_slc (p:=p) (- (npriv s + 1)))) = ve sg h) by (apply (ve_new_priv ins ig _ _ _ Ic)).
  apply boolctor_nr; [exact (proj1 P1)|exact Sr|rewrite Vr; exact Hb|]. apply HQ; assumption.
Qed.
Lemma bits_nr (h : nat -> valexp) : forall n i s sg (Q : list slc -> gst -> store -> Prop), U s sg ->
  (forall j, vscopedb (npub s) (npriv s) (h j) = true) -> (forall j, ve sg (h j) = 0 \/ ve sg (h j) = 1) ->
  (forall bs s' sg', Post s sg s' sg' -> Forall (sc s') bs -> map (fun b => ve sg' (sval b)) bs = map (fun j => ve sg (h j)) (seq i n) -> Q bs s' sg') ->
  nr (mapM_range (fun j => privbool (h j)) i n) s sg Q.
Proof.
  induction n as [|n IH]; intros i s sg Q Hu Hh Hb HQ; cbn [mapM_range].
  - cbn [ret nr]. apply HQ; [apply Post_refl; exact Hu|constructor|reflexivity].
  - apply nr_bind. apply privbool_nr; [exact Hu|apply Hh|apply Hb|]. intros r s1 sg1 P1 Sr Vr.
    destruct P1 as (U1 & E1 & T1 & M1). pose proof (proj1 (proj1 Hu)) as Ic.
    assert (K : forall j, ve sg1 (h j) = ve sg (h j)) by (intros j; apply (ve_ext ins ig _ _ _ _ Ic E1 (Hh j))).
    apply nr_bind. apply IH; [exact U1|intros j; eapply vscopedb_mono; [| |apply Hh]; lia|intros j; rewrite K; apply Hb|].
    intros bs s2 sg2 P2 Sbs Vbs. cbn [ret nr]. destruct P2 as (U2 & E2 & T2 & M2).
    apply HQ.
    + split; [exact U2|split; [eapply ext_trans; eauto|split; [congruence|lia]]].
    + constructor; [eapply sc_mono; [| |exact Sr]; lia|exact Sbs].
    + cbn [map seq]. f_equal.
      * rewrite (ve_ext ins ig _ _ _ _ (proj1 (proj1 U1)) E2 (proj1 (proj1 (sc_parts _ _) Sr))). exact Vr.
      * rewrite Vbs. apply map_ext. intros j. apply K.
Qed.

Lemma pybit_01v sg x j : ve sg (Gadgets.pybit x j) = 0 \/ ve sg (Gadgets.pybit x j) = 1.
Proof. rewrite (ve_pybit ins ig). apply pybit_01. Qed.
Lemma abs_bit_length v k : 0 <= k -> Z.abs v < 2 ^ k -> Sym.bit_length v <= k.
Proof.
  intros Hk H. assert (E : Sym.bit_length v = Bits.bit_length (Z.abs v)).
  { unfold Sym.bit_length, Bits.bit_length. rewrite Z.abs_involutive. destruct (Z.eqb_spec v 0) as [->|Hn]; [reflexivity|].
    destruct (Z.eqb_spec (Z.abs v) 0); [lia|reflexivity]. }
  rewrite E. apply (proj2 (bit_length_range (Z.abs v) k (Z.abs_nonneg v) Hk)). exact H.
Qed.

(* to_bits(k) of a value in [0, 2^k): does not raise, returns the Python bits *)
Lemma to_bits_nr x k s sg (Q : list slc -> gst -> store -> Prop) : U s sg -> sc s x -> 0 <= ve sg (sval x) < 2 ^ Z.of_nat k ->
  (forall bs s' sg', Post s sg s' sg' -> Forall (sc s') bs ->
     map (fun b => ve sg' (sval b)) bs = map (fun j => Bits.pybit (ve sg (sval x)) j) (seq 0 k) -> Q bs s' sg') ->
  nr (to_bits x k) s sg Q.
Proof.
  intros Hu Hx Hr HQ. unfold to_bits, get, raise_if. cbn [bind nr]. pose proof (proj1 (sc_parts _ _) Hx) as [Cx _].
  split; [unfold vlt0; cbn [bscopedb vscopedb]; rewrite Cx, (U_ignore_scoped _ _ Hu); reflexivity|].
  split.
  { unfold vlt0. esimp. rewrite (U_ignore _ _ Hu). cbn [negb andb]. apply orb_false_intro; [lia|].
    apply negb_false_iff. apply Z.leb_le. apply abs_bit_length; [lia|]. rewrite Z.abs_eq; lia. }
  apply nr_bind. apply bits_nr; [exact Hu|intros j; apply pybit_scoped; exact Cx|intros j; apply pybit_01v|].
  intros bs s1 sg1 P1 Sbs Vbs. apply nr_bind.
  assert (Vx : ve sg1 (sval x) = ve sg (sval x)) by (apply (ve_keep _ _ _ _ _ Hu P1 Hx)).
  destruct P1 as (U1 & E1 & T1 & M1).
  assert (Hx1 : sc s1 x) by (eapply sc_mono; [| |exact Hx]; lia).
  apply assert_zero_nr; [exact U1|apply sc_sub; [exact Hx1|apply sc_from_bits; exact Sbs]| |].
  - unfold sub. cbn [sval add neg]. esimp. rewrite (ve_from_bits ins ig). unfold vals. rewrite Vbs, Vx.
    rewrite (map_ext _ _ (fun j => ve_pybit ins ig sg (sval x) j)). rewrite wsum_pybit_exact by exact Hr. ring.
  - cbn [ret nr]. apply HQ; [split; [exact U1|split; [exact E1|split; [exact T1|exact M1]]]|exact Sbs|].
    rewrite Vbs. apply map_ext. intros j. apply (ve_pybit ins ig).
Qed.

(* check_positive(k) of a value with |v| < 2^k: does not raise, returns [v >= 0] *)
Lemma check_positive_nr x k s sg (Q : slc -> gst -> store -> Prop) : U s sg -> sc s x -> Z.abs (ve sg (sval x)) < 2 ^ Z.of_nat k ->
  (forall r s' sg', Post s sg s' sg' -> sc s' r -> ve sg' (sval r) = (if 0 <=? ve sg (sval x) then 1 else 0) -> Q r s' sg') ->
  nr (check_positive x k) s sg Q.
Proof.
  intros Hu Hx Hr HQ. unfold check_positive, get, raise_if. cbn [bind nr]. pose proof (proj1 (sc_parts _ _) Hx) as [Cx _].
  assert (Gn : guard s = None) by exact (proj2 Hu).
  set (A := BAnd (isg s) (BBitLenLe (sval x) (Z.of_nat k))).
  set (ab := VIte (BLe (VConst 0) (sval x)) (sval x) (VSub (VSub (VConst 0) (sval x)) (VConst 1))).
  assert (CA : bscopedb (npub s) (npriv s) A = true) by (unfold A, isg; rewrite Gn; cbn [bscopedb]; rewrite Cx; reflexivity).
  assert (VA : be sg A = true).
  { unfold A, isg. rewrite Gn. esimp. cbn [andb]. apply Z.leb_le. apply abs_bit_length; [lia|exact Hr]. }
  split; [cbn [bscopedb]; rewrite CA, (U_ignore_scoped _ _ Hu); reflexivity|].
  split; [esimp; rewrite VA; reflexivity|].
  apply nr_bind. apply privbool_nr; [exact Hu|cbn [vscopedb bscopedb]; rewrite CA, Cx; reflexivity| |].
  { esimp. rewrite VA. destruct (0 <=? ve sg (sval x)); auto. }
  intros r s1 sg1 P1 Sr Vr.
  assert (Hh : forall j, vscopedb (npub s) (npriv s) (VIte A (Gadgets.pybit ab j) (VConst 0)) = true).
  { intros j. cbn [vscopedb]. rewrite CA. unfold Gadgets.pybit, ab. cbn [vscopedb bscopedb]. rewrite Cx. reflexivity. }
  assert (Vab : ve sg ab = if 0 <=? ve sg (sval x) then ve sg (sval x) else - ve sg (sval x) - 1).
  { unfold ab. esimp. destruct (0 <=? ve sg (sval x)); ring. }
  pose proof (proj1 (proj1 Hu)) as Ic.
  assert (K : forall j, ve sg1 (VIte A (Gadgets.pybit ab j) (VConst 0)) = Bits.pybit (ve sg ab) j).
  { intros j. destruct P1 as (_ & E1 & _). rewrite (ve_ext ins ig _ _ _ _ Ic E1 (Hh j)). esimp. rewrite VA. apply (ve_pybit ins ig). }
  apply nr_bind. apply bits_nr; [exact (proj1 P1)|intros j; destruct P1 as (_ & _ & _ & M1); eapply vscopedb_mono; [| |apply Hh]; lia| |].
  { intros j. rewrite K. apply pybit_01. }
  intros bs s2 sg2 P2 Sbs Vbs.
  pose proof (Post_trans _ _ _ _ _ _ P1 P2) as P02.
  assert (Vx2 : ve sg2 (sval x) = ve sg (sval x)) by (apply (ve_keep _ _ _ _ _ Hu P02 Hx)).
  assert (Vr2 : ve sg2 (sval r) = if 0 <=? ve sg (sval x) then 1 else 0).
  { rewrite (ve_keep _ _ _ _ _ (proj1 P1) P2 Sr), Vr. esimp. rewrite VA. reflexivity. }
  assert (Hx2 : sc s2 x) by (destruct P02 as (_ & _ & _ & M); eapply sc_mono; [| |exact Hx]; lia).
  assert (Sr2 : sc s2 r) by (destruct P2 as (_ & _ & _ & M); eapply sc_mono; [| |exact Sr]; lia).
  apply nr_bind. apply add_constraint_nr; [exact (proj1 P2)|apply sc_scale; exact Sr2|exact Hx2| | |].
  - apply sc_add; [apply sc_add; [exact Hx2|apply sc_from_bits; exact Sbs]|apply sc_rsubc; exact Sr2].
  - unfold rsubc. cbn [sval scale add neg constv]. esimp. rewrite (ve_from_bits ins ig). unfold vals. rewrite Vbs, Vx2, Vr2.
    rewrite (map_ext _ _ K). rewrite wsum_pybit_exact; rewrite Vab; destruct (Z.leb_spec 0 (ve sg (sval x))); try ring; lia.
  - cbn [ret nr]. apply HQ; [exact P02|exact Sr2|exact Vr2].
Qed.

Lemma check_zero_nr x s sg (Q : slc -> gst -> store -> Prop) : U s sg -> sc s x -> (ve sg (sval x) = 0 \/ ve sg (sval x) mod p <> 0) ->
  (forall r s' sg', Post s sg s' sg' -> sc s' r -> ve sg' (sval r) = (if ve sg (sval x) =? 0 then 1 else 0) -> Q r s' sg') ->
  nr (check_zero x) s sg Q.
Proof.
  intros Hu Hx Hd HQ. unfold check_zero, privval, raise_if, emit, emitc, ret. cbn [bind nr].
  pose proof (proj1 (sc_parts _ _) Hx) as [Cx _]. pose proof (proj1 (proj1 Hu)) as Ic.
  split; [cbn [vscopedb bscopedb]; rewrite Cx; reflexivity|].
  set (z := ve sg (VB2Z (BEq (sval x) (VConst 0)))).
  assert (Hz : z = if ve sg (sval x) =? 0 then 1 else 0) by (unfold z; esimp; reflexivity).
  set (s1 := upd_counters s (npub s) (npriv s + 1) (noid s)). set (sg1 := push_priv sg z).
  pose proof (U_priv s sg z Hu) as P1. fold s1 sg1 in P1. pose proof (proj1 (proj1 (proj1 P1))) as Ic1.
  assert (Cx1 : vscopedb (npub s1) (npriv s1) (sval x) = true) by (eapply vscopedb_mono; [| |exact Cx]; cbn; lia).
  assert (X1 : ve sg1 (sval x) = ve sg (sval x)) by (apply (ve_push_priv ins ig _ _ _ _ Ic Cx)).
  split; [cbn [vscopedb bscopedb]; rewrite Cx1; reflexivity|].
  split.
  { esimp. rewrite X1. destruct (Z.eqb_spec (ve sg (sval x)) 0) as [E|E].
    - rewrite E. cbn. apply Z.eqb_neq. rewrite Z.mod_1_l; [lia|]. pose proof (prime_ge_2 _ (proj1 F)). lia.
    - rewrite Z.add_0_r. apply Z.eqb_neq. destruct Hd; [contradiction|assumption]. }
  split; [cbn [vscopedb bscopedb]; rewrite Cx1; reflexivity|].
  set (w := ve sg1 (VInv (VAdd (sval x) (VB2Z (BEq (sval x) (VConst 0)))))).
  set (s2 := upd_counters s1 (npub s1) (npriv s1 + 1) (noid s1)). set (sg2 := push_priv sg1 w).
  pose proof (U_priv s1 sg1 w (proj1 P1)) as P2. fold s2 sg2 in P2.
  assert (Sr1 : sc s1 (var_slc (p:=p) (- (npriv s + 1)))) by (apply (new_priv_scoped _ _ Ic)).
  assert (Sr : sc s2 (var_slc (p:=p) (- (npriv s + 1)))) by (eapply sc_mono; [| |exact Sr1]; cbn; lia).
  assert (Sw : sc s2 (var_slc (p:=p) (- (npriv s1 + 1)))) by (apply (new_priv_scoped _ _ Ic1)).
  assert (Hx2 : sc s2 x) by (eapply sc_mono; [| |exact Hx]; cbn; lia).
  split; [apply emit_ok; [exact Hx2|exact Sw|apply sc_sub; [apply sc_ONE_SAFE|exact Sr]]|].
  split; [apply emit_ok; [exact Hx2|exact Sr|apply sc_ZERO]|].
  apply HQ; [exact (Post_trans _ _ _ _ _ _ P1 P2)|exact Sr|].
  unfold sg2. rewrite (ve_push_priv ins ig _ _ _ _ Ic1 (proj1 (proj1 (sc_parts _ _) Sr1))). unfold sg1. rewrite (ve_new_priv ins ig _ _ _ Ic). exact Hz.
Qed.

(* ---- the comparison operators inside the documented domain ---- *)
Section Cmp.
Variable c : cfg.
Variables (s : gst) (sg : store).
Hypothesis Hu : U s sg.
Local Notation v x := (ve sg (sval x)).
Local Notation b2z b := (if b then 1 else 0).
Local Notation n := (Z.of_nat (nbits c)).
Ltac opv := unfold subc, sub; cbn [sval add neg constv]; esimp.

Theorem lt_total x y : sc s x -> sc s y -> Z.abs (v y - v x - 1) < 2 ^ n ->
  nr (lt c x y) s sg (fun r _ sg' => ve sg' (sval r) = b2z (v x <? v y)).
Proof.
  intros Hx Hy Hd. unfold lt. apply check_positive_nr; [exact Hu|apply sc_subc; apply sc_sub; assumption| |].
  - replace (ve sg (sval (subc (sub y x) 1))) with (v y - v x - 1) by (opv; ring). exact Hd.
  - intros r s' sg' _ _ V. rewrite V. replace (ve sg (sval (subc (sub y x) 1))) with (v y - v x - 1) by (opv; ring).
    destruct (Z.leb_spec 0 (v y - v x - 1)), (Z.ltb_spec (v x) (v y)); try reflexivity; lia.
Qed.
Theorem le_total x y : sc s x -> sc s y -> Z.abs (v y - v x) < 2 ^ n ->
  nr (le c x y) s sg (fun r _ sg' => ve sg' (sval r) = b2z (v x <=? v y)).
Proof.
  intros Hx Hy Hd. unfold le. apply check_positive_nr; [exact Hu|apply sc_sub; assumption| |].
  - replace (ve sg (sval (sub y x))) with (v y - v x) by (opv; ring). exact Hd.
  - intros r s' sg' _ _ V. rewrite V. replace (ve sg (sval (sub y x))) with (v y - v x) by (opv; ring).
    destruct (Z.leb_spec 0 (v y - v x)), (Z.leb_spec (v x) (v y)); try reflexivity; lia.
Qed.
Theorem gt_total x y : sc s x -> sc s y -> Z.abs (v x - v y - 1) < 2 ^ n ->
  nr (gt c x y) s sg (fun r _ sg' => ve sg' (sval r) = b2z (v y <? v x)).
Proof.
  intros Hx Hy Hd. unfold gt. apply check_positive_nr; [exact Hu|apply sc_subc; apply sc_sub; assumption| |].
  - replace (ve sg (sval (subc (sub x y) 1))) with (v x - v y - 1) by (opv; ring). exact Hd.
  - intros r s' sg' _ _ V. rewrite V. replace (ve sg (sval (subc (sub x y) 1))) with (v x - v y - 1) by (opv; ring).
    destruct (Z.leb_spec 0 (v x - v y - 1)), (Z.ltb_spec (v y) (v x)); try reflexivity; lia.
Qed.
Theorem ge_total x y : sc s x -> sc s y -> Z.abs (v x - v y) < 2 ^ n ->
  nr (ge c x y) s sg (fun r _ sg' => ve sg' (sval r) = b2z (v y <=? v x)).
Proof.
  intros Hx Hy Hd. unfold ge. apply check_positive_nr; [exact Hu|apply sc_sub; assumption| |].
  - replace (ve sg (sval (sub x y))) with (v x - v y) by (opv; ring). exact Hd.
  - intros r s' sg' _ _ V. rewrite V. replace (ve sg (sval (sub x y))) with (v x - v y) by (opv; ring).
    destruct (Z.leb_spec 0 (v x - v y)), (Z.leb_spec (v y) (v x)); try reflexivity; lia.
Qed.
Theorem eq_total x y : sc s x -> sc s y -> (v x = v y \/ (v x - v y) mod p <> 0) ->
  nr (eq x y) s sg (fun r _ sg' => ve sg' (sval r) = b2z (v x =? v y)).
Proof.
  intros Hx Hy Hd. unfold eq. apply check_zero_nr; [exact Hu|apply sc_sub; assumption| |].
  - replace (ve sg (sval (sub x y))) with (v x - v y) by (opv; ring). destruct Hd; [left; lia|right; assumption].
  - intros r s' sg' _ _ V. rewrite V. replace (ve sg (sval (sub x y))) with (v x - v y) by (opv; ring).
    destruct (Z.eqb_spec (v x - v y) 0), (Z.eqb_spec (v x) (v y)); try reflexivity; lia.
Qed.
Theorem mul_total x y : sc s x -> sc s y -> nr (mul x y) s sg (fun r _ sg' => ve sg' (sval r) = v x * v y).
Proof. intros Hx Hy. apply mul_nr; [exact Hu|exact Hx|exact Hy|]. intros r s' sg' _ _ V. exact V. Qed.
Theorem to_bits_total x k : sc s x -> 0 <= v x < 2 ^ Z.of_nat k ->
  nr (to_bits x k) s sg (fun bs _ sg' => map (fun b => ve sg' (sval b)) bs = map (fun j => Bits.pybit (v x) j) (seq 0 k)).
Proof. intros Hx Hd. apply to_bits_nr; [exact Hu|exact Hx|exact Hd|]. intros bs s' sg' _ _ V. exact V. Qed.
End Cmp.
End NG.
