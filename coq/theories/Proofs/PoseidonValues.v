(* C20: the traced Poseidon permutation (Model/Prog.v: permute_m -- S-boxes by repeated multiplication gadgets, linear layers
   as linear combinations reduced modulo p) returns, for EVERY input vector and every parameter set, field elements congruent
   to the plain reference permutation of Model/Hash.v (written from the algorithm description) on the input values. *)
From Coq Require Import ZArith List Bool Lia Znumtheory Zpow_facts Setoid Morphisms.
From PySnark Require Import GeneratedPoseidon.
From PySnark.Base Require Import FieldZ Bits.
From PySnark.Model Require Import Lc Sym Good Gadgets Api Hash Prog.
From PySnark.Proofs Require Import LcProofs Meta Frame Wp WpBase GadgetsOK NoRaiseGadgets.
Import ListNotations.
Open Scope Z_scope.

Lemma In_firstn_in {A} : forall n (l : list A) x, In x (firstn n l) -> In x l.
Proof. induction n as [|n IH]; intros l x H; [destruct H|]. destruct l; [destruct H|]. destruct H as [->|H]; [left; reflexivity|right; auto]. Qed.
Lemma In_skipn_in {A} : forall n (l : list A) x, In x (skipn n l) -> In x l.
Proof. induction n as [|n IH]; intros l x H; [exact H|]. destruct l; [destruct H|]. right. auto. Qed.

Section PV.
Context {p : Z}.
Variable ins : list Z.
Variable ig : bool.
Hypothesis F : field_ok p.
Let Hp : prime p := proj1 F.
Local Notation gst := (@Gadgets.gst p).
Local Notation slc := (Sym.slc p).
Local Notation G := (@Gadgets.G p).
Local Notation ve := (Sym.veval p ins ig).
Local Notation wp := (Wp.wp (p:=p) ins ig).
Local Notation Inv := (WpBase.Inv (p:=p) ins ig).
Local Notation sc := (NoRaiseGadgets.sc (p:=p)).
Local Notation "a == b" := (feq p a b) (at level 70).
Local Existing Instance feq_equiv.
Local Existing Instance feq_add.
Local Existing Instance feq_sub.
Local Existing Instance feq_mul.
Local Existing Instance feq_opp.

Definition vz (sg : store) (x : slc) : Z := ve sg (sval x).
(* the values of a list of traced objects are congruent to a list of integers *)
Definition cong (sg : store) (st : list slc) (vals : list Z) : Prop := Forall2 (fun x v => vz sg x == v) st vals.
Definition scs (s : gst) (st : list slc) : Prop := Forall (sc s) st.

Lemma feq_modl a : a mod p == a.
Proof. symmetry. apply (feq_mod p Hp). Qed.
Lemma feq_pow_nat a b : a == b -> forall k : nat, a ^ Z.of_nat k == b ^ Z.of_nat k.
Proof.
  intros E. induction k as [|k IH]; [reflexivity|]. rewrite Nat2Z.inj_succ, !Z.pow_succ_r by lia. exact (feq_mul p _ _ E _ _ IH).
Qed.

Lemma scs_mono (s s' : gst) st : npub s <= npub s' -> npriv s <= npriv s' -> scs s st -> scs s' st.
Proof. intros H1 H2 H. eapply Forall_impl; [|exact H]. intros x Hx. eapply sc_mono; eauto. Qed.
Lemma vz_keep (s : gst) sg sg' x : cnt s sg -> ext sg sg' -> sc s x -> vz sg' x = vz sg x.
Proof. intros C E Hx. unfold vz. apply (ve_ext ins ig _ _ _ _ C E). exact (proj1 (proj1 (sc_parts _ _) Hx)). Qed.
Lemma cong_keep (s : gst) sg sg' st vals : cnt s sg -> ext sg sg' -> scs s st -> cong sg st vals -> cong sg' st vals.
Proof.
  intros C E Hs H. unfold cong in *. revert Hs. induction H as [|x v st vals Hx _ IH]; intros Hs; constructor.
  - inversion Hs; subst. rewrite (vz_keep _ _ _ _ C E H1). exact Hx.
  - inversion Hs; subst. apply IH. assumption.
Qed.

(* ---- round constants ---- *)
Lemma add_rc_cong sg rc : forall st vals, cong sg st vals -> cong sg (add_rc rc st) (arc p rc vals).
Proof.
  unfold add_rc, arc. intros st vals H. revert rc. induction H as [|x v st vals Hx _ IH]; intros rc; [constructor|].
  destruct rc as [|k rc]; cbn [combine map]; [constructor|]. constructor; [|apply IH].
  cbn [fst snd]. unfold vz, fadd, addc. cbn [sval add constv]. esimp. rewrite feq_modl. unfold vz in Hx. rewrite Hx. reflexivity.
Qed.
Lemma add_rc_scs s rc : forall st, scs s st -> scs s (add_rc rc st).
Proof.
  unfold add_rc. intros st H. revert rc. induction H as [|x st Hx _ IH]; intros rc; [constructor|].
  destruct rc as [|k rc]; cbn [combine map]; constructor; [apply sc_addc; exact Hx|apply IH].
Qed.

(* ---- S-box: x^k by repeated multiplication ---- *)
Lemma pow_nat_wp x : forall k s sg (Q : slc -> gst -> store -> Prop), Inv s sg -> sc s x -> (1 <= k)%nat ->
  (forall r s' sg', Inv s' sg' -> ext sg sg' -> npub s <= npub s' -> npriv s <= npriv s' -> sc s' r -> vz sg' r = vz sg x ^ Z.of_nat k -> Q r s' sg') ->
  wp (pow_nat x k) s sg Q.
Proof.
  induction k as [|k IH]; intros s sg Q I Hx Hk HQ; [lia|].
  destruct k as [|k].
  - cbn [pow_nat ret wp]. apply HQ; [exact I|apply ext_refl|lia|lia|exact Hx|]. change (Z.of_nat 1) with 1. rewrite Z.pow_1_r. reflexivity.
  - change (pow_nat x (S (S k))) with (y <- pow_nat x (S k) ;; mul x y). apply wp_bind. apply IH; [exact I|exact Hx|lia|].
    intros y s1 sg1 I1 E1 M1 M2 Sy Vy. apply mul_wp; [exact I1|]. intros r s2 sg2 (I2 & E2 & T2) Sr Vr _ _.
    destruct (cnt_mono _ _ _ _ (proj1 I1) (proj1 I2) E2) as [N1 N2].
    apply HQ; [exact I2|eapply ext_trans; eauto|lia|lia|exact Sr|].
    unfold vz in *. rewrite Vr. rewrite (ve_ext ins ig _ _ _ _ (proj1 I) E1 (proj1 (proj1 (sc_parts _ _) Hx))). rewrite Vy.
    rewrite (Nat2Z.inj_succ (S k)), Z.pow_succ_r by lia. reflexivity.
Qed.

Section WithPs.
Variable c : cfg.
Variable ps : poseidon_params.
Hypothesis Ha : 1 <= pa ps.

Lemma fpow_pow v : fpow p ps v = (v ^ pa ps) mod p.
Proof. unfold fpow. apply Zpow_mod_correct. pose proof (prime_ge_2 _ Hp). lia. Qed.

Lemma sbox_wp x s sg (Q : slc -> gst -> store -> Prop) : Inv s sg -> sc s x ->
  (forall r s' sg', Inv s' sg' -> ext sg sg' -> npub s <= npub s' -> npriv s <= npriv s' -> sc s' r -> vz sg' r = vz sg x ^ pa ps -> Q r s' sg') ->
  wp (sbox ps x) s sg Q.
Proof.
  intros I Hx HQ. unfold sbox. destruct (Z.ltb_spec (pa ps) 0); [lia|].
  apply pow_nat_wp; [exact I|exact Hx|lia|]. intros r s' sg' I' E' M1 M2 Sr Vr. apply HQ; try assumption. rewrite Vr, Z2Nat.id by lia. reflexivity.
Qed.

(* all S-boxes of a full round *)
Lemma sboxes_wp : forall xs s sg (Q : list slc -> gst -> store -> Prop), Inv s sg -> scs s xs ->
  (forall ys s' sg', Inv s' sg' -> ext sg sg' -> npub s <= npub s' -> npriv s <= npriv s' -> scs s' ys ->
     Forall2 (fun y x => vz sg' y = vz sg x ^ pa ps) ys xs -> Q ys s' sg') ->
  wp (mapM (sbox ps) xs) s sg Q.
Proof.
  induction xs as [|x xs IH]; intros s sg Q I Hs HQ; cbn [mapM].
  - cbn [ret wp]. apply HQ; [exact I|apply ext_refl|lia|lia|constructor|constructor].
  - inversion Hs as [|? ? Hx Hxs]; subst. apply wp_bind. apply sbox_wp; [exact I|exact Hx|].
    intros y s1 sg1 I1 E1 M1 M2 Sy Vy. apply wp_bind. apply IH; [exact I1|eapply scs_mono; eauto|].
    intros ys s2 sg2 I2 E2 N1 N2 Sys Vys. cbn [ret wp].
    apply HQ; [exact I2|eapply ext_trans; eauto|lia|lia|constructor; [eapply sc_mono; [| |exact Sy]; lia|exact Sys]|].
    constructor.
    + rewrite (vz_keep _ _ _ _ (proj1 I1) E2 Sy). exact Vy.
    + assert (K : Forall (fun x0 => vz sg1 x0 = vz sg x0) xs).
      { eapply Forall_impl; [|exact Hxs]. intros x0 H0. exact (vz_keep _ _ _ _ (proj1 I) E1 H0). }
      clear - Vys K. induction Vys as [|y0 x0 ys xs H0 _ IHv]; constructor.
      * inversion K; subst. rewrite H0. f_equal. assumption.
      * inversion K; subst. apply IHv. assumption.
Qed.
End WithPs.

(* ---- the linear layer ---- *)
Lemma eval_reduce w : forall l, eval w (lc_reduce p l) == eval w l.
Proof.
  induction l as [|[v k] l IH]; [reflexivity|]. unfold lc_reduce in *. cbn [map eval fold_right fst snd] in *.
  fold (eval w (map (fun vc : var * Z => (fst vc, snd vc mod p)) l)). fold (eval w l). rewrite IH, feq_modl. reflexivity.
Qed.
Lemma lc_okb_reduce np nw l : lc_okb np nw (lc_reduce p l) = lc_okb np nw l.
Proof. unfold lc_okb, lc_reduce. induction l as [|[v k] l IH]; [reflexivity|]. cbn [map forallb fst]. rewrite IH. reflexivity. Qed.
Lemma relin_val sg x : vz sg (relin_modp x) == vz sg x.
Proof.
  unfold vz, relin_modp. cbn [sval]. esimp. rewrite feq_modl. change (ve sg (VLin (lc_reduce p (wire x)))) with (eval (wval sg) (lc_reduce p (wire x))).
  rewrite eval_reduce. symmetry. exact (proj2 (good x) F ins ig sg).
Qed.
Lemma relin_sc s x : sc s x -> sc s (relin_modp x).
Proof.
  intros H. apply sc_parts in H. destruct H as [_ H]. apply sc_parts. unfold relin_modp. cbn [sval wire vscopedb]. rewrite lc_okb_reduce. split; exact H.
Qed.

Lemma mix_row_val sg : forall row st vals acc accz, cong sg st vals -> vz sg acc == accz ->
  vz sg (fold_left (fun a my => add a (scale (snd my) (fst my))) (combine row st) acc) ==
  fold_left (fun a ab => (a + fst ab * snd ab) mod p) (combine row vals) accz.
Proof.
  induction row as [|m row IH]; intros st vals acc accz H Ha; [exact Ha|].
  destruct H as [|x v st vals Hx H]; [exact Ha|]. cbn [combine fold_left fst snd]. apply IH; [exact H|].
  unfold vz in *. cbn [sval add scale]. esimp. rewrite feq_modl, Ha, Hx. apply eq_feq. ring.
Qed.
Lemma mix_row_sc s : forall row st acc, sc s acc -> scs s st -> sc s (fold_left (fun a my => add a (scale (snd my) (fst my))) (combine row st) acc).
Proof.
  induction row as [|m row IH]; intros st acc Ha Hs; [exact Ha|]. destruct Hs as [|x st Hx Hs]; [exact Ha|].
  cbn [combine fold_left fst snd]. apply IH; [apply sc_add; [exact Ha|apply sc_scale; exact Hx]|exact Hs].
Qed.

Section WithPs2.
Variable ps : poseidon_params.
Hypothesis Ha : 1 <= pa ps.

Lemma mix_cong sg st vals : cong sg st vals -> cong sg (mix ps st) (mds p ps vals).
Proof.
  intros H. unfold mix, mds, cong. induction (matrix ps) as [|row rows IH]; [constructor|]. cbn [map]. constructor; [|exact IH].
  rewrite relin_val. unfold mix_row, dot. apply mix_row_val; [exact H|reflexivity].
Qed.
Lemma mix_scs s st : scs s st -> scs s (mix ps st).
Proof.
  intros H. unfold mix, scs. induction (matrix ps) as [|row rows IH]; [constructor|]. cbn [map]. constructor; [|exact IH].
  apply relin_sc. unfold mix_row. apply mix_row_sc; [apply sc_ZERO|exact H].
Qed.

(* what a round function has to satisfy w.r.t. its reference *)
Definition round_ok (f : list Z -> list slc -> G (list slc)) (fref : list Z -> list Z -> list Z) : Prop :=
  forall rc st vals s sg (Q : list slc -> gst -> store -> Prop), Inv s sg -> scs s st -> cong sg st vals ->
    (forall out s' sg', Inv s' sg' -> ext sg sg' -> npub s <= npub s' -> npriv s <= npriv s' -> scs s' out -> cong sg' out (fref rc vals) -> Q out s' sg') ->
    wp (f rc st) s sg Q.

Lemma pow_cong sg sg' ys xs vals : Forall2 (fun y x => vz sg' y = vz sg x ^ pa ps) ys xs -> cong sg xs vals -> cong sg' ys (map (fpow p ps) vals).
Proof.
  intros H. revert vals. induction H as [|y x ys xs Hy _ IH]; intros vals Hc; inversion Hc; subst; cbn [map]; constructor.
  - rewrite Hy, (fpow_pow ps), feq_modl. rewrite <- (Z2Nat.id (pa ps)) by lia. apply feq_pow_nat. assumption.
  - apply IH. assumption.
Qed.

Lemma full_round_ok : round_ok (full_round ps) (full p ps).
Proof.
  intros rc st vals s sg Q I Hs Hc HQ. unfold full_round. apply wp_bind.
  apply (sboxes_wp ps Ha); [exact I|apply add_rc_scs; exact Hs|]. intros ys s' sg' I' E' M1 M2 Sys Vys. cbn [ret wp].
  apply HQ; try assumption; [apply mix_scs; exact Sys|]. unfold full. apply mix_cong. eapply pow_cong; [exact Vys|]. apply add_rc_cong. exact Hc.
Qed.
Lemma partial_round_ok : round_ok (partial_round ps) (partial p ps).
Proof.
  intros rc st vals s sg Q I Hs Hc HQ. unfold partial_round, partial.
  pose proof (add_rc_cong sg rc st vals Hc) as Hc'. pose proof (add_rc_scs s rc st Hs) as Hs'.
  destruct (add_rc rc st) as [|x0 rest] eqn:Ea; [cbn [static_raise wp]; exact Logic.I|].
  inversion Hc' as [|? v0 ? vrest Hx0 Hrest Ex Ev]; subst. inversion Hs' as [|? ? Sx0 Srest]; subst. apply wp_bind. apply (sbox_wp ps Ha); [exact I|exact Sx0|].
  intros y0 s' sg' I' E' M1 M2 Sy Vy. cbn [ret wp].
  apply HQ; try assumption; [apply mix_scs; constructor; [exact Sy|eapply scs_mono; eauto]|].
  unfold partial. rewrite <- Ev. apply mix_cong. constructor.
  - rewrite Vy, (fpow_pow ps), feq_modl. rewrite <- (Z2Nat.id (pa ps)) by lia. apply feq_pow_nat. exact Hx0.
  - exact (cong_keep _ _ _ _ _ (proj1 I) E' Srest Hrest).
Qed.

Lemma rounds_ok f fref : round_ok f fref -> forall rcs st vals s sg (Q : list slc -> gst -> store -> Prop), Inv s sg -> scs s st -> cong sg st vals ->
  (forall out s' sg', Inv s' sg' -> ext sg sg' -> npub s <= npub s' -> npriv s <= npriv s' -> scs s' out ->
     cong sg' out (fold_left (fun v rc => fref rc v) rcs vals) -> Q out s' sg') ->
  wp (rounds f rcs st) s sg Q.
Proof.
  intros Hf. induction rcs as [|rc rcs IH]; intros st vals s sg Q I Hs Hc HQ; cbn [rounds fold_left].
  - cbn [ret wp]. apply HQ; [exact I|apply ext_refl|lia|lia|exact Hs|exact Hc].
  - apply wp_bind. apply (Hf rc st vals); [exact I|exact Hs|exact Hc|]. intros st1 s1 sg1 I1 E1 M1 M2 S1 C1.
    apply (IH st1 (fref rc vals)); [exact I1|exact S1|exact C1|]. intros out s2 sg2 I2 E2 N1 N2 S2 C2.
    apply HQ; [exact I2|eapply ext_trans; eauto|lia|lia|exact S2|exact C2].
Qed.

(* the permutation *)
Theorem permute_value st vals s sg (Q : list slc -> gst -> store -> Prop) : Inv s sg -> scs s st -> cong sg st vals ->
  (forall out s' sg', Inv s' sg' -> ext sg sg' -> scs s' out -> cong sg' out (permute_ref p ps vals) -> Q out s' sg') ->
  wp (permute_m ps st) s sg Q.
Proof.
  intros I Hs Hc HQ. unfold permute_m, permute_ref.
  assert (Hc0 : cong sg st (map (fun x => x mod p) vals)).
  { clear - Hc Hp. unfold cong in *. induction Hc as [|x v st vals Hx _ IH]; cbn [map]; constructor; [|exact IH]. rewrite Hx. symmetry. apply feq_modl. }
  apply wp_bind. apply (rounds_ok _ _ full_round_ok) with (vals := map (fun x => x mod p) vals); [exact I|exact Hs|exact Hc0|].
  intros st1 s1 sg1 I1 E1 M1 M2 S1 C1.
  apply wp_bind. apply (rounds_ok _ _ partial_round_ok) with (vals := fold_left (fun v rc => full p ps rc v) (firstn (Z.to_nat (R_F ps / 2)) (round_constants ps)) (map (fun x => x mod p) vals)); [exact I1|exact S1|exact C1|].
  intros st2 s2 sg2 I2 E2 N1 N2 S2 C2.
  eapply (rounds_ok _ _ full_round_ok); [exact I2|exact S2|exact C2|].
  intros out s3 sg3 I3 E3 _ _ S3 C3. apply HQ; [exact I3|eapply ext_trans; [|exact E3]; eapply ext_trans; eauto|exact S3|exact C3].
Qed.
End WithPs2.

(* ---- the sponge ---- *)
Lemma F2_firstn {A B} (R : A -> B -> Prop) : forall n l1 l2, Forall2 R l1 l2 -> Forall2 R (firstn n l1) (firstn n l2).
Proof. induction n as [|n IH]; intros l1 l2 H; [constructor|]. destruct H; cbn [firstn]; constructor; auto. Qed.
Lemma F2_skipn {A B} (R : A -> B -> Prop) : forall n l1 l2, Forall2 R l1 l2 -> Forall2 R (skipn n l1) (skipn n l2).
Proof. induction n as [|n IH]; intros l1 l2 H; [exact H|]. destruct H; cbn [skipn]; [constructor|auto]. Qed.
Lemma F2_length {A B} (R : A -> B -> Prop) l1 l2 : Forall2 R l1 l2 -> length l1 = length l2.
Proof. induction 1; cbn; congruence. Qed.
Lemma chunks_cong sg : forall fuel n l vals, cong sg l vals -> Forall2 (cong sg) (chunks fuel n l) (chunksZ fuel n vals).
Proof.
  induction fuel as [|fuel IH]; intros n l vals H; cbn [chunks chunksZ]; [constructor|].
  destruct H as [|x v l vals Hx H]; [constructor|]. constructor.
  - apply F2_firstn. constructor; assumption.
  - apply IH. apply F2_skipn. constructor; assumption.
Qed.
Lemma chunks_scs s : forall fuel n l, scs s l -> Forall (scs s) (chunks fuel n l).
Proof.
  induction fuel as [|fuel IH]; intros n l H; cbn [chunks]; [constructor|]. destruct l as [|x l]; [constructor|]. constructor.
  - unfold scs. apply Forall_forall. intros y Hy. apply (proj1 (Forall_forall _ _) H). eapply (In_firstn_in _ _ _ Hy).
  - apply IH. unfold scs. apply Forall_forall. intros y Hy. apply (proj1 (Forall_forall _ _) H). eapply (In_skipn_in _ _ _ Hy).
Qed.

Section Sponge.
Variable ps : poseidon_params.
Hypothesis Ha : 1 <= pa ps.
Variables (s0 : gst) (sg0 : store).
Hypothesis I0 : Inv s0 sg0.

(* "m, started in (s0, sg0), ends (if it does not raise) in a state satisfying P" -- closed under bind *)
Definition spec {A} (m : G A) (P : A -> gst -> store -> Prop) : Prop :=
  forall Q : A -> gst -> store -> Prop, (forall a s' sg', P a s' sg' -> Q a s' sg') -> wp m s0 sg0 Q.
Definition Pst (vals : list Z) (sp : list slc) (s' : gst) (sg' : store) : Prop :=
  Inv s' sg' /\ ext sg0 sg' /\ scs s' sp /\ cong sg' sp vals.

Definition step (acc : G (list slc)) (blk : list slc) : G (list slc) :=
  sp <- acc ;;
  match sp with
  | [] => static_raise IndexError
  | c0 :: rate => permute_m ps (c0 :: map (fun ab => add (fst ab) (snd ab)) (combine rate blk))
  end.
Definition stepref (sp blk : list Z) : list Z :=
  match sp with [] => [] | c0 :: rate => permute_ref p ps (c0 :: map (fun ab => fadd p (fst ab) (snd ab)) (combine rate blk)) end.

Lemma absorb_cong sg : forall rate vrate blk vblk, cong sg rate vrate -> cong sg blk vblk ->
  cong sg (map (fun ab => add (fst ab) (snd ab)) (combine rate blk)) (map (fun ab => fadd p (fst ab) (snd ab)) (combine vrate vblk)).
Proof.
  intros rate vrate blk vblk H. revert blk vblk. induction H as [|x v rate vrate Hx _ IH]; intros blk vblk Hb; [constructor|].
  destruct Hb as [|y w blk vblk Hy Hb]; cbn [combine map]; constructor; [|apply IH; exact Hb].
  cbn [fst snd]. unfold vz, fadd in *. cbn [sval add]. esimp. rewrite feq_modl, Hx, Hy. reflexivity.
Qed.
Lemma absorb_scs s : forall rate blk, scs s rate -> scs s blk -> scs s (map (fun ab => add (fst ab) (snd ab)) (combine rate blk)).
Proof.
  intros rate blk H. revert blk. induction H as [|x rate Hx _ IH]; intros blk Hb; [constructor|].
  destruct Hb as [|y blk Hy Hb]; cbn [combine map]; constructor; [apply sc_add; assumption|apply IH; exact Hb].
Qed.

Lemma sponge_fold : forall blocks vblocks, Forall2 (cong sg0) blocks vblocks -> Forall (scs s0) blocks ->
  forall m vals, spec m (Pst vals) -> spec (fold_left step blocks m) (Pst (fold_left stepref vblocks vals)).
Proof.
  intros blocks vblocks H. induction H as [|blk vblk blocks vblocks Hb _ IH]; intros Hs m vals Hm; cbn [fold_left]; [exact Hm|].
  inversion Hs as [|? ? Sb Ss]; subst. apply IH; [exact Ss|].
  intros Q HQ. unfold step. apply wp_bind. apply Hm. intros sp s1 sg1 (I1 & E1 & S1 & C1).
  destruct (cnt_mono _ _ _ _ (proj1 I0) (proj1 I1) E1) as [M1 M2].
  destruct C1 as [|c0 v0 rate vrate Hc0 Hrate]; [cbn [static_raise wp]; exact Logic.I|]. cbn [stepref].
  inversion S1 as [|? ? Sc0 Srate]; subst.
  assert (Sb1 : scs s1 blk) by (eapply scs_mono; eauto).
  assert (Cb1 : cong sg1 blk vblk) by exact (cong_keep _ _ _ _ _ (proj1 I0) E1 Sb Hb).
  apply (permute_value ps Ha) with (vals := v0 :: map (fun ab => fadd p (fst ab) (snd ab)) (combine vrate vblk)); [exact I1| | |].
  - constructor; [exact Sc0|apply absorb_scs; assumption].
  - constructor; [exact Hc0|apply absorb_cong; assumption].
  - intros out s2 sg2 I2 E2 S2 C2. apply HQ. split; [exact I2|]. split; [eapply ext_trans; eauto|]. split; assumption.
Qed.
End Sponge.

Lemma cong_tl sg a b : cong sg a b -> cong sg (tl a) (tl b).
Proof. intros H. destruct H; cbn [tl]; [constructor|assumption]. Qed.
Lemma repeat_scs s k : scs s (repeat ZERO k).
Proof. induction k as [|k IH]; cbn [repeat]; constructor; [apply sc_ZERO|exact IH]. Qed.
Lemma repeat_cong sg k : cong sg (repeat ZERO k) (repeat 0 k).
Proof. induction k as [|k IH]; cbn [repeat]; constructor; [reflexivity|exact IH]. Qed.

(* the sponge: for every message, outside guarded regions *)
Theorem hash_value (ps : poseidon_params) (msg : list slc) (vals : list Z) s sg (Q : list slc -> gst -> store -> Prop) :
  1 <= pa ps -> Inv s sg -> guard s = None -> scs s msg -> cong sg msg vals ->
  (forall out s' sg', Inv s' sg' -> ext sg sg' -> cong sg' out (hash_ref p ps vals) -> Q out s' sg') ->
  wp (poseidon_hash_m ps msg) s sg Q.
Proof.
  intros Ha I Hg Hs Hc HQ. unfold poseidon_hash_m, hash_ref, get. cbn [bind wp].
  assert (L : length msg = length vals) by exact (F2_length _ _ _ Hc).
  set (r := Z.to_nat (pt ps - 1)).
  assert (V1 : vz sg (one s) == 1).
  { destruct I as (_ & _ & Hsem). rewrite Hg in Hsem. unfold vz. rewrite (proj2 Hsem). reflexivity. }
  assert (S1 : sc s (one s)).
  { destruct I as (_ & Hgs & _). unfold globals_scoped in Hgs. apply andb_prop in Hgs. exact (proj2 Hgs). }
  assert (Cp : cong sg (msg ++ [one s] ++ repeat ZERO (r - length msg mod r - 1)) (pad r vals)).
  { unfold pad. rewrite <- L. apply Forall2_app; [exact Hc|]. apply Forall2_app; [constructor; [exact V1|constructor]|].
    apply repeat_cong. }
  assert (Sp : scs s (msg ++ [one s] ++ repeat ZERO (r - length msg mod r - 1))).
  { unfold scs. apply Forall_app. split; [exact Hs|]. apply Forall_app. split; [constructor; [exact S1|constructor]|].
    apply repeat_scs. }
  set (padded := msg ++ [one s] ++ repeat ZERO (r - length msg mod r - 1)) in *.
  assert (Lp : length padded = length (pad r vals)) by exact (F2_length _ _ _ Cp).
  apply wp_bind.
  apply (sponge_fold ps Ha s sg I (chunks (length padded) r padded) (chunksZ (length (pad r vals)) r (pad r vals))) with (vals := repeat 0 (Z.to_nat (pt ps))).
  - rewrite <- Lp. apply chunks_cong. exact Cp.
  - apply chunks_scs. exact Sp.
  - intros Q0 HQ0. cbn [ret wp]. apply HQ0. split; [exact I|]. split; [apply ext_refl|]. split.
    + apply repeat_scs.
    + apply repeat_cong.
  - intros st s' sg' (I' & E' & S' & C'). cbn [ret wp]. apply HQ; [exact I'|exact E'|].
    unfold hash_ref. apply cong_tl. exact C'.
Qed.

(* ---- the subset-sum (GGH) hash on secret bits: a pure linear combination, reduced modulo p at every step ---- *)
Section Ggh.
Variable c : cfg.
Local Notation op2 := (Api.pyop (p:=p) c).
Local Notation pyval := (Api.pyval p).
Ltac disp := unfold pyop, FUEL;
  cbn [binop dispatch lc_dunder lc_rdunder bool_dunder bool_rdunder bind ret uneg same_class m_check_zero boolr lcr NI].
Definition ggh_stepm (acc : G pyval) (bc : pyval * Z) : G pyval :=
  t <- acc ;; m <- op2 OMul (fst bc) (PInt (snd bc)) ;; s <- op2 OAdd t m ;;
  match s with PLC x => ret (PLC (recast_modp x)) | _ => static_raise AttributeError end.
Fixpoint ggh_acc (acc : slc) (l : list (slc * Z)) : slc :=
  match l with [] => acc | (b, k) :: l' => ggh_acc (recast_modp (add acc (scale b k))) l' end.
Lemma ggh_eq_acc : forall l acc,
  fold_left ggh_stepm (map (fun bk : slc * Z => (PLC (fst bk), snd bk)) l) (ret (PLC acc)) = ret (PLC (ggh_acc acc l)).
Proof. induction l as [|[b k] l IH]; intros acc; cbn [map fold_left ggh_acc fst snd]; [reflexivity|]. unfold ggh_stepm at 2. cbn [fst snd]. disp. apply IH. Qed.
Lemma combine_map_PLC : forall (xs : list slc) (ks : list Z), combine (map (@PLC p) xs) ks = map (fun bk : slc * Z => (PLC (fst bk), snd bk)) (combine xs ks).
Proof. induction xs as [|x xs IH]; intros ks; [reflexivity|]. destruct ks as [|k ks]; [reflexivity|]. cbn [map combine fst snd]. rewrite IH. reflexivity. Qed.
Lemma ggh_acc_val sg : forall l acc accz, vz sg acc == accz ->
  vz sg (ggh_acc acc l) == fold_left (fun a bc => (a + fst bc * snd bc) mod p) (map (fun bk : slc * Z => (vz sg (fst bk), snd bk)) l) accz.
Proof.
  induction l as [|[b k] l IH]; intros acc accz Ha; cbn [ggh_acc map fold_left fst snd]; [exact Ha|]. apply IH.
  unfold vz in *. unfold recast_modp. cbn [sval add scale]. esimp. rewrite !feq_modl, Ha. reflexivity.
Qed.
(* ggh_hash of a non-empty list of secret bits (LinComb objects) = the reference subset sum of their values *)
Theorem ggh_value (x : slc) (xs : list slc) (k : Z) (ks : list Z) sg :
  exists r, ggh_m c (k :: ks) (map (@PLC p) (x :: xs)) = ret (PLC r) /\
            vz sg r == ggh_ref p (k :: ks) (map (vz sg) (x :: xs)).
Proof.
  assert (E0 : ggh_m c (k :: ks) (map (@PLC p) (x :: xs)) = fold_left ggh_stepm (combine (map (@PLC p) xs) ks) (ggh_stepm (ret (PInt 0)) (PLC x, k))) by reflexivity.
  assert (E1 : ggh_stepm (ret (PInt 0)) (PLC x, k) = ret (PLC (recast_modp (addc (scale x k) 0)))) by (unfold ggh_stepm; cbn [fst snd]; disp; reflexivity).
  rewrite E0, E1, combine_map_PLC, ggh_eq_acc. eexists. split; [reflexivity|].
  unfold ggh_ref. cbn [map combine fold_left fst snd].
  assert (E : combine (map (vz sg) xs) ks = map (fun bk : slc * Z => (vz sg (fst bk), snd bk)) (combine xs ks)).
  { clear. revert ks. induction xs as [|y ys IH]; intros ks; [reflexivity|]. destruct ks; [reflexivity|]. cbn [map combine fst snd]. rewrite IH. reflexivity. }
  rewrite E. apply ggh_acc_val. unfold vz, recast_modp, addc. cbn [sval add scale constv]. esimp. rewrite !feq_modl. apply eq_feq. ring.
Qed.
End Ggh.
End PV.
