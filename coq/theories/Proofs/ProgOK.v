(* Completeness of the statement layer (Model/Prog.v): every program's generated constraints are justified. *)
From Coq Require Import ZArith List Bool Lia Znumtheory.
From PySnark.Base Require Import FieldZ.
From PySnark Require Import Generated.
From PySnark.Model Require Import Lc Sym Good Gadgets Api Hash Prog.
From PySnark.Proofs Require Import Meta Frame Wp WpBase GadgetsOK ApiOK.
Import ListNotations.
Open Scope Z_scope.

Section P.
Context {p : Z}.
Variable ins : list Z.
Variable ig : bool.
Hypothesis F : field_ok p.
Local Notation G := (@Gadgets.G p).
Local Notation G1 := (@Gadgets.M p true).
Local Notation gst := (@Gadgets.gst p).
Local Notation slc := (Sym.slc p).
Local Notation pyval := (Api.pyval p).
Local Notation OK := (GadgetsOK.OK (p:=p) ins ig).
Opaque GadgetsOK.OK.
Variable c : cfg.

Ltac okb := first
  [ match goal with
    | |- GadgetsOK.OK _ _ (ret _) => apply OK_ret
    | |- GadgetsOK.OK _ _ (Ret _) => apply OK_Ret
    | |- GadgetsOK.OK _ _ NI => apply OK_ret
    | |- GadgetsOK.OK _ _ (static_raise _) => apply OK_raise
    | |- GadgetsOK.OK _ _ (bind get _) => apply OK_getb; intros ?
    | |- GadgetsOK.OK _ _ (bind (raise_if _ _) _) => apply OK_raise_ifb
    end
  | apply OK_ensurebool | apply OK_ensurefxp | apply OK_mkbool
  | apply OK_lcr | apply OK_boolr | apply OK_fxpr
  | apply OK_mul | apply OK_check_zero | apply OK_check_positive | apply OK_to_bits | apply OK_boolctor | apply OK_privval | apply OK_pubval
  | apply OK_privbool | apply OK_pubbool | apply OK_fresh
  | apply OK_truediv | apply OK_truediv_int | apply OK_divmod | apply OK_pow_nat | apply OK_pow_lc
  | apply OK_land_lc | apply OK_lxor_lc | apply OK_lor_lc | apply OK_invert_lc | apply OK_assert_zero | apply OK_assert_nonzero | apply OK_lcval
  | apply OK_assert_positive | apply OK_assert_range | apply OK_assert_lt | apply OK_assert_le | apply OK_assert_gt | apply OK_assert_ge
  | apply OK_assert_eq | apply OK_assert_ne | apply OK_ensurelc_int
  | assumption
  | match goal with |- GadgetsOK.OK _ _ (bind _ _) => apply OK_bind; [|intros ?] end ].
Ltac ok := repeat (okb || match goal with
                          | |- GadgetsOK.OK _ _ (match ?x with _ => _ end) => destruct x
                          | |- GadgetsOK.OK _ _ (if ?b then _ else _) => destruct b
                          end).

Lemma OK_op2 op a b : OK (op2 c op a b). Proof. unfold op2. apply OK_pyop. exact F. Qed.
Lemma OK_ite v1 v2 v3 : OK (if_then_else c (op2 c) v1 v2 v3). Proof. apply OK_if_then_else; try exact F; intros; apply OK_op2. Qed.
Lemma OK_ite_ev v1 v2 v3 : OK (if_then_else_evaluated c (op2 c) v1 v2 v3). Proof. apply OK_if_then_else_evaluated; try exact F; intros; apply OK_op2. Qed.
Lemma OK_unop2 op v : OK (unop c (op2 c) op v). Proof. apply OK_unop; try exact F; intros; apply OK_op2. Qed.
Lemma OK_name_lc x : OK (name_lc x). Proof. unfold name_lc. ok. Qed.
Lemma OK_name_val : forall v, OK (name_val v).
Proof.
  fix IH 1. intros v. destruct v; cbn [name_val]; try (ok; fail).
  - ok; apply OK_name_lc.
  - apply OK_bind; [ok|intros o']. apply OK_bind; [apply OK_name_lc|intros x']. ok.
  - apply OK_bind; [ok|intros o']. apply OK_bind; [apply OK_name_lc|intros x']. ok.
  - apply OK_bind; [|intros l'; ok]. induction l as [|a l IHl]; [ok|]. apply OK_bind; [apply IH|intros b]. apply OK_bind; [exact IHl|intros r; ok].
  - apply OK_bind; [|intros l'; ok]. induction l as [|a l IHl]; [ok|]. apply OK_bind; [apply IH|intros b]. apply OK_bind; [exact IHl|intros r; ok].
  - apply OK_bind; [|intros l'; ok]. induction l as [|a l IHl]; [ok|]. apply OK_bind; [apply IH|intros b]. apply OK_bind; [exact IHl|intros r; ok].
Qed.

Lemma OK_emit_list (l : list (Sym.cmd p)) : Forall (fun c0 => match c0 with CEmit _ _ _ => False | _ => True end) l ->
  OK (fold_right (fun (c0 : Sym.cmd p) (k : G unit) => Emit c0 k) (Ret tt) l).
Proof. induction 1 as [|c0 l Hc _ IH]; cbn [fold_right]; [apply OK_Ret|]. apply OK_emit_out; assumption. Qed.
Lemma out_val_obs : forall v : pyval, Forall (fun c0 : Sym.cmd p => match c0 with CEmit _ _ _ => False | _ => True end) (out_val v).
Proof.
  fix IH 1. intros v. destruct v; cbn [out_val]; try (repeat constructor; fail).
  - destruct (if m =? 0 then (0, 0) else norm_float 2000 m e) as [m' e']. repeat constructor.
  - constructor; [exact I|]. induction l as [|a l IHl]; cbn [flat_map]; [constructor|]. apply Forall_app. split; [apply IH|exact IHl].
  - constructor; [exact I|]. induction l as [|a l IHl]; cbn [flat_map]; [constructor|]. apply Forall_app. split; [apply IH|exact IHl].
  - constructor; [exact I|]. induction l as [|a l IHl]; cbn [flat_map]; [constructor|]. apply Forall_app. split; [apply IH|exact IHl].
Qed.
Lemma OK_emit_out_val v : OK (emit_out v).
Proof. unfold emit_out. apply OK_emit_list. apply out_val_obs. Qed.
Lemma OK_emitc_out tag v l : OK (emitc (COut (p:=p) tag v l)).
Proof. unfold emitc. apply OK_emit_out; [exact I|apply OK_Ret]. Qed.

Ltac okp := repeat first
  [ apply OK_op2 | apply OK_ite | apply OK_ite_ev | apply OK_unop2 | apply OK_name_val | apply OK_name_lc | apply OK_emit_out_val | apply OK_emitc_out
  | okb
  | match goal with
    | |- GadgetsOK.OK _ _ (match ?x with _ => _ end) => destruct x
    | |- GadgetsOK.OK _ _ (if ?b then _ else _) => destruct b
    end ].

Lemma OK_gen_input k i : OK (gen_input c k i). Proof. unfold gen_input. okp. Qed.
Lemma OK_ensurelc v : OK (ensurelc v). Proof. unfold ensurelc. okp. Qed.
Lemma OK_unit_none m : OK m -> OK (unit_none m). Proof. intros H. unfold unit_none. okp. Qed.
Lemma OK_assert_by m x y : OK (assert_by c m x y). Proof. unfold assert_by. okp. Qed.
Lemma OK_fold_bits : forall (bs : list pyval) acc i,
  OK ((fix go (acc : pyval) (bs : list pyval) (i : Z) : G pyval :=
         match bs with [] => ret acc | b :: bs' => t <- op2 c OMul b (PInt (2 ^ i)) ;; a <- op2 c OAdd acc t ;; go a bs' (i + 1) end) acc bs i).
Proof. induction bs as [|b bs IH]; intros acc i; [okp|]. apply OK_bind; [apply OK_op2|intros t]. apply OK_bind; [apply OK_op2|intros a]. apply IH. Qed.
Lemma OK_gen_meth m recv args : OK (gen_meth c m recv args).
Proof.
  unfold gen_meth.
  destruct m; destruct recv; try apply OK_raise;
    repeat first [ apply OK_unit_none | apply OK_ensurelc | apply OK_assert_by | apply OK_fold_bits | okp ].
Qed.

Lemma OK_fold_left_gen {A B} (f : G A -> B -> G A) : (forall acc y, OK acc -> OK (f acc y)) -> forall l acc, OK acc -> OK (fold_left f l acc).
Proof. intros Hf. induction l as [|y l IH]; intros acc Ha; cbn [fold_left]; [exact Ha|]. apply IH. apply Hf. exact Ha. Qed.
Lemma OK_py_sum l : OK (py_sum c l).
Proof. unfold py_sum. apply OK_fold_left_gen; [|okp]. intros acc y Ha. okp. Qed.
Lemma OK_arr_selector l x : OK (arr_selector c l x).
Proof.
  unfold arr_selector. apply OK_getb. intros s. apply OK_raise_ifb.
  apply OK_bind; [apply OK_mapM_range; intros; apply OK_op2|intros ixs]. apply OK_bind; [apply OK_py_sum|intros sm].
  destruct sm; okp; apply OK_ensurelc.
Qed.
Lemma OK_arr_get1 l i : OK (arr_get1 c l i).
Proof.
  unfold arr_get1. destruct i; okp.
  - apply OK_arr_selector.
  - apply OK_zipM. intros. apply OK_op2.
  - apply OK_py_sum.
Qed.
Lemma OK_arr_get : forall idx l, OK (arr_get c l idx).
Proof.
  induction idx as [|i rest IH]; intros l; cbn [arr_get]; [okp|]. destruct rest as [|j rest']; [apply OK_arr_get1|].
  apply OK_bind; [apply OK_arr_get1|intros v]. destruct v; okp. apply IH.
Qed.
Lemma OK_arr_set1 l i v : OK (arr_set1 c l i v).
Proof.
  unfold arr_set1. destruct i; okp.
  - apply OK_arr_selector.
  - apply OK_zipM. intros. apply OK_ite.
Qed.
Lemma OK_arr_set : forall idx l v, OK (arr_set c l idx v).
Proof.
  induction idx as [|i rest IH]; intros l v; cbn [arr_set]; [okp|]. destruct rest as [|j rest']; [apply OK_arr_set1|].
  apply OK_bind; [apply OK_arr_get1|intros it]. destruct it; okp; first [apply IH|apply OK_arr_set1].
Qed.
Lemma OK_concat_lists ls : OK (concat_lists ls).
Proof. unfold concat_lists. destruct ls as [|x rest]; [okp|]. apply OK_fold_left_gen; [|okp]. intros acc y Ha. okp. Qed.
Lemma OK_pack_v : forall k v, OK (pack_v k v).
Proof.
  fix IH 1. intros k v. destruct k; cbn [pack_v].
  - destruct v; okp.
  - destruct v; okp.
  - destruct v; okp; try apply OK_concat_lists;
      (revert l0; induction l as [|k1 ks IHk]; intros vs; [okp|]; destruct vs as [|v1 vs']; [okp|];
       apply OK_bind; [apply IH|intros a]; apply OK_bind; [apply IHk|intros r; okp]).
  - destruct v; okp; try apply OK_concat_lists; (apply OK_mapM; intros; apply IH).
Qed.
Lemma OK_nth_bits bits pos : OK (nth_bits bits pos). Proof. unfold nth_bits. okp. Qed.
Lemma OK_fold_bits2 : forall (bs : list pyval) i,
  OK ((fix go (bs : list pyval) (i : Z) : G (list pyval) :=
         match bs with [] => ret [] | b :: bs' => t <- op2 c OMul (PInt (2 ^ i)) b ;; r <- go bs' (i + 1) ;; ret (t :: r) end) bs i).
Proof. induction bs as [|b bs IH]; intros i; [okp|]. apply OK_bind; [apply OK_op2|intros t]. apply OK_bind; [apply IH|intros r; okp]. Qed.
Lemma OK_unpack_v : forall k bits pos, OK (unpack_v c k bits pos).
Proof.
  fix IH 1. intros k bits pos. destruct k; cbn [unpack_v].
  - apply OK_nth_bits.
  - destruct (Nat.eqb (bitlen_of m) 0); [okp|]. apply OK_bind; [apply OK_nth_bits|intros b0].
    destruct b0; try (apply OK_bind; [apply OK_fold_bits2|intros ts; apply OK_py_sum]);
      (destruct (firstn (bitlen_of m) (skipn pos bits)) as [|x0 rest]; [okp|]);
      (apply OK_bind; [apply OK_op2|intros t0]); (apply OK_bind; [apply OK_op2|intros a0]);
      (apply OK_bind; [apply OK_fold_bits|intros r]); destruct r; okp; apply OK_ensurelc.
  - apply OK_bind; [|intros rs; okp]. revert pos. induction l as [|k1 ks IHk]; intros pos; [okp|].
    apply OK_bind; [apply IH|intros a]. apply OK_bind; [apply IHk|intros r; okp].
  - apply OK_bind; [apply OK_mapM; intros; apply IH|intros rs; okp].
Qed.
Lemma OK_conv_pass f : (forall v, OK (f v)) -> forall ls r, OK (conv_pass f ls r).
Proof. intros Hf. induction ls as [|l ls IH]; intros r; cbn [conv_pass]; [okp|]. apply OK_bind; [apply Hf|intros o; apply IH]. Qed.
Lemma OK_arg_int v : OK (arg_int v). Proof. unfold arg_int. okp. Qed.
Lemma OK_arg_float v : OK (arg_float c v). Proof. unfold arg_float. okp. Qed.
Lemma OK_res_lc v : OK (res_lc v). Proof. unfold res_lc. okp. Qed.
Lemma OK_res_fxp v : OK (res_fxp v). Proof. unfold res_fxp. okp. Qed.
Lemma OK_res_bool v : OK (res_bool v). Proof. unfold res_bool. okp. Qed.
Lemma OK_out_plain v : OK (out_plain v).
Proof. unfold out_plain. destruct v; try apply OK_emit_out_val. repeat (match goal with |- GadgetsOK.OK _ _ (match ?x with _ => _ end) => destruct x end; try apply OK_emit_out_val). apply OK_emitc_out. Qed.
Lemma OK_sbox ps x : OK (sbox ps x). Proof. unfold sbox. okp. Qed.
Lemma OK_full_round ps rc st : OK (full_round ps rc st).
Proof. unfold full_round. apply OK_bind; [apply OK_mapM; intros; apply OK_sbox|intros s1; okp]. Qed.
Lemma OK_partial_round ps rc st : OK (partial_round ps rc st).
Proof. unfold partial_round. destruct (add_rc rc st); okp. apply OK_sbox. Qed.
Lemma OK_rounds f : (forall rc st, OK (f rc st)) -> forall rcs st, OK (rounds f rcs st).
Proof. intros Hf. induction rcs as [|rc rcs IH]; intros st; cbn [rounds]; [okp|]. apply OK_bind; [apply Hf|intros st'; apply IH]. Qed.
Lemma OK_permute_m ps st : OK (permute_m ps st).
Proof.
  unfold permute_m. apply OK_bind; [apply OK_rounds; apply OK_full_round|intros s1].
  apply OK_bind; [apply OK_rounds; apply OK_partial_round|intros s2]. apply OK_rounds; apply OK_full_round.
Qed.
Lemma OK_poseidon_hash_m ps xs : OK (poseidon_hash_m ps xs).
Proof.
  unfold poseidon_hash_m. apply OK_getb. intros s. apply OK_bind; [|intros st; okp].
  apply OK_fold_left_gen; [|okp]. intros acc blk Ha. apply OK_bind; [exact Ha|intros sp]. destruct sp; okp. apply OK_permute_m.
Qed.
Lemma OK_ggh_m coeffs bits : OK (ggh_m c coeffs bits).
Proof. unfold ggh_m. apply OK_fold_left_gen; [|okp]. intros acc bc Ha. okp. Qed.

Ltac solve_body IH :=
  match goal with |- GadgetsOK.OK _ _ (_ ?body ?r) => generalize r; generalize body end;
  let IHb := fresh "IHb" in let b0 := fresh "b0" in let r0 := fresh "r0" in let s1 := fresh "s1" in let b' := fresh "b'" in let r1 := fresh "r1" in
  fix IHb 1; intros b0 r0; destruct b0 as [|s1 b']; [apply OK_ret|apply OK_bind; [apply IH|intros r1; apply IHb]].

Lemma OK_gen_stmt : forall st r, OK (gen_stmt c st r).
Proof.
  fix IH 1. intros st r.
  destruct st; cbn [gen_stmt]; try (okp; fail).
  - okp. apply OK_gen_input.
  - okp. apply OK_gen_meth.
  - (* SGuarded *) destruct (rget r cnd); okp; try (apply guarded_OK; try exact F); solve_body IH.
  - (* SIteLazy *) destruct (rget r cnd); okp; try (apply guarded_OK; try exact F); try solve_body IH.
  - (* SArrGet *) okp. apply OK_arr_get.
  - (* SArrSet *) okp. apply OK_arr_set.
  - okp. apply OK_pack_v.
  - okp. apply OK_unpack_v.
  - (* SSnark *) okp; try (apply OK_conv_pass; intros; first [apply OK_arg_int|apply OK_arg_float|apply OK_res_lc|apply OK_res_fxp|apply OK_res_bool]);
      try solve_body IH. apply OK_mapM. intros. apply OK_out_plain.
  - okp. apply OK_permute_m.
  - okp. apply OK_poseidon_hash_m.
  - okp. apply OK_ggh_m.
Qed.

(* ================= level true: the block API (explicit add_guard / restore_guard) ================= *)
Transparent GadgetsOK.OK.
Local Notation wp := (Wp.wp (p:=p) ins ig).
Local Notation Inv := (WpBase.Inv (p:=p) ins ig).
Local Notation ve := (Sym.veval p ins ig).
Local Notation be := (Sym.beval p ins ig).
Local Notation bst := (@Prog.bst p).
Local Notation bctx := (@Prog.bctx p).

Definition tvalid (t : Sym.gtriple p) (s : gst) (sg : store) : Prop :=
  globals_scoped (npub s) (npriv s) (g_guard t) (g_ignore t) (g_one t) = true /\ gsem ins ig (g_guard t) (g_ignore t) (g_one t) sg.
Lemma tvalid_mono t s sg s' sg' : tvalid t s sg -> cnt s sg -> cnt s' sg' -> ext sg sg' -> tvalid t s' sg'.
Proof.
  intros [S H] C C' E. destruct (cnt_mono _ _ _ _ C C' E) as [M1 M2]. split.
  - eapply globals_scoped_mono; [| |exact S]; lia.
  - eapply gsem_stable; [exact E| |exact H]. destruct C as [A1 A2]. rewrite <- A1, <- A2. exact S.
Qed.
Lemma tvalid_cur s sg : Inv s sg -> tvalid (cur_triple s) s sg.
Proof. intros (_ & S & H). split; assumption. Qed.
Definition SV (stk : list bctx) (s : gst) (sg : store) : Prop := Forall (fun cx => tvalid (borig cx) s sg) stk.
Lemma SV_mono stk s sg s' sg' : SV stk s sg -> cnt s sg -> cnt s' sg' -> ext sg sg' -> SV stk s' sg'.
Proof. intros H C C' E. eapply Forall_impl; [|exact H]. intros cx Hc. exact (tvalid_mono _ _ _ _ _ Hc C C' E). Qed.

Definition TOK {A} (m : G1 A) (s : gst) (sg : store) (P : A -> gst -> store -> Prop) : Prop :=
  forall Q : A -> gst -> store -> Prop, (forall a s' sg', Inv s' sg' -> ext sg sg' -> P a s' sg' -> Q a s' sg') -> wp m s sg Q.
Lemma TOK_bind A B (m : G1 A) (f : A -> G1 B) s sg P P2 :
  TOK m s sg P -> (forall a s' sg', Inv s' sg' -> ext sg sg' -> P a s' sg' -> TOK (f a) s' sg' P2) -> TOK (bind m f) s sg P2.
Proof.
  intros Hm Hf Q HQ. apply wp_bind. apply Hm. intros a s1 sg1 I1 E1 P1. apply (Hf a s1 sg1 I1 E1 P1).
  intros b s2 sg2 I2 E2 P2'. apply HQ; [exact I2|eapply ext_trans; eauto|exact P2'].
Qed.
Lemma TOK_weaken A (m : G1 A) s sg (P P' : A -> gst -> store -> Prop) : TOK m s sg P -> (forall a s' sg', Inv s' sg' -> ext sg sg' -> P a s' sg' -> P' a s' sg') -> TOK m s sg P'.
Proof. intros H HP Q HQ. apply H. intros a s' sg' I' E' Pa. apply HQ; auto. Qed.
Lemma TOK_ret A (a : A) s sg (P : A -> gst -> store -> Prop) : Inv s sg -> P a s sg -> TOK (ret a) s sg P.
Proof. intros I Pa Q HQ. cbn [ret wp]. apply HQ; [exact I|apply ext_refl|exact Pa]. Qed.
Lemma TOK_raise A e s sg (P : A -> gst -> store -> Prop) : TOK (static_raise e) s sg P.
Proof. intros Q HQ. exact Logic.I. Qed.
Lemma TOK_lift A (m : G A) s sg : OK m -> Inv s sg -> TOK (lift m) s sg (fun _ _ _ => True).
Proof. intros H I Q HQ. apply wp_lift. apply H; [exact I|]. intros a s' sg' (I' & E' & _). apply HQ; auto. Qed.

Lemma restore_guard_TOK b s sg : Inv s sg -> tvalid b s sg -> TOK (restore_guard b) s sg (fun _ _ _ => True).
Proof.
  intros I [S H] Q HQ. unfold restore_guard, set_globals. cbn [wp]. intros _. apply HQ; [|apply ext_refl|exact Logic.I].
  split; [exact (proj1 I)|split; [exact S|exact H]].
Qed.
Lemma add_guard_TOK cnd s sg : Inv s sg -> TOK (add_guard c cnd) s sg (fun t s' sg' => tvalid t s' sg').
Proof.
  intros I Q HQ. unfold add_guard, get, set_globals. cbn [bind wp]. apply wp_bind. apply wp_lift.
  apply new_guard_wp; [exact I|]. intros [g i] s1 sg1 (I1 & E1 & T1) Hgi. cbn [fst snd] in *. cbn [bind wp ret]. intros C.
  apply HQ; [|exact E1|].
  - split; [exact (proj1 I1)|split; [exact C|]]. cbn [guard ignore one upd_globals gsem]. split; [exact Hgi|reflexivity].
  - eapply tvalid_mono; [apply tvalid_cur; exact I|exact (proj1 I)|exact (proj1 I1)|exact E1].
Qed.
Lemma add_guard_v_TOK cnd s sg : Inv s sg -> TOK (add_guard_v c cnd) s sg (fun t s' sg' => tvalid t s' sg').
Proof.
  intros I. unfold add_guard_v. destruct cnd; try apply TOK_raise; try (apply add_guard_TOK; exact I).
  destruct (z =? 0); [apply TOK_raise|]. destruct (z =? 1); [|apply TOK_raise].
  intros Q HQ. unfold get. cbn [bind wp ret]. apply HQ; [exact I|apply ext_refl|apply tvalid_cur; exact I].
Qed.
Lemma bnot_v_TOK cnd s sg : Inv s sg -> TOK (bnot_v c cnd) s sg (fun _ _ _ => True).
Proof. intros I. unfold bnot_v. destruct cnd; apply TOK_lift; try exact I; first [apply OK_mkbool|apply OK_op2]. Qed.
Lemma ite1_TOK cnd t f s sg : Inv s sg -> TOK (ite1 c cnd t f) s sg (fun _ _ _ => True).
Proof.
  intros I. unfold ite1. eapply TOK_bind; [apply TOK_lift; [apply OK_ite|exact I]|]. intros v s1 sg1 I1 E1 _.
  apply TOK_lift; [apply OK_name_val|exact I1].
Qed.
Lemma ctx_enter_TOK k vals cnd nodef icond s sg : Inv s sg -> TOK (ctx_enter c k vals cnd nodef icond) s sg (fun cx s' sg' => tvalid (borig cx) s' sg').
Proof.
  intros I. unfold ctx_enter. eapply TOK_bind; [apply add_guard_v_TOK; exact I|]. intros orig s1 sg1 I1 E1 V1.
  apply TOK_ret; [exact I1|exact V1].
Qed.
Lemma merge_nodef_TOK cnd vals : forall nodef s sg, Inv s sg -> TOK (merge_nodef c cnd vals nodef) s sg (fun _ _ _ => True).
Proof.
  induction nodef as [|[nm old] rest IH]; intros s sg I; cbn [merge_nodef]; [apply TOK_ret; [exact I|exact Logic.I]|].
  destruct (dget vals nm); [|apply TOK_raise]. eapply TOK_bind; [apply ite1_TOK; exact I|]. intros v s1 sg1 I1 E1 _.
  eapply TOK_bind; [apply IH; exact I1|]. intros r s2 sg2 I2 E2 _. apply TOK_ret; [exact I2|exact Logic.I].
Qed.
Lemma merge_bak_TOK cnd bak : forall todo acc s sg, Inv s sg -> TOK (merge_bak c cnd bak todo acc) s sg (fun _ _ _ => True).
Proof.
  induction todo as [|[nm cur] rest IH]; intros acc s sg I; cbn [merge_bak]; [apply TOK_ret; [exact I|exact Logic.I]|].
  destruct (dget bak nm); [|apply TOK_raise]. eapply TOK_bind; [apply ite1_TOK; exact I|]. intros v s1 sg1 I1 E1 _. apply IH. exact I1.
Qed.
Lemma ctx_exit_TOK cx vals s sg : Inv s sg -> tvalid (borig cx) s sg -> TOK (ctx_exit c cx vals) s sg (fun _ _ _ => True).
Proof.
  intros I V. unfold ctx_exit. eapply TOK_bind; [apply restore_guard_TOK; assumption|]. intros _ s1 sg1 I1 E1 _.
  eapply TOK_bind.
  - destruct (bnodef cx); [apply merge_nodef_TOK; exact I1|apply TOK_ret; [exact I1|exact Logic.I]].
  - intros nodef s2 sg2 I2 E2 _. eapply TOK_bind; [apply merge_bak_TOK; exact I2|]. intros vals2 s3 sg3 I3 E3 _.
    destruct (bk cx); [apply TOK_ret; [exact I3|exact Logic.I]|]. destruct nodef; [apply TOK_ret; [exact I3|exact Logic.I]|apply TOK_raise].
Qed.
Lemma ctx_while_TOK cx vals nw s sg : Inv s sg -> tvalid (borig cx) s sg ->
  TOK (ctx_while c cx vals nw) s sg (fun r s' sg' => tvalid (borig (fst r)) s' sg').
Proof.
  intros I V. unfold ctx_while. eapply TOK_bind; [apply ctx_exit_TOK; assumption|]. intros vn s1 sg1 I1 E1 _.
  eapply TOK_bind; [apply TOK_lift; [apply OK_op2|exact I1]|]. intros cc s2 sg2 I2 E2 _.
  eapply TOK_bind; [apply ctx_enter_TOK; exact I2|]. intros cx' s3 sg3 I3 E3 V3. apply TOK_ret; [exact I3|exact V3].
Qed.
Lemma name_store_TOK b d v s sg : Inv s sg -> SV (bstack b) s sg -> TOK (name_store b d v) s sg (fun b' s' sg' => SV (bstack b') s' sg').
Proof.
  intros I V. unfold name_store. eapply TOK_bind; [apply TOK_lift; [apply OK_name_val|exact I]|]. intros v' s1 sg1 I1 E1 _.
  eapply TOK_bind; [apply TOK_lift; [apply OK_emit_out_val|exact I1]|]. intros _ s2 sg2 I2 E2 _.
  apply TOK_ret; [exact I2|]. cbn [bstack with_regs]. eapply SV_mono; [exact V|exact (proj1 I)|exact (proj1 I2)|eapply ext_trans; eauto].
Qed.

Fixpoint noign (st : stmt) : bool :=
  match st with
  | SIgnore _ => false
  | SOIf _ t es e => forallb noign t && forallb (fun x => forallb noign (fst (fst x)) && forallb noign (snd x)) es
                     && match e with Some b => forallb noign b | None => true end
  | SOWhile cb _ _ b => forallb noign cb && forallb noign b
  | SOFor _ _ _ _ _ b => forallb noign b
  | _ => true
  end.
Definition SVP (b' : bst) (s' : gst) (sg' : store) : Prop := SV (bstack b') s' sg'.

Lemma plain_TOK st b s sg : Inv s sg -> SV (bstack b) s sg ->
  TOK (r <- lift (gen_stmt c st (bregs b)) ;; ret (with_regs b r)) s sg SVP.
Proof.
  intros I V. eapply TOK_bind; [apply TOK_lift; [apply OK_gen_stmt|exact I]|]. intros r s1 sg1 I1 E1 _.
  apply TOK_ret; [exact I1|]. unfold SVP. cbn [bstack with_regs]. exact (SV_mono _ _ _ _ _ V (proj1 I) (proj1 I1) E1).
Qed.

Lemma SV_step stk s sg s' sg' : SV stk s sg -> Inv s sg -> Inv s' sg' -> ext sg sg' -> SV stk s' sg'.
Proof. intros V I I' E. exact (SV_mono _ _ _ _ _ V (proj1 I) (proj1 I') E). Qed.

(* a block of statements: [blk] inside gen_top is an anonymous nested fixpoint; IH is the outer induction hypothesis *)
Ltac solve_blk IH :=
  let IHb := fresh "IHb" in let l0 := fresh "l0" in let b0 := fresh "bq" in let s0 := fresh "sq" in let sg0 := fresh "sgq" in
  let N0 := fresh "Nq" in let I0 := fresh "Iq" in let V0 := fresh "Vq" in let st1 := fresh "stq" in let l1 := fresh "lq" in
  let N1 := fresh "Nq" in let N2 := fresh "Nq" in let b1 := fresh "bq" in let s1 := fresh "sq" in let sg1 := fresh "sgq" in
  let I1 := fresh "Iq" in let E1 := fresh "Eq" in let V1 := fresh "Vq" in
  fix IHb 1; intros l0 b0 s0 sg0 N0 I0 V0; destruct l0 as [|st1 l1];
  [ apply TOK_ret; [exact I0|exact V0]
  | cbn [forallb] in N0; apply andb_prop in N0; destruct N0 as [N1 N2]; lazy beta iota;
    apply TOK_bind with (P := SVP); [apply IH; assumption|]; intros b1 s1 sg1 I1 E1 V1; apply IHb; assumption ].

Lemma gen_top_TOK : forall st b s sg, noign st = true -> Inv s sg -> SV (bstack b) s sg -> TOK (gen_top c st b) s sg SVP.
Proof.
  fix IH 1. intros st b s sg N I V.
  destruct st; cbn [gen_top]; try (apply plain_TOK; assumption).
  - discriminate N.
  - (* SBSet *) eapply TOK_bind; [apply TOK_lift; [apply OK_name_val|exact I]|]. intros v s1 sg1 I1 E1 _.
    apply TOK_ret; [exact I1|]. unfold SVP. cbn [bstack with_vals with_regs]. exact (SV_step _ _ _ _ _ V I I1 E1).
  - (* SBGet *) destruct (dget (bvals b) nm); [apply name_store_TOK; assumption|apply TOK_raise].
  - (* SBSetIdx *) destruct (dget (bvals b) nm); [|apply TOK_raise].
    eapply TOK_bind; [apply TOK_lift; [apply OK_name_val|exact I]|]. intros v s1 sg1 I1 E1 _.
    destruct (upd_path p0 path v); [|apply TOK_raise].
    apply TOK_ret; [exact I1|]. unfold SVP. cbn [bstack with_vals with_regs]. exact (SV_step _ _ _ _ _ V I I1 E1).
  - (* SBGetIdx *) destruct (dget (bvals b) nm); [|apply TOK_raise]. destruct (get_path p0 path); [apply name_store_TOK; assumption|apply TOK_raise].
  - (* SBArrSet *) destruct (dget (bvals b) nm) as [v0|]; [|apply TOK_raise]. destruct v0; try apply TOK_raise. destruct row; [apply TOK_raise|].
    eapply TOK_bind; [apply TOK_lift; [apply OK_arr_set|exact I]|]. intros l' s1 sg1 I1 E1 _.
    eapply TOK_bind; [apply TOK_lift; [apply OK_name_val|exact I1]|]. intros v s2 sg2 I2 E2 _.
    apply TOK_ret; [exact I2|]. unfold SVP. cbn [bstack with_vals with_regs].
    exact (SV_step _ _ _ _ _ (SV_step _ _ _ _ _ V I I1 E1) I1 I2 E2).
  - (* SOIf *)
    cbn [noign] in N. apply andb_prop in N. destruct N as [N Nel]. apply andb_prop in N. destruct N as [Nt Nes].
    eapply TOK_bind; [apply bnot_v_TOK; exact I|]. intros ic s1 sg1 I1 E1 _.
    eapply TOK_bind; [apply ctx_enter_TOK; exact I1|]. intros cx s2 sg2 I2 E2 Vcx.
    assert (E02 : ext sg sg2) by (eapply ext_trans; eauto).
    assert (V2 : SV (bstack (with_stack b (cx :: bstack b))) s2 sg2).
    { cbn [bstack with_stack]. constructor; [exact Vcx|exact (SV_step _ _ _ _ _ V I I2 E02)]. }
    apply TOK_bind with (P := SVP).
    { generalize V2; generalize I2; generalize Nt; generalize sg2; generalize s2; generalize (with_stack b (cx :: bstack b)); generalize thenb. solve_blk IH. }
    intros b1 s3 sg3 I3 E3 V3. unfold SVP in V3.
    apply TOK_bind with (P := SVP).
    { generalize V3; generalize I3; generalize Nes; generalize sg3; generalize s3; generalize b1; generalize elifs.
      fix IHc 1. intros es b0 s0 sg0 N0 I0 V0. destruct es as [|[[condb cr] body] es'].
      - apply TOK_ret; [exact I0|exact V0].
      - cbn [forallb fst snd] in N0. apply andb_prop in N0. destruct N0 as [N0 Nes']. apply andb_prop in N0. destruct N0 as [Ncb Nbody].
        lazy beta iota. destruct (bstack b0) as [|cx0 rest] eqn:Eb; [apply TOK_raise|].
        inversion V0 as [|? ? Vcx0 Vrest]; subst.
        eapply TOK_bind; [apply ctx_exit_TOK; assumption|]. intros vn s4 sg4 I4 E4 _.
        assert (V4 : SV (bstack (with_stack (with_vals b0 (fst vn)) rest)) s4 sg4).
        { cbn [bstack with_stack]. exact (SV_step _ _ _ _ _ Vrest I0 I4 E4). }
        apply TOK_bind with (P := SVP).
        { generalize V4; generalize I4; generalize Ncb; generalize sg4; generalize s4; generalize (with_stack (with_vals b0 (fst vn)) rest); generalize condb. solve_blk IH. }
        intros bc s5 sg5 I5 E5 V5. unfold SVP in V5.
        destruct (bicond cx0) as [ic0|]; [|apply TOK_raise].
        eapply TOK_bind; [apply bnot_v_TOK; exact I5|]. intros nn s6 sg6 I6 E6 _.
        eapply TOK_bind; [apply TOK_lift; [apply OK_op2|exact I6]|]. intros nwic s7 sg7 I7 E7 _.
        eapply TOK_bind; [apply TOK_lift; [apply OK_op2|exact I7]|]. intros en s8 sg8 I8 E8 _.
        eapply TOK_bind; [apply ctx_enter_TOK; exact I8|]. intros cx1 s9 sg9 I9 E9 Vcx1.
        assert (E59 : ext sg5 sg9) by (eapply ext_trans; [exact E6|eapply ext_trans; [exact E7|eapply ext_trans; eauto]]).
        assert (V9 : SV (bstack (with_stack bc (cx1 :: bstack bc))) s9 sg9).
        { cbn [bstack with_stack]. constructor; [exact Vcx1|exact (SV_step _ _ _ _ _ V5 I5 I9 E59)]. }
        apply TOK_bind with (P := SVP).
        { generalize V9; generalize I9; generalize Nbody; generalize sg9; generalize s9; generalize (with_stack bc (cx1 :: bstack bc)); generalize body. solve_blk IH. }
        intros bb s10 sg10 I10 E10 V10. apply IHc; assumption. }
    intros b2 s4 sg4 I4 E4 V4. unfold SVP in V4.
    apply TOK_bind with (P := SVP).
    { destruct elseb as [body|]; [|apply TOK_ret; [exact I4|exact V4]].
      destruct (bstack b2) as [|cx0 rest] eqn:Eb; [apply TOK_raise|]. inversion V4 as [|? ? Vcx0 Vrest]; subst.
      eapply TOK_bind; [apply ctx_exit_TOK; assumption|]. intros vn s5 sg5 I5 E5 _.
      destruct (bicond cx0) as [ic0|]; [|apply TOK_raise].
      eapply TOK_bind; [apply ctx_enter_TOK; exact I5|]. intros cx1 s6 sg6 I6 E6 Vcx1.
      assert (V6 : SV (bstack (with_stack (with_vals b2 (fst vn)) (cx1 :: rest))) s6 sg6).
      { cbn [bstack with_stack]. constructor; [exact Vcx1|]. refine (SV_step _ _ _ _ _ Vrest I4 I6 _). eapply ext_trans; eauto. }
      generalize V6; generalize I6; generalize Nel; generalize sg6; generalize s6; generalize (with_stack (with_vals b2 (fst vn)) (cx1 :: rest)); generalize body. solve_blk IH. }
    intros b3 s5 sg5 I5 E5 V5. unfold SVP in V5.
    destruct (bstack b3) as [|cx0 rest] eqn:Eb; [apply TOK_raise|]. inversion V5 as [|? ? Vcx0 Vrest]; subst.
    eapply TOK_bind; [apply ctx_exit_TOK; assumption|]. intros vn s6 sg6 I6 E6 _.
    destruct (snd vn); [|destruct (bicond cx0); [apply TOK_raise|]];
      (apply TOK_ret; [exact I6|]; unfold SVP; cbn [bstack with_stack]; exact (SV_step _ _ _ _ _ Vrest I5 I6 E6)).
  - (* SOWhile *)
    cbn [noign] in N. apply andb_prop in N. destruct N as [Ncb Nbody].
    apply TOK_bind with (P := SVP).
    { generalize V; generalize I; generalize Ncb; generalize sg; generalize s; generalize b; generalize condb. solve_blk IH. }
    intros bc s1 sg1 I1 E1 V1. unfold SVP in V1.
    eapply TOK_bind; [apply ctx_enter_TOK; exact I1|]. intros cx s2 sg2 I2 E2 Vcx.
    assert (V2 : SV (bstack (with_stack bc (cx :: bstack bc))) s2 sg2).
    { cbn [bstack with_stack]. constructor; [exact Vcx|exact (SV_step _ _ _ _ _ V1 I1 I2 E2)]. }
    apply TOK_bind with (P := SVP).
    { generalize V2; generalize I2; generalize sg2; generalize s2; generalize (with_stack bc (cx :: bstack bc)); generalize iters.
      fix IHl 1. intros k b0 s0 sg0 I0 V0. destruct k as [|k']; [apply TOK_ret; [exact I0|exact V0]|].
      apply TOK_bind with (P := SVP).
      { generalize V0; generalize I0; generalize Nbody; generalize sg0; generalize s0; generalize b0; generalize body. solve_blk IH. }
      intros b1 s3 sg3 I3 E3 V3. unfold SVP in V3.
      apply TOK_bind with (P := SVP).
      { generalize V3; generalize I3; generalize Ncb; generalize sg3; generalize s3; generalize b1; generalize condb. solve_blk IH. }
      intros b2 s4 sg4 I4 E4 V4. unfold SVP in V4.
      destruct (bstack b2) as [|cx0 rest] eqn:Eb; [apply TOK_raise|]. inversion V4 as [|? ? Vcx0 Vrest]; subst.
      eapply TOK_bind; [apply ctx_while_TOK; assumption|]. intros r s5 sg5 I5 E5 Vr.
      apply IHl; [exact I5|]. cbn [bstack with_stack]. constructor; [exact Vr|exact (SV_step _ _ _ _ _ Vrest I4 I5 E5)]. }
    intros bl s3 sg3 I3 E3 V3. unfold SVP in V3.
    destruct (bstack bl) as [|cx0 rest] eqn:Eb; [apply TOK_raise|]. inversion V3 as [|? ? Vcx0 Vrest]; subst.
    eapply TOK_bind; [apply ctx_exit_TOK; assumption|]. intros vn s4 sg4 I4 E4 _.
    apply TOK_ret; [exact I4|]. unfold SVP. cbn [bstack with_stack]. exact (SV_step _ _ _ _ _ Vrest I3 I4 E4).
  - (* SBreakIf *)
    destruct (bstack b) as [|cx rest] eqn:Eb; [apply TOK_raise|]. inversion V as [|? ? Vcx Vrest]; subst.
    eapply TOK_bind; [apply bnot_v_TOK; exact I|]. intros nc s1 sg1 I1 E1 _.
    eapply TOK_bind; [apply ctx_while_TOK; [exact I1|exact (tvalid_mono _ _ _ _ _ Vcx (proj1 I) (proj1 I1) E1)]|]. intros r s2 sg2 I2 E2 Vr.
    apply TOK_ret; [exact I2|]. unfold SVP. cbn [bstack with_stack]. constructor; [exact Vr|].
    refine (SV_step _ _ _ _ _ Vrest I I2 _). eapply ext_trans; eauto.
  - (* SOFor *)
    cbn [noign] in N. destruct (rget (bregs b) stop); try apply TOK_raise.
    eapply TOK_bind; [apply TOK_lift; [apply OK_op2|exact I]|]. intros c0 s1 sg1 I1 E1 _.
    eapply TOK_bind; [apply ctx_enter_TOK; exact I1|]. intros cx s2 sg2 I2 E2 Vcx.
    assert (V2 : SV (bstack (with_stack b (cx :: bstack b))) s2 sg2).
    { cbn [bstack with_stack]. constructor; [exact Vcx|]. refine (SV_step _ _ _ _ _ V I I2 _). eapply ext_trans; eauto. }
    apply TOK_bind with (P := SVP).
    { generalize V2; generalize I2; generalize sg2; generalize s2; generalize (with_stack b (cx :: bstack b)); generalize (Z.to_nat (maxv - start - 1)); generalize start. intros i0 k0; revert k0 i0.
      fix IHl 1. intros k i b0 s0 sg0 I0 V0. destruct k as [|k']; lazy beta iota.
      - apply TOK_bind with (P := SVP); [apply name_store_TOK; assumption|]. intros b1 s3 sg3 I3 E3 V3. unfold SVP in V3.
        apply TOK_bind with (P := SVP).
        { generalize V3; generalize I3; generalize N; generalize sg3; generalize s3; generalize b1; generalize body. solve_blk IH. }
        intros b2 s4 sg4 I4 E4 V4. apply TOK_ret; [exact I4|exact V4].
      - apply TOK_bind with (P := SVP); [apply name_store_TOK; assumption|]. intros b1 s3 sg3 I3 E3 V3. unfold SVP in V3.
        apply TOK_bind with (P := SVP).
        { generalize V3; generalize I3; generalize N; generalize sg3; generalize s3; generalize b1; generalize body. solve_blk IH. }
        intros b2 s4 sg4 I4 E4 V4. unfold SVP in V4.
        eapply TOK_bind; [apply TOK_lift; [apply OK_op2|exact I4]|]. intros cj s5 sg5 I5 E5 _.
        destruct (bstack b2) as [|cx0 rest] eqn:Eb; [apply TOK_raise|]. inversion V4 as [|? ? Vcx0 Vrest]; subst.
        eapply TOK_bind; [apply ctx_while_TOK; [exact I5|exact (tvalid_mono _ _ _ _ _ Vcx0 (proj1 I4) (proj1 I5) E5)]|]. intros r s6 sg6 I6 E6 Vr.
        apply IHl; [exact I6|]. cbn [bstack with_stack]. constructor; [exact Vr|].
        refine (SV_step _ _ _ _ _ Vrest I4 I6 _). eapply ext_trans; eauto. }
    intros bl s3 sg3 I3 E3 V3. unfold SVP in V3.
    apply TOK_bind with (P := fun _ _ _ => True).
    { destruct check; [|apply TOK_ret; [exact I3|exact Logic.I]].
      destruct (bstack bl) as [|cx0 rest]; [apply TOK_raise|].
      eapply TOK_bind; [apply TOK_lift; [apply OK_op2|exact I3]|]. intros cl s4 sg4 I4 E4 _.
      eapply TOK_bind; [apply TOK_lift; [apply OK_op2|exact I4]|]. intros a s5 sg5 I5 E5 _.
      destruct a; try apply TOK_raise. apply TOK_lift; [apply OK_assert_zero; exact F|exact I5]. }
    intros _ s4 sg4 I4 E4 _.
    destruct (bstack bl) as [|cx0 rest] eqn:Eb; [apply TOK_raise|]. inversion V3 as [|? ? Vcx0 Vrest]; subst.
    eapply TOK_bind; [apply ctx_exit_TOK; [exact I4|exact (tvalid_mono _ _ _ _ _ Vcx0 (proj1 I3) (proj1 I4) E4)]|]. intros vn s5 sg5 I5 E5 _.
    apply TOK_ret; [exact I5|]. unfold SVP. cbn [bstack with_stack]. refine (SV_step _ _ _ _ _ Vrest I3 I5 _). eapply ext_trans; eauto.
Qed.

Lemma gen_stmts_TOK : forall pr b s sg, forallb noign pr = true -> Inv s sg -> SV (bstack b) s sg -> TOK (gen_stmts c pr b) s sg SVP.
Proof.
  induction pr as [|s1 pr IH]; intros b s sg N I V; cbn [gen_stmts]; [apply TOK_ret; [exact I|exact V]|].
  cbn [forallb] in N. apply andb_prop in N. destruct N as [N1 N2].
  apply TOK_bind with (P := SVP); [apply gen_top_TOK; assumption|]. intros b1 s1' sg1 I1 E1 V1. apply IH; assumption.
Qed.
End P.
