From Coq Require Import ZArith List Bool Lia Znumtheory.
From PySnark.Model Require Import Lc.
From PySnark.Base Require Import FieldZ Fermat.
Import ListNotations.
Open Scope Z_scope.

(* ---- the inverse function ---- *)
Theorem invert_correct p x : prime p -> x mod p <> 0 ->
  exists y, invert x p = Some y /\ (x * y) mod p = 1 /\ 0 < y < p.
Proof.
  intros Hp Hx. pose proof (prime_ge_2 _ Hp) as H2. unfold invert.
  destruct (Z.eqb_spec p 2) as [->|Hn2].
  - assert (E : x mod 2 = 1) by (pose proof (Z.mod_pos_bound x 2); lia).
    rewrite E. simpl. exists 1. split; [reflexivity|]. split; [rewrite Z.mul_1_r; exact E|lia].
  - pose proof (finv_correct p x Hp Hx) as F. unfold finv in F.
    set (y := Zpow_facts.Zpow_mod x (p - 2) p) in *.
    assert (Hy : 0 <= y < p) by (unfold y; rewrite Zpow_facts.Zpow_mod_correct by lia; apply Z.mod_pos_bound; lia).
    destruct (Z.eqb_spec y 0) as [E|NE].
    + rewrite E, Z.mul_0_r, Z.mod_0_l in F by lia. discriminate.
    + exists y. split; [reflexivity|]. split; [exact F|lia].
Qed.

Theorem invert_zero p x : 2 < p -> x mod p = 0 -> invert x p = None.
Proof.
  intros Hp Hx. unfold invert. destruct (Z.eqb_spec p 2); [lia|].
  rewrite Zpow_facts.Zpow_mod_correct by lia.
  assert (E : x ^ (p - 2) mod p = 0).
  { replace (p - 2) with (Z.succ (p - 3)) by lia. rewrite Z.pow_succ_r by lia.
    rewrite Z.mul_mod, Hx by lia. rewrite Z.mul_0_l. apply Z.mod_0_l. lia. }
  rewrite E. reflexivity.
Qed.
