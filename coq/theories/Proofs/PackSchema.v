(* pysnark.pack on plain structured values (C16): for EVERY schema built from booleans, bounded integers, non-empty lists and
   repetitions, and every plain value fitting the schema, pack gives exactly bitlen(schema) bits and unpack of those bits -- at any
   offset inside a longer bit list -- gives the value back, allocating nothing and emitting nothing. *)
From Coq Require Import ZArith List Bool Lia.
From PySnark.Base Require Import FieldZ Bits.
From PySnark.Model Require Import Lc Sym Good Gadgets Api Prog.
From PySnark.Proofs Require Import PackCore.
Import ListNotations.
Open Scope Z_scope.

Section PS.
Context {p : Z}.
Variable c : cfg.
Local Notation gst := (@Gadgets.gst p).
Local Notation pyval := (Api.pyval p).
Local Notation G := (@Gadgets.G p).

(* a pure computation: returns a, leaves the state alone, emits nothing *)
Definition pure {A} (m : G A) (a : A) : Prop := forall s : gst, run m s = (inl a, s, []).
Lemma pure_ret A (a : A) : pure (ret a) a. Proof. intros s. reflexivity. Qed.
Lemma pure_bind A B (m : G A) (f : A -> G B) a b : pure m a -> pure (f a) b -> pure (bind m f) b.
Proof. intros Hm Hf s. rewrite (run_bind_pure _ _ _ _ _ _ _ (Hm s)). apply Hf. Qed.

(* ---- the window a bounded-integer field reads ---- *)
Lemma nth_skipn {A} (d : A) : forall n (l : list A) i, nth i (skipn n l) d = nth (n + i) l d.
Proof. induction n as [|n IH]; intros l i; [reflexivity|]. destruct l; [destruct i; reflexivity|]. cbn [skipn Nat.add nth]. apply IH. Qed.
Lemma nth_firstn {A} (d : A) : forall k (l : list A) i, (i < k)%nat -> nth i (firstn k l) d = nth i l d.
Proof. induction k as [|k IH]; intros l i Hi; [lia|]. destruct l; [destruct i; reflexivity|]. destruct i; [reflexivity|]. cbn [firstn nth]. apply IH. lia. Qed.
Lemma unpack_intmod_window m (bits : list pyval) pos : (0 < bitlen_of m)%nat -> (pos + bitlen_of m <= length bits)%nat ->
  unpack_v c (KIntMod m) bits pos = unpack_v c (KIntMod m) (firstn (bitlen_of m) (skipn pos bits)) 0.
Proof.
  intros Hk Hl. cbn [unpack_v]. destruct (Nat.eqb_spec (bitlen_of m) 0); [lia|]. unfold nth_bits.
  assert (Lw : length (firstn (bitlen_of m) (skipn pos bits)) = bitlen_of m) by (rewrite firstn_length, skipn_length; lia).
  rewrite Lw. replace (Nat.ltb pos (length bits)) with true by (symmetry; apply Nat.ltb_lt; lia).
  replace (Nat.ltb 0 (bitlen_of m)) with true by (symmetry; apply Nat.ltb_lt; lia).
  cbn [bind ret skipn]. rewrite (nth_firstn PNone) by lia. rewrite nth_skipn, Nat.add_0_r.
  rewrite firstn_firstn, Nat.min_id. reflexivity.
Qed.
Lemma skipn_app_exact {A} (l1 l2 : list A) : skipn (length l1) (l1 ++ l2) = l2.
Proof. induction l1 as [|a l1 IH]; [reflexivity|exact IH]. Qed.
Lemma firstn_app_exact {A} (l1 l2 : list A) : firstn (length l1) (l1 ++ l2) = l1.
Proof. induction l1 as [|a l1 IH]; [reflexivity|cbn [length app firstn]; rewrite IH; reflexivity]. Qed.
Lemma py_bits_length z k : length (py_bits (p:=p) z k) = k.
Proof. unfold py_bits. rewrite map_length, seq_length. reflexivity. Qed.
Lemma unpack_intmod_at m z pre post : 0 <= z < m ->
  pure (unpack_v c (KIntMod m) (pre ++ py_bits z (bitlen_of m) ++ post) (length pre)) (PInt z).
Proof.
  intros Hz s. destruct (Nat.eq_dec (bitlen_of m) 0) as [E0|E0].
  - (* zero-width field *) destruct (pack_unpack_intmod c m z s Hz) as [_ U]. rewrite E0 in U. cbn [unpack_v] in *. rewrite E0 in *. cbn [Nat.eqb] in *. exact U.
  - rewrite unpack_intmod_window; [|lia|rewrite !app_length, py_bits_length; lia].
    rewrite skipn_app_exact. rewrite <- (py_bits_length z (bitlen_of m)) at 1. rewrite firstn_app_exact.
    exact (proj2 (pack_unpack_intmod c m z s Hz)).
Qed.

(* ---- values fitting a schema ---- *)
Fixpoint fits (k : pschema) (v : pyval) {struct k} : Prop :=
  match k with
  | KBool => v = PInt 0 \/ v = PInt 1
  | KIntMod m => exists z, v = PInt z /\ 0 <= z < m
  | KList l => exists vs, v = PList vs /\ l <> [] /\
               (fix all2 (ks : list pschema) (vs : list pyval) : Prop :=
                  match ks, vs with [], [] => True | k1 :: ks', v1 :: vs' => fits k1 v1 /\ all2 ks' vs' | _, _ => False end) l vs
  | KRepeat s t => exists vs, v = PList vs /\ length vs = t /\ (0 < t)%nat /\
                   (fix all (vs : list pyval) : Prop := match vs with [] => True | v1 :: vs' => fits s v1 /\ all vs' end) vs
  end.

(* what a schema has to satisfy *)
Definition good (k : pschema) : Prop := forall v, fits k v ->
  exists bits, pure (pack_v k v) (PList bits) /\ length bits = sch_bitlen k /\
               forall pre post, pure (unpack_v c k (pre ++ bits ++ post) (length pre)) v.

Lemma good_bool : good KBool.
Proof.
  intros v [-> | ->]; cbn [pack_v]; eexists; (split; [intros s; reflexivity|split; [reflexivity|]]); intros pre post s; cbn [unpack_v]; unfold nth_bits;
    rewrite !app_length; cbn [length];
    match goal with |- context [Nat.ltb ?a ?b] => destruct (Nat.ltb_spec a b); [|lia] end;
    rewrite app_nth2 by lia; rewrite Nat.sub_diag; reflexivity.
Qed.
Lemma good_intmod m : good (KIntMod m).
Proof.
  intros v [z [-> Hz]]. exists (py_bits z (bitlen_of m)). split; [intros s; exact (proj1 (pack_unpack_intmod c m z s Hz))|]. split; [apply py_bits_length|].
  intros pre post. apply unpack_intmod_at. exact Hz.
Qed.

(* concatenating the packed parts *)
Lemma concat_lists_pure : forall (parts : list (list pyval)) (acc : list pyval),
  pure (fold_left (fun (a : G pyval) y => x <- a ;; match x, y with PList p1, PList p2 => ret (PList (p1 ++ p2)) | _, _ => static_raise TypeError end)
                  (map (@PList p) parts) (ret (PList acc))) (PList (acc ++ concat parts)).
Proof.
  induction parts as [|b parts IH]; intros acc; cbn [map fold_left concat]; [rewrite app_nil_r; apply pure_ret|].
  cbn [bind ret]. rewrite app_assoc. apply IH.
Qed.
Lemma concat_lists_ok (b0 : list pyval) (parts : list (list pyval)) : pure (concat_lists (map (@PList p) (b0 :: parts))) (PList (concat (b0 :: parts))).
Proof. unfold concat_lists. cbn [map concat]. apply concat_lists_pure. Qed.

(* one element: its bits, and that they unpack at any offset *)
Definition elem_ok (k : pschema) (v : pyval) (bits : list pyval) : Prop :=
  pure (pack_v k v) (PList bits) /\ length bits = sch_bitlen k /\ forall pre post, pure (unpack_v c k (pre ++ bits ++ post) (length pre)) v.
Inductive oks : list pschema -> list pyval -> list (list pyval) -> Prop :=
| oks_nil : oks [] [] []
| oks_cons k v b ks vs bss : elem_ok k v b -> oks ks vs bss -> oks (k :: ks) (v :: vs) (b :: bss).

Lemma pack_list_pure : forall ks vs bss, oks ks vs bss ->
  pure ((fix go (ks : list pschema) (vs : list pyval) : G (list pyval) :=
           match ks, vs with k1 :: ks', v1 :: vs' => a <- pack_v k1 v1 ;; r <- go ks' vs' ;; ret (a :: r) | _, _ => ret [] end) ks vs) (map (@PList p) bss).
Proof.
  induction 1 as [|k v b ks vs bss [Hp _] _ IH]; [apply pure_ret|]. cbn [map].
  eapply pure_bind; [exact Hp|]. eapply pure_bind; [exact IH|]. apply pure_ret.
Qed.
Lemma unpack_list_pure : forall ks vs bss, oks ks vs bss -> forall (bits pre post : list pyval), bits = pre ++ concat bss ++ post ->
  pure ((fix go (ks : list pschema) (pos : nat) : G (list pyval) :=
           match ks with [] => ret [] | k1 :: ks' => a <- unpack_v c k1 bits pos ;; r <- go ks' (pos + sch_bitlen k1)%nat ;; ret (a :: r) end) ks (length pre)) vs.
Proof.
  induction 1 as [|k v b ks vs bss (_ & Hl & Hu) _ IH]; intros bits pre post E; [apply pure_ret|].
  cbn [concat] in E.
  eapply pure_bind.
  { rewrite E. rewrite <- app_assoc. apply Hu. }
  eapply pure_bind; [|apply pure_ret].
  replace (length pre + sch_bitlen k)%nat with (length (pre ++ b)) by (rewrite app_length; lia).
  apply (IH bits (pre ++ b) post). rewrite E. rewrite <- !app_assoc. reflexivity.
Qed.

(* every element of a repetition has the same width *)
Lemma concat_length_const (bss : list (list pyval)) w : Forall (fun b => length b = w) bss -> length (concat bss) = (length bss * w)%nat.
Proof. induction 1 as [|b bss Hb _ IH]; [reflexivity|]. cbn [concat length]. rewrite app_length, Hb, IH. lia. Qed.
Inductive roks (k : pschema) : list pyval -> list (list pyval) -> Prop :=
| roks_nil : roks k [] []
| roks_cons v b vs bss : elem_ok k v b -> roks k vs bss -> roks k (v :: vs) (b :: bss).
Lemma pack_repeat_pure k : forall vs bss, roks k vs bss -> pure (mapM (pack_v k) vs) (map (@PList p) bss).
Proof.
  induction 1 as [|v b vs bss [Hp _] _ IH]; [apply pure_ret|]. cbn [mapM map].
  eapply pure_bind; [exact Hp|]. eapply pure_bind; [exact IH|]. apply pure_ret.
Qed.
Lemma roks_widths k vs bss : roks k vs bss -> Forall (fun b => length b = sch_bitlen k) bss /\ length bss = length vs.
Proof. induction 1 as [|v b vs bss (_ & Hl & _) _ [IH1 IH2]]; [split; [constructor|reflexivity]|]. split; [constructor; assumption|cbn [length]; congruence]. Qed.
Lemma unpack_repeat_pure k : forall vs bss, roks k vs bss -> forall (bits pre post : list pyval) (P a : nat),
  bits = pre ++ concat bss ++ post -> length pre = (P + a * sch_bitlen k)%nat ->
  pure (mapM (fun i => unpack_v c k bits (P + i * sch_bitlen k)%nat) (seq a (length vs))) vs.
Proof.
  induction 1 as [|v b vs bss (_ & Hl & Hu) _ IH]; intros bits pre post P a E Lp; [apply pure_ret|].
  cbn [length seq mapM concat] in *.
  eapply pure_bind.
  { rewrite <- Lp, E. rewrite <- app_assoc. apply Hu. }
  eapply pure_bind; [|apply pure_ret].
  apply (IH bits (pre ++ b) post P (S a)); [rewrite E; rewrite <- !app_assoc; reflexivity|]. rewrite app_length, Lp, Hl. lia.
Qed.

Lemma all2_oks : forall l vs, Forall good l ->
  (fix all2 (ks : list pschema) (vs : list pyval) : Prop :=
     match ks, vs with [], [] => True | k1 :: ks', v1 :: vs' => fits k1 v1 /\ all2 ks' vs' | _, _ => False end) l vs ->
  exists bss, oks l vs bss.
Proof.
  induction l as [|k l IH]; intros vs Hg H; destruct vs as [|v vs]; try contradiction; [exists []; constructor|].
  destruct H as [Hv H]. inversion Hg as [|? ? Gk Gl]; subst. destruct (Gk v Hv) as (b & Hb). destruct (IH vs Gl H) as (bss & Ho).
  exists (b :: bss). constructor; assumption.
Qed.
Lemma oks_length : forall ks vs bss, oks ks vs bss -> length (concat bss) = fold_right (fun x acc => (sch_bitlen x + acc)%nat) 0%nat ks.
Proof. induction 1 as [|k v b ks vs bss (_ & Hl & _) _ IH]; [reflexivity|]. cbn [concat fold_right]. rewrite app_length, Hl, IH. reflexivity. Qed.

Lemma good_list l : Forall good l -> good (KList l).
Proof.
  intros Hg v (vs & -> & Hne & Hall). destruct (all2_oks l vs Hg Hall) as (bss & Ho).
  destruct bss as [|b0 bss]; [inversion Ho; subst; contradiction|].
  exists (concat (b0 :: bss)). split; [|split].
  - cbn [pack_v]. eapply pure_bind; [apply (pack_list_pure _ _ _ Ho)|]. apply concat_lists_ok.
  - rewrite (oks_length _ _ _ Ho). reflexivity.
  - intros pre post. cbn [unpack_v]. eapply pure_bind; [apply (unpack_list_pure _ _ _ Ho _ pre post eq_refl)|]. apply pure_ret.
Qed.

Lemma all_roks s : good s -> forall vs,
  (fix all (vs : list pyval) : Prop := match vs with [] => True | v1 :: vs' => fits s v1 /\ all vs' end) vs -> exists bss, roks s vs bss.
Proof.
  intros Gs. induction vs as [|v vs IH]; intros H; [exists []; constructor|]. destruct H as [Hv H].
  destruct (Gs v Hv) as (b & Hb). destruct (IH H) as (bss & Ho). exists (b :: bss). constructor; assumption.
Qed.
Lemma good_repeat s t : good s -> good (KRepeat s t).
Proof.
  intros Gs v (vs & -> & Lt & Ht & Hall). destruct (all_roks s Gs vs Hall) as (bss & Ho).
  destruct (roks_widths _ _ _ Ho) as [Hw Hn].
  destruct bss as [|b0 bss]; [cbn in Hn; lia|].
  exists (concat (b0 :: bss)). split; [|split].
  - cbn [pack_v]. eapply pure_bind; [apply (pack_repeat_pure _ _ _ Ho)|]. apply concat_lists_ok.
  - rewrite (concat_length_const _ _ Hw), Hn, Lt. cbn [sch_bitlen]. lia.
  - intros pre post. cbn [unpack_v]. eapply pure_bind; [|apply pure_ret]. rewrite <- Lt.
    apply (unpack_repeat_pure _ _ _ Ho _ pre post (length pre) 0%nat eq_refl). lia.
Qed.

(* every schema *)
Theorem all_schemas_good : forall k, good k.
Proof.
  fix IH 1. intros k. destruct k as [|m|l|s t].
  - apply good_bool.
  - apply good_intmod.
  - apply good_list. induction l as [|k l IHl]; constructor; [apply IH|exact IHl].
  - apply good_repeat. apply IH.
Qed.

(* the round trip *)
Theorem pack_unpack_schema k v (s : gst) : fits k v ->
  exists bits, run (pack_v k v) s = (inl (PList bits), s, []) /\ length bits = sch_bitlen k /\
               run (unpack_v c k bits 0) s = (inl v, s, []).
Proof.
  intros Hf. destruct (all_schemas_good k v Hf) as (bits & Hp & Hl & Hu). exists bits. split; [apply Hp|]. split; [exact Hl|].
  specialize (Hu [] [] s). cbn [app length] in Hu. rewrite app_nil_r in Hu. exact Hu.
Qed.
End PS.
