(* C17: the result pass of runtime.snark.  Outside guarded regions, the pass over the leaves of the returned structure allocates
   exactly one public output per secret-integer result, in order, emits exactly one constraint per output (the tie proved
   forced in AdvGadgets.lcval_forced), allocates no private variable, and leaves every other leaf alone. *)
From Coq Require Import ZArith List Bool Lia.
From PySnark.Base Require Import FieldZ.
From PySnark.Model Require Import Lc Sym Good Gadgets Api Prog.
From PySnark.Proofs Require Import Meta Adv PackCore.
Import ListNotations.
Open Scope Z_scope.

Section SC.
Context {p : Z}.
Local Notation gst := (@Gadgets.gst p).
Local Notation slc := (Sym.slc p).
Local Notation pyval := (Api.pyval p).

Lemma run_lcval (x : slc) (s : gst) u s' cs : guard s = None -> run (lcval x) s = (inl u, s', cs) ->
  npub s' = npub s + 1 /\ npriv s' = npriv s /\ guard s' = None /\ length (cons_of cs) = 1%nat /\
  exists rest, cs = CAlloc Pub (sval x) :: rest.
Proof.
  intros Hg R. unfold lcval, pubval, assert_zero, add_constraint, get, raise_if, emit, emitc in R. cbn [bind run] in R.
  destruct (vscopedb _ _ (sval x)); [|discriminate R]. cbn [guard upd_counters] in R. rewrite Hg in R. cbn [bind run] in R.
  destruct (bscopedb _ _ _); [|discriminate R]. destruct (bscopedb _ _ _); [|discriminate R].
  destruct (_ && _ && _); [|discriminate R]. inversion R; subst. cbn [npub npriv guard upd_counters cons_of flat_map app length].
  repeat split; try reflexivity; try assumption. eexists. reflexivity.
Qed.

Definition is_secret_int (v : pyval) : bool := match v with PLC _ => true | _ => false end.
Lemma rget_rset_other' (r : regs) a v l : l <> a -> rget (p:=p) (rset r a v) l = rget r l.
Proof. intros H. unfold rset. cbn [rget]. destruct (Nat.eqb_spec l a); [contradiction|reflexivity]. Qed.

Theorem res_pass_counts : forall ls (r : regs) (s : gst) r' s' cs, NoDup ls -> guard s = None ->
  run (conv_pass (p:=p) res_lc ls r) s = (inl r', s', cs) ->
  let k := length (filter is_secret_int (map (rget r) ls)) in
  npub s' = npub s + Z.of_nat k /\ npriv s' = npriv s /\ length (cons_of cs) = k /\ guard s' = None.
Proof.
  induction ls as [|a ls IH]; intros r s r' s' cs ND Hg R; cbn zeta.
  - cbn in R. inversion R; subst. cbn. repeat split; try lia; assumption.
  - inversion ND as [|? ? Hna ND']; subst. cbn [conv_pass] in R. rewrite run_bind in R.
    destruct (run (res_lc (rget r a)) s) as [[[o|e] s1] c1] eqn:E1; [|discriminate R].
    destruct (run (conv_pass res_lc ls (match o with Some v => rset r a v | None => r end)) s1) as [[r2 s2] c2] eqn:E2.
    inversion R; subst.
    assert (Same : map (rget (match o with Some v => rset r a v | None => r end)) ls = map (rget r) ls).
    { destruct o; [|reflexivity]. apply map_ext_in. intros l Hl. apply rget_rset_other'. intros ->. contradiction. }
    cbn [map filter]. destruct (rget r a) eqn:Ea; cbn [res_lc is_secret_int] in *;
      try (cbn [ret run] in E1; inversion E1; subst; cbn [app];
           destruct (IH _ _ _ _ _ ND' Hg E2) as (A & B & C & D); repeat split; assumption).
    (* a secret integer: one public output, one constraint *)
    rewrite run_bind in E1. destruct (run (lcval x) s) as [[[u|e] s0] c0] eqn:E0; [|discriminate E1]. cbn [ret run] in E1. inversion E1; subst.
    destruct (run_lcval x s u s1 c0 Hg E0) as (P1 & P2 & G1 & L1 & _).
    destruct (IH _ _ _ _ _ ND' G1 E2) as (A & B & C & D). rewrite Same in *. rewrite app_nil_r, cons_of_app, app_length, L1, C. cbn [length].
    repeat split; try assumption; lia.
Qed.
(* the same for every result pass (secret integers, then fixed-point numbers, then booleans): a pass f that ties the leaves of one kind
   (f v = lcval x ;;; ret (Some _)) and leaves the others alone *)
Theorem res_pass_counts_gen (f : pyval -> Gadgets.G (p:=p) (option pyval)) (isk : pyval -> bool) :
  (forall v, isk v = false -> f v = ret None) ->
  (forall v, isk v = true -> exists x w0, f v = (lcval x ;;; ret (Some w0))) ->
  forall ls (r : regs) (s : gst) r' s' cs, NoDup ls -> guard s = None ->
  run (conv_pass (p:=p) f ls r) s = (inl r', s', cs) ->
  let k := length (filter isk (map (rget r) ls)) in
  npub s' = npub s + Z.of_nat k /\ npriv s' = npriv s /\ length (cons_of cs) = k /\ guard s' = None.
Proof.
  intros Hno Hyes. induction ls as [|a ls IH]; intros r s r' s' cs ND Hg R; cbn zeta.
  - cbn in R. inversion R; subst. cbn. repeat split; try lia; assumption.
  - inversion ND as [|? ? Hna ND']; subst. cbn [conv_pass] in R. rewrite run_bind in R.
    destruct (run (f (rget r a)) s) as [[[o|e] s1] c1] eqn:E1; [|discriminate R].
    destruct (run (conv_pass f ls (match o with Some v => rset r a v | None => r end)) s1) as [[r2 s2] c2] eqn:E2.
    inversion R; subst.
    assert (Same : map (rget (match o with Some v => rset r a v | None => r end)) ls = map (rget r) ls).
    { destruct o; [|reflexivity]. apply map_ext_in. intros l Hl. apply rget_rset_other'. intros ->. contradiction. }
    cbn [map filter]. destruct (isk (rget r a)) eqn:Ek.
    + destruct (Hyes _ Ek) as (x & w0 & Hf). rewrite Hf in E1. rewrite run_bind in E1.
      destruct (run (lcval x) s) as [[[u|e] s0] c0] eqn:E0; [|discriminate E1]. cbn [ret run] in E1. inversion E1; subst.
      destruct (run_lcval x s u s1 c0 Hg E0) as (P1 & P2 & G1 & L1 & _).
      destruct (IH _ _ _ _ _ ND' G1 E2) as (A & B & C & D). rewrite Same in *. rewrite app_nil_r, cons_of_app, app_length, L1, C. cbn [length].
      repeat split; try assumption; lia.
    + rewrite (Hno _ Ek) in E1. cbn [ret run] in E1. inversion E1; subst. cbn [app].
      destruct (IH _ _ _ _ _ ND' Hg E2) as (A & B & C & D). repeat split; assumption.
Qed.
Definition is_secret_fxp (v : pyval) : bool := match v with PFxp _ _ => true | _ => false end.
Definition is_secret_bool (v : pyval) : bool := match v with PBool _ _ => true | _ => false end.
Theorem res_fxp_pass_counts (c : cfg) : forall ls (r : regs) (s : gst) r' s' cs, NoDup ls -> guard s = None ->
  run (conv_pass (p:=p) res_fxp ls r) s = (inl r', s', cs) ->
  let k := length (filter is_secret_fxp (map (rget r) ls)) in
  npub s' = npub s + Z.of_nat k /\ npriv s' = npriv s /\ length (cons_of cs) = k /\ guard s' = None.
Proof.
  apply res_pass_counts_gen.
  - intros v H. destruct v; try reflexivity. discriminate H.
  - intros v H. destruct v; try discriminate H. eexists. eexists. reflexivity.
Qed.
Theorem res_bool_pass_counts (c : cfg) : forall ls (r : regs) (s : gst) r' s' cs, NoDup ls -> guard s = None ->
  run (conv_pass (p:=p) res_bool ls r) s = (inl r', s', cs) ->
  let k := length (filter is_secret_bool (map (rget r) ls)) in
  npub s' = npub s + Z.of_nat k /\ npriv s' = npriv s /\ length (cons_of cs) = k /\ guard s' = None.
Proof.
  apply res_pass_counts_gen.
  - intros v H. destruct v; try reflexivity. discriminate H.
  - intros v H. destruct v; try discriminate H. eexists. eexists. reflexivity.
Qed.
(* ---- the argument passes: one public input per plain int leaf (first pass) and per plain float leaf (second pass), no constraint,
   no private variable; every other leaf is left alone ---- *)
Lemma run_pubval h (s : gst) x s' cs : run (pubval (p:=p) (lvl:=false) h) s = (inl x, s', cs) ->
  npub s' = npub s + 1 /\ npriv s' = npriv s /\ guard s' = guard s /\ cons_of cs = [].
Proof.
  unfold pubval. cbn [bind run]. destruct (vscopedb _ _ h); [|discriminate]. intros R. inversion R; subst.
  cbn [npub npriv guard upd_counters cons_of flat_map app]. repeat split; reflexivity.
Qed.
Theorem arg_pass_counts_gen (f : pyval -> Gadgets.G (p:=p) (option pyval)) (isk : pyval -> bool) :
  (forall v, isk v = false -> f v = ret None) ->
  (forall v, isk v = true -> exists h w0, f v = (x <- pubval h ;; ret (Some (w0 x)))) ->
  forall ls (r : regs) (s : gst) r' s' cs, NoDup ls ->
  run (conv_pass (p:=p) f ls r) s = (inl r', s', cs) ->
  let k := length (filter isk (map (rget r) ls)) in
  npub s' = npub s + Z.of_nat k /\ npriv s' = npriv s /\ cons_of cs = [] /\ guard s' = guard s.
Proof.
  intros Hno Hyes. induction ls as [|a ls IH]; intros r s r' s' cs ND R; cbn zeta.
  - cbn in R. inversion R; subst. cbn. repeat split; try lia; reflexivity.
  - inversion ND as [|? ? Hna ND']; subst. cbn [conv_pass] in R. rewrite run_bind in R.
    destruct (run (f (rget r a)) s) as [[[o|e] s1] c1] eqn:E1; [|discriminate R].
    destruct (run (conv_pass f ls (match o with Some v => rset r a v | None => r end)) s1) as [[r2 s2] c2] eqn:E2.
    inversion R; subst.
    assert (Same : map (rget (match o with Some v => rset r a v | None => r end)) ls = map (rget r) ls).
    { destruct o; [|reflexivity]. apply map_ext_in. intros l Hl. apply rget_rset_other'. intros ->. contradiction. }
    cbn [map filter]. destruct (isk (rget r a)) eqn:Ek.
    + destruct (Hyes _ Ek) as (h & w0 & Hf). rewrite Hf in E1. rewrite run_bind in E1.
      destruct (run (pubval h) s) as [[[u|e] s0] c0] eqn:E0; [|discriminate E1]. cbn [ret run] in E1. inversion E1; subst.
      destruct (run_pubval h s u s1 c0 E0) as (P1 & P2 & G1 & L1).
      destruct (IH _ _ _ _ _ ND' E2) as (A & B & C & D). rewrite Same in *. rewrite app_nil_r, cons_of_app, L1, C. cbn [length app].
      repeat split; try reflexivity; try congruence; lia.
    + rewrite (Hno _ Ek) in E1. cbn [ret run] in E1. inversion E1; subst. cbn [app].
      destruct (IH _ _ _ _ _ ND' E2) as (A & B & C & D). repeat split; assumption.
Qed.
Definition is_plain_int (v : pyval) : bool := match v with PInt _ => true | _ => false end.
Definition is_plain_float (v : pyval) : bool := match v with PFloat _ _ => true | _ => false end.
Theorem arg_int_pass_counts : forall ls (r : regs) (s : gst) r' s' cs, NoDup ls ->
  run (conv_pass (p:=p) arg_int ls r) s = (inl r', s', cs) ->
  let k := length (filter is_plain_int (map (rget r) ls)) in
  npub s' = npub s + Z.of_nat k /\ npriv s' = npriv s /\ cons_of cs = [] /\ guard s' = guard s.
Proof.
  apply arg_pass_counts_gen.
  - intros v H. destruct v; try reflexivity. discriminate H.
  - intros v H. destruct v; try discriminate H. exists (VConst z), (fun x => PLC x). reflexivity.
Qed.
Theorem arg_float_pass_counts (c : cfg) : forall ls (r : regs) (s : gst) r' s' cs, NoDup ls ->
  run (conv_pass (p:=p) (arg_float c) ls r) s = (inl r', s', cs) ->
  let k := length (filter is_plain_float (map (rget r) ls)) in
  npub s' = npub s + Z.of_nat k /\ npriv s' = npriv s /\ cons_of cs = [] /\ guard s' = guard s.
Proof.
  apply arg_pass_counts_gen.
  - intros v H. destruct v; try reflexivity. discriminate H.
  - intros v H. destruct v; try discriminate H. exists (VConst (scale_float c m e)), (fun x => PFxp 0 x). reflexivity.
Qed.
End SC.
