(* C05: the bitwise operators on whole numbers.  x & y, x | y, x ^ y on two secret integers decompose both operands into
   bitlength bits, combine the bits with one multiplication gadget each and recompose; x >> k (public k) drops k bits.
   Whenever they do not raise they return Python's result on the operands reduced to n bits -- i.e. Python's x & y etc.
   for operands in [0, 2^n). *)
From Coq Require Import ZArith List Bool Lia Znumtheory.
From PySnark.Base Require Import FieldZ Bits.
From PySnark.Model Require Import Lc Sym Good Gadgets Api.
From PySnark.Proofs Require Import Meta Frame Wp WpBase GadgetsOK Values NoRaise NoRaiseGadgets.
Import ListNotations.
Open Scope Z_scope.

(* ---- arithmetic of bits ---- *)
Lemma b2z_and a b : Z.b2z (a && b) = Z.b2z a * Z.b2z b. Proof. destruct a, b; reflexivity. Qed.
Lemma b2z_or a b : Z.b2z (a || b) = Z.b2z a + Z.b2z b - Z.b2z a * Z.b2z b. Proof. destruct a, b; reflexivity. Qed.
Lemma b2z_xor a b : Z.b2z (xorb a b) = Z.b2z a + Z.b2z b - 2 * Z.b2z a * Z.b2z b. Proof. destruct a, b; reflexivity. Qed.
Lemma pybit_land x y j : Bits.pybit (Z.land x y) j = Bits.pybit x j * Bits.pybit y j.
Proof. rewrite !pybit_testbit, Z.land_spec. apply b2z_and. Qed.
Lemma pybit_lor x y j : Bits.pybit (Z.lor x y) j = Bits.pybit x j + Bits.pybit y j - Bits.pybit x j * Bits.pybit y j.
Proof. rewrite !pybit_testbit, Z.lor_spec. apply b2z_or. Qed.
Lemma pybit_lxor x y j : Bits.pybit (Z.lxor x y) j = Bits.pybit x j + Bits.pybit y j - 2 * Bits.pybit x j * Bits.pybit y j.
Proof. rewrite !pybit_testbit, Z.lxor_spec. apply b2z_xor. Qed.

Lemma wsum_ext : forall l1 l2 i, l1 = l2 -> wsum l1 i = wsum l2 i. Proof. intros; subst; reflexivity. Qed.
Lemma wsum_pybit_mod v n : wsum (map (fun j => Bits.pybit v j) (seq 0 n)) 0 = v mod 2 ^ Z.of_nat n.
Proof. pose proof (wsum_pybit v n 0) as K. cbn [recompose Nat.add Z.of_nat] in K. rewrite Z.add_0_r in K. rewrite K. apply recompose_mod. Qed.
(* combining the bit lists of x and y position by position with g, where g is the bit function of the integer operator f *)
Lemma wsum_bitop (f : Z -> Z -> Z) (g : Z -> Z -> Z) : (forall x y j, Bits.pybit (f x y) j = g (Bits.pybit x j) (Bits.pybit y j)) ->
  forall x y n, wsum (map (fun ab => g (fst ab) (snd ab)) (combine (map (fun j => Bits.pybit x j) (seq 0 n)) (map (fun j => Bits.pybit y j) (seq 0 n)))) 0 = f x y mod 2 ^ Z.of_nat n.
Proof.
  intros H x y n. rewrite <- wsum_pybit_mod. apply wsum_ext.
  generalize 0%nat. induction n as [|n IH]; intros i; cbn [seq map combine]; [reflexivity|]. cbn [fst snd]. rewrite H, IH. reflexivity.
Qed.


(* dropping the k low bits *)
Lemma skipn_seq0 : forall k i m, skipn k (seq i m) = seq (i + k) (m - k).
Proof.
  induction k as [|k IH]; intros i m; [rewrite Nat.add_0_r, Nat.sub_0_r; reflexivity|].
  destruct m as [|m]; [reflexivity|]. cbn [seq skipn]. rewrite IH. rewrite Nat.add_succ_comm. reflexivity.
Qed.
Lemma pybit_shiftr x k j : Bits.pybit (Z.shiftr x (Z.of_nat k)) j = Bits.pybit x (j + k).
Proof. rewrite !pybit_testbit. rewrite Z.shiftr_spec by lia. rewrite Nat2Z.inj_add. reflexivity. Qed.
Lemma map_pybit_shift x k : forall m i, map (fun j => Bits.pybit x j) (seq (i + k) m) = map (fun j => Bits.pybit (Z.shiftr x (Z.of_nat k)) j) (seq i m).
Proof. induction m as [|m IH]; intros i; cbn [seq map]; [reflexivity|]. rewrite pybit_shiftr. f_equal. exact (IH (S i)). Qed.
Lemma wsum_high_bits x n k : wsum (skipn k (map (fun j => Bits.pybit x j) (seq 0 n))) 0 = Z.shiftr x (Z.of_nat k) mod 2 ^ Z.of_nat (n - k).
Proof. rewrite <- wsum_pybit_mod. apply wsum_ext. rewrite skipn_map, skipn_seq0. apply map_pybit_shift. Qed.

Section BV.
Context {p : Z}.
Variable ins : list Z.
Variable ig : bool.
Local Notation gst := (@Gadgets.gst p).
Local Notation slc := (Sym.slc p).
Local Notation G := (@Gadgets.G p).
Local Notation ve := (Sym.veval p ins ig).
Local Notation wp := (Wp.wp (p:=p) ins ig).
Local Notation Inv := (WpBase.Inv (p:=p) ins ig).
Local Notation Post := (GadgetsOK.Post (p:=p) ins ig).
Local Notation vals := (GadgetsOK.vals (p:=p) ins ig).
Local Notation scd s x := (slc_scoped (npub s) (npriv s) x = true).

(* a two-bit gadget: emits what it emits, returns a scoped object whose value is g of the operand values *)
Definition bitgadget (f : slc -> slc -> G slc) (g : Z -> Z -> Z) : Prop :=
  forall a b s sg (Q : slc -> gst -> store -> Prop), Inv s sg -> scd s a -> scd s b ->
    (forall r s' sg', Post s sg s' sg' -> scd s' r -> ve sg' (sval r) = g (ve sg (sval a)) (ve sg (sval b)) -> Q r s' sg') -> wp (f a b) s sg Q.

Lemma scd_add (s : gst) (x y : slc) : scd s x -> scd s y -> scd s (add x y).
Proof. intros A B. exact (NoRaiseGadgets.sc_add s x y A B). Qed.
Lemma scd_sub (s : gst) (x y : slc) : scd s x -> scd s y -> scd s (sub x y).
Proof. intros A B. exact (NoRaiseGadgets.sc_sub s x y A B). Qed.
Lemma scd_scale (s : gst) (x : slc) k : scd s x -> scd s (scale x k).
Proof. intros A. exact (NoRaiseGadgets.sc_scale s x k A). Qed.
Lemma scd_mono (s s' : gst) (x : slc) : npub s <= npub s' -> npriv s <= npriv s' -> scd s x -> scd s' x.
Proof. intros A B C. eapply slc_scoped_mono; eauto. Qed.

Lemma bit_and_gadget : bitgadget bit_and (fun a b => a * b).
Proof.
  intros a b s sg Q I Sa Sb HQ. unfold bit_and. apply mul_wp; [exact I|]. intros r s' sg' P Sr Vr _ _. apply HQ; [exact P|exact Sr|]. rewrite Vr. ring.
Qed.
Lemma bit_or_gadget : bitgadget bit_or (fun a b => a + b - a * b).
Proof.
  intros a b s sg Q I Sa Sb HQ. unfold bit_or. apply wp_bind. apply mul_wp; [exact I|]. intros m s' sg' P Sm Vm _ _. cbn [ret wp].
  destruct P as (I' & E' & T'). destruct (cnt_mono _ _ _ _ (proj1 I) (proj1 I') E') as [M1 M2].
  apply HQ; [split; [exact I'|split; assumption]|apply scd_sub; [apply scd_add; eapply scd_mono; eauto|exact Sm]|].
  unfold sub. cbn [sval add neg]. esimp. rewrite Vm.
  rewrite (ve_ext ins ig _ _ _ _ (proj1 I) E' (scoped_sval _ _ _ Sa)), (ve_ext ins ig _ _ _ _ (proj1 I) E' (scoped_sval _ _ _ Sb)). ring.
Qed.
Lemma bit_xor_gadget : bitgadget bit_xor (fun a b => a + b - 2 * a * b).
Proof.
  intros a b s sg Q I Sa Sb HQ. unfold bit_xor. apply wp_bind. apply mul_wp; [exact I|]. intros m s' sg' P Sm Vm _ _. cbn [ret wp].
  destruct P as (I' & E' & T'). destruct (cnt_mono _ _ _ _ (proj1 I) (proj1 I') E') as [M1 M2].
  apply HQ; [split; [exact I'|split; assumption]|apply scd_sub; [apply scd_add; eapply scd_mono; eauto|exact Sm]|].
  unfold sub. cbn [sval add neg]. esimp. rewrite Vm. cbn [sval scale]. esimp.
  rewrite (ve_ext ins ig _ _ _ _ (proj1 I) E' (scoped_sval _ _ _ Sa)), (ve_ext ins ig _ _ _ _ (proj1 I) E' (scoped_sval _ _ _ Sb)). ring.
Qed.

Lemma vals_keep (s : gst) sg sg' bs : cnt s sg -> ext sg sg' -> Forall (fun b => scd s b) bs -> vals sg' bs = vals sg bs.
Proof.
  intros C E H. unfold GadgetsOK.vals. apply map_ext_in. intros z Hz. rewrite Forall_forall in H. apply (ve_ext ins ig _ _ _ _ C E (scoped_sval _ _ _ (H z Hz))).
Qed.

Lemma zip_vals f g : bitgadget f g -> forall xb yb s sg (Q : list slc -> gst -> store -> Prop), Inv s sg ->
  Forall (fun b => scd s b) xb -> Forall (fun b => scd s b) yb ->
  (forall rs s' sg', Post s sg s' sg' -> vals sg' rs = map (fun ab => g (fst ab) (snd ab)) (combine (vals sg xb) (vals sg yb)) -> Q rs s' sg') ->
  wp (zipM f xb yb) s sg Q.
Proof.
  intros Hf. induction xb as [|a xb IH]; intros yb s sg Q I Sx Sy HQ; cbn [zipM].
  - cbn [ret wp]. apply HQ; [apply GadgetsOK.Post_refl; exact I|reflexivity].
  - destruct yb as [|b yb].
    + cbn [ret wp]. apply HQ; [apply GadgetsOK.Post_refl; exact I|reflexivity].
    + inversion Sx as [|? ? Sa Sx']; subst. inversion Sy as [|? ? Sb Sy']; subst.
      apply wp_bind. apply Hf; [exact I|exact Sa|exact Sb|]. intros r s1 sg1 P1 Sr Vr. destruct P1 as (I1 & E1 & T1).
      pose proof (cnt_mono _ _ _ _ (proj1 I) (proj1 I1) E1) as [M1 M2].
      apply wp_bind. apply IH; [exact I1| | |].
      * eapply Forall_impl; [|exact Sx']. intros z Hz. eapply scd_mono; eauto.
      * eapply Forall_impl; [|exact Sy']. intros z Hz. eapply scd_mono; eauto.
      * intros rs s2 sg2 P2 Hrs. cbn [ret wp]. destruct P2 as (I2 & E2 & T2).
        apply HQ; [split; [exact I2|split; [eapply ext_trans; eauto|congruence]]|].
        cbn [GadgetsOK.vals map combine fst snd]. f_equal.
        -- rewrite (ve_ext ins ig _ _ _ _ (proj1 I1) E2 (scoped_sval _ _ _ Sr)). exact Vr.
        -- fold (vals sg2 rs). rewrite Hrs. fold (vals sg xb). fold (vals sg yb).
           rewrite (vals_keep _ _ _ _ (proj1 I) E1 Sx'), (vals_keep _ _ _ _ (proj1 I) E1 Sy'). reflexivity.
Qed.

Section WithCfg.
Variable c : cfg.
Local Notation n := (nbits c).

(* x <op> y through bit decomposition: the operator f on the operands reduced to n bits *)
Theorem bitwise_value f g (fz : Z -> Z -> Z) : bitgadget f g -> (forall x y j, Bits.pybit (fz x y) j = g (Bits.pybit x j) (Bits.pybit y j)) ->
  forall x y s sg (Q : slc -> gst -> store -> Prop), Inv s sg -> vscopedb (npub s) (npriv s) (sval y) = true ->
  (forall r s' sg', Post s sg s' sg' -> ve sg' (sval r) = fz (ve sg (sval x)) (ve sg (sval y)) mod 2 ^ Z.of_nat n -> Q r s' sg') ->
  wp (bitwise c f x y) s sg Q.
Proof.
  intros Hf Hg x y s sg Q I Cy HQ. unfold bitwise. apply wp_bind. apply to_bits_wp; [exact I|]. intros xb s1 sg1 P1 Sxb Vxb.
  destruct P1 as (I1 & E1 & T1). apply wp_bind. apply to_bits_wp; [exact I1|]. intros yb s2 sg2 P2 Syb Vyb.
  destruct P2 as (I2 & E2 & T2). pose proof (cnt_mono _ _ _ _ (proj1 I1) (proj1 I2) E2) as [M1 M2].
  assert (Sxb2 : Forall (fun b => scd s2 b) xb) by (eapply Forall_impl; [|exact Sxb]; intros z Hz; eapply scd_mono; eauto).
  apply wp_bind. apply (zip_vals f g Hf); [exact I2|exact Sxb2|exact Syb|].
  intros rs s3 sg3 P3 Hrs. cbn [ret wp]. destruct P3 as (I3 & E3 & T3).
  apply HQ; [split; [exact I3|split; [eapply ext_trans; [exact E1|eapply ext_trans; eauto]|congruence]]|].
  rewrite ve_from_bits, Hrs. rewrite (vals_keep _ _ _ _ (proj1 I1) E2 Sxb), Vxb, Vyb.
  rewrite (ve_ext ins ig _ _ _ _ (proj1 I) E1 Cy). apply (wsum_bitop fz g Hg).
Qed.
Theorem land_value x y s sg (Q : slc -> gst -> store -> Prop) : Inv s sg -> vscopedb (npub s) (npriv s) (sval y) = true ->
  (forall r s' sg', Post s sg s' sg' -> ve sg' (sval r) = Z.land (ve sg (sval x)) (ve sg (sval y)) mod 2 ^ Z.of_nat n -> Q r s' sg') -> wp (land_lc c x y) s sg Q.
Proof. unfold land_lc. apply (bitwise_value bit_and (fun a b => a * b) Z.land bit_and_gadget pybit_land). Qed.
Theorem lor_value x y s sg (Q : slc -> gst -> store -> Prop) : Inv s sg -> vscopedb (npub s) (npriv s) (sval y) = true ->
  (forall r s' sg', Post s sg s' sg' -> ve sg' (sval r) = Z.lor (ve sg (sval x)) (ve sg (sval y)) mod 2 ^ Z.of_nat n -> Q r s' sg') -> wp (lor_lc c x y) s sg Q.
Proof. unfold lor_lc. apply (bitwise_value bit_or (fun a b => a + b - a * b) Z.lor bit_or_gadget pybit_lor). Qed.
Theorem lxor_value x y s sg (Q : slc -> gst -> store -> Prop) : Inv s sg -> vscopedb (npub s) (npriv s) (sval y) = true ->
  (forall r s' sg', Post s sg s' sg' -> ve sg' (sval r) = Z.lxor (ve sg (sval x)) (ve sg (sval y)) mod 2 ^ Z.of_nat n -> Q r s' sg') -> wp (lxor_lc c x y) s sg Q.
Proof. unfold lxor_lc. apply (bitwise_value bit_xor (fun a b => a + b - 2 * a * b) Z.lxor bit_xor_gadget pybit_lxor). Qed.

(* x >> k for a public k >= 0: the bits above position k, i.e. floor(x / 2^k) on operands in [0, 2^n) *)
Theorem rshift_value x (k : nat) s sg (Q : pyval p -> gst -> store -> Prop) : Inv s sg ->
  (forall r s' sg', Post s sg s' sg' ->
     match r with
     | PLC q => ve sg' (sval q) = Z.shiftr (ve sg (sval x)) (Z.of_nat k) mod 2 ^ Z.of_nat (n - k)
     | PInt z => z = 0 /\ (n <= k)%nat
     | _ => False end -> Q r s' sg') ->
  wp (bs <- to_bits x n ;; ret (from_bits_v (skipn k bs))) s sg Q.
Proof.
  intros I HQ. apply wp_bind. apply to_bits_wp; [exact I|]. intros bs s' sg' P Sbs Vbs. cbn [ret wp]. apply HQ; [exact P|].
  assert (L : length bs = n) by (apply (f_equal (@length Z)) in Vbs; unfold GadgetsOK.vals in Vbs; rewrite !map_length, seq_length in Vbs; exact Vbs).
  unfold from_bits_v. destruct (skipn k bs) as [|b rest] eqn:Es.
  - split; [reflexivity|]. apply (f_equal (@length slc)) in Es. rewrite skipn_length, L in Es. cbn in Es. lia.
  - rewrite <- Es. rewrite ve_from_bits. unfold GadgetsOK.vals. rewrite <- skipn_map. fold (vals sg' bs). rewrite Vbs. apply wsum_high_bits.
Qed.
End WithCfg.
End BV.
