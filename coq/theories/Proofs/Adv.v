(* Soundness against an ARBITRARY assignment (the adversarial prover), tied to the model's emitted constraints:
   [wps w m s Q] holds when, for the assignment w of all variables, IF w satisfies every constraint that the computation m
   emits from generator state s, THEN its result satisfies Q.  Value-dependent raises, witness hints and the run-time checks
   play no role: the constraint system is what the verifier sees.  Sound for [run] by one induction over the free monad;
   the gadgets of runtime.py are then linked to the field-level cores of Proofs/Sound.v (C02, C03, C16). *)
From Coq Require Import ZArith List Bool Lia Znumtheory Setoid Morphisms.
From PySnark.Base Require Import FieldZ.
From PySnark.Model Require Import Lc Sym Good Gadgets.
From PySnark.Proofs Require Import LcProofs Meta Frame Sound.
Import ListNotations.
Open Scope Z_scope.

Section A.
Context {p : Z}.
Variable w : var -> Z.
Local Notation gst := (@Gadgets.gst p).
Local Notation cmd := (Sym.cmd p).
Local Notation slc := (Sym.slc p).
Local Notation M := (@Gadgets.M p).
Local Notation G := (@Gadgets.G p).

Definition cons_of (cs : list cmd) : list (lc * lc * lc) :=
  flat_map (fun c => match c with CEmit a b y => [(wire a, wire b, wire y)] | _ => [] end) cs.
Lemma cons_of_app a b : cons_of (a ++ b) = cons_of a ++ cons_of b.
Proof. unfold cons_of. apply flat_map_app. Qed.

Fixpoint wps {lvl A} (m : M lvl A) : gst -> (A -> gst -> Prop) -> Prop :=
  match m in Gadgets.M _ T return gst -> (T -> gst -> Prop) -> Prop with
  | Ret a => fun s Q => Q a s
  | Raise e => fun _ _ => True
  | Get k => fun s Q => wps (k s) s Q
  | MPriv h k => fun s Q => wps (k (var_slc (- (npriv s + 1)))) (upd_counters s (npub s) (npriv s + 1) (noid s)) Q
  | MPub h k => fun s Q => wps (k (var_slc (npub s + 1))) (upd_counters s (npub s + 1) (npriv s) (noid s)) Q
  | Fresh k => fun s Q => wps (k (noid s)) (upd_counters s (npub s) (npriv s) (noid s + 1)) Q
  | Emit c k => fun s Q =>
      match c with
      | CEmit a b y => holds (p:=p) w (wire a, wire b, wire y) -> wps k s Q
      | _ => wps k s Q
      end
  | RaiseIf b e k => fun s Q => wps k s Q
  | Local g i body k => fun s Q =>
      wps body (upd_globals s (Some g) i g (match unw s with None => Some (cur_triple s) | Some u => Some u end))
          (fun x s1 => wps (k x) (upd_globals s1 (guard s) (ignore s) (one s) (unw s)) Q)
  | SetGlobals _ g i o k => fun s Q => wps k (upd_globals s g i o (unw s)) Q
  end.

Lemma wps_mono : forall lvl A (m : M lvl A) s (Q Q' : A -> gst -> Prop), (forall a s', Q a s' -> Q' a s') -> wps m s Q -> wps m s Q'.
Proof.
  intros lvl A m. induction m as [A a|A e|A k IH|A h k IH|A h k IH|A k IH|A c k IH|A b e k IH|A X g i body IHb k IHk|A H g i o k IH];
    intros s Q Q' HQ W; cbn [wps] in *; auto; try (eapply IH; eauto; fail).
  - destruct c; try (eapply IH; eauto; fail). intros Hh. eapply IH; eauto.
  - eapply IHb; [|exact W]. intros x s1 W1. eapply IHk; eauto.
Qed.
Lemma wps_bind : forall lvl A B (m : M lvl A) (f : A -> M lvl B) s Q, wps m s (fun a s' => wps (f a) s' Q) -> wps (bind m f) s Q.
Proof.
  intros lvl A B m. induction m as [A a|A e|A k IH|A h k IH|A h k IH|A k IH|A c k IH|A b e k IH|A X g i body IHb k IHk|A H g i o k IH];
    intros f s Q W; cbn [wps bind] in *; auto.
  - destruct c; auto.
  - eapply wps_mono; [|exact W]. intros x s1 W1. cbn beta in *. apply IHk. exact W1.
Qed.

Theorem wps_sound : forall lvl A (m : M lvl A) s Q, wps m s Q ->
  forall a s' cs, run m s = (inl a, s', cs) -> Forall (holds (p:=p) w) (cons_of cs) -> Q a s'.
Proof.
  intros lvl A m. induction m as [A a|A e|A k IH|A h k IH|A h k IH|A k IH|A c k IH|A b e k IH|A X g i body IHb k IHk|A H g i o k IH];
    intros s Q W a0 s' cs R Hc; cbn [run wps] in *.
  - inversion R; subst. exact W.
  - discriminate R.
  - eapply IH; eauto.
  - destruct (vscopedb _ _ h); [|discriminate R]. destruct (run (k _) _) as [[r0 s0] c0] eqn:E. inversion R; subst. eapply IH; eauto.
  - destruct (vscopedb _ _ h); [|discriminate R]. destruct (run (k _) _) as [[r0 s0] c0] eqn:E. inversion R; subst. eapply IH; eauto.
  - eapply IH; eauto.
  - destruct (emittable c && cmd_scoped (npub s) (npriv s) c && cmd_vscoped (npub s) (npriv s) c); [|discriminate R].
    destruct (run k s) as [[r0 s0] c0] eqn:E. inversion R; subst.
    destruct c; cbn [cons_of flat_map app] in Hc; try (eapply IH; eauto; fail).
    inversion Hc as [|? ? H1 H2]; subst. eapply IH; eauto.
  - destruct (bscopedb _ _ b); [|discriminate R]. destruct (run k s) as [[r0 s0] c0] eqn:E. inversion R; subst. eapply IH; eauto.
  - destruct (globals_scoped _ _ _ _ _); [|discriminate R].
    set (s_in := upd_globals s (Some g) i g _) in *.
    destruct (run body s_in) as [[[x|e] s1] c1] eqn:Eb; [|discriminate R].
    destruct (run (k x) _) as [[r2 s2] c2] eqn:Ek. inversion R; subst.
    rewrite cons_of_app in Hc. apply Forall_app in Hc. destruct Hc as [Hc1 Hc2].
    eapply IHk; [|exact Ek|exact Hc2]. exact (IHb _ _ W _ _ _ Eb Hc1).
  - destruct (globals_scoped _ _ _ _ _); [|discriminate R]. eapply IH; eauto.
Qed.
End A.
