(* Total correctness of the honest computation: [nr m s sg Q] holds when running m from generator state s and witness store sg
   raises NO exception (no value-dependent raise fires, no model check fails) and ends in a result satisfying Q.
   Used for the second half of C05: inside the documented domain an operation does not raise. *)
From Coq Require Import ZArith List Bool Lia Znumtheory.
From PySnark.Base Require Import FieldZ Bits.
From PySnark.Model Require Import Lc Sym Good Gadgets.
From PySnark.Proofs Require Import LcProofs Meta Frame Wp WpBase GadgetsOK.
Import ListNotations.
Open Scope Z_scope.

Section N.
Context {p : Z}.
Variable ins : list Z.
Variable ig : bool.
Local Notation gst := (@Gadgets.gst p).
Local Notation cmd := (Sym.cmd p).
Local Notation slc := (Sym.slc p).
Local Notation M := (@Gadgets.M p).
Local Notation G := (@Gadgets.G p).
Local Notation step := (Sym.step p ins ig).
Local Notation ve := (Sym.veval p ins ig).
Local Notation be := (Sym.beval p ins ig).

Fixpoint nr {lvl A} (m : M lvl A) : gst -> store -> (A -> gst -> store -> Prop) -> Prop :=
  match m in Gadgets.M _ T return gst -> store -> (T -> gst -> store -> Prop) -> Prop with
  | Ret a => fun s sg Q => Q a s sg
  | Raise e => fun _ _ _ => False
  | Get k => fun s sg Q => nr (k s) s sg Q
  | MPriv h k => fun s sg Q =>
      vscopedb (npub s) (npriv s) h = true /\
      nr (k (var_slc (- (npriv s + 1)))) (upd_counters s (npub s) (npriv s + 1) (noid s)) (push_priv sg (ve sg h)) Q
  | MPub h k => fun s sg Q =>
      vscopedb (npub s) (npriv s) h = true /\
      nr (k (var_slc (npub s + 1))) (upd_counters s (npub s + 1) (npriv s) (noid s)) (push_pub sg (ve sg h)) Q
  | Fresh k => fun s sg Q => nr (k (noid s)) (upd_counters s (npub s) (npriv s) (noid s + 1)) sg Q
  | Emit c k => fun s sg Q =>
      emittable c && cmd_scoped (npub s) (npriv s) c && cmd_vscoped (npub s) (npriv s) c = true /\ nr k s sg Q
  | RaiseIf b e k => fun s sg Q => bscopedb (npub s) (npriv s) b = true /\ be sg b = false /\ nr k s sg Q
  | Local g i body k => fun s sg Q =>
      globals_scoped (npub s) (npriv s) (Some g) i g = true /\
      nr body (upd_globals s (Some g) i g (match unw s with None => Some (cur_triple s) | Some u => Some u end)) sg
         (fun x s1 sg1 => nr (k x) (upd_globals s1 (guard s) (ignore s) (one s) (unw s)) sg1 Q)
  | SetGlobals _ g i o k => fun s sg Q =>
      globals_scoped (npub s) (npriv s) g i o = true /\ nr k (upd_globals s g i o (unw s)) sg Q
  end.

Lemma nr_mono : forall lvl A (m : M lvl A) s sg (Q Q' : A -> gst -> store -> Prop),
  (forall a s' sg', Q a s' sg' -> Q' a s' sg') -> nr m s sg Q -> nr m s sg Q'.
Proof.
  intros lvl A m. induction m as [A a|A e|A k IH|A h k IH|A h k IH|A k IH|A c k IH|A b e k IH|A X g i body IHb k IHk|A H g i o k IH];
    intros s sg Q Q' HQ W; cbn [nr] in *; auto; try (eapply IH; eauto; fail);
    try (destruct W as [C W]; split; [exact C|]; eapply IH; eauto; fail).
  - destruct W as [C [B W]]. split; [exact C|split; [exact B|]]. eapply IH; eauto.
  - destruct W as [C W]. split; [exact C|]. eapply IHb; [|exact W]. intros x s1 sg1 W1. eapply IHk; eauto.
Qed.
Lemma nr_bind : forall lvl A B (m : M lvl A) (f : A -> M lvl B) s sg Q,
  nr m s sg (fun a s' sg' => nr (f a) s' sg' Q) -> nr (bind m f) s sg Q.
Proof.
  intros lvl A B m. induction m as [A a|A e|A k IH|A h k IH|A h k IH|A k IH|A c k IH|A b e k IH|A X g i body IHb k IHk|A H g i o k IH];
    intros f s sg Q W; cbn [nr bind] in *; auto;
    try (destruct W as [C W]; split; [exact C|]; apply IH; exact W; fail).
  - destruct W as [C [B0 W]]. split; [exact C|split; [exact B0|]]. apply IH. exact W.
  - destruct W as [C W]. split; [exact C|]. eapply nr_mono; [|exact W]. intros x s1 sg1 W1. cbn beta in *. apply IHk. exact W1.
Qed.

Theorem nr_sound : forall lvl A (m : M lvl A) s sg Q, nr m s sg Q ->
  forall t, st t = sg -> raised t = None -> forall r s' cs, run m s = (r, s', cs) ->
  raised (fold_left step cs t) = None /\ exists a, r = inl a /\ Q a s' (st (fold_left step cs t)).
Proof.
  intros lvl A m. induction m as [A a|A e|A k IH|A h k IH|A h k IH|A k IH|A c k IH|A b e k IH|A X g i body IHb k IHk|A H g i o k IH];
    intros s sg Q W t Hs Hr r s' cs R; cbn [run nr] in *.
  - inversion R; subst. split; [exact Hr|]. exists a. split; [reflexivity|exact W].
  - contradiction.
  - eapply IH; eauto.
  - destruct W as [C W]. rewrite C in R. destruct (run (k _) _) as [[r0 s0] c0] eqn:E. inversion R; subst.
    assert (T1 : st (step t (CAlloc Priv h)) = push_priv (st t) (ve (st t) h) /\ raised (step t (CAlloc Priv h)) = None).
    { unfold Sym.step. rewrite Hr. cbn. split; reflexivity. }
    destruct T1 as [T1 T2]. exact (IH _ _ _ _ W _ T1 T2 _ _ _ E).
  - destruct W as [C W]. rewrite C in R. destruct (run (k _) _) as [[r0 s0] c0] eqn:E. inversion R; subst.
    assert (T1 : st (step t (CAlloc Pub h)) = push_pub (st t) (ve (st t) h) /\ raised (step t (CAlloc Pub h)) = None).
    { unfold Sym.step. rewrite Hr. cbn. split; reflexivity. }
    destruct T1 as [T1 T2]. exact (IH _ _ _ _ W _ T1 T2 _ _ _ E).
  - eapply IH; eauto.
  - destruct W as [C W]. rewrite C in R. destruct (run k s) as [[r0 s0] c0] eqn:E. inversion R; subst.
    assert (T1 : st (step t c) = st t /\ raised (step t c) = None).
    { apply andb_prop in C. destruct C as [C _]. apply andb_prop in C. destruct C as [C _].
      unfold Sym.step. rewrite Hr. destruct c; try discriminate C; cbn; split; reflexivity. }
    destruct T1 as [T1 T2]. exact (IH _ _ _ W _ T1 T2 _ _ _ E).
  - destruct W as [C [B W]]. rewrite C in R. destruct (run k s) as [[r0 s0] c0] eqn:E. inversion R; subst. cbn [fold_left].
    assert (T1 : step t (CRaiseIf b e (unw_triple s)) = t) by (unfold Sym.step; rewrite Hr, B; reflexivity).
    rewrite T1. exact (IH _ _ _ W _ eq_refl Hr _ _ _ E).
  - destruct W as [C W]. rewrite C in R. set (s_in := upd_globals s (Some g) i g _) in *.
    destruct (run body s_in) as [[[x|e] s1] c1] eqn:Eb.
    + destruct (run (k x) _) as [[r2 s2] c2] eqn:Ek. inversion R; subst.
      destruct (IHb _ _ _ W _ eq_refl Hr _ _ _ Eb) as [Er1 [a [Ea Wk]]]. inversion Ea; subst a. rewrite fold_left_app.
      exact (IHk _ _ _ _ Wk _ eq_refl Er1 _ _ _ Ek).
    + inversion R; subst. destruct (IHb _ _ _ W _ eq_refl Hr _ _ _ Eb) as [_ [a [Ea _]]]. discriminate Ea.
  - destruct W as [C W]. rewrite C in R. eapply IH; eauto.
Qed.
End N.
