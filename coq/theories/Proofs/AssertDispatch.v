(* C03 through the method dispatch: the comparison assertions of the three secret classes (LinComb, LinCombBool, LinCombFxp) reduce
   to the LinComb assertion on the underlying wires (fixed point: on the scaled integers, an int k standing for k * 2^r), and the
   constraints they emit force, for ANY assignment, the corresponding relation between the wires. *)
From Coq Require Import ZArith List Bool Lia Znumtheory Setoid Morphisms.
From PySnark.Base Require Import FieldZ.
From PySnark.Model Require Import Lc Sym Good Gadgets Api Prog.
From PySnark.Proofs Require Import LcProofs Meta Frame Sound Adv AdvGadgets.
Import ListNotations.
Open Scope Z_scope.

Section AD.
Context {p : Z}.
Hypothesis Hp : prime p.
Variable w : var -> Z.
Hypothesis W0 : w 0 = 1.
Variable c : cfg.
Local Notation gst := (@Gadgets.gst p).
Local Notation slc := (Sym.slc p).
Local Notation pyval := (Api.pyval p).
Local Notation wps := (Adv.wps (p:=p) w).
Local Notation ew := (AdvGadgets.ew (p:=p) w).
Local Notation same := (AdvGadgets.same (p:=p)).
Local Notation Gok := (AdvGadgets.Gok (p:=p) w).
Local Notation Oone := (AdvGadgets.Oone (p:=p) w).
Local Notation "a == b" := (feq p a b) (at level 70).
Local Existing Instance feq_equiv.

Definition is_cmp (m : meth) : bool :=
  match m with MAssertLt | MAssertLe | MAssertEq | MAssertNe | MAssertGt | MAssertGe => true | _ => false end.
(* the wires a comparison assertion of receiver [recv] with argument [o] works on *)
Definition wires (recv o : pyval) : option (slc * slc) :=
  match recv, o with
  | PLC x, PLC y => Some (x, y)
  | PBool _ x, PBool _ y => Some (x, y)
  | PFxp _ x, PFxp _ y => Some (x, y)
  | PFxp _ x, PLC y => Some (x, scale y (R c))
  | PFxp _ x, PBool _ y => Some (x, scale y (R c))
  | PFxp _ x, PInt k => Some (x, constv (k * R c))
  | _, _ => None
  end.
Lemma gen_meth_assert m recv o x y : is_cmp m = true -> wires recv o = Some (x, y) ->
  gen_meth c m recv [o] = unit_none (assert_by c m x y).
Proof.
  intros Hm Hw. destruct m; try discriminate Hm;
    (destruct recv; try discriminate Hw; destruct o; try discriminate Hw; inversion Hw; subst; reflexivity).
Qed.

(* what the constraints force, as a relation between the two wire values *)
Definition forced (m : meth) (x y : Z) : Prop :=
  match m with
  | MAssertLt => exists v, 0 <= v < 2 ^ Z.of_nat (nbits c) /\ y - x - 1 == v
  | MAssertLe => exists v, 0 <= v < 2 ^ Z.of_nat (nbits c) /\ y - x == v
  | MAssertGt => exists v, 0 <= v < 2 ^ Z.of_nat (nbits c) /\ x - y - 1 == v
  | MAssertGe => exists v, 0 <= v < 2 ^ Z.of_nat (nbits c) /\ x - y == v
  | MAssertEq => x == y
  | MAssertNe => ~ x == y
  | _ => True
  end.
Lemma assert_by_s m x y s (Q : unit -> gst -> Prop) : Gok s -> Oone s ->
  (forall s', same s s' -> forced m (ew x) (ew y) -> Q tt s') -> wps (assert_by c m x y) s Q.
Proof.
  intros G O HQ. destruct m; cbn [assert_by]; try (cbn [wps ret]; apply HQ; [reflexivity|exact I]).
  - unfold assert_lt. apply assert_rel_s; try assumption. intros s' S [v [Rv Ev]]. apply HQ; [exact S|]. exists v. split; [exact Rv|]. rewrite <- Ev, ew_subc, ew_sub by assumption. reflexivity.
  - unfold assert_le. apply assert_rel_s; try assumption. intros s' S [v [Rv Ev]]. apply HQ; [exact S|]. exists v. split; [exact Rv|]. rewrite <- Ev, ew_sub. reflexivity.
  - apply assert_eq_s; try assumption.
  - apply assert_ne_s; try assumption.
  - unfold assert_gt. apply assert_rel_s; try assumption. intros s' S [v [Rv Ev]]. apply HQ; [exact S|]. exists v. split; [exact Rv|]. rewrite <- Ev, ew_subc, ew_sub by assumption. reflexivity.
  - unfold assert_ge. apply assert_rel_s; try assumption. intros s' S [v [Rv Ev]]. apply HQ; [exact S|]. exists v. split; [exact Rv|]. rewrite <- Ev, ew_sub. reflexivity.
Qed.

Section Run.
Variable s : gst.
Hypothesis G : Gok s.
Hypothesis O : Oone s.
Notation sat cs := (Forall (holds (p:=p) w) (cons_of cs)).
Theorem meth_assert_forced m recv o x y r s' cs : is_cmp m = true -> wires recv o = Some (x, y) ->
  run (gen_meth c m recv [o]) s = (inl r, s', cs) -> sat cs -> forced m (ew x) (ew y).
Proof.
  intros Hm Hw R H. rewrite (gen_meth_assert m recv o x y Hm Hw) in R.
  apply (wps_sound w _ _ (unit_none (assert_by c m x y)) s (fun _ _ => forced m (ew x) (ew y))) with (s' := s') (cs := cs) (a := r); auto.
  unfold unit_none. apply wps_bind. apply assert_by_s; [exact G|exact O|]. intros s0 _ F. cbn [wps ret]. exact F.
Qed.
End Run.
(* the unary assertions of the three classes: assert_zero, assert_nonzero, assert_positive (at the global bitlength for booleans and
   fixed-point numbers, at an optional explicit width for secret integers) act on the receiver's wire *)
Definition unary_wire (recv : pyval) : option slc := match recv with PLC x | PBool _ x | PFxp _ x => Some x | _ => None end.
Section RunU.
Variable s : gst.
Hypothesis G : Gok s.
Hypothesis O : Oone s.
Notation sat cs := (Forall (holds (p:=p) w) (cons_of cs)).
Theorem meth_assert_zero_forced recv x r s' cs : unary_wire recv = Some x ->
  run (gen_meth c MAssertZero recv []) s = (inl r, s', cs) -> sat cs -> ew x == 0.
Proof.
  intros Hw R H. assert (E : gen_meth c MAssertZero recv [] = unit_none (assert_zero x)) by (destruct recv; try discriminate Hw; inversion Hw; subst; reflexivity).
  rewrite E in R. apply (wps_sound w _ _ (unit_none (assert_zero x)) s (fun _ _ => ew x == 0)) with (s' := s') (cs := cs) (a := r); auto.
  unfold unit_none. apply wps_bind. apply assert_zero_s; try assumption. intros s0 _ Z0. cbn [wps ret]. exact Z0.
Qed.
Theorem meth_assert_nonzero_forced recv x r s' cs : unary_wire recv = Some x ->
  run (gen_meth c MAssertNonzero recv []) s = (inl r, s', cs) -> sat cs -> ~ ew x == 0.
Proof.
  intros Hw R H. assert (E : gen_meth c MAssertNonzero recv [] = unit_none (assert_nonzero x)) by (destruct recv; try discriminate Hw; inversion Hw; subst; reflexivity).
  rewrite E in R. apply (wps_sound w _ _ (unit_none (assert_nonzero x)) s (fun _ _ => ~ ew x == 0)) with (s' := s') (cs := cs) (a := r); auto.
  unfold unit_none. apply wps_bind. apply assert_nonzero_s; try assumption. intros s0 _ Z0. cbn [wps ret]. exact Z0.
Qed.
Theorem meth_assert_positive_forced recv x r s' cs : unary_wire recv = Some x ->
  run (gen_meth c (MAssertPositive None) recv []) s = (inl r, s', cs) -> sat cs -> exists v, 0 <= v < 2 ^ Z.of_nat (nbits c) /\ ew x == v.
Proof.
  intros Hw R H. assert (E : gen_meth c (MAssertPositive None) recv [] = unit_none (assert_positive x (nbits c))) by (destruct recv; try discriminate Hw; inversion Hw; subst; reflexivity).
  rewrite E in R. apply (wps_sound w _ _ (unit_none (assert_positive x (nbits c))) s (fun _ _ => exists v, 0 <= v < 2 ^ Z.of_nat (nbits c) /\ ew x == v)) with (s' := s') (cs := cs) (a := r); auto.
  unfold unit_none. apply wps_bind. apply assert_positive_s; try assumption. intros s0 _ Z0. cbn [wps ret]. exact Z0.
Qed.
End RunU.
(* the wire of a fixed-point operand's counterpart: an int k is compared as k * 2^r, a secret integer y as y * 2^r *)
Lemma wires_fxp_int f x k : wires (PFxp f x) (PInt k) = Some (x, constv (k * R c)). Proof. reflexivity. Qed.
Lemma ew_fxp_int k : ew (constv (p:=p) (k * R c)) = k * R c. Proof. apply ew_constv. exact W0. Qed.
Lemma ew_fxp_lc (y : slc) : ew (scale y (R c)) = ew y * R c. Proof. apply ew_scale. Qed.
End AD.
