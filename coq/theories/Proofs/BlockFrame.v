(* C08 for the block API (pysnark.branching's _if / _elif / _else / _while / _breakif / _range on a BranchingValues object):
   every program -- any nesting, any statements -- that COMPLETES leaves the guard, the error-suppression mode and LinComb.ONE
   exactly as it found them, with no branch context left open.  (Exceptions inside a block are the recorded finding F19.)
   Pure statement about [run]: no invariant, no store.  Invariant carried through the induction: the saved triples of the open
   contexts form a chain -- restoring them one after the other ends at the base triple. *)
From Coq Require Import ZArith List Bool Lia.
From PySnark.Base Require Import FieldZ.
From PySnark.Model Require Import Lc Sym Good Gadgets Api Prog.
From PySnark.Proofs Require Import Meta Frame ProgFrame PackCore Wp WpBase GadgetsOK ApiOK ProgOK.
Import ListNotations.
Open Scope Z_scope.

Section BF.
Context {p : Z}.
Variable c : cfg.
Local Notation gst := (@Gadgets.gst p).
Local Notation M := (@Gadgets.M p).
Local Notation gtriple := (Sym.gtriple p).
Local Notation bctx := (Prog.bctx (p:=p)).
Local Notation bst := (Prog.bst (p:=p)).

(* "if m, started in s, returns a value, then Q holds of the value and the final state" *)
Definition wr {lvl A} (m : M lvl A) (s : gst) (Q : A -> gst -> Prop) : Prop := forall r s' cs, run m s = (inl r, s', cs) -> Q r s'.
Lemma wr_ret lvl A (a : A) s (Q : A -> gst -> Prop) : Q a s -> wr (lvl:=lvl) (ret a) s Q.
Proof. intros H r s' cs R. cbn in R. inversion R; subst. exact H. Qed.
Lemma wr_raise lvl A e s (Q : A -> gst -> Prop) : wr (lvl:=lvl) (static_raise e) s Q.
Proof. intros r s' cs R. cbn in R. discriminate R. Qed.
Lemma wr_bind lvl A B (m : M lvl A) (f : A -> M lvl B) s Q : wr m s (fun a s1 => wr (f a) s1 Q) -> wr (bind m f) s Q.
Proof.
  intros H r s' cs R. rewrite run_bind in R. destruct (run m s) as [[[a|e] s1] c1] eqn:E; [|discriminate R].
  destruct (run (f a) s1) as [[r2 s2] c2] eqn:E2. inversion R; subst. exact (H a s1 c1 E r s' c2 E2).
Qed.
Lemma wr_mono lvl A (m : M lvl A) s (Q Q' : A -> gst -> Prop) : (forall a s', Q a s' -> Q' a s') -> wr m s Q -> wr m s Q'.
Proof. intros H W r s' cs R. apply H. exact (W r s' cs R). Qed.
(* library code below the block API (level false) keeps the triple: Proofs/Frame.v *)
Lemma wr_lift A (m : M false A) s : wr (lift m) s (fun _ s' => cur_triple s' = cur_triple s).
Proof. intros r s' cs R. rewrite run_lift in R. exact (proj1 (frame_unwind _ _ _ _ _ _ R)). Qed.
Lemma wr_get s (Q : gst -> gst -> Prop) : Q s s -> wr (lvl:=true) get s Q.
Proof. intros H r s' cs R. cbn in R. inversion R; subst. exact H. Qed.

Lemma triple_eta (t : gtriple) : {| g_guard := g_guard t; g_ignore := g_ignore t; g_one := g_one t |} = t.
Proof. destruct t; reflexivity. Qed.
Lemma wr_restore (b : gtriple) s : wr (restore_guard b) s (fun _ s' => cur_triple s' = b).
Proof.
  intros r s' cs R. unfold restore_guard, set_globals in R. cbn [run] in R. destruct (globals_scoped _ _ _ _ _); [|discriminate R].
  inversion R; subst. unfold cur_triple. cbn [guard ignore one upd_globals]. apply triple_eta.
Qed.
(* add_guard returns the triple that was in force when it was called *)
Lemma wr_add_guard cnd s : wr (add_guard c cnd) s (fun t _ => t = cur_triple s).
Proof.
  unfold add_guard. apply wr_bind. apply wr_get. apply wr_bind. intros gi s1 c1 _. apply wr_bind. intros u s2 c2 _. apply wr_ret. reflexivity.
Qed.
Lemma wr_add_guard_v cnd s : wr (add_guard_v c cnd) s (fun t _ => t = cur_triple s).
Proof.
  unfold add_guard_v. destruct cnd; try apply wr_raise; try apply wr_add_guard.
  destruct (z =? 0); [apply wr_raise|]. destruct (z =? 1); [|apply wr_raise]. apply wr_bind. apply wr_get. apply wr_ret. reflexivity.
Qed.
Lemma wr_ctx_enter k vals cnd nodef icond s : wr (ctx_enter c k vals cnd nodef icond) s (fun cx _ => borig cx = cur_triple s).
Proof. unfold ctx_enter. apply wr_bind. eapply wr_mono; [|apply wr_add_guard_v]. intros t s1 Ht. apply wr_ret. exact Ht. Qed.

(* computations that keep the triple *)
Definition keeps {A} (m : M true A) : Prop := forall s, wr m s (fun _ s' => cur_triple s' = cur_triple s).
Lemma keeps_ret A (a : A) : keeps (ret a). Proof. intros s. apply wr_ret. reflexivity. Qed.
Lemma keeps_raise A e : keeps (static_raise (A:=A) e). Proof. intros s. apply wr_raise. Qed.
Lemma keeps_lift A (m : M false A) : keeps (lift m). Proof. intros s. apply wr_lift. Qed.
Lemma keeps_bind A B (m : M true A) (f : A -> M true B) : keeps m -> (forall a, keeps (f a)) -> keeps (bind m f).
Proof. intros Hm Hf s. apply wr_bind. eapply wr_mono; [|apply Hm]. intros a s1 E. eapply wr_mono; [|apply Hf]. intros b s2 E2. cbn beta in *. congruence. Qed.
Lemma keeps_ite1 cnd t f : keeps (ite1 c cnd t f).
Proof. unfold ite1. apply keeps_bind; [apply keeps_lift|intros v; apply keeps_lift]. Qed.
Lemma keeps_merge_nodef cnd vals : forall nodef, keeps (merge_nodef c cnd vals nodef).
Proof.
  induction nodef as [|[nm old] rest IH]; cbn [merge_nodef]; [apply keeps_ret|]. destruct (dget vals nm); [|apply keeps_raise].
  apply keeps_bind; [apply keeps_ite1|intros v]. apply keeps_bind; [exact IH|intros r; apply keeps_ret].
Qed.
Lemma keeps_merge_bak cnd bak : forall todo acc, keeps (merge_bak c cnd bak todo acc).
Proof.
  induction todo as [|[nm cur] rest IH]; intros acc; cbn [merge_bak]; [apply keeps_ret|]. destruct (dget bak nm); [|apply keeps_raise].
  apply keeps_bind; [apply keeps_ite1|intros v; apply IH].
Qed.
Lemma keeps_bnot_v cnd : keeps (bnot_v c cnd).
Proof. unfold bnot_v. destruct cnd; apply keeps_lift. Qed.
Lemma keeps_name_store b d v : keeps (name_store b d v).
Proof. unfold name_store. apply keeps_bind; [apply keeps_lift|intros v']. apply keeps_bind; [apply keeps_lift|intros u; apply keeps_ret]. Qed.

(* BranchContext.exit puts back the triple saved on entry *)
Lemma wr_ctx_exit cx vals s : wr (ctx_exit c cx vals) s (fun _ s' => cur_triple s' = borig cx).
Proof.
  unfold ctx_exit. apply wr_bind. eapply wr_mono; [|apply wr_restore]. intros u s1 E1.
  assert (K : forall A (m : M true A), keeps m -> forall (Q : A -> gst -> Prop), (forall a s', cur_triple s' = borig cx -> Q a s') -> wr m s1 Q).
  { intros A m Hm Q HQ. eapply wr_mono; [|apply Hm]. intros a s' E. apply HQ. congruence. }
  apply wr_bind. apply K.
  { destruct (bnodef cx); [apply keeps_merge_nodef|apply keeps_ret]. }
  intros nodef s2 E2. apply wr_bind. eapply wr_mono; [|apply keeps_merge_bak]. intros vals2 s3 E3. cbn beta in E3.
  destruct (bk cx); [apply wr_ret; congruence|]. destruct nodef; [apply wr_ret; congruence|apply wr_raise].
Qed.
(* _while / _breakif: exit, re-enter under the new condition -- the saved triple is the same *)
Lemma wr_ctx_while cx vals nw s : wr (ctx_while c cx vals nw) s (fun r _ => borig (fst r) = borig cx).
Proof.
  unfold ctx_while. apply wr_bind. eapply wr_mono; [|apply wr_ctx_exit]. intros vn s1 E1.
  apply wr_bind. eapply wr_mono; [|apply wr_lift]. intros cc s2 E2. cbn beta in E2.
  apply wr_bind. eapply wr_mono; [|apply wr_ctx_enter]. intros cx' s3 E3. apply wr_ret. cbn [fst]. congruence.
Qed.

(* the chain of saved triples *)
Fixpoint chain (stk : list bctx) (cur base : gtriple) : Prop :=
  match stk with [] => cur = base | cx :: rest => chain rest (borig cx) base end.
Definition Ch (base : gtriple) (n : nat) (b : bst) (s : gst) : Prop := chain (bstack b) (cur_triple s) base /\ length (bstack b) = n.
Lemma chain_nonempty cx rest cur cur' base : chain (cx :: rest) cur base -> chain (cx :: rest) cur' base.
Proof. intros H. exact H. Qed.
Lemma Ch_keep base n (b : bst) s s' : cur_triple s' = cur_triple s -> Ch base n b s -> Ch base n b s'.
Proof. intros E [H L]. split; [rewrite E; exact H|exact L]. Qed.

Lemma wr_bindP lvl A B (m : M lvl A) (f : A -> M lvl B) s (P : A -> gst -> Prop) Q :
  wr m s P -> (forall a s1, P a s1 -> wr (f a) s1 Q) -> wr (bind m f) s Q.
Proof. intros Hm Hf. apply wr_bind. eapply wr_mono; [|exact Hm]. intros a s1 Pa. exact (Hf a s1 Pa). Qed.
Lemma wr_keeps A (m : M true A) s (Q : A -> gst -> Prop) : keeps m -> (forall a s', cur_triple s' = cur_triple s -> Q a s') -> wr m s Q.
Proof. intros Hm HQ. eapply wr_mono; [|apply Hm]. intros a s' E. apply HQ. exact E. Qed.

Definition P (base : gtriple) (n : nat) (b' : bst) (s' : gst) : Prop := chain (bstack b') (cur_triple s') base /\ length (bstack b') = n.

Lemma plain_P st b s base : chain (bstack b) (cur_triple s) base ->
  wr (r <- lift (gen_stmt c st (bregs b)) ;; ret (with_regs b r)) s (P base (length (bstack b))).
Proof.
  intros H. apply wr_bind. eapply wr_mono; [|apply wr_lift]. intros r s1 E. apply wr_ret. split; [cbn [bstack with_regs]; rewrite E; exact H|reflexivity].
Qed.

(* a block of statements inside gen_top (an anonymous nested fixpoint); IH is the outer induction hypothesis *)
Ltac solve_blk IH bs :=
  let IHb := fresh "IHb" in let l0 := fresh "l0" in let b0 := fresh "bq" in let s0 := fresh "sq" in
  let N0 := fresh "Nq" in let H0 := fresh "Hq" in let st1 := fresh "stq" in let l1 := fresh "lq" in
  let N1 := fresh "Nq" in let N2 := fresh "Nq" in let b1 := fresh "bq" in let s1 := fresh "sq" in let H1 := fresh "Hq" in let L1 := fresh "Lq" in
  fix IHb 1; intros l0 b0 s0 N0 H0; destruct l0 as [|st1 l1];
  [ apply wr_ret; split; [exact H0|reflexivity]
  | cbn [forallb] in N0; apply andb_prop in N0; destruct N0 as [N1 N2]; lazy beta iota;
    apply wr_bindP with (P := P bs (length (bstack b0))); [apply IH; assumption|]; intros b1 s1 [H1 L1];
    eapply wr_mono; [|apply IHb; assumption]; intros ? ? [? ?]; split; [assumption|congruence] ].

Lemma name_store_P b d v s base : chain (bstack b) (cur_triple s) base -> wr (name_store b d v) s (P base (length (bstack b))).
Proof.
  intros H. unfold name_store. apply wr_bind. eapply wr_mono; [|apply wr_lift]. intros v' s1 E1.
  apply wr_bind. eapply wr_mono; [|apply wr_lift]. intros u s2 E2. cbn beta in *. apply wr_ret. split; [cbn [bstack with_regs]; rewrite E2, E1; exact H|reflexivity].
Qed.
Ltac liftk H := apply wr_bind; eapply wr_mono; [|apply wr_lift]; let v := fresh "v" in let s1 := fresh "s" in let E := fresh "E" in intros v s1 E; cbn beta in E; rewrite <- E in H.

Lemma gen_top_P : forall st b s base, noign st = true -> chain (bstack b) (cur_triple s) base ->
  wr (gen_top c st b) s (P base (length (bstack b))).
Proof.
  fix IH 1. intros st b s base N H.
  destruct st; cbn [gen_top]; try (apply plain_P; assumption).
  - discriminate N.
  - (* SBSet *) liftk H. apply wr_ret. split; [exact H|reflexivity].
  - (* SBGet *) destruct (dget (bvals b) nm); [apply name_store_P; exact H|apply wr_raise].
  - (* SBSetIdx *) destruct (dget (bvals b) nm); [|apply wr_raise]. liftk H. destruct (upd_path p0 path v); [|apply wr_raise].
    apply wr_ret. split; [exact H|reflexivity].
  - (* SBGetIdx *) destruct (dget (bvals b) nm); [|apply wr_raise]. destruct (get_path p0 path); [apply name_store_P; exact H|apply wr_raise].
  - (* SBArrSet *) destruct (dget (bvals b) nm) as [v0|]; [|apply wr_raise]. destruct v0; try apply wr_raise. destruct row; [apply wr_raise|].
    liftk H. liftk H. apply wr_ret. split; [exact H|reflexivity].
  - (* SOIf *)
    cbn [noign] in N. apply andb_prop in N. destruct N as [N Nel]. apply andb_prop in N. destruct N as [Nt Nes].
    apply wr_bindP with (P := fun _ s1 => cur_triple s1 = cur_triple s); [apply keeps_bnot_v|]. intros ic s1 E1.
    apply wr_bindP with (P := fun cx _ => borig cx = cur_triple s1); [apply wr_ctx_enter|]. intros cx s2 Ecx.
    assert (H2 : chain (bstack (with_stack b (cx :: bstack b))) (cur_triple s2) base) by (cbn [bstack with_stack chain]; rewrite Ecx, E1; exact H).
    apply wr_bindP with (P := P base (S (length (bstack b)))).
    { generalize H2; generalize Nt; generalize s2. change (S (length (bstack b))) with (length (bstack (with_stack b (cx :: bstack b)))).
      generalize (with_stack b (cx :: bstack b)); generalize thenb. solve_blk IH base. }
    intros b1 s3 [H3 L3].
    (* the elif chain keeps the depth *)
    apply wr_bindP with (P := P base (S (length (bstack b)))).
    { generalize L3; generalize H3; generalize Nes; generalize s3; generalize b1; generalize elifs.
      fix IHc 1. intros es b0 s0 N0 H0 L0. destruct es as [|[[condb cr] body] es'].
      - apply wr_ret. split; assumption.
      - cbn [forallb fst snd] in N0. apply andb_prop in N0. destruct N0 as [N0 Nes']. apply andb_prop in N0. destruct N0 as [Ncb Nbody].
        lazy beta iota. destruct (bstack b0) as [|cx0 rest] eqn:Eb; [apply wr_raise|]. cbn [chain length] in H0, L0.
        apply wr_bindP with (P := fun _ s4 => cur_triple s4 = borig cx0); [apply wr_ctx_exit|]. intros vn s4 E4.
        assert (H4 : chain (bstack (with_stack (with_vals b0 (fst vn)) rest)) (cur_triple s4) base).
        { cbn [bstack with_stack]. rewrite E4. destruct rest; exact H0. }
        apply wr_bindP with (P := P base (length rest)).
        { generalize H4; generalize Ncb; generalize s4. change (length rest) with (length (bstack (with_stack (with_vals b0 (fst vn)) rest))).
          generalize (with_stack (with_vals b0 (fst vn)) rest); generalize condb. solve_blk IH base. }
        intros bc s5 [H5 L5].
        destruct (bicond cx0) as [ic0|]; [|apply wr_raise].
        apply wr_bindP with (P := fun _ s6 => cur_triple s6 = cur_triple s5); [apply keeps_bnot_v|]. intros nn s6 E6.
        apply wr_bindP with (P := fun _ s7 => cur_triple s7 = cur_triple s6); [apply wr_lift|]. intros nwic s7 E7.
        apply wr_bindP with (P := fun _ s8 => cur_triple s8 = cur_triple s7); [apply wr_lift|]. intros en s8 E8.
        apply wr_bindP with (P := fun cx1 _ => borig cx1 = cur_triple s8); [apply wr_ctx_enter|]. intros cx1 s9 Ecx1.
        assert (H9 : chain (bstack (with_stack bc (cx1 :: bstack bc))) (cur_triple s9) base).
        { cbn [bstack with_stack chain]. rewrite Ecx1, E8, E7, E6. exact H5. }
        apply wr_bindP with (P := P base (S (length rest))).
        { generalize H9; generalize Nbody; generalize s9. replace (S (length rest)) with (length (bstack (with_stack bc (cx1 :: bstack bc)))) by (cbn [bstack with_stack length]; congruence).
          generalize (with_stack bc (cx1 :: bstack bc)); generalize body. solve_blk IH base. }
        intros bb s10 [H10 L10]. apply IHc; [exact Nes'|exact H10|congruence]. }
    intros b2 s4 [H4 L4].
    apply wr_bindP with (P := P base (S (length (bstack b)))).
    { destruct elseb as [body|]; [|apply wr_ret; split; assumption].
      destruct (bstack b2) as [|cx0 rest] eqn:Eb; [apply wr_raise|]. cbn [chain length] in H4, L4.
      apply wr_bindP with (P := fun _ s5 => cur_triple s5 = borig cx0); [apply wr_ctx_exit|]. intros vn s5 E5.
      destruct (bicond cx0) as [ic0|]; [|apply wr_raise].
      apply wr_bindP with (P := fun cx1 _ => borig cx1 = cur_triple s5); [apply wr_ctx_enter|]. intros cx1 s6 Ecx1.
      assert (H6 : chain (bstack (with_stack (with_vals b2 (fst vn)) (cx1 :: rest))) (cur_triple s6) base).
      { cbn [bstack with_stack chain]. rewrite Ecx1, E5. destruct rest; exact H4. }
      generalize H6; generalize Nel; generalize s6. replace (S (length (bstack b))) with (length (bstack (with_stack (with_vals b2 (fst vn)) (cx1 :: rest)))) by (cbn [bstack with_stack length]; congruence).
      generalize (with_stack (with_vals b2 (fst vn)) (cx1 :: rest)); generalize body. solve_blk IH base. }
    intros b3 s5 [H5 L5].
    destruct (bstack b3) as [|cx0 rest] eqn:Eb; [apply wr_raise|]. cbn [chain length] in H5, L5.
    apply wr_bindP with (P := fun _ s6 => cur_triple s6 = borig cx0); [apply wr_ctx_exit|]. intros vn s6 E6.
    assert (K : P base (length (bstack b)) (with_stack (with_vals b3 (fold_left (fun d jv => dset d (fst jv) (snd jv)) (snd vn) (fst vn))) rest) s6).
    { split; [cbn [bstack with_stack]; rewrite E6; destruct rest; exact H5|cbn [bstack with_stack]; congruence]. }
    destruct (snd vn); [|destruct (bicond cx0); [apply wr_raise|]]; apply wr_ret; exact K.
  - (* SOWhile *)
    cbn [noign] in N. apply andb_prop in N. destruct N as [Ncb Nbody].
    apply wr_bindP with (P := P base (length (bstack b))).
    { generalize H; generalize Ncb; generalize s; generalize b; generalize condb. solve_blk IH base. }
    intros bc s1 [H1 L1].
    apply wr_bindP with (P := fun cx _ => borig cx = cur_triple s1); [apply wr_ctx_enter|]. intros cx s2 Ecx.
    assert (H2 : chain (bstack (with_stack bc (cx :: bstack bc))) (cur_triple s2) base) by (cbn [bstack with_stack chain]; rewrite Ecx; exact H1).
    assert (L2 : length (bstack (with_stack bc (cx :: bstack bc))) = S (length (bstack b))) by (cbn [bstack with_stack length]; congruence).
    apply wr_bindP with (P := P base (S (length (bstack b)))).
    { generalize L2; generalize H2; generalize s2; generalize (with_stack bc (cx :: bstack bc)); generalize iters.
      fix IHl 1. intros k b0 s0 H0 L0. destruct k as [|k']; [apply wr_ret; split; assumption|].
      apply wr_bindP with (P := P base (length (bstack b0))).
      { generalize H0; generalize Nbody; generalize s0; generalize b0; generalize body. solve_blk IH base. }
      intros b1 s3 [H3 L3].
      apply wr_bindP with (P := P base (length (bstack b1))).
      { generalize H3; generalize Ncb; generalize s3; generalize b1; generalize condb. solve_blk IH base. }
      intros b2 s4 [H4 L4].
      destruct (bstack b2) as [|cx0 rest] eqn:Eb; [apply wr_raise|]. cbn [chain] in H4.
      apply wr_bindP with (P := fun r _ => borig (fst r) = borig cx0); [apply wr_ctx_while|]. intros r s5 Er.
      apply IHl; [cbn [bstack with_stack chain]; rewrite Er; exact H4|cbn [bstack with_stack length]; cbn [length] in L4; congruence]. }
    intros bl s3 [H3 L3].
    destruct (bstack bl) as [|cx0 rest] eqn:Eb; [apply wr_raise|]. cbn [chain length] in H3, L3.
    apply wr_bindP with (P := fun _ s4 => cur_triple s4 = borig cx0); [apply wr_ctx_exit|]. intros vn s4 E4.
    apply wr_ret. split; [cbn [bstack with_stack]; rewrite E4; destruct rest; exact H3|cbn [bstack with_stack]; congruence].
  - (* SBreakIf *)
    destruct (bstack b) as [|cx rest] eqn:Eb; [apply wr_raise|]. cbn [chain] in H.
    apply wr_bindP with (P := fun _ s1 => cur_triple s1 = cur_triple s); [apply keeps_bnot_v|]. intros nc s1 E1.
    apply wr_bindP with (P := fun r _ => borig (fst r) = borig cx); [apply wr_ctx_while|]. intros r s2 Er.
    apply wr_ret. split; [cbn [bstack with_stack chain]; rewrite Er; exact H|cbn [bstack with_stack length]; reflexivity].
  - (* SOFor *)
    cbn [noign] in N. destruct (rget (bregs b) stop); try apply wr_raise.
    apply wr_bindP with (P := fun _ s1 => cur_triple s1 = cur_triple s); [apply wr_lift|]. intros c0 s1 E1.
    apply wr_bindP with (P := fun cx _ => borig cx = cur_triple s1); [apply wr_ctx_enter|]. intros cx s2 Ecx.
    assert (H2 : chain (bstack (with_stack b (cx :: bstack b))) (cur_triple s2) base) by (cbn [bstack with_stack chain]; rewrite Ecx, E1; exact H).
    assert (L2 : length (bstack (with_stack b (cx :: bstack b))) = S (length (bstack b))) by reflexivity.
    apply wr_bindP with (P := P base (S (length (bstack b)))).
    { generalize L2; generalize H2; generalize s2; generalize (with_stack b (cx :: bstack b)); generalize (Z.to_nat (maxv - start - 1)); generalize start. intros i0 k0; revert k0 i0.
      fix IHl 1. intros k i b0 s0 H0 L0. destruct k as [|k']; lazy beta iota.
      - apply wr_bindP with (P := P base (length (bstack b0))); [apply name_store_P; exact H0|]. intros b1 s3 [H3 L3].
        apply wr_bindP with (P := P base (length (bstack b1))).
        { generalize H3; generalize N; generalize s3; generalize b1; generalize body. solve_blk IH base. }
        intros b2 s4 [H4 L4]. apply wr_ret. split; [exact H4|congruence].
      - apply wr_bindP with (P := P base (length (bstack b0))); [apply name_store_P; exact H0|]. intros b1 s3 [H3 L3].
        apply wr_bindP with (P := P base (length (bstack b1))).
        { generalize H3; generalize N; generalize s3; generalize b1; generalize body. solve_blk IH base. }
        intros b2 s4 [H4 L4].
        apply wr_bindP with (P := fun _ s5 => cur_triple s5 = cur_triple s4); [apply wr_lift|]. intros cj s5 E5.
        destruct (bstack b2) as [|cx0 rest] eqn:Eb; [apply wr_raise|]. cbn [chain] in H4.
        apply wr_bindP with (P := fun r _ => borig (fst r) = borig cx0); [apply wr_ctx_while|]. intros r s6 Er.
        apply IHl; [cbn [bstack with_stack chain]; rewrite Er; exact H4|cbn [bstack with_stack length]; cbn [length] in L4; congruence]. }
    intros bl s3 [H3 L3].
    apply wr_bindP with (P := fun _ s4 => cur_triple s4 = cur_triple s3).
    { destruct check; [|apply wr_ret; reflexivity].
      destruct (bstack bl) as [|cx0 rest]; [apply wr_raise|].
      apply wr_bindP with (P := fun _ s4 => cur_triple s4 = cur_triple s3); [apply wr_lift|]. intros cl s4 E4.
      apply wr_bindP with (P := fun _ s5 => cur_triple s5 = cur_triple s4); [apply wr_lift|]. intros a s5 E5.
      destruct a; try apply wr_raise. eapply wr_mono; [|apply wr_lift]. intros u s6 E6. cbn beta in E6. congruence. }
    intros u s4 E4.
    destruct (bstack bl) as [|cx0 rest] eqn:Eb; [apply wr_raise|]. cbn [chain length] in H3, L3.
    apply wr_bindP with (P := fun _ s5 => cur_triple s5 = borig cx0); [apply wr_ctx_exit|]. intros vn s5 E5.
    apply wr_ret. split; [cbn [bstack with_stack]; rewrite E5; destruct rest; exact H3|cbn [bstack with_stack]; congruence].
Qed.

Lemma gen_stmts_P : forall pr b s base, forallb noign pr = true -> chain (bstack b) (cur_triple s) base ->
  wr (gen_stmts c pr b) s (P base (length (bstack b))).
Proof.
  induction pr as [|s1 pr IHp]; intros b s base N H; cbn [gen_stmts]; [apply wr_ret; split; [exact H|reflexivity]|].
  cbn [forallb] in N. apply andb_prop in N. destruct N as [N1 N2].
  apply wr_bindP with (P := P base (length (bstack b))); [apply gen_top_P; assumption|]. intros b1 s1' [H1 L1].
  eapply wr_mono; [|exact (IHp b1 s1' base N2 H1)]. intros b2 s2 [H2 L2]. split; [exact H2|congruence].
Qed.

(* every block-API program that completes leaves the guard, the error mode and ONE as they were, and no context open *)
Theorem block_program_restores (pr : list stmt) b' s' cs : forallb noign pr = true ->
  run (gen_stmts c pr bst0) (init_gst (p:=p)) = (inl b', s', cs) ->
  cur_triple s' = cur_triple (init_gst (p:=p)) /\ bstack b' = [].
Proof.
  intros N R. destruct (gen_stmts_P pr bst0 init_gst (cur_triple init_gst) N eq_refl b' s' cs R) as [H L].
  cbn [bstack bst0 length] in L. destruct (bstack b') as [|cx rest] eqn:Eb; [|discriminate L]. split; [exact H|reflexivity].
Qed.
End BF.
