(* A weakest-precondition calculus for the generator monad, sound for [interp (run m)]:
   [wp m s sg Q] holds when running the computation m from generator state s, with the witness store sg recorded so far
   and no exception raised so far, (1) emits only constraints whose VALUES satisfy v * w = y (mod p) at the moment of
   emission -- the hypothesis [vjust] of the completeness transfer theorem Meta.sat_final -- and (2) if no exception is
   raised, ends in a result, state and store satisfying Q.  Value-dependent raises make the rest vacuous (the run is
   over); allocations extend the store with the value of the hint; the model-internal scope checks of [run] are available
   as hypotheses.  Proved once by induction over the free monad (wp_sound); gadgets are then verified by symbolic
   execution ([wp_bind], [wp_mono]). *)
From Coq Require Import ZArith List Bool Lia Znumtheory.
From PySnark.Base Require Import FieldZ.
From PySnark.Model Require Import Lc Sym Good Gadgets.
From PySnark.Proofs Require Import Meta Frame.
Import ListNotations.
Open Scope Z_scope.

Section W.
Context {p : Z}.
Variable ins : list Z.
Variable ig : bool.
Local Notation gst := (@Gadgets.gst p).
Local Notation cmd := (Sym.cmd p).
Local Notation slc := (Sym.slc p).
Local Notation M := (@Gadgets.M p).
Local Notation step := (Sym.step p ins ig).
Local Notation ve := (Sym.veval p ins ig).
Local Notation be := (Sym.beval p ins ig).

Definition push_priv (sg : store) (z : Z) : store := {| pubs := pubs sg; privs := privs sg ++ [z] |}.
Definition push_pub (sg : store) (z : Z) : store := {| pubs := pubs sg ++ [z]; privs := privs sg |}.

Fixpoint wp {lvl A} (m : M lvl A) : gst -> store -> (A -> gst -> store -> Prop) -> Prop :=
  match m in Gadgets.M _ T return gst -> store -> (T -> gst -> store -> Prop) -> Prop with
  | Ret a => fun s sg Q => Q a s sg
  | Raise e => fun _ _ _ => True
  | Get k => fun s sg Q => wp (k s) s sg Q
  | MPriv h k => fun s sg Q =>
      vscopedb (npub s) (npriv s) h = true ->
      wp (k (var_slc (- (npriv s + 1)))) (upd_counters s (npub s) (npriv s + 1) (noid s)) (push_priv sg (ve sg h)) Q
  | MPub h k => fun s sg Q =>
      vscopedb (npub s) (npriv s) h = true ->
      wp (k (var_slc (npub s + 1))) (upd_counters s (npub s + 1) (npriv s) (noid s)) (push_pub sg (ve sg h)) Q
  | Fresh k => fun s sg Q => wp (k (noid s)) (upd_counters s (npub s) (npriv s) (noid s + 1)) sg Q
  | Emit c k => fun s sg Q =>
      emittable c && cmd_scoped (npub s) (npriv s) c && cmd_vscoped (npub s) (npriv s) c = true ->
      emit_vals_ok ins ig sg c /\ wp k s sg Q
  | RaiseIf b e k => fun s sg Q => bscopedb (npub s) (npriv s) b = true -> be sg b = false -> wp k s sg Q
  | Local g i body k => fun s sg Q =>
      globals_scoped (npub s) (npriv s) (Some g) i g = true ->
      wp body (upd_globals s (Some g) i g (match unw s with None => Some (cur_triple s) | Some u => Some u end)) sg
         (fun x s1 sg1 => wp (k x) (upd_globals s1 (guard s) (ignore s) (one s) (unw s)) sg1 Q)
  | SetGlobals _ g i o k => fun s sg Q =>
      globals_scoped (npub s) (npriv s) g i o = true -> wp k (upd_globals s g i o (unw s)) sg Q
  end.

Lemma wp_mono : forall lvl A (m : M lvl A) s sg (Q Q' : A -> gst -> store -> Prop),
  (forall a s' sg', Q a s' sg' -> Q' a s' sg') -> wp m s sg Q -> wp m s sg Q'.
Proof.
  intros lvl A m. induction m as [A a|A e|A k IH|A h k IH|A h k IH|A k IH|A c k IH|A b e k IH|A X g i body IHb k IHk|A H g i o k IH];
    intros s sg Q Q' HQ W; cbn [wp] in *; auto.
  - eapply IH; eauto.
  - intros C. eapply IH; eauto.
  - intros C. eapply IH; eauto.
  - eapply IH; eauto.
  - intros C. destruct (W C) as [W1 W2]. split; [exact W1|]. eapply IH; eauto.
  - intros C B. eapply IH; eauto.
  - intros C. eapply IHb; [|exact (W C)]. intros x s1 sg1 W1. eapply IHk; eauto.
  - intros C. eapply IH; eauto.
Qed.

Lemma wp_bind : forall lvl A B (m : M lvl A) (f : A -> M lvl B) s sg Q,
  wp m s sg (fun a s' sg' => wp (f a) s' sg' Q) -> wp (bind m f) s sg Q.
Proof.
  intros lvl A B m. induction m as [A a|A e|A k IH|A h k IH|A h k IH|A k IH|A c k IH|A b e k IH|A X g i body IHb k IHk|A H g i o k IH];
    intros f s sg Q W; cbn [wp bind] in *; auto.
  - intros C. destruct (W C) as [W1 W2]. split; [exact W1|]. apply IH. exact W2.
  - intros C. eapply wp_mono; [|exact (W C)]. intros x s1 sg1 W1. cbn beta in *. apply IHk. exact W1.
Qed.

(* wp does not see the level *)
Lemma wp_lift : forall A (m : M false A) s sg Q, wp m s sg Q -> wp (lift m) s sg Q.
Proof.
  intros A m. induction m as [A a|A e|A k IH|A h k IH|A h k IH|A k IH|A c k IH|A b e k IH|A X g i body IHb k IHk|A H g i o k IH];
    intros s sg Q W; cbn [wp lift] in *; auto.
  - intros C. destruct (W C) as [W1 W2]. split; [exact W1|]. apply IH. exact W2.
  - intros C. apply IHb. eapply wp_mono; [|exact (W C)]. intros x s1 sg1 W1. cbn beta in *. apply IHk. exact W1.
  - discriminate H.
Qed.

(* ------------------------------------------------------------------ soundness w.r.t. run + interp *)
Lemma vjust_raised cs : forall t e, raised t = Some e -> vjust (p:=p) ins ig cs t.
Proof.
  induction cs as [|c cs IH]; intros t e H; cbn [vjust]; [exact I|]. split; [intros H'; congruence|].
  rewrite (step_raised _ _ _ _ _ H). eapply IH; eauto.
Qed.
Lemma vjust_app c1 : forall c2 t, vjust (p:=p) ins ig c1 t -> vjust ins ig c2 (fold_left step c1 t) -> vjust ins ig (c1 ++ c2) t.
Proof.
  induction c1 as [|c c1 IH]; intros c2 t V1 V2; cbn [app vjust fold_left] in *; [exact V2|].
  destruct V1 as [V V1]. split; [exact V|]. apply IH; assumption.
Qed.

Definition post_of {A} (Q : A -> gst -> store -> Prop) (r : A + exn) (s' : gst) (t' : trace) : Prop :=
  raised t' = None -> exists a, r = inl a /\ Q a s' (st t').

Lemma model_err_sound A (s : gst) (t : trace) (Q : A -> gst -> store -> Prop) r s' cs :
  raised t = None -> model_err s = (r, s', cs) -> vjust (p:=p) ins ig cs t /\ post_of Q r s' (fold_left step cs t).
Proof.
  intros Hr R. unfold model_err in R. inversion R; subst. split.
  - cbn [vjust]. split; [intros _; exact I|exact I].
  - intros H. cbn [fold_left] in H. unfold Sym.step in H. rewrite Hr in H. cbn in H. discriminate H.
Qed.

Theorem wp_sound : forall lvl A (m : M lvl A) s sg Q, wp m s sg Q ->
  forall t, st t = sg -> raised t = None -> forall r s' cs, run m s = (r, s', cs) ->
  vjust (p:=p) ins ig cs t /\ post_of Q r s' (fold_left step cs t).
Proof.
  intros lvl A m. induction m as [A a|A e|A k IH|A h k IH|A h k IH|A k IH|A c k IH|A b e k IH|A X g i body IHb k IHk|A H g i o k IH];
    intros s sg Q W t Hs Hr r s' cs R; cbn [run wp] in *.
  - inversion R; subst. split; [exact I|]. intros _. exists a. split; [reflexivity|exact W].
  - inversion R; subst. split; [split; [intros _; exact I|exact I]|].
    intros H. cbn [fold_left] in H. unfold Sym.step in H. rewrite Hr in H. cbn in H. discriminate H.
  - eapply IH; eauto.
  - destruct (vscopedb (npub s) (npriv s) h) eqn:C; [|eapply model_err_sound; eauto].
    destruct (run (k _) _) as [[r0 s0] c0] eqn:E. inversion R; subst.
    assert (T1 : st (step t (CAlloc Priv h)) = push_priv (st t) (ve (st t) h) /\ raised (step t (CAlloc Priv h)) = None).
    { unfold Sym.step. rewrite Hr. cbn. split; reflexivity. }
    destruct T1 as [T1 T2]. destruct (IH _ _ _ _ (W eq_refl) _ T1 T2 _ _ _ E) as [V P].
    split; [split; [intros _; exact I|exact V]|exact P].
  - destruct (vscopedb (npub s) (npriv s) h) eqn:C; [|eapply model_err_sound; eauto].
    destruct (run (k _) _) as [[r0 s0] c0] eqn:E. inversion R; subst.
    assert (T1 : st (step t (CAlloc Pub h)) = push_pub (st t) (ve (st t) h) /\ raised (step t (CAlloc Pub h)) = None).
    { unfold Sym.step. rewrite Hr. cbn. split; reflexivity. }
    destruct T1 as [T1 T2]. destruct (IH _ _ _ _ (W eq_refl) _ T1 T2 _ _ _ E) as [V P].
    split; [split; [intros _; exact I|exact V]|exact P].
  - eapply IH; eauto.
  - destruct (emittable c && cmd_scoped (npub s) (npriv s) c && cmd_vscoped (npub s) (npriv s) c) eqn:C; [|eapply model_err_sound; eauto].
    destruct (run k s) as [[r0 s0] c0] eqn:E. inversion R; subst. destruct (W eq_refl) as [W1 W2].
    assert (T1 : st (step t c) = st t /\ raised (step t c) = None).
    { apply andb_prop in C. destruct C as [C _]. apply andb_prop in C. destruct C as [C _].
      unfold Sym.step. rewrite Hr. destruct c; try discriminate C; cbn; split; reflexivity. }
    destruct T1 as [T1 T2]. destruct (IH _ _ _ W2 _ T1 T2 _ _ _ E) as [V P].
    split; [split; [intros _; exact W1|exact V]|exact P].
  - destruct (bscopedb (npub s) (npriv s) b) eqn:C; [|eapply model_err_sound; eauto].
    destruct (run k s) as [[r0 s0] c0] eqn:E. inversion R; subst. cbn [fold_left vjust].
    destruct (be (st t) b) eqn:B.
    + assert (T2 : exists x, raised (step t (CRaiseIf b e (unw_triple s))) = Some x).
      { unfold Sym.step. rewrite Hr, B. cbn. eexists; reflexivity. }
      destruct T2 as [x T2]. split; [split; [intros _; exact I|eapply vjust_raised; eauto]|].
      intros H. rewrite (fold_raised _ _ _ _ _ T2) in H. congruence.
    + assert (T1 : step t (CRaiseIf b e (unw_triple s)) = t) by (unfold Sym.step; rewrite Hr, B; reflexivity).
      rewrite T1. destruct (IH _ _ _ (W eq_refl eq_refl) _ eq_refl Hr _ _ _ E) as [V P].
      split; [split; [intros _; exact I|exact V]|exact P].
  - destruct (globals_scoped (npub s) (npriv s) (Some g) i g) eqn:C; [|eapply model_err_sound; eauto].
    specialize (W eq_refl).
    set (s_in := upd_globals s (Some g) i g _) in *.
    destruct (run body s_in) as [[[x|e] s1] c1] eqn:Eb.
    + destruct (run (k x) _) as [[r2 s2] c2] eqn:Ek. inversion R; subst.
      destruct (IHb _ _ _ W _ eq_refl Hr _ _ _ Eb) as [V1 P1]. rewrite fold_left_app.
      destruct (raised (fold_left step c1 t)) eqn:Er1.
      * split; [apply vjust_app; [exact V1|eapply vjust_raised; eauto]|].
        intros H. rewrite (fold_raised _ _ _ _ _ Er1) in H. congruence.
      * destruct (P1 Er1) as [a [Ea Wk]]. inversion Ea; subst a.
        destruct (IHk _ _ _ _ Wk _ eq_refl Er1 _ _ _ Ek) as [V2 P2].
        split; [apply vjust_app; assumption|exact P2].
    + inversion R; subst. destruct (IHb _ _ _ W _ eq_refl Hr _ _ _ Eb) as [V1 P1].
      split; [exact V1|]. intros H. destruct (P1 H) as [a [Ea _]]. discriminate Ea.
  - destruct (globals_scoped (npub s) (npriv s) g i o) eqn:C; [|eapply model_err_sound; eauto].
    eapply IH; eauto.
Qed.
End W.
