From Coq Require Import ZArith List Bool Lia.
From PySnark.Base Require Import FieldZ.
From PySnark.Model Require Import Lc Sym Zkif.
Import ListNotations.
Open Scope Z_scope.

Section Z.
Variable p : Z.
Hypothesis Hp : 0 < p.
Notation "a == b" := (feq p a b) (at level 70).
Lemma feq_modp a : a mod p == a.
Proof. exists (- (a / p)). rewrite (Z.mod_eq a p) by lia. ring. Qed.

(* a variable that has been allocated: 0, 1..npub, -1..-npriv *)
Definition allocated (pubs privs : list Z) (k : var) : Prop := - Z.of_nat (length privs) <= k <= Z.of_nat (length pubs).

Lemma zassign_wval pubs privs k : allocated pubs privs k ->
  zassign p pubs privs (zk_var (Z.of_nat (length pubs)) k) == wval {| Sym.pubs := pubs; Sym.privs := privs |} k.
Proof.
  intros A. unfold allocated in A. unfold zassign, zk_var, wval. cbn [Sym.pubs Sym.privs].
  destruct (Z.eqb_spec k 0) as [->|Hk]; [reflexivity|].
  destruct (Z.leb_spec 0 k) as [H0|H0].
  - replace (k =? 0) with false by lia. replace (0 <? k) with true by lia.
    rewrite map_app, app_nth1 by (rewrite map_length; lia).
    rewrite (nth_indep _ 0 (0 mod p)) by (rewrite map_length; lia). rewrite (map_nth (fun v => v mod p)). apply feq_modp.
  - replace (Z.of_nat (length pubs) - k =? 0) with false by lia. replace (0 <? k) with false by lia.
    rewrite map_app, app_nth2 by (rewrite map_length; lia). rewrite map_length.
    replace (Z.to_nat (Z.of_nat (length pubs) - k - 1) - length pubs)%nat with (Z.to_nat (- k - 1)) by lia.
    rewrite (nth_indep _ 0 (0 mod p)) by (rewrite map_length; lia). rewrite (map_nth (fun v => v mod p)). apply feq_modp.
Qed.

Lemma zeval_eval pubs privs l : Forall (fun kv => allocated pubs privs (fst kv)) l ->
  zeval (zassign p pubs privs) (zk_lc p (Z.of_nat (length pubs)) l) == eval (wval {| Sym.pubs := pubs; Sym.privs := privs |}) l.
Proof.
  induction 1 as [|kv l A _ IH]; [reflexivity|]. cbn [zk_lc map zeval eval fold_right fst snd].
  change (fold_right (fun kv0 acc => snd kv0 * zassign p pubs privs (fst kv0) + acc) 0 (map (fun kv0 => (zk_var (Z.of_nat (length pubs)) (fst kv0), snd kv0 mod p)) l))
    with (zeval (zassign p pubs privs) (zk_lc p (Z.of_nat (length pubs)) l)).
  change (fold_right (fun vc acc => snd vc * wval {| Sym.pubs := pubs; Sym.privs := privs |} (fst vc) + acc) 0 l)
    with (eval (wval {| Sym.pubs := pubs; Sym.privs := privs |}) l).
  rewrite IH, (zassign_wval _ _ _ A), feq_modp. reflexivity.
Qed.

(* the decoded assignment satisfies a decoded constraint iff the traced assignment satisfies the traced one *)
Theorem zk_con_sat pubs privs c :
  Forall (fun kv => allocated pubs privs (fst kv)) (fst (fst c)) -> Forall (fun kv => allocated pubs privs (fst kv)) (snd (fst c)) ->
  Forall (fun kv => allocated pubs privs (fst kv)) (snd c) ->
  let w := wval {| Sym.pubs := pubs; Sym.privs := privs |} in
  let zc := zk_con p (Z.of_nat (length pubs)) c in
  (zeval (zassign p pubs privs) (fst (fst zc)) * zeval (zassign p pubs privs) (snd (fst zc)) == zeval (zassign p pubs privs) (snd zc))
  <-> (eval w (fst (fst c)) * eval w (snd (fst c)) == eval w (snd c)).
Proof.
  intros A B C w zc. unfold zc, zk_con. cbn [fst snd].
  rewrite (zeval_eval _ _ _ A), (zeval_eval _ _ _ B), (zeval_eval _ _ _ C). reflexivity.
Qed.
End Z.
