(* C15 at the level of the model: the constraints that Model/Prog.v's array read [arr_get1] with a SECRET index emits -- through
   the Python operator dispatch ([x == j] for every position, sum(...), assert_eq(1), sum(c*v)) -- force, for ANY assignment
   satisfying them, the index onto exactly one position and the result onto the element at that position; an index outside
   the array admits no satisfying assignment.  Links Proofs/ArrayCore.v to what the model really emits. *)
From Coq Require Import ZArith List Bool Lia Znumtheory Setoid Morphisms.
From PySnark.Base Require Import FieldZ.
From PySnark.Model Require Import Lc Sym Good Gadgets Api Prog.
From PySnark.Proofs Require Import LcProofs Meta Frame Sound Adv AdvGadgets ArrayCore.
Import ListNotations.
Open Scope Z_scope.

Section AM.
Context {p : Z}.
Hypothesis Hp : prime p.
Variable w : var -> Z.
Hypothesis W0 : w 0 = 1.
Variable c : cfg.
Local Notation gst := (@Gadgets.gst p).
Local Notation slc := (Sym.slc p).
Local Notation pyval := (Api.pyval p).
Local Notation G := (@Gadgets.G p).
Local Notation wps := (Adv.wps (p:=p) w).
Local Notation ew := (AdvGadgets.ew (p:=p) w).
Local Notation same := (AdvGadgets.same (p:=p)).
Local Notation Gok := (AdvGadgets.Gok (p:=p) w).
Local Notation Oone := (AdvGadgets.Oone (p:=p) w).
Local Notation "a == b" := (feq p a b) (at level 70).
Local Existing Instance feq_equiv.
Local Existing Instance feq_add.
Local Existing Instance feq_sub.
Local Existing Instance feq_mul.
Local Existing Instance feq_opp.
Local Notation op2 := (Api.pyop (p:=p) c).

Ltac disp := unfold pyop, FUEL;
  cbn [binop dispatch lc_dunder lc_rdunder bool_dunder bool_rdunder bind ret uneg same_class m_check_zero boolr lcr NI].

(* x == j for a secret x and a public position j: a LinCombBool whose wire is forced to [x = j] *)
Lemma eq_int_s x j s (Q : pyval -> gst -> Prop) :
  (forall r s', same s s' -> (ew x == j -> ew r == 1) /\ (~ ew x == j -> ew r == 0) -> Q (PBool 0 r) s') -> wps (op2 OEq (PLC x) (PInt j)) s Q.
Proof.
  intros HQ. disp. apply wps_bind. unfold boolr. apply wps_bind. apply (check_zero_s Hp w W0). intros r s' S [A B]. cbn [ret wps bind]. apply HQ; [exact S|].
  assert (E : ew (addc x (- j)) = ew x - j) by (rewrite (ew_addc w W0); ring). rewrite E in A, B. split; intros H.
  - apply A. rewrite H. apply eq_feq. ring.
  - apply B. intros Z0. apply H. transitivity (ew x - j + j); [apply eq_feq; ring|]. rewrite Z0. apply eq_feq. ring.
Qed.

Lemma selectors_s x : forall n i s (Q : list pyval -> gst -> Prop),
  (forall es s', same s s' -> length es = n -> selectors p (ew x) (Z.of_nat i) (map ew es) -> Q (map (PBool 0) es) s') ->
  wps (mapM_range (fun j => op2 OEq (PLC x) (PInt (Z.of_nat j))) i n) s Q.
Proof.
  induction n as [|n IH]; intros i s Q HQ; cbn [mapM_range].
  - cbn [ret wps]. apply (HQ []); [reflexivity|reflexivity|exact I].
  - apply wps_bind. apply eq_int_s. intros r s1 S1 Hr. apply wps_bind. apply IH. intros es s2 S2 L Hs. cbn [ret wps].
    apply (HQ (r :: es)); [unfold AdvGadgets.same in *; congruence|cbn; congruence|].
    cbn [map selectors]. split; [exact Hr|]. replace (Z.of_nat i + 1) with (Z.of_nat (S i)) by lia. exact Hs.
Qed.

(* sum(...) over LinCombBool selectors emits nothing and returns their sum *)
Definition sum_b (acc : slc) (es : list slc) : slc := fold_left (fun a b => add b a) es acc.
Lemma ew_sum_b : forall es acc, ew (sum_b acc es) = ew acc + ArrayCore.sum (map ew es).
Proof. induction es as [|e es IH]; intros acc; cbn [sum_b fold_left map ArrayCore.sum]; [ring|]. fold (sum_b (add e acc) es). rewrite IH, (ew_add w). ring. Qed.
Lemma py_sum_bools_acc : forall es acc,
  fold_left (fun (a : G pyval) (y : pyval) => a0 <- a ;; op2 OAdd a0 y) (map (PBool 0) es) (ret (PLC acc)) = ret (PLC (sum_b acc es)).
Proof. induction es as [|e es IH]; intros acc; cbn [map fold_left sum_b]; [reflexivity|]. disp. apply IH. Qed.
Lemma py_sum_bools e es : py_sum c (map (PBool 0) (e :: es)) = ret (PLC (sum_b (addc e 0) es)).
Proof. unfold py_sum. cbn [map fold_left]. disp. apply py_sum_bools_acc. Qed.

(* the one-hot selector *)
Lemma arr_selector_s (l : list pyval) x s (Q : list pyval -> gst -> Prop) : Gok s -> Oone s -> l <> [] ->
  (forall es s', same s s' -> length es = length l -> selectors p (ew x) 0 (map ew es) -> ArrayCore.sum (map ew es) == 1 -> Q (map (PBool 0) es) s') ->
  wps (arr_selector c l x) s Q.
Proof.
  intros G O Hne HQ. unfold arr_selector, get, raise_if. cbn [bind wps]. apply wps_bind. apply selectors_s. intros es s1 S1 L Hs.
  destruct es as [|e es]; [destruct l; [congruence|discriminate L]|].
  rewrite py_sum_bools. cbn [bind ret wps]. unfold ensurelc, ensurelc_int, get. cbn [bind ret wps]. apply wps_bind.
  apply (assert_eq_s w); [exact (Gok_same w _ _ S1 G)|]. intros s2 S2 E. cbn [ret wps]. apply HQ; [unfold AdvGadgets.same in *; congruence|exact L|exact Hs|].
  rewrite ew_sum_b, (ew_addc w W0), (ew_scale w) in E.
  assert (O1 : ew (one s1) == 1). { unfold AdvGadgets.same, cur_triple in S1. injection S1 as _ _ E1. rewrite E1. exact O. }
  rewrite O1 in E. cbn [map ArrayCore.sum]. rewrite <- E. apply eq_feq. ring.
Qed.

(* ---- the read: sum(c_i * v_i) over elements that are secret integers (LinComb) or plain ints ---- *)
Definition inj (e : slc + Z) : pyval := match e with inl a => PLC a | inr k => PInt k end.
Definition elw (e : slc + Z) : Z := match e with inl a => ew a | inr k => k end.

Lemma mul_bool_lc_s e a s (Q : pyval -> gst -> Prop) : (forall m s', same s s' -> ew e * ew a == ew m -> Q (PLC m) s') -> wps (op2 OMul (PBool 0 e) (PLC a)) s Q.
Proof. intros HQ. disp. apply wps_bind. apply wps_bind. unfold lcr. apply wps_bind. apply (mul_s w). intros m s1 S1 Em. cbn [ret wps bind]. apply HQ; assumption. Qed.
Lemma mul_bool_int e k : op2 OMul (PBool 0 e) (PInt k) = ret (PLC (scale e k)).
Proof. disp. reflexivity. Qed.

Lemma prods_s : forall (es : list slc) (l : list (slc + Z)) s (Q : list pyval -> gst -> Prop), length es = length l ->
  (forall ts s', same s s' -> length ts = length l -> ArrayCore.sum (map ew ts) == ArrayCore.dot (map ew es) (map elw l) -> Q (map PLC ts) s') ->
  wps (zipM (fun cf v => op2 OMul cf v) (map (PBool 0) es) (map inj l)) s Q.
Proof.
  induction es as [|e es IH]; intros l s Q L HQ; destruct l as [|x l]; try discriminate L; cbn [map zipM].
  - cbn [ret wps]. apply (HQ []); [reflexivity|reflexivity|reflexivity].
  - assert (L' : length es = length l) by (cbn in L; congruence).
    apply wps_bind. destruct x as [a|k]; cbn [inj].
    + apply mul_bool_lc_s. intros m s1 S1 Em. apply wps_bind. apply IH; [exact L'|].
      intros ts s2 S2 Lt Hs. cbn [ret wps]. apply (HQ (m :: ts)); [unfold AdvGadgets.same in *; congruence|cbn; congruence|].
      cbn [map ArrayCore.sum ArrayCore.dot elw]. rewrite <- Em, Hs. reflexivity.
    + rewrite mul_bool_int. cbn [ret wps]. apply wps_bind. apply IH; [exact L'|].
      intros ts s2 S2 Lt Hs. cbn [ret wps]. apply (HQ (scale e k :: ts)); [exact S2|cbn; congruence|].
      cbn [map ArrayCore.sum ArrayCore.dot elw]. rewrite (ew_scale w), Hs. reflexivity.
Qed.

Definition sum_l (acc : slc) (ts : list slc) : slc := fold_left (fun a t => add a t) ts acc.
Lemma ew_sum_l : forall ts acc, ew (sum_l acc ts) = ew acc + ArrayCore.sum (map ew ts).
Proof. induction ts as [|t ts IH]; intros acc; cbn [sum_l fold_left map ArrayCore.sum]; [ring|]. fold (sum_l (add acc t) ts). rewrite IH, (ew_add w). ring. Qed.
Lemma py_sum_lcs_acc : forall ts acc,
  fold_left (fun (a : G pyval) (y : pyval) => a0 <- a ;; op2 OAdd a0 y) (map PLC ts) (ret (PLC acc)) = ret (PLC (sum_l acc ts)).
Proof. induction ts as [|t ts IH]; intros acc; cbn [map fold_left sum_l]; [reflexivity|]. disp. apply IH. Qed.
Lemma py_sum_lcs t ts : py_sum c (map PLC (t :: ts)) = ret (PLC (sum_l (addc t 0) ts)).
Proof. unfold py_sum. cbn [map fold_left]. disp. apply py_sum_lcs_acc. Qed.

Lemma arr_get1_s (l : list (slc + Z)) x s (Q : pyval -> gst -> Prop) : Gok s -> Oone s -> l <> [] -> Z.of_nat (length l) <= p ->
  (forall t j s', same s s' -> (j < length l)%nat -> ew x == Z.of_nat j -> ew t == nth j (map elw l) 0 -> Q (PLC t) s') ->
  wps (arr_get1 c (map inj l) (PLC x)) s Q.
Proof.
  intros G O Hne Hn HQ. unfold arr_get1. apply wps_bind. apply arr_selector_s; [exact G|exact O|destruct l; [congruence|discriminate]|].
  rewrite map_length. intros es s1 S1 L Hs H1. apply wps_bind. apply prods_s; [exact L|]. intros ts s2 S2 Lt Hd.
  destruct ts as [|t ts]; [destruct l; [congruence|discriminate Lt]|].
  rewrite py_sum_lcs. cbn [bind ret wps].
  destruct (array_access p Hp (ew x) (map ew es) (map elw l) 0) as [j [Hj [Ej [Dj _]]]];
    [rewrite !map_length; congruence|rewrite map_length; lia|exact Hs|exact H1|].
  rewrite map_length in Hj. apply (HQ _ j); [unfold AdvGadgets.same in *; congruence|lia|exact Ej|].
  rewrite ew_sum_l, (ew_addc w W0). rewrite <- Dj, <- Hd. cbn [map ArrayCore.sum]. apply eq_feq. ring.
Qed.

(* an index congruent to no position of the array: the constraints of the read have NO satisfying assignment *)
Lemma arr_get1_oob_s (l : list (slc + Z)) x s (Q : pyval -> gst -> Prop) : Gok s -> Oone s -> l <> [] -> Z.of_nat (length l) <= p ->
  (forall j, (j < length l)%nat -> ~ ew x == Z.of_nat j) -> wps (arr_get1 c (map inj l) (PLC x)) s Q.
Proof.
  intros G O Hne Hn Hno. apply wps_mono with (Q := fun _ _ => False); [intros a s' []|].
  apply arr_get1_s; try assumption. intros t j s' _ Hj Ej _. exact (Hno j Hj Ej).
Qed.


(* ---- the write: [if_then_else(c_i, value, old_i)] per position ---- *)
Lemma ite_bool_s e v (old : slc + Z) s (Q : pyval -> gst -> Prop) : same_val (PLC v) (inj old) = false ->
  (forall t s', same s s' -> ew t == elw old + ew e * (ew v - elw old) -> Q (PLC t) s') -> wps (if_then_else c op2 (PBool 0 e) (PLC v) (inj old)) s Q.
Proof.
  intros Hne HQ. unfold if_then_else. cbn [ite_fuel]. rewrite Hne. cbn [andb]. destruct old as [a|k]; cbn [inj]; disp.
  - apply wps_bind. apply wps_bind. apply wps_bind. unfold lcr. apply wps_bind. apply (mul_s w). intros m s1 S1 Em. cbn [ret wps bind].
    apply HQ; [exact S1|]. cbn [elw]. rewrite (ew_add w), <- Em, (ew_add w), (ew_neg w). apply eq_feq. ring.
  - apply wps_bind. apply wps_bind. apply wps_bind. unfold lcr. apply wps_bind. apply (mul_s w). intros m s1 S1 Em. cbn [ret wps bind NI].
    apply HQ; [exact S1|]. cbn [elw]. rewrite (ew_addc w W0), <- Em, (ew_addc w W0). apply eq_feq. ring.
Qed.

Lemma upds_s v : forall (es : list slc) (l : list (slc + Z)) s (Q : list pyval -> gst -> Prop), length es = length l ->
  Forall (fun old => same_val (PLC v) (inj old) = false) l ->
  (forall ts s', same s s' -> length ts = length l ->
     (forall i, (i < length l)%nat -> nth i (map ew ts) 0 == nth i (ArrayCore.upd (map ew es) (map elw l) (ew v)) 0) -> Q (map PLC ts) s') ->
  wps (zipM (fun cf old => if_then_else c op2 cf (PLC v) old) (map (PBool 0) es) (map inj l)) s Q.
Proof.
  induction es as [|e es IH]; intros l s Q L Hd HQ; destruct l as [|x l]; try discriminate L; cbn [map zipM].
  - cbn [ret wps]. apply (HQ []); [reflexivity|reflexivity|]. intros i Hi. cbn in Hi. lia.
  - assert (L' : length es = length l) by (cbn in L; congruence). inversion Hd as [|? ? Hx Hl]; subst.
    apply wps_bind. apply ite_bool_s; [exact Hx|]. intros t s1 S1 Et. apply wps_bind. apply IH; [exact L'|exact Hl|].
    intros ts s2 S2 Lt Hs. cbn [ret wps]. apply (HQ (t :: ts)); [unfold AdvGadgets.same in *; congruence|cbn; congruence|].
    intros i Hi. cbn [map ArrayCore.upd]. destruct i as [|i]; cbn [nth]; [exact Et|]. apply Hs. cbn in Hi. lia.
Qed.

Lemma arr_set1_s (l : list (slc + Z)) x v s (Q : list pyval -> gst -> Prop) : Gok s -> Oone s -> l <> [] -> Z.of_nat (length l) <= p ->
  Forall (fun old => same_val (PLC v) (inj old) = false) l ->
  (forall ts j s', same s s' -> length ts = length l -> (j < length l)%nat -> ew x == Z.of_nat j ->
     nth j (map ew ts) 0 == ew v -> (forall i, (i < length l)%nat -> i <> j -> nth i (map ew ts) 0 == nth i (map elw l) 0) -> Q (map PLC ts) s') ->
  wps (arr_set1 c (map inj l) (PLC x) (PLC v)) s Q.
Proof.
  intros G O Hne Hn Hd HQ. unfold arr_set1. apply wps_bind. apply arr_selector_s; [exact G|exact O|destruct l; [congruence|discriminate]|].
  rewrite map_length. intros es s1 S1 L Hs H1. apply upds_s; [exact L|exact Hd|]. intros ts s2 S2 Lt Hu.
  destruct (array_access p Hp (ew x) (map ew es) (map elw l) (ew v)) as [j [Hj [Ej [_ [Uj Uo]]]]];
    [rewrite !map_length; congruence|rewrite map_length; lia|exact Hs|exact H1|].
  rewrite map_length in Hj, Uo. apply (HQ ts j); [unfold AdvGadgets.same in *; congruence|exact Lt|lia|exact Ej| |].
  - rewrite (Hu j) by lia. exact Uj.
  - intros i Hi Hij. rewrite (Hu i) by lia. apply Uo; [lia|exact Hij].
Qed.

Section Run.
Variable s : gst.
Hypothesis G : Gok s.
Hypothesis O : Oone s.
Notation sat cs := (Forall (holds (p:=p) w) (cons_of cs)).

Theorem arr_get1_forced (l : list (slc + Z)) x r s' cs : l <> [] -> Z.of_nat (length l) <= p ->
  run (arr_get1 c (map inj l) (PLC x)) s = (inl r, s', cs) -> sat cs ->
  exists j t, (j < length l)%nat /\ r = PLC t /\ ew x == Z.of_nat j /\ ew t == nth j (map elw l) 0.
Proof.
  intros Hne Hn R H.
  apply (wps_sound w _ _ (arr_get1 c (map inj l) (PLC x)) s (fun r _ => exists j t, (j < length l)%nat /\ r = PLC t /\ ew x == Z.of_nat j /\ ew t == nth j (map elw l) 0)) with (s' := s') (cs := cs); auto.
  apply arr_get1_s; try assumption. intros t j s0 _ Hj Ej Et. exists j, t. auto.
Qed.
Theorem arr_get1_out_of_bounds (l : list (slc + Z)) x r s' cs : l <> [] -> Z.of_nat (length l) <= p ->
  (forall j, (j < length l)%nat -> ~ ew x == Z.of_nat j) ->
  run (arr_get1 c (map inj l) (PLC x)) s = (inl r, s', cs) -> ~ sat cs.
Proof.
  intros Hne Hn Hno R H.
  apply (wps_sound w _ _ (arr_get1 c (map inj l) (PLC x)) s (fun _ _ => False)) with (s' := s') (cs := cs) (a := r); auto.
  apply arr_get1_oob_s; assumption.
Qed.
(* the write: exactly the selected position receives the value, every other element keeps its value *)
Theorem arr_set1_forced (l : list (slc + Z)) x v r s' cs : l <> [] -> Z.of_nat (length l) <= p ->
  Forall (fun old => same_val (PLC v) (inj old) = false) l ->
  run (arr_set1 c (map inj l) (PLC x) (PLC v)) s = (inl r, s', cs) -> sat cs ->
  exists j ts, r = map PLC ts /\ length ts = length l /\ (j < length l)%nat /\ ew x == Z.of_nat j /\ nth j (map ew ts) 0 == ew v /\
               forall i, (i < length l)%nat -> i <> j -> nth i (map ew ts) 0 == nth i (map elw l) 0.
Proof.
  intros Hne Hn Hd R H.
  apply (wps_sound w _ _ (arr_set1 c (map inj l) (PLC x) (PLC v)) s (fun r _ => exists j ts, r = map PLC ts /\ length ts = length l /\ (j < length l)%nat /\ ew x == Z.of_nat j /\ nth j (map ew ts) 0 == ew v /\
               forall i, (i < length l)%nat -> i <> j -> nth i (map ew ts) 0 == nth i (map elw l) 0)) with (s' := s') (cs := cs); auto.
  apply arr_set1_s; try assumption. intros ts j s0 _ Lt Hj Ej Uj Uo. exists j, ts. auto 10.
Qed.
(* ---- public indexes and 2-D index tuples with a public row ---- *)
(* a public index is Python list indexing: negative indexes count from the end, anything else raises; nothing is emitted *)
Lemma py_index_spec len k j : py_index len k = Some j <->
  ((0 <= k < len /\ j = Z.to_nat k) \/ (- len <= k < 0 /\ j = Z.to_nat (len + k))).
Proof.
  unfold py_index. destruct (- len <=? k) eqn:A; destruct (k <? len) eqn:B; cbn [andb]; split; intros H;
    try discriminate; try (destruct H as [[H _]|[H _]]; lia).
  - inversion H; subst j. assert (0 < len) by lia. destruct (Z_lt_le_dec k 0) as [N|N].
    + right. split; [lia|]. f_equal. rewrite <- (Z.mod_unique_pos k len (-1) (len + k)); lia.
    + left. split; [lia|]. f_equal. apply Z.mod_small. lia.
  - f_equal. assert (0 < len) by lia. destruct H as [[H E]|[H E]]; subst j; f_equal.
    + apply Z.mod_small. lia.
    + rewrite <- (Z.mod_unique_pos k len (-1) (len + k)); lia.
Qed.
Theorem arr_get1_public (l : list pyval) k j : py_index (Z.of_nat (length l)) k = Some j ->
  run (arr_get1 c l (PInt k)) s = (inl (nth j l PNone), s, []).
Proof. intros H. unfold arr_get1. rewrite H. reflexivity. Qed.
Theorem arr_set1_public (l : list pyval) k j v : py_index (Z.of_nat (length l)) k = Some j ->
  run (arr_set1 c l (PInt k) v) s = (inl (upd_nth l j v), s, []).
Proof. intros H. unfold arr_set1. rewrite H. reflexivity. Qed.
Theorem arr_get1_public_out_of_range (l : list pyval) k : py_index (Z.of_nat (length l)) k = None ->
  exists s' cs, run (arr_get1 c l (PInt k)) s = (inr IndexError, s', cs).
Proof. intros H. unfold arr_get1. rewrite H. eexists. eexists. reflexivity. Qed.

(* A[k, x] / A[k, x] = v with a public row k and a secret column x: the read / write of the row at the secret column *)
Theorem arr_get_row_forced (rows : list pyval) k j b (row : list (slc + Z)) x r s' cs :
  py_index (Z.of_nat (length rows)) k = Some j -> nth j rows PNone = PArr b (map inj row) -> row <> [] -> Z.of_nat (length row) <= p ->
  run (arr_get c rows [PInt k; PLC x]) s = (inl r, s', cs) -> sat cs ->
  exists i t, (i < length row)%nat /\ r = PLC t /\ ew x == Z.of_nat i /\ ew t == nth i (map elw row) 0.
Proof.
  intros Hk Hr Hne Hn R H. cbn [arr_get] in R. unfold arr_get1 at 1 in R. rewrite Hk in R. cbn [bind ret] in R. rewrite Hr in R.
  cbn [arr_get] in R. exact (arr_get1_forced row x r s' cs Hne Hn R H).
Qed.
Theorem arr_set_row_forced (rows : list pyval) k j b (row : list (slc + Z)) x v r s' cs :
  py_index (Z.of_nat (length rows)) k = Some j -> nth j rows PNone = PArr b (map inj row) -> row <> [] -> Z.of_nat (length row) <= p ->
  Forall (fun old => same_val (PLC v) (inj old) = false) row ->
  run (arr_set c rows [PInt k; PLC x] (PLC v)) s = (inl r, s', cs) -> sat cs ->
  exists i ts, r = upd_nth rows j (PArr false (map PLC ts)) /\ length ts = length row /\ (i < length row)%nat /\ ew x == Z.of_nat i /\
               nth i (map ew ts) 0 == ew v /\ forall i', (i' < length row)%nat -> i' <> i -> nth i' (map ew ts) 0 == nth i' (map elw row) 0.
Proof.
  intros Hk Hr Hne Hn Hd R H.
  apply (wps_sound w _ _ (arr_set c rows [PInt k; PLC x] (PLC v)) s (fun r _ => exists i ts, r = upd_nth rows j (PArr false (map PLC ts)) /\ length ts = length row /\ (i < length row)%nat /\ ew x == Z.of_nat i /\
               nth i (map ew ts) 0 == ew v /\ forall i', (i' < length row)%nat -> i' <> i -> nth i' (map ew ts) 0 == nth i' (map elw row) 0)) with (s' := s') (cs := cs); auto.
  cbn [arr_get arr_set]. unfold arr_get1 at 1. rewrite Hk. cbn [bind ret]. rewrite Hr. cbn [arr_set].
  apply wps_bind. apply arr_set1_s; try assumption. intros ts i s0 _ Lt Hi Ei Ui Uo.
  unfold arr_set1. rewrite Hk. cbn [wps ret]. exists i, ts. auto 10.
Qed.
End Run.
End AM.
