(* Completeness of the gadgets of runtime.py, gadget by gadget: every constraint a gadget emits is justified by the values
   at the moment of emission (the obligation built into [wp]), under the invariant [Inv] on the runtime globals. *)
From Coq Require Import ZArith List Bool Lia Znumtheory Setoid Morphisms.
From PySnark.Base Require Import FieldZ Bits.
From PySnark.Model Require Import Lc Sym Good Gadgets.
From PySnark.Proofs Require Import Meta Frame Wp WpBase.
Import ListNotations.
Open Scope Z_scope.

Section G.
Context {p : Z}.
Variable ins : list Z.
Variable ig : bool.
Hypothesis F : field_ok p.
Local Notation gst := (@Gadgets.gst p).
Local Notation cmd := (Sym.cmd p).
Local Notation slc := (Sym.slc p).
Local Notation M := (@Gadgets.M p).
Local Notation G := (@Gadgets.G p).
Local Notation ve := (Sym.veval p ins ig).
Local Notation be := (Sym.beval p ins ig).
Local Notation wp := (Wp.wp (p:=p) ins ig).
Local Notation Inv := (WpBase.Inv (p:=p) ins ig).
Local Notation "a == b" := (feq p a b) (at level 70).
Local Existing Instance feq_equiv.
Local Existing Instance feq_add.
Local Existing Instance feq_sub.
Local Existing Instance feq_mul.
Local Existing Instance feq_opp.

(* what a gadget guarantees about the state it ends in *)
Definition Post (s : gst) (sg : store) (s' : gst) (sg' : store) : Prop :=
  Inv s' sg' /\ ext sg sg' /\ cur_triple s' = cur_triple s.
Lemma Post_refl s sg : Inv s sg -> Post s sg s sg.
Proof. intros H. split; [exact H|split; [apply ext_refl|reflexivity]]. Qed.
Lemma Post_trans s sg s1 sg1 s2 sg2 : Post s sg s1 sg1 -> Post s1 sg1 s2 sg2 -> Post s sg s2 sg2.
Proof. intros (I1 & E1 & T1) (I2 & E2 & T2). split; [exact I2|split; [eapply ext_trans; eauto|congruence]]. Qed.

Lemma scoped_sval np nw (x : slc) : slc_scoped np nw x = true -> vscopedb np nw (sval x) = true.
Proof. unfold slc_scoped. intros H. apply andb_prop in H. tauto. Qed.

Lemma ve_new_priv (s : gst) sg z : cnt s sg -> ve (push_priv sg z) (sval (var_slc (p:=p) (- (npriv s + 1)))) = z.
Proof. intros [_ C]. cbn [sval var_slc]. rewrite (veval_unfold ins ig). rewrite C. apply wval_push_priv. Qed.
Lemma ve_new_pub (s : gst) sg z : cnt s sg -> ve (push_pub sg z) (sval (var_slc (p:=p) (npub s + 1))) = z.
Proof. intros [C _]. cbn [sval var_slc]. rewrite (veval_unfold ins ig). rewrite C. apply wval_push_pub. Qed.
Lemma emit_scoped np nw (a b y : slc) :
  emittable (CEmit a b y) && cmd_scoped np nw (CEmit a b y) && cmd_vscoped np nw (CEmit a b y) = true ->
  slc_scoped np nw a = true /\ slc_scoped np nw b = true /\ slc_scoped np nw y = true.
Proof.
  intros H. apply andb_prop in H. destruct H as [_ H]. cbn [cmd_vscoped] in H.
  apply andb_prop in H. destruct H as [H Hy]. apply andb_prop in H. destruct H as [Ha Hb]. auto.
Qed.
Lemma Post_priv (s : gst) sg z : Inv s sg -> Post s sg (upd_counters s (npub s) (npriv s + 1) (noid s)) (push_priv sg z).
Proof. intros I. split; [apply Inv_priv; exact I|split; [apply ext_push_priv|reflexivity]]. Qed.
Lemma Post_pub (s : gst) sg z : Inv s sg -> Post s sg (upd_counters s (npub s + 1) (npriv s) (noid s)) (push_pub sg z).
Proof. intros I. split; [apply Inv_pub; exact I|split; [apply ext_push_pub|reflexivity]]. Qed.

(* ---- LinComb.__mul__ ---- *)
Lemma mul_wp x y s sg (Q : slc -> gst -> store -> Prop) : Inv s sg ->
  (forall r s' sg', Post s sg s' sg' -> slc_scoped (npub s') (npriv s') r = true ->
     ve sg' (sval r) = ve sg (sval x) * ve sg (sval y) ->
     vscopedb (npub s) (npriv s) (sval x) = true -> vscopedb (npub s) (npriv s) (sval y) = true -> Q r s' sg') ->
  wp (mul x y) s sg Q.
Proof.
  intros I HQ. unfold mul, privval, emit, emitc, ret. cbn [bind wp].
  intros C. cbn [vscopedb] in C. apply andb_prop in C. destruct C as [Cx Cy]. intros E.
  destruct (emit_scoped _ _ _ _ _ E) as (_ & _ & Sr). pose proof (proj1 I) as Ic.
  assert (V : ve (push_priv sg (ve sg (VMul (sval x) (sval y)))) (sval (var_slc (p:=p) (- (npriv s + 1)))) = ve sg (sval x) * ve sg (sval y)).
  { rewrite (ve_new_priv _ _ _ Ic). rewrite (veval_unfold ins ig). reflexivity. }
  split.
  - cbn [emit_vals_ok]. rewrite V. rewrite (ve_push_priv ins ig _ _ _ _ Ic Cx), (ve_push_priv ins ig _ _ _ _ Ic Cy). reflexivity.
  - apply HQ; auto. apply Post_priv; exact I.
Qed.

(* ---- add_constraint: the caller owes the value identity whenever errors are not suppressed ---- *)
Lemma inv_guard_scoped s sg g : Inv s sg -> guard s = Some g -> vscopedb (npub s) (npriv s) (sval g) = true.
Proof.
  intros (_ & S & _) G. rewrite G in S. unfold globals_scoped in S. apply andb_prop in S. destruct S as [S _].
  apply andb_prop in S. destruct S as [S _]. apply scoped_sval. exact S.
Qed.
Lemma add_constraint_wp v w y chk s sg (Q : unit -> gst -> store -> Prop) : Inv s sg ->
  (be sg (ignore s) = false -> ve sg (sval v) * ve sg (sval w) == ve sg (sval y)) ->
  (forall s' sg', Post s sg s' sg' -> Q tt s' sg') ->
  wp (add_constraint v w y chk) s sg Q.
Proof.
  intros I Ob HQ. unfold add_constraint, get. cbn [bind wp]. destruct (guard s) as [g|] eqn:Gd.
  - unfold privval, emit, emitc. cbn [bind wp]. intros C. cbn [vscopedb] in C.
    apply andb_prop in C. destruct C as [C Cy]. apply andb_prop in C. destruct C as [Cv Cw]. intros E1.
    pose proof (proj1 I) as Ic. set (z := ve sg (VSub (VMul (sval v) (sval w)) (sval y))).
    assert (Vd : ve (push_priv sg z) (sval (var_slc (p:=p) (- (npriv s + 1)))) = ve sg (sval v) * ve sg (sval w) - ve sg (sval y)).
    { rewrite (ve_new_priv _ _ _ Ic). unfold z. rewrite (veval_unfold ins ig). rewrite (veval_unfold ins ig _ (VMul _ _)). reflexivity. }
    split.
    + cbn [emit_vals_ok sval add]. rewrite (veval_unfold ins ig _ (VAdd _ _)). rewrite Vd.
      rewrite !(ve_push_priv ins ig _ _ _ _ Ic) by assumption. apply eq_feq. ring.
    + intros E2. split.
      * cbn [emit_vals_ok sval ZERO]. rewrite Vd. rewrite (veval_unfold ins ig _ (VConst 0)).
        rewrite (ve_push_priv ins ig _ _ _ _ Ic (inv_guard_scoped _ _ _ I Gd)).
        destruct (be sg (ignore s)) eqn:Bi.
        -- destruct I as (_ & _ & Hs). rewrite Gd in Hs. destruct Hs as [Hs _]. rewrite (Hs Bi). apply eq_feq. ring.
        -- rewrite (Ob eq_refl). apply eq_feq. ring.
      * apply HQ. apply Post_priv. exact I.
  - unfold raise_if, emit, emitc. cbn [bind wp]. intros C B E. split.
    + cbn [emit_vals_ok]. apply Ob. destruct I as (_ & _ & Hs). rewrite Gd in Hs. exact (proj1 Hs).
    + apply HQ. apply Post_refl. exact I.
Qed.

(* ---- assert_zero ---- *)
Lemma assert_zero_wp x s sg (Q : unit -> gst -> store -> Prop) : Inv s sg ->
  (forall s' sg', Post s sg s' sg' -> Q tt s' sg') -> wp (assert_zero x) s sg Q.
Proof.
  intros I HQ. unfold assert_zero, get, raise_if. cbn [bind wp]. intros C B.
  apply add_constraint_wp; [exact I| |exact HQ].
  intros Bi. unfold vne in B. esimp_in B. rewrite Bi in B. cbn [negb andb] in B.
  cbn [sval ZERO]. esimp. destruct (Z.eqb_spec (ve sg (sval x)) 0) as [E|E]; [rewrite E; apply eq_feq; ring|discriminate B].
Qed.

(* ---- LinCombBool(lc) / PrivValBool / PubValBool ---- *)
Lemma boolctor_wp x s sg (Q : slc -> gst -> store -> Prop) : Inv s sg ->
  (forall s' sg', Post s sg s' sg' -> (ve sg (sval x) = 0 \/ ve sg (sval x) = 1) -> Q x s' sg') -> wp (boolctor x) s sg Q.
Proof.
  intros I HQ. unfold boolctor, raise_if, ret. cbn [bind wp]. intros C B.
  unfold is_boolv in B. esimp_in B.
  assert (Hb : ve sg (sval x) = 0 \/ ve sg (sval x) = 1).
  { destruct (Z.eqb_spec (ve sg (sval x)) 0); [left; assumption|]. destruct (Z.eqb_spec (ve sg (sval x)) 1); [right; assumption|discriminate B]. }
  apply wp_bind. apply add_constraint_wp; [exact I| |].
  - intros _. unfold rsubc. cbn [sval add neg constv ZERO]. esimp. destruct Hb as [E|E]; rewrite E; apply eq_feq; ring.
  - intros s' sg' P. cbn [wp]. apply HQ; assumption.
Qed.
Lemma privbool_wp h s sg (Q : slc -> gst -> store -> Prop) : Inv s sg ->
  (forall r s' sg', Post s sg s' sg' -> slc_scoped (npub s') (npriv s') r = true -> vscopedb (npub s) (npriv s) h = true ->
     ve sg' (sval r) = ve sg h -> (ve sg h = 0 \/ ve sg h = 1) -> Q r s' sg') -> wp (privbool h) s sg Q.
Proof.
  intros I HQ. unfold privbool, raise_if, privval. cbn [bind wp]. intros C B Ch.
  pose proof (proj1 I) as Ic.
  assert (S0 : slc_scoped (npub s) (npriv s + 1) (var_slc (p:=p) (- (npriv s + 1))) = true).
  { unfold slc_scoped. cbn [sval wire var_slc vscopedb lc_okb forallb fst]. unfold var_okb. destruct Ic as [_ Ic]. unfold nw_of in Ic. lia. }
  apply boolctor_wp; [apply Inv_priv; exact I|].
  intros s' sg' P Hb. rewrite (ve_new_priv _ _ _ Ic) in Hb.
  destruct P as (I' & E' & T').
  assert (Mo : npub s <= npub s' /\ npriv s + 1 <= npriv s').
  { pose proof (cnt_mono _ _ _ _ (proj1 (Inv_priv ins ig _ _ (ve sg h) I)) (proj1 I') E') as K. cbn [npub npriv upd_counters] in K. exact K. }
  apply HQ; try assumption.
  - split; [exact I'|split; [eapply ext_trans; [apply ext_push_priv|exact E']|exact T']].
  - eapply slc_scoped_mono; [| |exact S0]; lia.
  - rewrite (ve_ext ins ig _ _ _ _ (proj1 (Inv_priv ins ig _ _ (ve sg h) I)) E' (scoped_sval _ _ _ S0)). apply (ve_new_priv _ _ _ Ic).
Qed.
Lemma pubbool_wp h s sg (Q : slc -> gst -> store -> Prop) : Inv s sg ->
  (forall r s' sg', Post s sg s' sg' -> slc_scoped (npub s') (npriv s') r = true -> vscopedb (npub s) (npriv s) h = true ->
     ve sg' (sval r) = ve sg h -> (ve sg h = 0 \/ ve sg h = 1) -> Q r s' sg') -> wp (pubbool h) s sg Q.
Proof.
  intros I HQ. unfold pubbool, raise_if, pubval. cbn [bind wp]. intros C B Ch.
  pose proof (proj1 I) as Ic.
  assert (S0 : slc_scoped (npub s + 1) (npriv s) (var_slc (p:=p) (npub s + 1)) = true).
  { unfold slc_scoped. cbn [sval wire var_slc vscopedb lc_okb forallb fst]. unfold var_okb. destruct Ic as [Ic _]. unfold np_of in Ic. lia. }
  apply boolctor_wp; [apply Inv_pub; exact I|].
  intros s' sg' P Hb. rewrite (ve_new_pub _ _ _ Ic) in Hb.
  destruct P as (I' & E' & T').
  assert (Mo : npub s + 1 <= npub s' /\ npriv s <= npriv s').
  { pose proof (cnt_mono _ _ _ _ (proj1 (Inv_pub ins ig _ _ (ve sg h) I)) (proj1 I') E') as K. cbn [npub npriv upd_counters] in K. exact K. }
  apply HQ; try assumption.
  - split; [exact I'|split; [eapply ext_trans; [apply ext_push_pub|exact E']|exact T']].
  - eapply slc_scoped_mono; [| |exact S0]; lia.
  - rewrite (ve_ext ins ig _ _ _ _ (proj1 (Inv_pub ins ig _ _ (ve sg h) I)) E' (scoped_sval _ _ _ S0)). apply (ve_new_pub _ _ _ Ic).
Qed.

Lemma finv_feq x : x mod p <> 0 -> x * finv p x == 1.
Proof. intros H. rewrite (feq_mod p (proj1 F) (x * finv p x)). rewrite (proj2 F x H). reflexivity. Qed.
Lemma new_priv_scoped (s : gst) sg : cnt s sg -> slc_scoped (npub s) (npriv s + 1) (var_slc (p:=p) (- (npriv s + 1))) = true.
Proof. intros [_ Ic]. unfold slc_scoped. cbn [sval wire var_slc vscopedb lc_okb forallb fst]. unfold var_okb. unfold nw_of in Ic. lia. Qed.
Lemma new_pub_scoped (s : gst) sg : cnt s sg -> slc_scoped (npub s + 1) (npriv s) (var_slc (p:=p) (npub s + 1)) = true.
Proof. intros [Ic _]. unfold slc_scoped. cbn [sval wire var_slc vscopedb lc_okb forallb fst]. unfold var_okb. unfold np_of in Ic. lia. Qed.

(* ---- check_zero: two unguarded constraints, always satisfied by the honest witness ---- *)
Lemma check_zero_wp x s sg (Q : slc -> gst -> store -> Prop) : Inv s sg ->
  (forall r s' sg', Post s sg s' sg' -> slc_scoped (npub s') (npriv s') r = true -> vscopedb (npub s) (npriv s) (sval x) = true ->
     ve sg' (sval r) = (if ve sg (sval x) =? 0 then 1 else 0) -> Q r s' sg') -> wp (check_zero x) s sg Q.
Proof.
  intros I HQ. unfold check_zero, privval, raise_if, emit, emitc, ret. cbn [bind wp].
  intros C1. pose proof (proj1 I) as Ic. cbn [vscopedb bscopedb] in C1. apply andb_prop in C1. destruct C1 as [Cx _].
  set (z := ve sg (VB2Z (BEq (sval x) (VConst 0)))).
  assert (Hz : z = if ve sg (sval x) =? 0 then 1 else 0) by (unfold z; esimp; reflexivity).
  set (s1 := upd_counters s (npub s) (npriv s + 1) (noid s)). set (sg1 := push_priv sg z).
  assert (I1 : Inv s1 sg1) by (apply Inv_priv; exact I). pose proof (proj1 I1) as Ic1.
  intros C2 B C3.
  assert (X1 : ve sg1 (sval x) = ve sg (sval x)) by (apply (ve_push_priv ins ig _ _ _ _ Ic Cx)).
  esimp_in B. rewrite X1 in B. fold z in B.
  set (w := ve sg1 (VInv (VAdd (sval x) (VB2Z (BEq (sval x) (VConst 0)))))).
  assert (Hw : w = finv p (ve sg (sval x) + z)) by (unfold w; esimp; rewrite X1; reflexivity).
  set (s2 := upd_counters s1 (npub s1) (npriv s1 + 1) (noid s1)). set (sg2 := push_priv sg1 w).
  assert (I2 : Inv s2 sg2) by (apply Inv_priv; exact I1).
  assert (Sr : slc_scoped (npub s1) (npriv s1) (var_slc (p:=p) (- (npriv s + 1))) = true) by (apply (new_priv_scoped _ _ Ic)).
  assert (Vr : ve sg2 (sval (var_slc (p:=p) (- (npriv s + 1)))) = z).
  { unfold sg2. rewrite (ve_push_priv ins ig _ _ _ _ Ic1 (scoped_sval _ _ _ Sr)). apply (ve_new_priv _ _ _ Ic). }
  assert (Vw : ve sg2 (sval (var_slc (p:=p) (- (npriv s1 + 1)))) = w) by (apply (ve_new_priv _ _ _ Ic1)).
  assert (X2 : ve sg2 (sval x) = ve sg (sval x)).
  { unfold sg2. rewrite (ve_push_priv ins ig s1 _ _ _ Ic1); [exact X1|]. eapply vscopedb_mono; [| |exact Cx]; cbn; lia. }
  intros E1. split.
  - cbn [emit_vals_ok]. unfold sub, ONE_SAFE. cbn [sval add neg]. esimp. rewrite X2, Vw, Vr, Hw.
    destruct (Z.eqb_spec (ve sg (sval x)) 0) as [E|E].
    + rewrite E, Hz. apply eq_feq. ring.
    + rewrite Hz in *. rewrite Z.add_0_r in *. rewrite finv_feq; [apply eq_feq; ring|].
      intros Hm. rewrite Hm in B. discriminate B.
  - intros E2. split.
    + cbn [emit_vals_ok sval ZERO]. esimp. rewrite X2, Vr, Hz.
      destruct (Z.eqb_spec (ve sg (sval x)) 0) as [E|E]; [rewrite E|]; apply eq_feq; ring.
    + apply HQ; [ | |exact Cx| ].
      * split; [exact I2|split; [eapply ext_trans; apply ext_push_priv|reflexivity]].
      * eapply slc_scoped_mono; [| |exact Sr]; cbn; lia.
      * rewrite Vr. exact Hz.
Qed.

(* the globals are scoped, hence stable *)
Lemma inv_ignore_scoped s sg : Inv s sg -> bscopedb (npub s) (npriv s) (ignore s) = true.
Proof. intros (_ & S & _). unfold globals_scoped in S. apply andb_prop in S. destruct S as [S _]. apply andb_prop in S. tauto. Qed.
Lemma inv_one_scoped s sg : Inv s sg -> vscopedb (npub s) (npriv s) (sval (one s)) = true.
Proof. intros (_ & S & _). unfold globals_scoped in S. apply andb_prop in S. destruct S as [_ S]. apply scoped_sval. exact S. Qed.
(* when errors are not suppressed and the guard test holds, LinComb.ONE evaluates to 1 *)
Lemma one_is_1 s sg : Inv s sg -> be sg (isg s) = true -> ve sg (sval (one s)) = 1.
Proof.
  intros (_ & _ & H) A. unfold isg in A. unfold gsem in H. destruct (guard s) as [g|].
  - esimp_in A. destruct H as [_ H]. rewrite H. lia.
  - tauto.
Qed.

(* ---- assert_nonzero ---- *)
Lemma assert_nonzero_wp x s sg (Q : unit -> gst -> store -> Prop) : Inv s sg ->
  (forall s' sg', Post s sg s' sg' -> Q tt s' sg') -> wp (assert_nonzero x) s sg Q.
Proof.
  intros I HQ. unfold assert_nonzero, get, raise_if, privval. cbn [bind wp]. intros C1 B1 C2 B2 C3.
  pose proof (proj1 I) as Ic.
  set (A := BAnd (isg s) (vne (sval x) (VConst 0))) in *.
  set (z := ve sg (VIte A (VInv (sval x)) (VConst 0))).
  set (s1 := upd_counters s (npub s) (npriv s + 1) (noid s)). set (sg1 := push_priv sg z).
  assert (I1 : Inv s1 sg1) by (apply Inv_priv; exact I).
  cbn [vscopedb bscopedb] in C3. apply andb_prop in C3. destruct C3 as [C3 _]. apply andb_prop in C3. destruct C3 as [_ Cx].
  apply add_constraint_wp; [exact I1| |].
  - change (ignore s1) with (ignore s). change (one s1) with (one s). unfold sg1.
    rewrite (be_push_priv ins ig _ _ _ _ Ic (inv_ignore_scoped _ _ I)). intros Bi.
    rewrite (ve_push_priv ins ig _ _ _ _ Ic Cx), (ve_push_priv ins ig _ _ _ _ Ic (inv_one_scoped _ _ I)).
    rewrite (ve_new_priv _ _ _ Ic).
    esimp_in B1. rewrite Bi in B1. cbn [negb] in B1. rewrite andb_true_r in B1. apply negb_false_iff in B1.
    esimp_in B2. rewrite B1 in B2. cbn [andb] in B2.
    unfold z. esimp. rewrite B1.
    assert (A1 : be sg (isg s) = true) by (unfold A in B1; esimp_in B1; apply andb_prop in B1; tauto).
    rewrite (one_is_1 _ _ I A1). apply finv_feq. intros Hm. rewrite Hm in B2. discriminate B2.
  - intros s' sg' P. apply HQ. eapply Post_trans; [apply Post_priv; exact I|exact P].
Qed.

(* ---- the generic specification: a computation that needs nothing from its caller and promises only [Post] ---- *)
Definition OK {A} (m : G A) : Prop :=
  forall s sg (Q : A -> gst -> store -> Prop), Inv s sg -> (forall a s' sg', Post s sg s' sg' -> Q a s' sg') -> wp m s sg Q.
Lemma OK_ret A (a : A) : OK (ret a).
Proof. intros s sg Q I HQ. cbn [ret wp]. apply HQ. apply Post_refl. exact I. Qed.
Lemma OK_Ret A (a : A) : OK (Ret a).
Proof. exact (OK_ret A a). Qed.
Lemma OK_raise A e : OK (static_raise (A:=A) e).
Proof. intros s sg Q I HQ. exact Logic.I. Qed.
Lemma OK_bind A B (m : G A) (f : A -> G B) : OK m -> (forall a, OK (f a)) -> OK (bind m f).
Proof.
  intros Hm Hf s sg Q I HQ. apply wp_bind. apply Hm; [exact I|]. intros a s1 sg1 P1.
  apply Hf; [exact (proj1 P1)|]. intros b s2 sg2 P2. apply HQ. eapply Post_trans; eauto.
Qed.
Lemma OK_get A (k : gst -> G A) : (forall s, OK (k s)) -> OK (Get k).
Proof. intros H s sg Q I HQ. cbn [wp]. apply H; assumption. Qed.
Lemma OK_getb A (k : gst -> G A) : (forall s, OK (k s)) -> OK (bind get k).
Proof. intros H. unfold get. cbn [bind]. apply OK_get. exact H. Qed.
Lemma OK_raise_if A b e (k : G A) : OK k -> OK (RaiseIf b e k).
Proof. intros H s sg Q I HQ. cbn [wp]. intros _ _. apply H; assumption. Qed.
Lemma OK_raise_ifb A b e (k : G A) : OK k -> OK (bind (raise_if b e) (fun _ => k)).
Proof. intros H. unfold raise_if. cbn [bind]. apply OK_raise_if. exact H. Qed.
Lemma OK_privval h : OK (privval h).
Proof. intros s sg Q I HQ. unfold privval. cbn [wp]. intros _. apply HQ. apply Post_priv. exact I. Qed.
Lemma OK_pubval h : OK (pubval h).
Proof. intros s sg Q I HQ. unfold pubval. cbn [wp]. intros _. apply HQ. apply Post_pub. exact I. Qed.
Lemma OK_fresh : OK fresh_oid.
Proof. intros s sg Q I HQ. unfold fresh_oid. cbn [wp]. apply HQ. split; [exact I|split; [apply ext_refl|reflexivity]]. Qed.
(* observations carry no obligation *)
Lemma OK_emit_out A c (k : G A) : (match c with CEmit _ _ _ => False | _ => True end) -> OK k -> OK (Emit c k).
Proof. intros Hc H s sg Q I HQ. cbn [wp]. intros _. split; [destruct c; try exact Logic.I; contradiction|]. apply H; assumption. Qed.

Lemma OK_mul x y : OK (mul x y).
Proof. intros s sg Q I HQ. apply mul_wp; [exact I|]. intros. apply HQ. assumption. Qed.
Lemma OK_assert_zero x : OK (assert_zero x).
Proof. intros s sg Q I HQ. apply assert_zero_wp; [exact I|intros; apply HQ; assumption]. Qed.
Lemma OK_assert_nonzero x : OK (assert_nonzero x).
Proof. intros s sg Q I HQ. apply assert_nonzero_wp; [exact I|intros; apply HQ; assumption]. Qed.
Lemma OK_check_zero x : OK (check_zero x).
Proof. intros s sg Q I HQ. apply check_zero_wp; [exact I|]. intros. apply HQ. assumption. Qed.
Lemma OK_boolctor x : OK (boolctor x).
Proof. intros s sg Q I HQ. apply boolctor_wp; [exact I|]. intros. apply HQ. assumption. Qed.
Lemma OK_privbool h : OK (privbool h).
Proof. intros s sg Q I HQ. apply privbool_wp; [exact I|]. intros. apply HQ. assumption. Qed.
Lemma OK_pubbool h : OK (pubbool h).
Proof. intros s sg Q I HQ. apply pubbool_wp; [exact I|]. intros. apply HQ. assumption. Qed.
Lemma OK_mapM_range A (f : nat -> G A) : (forall i, OK (f i)) -> forall n i, OK (mapM_range f i n).
Proof.
  intros Hf. induction n as [|n IH]; intros i; cbn [mapM_range]; [apply OK_ret|].
  apply OK_bind; [apply Hf|]. intros a. apply OK_bind; [apply IH|]. intros l. apply OK_ret.
Qed.
Lemma OK_mapM A B (f : A -> G B) : (forall a, OK (f a)) -> forall l, OK (mapM f l).
Proof.
  intros Hf. induction l as [|a l IH]; cbn [mapM]; [apply OK_ret|].
  apply OK_bind; [apply Hf|]. intros b. apply OK_bind; [apply IH|]. intros r. apply OK_ret.
Qed.
Lemma OK_zipM A B C (f : A -> B -> G C) : (forall a b, OK (f a b)) -> forall l1 l2, OK (zipM f l1 l2).
Proof.
  intros Hf. induction l1 as [|a l1 IH]; intros l2; cbn [zipM]; [apply OK_ret|]. destruct l2 as [|b l2]; [apply OK_ret|].
  apply OK_bind; [apply Hf|]. intros r. apply OK_bind; [apply IH|]. intros rs. apply OK_ret.
Qed.
Lemma OK_lcval x : OK (lcval x).
Proof. unfold lcval. apply OK_bind; [apply OK_pubval|]. intros o. apply OK_assert_zero. Qed.

(* ---- from_bits: the value is the weighted sum of the bit values ---- *)
Definition vals (sg : store) (bs : list slc) : list Z := map (fun b => ve sg (sval b)) bs.
Lemma ve_from_bits_aux sg : forall bs acc i, 0 <= i ->
  ve sg (sval (from_bits_aux acc bs i)) = ve sg (sval acc) + wsum (vals sg bs) i.
Proof.
  induction bs as [|b bs IH]; intros acc i Hi; cbn [from_bits_aux vals map wsum]; [ring|].
  rewrite IH by lia. cbn [sval add scale]. esimp. fold (vals sg bs). ring.
Qed.
Lemma ve_from_bits sg bs : ve sg (sval (from_bits bs)) = wsum (vals sg bs) 0.
Proof.
  destruct bs as [|b bs]; cbn [from_bits vals map wsum]; [reflexivity|].
  rewrite ve_from_bits_aux by lia. unfold addc. cbn [sval add scale constv]. esimp. fold (vals sg bs). change (0 + 1) with 1. ring.
Qed.
(* the Python bit extraction recomposes *)
Lemma wsum_pybit v : forall n i, wsum (map (fun j => Bits.pybit v j) (seq i n)) (Z.of_nat i) + recompose v i = recompose v (i + n).
Proof.
  induction n as [|n IH]; intros i; cbn [seq map wsum].
  - rewrite Nat.add_0_r. ring.
  - replace (Z.of_nat i + 1) with (Z.of_nat (S i)) by lia. specialize (IH (S i)).
    replace (i + S n)%nat with (S i + n)%nat by lia. rewrite <- IH. cbn [recompose]. ring.
Qed.
Lemma wsum_pybit_exact v n : 0 <= v < 2 ^ Z.of_nat n -> wsum (map (fun j => Bits.pybit v j) (seq 0 n)) 0 = v.
Proof. intros H. pose proof (wsum_pybit v n 0) as K. cbn [recompose Nat.add Z.of_nat] in K. rewrite Z.add_0_r in K. rewrite K. apply recompose_exact. exact H. Qed.
Lemma ve_pybit sg x i : ve sg (Gadgets.pybit x i) = Bits.pybit (ve sg x) i.
Proof. unfold Gadgets.pybit, Bits.pybit. esimp. reflexivity. Qed.

(* ---- a run of PrivValBool allocations with hints scoped at the start ---- *)
Lemma bits_wp (h : nat -> valexp) : forall n i s sg (Q : list slc -> gst -> store -> Prop), Inv s sg ->
  (forall j, vscopedb (npub s) (npriv s) (h j) = true) ->
  (forall bs s' sg', Post s sg s' sg' -> Forall (fun b => slc_scoped (npub s') (npriv s') b = true) bs ->
     vals sg' bs = map (fun j => ve sg (h j)) (seq i n) -> Q bs s' sg') ->
  wp (mapM_range (fun j => privbool (h j)) i n) s sg Q.
Proof.
  induction n as [|n IH]; intros i s sg Q I Hh HQ; cbn [mapM_range].
  - cbn [ret wp]. apply HQ; [apply Post_refl; exact I|constructor|reflexivity].
  - apply wp_bind. apply privbool_wp; [exact I|]. intros r s1 sg1 P1 Sr _ Vr _.
    destruct P1 as (I1 & E1 & T1). pose proof (cnt_mono _ _ _ _ (proj1 I) (proj1 I1) E1) as [M1 M2].
    apply wp_bind. apply IH; [exact I1|intros j; eapply vscopedb_mono; [| |apply Hh]; lia|].
    intros bs s2 sg2 P2 Sbs Vbs. cbn [ret wp]. destruct P2 as (I2 & E2 & T2).
    pose proof (cnt_mono _ _ _ _ (proj1 I1) (proj1 I2) E2) as [M3 M4].
    apply HQ.
    + split; [exact I2|split; [eapply ext_trans; eauto|congruence]].
    + constructor; [eapply slc_scoped_mono; [| |exact Sr]; lia|exact Sbs].
    + cbn [vals map seq]. f_equal.
      * rewrite (ve_ext ins ig _ _ _ _ (proj1 I1) E2 (scoped_sval _ _ _ Sr)). exact Vr.
      * fold (vals sg2 bs). rewrite Vbs. apply map_ext. intros j. apply (ve_ext ins ig _ _ _ _ (proj1 I) E1 (Hh j)).
Qed.

(* ---- to_bits: the bits are the Python bits of the value; the recomposition constraint is checked at run time ---- *)
Lemma pybit_scoped np nw x i : vscopedb np nw x = true -> vscopedb np nw (Gadgets.pybit x i) = true.
Proof. intros H. unfold Gadgets.pybit. cbn [vscopedb]. rewrite H. reflexivity. Qed.
Lemma to_bits_wp x k s sg (Q : list slc -> gst -> store -> Prop) : Inv s sg ->
  (forall bs s' sg', Post s sg s' sg' -> Forall (fun b => slc_scoped (npub s') (npriv s') b = true) bs ->
     vals sg' bs = map (fun j => Bits.pybit (ve sg (sval x)) j) (seq 0 k) -> Q bs s' sg') ->
  wp (to_bits x k) s sg Q.
Proof.
  intros I HQ. unfold to_bits, get, raise_if. cbn [bind wp]. intros C B.
  assert (Cx : vscopedb (npub s) (npriv s) (sval x) = true).
  { unfold vlt0 in C. cbn [bscopedb vscopedb] in C. apply andb_prop in C. destruct C as [_ C]. apply andb_prop in C. destruct C as [_ C]. exact C. }
  apply wp_bind. apply bits_wp; [exact I|intros j; apply pybit_scoped; exact Cx|].
  intros bs s1 sg1 P1 Sbs Vbs. apply wp_bind. apply assert_zero_wp; [exact (proj1 P1)|].
  intros s2 sg2 P2. cbn [ret wp]. destruct P1 as (I1 & E1 & T1). destruct P2 as (I2 & E2 & T2).
  pose proof (cnt_mono _ _ _ _ (proj1 I1) (proj1 I2) E2) as [M3 M4].
  apply HQ.
  - split; [exact I2|split; [eapply ext_trans; eauto|congruence]].
  - eapply Forall_impl; [|exact Sbs]. intros b Hb. eapply slc_scoped_mono; [| |exact Hb]; lia.
  - rewrite <- (map_ext _ _ (fun j => ve_pybit sg (sval x) j)). rewrite <- Vbs. unfold vals. apply map_ext_in.
    intros b Hb. rewrite Forall_forall in Sbs. apply (ve_ext ins ig _ _ _ _ (proj1 I1) E2 (scoped_sval _ _ _ (Sbs b Hb))).
Qed.
Lemma OK_to_bits x k : OK (to_bits x k).
Proof. intros s sg Q I HQ. apply to_bits_wp; [exact I|]. intros. apply HQ. assumption. Qed.

Lemma triple_fields (s s' : gst) : cur_triple s' = cur_triple s -> guard s' = guard s /\ ignore s' = ignore s /\ one s' = one s.
Proof. unfold cur_triple. intros H. injection H. auto. Qed.
Lemma bit_length_abs v k : 0 <= k -> Sym.bit_length v <= k -> Z.abs v < 2 ^ k.
Proof.
  intros Hk H. assert (E : Sym.bit_length v = Bits.bit_length (Z.abs v)).
  { unfold Sym.bit_length, Bits.bit_length. rewrite Z.abs_involutive. destruct (Z.eqb_spec v 0) as [->|Hn]; [reflexivity|].
    destruct (Z.eqb_spec (Z.abs v) 0); [lia|reflexivity]. }
  rewrite E in H. apply (proj1 (bit_length_range (Z.abs v) k (Z.abs_nonneg v) Hk)). exact H.
Qed.

(* ---- check_positive: the sign test; under a true guard nothing is checked at run time, so the identity
        (2 r) x = x + sum(bits of |x| or |x|-1) + (1 - r) is proved here ---- *)
Lemma check_positive_wp x k s sg (Q : slc -> gst -> store -> Prop) : Inv s sg ->
  (forall r s' sg', Post s sg s' sg' -> slc_scoped (npub s') (npriv s') r = true ->
     (be sg (ignore s) = false -> ve sg' (sval r) = if 0 <=? ve sg (sval x) then 1 else 0) -> Q r s' sg') ->
  wp (check_positive x k) s sg Q.
Proof.
  intros I HQ. unfold check_positive, get, raise_if. cbn [bind wp]. intros C B.
  set (A := BAnd (isg s) (BBitLenLe (sval x) (Z.of_nat k))) in *.
  set (ab := VIte (BLe (VConst 0) (sval x)) (sval x) (VSub (VSub (VConst 0) (sval x)) (VConst 1))).
  assert (CA : bscopedb (npub s) (npriv s) A = true /\ vscopedb (npub s) (npriv s) (sval x) = true).
  { cbn [bscopedb] in C. apply andb_prop in C. destruct C as [C _]. split; [exact C|].
    unfold A in C. cbn [bscopedb] in C. apply andb_prop in C. tauto. }
  destruct CA as [CA Cx].
  apply wp_bind. apply privbool_wp; [exact I|]. intros r s1 sg1 P1 Sr _ Vr _. destruct P1 as (I1 & E1 & T1).
  pose proof (cnt_mono _ _ _ _ (proj1 I) (proj1 I1) E1) as [M1 M2].
  assert (Hh : forall j, vscopedb (npub s) (npriv s) (VIte A (Gadgets.pybit ab j) (VConst 0)) = true).
  { intros j. cbn [vscopedb]. rewrite CA. unfold Gadgets.pybit, ab. cbn [vscopedb bscopedb]. rewrite Cx. reflexivity. }
  apply wp_bind. apply bits_wp; [exact I1|intros j; eapply vscopedb_mono; [| |apply Hh]; lia|].
  intros bs s2 sg2 P2 Sbs Vbs. destruct P2 as (I2 & E2 & T2).
  pose proof (cnt_mono _ _ _ _ (proj1 I1) (proj1 I2) E2) as [M3 M4].
  assert (E02 : ext sg sg2) by (eapply ext_trans; eauto).
  destruct (triple_fields _ _ T1) as (G1 & Ig1 & O1). destruct (triple_fields _ _ T2) as (G2 & Ig2 & O2).
  apply wp_bind. apply add_constraint_wp; [exact I2| |].
  - rewrite Ig2, Ig1. rewrite (be_ext ins ig _ _ _ _ (proj1 I) E02 (inv_ignore_scoped _ _ I)). intros Bi.
    esimp_in B. rewrite Bi in B. cbn [negb] in B. rewrite andb_true_r in B. apply negb_false_iff in B.
    (* values *)
    assert (Xv : ve sg2 (sval x) = ve sg (sval x)) by (apply (ve_ext ins ig _ _ _ _ (proj1 I) E02 Cx)).
    assert (Rv : ve sg2 (sval r) = if 0 <=? ve sg (sval x) then 1 else 0).
    { rewrite (ve_ext ins ig _ _ _ _ (proj1 I1) E2 (scoped_sval _ _ _ Sr)). rewrite Vr. esimp. rewrite B. reflexivity. }
    assert (Rg : Z.abs (ve sg (sval x)) < 2 ^ Z.of_nat k).
    { unfold A in B. esimp_in B. apply andb_prop in B. destruct B as [_ B]. apply bit_length_abs; lia. }
    assert (Bv : wsum (vals sg2 bs) 0 = if 0 <=? ve sg (sval x) then ve sg (sval x) else - ve sg (sval x) - 1).
    { rewrite Vbs.
      rewrite (map_ext _ (fun j => Bits.pybit (ve sg ab) j)).
      2:{ intros j. rewrite (ve_ext ins ig _ _ _ _ (proj1 I) E1 (Hh j)). esimp. rewrite B. rewrite ve_pybit. reflexivity. }
      rewrite wsum_pybit_exact; unfold ab; esimp; destruct (Z.leb_spec 0 (ve sg (sval x))); lia. }
    unfold rsubc. cbn [sval scale add neg constv]. esimp. rewrite ve_from_bits, Bv, Xv, Rv.
    destruct (Z.leb_spec 0 (ve sg (sval x))); apply eq_feq; ring.
  - intros s3 sg3 P3. cbn [ret wp]. destruct P3 as (I3 & E3 & T3).
    pose proof (cnt_mono _ _ _ _ (proj1 I2) (proj1 I3) E3) as [M5 M6].
    apply HQ.
    + split; [exact I3|split; [eapply ext_trans; [exact E02|exact E3]|congruence]].
    + eapply slc_scoped_mono; [| |exact Sr]; lia.
    + intros Bi. rewrite (ve_ext ins ig _ _ _ _ (proj1 I1) (ext_trans _ _ _ E2 E3) (scoped_sval _ _ _ Sr)). rewrite Vr.
      esimp_in B. rewrite Bi in B. cbn [negb] in B. rewrite andb_true_r in B. apply negb_false_iff in B. esimp. rewrite B. reflexivity.
Qed.
Lemma OK_check_positive x k : OK (check_positive x k).
Proof. intros s sg Q I HQ. apply check_positive_wp; [exact I|]. intros. apply HQ. assumption. Qed.

(* ---- compositions ---- *)
Ltac ok_step := first [ apply OK_ret | apply OK_Ret | apply OK_raise | apply OK_getb; intros ? | apply OK_raise_ifb
                      | apply OK_bind; [|intros ?] | assumption ].
Lemma OK_assert_positive x k : OK (assert_positive x k).
Proof. unfold assert_positive. apply OK_getb. intros s. apply OK_raise_ifb. apply OK_bind; [apply OK_to_bits|intros _; apply OK_ret]. Qed.
Section Cfg.
Variable c : cfg.
Lemma OK_lt x y : OK (lt c x y). Proof. apply OK_check_positive. Qed.
Lemma OK_le x y : OK (le c x y). Proof. apply OK_check_positive. Qed.
Lemma OK_gt x y : OK (gt c x y). Proof. apply OK_check_positive. Qed.
Lemma OK_ge x y : OK (ge c x y). Proof. apply OK_check_positive. Qed.
Lemma OK_eq x y : OK (eq x y). Proof. apply OK_check_zero. Qed.
Lemma OK_ne x y : OK (ne x y). Proof. unfold ne. apply OK_bind; [apply OK_check_zero|intros r; apply OK_ret]. Qed.
Lemma OK_ensurelc_int k : OK (ensurelc_int k). Proof. unfold ensurelc_int. apply OK_getb. intros s. apply OK_ret. Qed.
Lemma OK_assert_rel rel d x y : OK (assert_rel c rel d x y).
Proof. unfold assert_rel. apply OK_getb. intros s. apply OK_raise_ifb. apply OK_assert_positive. Qed.
Lemma OK_assert_lt x y : OK (assert_lt c x y). Proof. apply OK_assert_rel. Qed.
Lemma OK_assert_le x y : OK (assert_le c x y). Proof. apply OK_assert_rel. Qed.
Lemma OK_assert_gt x y : OK (assert_gt c x y). Proof. apply OK_assert_rel. Qed.
Lemma OK_assert_ge x y : OK (assert_ge c x y). Proof. apply OK_assert_rel. Qed.
Lemma OK_assert_eq x y : OK (assert_eq x y).
Proof. unfold assert_eq. apply OK_getb. intros s. apply OK_raise_ifb. apply OK_assert_zero. Qed.
Lemma OK_assert_ne x y : OK (assert_ne x y).
Proof. unfold assert_ne. apply OK_getb. intros s. apply OK_raise_ifb. apply OK_assert_nonzero. Qed.
Lemma OK_assert_range x lo hi : OK (assert_range c x lo hi).
Proof.
  unfold assert_range. apply OK_getb. intros s. apply OK_raise_ifb.
  apply OK_bind; [apply OK_assert_positive|intros _; apply OK_assert_positive].
Qed.
Lemma OK_truediv_int x k : OK (truediv_int x k).
Proof.
  unfold truediv_int. apply OK_getb. intros s. apply OK_raise_ifb. destruct (Z.eq_dec (k mod p) 0); [apply OK_raise|apply OK_ret].
Qed.

(* ---- exact division by a LinComb: y * (x // y) = x when x % y = 0 ---- *)
Lemma truediv_wp x y s sg (Q : slc -> gst -> store -> Prop) : Inv s sg ->
  (forall r s' sg', Post s sg s' sg' ->
     (be sg (ignore s) = false -> ve sg' (sval r) = ve sg (sval x) / ve sg (sval y) /\ ve sg (sval x) mod ve sg (sval y) = 0 /\ ve sg (sval y) <> 0) -> Q r s' sg') ->
  wp (truediv x y) s sg Q.
Proof.
  intros I HQ. unfold truediv, get, raise_if, privval. cbn [bind wp]. intros C1 B1 C2 B2 C3.
  set (Bc := BAnd (isg s) (BEq (VMod (sval x) (sval y)) (VConst 0))) in *.
  set (z := ve sg (VIte Bc (VDiv (sval x) (sval y)) (VConst 0))).
  pose proof (proj1 I) as Ic.
  assert (Cxy : vscopedb (npub s) (npriv s) (sval x) = true /\ vscopedb (npub s) (npriv s) (sval y) = true).
  { cbn [vscopedb] in C3. apply andb_prop in C3. destruct C3 as [C3 _]. apply andb_prop in C3. destruct C3 as [_ C3].
    apply andb_prop in C3. exact C3. }
  destruct Cxy as [Cx Cy].
  apply wp_bind. apply add_constraint_wp; [apply Inv_priv; exact I| |].
  - cbn [ignore upd_counters].
    rewrite (be_push_priv ins ig _ _ _ _ Ic (inv_ignore_scoped _ _ I)). intros Bi.
    rewrite (ve_push_priv ins ig _ _ _ _ Ic Cx), (ve_push_priv ins ig _ _ _ _ Ic Cy), (ve_new_priv _ _ _ Ic).
    esimp_in B2. rewrite Bi in B2. cbn [negb] in B2. rewrite andb_true_r in B2. apply negb_false_iff in B2.
    unfold z. esimp. rewrite B2. unfold Bc in B2. esimp_in B2. apply andb_prop in B2. destruct B2 as [_ B2].
    apply Z.eqb_eq in B2. esimp_in B1. apply Z.eqb_neq in B1.
    apply eq_feq. symmetry. apply Z_div_exact_full_2; assumption.
  - intros s' sg' P. cbn [ret wp]. apply HQ; [eapply Post_trans; [apply Post_priv; exact I|exact P]|].
    intros Bi. destruct P as (I' & E' & _).
    rewrite (ve_ext ins ig _ _ _ _ (proj1 (Inv_priv ins ig _ _ z I)) E' (scoped_sval _ _ _ (new_priv_scoped _ _ Ic))), (ve_new_priv _ _ _ Ic).
    esimp_in B2. rewrite Bi in B2. cbn [negb] in B2. rewrite andb_true_r in B2. apply negb_false_iff in B2.
    unfold z. esimp. rewrite B2. unfold Bc in B2. esimp_in B2. apply andb_prop in B2. destruct B2 as [_ B2].
    apply Z.eqb_eq in B2. esimp_in B1. apply Z.eqb_neq in B1. auto.
Qed.
Lemma OK_truediv x y : OK (truediv x y).
Proof. intros s sg Q I HQ. apply truediv_wp; [exact I|]. intros. apply HQ. assumption. Qed.

(* ---- divmod: quo * y = x - rem holds exactly for the honest witness (rem := x - quo * y) ---- *)
Lemma divmod_wp x y s sg (Q : slc * slc -> gst -> store -> Prop) : Inv s sg ->
  (forall r s' sg', Post s sg s' sg' ->
     ve sg' (sval (fst r)) = ve sg (sval x) / ve sg (sval y) /\ ve sg' (sval (snd r)) = ve sg (sval x) mod ve sg (sval y) -> Q r s' sg') ->
  wp (divmod c x y) s sg Q.
Proof.
  intros I HQ. unfold divmod, raise_if, privval. cbn [bind wp]. intros C1 B1 C2.
  pose proof (proj1 I) as Ic.
  assert (Cxy : vscopedb (npub s) (npriv s) (sval x) = true /\ vscopedb (npub s) (npriv s) (sval y) = true).
  { cbn [vscopedb] in C2. apply andb_prop in C2. exact C2. }
  destruct Cxy as [Cx Cy].
  set (q := ve sg (VDiv (sval x) (sval y))). set (s1 := upd_counters s (npub s) (npriv s + 1) (noid s)). set (sg1 := push_priv sg q).
  assert (I1 : Inv s1 sg1) by (apply Inv_priv; exact I). pose proof (proj1 I1) as Ic1.
  assert (Sq : slc_scoped (npub s1) (npriv s1) (var_slc (p:=p) (- (npriv s + 1))) = true) by (apply (new_priv_scoped _ _ Ic)).
  apply wp_bind. apply mul_wp; [exact I1|]. intros res s2 sg2 P2 Sres Vres _ _. destruct P2 as (I2 & E2 & T2).
  pose proof (proj1 I2) as Ic2. pose proof (cnt_mono _ _ _ _ Ic1 Ic2 E2) as [M1 M2]. cbn [npub npriv upd_counters s1] in M1, M2.
  cbn [bind wp]. intros C3.
  set (rm := ve sg2 (VSub (sval x) (sval res))). set (s3 := upd_counters s2 (npub s2) (npriv s2 + 1) (noid s2)). set (sg3 := push_priv sg2 rm).
  assert (I3 : Inv s3 sg3) by (apply Inv_priv; exact I2).
  assert (Cx2 : vscopedb (npub s2) (npriv s2) (sval x) = true) by (eapply vscopedb_mono; [| |exact Cx]; lia).
  assert (Cy2 : vscopedb (npub s2) (npriv s2) (sval y) = true) by (eapply vscopedb_mono; [| |exact Cy]; lia).
  assert (Cq2 : vscopedb (npub s2) (npriv s2) (sval (var_slc (p:=p) (- (npriv s + 1)))) = true).
  { eapply vscopedb_mono; [| |exact (scoped_sval _ _ _ Sq)]; cbn; lia. }
  apply wp_bind. apply add_constraint_wp; [exact I3| |].
  - intros _. unfold sub. cbn [sval add neg]. esimp. unfold sg3.
    rewrite (ve_push_priv ins ig _ _ _ _ Ic2 Cx2), (ve_push_priv ins ig _ _ _ _ Ic2 Cy2), (ve_push_priv ins ig _ _ _ _ Ic2 Cq2).
    rewrite (ve_new_priv _ _ _ Ic2). unfold rm. esimp. rewrite Vres.
    rewrite (ve_ext ins ig _ _ _ _ Ic1 E2 (scoped_sval _ _ _ Sq)).
    assert (Ey : ve sg2 (sval y) = ve sg1 (sval y)).
    { apply (ve_ext ins ig s1 _ _ _ Ic1 E2). eapply vscopedb_mono; [| |exact Cy]; cbn; lia. }
    rewrite Ey. apply eq_feq. ring.
  - intros s4 sg4 P4. apply wp_bind. apply OK_assert_lt; [exact (proj1 P4)|]. intros _ s5 sg5 P5.
    apply wp_bind. apply OK_assert_positive; [exact (proj1 P5)|]. intros _ s6 sg6 P6. cbn [ret wp].
    assert (E36 : ext sg3 sg6) by (eapply ext_trans; [exact (proj1 (proj2 P4))|eapply ext_trans; [exact (proj1 (proj2 P5))|exact (proj1 (proj2 P6))]]).
    assert (E16 : ext sg1 sg6) by (eapply ext_trans; [exact E2|eapply ext_trans; [apply ext_push_priv|exact E36]]).
    assert (E01 : ext sg sg1) by apply ext_push_priv.
    apply HQ.
    { eapply Post_trans; [apply Post_priv; exact I|].
      eapply Post_trans; [split; [exact I2|split; [exact E2|exact T2]]|].
      eapply Post_trans; [apply Post_priv; exact I2|].
      eapply Post_trans; [exact P4|]. eapply Post_trans; [exact P5|exact P6]. }
    cbn [fst snd].
    assert (Qv : ve sg1 (sval (var_slc (p:=p) (- (npriv s + 1)))) = ve sg (sval x) / ve sg (sval y)).
    { unfold sg1. rewrite (ve_new_priv _ _ _ Ic). unfold q. esimp. reflexivity. }
    split.
    + rewrite (ve_ext ins ig s1 _ _ _ Ic1 E16 (scoped_sval _ _ _ Sq)). exact Qv.
    + rewrite (ve_ext ins ig s3 _ _ _ (proj1 I3) E36 (scoped_sval _ _ _ (new_priv_scoped _ _ Ic2))). unfold sg3. rewrite (ve_new_priv _ _ _ Ic2).
      unfold rm. esimp. rewrite Vres, Qv.
      rewrite (ve_ext ins ig s _ _ _ Ic (ext_trans _ _ _ E01 E2) Cx).
      assert (Ey : ve sg1 (sval y) = ve sg (sval y)) by (apply (ve_ext ins ig s _ _ _ Ic E01 Cy)). rewrite Ey.
      esimp_in B1. apply Z.eqb_neq in B1. rewrite (Z.mod_eq _ _ B1). ring.
Qed.
Lemma OK_divmod x y : OK (divmod c x y).
Proof. intros s sg Q I HQ. apply divmod_wp; [exact I|]. intros. apply HQ. assumption. Qed.
Lemma ite_lc_wp cnd t f s sg (Q : slc -> gst -> store -> Prop) : Inv s sg ->
  (forall r s' sg', Post s sg s' sg' -> ve sg' (sval r) = ve sg (sval f) + ve sg (sval cnd) * (ve sg (sval t) - ve sg (sval f)) -> Q r s' sg') ->
  wp (ite_lc cnd t f) s sg Q.
Proof.
  intros I HQ. unfold ite_lc. apply wp_bind. apply mul_wp; [exact I|]. intros m s1 sg1 P1 Sm Vm Cc Ctf. cbn [ret wp].
  apply HQ; [exact P1|]. cbn [sval add]. esimp. rewrite Vm. unfold sub. cbn [sval add neg]. esimp.
  cbn [vscopedb sval sub add neg] in Ctf. apply andb_prop in Ctf. destruct Ctf as [Ct Cf]. cbn [vscopedb] in Cf. apply andb_prop in Cf. destruct Cf as [_ Cf].
  rewrite (ve_ext ins ig _ _ _ _ (proj1 I) (proj1 (proj2 P1)) Cf). ring.
Qed.

Lemma OK_pow_nat x : forall k, OK (pow_nat x k).
Proof.
  induction k as [|k IH]; cbn [pow_nat]; [apply OK_getb; intros s; apply OK_ret|].
  destruct k as [|k']; [apply OK_ret|]. apply OK_bind; [exact IH|intros yy; apply OK_mul].
Qed.
Lemma OK_ite_lc cnd t f : OK (ite_lc cnd t f).
Proof. unfold ite_lc. apply OK_bind; [apply OK_mul|intros m; apply OK_ret]. Qed.
Lemma OK_powers : forall n curr, OK (powers curr n).
Proof.
  induction n as [|n IH]; intros curr; cbn [powers]; [apply OK_ret|].
  apply OK_bind; [apply OK_mul|intros sq]. apply OK_bind; [apply IH|intros l; apply OK_ret].
Qed.
Lemma OK_select_power bit power : OK (select_power bit power).
Proof.
  unfold select_power. apply OK_bind; [apply OK_boolctor|intros k1]. apply OK_bind; [apply OK_eq|intros e].
  apply OK_getb. intros s. destruct (same_obj power (one s)); [apply OK_ret|apply OK_ite_lc].
Qed.
Lemma OK_prodM : forall l acc, OK (prodM acc l).
Proof.
  induction l as [|m l IH]; intros acc; cbn [prodM]; [apply OK_ret|]. apply OK_bind; [apply OK_mul|intros r; apply IH].
Qed.
Lemma OK_pow_lc x y : OK (pow_lc c x y).
Proof.
  unfold pow_lc. apply OK_bind; [apply OK_to_bits|intros bits]. apply OK_bind; [apply OK_powers|intros ps].
  apply OK_bind; [apply OK_zipM; intros; apply OK_select_power|intros ms]. apply OK_getb. intros s. apply OK_prodM.
Qed.
Lemma OK_bitwise f x y : (forall a b, OK (f a b)) -> OK (bitwise c f x y).
Proof.
  intros Hf. unfold bitwise. apply OK_bind; [apply OK_to_bits|intros xb]. apply OK_bind; [apply OK_to_bits|intros yb].
  apply OK_bind; [apply OK_zipM; exact Hf|intros rs; apply OK_ret].
Qed.
Lemma OK_bit_and a b : OK (bit_and a b). Proof. apply OK_mul. Qed.
Lemma OK_bit_xor a b : OK (bit_xor a b). Proof. unfold bit_xor. apply OK_bind; [apply OK_mul|intros m; apply OK_ret]. Qed.
Lemma OK_bit_or a b : OK (bit_or a b). Proof. unfold bit_or. apply OK_bind; [apply OK_mul|intros m; apply OK_ret]. Qed.
Lemma OK_land_lc x y : OK (land_lc c x y). Proof. apply OK_bitwise. apply OK_bit_and. Qed.
Lemma OK_lxor_lc x y : OK (lxor_lc c x y). Proof. apply OK_bitwise. apply OK_bit_xor. Qed.
Lemma OK_lor_lc x y : OK (lor_lc c x y). Proof. apply OK_bitwise. apply OK_bit_or. Qed.
Lemma OK_invert_lc x : OK (invert_lc c x).
Proof. unfold invert_lc. apply OK_bind; [apply OK_to_bits|intros bs; apply OK_ret]. Qed.
Lemma OK_rshift_int x k : OK (rshift_int c x k).
Proof. unfold rshift_int. apply OK_bind; [apply OK_to_bits|intros bs; apply OK_ret]. Qed.

(* ---- nested guards: guard & cond (bitwise AND of the two decompositions) is 0 as soon as one of them is 0 ---- *)
Lemma zip_and_wp : forall xb yb s sg (Q : list slc -> gst -> store -> Prop), Inv s sg ->
  Forall (fun b => slc_scoped (npub s) (npriv s) b = true) xb -> Forall (fun b => slc_scoped (npub s) (npriv s) b = true) yb ->
  (forall rs s' sg', Post s sg s' sg' ->
     (Forall (fun v => v = 0) (vals sg xb) \/ Forall (fun v => v = 0) (vals sg yb) -> Forall (fun v => v = 0) (vals sg' rs)) -> Q rs s' sg') ->
  wp (zipM bit_and xb yb) s sg Q.
Proof.
  induction xb as [|a xb IH]; intros yb s sg Q I Sx Sy HQ; cbn [zipM].
  - cbn [ret wp]. apply HQ; [apply Post_refl; exact I|]. intros _. constructor.
  - destruct yb as [|b yb].
    + cbn [ret wp]. apply HQ; [apply Post_refl; exact I|]. intros _. constructor.
    + inversion Sx as [|? ? Sa Sx']; subst. inversion Sy as [|? ? Sb Sy']; subst.
      apply wp_bind. unfold bit_and. apply mul_wp; [exact I|]. intros r s1 sg1 P1 Sr Vr _ _. destruct P1 as (I1 & E1 & T1).
      pose proof (cnt_mono _ _ _ _ (proj1 I) (proj1 I1) E1) as [M1 M2].
      apply wp_bind. apply IH; [exact I1| | |].
      * eapply Forall_impl; [|exact Sx']. intros z Hz. eapply slc_scoped_mono; [| |exact Hz]; lia.
      * eapply Forall_impl; [|exact Sy']. intros z Hz. eapply slc_scoped_mono; [| |exact Hz]; lia.
      * intros rs s2 sg2 P2 Hrs. cbn [ret wp]. destruct P2 as (I2 & E2 & T2).
        apply HQ; [split; [exact I2|split; [eapply ext_trans; eauto|congruence]]|].
        intros Hz. cbn [vals map]. constructor.
        -- rewrite (ve_ext ins ig _ _ _ _ (proj1 I1) E2 (scoped_sval _ _ _ Sr)). rewrite Vr.
           destruct Hz as [Hz|Hz]; cbn [vals map] in Hz; inversion Hz as [|? ? H0 _]; subst; rewrite H0; ring.
        -- apply Hrs.
           assert (Ex : vals sg1 xb = vals sg xb).
           { unfold vals. apply map_ext_in. intros z Hz'. rewrite Forall_forall in Sx'. apply (ve_ext ins ig _ _ _ _ (proj1 I) E1 (scoped_sval _ _ _ (Sx' z Hz'))). }
           assert (Ey : vals sg1 yb = vals sg yb).
           { unfold vals. apply map_ext_in. intros z Hz'. rewrite Forall_forall in Sy'. apply (ve_ext ins ig _ _ _ _ (proj1 I) E1 (scoped_sval _ _ _ (Sy' z Hz'))). }
           rewrite Ex, Ey. destruct Hz as [Hz|Hz]; cbn [vals map] in Hz; inversion Hz; subst; [left|right]; assumption.
Qed.
Lemma wsum_zeros l : forall i, Forall (fun v => v = 0) l -> wsum l i = 0.
Proof. induction l as [|a l IH]; intros i H; cbn [wsum]; [reflexivity|]. inversion H; subst. rewrite IH by assumption. ring. Qed.
Lemma pybit_zero_all k : Forall (fun v => v = 0) (map (fun j => Bits.pybit 0 j) (seq 0 k)).
Proof. apply Forall_forall. intros v Hv. apply in_map_iff in Hv. destruct Hv as [j [<- _]]. unfold Bits.pybit. rewrite Z.land_0_l. apply Z.shiftr_0_l. Qed.

Lemma land_zero_wp x y s sg (Q : slc -> gst -> store -> Prop) : Inv s sg -> vscopedb (npub s) (npriv s) (sval y) = true ->
  (forall r s' sg', Post s sg s' sg' -> (ve sg (sval x) = 0 \/ ve sg (sval y) = 0 -> ve sg' (sval r) = 0) -> Q r s' sg') ->
  wp (land_lc c x y) s sg Q.
Proof.
  intros I Cy HQ. unfold land_lc, bitwise. apply wp_bind. apply to_bits_wp; [exact I|]. intros xb s1 sg1 P1 Sxb Vxb.
  destruct P1 as (I1 & E1 & T1). apply wp_bind. apply to_bits_wp; [exact I1|]. intros yb s2 sg2 P2 Syb Vyb.
  destruct P2 as (I2 & E2 & T2). pose proof (cnt_mono _ _ _ _ (proj1 I1) (proj1 I2) E2) as [M1 M2].
  assert (Sxb2 : Forall (fun b => slc_scoped (npub s2) (npriv s2) b = true) xb).
  { eapply Forall_impl; [|exact Sxb]. intros z Hz. eapply slc_scoped_mono; [| |exact Hz]; lia. }
  apply wp_bind. apply zip_and_wp; [exact I2|exact Sxb2|exact Syb|].
  intros rs s3 sg3 P3 Hrs. cbn [ret wp]. destruct P3 as (I3 & E3 & T3).
  apply HQ; [split; [exact I3|split; [eapply ext_trans; [exact E1|eapply ext_trans; eauto]|congruence]]|].
  intros Hz. rewrite ve_from_bits. apply wsum_zeros. apply Hrs.
  assert (Ex : vals sg2 xb = vals sg1 xb).
  { unfold vals. apply map_ext_in. intros z Hz'. rewrite Forall_forall in Sxb. apply (ve_ext ins ig _ _ _ _ (proj1 I1) E2 (scoped_sval _ _ _ (Sxb z Hz'))). }
  destruct Hz as [Hz|Hz].
  - left. rewrite Ex, Vxb, Hz. apply pybit_zero_all.
  - right. rewrite Vyb. rewrite (ve_ext ins ig _ _ _ _ (proj1 I) E1 Cy), Hz. apply pybit_zero_all.
Qed.

(* exact value of the AND gadget on the bit lists *)
Lemma zip_and_vals : forall xb yb s sg (Q : list slc -> gst -> store -> Prop), Inv s sg ->
  Forall (fun b => slc_scoped (npub s) (npriv s) b = true) xb -> Forall (fun b => slc_scoped (npub s) (npriv s) b = true) yb ->
  (forall rs s' sg', Post s sg s' sg' -> vals sg' rs = map (fun ab => snd ab * fst ab) (combine (vals sg xb) (vals sg yb)) -> Q rs s' sg') ->
  wp (zipM bit_and xb yb) s sg Q.
Proof.
  induction xb as [|a xb IH]; intros yb s sg Q I Sx Sy HQ; cbn [zipM].
  - cbn [ret wp]. apply HQ; [apply Post_refl; exact I|reflexivity].
  - destruct yb as [|b yb].
    + cbn [ret wp]. apply HQ; [apply Post_refl; exact I|reflexivity].
    + inversion Sx as [|? ? Sa Sx']; subst. inversion Sy as [|? ? Sb Sy']; subst.
      apply wp_bind. unfold bit_and. apply mul_wp; [exact I|]. intros r s1 sg1 P1 Sr Vr _ _. destruct P1 as (I1 & E1 & T1).
      pose proof (cnt_mono _ _ _ _ (proj1 I) (proj1 I1) E1) as [M1 M2].
      apply wp_bind. apply IH; [exact I1| | |].
      * eapply Forall_impl; [|exact Sx']. intros z Hz. eapply slc_scoped_mono; [| |exact Hz]; lia.
      * eapply Forall_impl; [|exact Sy']. intros z Hz. eapply slc_scoped_mono; [| |exact Hz]; lia.
      * intros rs s2 sg2 P2 Hrs. cbn [ret wp]. destruct P2 as (I2 & E2 & T2).
        apply HQ; [split; [exact I2|split; [eapply ext_trans; eauto|congruence]]|].
        cbn [vals map combine fst snd]. f_equal.
        -- rewrite (ve_ext ins ig _ _ _ _ (proj1 I1) E2 (scoped_sval _ _ _ Sr)). exact Vr.
        -- fold (vals sg2 rs). rewrite Hrs. fold (vals sg xb). fold (vals sg yb).
           assert (Ex : vals sg1 xb = vals sg xb).
           { unfold vals. apply map_ext_in. intros z Hz'. rewrite Forall_forall in Sx'. apply (ve_ext ins ig _ _ _ _ (proj1 I) E1 (scoped_sval _ _ _ (Sx' z Hz'))). }
           assert (Ey : vals sg1 yb = vals sg yb).
           { unfold vals. apply map_ext_in. intros z Hz'. rewrite Forall_forall in Sy'. apply (ve_ext ins ig _ _ _ _ (proj1 I) E1 (scoped_sval _ _ _ (Sy' z Hz'))). }
           rewrite Ex, Ey. reflexivity.
Qed.
Lemma pybit_bool v j : (v = 0 \/ v = 1) -> Bits.pybit v j = if Nat.eqb j 0 then v else 0.
Proof.
  intros [H|H]; subst v; rewrite pybit_testbit.
  - rewrite Z.testbit_0_l. destruct (Nat.eqb j 0); reflexivity.
  - destruct j as [|j]; [reflexivity|]. cbn [Nat.eqb]. replace (Z.testbit 1 (Z.of_nat (S j))) with false; [reflexivity|].
    symmetry. change 1 with (2 ^ 0). rewrite Z.pow2_bits_eqb by lia. apply Z.eqb_neq. lia.
Qed.
Lemma and_tail_zero a b : (a = 0 \/ a = 1) -> (b = 0 \/ b = 1) -> forall l, (forall j, In j l -> j <> 0%nat) ->
  Forall (fun v => v = 0) (map (fun ab : Z * Z => snd ab * fst ab) (combine (map (fun j => Bits.pybit a j) l) (map (fun j => Bits.pybit b j) l))).
Proof.
  intros Ha Hb. induction l as [|j l IHl]; intros Hl; cbn [map combine]; constructor.
  - cbn [fst snd]. rewrite !pybit_bool by assumption. destruct j as [|j']; [exfalso; apply (Hl 0%nat); [left; reflexivity|reflexivity]|]. cbn [Nat.eqb]. ring.
  - apply IHl. intros j0 Hj. apply Hl. right. exact Hj.
Qed.
Lemma wsum_and_bool a b : (a = 0 \/ a = 1) -> (b = 0 \/ b = 1) -> forall k, (0 < k)%nat ->
  wsum (map (fun ab : Z * Z => snd ab * fst ab) (combine (map (fun j => Bits.pybit a j) (seq 0 k)) (map (fun j => Bits.pybit b j) (seq 0 k)))) 0 = a * b.
Proof.
  intros Ha Hb k Hk. destruct k as [|k]; [lia|]. cbn [seq map combine wsum fst snd]. rewrite !pybit_bool by assumption. cbn [Nat.eqb].
  rewrite wsum_zeros; [ring|]. apply and_tail_zero; try assumption. intros j Hj. apply in_seq in Hj. lia.
Qed.
(* the conjunction: guard & cond evaluates to guard * cond on boolean values (bitlength >= 1) *)
Lemma land_bool_wp x y s sg (Q : slc -> gst -> store -> Prop) : Inv s sg -> vscopedb (npub s) (npriv s) (sval y) = true -> (0 < nbits c)%nat ->
  (ve sg (sval x) = 0 \/ ve sg (sval x) = 1) -> (ve sg (sval y) = 0 \/ ve sg (sval y) = 1) ->
  (forall r s' sg', Post s sg s' sg' -> ve sg' (sval r) = ve sg (sval x) * ve sg (sval y) -> Q r s' sg') ->
  wp (land_lc c x y) s sg Q.
Proof.
  intros I Cy Hn Hx Hy HQ. unfold land_lc, bitwise. apply wp_bind. apply to_bits_wp; [exact I|]. intros xb s1 sg1 P1 Sxb Vxb.
  destruct P1 as (I1 & E1 & T1). apply wp_bind. apply to_bits_wp; [exact I1|]. intros yb s2 sg2 P2 Syb Vyb.
  destruct P2 as (I2 & E2 & T2). pose proof (cnt_mono _ _ _ _ (proj1 I1) (proj1 I2) E2) as [M1 M2].
  assert (Sxb2 : Forall (fun b => slc_scoped (npub s2) (npriv s2) b = true) xb).
  { eapply Forall_impl; [|exact Sxb]. intros z Hz. eapply slc_scoped_mono; [| |exact Hz]; lia. }
  apply wp_bind. apply zip_and_vals; [exact I2|exact Sxb2|exact Syb|].
  intros rs s3 sg3 P3 Hrs. cbn [ret wp]. destruct P3 as (I3 & E3 & T3).
  apply HQ; [split; [exact I3|split; [eapply ext_trans; [exact E1|eapply ext_trans; eauto]|congruence]]|].
  rewrite ve_from_bits, Hrs.
  assert (Ex : vals sg2 xb = vals sg1 xb).
  { unfold vals. apply map_ext_in. intros z Hz'. rewrite Forall_forall in Sxb. apply (ve_ext ins ig _ _ _ _ (proj1 I1) E2 (scoped_sval _ _ _ (Sxb z Hz'))). }
  rewrite Ex, Vxb, Vyb. rewrite (ve_ext ins ig _ _ _ _ (proj1 I) E1 Cy). apply wsum_and_bool; assumption.
Qed.

Lemma new_guard_wp cnd s sg (Q : slc * bexp -> gst -> store -> Prop) : Inv s sg ->
  (forall gi s' sg', Post s sg s' sg' -> (be sg' (snd gi) = true -> ve sg' (sval (fst gi)) = 0) -> Q gi s' sg') ->
  wp (new_guard c cnd) s sg Q.
Proof.
  intros I HQ. unfold new_guard, get, raise_if. cbn [bind wp]. intros C B.
  assert (Cc : vscopedb (npub s) (npriv s) (sval cnd) = true).
  { unfold vne in C. cbn [bscopedb vscopedb] in C. apply andb_prop in C. destruct C as [_ C]. apply andb_prop in C. destruct C as [C _].
    apply andb_prop in C. tauto. }
  pose proof (inv_ignore_scoped _ _ I) as Ci.
  assert (Fin : forall g s1 sg1, Post s sg s1 sg1 -> (be sg (ignore s) = true \/ ve sg (sval cnd) = 0 -> ve sg1 (sval g) = 0) ->
            wp (bind (lvl:=false) (if oid g =? 0 then fresh_oid else ret (oid g)) (fun o => ret (with_oid g o, BOr (ignore s) (BEq (sval cnd) (VConst 0))))) s1 sg1 Q).
  { intros g s1 sg1 P1 Hg. destruct P1 as (I1 & E1 & T1).
    assert (K : forall o s2, Inv s2 sg1 -> cur_triple s2 = cur_triple s -> Q (with_oid g o, BOr (ignore s) (BEq (sval cnd) (VConst 0))) s2 sg1).
    { intros o s2 I2 T2. apply HQ; [split; [exact I2|split; [exact E1|exact T2]]|]. cbn [fst snd sval with_oid]. intros Bo. apply Hg.
      esimp_in Bo. rewrite (be_ext ins ig _ _ _ _ (proj1 I) E1 Ci), (ve_ext ins ig _ _ _ _ (proj1 I) E1 Cc) in Bo.
      apply orb_prop in Bo. destruct Bo as [Bo|Bo]; [left; exact Bo|right; apply Z.eqb_eq in Bo; exact Bo]. }
    destruct (oid g =? 0); unfold fresh_oid, ret; cbn [bind wp]; apply K; try exact I1; exact T1. }
  destruct (guard s) as [g0|] eqn:Gd.
  - apply wp_bind. apply land_zero_wp; [exact I|exact Cc|]. intros r s1 sg1 P1 Hr. apply Fin; [exact P1|].
    intros [Hi|Hc]; apply Hr; [left|right; exact Hc].
    destruct I as (_ & _ & Hs). rewrite Gd in Hs. exact (proj1 Hs Hi).
  - cbn [ret bind]. apply Fin; [apply Post_refl; exact I|].
    intros [Hi|Hc]; [|exact Hc]. destruct I as (_ & _ & Hs). rewrite Gd in Hs. destruct Hs as [Hs _]. congruence.
Qed.

(* nesting = conjunction: entering a region under an active boolean guard g0 makes the guard g0 * cond *)
Lemma new_guard_conj_wp cnd g0 s sg (Q : slc * bexp -> gst -> store -> Prop) : Inv s sg -> guard s = Some g0 -> (0 < nbits c)%nat ->
  (ve sg (sval g0) = 0 \/ ve sg (sval g0) = 1) ->
  (forall gi s' sg', Post s sg s' sg' -> ve sg' (sval (fst gi)) = ve sg (sval g0) * ve sg (sval cnd) ->
     (ve sg' (sval (fst gi)) = 0 \/ ve sg' (sval (fst gi)) = 1 \/ be sg (ignore s) = true) -> Q gi s' sg') ->
  wp (new_guard c cnd) s sg Q.
Proof.
  intros I Gd Hn Hg HQ. unfold new_guard, get, raise_if. cbn [bind wp]. intros C B. rewrite Gd.
  assert (Cc : vscopedb (npub s) (npriv s) (sval cnd) = true).
  { unfold vne in C. cbn [bscopedb vscopedb] in C. apply andb_prop in C. destruct C as [_ C]. apply andb_prop in C. destruct C as [C _].
    apply andb_prop in C. tauto. }
  assert (Fin : forall g s1 sg1, Post s sg s1 sg1 -> ve sg1 (sval g) = ve sg (sval g0) * ve sg (sval cnd) ->
            (ve sg1 (sval g) = 0 \/ ve sg1 (sval g) = 1 \/ be sg (ignore s) = true) ->
            wp (bind (lvl:=false) (if oid g =? 0 then fresh_oid else ret (oid g)) (fun o => ret (with_oid g o, BOr (ignore s) (BEq (sval cnd) (VConst 0))))) s1 sg1 Q).
  { intros g s1 sg1 P1 Hv Hb. destruct P1 as (I1 & E1 & T1).
    assert (K : forall o s2, Inv s2 sg1 -> cur_triple s2 = cur_triple s -> Q (with_oid g o, BOr (ignore s) (BEq (sval cnd) (VConst 0))) s2 sg1).
    { intros o s2 I2 T2. apply HQ; cbn [fst snd sval with_oid]; try assumption. split; [exact I2|split; [exact E1|exact T2]]. }
    destruct (oid g =? 0); unfold fresh_oid, ret; cbn [bind wp]; apply K; try exact I1; exact T1. }
  apply wp_bind. destruct (be sg (ignore s)) eqn:Bi.
  - (* errors suppressed: the enclosing guard is 0 *)
    assert (G0 : ve sg (sval g0) = 0) by (destruct I as (_ & _ & Hs); rewrite Gd in Hs; exact (proj1 Hs Bi)).
    apply land_zero_wp; [exact I|exact Cc|]. intros r s1 sg1 P1 Hr. apply Fin; [exact P1| |].
    + rewrite (Hr (or_introl G0)), G0. ring.
    + right. right. reflexivity.
  - esimp_in B. rewrite Bi in B. cbn [negb andb] in B. unfold vne in B. esimp_in B.
    assert (Hc : ve sg (sval cnd) = 0 \/ ve sg (sval cnd) = 1).
    { destruct (Z.eqb_spec (ve sg (sval cnd)) 0); [left; assumption|]. destruct (Z.eqb_spec (ve sg (sval cnd)) 1); [right; assumption|discriminate B]. }
    apply land_bool_wp; try assumption. intros r s1 sg1 P1 Hr. apply Fin; [exact P1|exact Hr|].
    rewrite Hr. destruct Hg as [->| ->], Hc as [->| ->]; cbn; auto.
Qed.

(* ---- guarded(cond)(fn)(): the region ---- *)
Lemma guarded_OK A cnd (body : G A) : OK body -> OK (guarded c cnd body).
Proof.
  intros Hb s sg Q I HQ. unfold guarded. apply wp_bind. apply new_guard_wp; [exact I|]. intros [g i] s1 sg1 P1 Hgi.
  cbn [fst snd] in *. destruct P1 as (I1 & E1 & T1). cbn [wp]. intros C.
  set (s_in := upd_globals s1 (Some g) i g _).
  assert (Iin : Inv s_in sg1).
  { split; [exact (proj1 I1)|split; [exact C|]]. cbn [guard ignore one upd_globals s_in gsem]. split; [exact Hgi|reflexivity]. }
  apply Hb; [exact Iin|]. intros x s2 sg2 P2. destruct P2 as (I2 & E2 & T2). cbn [wp].
  pose proof (cnt_mono _ _ _ _ (proj1 I1) (proj1 I2) E2) as [M1 M2]. cbn [npub npriv upd_globals s_in] in M1, M2.
  apply HQ. split; [|split; [eapply ext_trans; eauto|]].
  - destruct I1 as (Ic1 & S1 & H1). split; [exact (proj1 I2)|split].
    + cbn [npub npriv guard ignore one upd_globals]. eapply globals_scoped_mono; [| |exact S1]; lia.
    + cbn [guard ignore one upd_globals]. eapply gsem_stable; [exact E2| |exact H1]. destruct Ic1 as [A1 A2]. rewrite <- A1, <- A2. exact S1.
  - rewrite <- T1. reflexivity.
Qed.

End Cfg.
End G.
