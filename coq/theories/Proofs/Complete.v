(* Completeness of every program: the recorded witness satisfies every emitted constraint (C01), for all programs that do
   not switch error checking off themselves (no ignore_errors() statement), all inputs, with error checking on. *)
From Coq Require Import ZArith List Bool Lia Znumtheory.
From PySnark.Base Require Import FieldZ.
From PySnark.Model Require Import Lc Sym Good Gadgets Api Prog.
From PySnark.Proofs Require Import Meta Frame ProgFrame Wp WpBase GadgetsOK ApiOK ProgOK.
Import ListNotations.
Open Scope Z_scope.

Section C.
Context {p : Z}.
Hypothesis F : field_ok p.
Variable c : cfg.

Lemma vjust_obs ins ig (l : list (Sym.cmd p)) : Forall (fun c0 => match c0 with CEmit _ _ _ => False | _ => True end) l ->
  forall t, vjust (p:=p) ins ig l t.
Proof.
  induction 1 as [|c0 l Hc _ IH]; intros t; cbn [vjust]; [exact I|]. split; [|apply IH].
  intros _. destruct c0; try exact I. contradiction.
Qed.

Lemma Inv_init ins : WpBase.Inv (p:=p) ins false (init_gst (p:=p)) {| pubs := []; privs := [] |}.
Proof. split; [split; reflexivity|split; [reflexivity|]]. cbn. split; reflexivity. Qed.

Theorem gen_prog_justified (pr : list stmt) ins : forallb noign pr = true -> vjust (p:=p) ins false (gen_prog c pr) (Sym.init).
Proof.
  intros N. unfold gen_prog.
  assert (W : Wp.wp (p:=p) ins false (gen_stmts c pr bst0) init_gst {| pubs := []; privs := [] |} (fun _ _ _ => True)).
  { apply (gen_stmts_TOK ins false F c pr bst0 _ _ N (Inv_init ins)); [constructor|]. intros; exact I. }
  destruct (run (gen_stmts c pr bst0) init_gst) as [[r s] cs] eqn:R.
  destruct (wp_sound ins false _ _ _ _ _ _ W Sym.init eq_refl eq_refl _ _ _ R) as [V _].
  destruct r as [b|e]; [|exact V]. apply vjust_app; [exact V|]. apply vjust_obs. unfold out_globals. repeat constructor.
Qed.

Theorem program_complete (pr : list stmt) ins : forallb noign pr = true ->
  let t := model_run (p:=p) c pr ins false in Forall (holds (p:=p) (wval (st t))) (cons t).
Proof.
  intros N t. apply (sat_final F); [exact (gen_prog_scoped c pr)|]. apply gen_prog_justified. exact N.
Qed.
End C.
