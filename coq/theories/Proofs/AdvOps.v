(* C02 one level up: the constraints emitted by the Python-level operators on two secret integers -- through the model of the
   operator dispatch (Model/Api.v) -- force their results, for EVERY assignment satisfying them. *)
From Coq Require Import ZArith List Bool Lia Znumtheory Setoid Morphisms.
From PySnark.Base Require Import FieldZ.
From PySnark.Model Require Import Lc Sym Good Gadgets Api.
From PySnark.Proofs Require Import LcProofs Meta Frame Sound Adv AdvGadgets.
Import ListNotations.
Open Scope Z_scope.

Section AO.
Context {p : Z}.
Hypothesis Hp : prime p.
Variable w : var -> Z.
Hypothesis W0 : w 0 = 1.
Variable c : cfg.
Local Notation gst := (@Gadgets.gst p).
Local Notation slc := (Sym.slc p).
Local Notation pyval := (Api.pyval p).
Local Notation wps := (Adv.wps (p:=p) w).
Local Notation ew := (AdvGadgets.ew (p:=p) w).
Local Notation Gok := (AdvGadgets.Gok (p:=p) w).
Local Notation "a == b" := (feq p a b) (at level 70).
Local Existing Instance feq_equiv.
Local Existing Instance feq_add.
Local Existing Instance feq_sub.
Local Existing Instance feq_mul.
Local Existing Instance feq_opp.
Local Notation sat cs := (Forall (holds (p:=p) w) (cons_of cs)).
Local Notation n := (Z.of_nat (nbits c)).

Ltac disp := unfold pyop, FUEL;
  cbn [binop dispatch lc_dunder lc_rdunder bind ret uneg same_class m_check_positive m_check_zero m_check_nonzero boolr lcr NI].
(* the result is a LinCombBool / LinComb whose wire satisfies P *)
Definition isb (P : Z -> Prop) (r : pyval) : Prop := match r with PBool _ b => P (ew b) | _ => False end.
Definition islc (P : Z -> Prop) (r : pyval) : Prop := match r with PLC x => P (ew x) | _ => False end.

Variable s : gst.
Hypothesis G : Gok s.

Lemma sign_of' d r v : 2 ^ (n + 1) <= p -> - 2 ^ n <= v < 2 ^ n -> d == v ->
  ((r == 1 /\ exists u, 0 <= u < 2 ^ n /\ d == u) \/ (r == 0 /\ exists u, - 2 ^ n <= u < 0 /\ d == u)) -> r == (if 0 <=? v then 1 else 0).
Proof. exact (sign_of d (nbits c) r v). Qed.

Theorem op_lt_forced x y r s' cs vx vy : run (pyop c OLt (PLC x) (PLC y)) s = (inl r, s', cs) -> sat cs ->
  2 ^ (n + 1) <= p -> ew x == vx -> ew y == vy -> - 2 ^ n <= vy - vx - 1 < 2 ^ n -> isb (fun b => b == (if vx <? vy then 1 else 0)) r.
Proof.
  intros R H Hk Ex Ey Rg.
  apply (wps_sound w _ _ (pyop c OLt (PLC x) (PLC y)) s (fun r _ => isb (fun b => b == (if vx <? vy then 1 else 0)) r)) with (s' := s') (cs := cs); auto.
  disp. apply wps_bind. unfold boolr. apply wps_bind. apply (check_positive_s Hp w W0); [exact G|]. intros b s1 _ K. cbn [ret wps bind isb].
  assert (Dv : ew (addc (add y (neg x)) (- (1))) == vy - vx - 1) by (rewrite (ew_addc w W0), (ew_add w), (ew_neg w), Ex, Ey; apply eq_feq; ring).
  pose proof (sign_of' _ _ (vy - vx - 1) Hk Rg Dv K) as K'.
  replace (if vx <? vy then 1 else 0) with (if 0 <=? vy - vx - 1 then 1 else 0); [exact K'|].
  destruct (Z.leb_spec 0 (vy - vx - 1)), (Z.ltb_spec vx vy); try reflexivity; lia.
Qed.
Theorem op_le_forced x y r s' cs vx vy : run (pyop c OLe (PLC x) (PLC y)) s = (inl r, s', cs) -> sat cs ->
  2 ^ (n + 1) <= p -> ew x == vx -> ew y == vy -> - 2 ^ n <= vy - vx < 2 ^ n -> isb (fun b => b == (if vx <=? vy then 1 else 0)) r.
Proof.
  intros R H Hk Ex Ey Rg.
  apply (wps_sound w _ _ (pyop c OLe (PLC x) (PLC y)) s (fun r _ => isb (fun b => b == (if vx <=? vy then 1 else 0)) r)) with (s' := s') (cs := cs); auto.
  disp. apply wps_bind. unfold boolr. apply wps_bind. apply (check_positive_s Hp w W0); [exact G|]. intros b s1 _ K. cbn [ret wps bind isb].
  assert (Dv : ew (add y (neg x)) == vy - vx) by (rewrite (ew_add w), (ew_neg w), Ex, Ey; apply eq_feq; ring).
  pose proof (sign_of' _ _ (vy - vx) Hk Rg Dv K) as K'.
  replace (if vx <=? vy then 1 else 0) with (if 0 <=? vy - vx then 1 else 0); [exact K'|].
  destruct (Z.leb_spec 0 (vy - vx)), (Z.leb_spec vx vy); try reflexivity; lia.
Qed.
Theorem op_eq_forced x y r s' cs : run (pyop c OEq (PLC x) (PLC y)) s = (inl r, s', cs) -> sat cs ->
  isb (fun b => (ew x == ew y -> b == 1) /\ (~ ew x == ew y -> b == 0)) r.
Proof.
  intros R H.
  apply (wps_sound w _ _ (pyop c OEq (PLC x) (PLC y)) s (fun r _ => isb (fun b => (ew x == ew y -> b == 1) /\ (~ ew x == ew y -> b == 0)) r)) with (s' := s') (cs := cs); auto.
  disp. apply wps_bind. unfold boolr. apply wps_bind. apply (check_zero_s Hp w W0). intros b s1 _ [A B]. cbn [ret wps bind isb].
  rewrite (ew_add w), (ew_neg w) in A, B. split; intros E.
  - apply A. rewrite E. apply eq_feq. ring.
  - apply B. intros Z0. apply E. transitivity (ew x + - ew y + ew y); [apply eq_feq; ring|]. rewrite Z0. apply eq_feq. ring.
Qed.
Theorem op_mul_forced x y r s' cs : run (pyop c OMul (PLC x) (PLC y)) s = (inl r, s', cs) -> sat cs -> islc (fun v => v == ew x * ew y) r.
Proof.
  intros R H.
  apply (wps_sound w _ _ (pyop c OMul (PLC x) (PLC y)) s (fun r _ => islc (fun v => v == ew x * ew y) r)) with (s' := s') (cs := cs); auto.
  disp. apply wps_bind. unfold lcr. apply wps_bind. apply (mul_s w). intros m s1 _ E. cbn [ret wps bind islc]. symmetry. exact E.
Qed.
(* + and - emit nothing and are the field operations on the wires *)
Theorem op_add_forced x y r s' cs : run (pyop c OAdd (PLC x) (PLC y)) s = (inl r, s', cs) -> islc (fun v => v = ew x + ew y) r /\ cs = [].
Proof. unfold pyop, FUEL. cbn [binop dispatch lc_dunder bind ret run same_class NI]. intros R. inversion R; subst. split; [cbn [islc]; apply (ew_add w)|reflexivity]. Qed.
Theorem op_sub_forced x y r s' cs : run (pyop c OSub (PLC x) (PLC y)) s = (inl r, s', cs) -> islc (fun v => v = ew x - ew y) r /\ cs = [].
Proof.
  unfold pyop, FUEL. cbn [binop dispatch lc_dunder uneg bind ret run same_class NI]. intros R. inversion R; subst. split; [|reflexivity].
  cbn [islc]. rewrite (ew_add w), (ew_neg w). ring.
Qed.
(* branching.if_then_else(cond, t, f) on two secret integers: the result is forced to the selected operand *)
Theorem op_select_forced o cb t f r s' cs : same_val (PLC t) (PLC f) = false ->
  run (if_then_else c (pyop c) (PBool o cb) (PLC t) (PLC f)) s = (inl r, s', cs) -> sat cs -> Sound.isbit p (ew cb) ->
  islc (fun v => (ew cb == 1 /\ v == ew t) \/ (ew cb == 0 /\ v == ew f)) r.
Proof.
  intros Hne R H Hc.
  apply (wps_sound w _ _ (if_then_else c (pyop c) (PBool o cb) (PLC t) (PLC f)) s (fun r _ => islc (fun v => (ew cb == 1 /\ v == ew t) \/ (ew cb == 0 /\ v == ew f)) r)) with (s' := s') (cs := cs); auto.
  unfold if_then_else. cbn [ite_fuel]. rewrite Hne. cbn [andb]. disp.
  apply wps_bind. apply wps_bind. apply wps_bind. unfold lcr. apply wps_bind. apply (mul_s w). intros m s1 _ Em. cbn [ret wps bind islc].
  rewrite (ew_add w), <- Em, (ew_add w), (ew_neg w).
  destruct (bit_cases p Hp _ Hc) as [C0|C1]; [right|left]; (split; [assumption|]); [rewrite C0|rewrite C1]; apply eq_feq; ring.
Qed.
(* the remaining comparisons and true division through the dispatch *)
Theorem op_gt_forced x y r s' cs vx vy : run (pyop c OGt (PLC x) (PLC y)) s = (inl r, s', cs) -> sat cs ->
  2 ^ (n + 1) <= p -> ew x == vx -> ew y == vy -> - 2 ^ n <= vx - vy - 1 < 2 ^ n -> isb (fun b => b == (if vy <? vx then 1 else 0)) r.
Proof.
  intros R H Hk Ex Ey Rg.
  apply (wps_sound w _ _ (pyop c OGt (PLC x) (PLC y)) s (fun r _ => isb (fun b => b == (if vy <? vx then 1 else 0)) r)) with (s' := s') (cs := cs); auto.
  disp. apply wps_bind. unfold boolr. apply wps_bind. apply (check_positive_s Hp w W0); [exact G|]. intros b s1 _ K. cbn [ret wps bind isb].
  assert (Dv : ew (addc (add x (neg y)) (- (1))) == vx - vy - 1) by (rewrite (ew_addc w W0), (ew_add w), (ew_neg w), Ex, Ey; apply eq_feq; ring).
  pose proof (sign_of' _ _ (vx - vy - 1) Hk Rg Dv K) as K'.
  replace (if vy <? vx then 1 else 0) with (if 0 <=? vx - vy - 1 then 1 else 0); [exact K'|].
  destruct (Z.leb_spec 0 (vx - vy - 1)), (Z.ltb_spec vy vx); try reflexivity; lia.
Qed.
Theorem op_ge_forced x y r s' cs vx vy : run (pyop c OGe (PLC x) (PLC y)) s = (inl r, s', cs) -> sat cs ->
  2 ^ (n + 1) <= p -> ew x == vx -> ew y == vy -> - 2 ^ n <= vx - vy < 2 ^ n -> isb (fun b => b == (if vy <=? vx then 1 else 0)) r.
Proof.
  intros R H Hk Ex Ey Rg.
  apply (wps_sound w _ _ (pyop c OGe (PLC x) (PLC y)) s (fun r _ => isb (fun b => b == (if vy <=? vx then 1 else 0)) r)) with (s' := s') (cs := cs); auto.
  disp. apply wps_bind. unfold boolr. apply wps_bind. apply (check_positive_s Hp w W0); [exact G|]. intros b s1 _ K. cbn [ret wps bind isb].
  assert (Dv : ew (add x (neg y)) == vx - vy) by (rewrite (ew_add w), (ew_neg w), Ex, Ey; apply eq_feq; ring).
  pose proof (sign_of' _ _ (vx - vy) Hk Rg Dv K) as K'.
  replace (if vy <=? vx then 1 else 0) with (if 0 <=? vx - vy then 1 else 0); [exact K'|].
  destruct (Z.leb_spec 0 (vx - vy)), (Z.leb_spec vy vx); try reflexivity; lia.
Qed.
Theorem op_ne_forced x y r s' cs : run (pyop c ONe (PLC x) (PLC y)) s = (inl r, s', cs) -> sat cs ->
  isb (fun b => (ew x == ew y -> b == 0) /\ (~ ew x == ew y -> b == 1)) r.
Proof.
  intros R H.
  apply (wps_sound w _ _ (pyop c ONe (PLC x) (PLC y)) s (fun r _ => isb (fun b => (ew x == ew y -> b == 0) /\ (~ ew x == ew y -> b == 1)) r)) with (s' := s') (cs := cs); auto.
  disp. apply wps_bind. apply wps_bind. apply (check_zero_s Hp w W0). intros b s1 _ [A B]. cbn [ret wps bind isb].
  rewrite (ew_add w), (ew_neg w) in A, B. unfold bnot. rewrite (ew_rsubc w W0). split; intros E.
  - rewrite A; [apply eq_feq; ring|]. rewrite E. apply eq_feq. ring.
  - rewrite B; [apply eq_feq; ring|]. intros Z0. apply E. transitivity (ew x + - ew y + ew y); [apply eq_feq; ring|]. rewrite Z0. apply eq_feq. ring.
Qed.
Theorem op_truediv_forced x y r s' cs : run (pyop c OTrueDiv (PLC x) (PLC y)) s = (inl r, s', cs) -> sat cs -> islc (fun v => ew y * v == ew x) r.
Proof.
  intros R H.
  apply (wps_sound w _ _ (pyop c OTrueDiv (PLC x) (PLC y)) s (fun r _ => islc (fun v => ew y * v == ew x) r)) with (s' := s') (cs := cs); auto.
  disp. apply wps_bind. unfold lcr. apply wps_bind. apply (truediv_s w); [exact G|]. intros q s1 _ E. cbn [ret wps bind islc]. exact E.
Qed.
End AO.
