(* Program-level corollaries of Proofs/Frame.v for EVERY program of the shared language. *)
From Coq Require Import ZArith List Bool Lia.
From PySnark.Model Require Import Lc Sym Gadgets Api Prog.
From PySnark.Proofs Require Import Meta Frame.
Import ListNotations.
Open Scope Z_scope.

Section PF.
Context {p : Z}.
Local Notation gst := (@Gadgets.gst p).
Local Notation cmd := (Sym.cmd p).
Local Notation M := (@Gadgets.M p).
Variable c : cfg.

(* ---- lift is transparent ---- *)
Lemma run_lift : forall A (m : M false A) s, run (lift m) s = run m s.
Proof.
  intros A m. induction m as [A a|A e|A k IH|A h k IH|A h k IH|A k IH|A c0 k IH|A b e k IH|A X g i body IHb k IHk|A H g i o k IH];
    intros s; cbn [lift run]; try reflexivity; try (rewrite IH; reflexivity).
  - rewrite IHb. destruct (run body _) as [[[x|e] s1] c1]; [rewrite IHk|]; reflexivity.
  - discriminate H.
Qed.
(* every generated command list is well-scoped: the hypothesis of the final-witness theorems is always met *)
Theorem gen_prog_scoped : forall (pr : list stmt), scoped_cmds 0 0 (gen_prog (p:=p) c pr) = true.
Proof.
  intros pr. unfold gen_prog.
  destruct (run (gen_stmts c pr bst0) (init_gst)) as [[[r|e] s] cs] eqn:E;
    destruct (run_scoped _ _ _ _ _ _ _ E) as (S & P1 & P2); cbn in S, P1, P2; [|exact S].
  rewrite scoped_app, S. reflexivity.
Qed.

(* ---- programs that use neither ignore_errors() nor the block API: only try/finally regions change the globals ---- *)
Definition plain_stmt (st : stmt) : bool :=
  match st with SIgnore _ | SBSet _ _ | SBGet _ _ | SBSetIdx _ _ _ | SBGetIdx _ _ _ | SBArrSet _ _ _ | SOIf _ _ _ _ | SOWhile _ _ _ _ | SBreakIf _ | SOFor _ _ _ _ _ _ => false | _ => true end.
Lemma gen_stmts_no_set : forall pr (r : bst), forallb plain_stmt pr = true -> no_set (p:=p) _ (gen_stmts c pr r).
Proof.
  induction pr as [|st pr IH]; intros r H; cbn [gen_stmts]; [constructor|].
  cbn [forallb] in H. apply andb_prop in H. destruct H as [H1 H2].
  apply no_set_bind; [|intros a; apply IH; exact H2].
  destruct st; try discriminate H1; cbn [gen_top]; (apply no_set_bind; [apply no_set_lift|intros; constructor]).
Qed.

(* C08 at program level: after the program (whatever it computes, however its guarded regions nest) the globals are the
   initial ones, and every value-dependent raise it can perform reports the initial globals once propagated *)
Theorem program_globals_restored : forall pr r s cs,
  forallb plain_stmt pr = true -> run (gen_stmts c pr bst0) init_gst = (r, s, cs) ->
  cur_triple s = cur_triple (init_gst (p:=p)) /\ unw s = None /\ Forall (is_raise_with (cur_triple (init_gst (p:=p)))) cs.
Proof.
  intros pr r s cs H R. destruct (frame_unwind_no_set _ _ (gen_stmts_no_set pr bst0 H) _ _ _ _ R) as (T & U & F).
  repeat split; assumption.
Qed.

(* ... observed at trace level: an exception leaves (guard None, the initial error-suppression flag, the constant ONE) *)
Lemma fold_raise_obs ins ig (t0 : Sym.gtriple p) (cs : list cmd) : Forall (is_raise_with t0) cs -> forall t,
  (forall e g, raised t = Some (e, g) -> exists s, g = obs_triple p ins ig s t0) ->
  forall e g, raised (fold_left (step p ins ig) cs t) = Some (e, g) -> exists s, g = obs_triple p ins ig s t0.
Proof.
  induction 1 as [|c0 cs Hc _ IH]; intros t Ht e g; cbn [fold_left]; [apply Ht|].
  apply IH. intros e' g'. unfold step. destruct (raised t) eqn:Er; [intro H; apply (Ht e' g'); rewrite <- Er; exact H|].
  destruct c0 as [[|] h|a b y|b e0 u|tag v l|tag x]; cbn; try discriminate.
  destruct (beval p ins ig (st t) b); cbn; [|rewrite Er; discriminate].
  intros H. inversion H; subst. cbn in Hc. subst u. eexists; reflexivity.
Qed.
Theorem program_exception_restores : forall pr ins ig e g,
  forallb plain_stmt pr = true -> raised (model_run (p:=p) c pr ins ig) = Some (e, g) ->
  g = (None, ig, [(0, 1)]).
Proof.
  intros pr ins ig e g H R. unfold model_run, gen_prog, interp in R.
  destruct (run (gen_stmts c pr bst0) init_gst) as [[res s] cs] eqn:E.
  destruct (program_globals_restored pr res s cs H E) as (T & U & F).
  assert (F' : Forall (is_raise_with (cur_triple (init_gst (p:=p)))) (match res with inl _ => cs ++ out_globals s | inr _ => cs end)).
  { destruct res; [|exact F]. apply Forall_app. split; [exact F|]. repeat constructor. }
  destruct (fold_raise_obs ins ig _ _ F' (Sym.init) ltac:(intros ? ? X; discriminate X) e g) as [s0 Hs].
  - destruct res; exact R.
  - rewrite Hs. reflexivity.
Qed.
End PF.
