(* The hypothesis [field_ok p] of the coherence/completeness theorems holds for every prime p:
   Sym.finv returns a multiplicative inverse (accepted Euclid candidate, or Fermat's pow(x, p-2, p)). *)
From Coq Require Import ZArith Lia Znumtheory Zpow_facts.
From PySnark.Base Require Import Fermat.
From PySnark.Model Require Import Sym.
Open Scope Z_scope.

Theorem finv_spec p x : prime p -> x mod p <> 0 -> (x * Sym.finv p x) mod p = 1.
Proof.
  intros Hp Hx. pose proof (prime_ge_2 _ Hp) as H2. unfold Sym.finv.
  set (y := egcd 800 p (x mod p) 0 1 mod p).
  destruct (Z.eqb_spec ((x mod p * y) mod p) 1) as [E|_].
  - rewrite Zmult_mod_idemp_l in E. exact E.
  - exact (finv_correct p x Hp Hx).
Qed.
Theorem field_ok_prime p : prime p -> field_ok p.
Proof. intros Hp. split; [exact Hp|]. intros x Hx. apply finv_spec; assumption. Qed.
