(* pysnark.pack on plain values (C16): packing a bounded integer into bits and unpacking it returns the integer, for every
   modulus.  Statements are about [run]: no variable is allocated, no constraint emitted. *)
From Coq Require Import ZArith List Bool Lia.
From PySnark.Base Require Import FieldZ Bits.
From PySnark.Model Require Import Lc Sym Good Gadgets Api Prog.
Import ListNotations.
Open Scope Z_scope.

Section PK.
Context {p : Z}.
Local Notation gst := (@Gadgets.gst p).
Local Notation pyval := (Api.pyval p).
Local Notation M := (@Gadgets.M p).

(* the monad law for [run] *)
Lemma run_bind : forall lvl A B (m : M lvl A) (f : A -> M lvl B) (s : gst),
  run (bind m f) s = match run m s with
                     | (inl a, s1, c1) => match run (f a) s1 with (r, s2, c2) => (r, s2, c1 ++ c2) end
                     | (inr e, s1, c1) => (inr e, s1, c1)
                     end.
Proof.
  intros lvl A B m. induction m as [A a|A e|A k IH|A h k IH|A h k IH|A k IH|A c0 k IH|A b e k IH|A X g i body IHb k IHk|A H g i o k IH]; intros f s; cbn [bind run].
  - destruct (run (f a) s) as [[r s2] c2]. reflexivity.
  - reflexivity.
  - apply IH.
  - destruct (vscopedb _ _ h); [|reflexivity]. rewrite IH. destruct (run (k _) _) as [[[a|e1] s1] c1]; [destruct (run (f a) s1) as [[r s2] c2]|]; reflexivity.
  - destruct (vscopedb _ _ h); [|reflexivity]. rewrite IH. destruct (run (k _) _) as [[[a|e1] s1] c1]; [destruct (run (f a) s1) as [[r s2] c2]|]; reflexivity.
  - apply IH.
  - destruct (_ && _ && _); [|reflexivity]. rewrite IH. destruct (run k s) as [[[a|e1] s1] c1]; [destruct (run (f a) s1) as [[r s2] c2]|]; reflexivity.
  - destruct (bscopedb _ _ b); [|reflexivity]. rewrite IH. destruct (run k s) as [[[a|e1] s1] c1]; [destruct (run (f a) s1) as [[r s2] c2]|]; reflexivity.
  - destruct (globals_scoped _ _ _ _ _); [|reflexivity].
    destruct (run body _) as [[[x|e1] s1] c1]; [|reflexivity]. rewrite IHk.
    destruct (run (k x) _) as [[[a|e2] s2] c2]; [destruct (run (f a) s2) as [[r s3] c3]; rewrite app_assoc|]; reflexivity.
  - destruct (globals_scoped _ _ _ _ _); [|reflexivity]. apply IH.
Qed.
Lemma run_bind_pure lvl A B (m : M lvl A) (f : A -> M lvl B) (s : gst) a : run m s = (inl a, s, []) -> run (bind m f) s = run (f a) s.
Proof. intros R. rewrite run_bind, R. destruct (run (f a) s) as [[r s2] c2]. reflexivity. Qed.

Variable c : cfg.
Lemma run_mul_int a b (s : gst) : run (op2 c OMul (PInt a) (PInt b)) s = (inl (PInt (a * b)), s, []).
Proof. unfold op2, pyop, FUEL. cbn [binop dispatch bind ret run same_class]. reflexivity. Qed.
Lemma run_add_int a b (s : gst) : run (op2 c OAdd (PInt a) (PInt b)) s = (inl (PInt (a + b)), s, []).
Proof. unfold op2, pyop, FUEL. cbn [binop dispatch bind ret run same_class]. reflexivity. Qed.

(* sum([(1 << i) * b_i]) on plain int bits *)
Definition ibits (z : Z) (i k : nat) : list pyval := map (fun j => PInt (Bits.pybit z j)) (seq i k).
Lemma py_bits_ibits z k : py_bits (p:=p) z k = ibits z 0 k.
Proof. reflexivity. Qed.
Lemma run_weights z : forall k i (s : gst),
  run ((fix go (bs : list pyval) (i : Z) : Gadgets.G (list pyval) :=
          match bs with [] => ret [] | b :: bs' => t <- op2 c OMul (PInt (2 ^ i)) b ;; r <- go bs' (i + 1) ;; ret (t :: r) end) (ibits z i k) (Z.of_nat i)) s
  = (inl (map (fun j => PInt (2 ^ Z.of_nat j * Bits.pybit z j)) (seq i k)), s, []).
Proof.
  induction k as [|k IH]; intros i s; cbn [ibits seq map]; [reflexivity|].
  rewrite (run_bind_pure _ _ _ _ _ _ _ (run_mul_int _ _ s)).
  replace (Z.of_nat i + 1) with (Z.of_nat (S i)) by lia. fold (ibits z (S i) k).
  rewrite (run_bind_pure _ _ _ _ _ _ _ (IH (S i) s)). reflexivity.
Qed.
Lemma run_py_sum_gen (l : list Z) : forall (m : Gadgets.G pyval) acc (s : gst), run m s = (inl (PInt acc), s, []) ->
  run (fold_left (fun (a : Gadgets.G pyval) (y : pyval) => x <- a ;; op2 c OAdd x y) (map PInt l) m) s
  = (inl (PInt (fold_left Z.add l acc)), s, []).
Proof.
  induction l as [|z l IH]; intros m acc s Hm; cbn [map fold_left]; [exact Hm|].
  apply IH. rewrite (run_bind_pure _ _ _ _ _ _ _ Hm). apply run_add_int.
Qed.
Lemma run_py_sum_ints (l : list Z) (s : gst) : run (py_sum c (map PInt l)) s = (inl (PInt (fold_left Z.add l 0)), s, []).
Proof. unfold py_sum. apply run_py_sum_gen. reflexivity. Qed.
Lemma fold_add_recompose z : forall k i acc, fold_left Z.add (map (fun j => 2 ^ Z.of_nat j * Bits.pybit z j) (seq i k)) acc + recompose z i = acc + recompose z (i + k).
Proof.
  induction k as [|k IH]; intros i acc; cbn [seq map fold_left]; [rewrite Nat.add_0_r; ring|].
  pose proof (IH (S i) (acc + 2 ^ Z.of_nat i * Bits.pybit z i)) as H. replace (i + S k)%nat with (S i + k)%nat by lia.
  cbn [recompose] in H. lia.
Qed.

(* unpack(pack(z)) = z for PackIntMod(m), 0 <= z < m *)
Theorem pack_unpack_intmod m z (s : gst) : 0 <= z < m ->
  run (pack_v (KIntMod m) (PInt z)) s = (inl (PList (py_bits z (bitlen_of m))), s, []) /\
  run (unpack_v c (KIntMod m) (py_bits z (bitlen_of m)) 0) s = (inl (PInt z), s, []).
Proof.
  intros Hz. split.
  - cbn [pack_v]. replace ((z <? 0) || (m <=? z)) with false by lia. reflexivity.
  - set (k := bitlen_of m).
    assert (Hk : z < 2 ^ Z.of_nat k).
    { unfold k, bitlen_of.
      assert (B0 : 0 <= Sym.bit_length (m - 1)).
      { unfold Sym.bit_length. destruct (m - 1 =? 0); [lia|]. pose proof (Z.log2_nonneg (Z.abs (m - 1))). lia. }
      assert (B : Sym.bit_length (m - 1) <= Z.of_nat (Z.to_nat (Sym.bit_length (m - 1)))) by lia.
      assert (E : Sym.bit_length (m - 1) = Bits.bit_length (m - 1)) by reflexivity. rewrite E in B.
      apply (proj1 (bit_length_range (m - 1) (Z.of_nat (Z.to_nat (Sym.bit_length (m - 1)))) ltac:(lia) ltac:(lia))) in B. lia. }
    destruct k as [|k'] eqn:Ek.
    + (* modulus 1: zero bits, unpack returns 0 *)
      cbn in Hk. assert (z = 0) by lia. subst z. cbn [unpack_v]. fold k. rewrite Ek. reflexivity.
    + cbn [unpack_v]. fold k. rewrite Ek. cbn [Nat.eqb]. unfold nth_bits. rewrite py_bits_ibits. unfold ibits at 1. rewrite map_length, seq_length.
      replace (Nat.ltb 0 (S k')) with true by reflexivity. cbn [bind ret].
      replace (nth 0 (ibits z 0 (S k')) PNone) with (PInt (p:=p) (Bits.pybit z 0)) by reflexivity.
      cbn iota. cbn [skipn]. rewrite firstn_all2 by (unfold ibits; rewrite map_length, seq_length; lia).
      rewrite (run_bind_pure _ _ _ _ _ _ _ (run_weights z (S k') 0 s)).
      rewrite <- (map_map (fun j => 2 ^ Z.of_nat j * Bits.pybit z j) PInt).
      rewrite run_py_sum_ints. pose proof (fold_add_recompose z (S k') 0 0) as R. change (recompose z 0) with 0 in R. cbn [Nat.add] in R.
      rewrite Z.add_0_r, Z.add_0_l in R. rewrite R. rewrite recompose_exact; [reflexivity|]. rewrite <- Ek in *. lia.
Qed.
End PK.
