(* Properties of EVERY computation of the generator monad, by one induction over the free monad:
   they hold of every gadget, every operator dispatch and every program without per-gadget work.
   - frame (level false: runtime.py, boolean.py, fixedpoint.py, guarded(), if_then_else): the runtime globals
     (guard, _ignore_errors, LinComb.ONE) and the unwind record are the same after the computation as before
     (C08: restored on return);
   - unwind (level false): every raise emitted carries, as the globals observed after propagation, the base
     triple of the starting state (C08: restored on exception);
   - scoping (any level): the emitted command list is well-scoped w.r.t. the allocation counters. *)
From Coq Require Import ZArith List Bool Lia.
From PySnark.Model Require Import Lc Sym Gadgets.
From PySnark.Proofs Require Import Meta.
Import ListNotations.
Open Scope Z_scope.

Section F.
Context {p : Z}.
Local Notation gst := (@Gadgets.gst p).
Local Notation cmd := (Sym.cmd p).
Local Notation M := (@Gadgets.M p).

Definition is_raise_with (t : Sym.gtriple p) (c : cmd) : Prop :=
  match c with CRaiseIf _ _ u => u = t | _ => True end.

Ltac merr R := unfold model_err in R; inversion R; subst; repeat split; repeat constructor.

Lemma upd_counters_triple (s : gst) a b c : cur_triple (upd_counters s a b c) = cur_triple s /\ unw (upd_counters s a b c) = unw s.
Proof. split; reflexivity. Qed.

(* ---- frame + unwind, level false ---- *)
Theorem frame_unwind : forall A (m : M false A) s r s' cs,
  run m s = (r, s', cs) ->
  cur_triple s' = cur_triple s /\ unw s' = unw s /\ Forall (is_raise_with (unw_triple s)) cs.
Proof.
  intros A m. induction m as [A a|A e|A k IH|A h k IH|A h k IH|A k IH|A c k IH|A b e k IH|A X g i body IHb k IHk|A H g i o k IH];
    intros s r s' cs R; cbn [run] in R.
  - inversion R; subst. repeat split. constructor.
  - inversion R; subst. repeat split. constructor; [reflexivity|constructor].
  - exact (IH s s r s' cs R).
  - destruct (vscopedb _ _ h); [|merr R]. destruct (run (k _) _) as [[r0 s0] c0] eqn:E. inversion R; subst.
    destruct (IH _ _ _ _ _ E) as (T & U & F). repeat split; try assumption. constructor; [exact I|exact F].
  - destruct (vscopedb _ _ h); [|merr R]. destruct (run (k _) _) as [[r0 s0] c0] eqn:E. inversion R; subst.
    destruct (IH _ _ _ _ _ E) as (T & U & F). repeat split; try assumption. constructor; [exact I|exact F].
  - destruct (IH _ _ _ _ _ R) as (T & U & F). repeat split; assumption.
  - destruct (emittable c && cmd_scoped (npub s) (npriv s) c && cmd_vscoped (npub s) (npriv s) c) eqn:Ec; [|merr R].
    destruct (run k s) as [[r0 s0] c0] eqn:E. inversion R; subst.
    destruct (IH _ _ _ _ E) as (T & U & F). repeat split; try assumption. constructor; [|exact F].
    apply andb_prop in Ec. destruct Ec as [Ec _]. apply andb_prop in Ec. destruct Ec as [Ec _]. destruct c; try exact I; discriminate Ec.
  - destruct (bscopedb _ _ b); [|merr R]. destruct (run k s) as [[r0 s0] c0] eqn:E. inversion R; subst.
    destruct (IH _ _ _ _ E) as (T & U & F). repeat split; try assumption. constructor; [reflexivity|exact F].
  - (* Local: the region's body runs with the base triple unchanged; globals restored on both exits *)
    destruct (globals_scoped _ _ _ _ _); [|merr R].
    set (s_in := upd_globals s (Some g) i g (match unw s with None => Some (cur_triple s) | Some u => Some u end)) in *.
    assert (B : unw_triple s_in = unw_triple s) by (unfold unw_triple, s_in; cbn; destruct (unw s); reflexivity).
    destruct (run body s_in) as [[[x|e] s1] c1] eqn:Eb.
    + destruct (IHb _ _ _ _ Eb) as (T1 & U1 & F1). rewrite B in F1.
      destruct (run (k x) _) as [[r2 s2] c2] eqn:Ek. inversion R; subst.
      destruct (IHk x _ _ _ _ Ek) as (T2 & U2 & F2).
      repeat split; [exact T2|exact U2|]. apply Forall_app. split; [exact F1|exact F2].
    + destruct (IHb _ _ _ _ Eb) as (T1 & U1 & F1). rewrite B in F1. inversion R; subst. repeat split. exact F1.
  - discriminate H.
Qed.

(* ---- the same for level-true computations that never use SetGlobals (programs without block API / ignore_errors) ---- *)
Inductive no_set : forall A, M true A -> Prop :=
| ns_ret A (a : A) : no_set A (Ret a)
| ns_raise A e : no_set A (Raise e)
| ns_get A k : (forall s, no_set A (k s)) -> no_set A (Get k)
| ns_priv A h k : (forall x, no_set A (k x)) -> no_set A (MPriv h k)
| ns_pub A h k : (forall x, no_set A (k x)) -> no_set A (MPub h k)
| ns_fresh A k : (forall o, no_set A (k o)) -> no_set A (Fresh k)
| ns_emit A c k : no_set A k -> no_set A (Emit c k)
| ns_raiseif A b e k : no_set A k -> no_set A (RaiseIf b e k)
| ns_local A X g i body k : no_set X body -> (forall x, no_set A (k x)) -> no_set A (Local g i body k).

Lemma no_set_lift A (m : M false A) : no_set A (lift m).
Proof.
  induction m as [A a|A e|A k IH|A h k IH|A h k IH|A k IH|A c k IH|A b e k IH|A X g i body IHb k IHk|A H g i o k IH];
    cbn [lift]; try (constructor; auto). discriminate H.
Qed.
Lemma no_set_bind A B (m : M true A) (f : A -> M true B) : no_set A m -> (forall a, no_set B (f a)) -> no_set B (bind m f).
Proof. intros H Hf. induction H; cbn [bind]; try (constructor; auto). apply Hf. Qed.

Theorem frame_unwind_no_set : forall A (m : M true A), no_set A m -> forall s r s' cs,
  run m s = (r, s', cs) ->
  cur_triple s' = cur_triple s /\ unw s' = unw s /\ Forall (is_raise_with (unw_triple s)) cs.
Proof.
  intros A m H. induction H as [A a|A e|A k H0 IH|A h k H0 IH|A h k H0 IH|A k H0 IH|A c k H0 IH|A b e k H0 IH|A X g i body k H0 IHb H1 IHk];
    intros s r s' cs R; cbn [run] in R.
  - inversion R; subst. repeat split. constructor.
  - inversion R; subst. repeat split. constructor; [reflexivity|constructor].
  - exact (IH s s r s' cs R).
  - destruct (vscopedb _ _ h); [|merr R]. destruct (run (k _) _) as [[r0 s0] c0] eqn:E. inversion R; subst.
    destruct (IH _ _ _ _ _ E) as (T & U & F). repeat split; try assumption. constructor; [exact I|exact F].
  - destruct (vscopedb _ _ h); [|merr R]. destruct (run (k _) _) as [[r0 s0] c0] eqn:E. inversion R; subst.
    destruct (IH _ _ _ _ _ E) as (T & U & F). repeat split; try assumption. constructor; [exact I|exact F].
  - destruct (IH _ _ _ _ _ R) as (T & U & F). repeat split; assumption.
  - destruct (emittable c && cmd_scoped (npub s) (npriv s) c && cmd_vscoped (npub s) (npriv s) c) eqn:Ec; [|merr R].
    destruct (run k s) as [[r0 s0] c0] eqn:E. inversion R; subst.
    destruct (IH _ _ _ _ E) as (T & U & F). repeat split; try assumption. constructor; [|exact F].
    apply andb_prop in Ec. destruct Ec as [Ec _]. apply andb_prop in Ec. destruct Ec as [Ec _]. destruct c; try exact I; discriminate Ec.
  - destruct (bscopedb _ _ b); [|merr R]. destruct (run k s) as [[r0 s0] c0] eqn:E. inversion R; subst.
    destruct (IH _ _ _ _ E) as (T & U & F). repeat split; try assumption. constructor; [reflexivity|exact F].
  - destruct (globals_scoped _ _ _ _ _); [|merr R].
    set (s_in := upd_globals s (Some g) i g (match unw s with None => Some (cur_triple s) | Some u => Some u end)) in *.
    assert (B : unw_triple s_in = unw_triple s) by (unfold unw_triple, s_in; cbn; destruct (unw s); reflexivity).
    destruct (run body s_in) as [[[x|e] s1] c1] eqn:Eb.
    + destruct (IHb _ _ _ _ Eb) as (T1 & U1 & F1). rewrite B in F1.
      destruct (run (k x) _) as [[r2 s2] c2] eqn:Ek. inversion R; subst.
      destruct (IHk x _ _ _ _ Ek) as (T2 & U2 & F2).
      repeat split; [exact T2|exact U2|]. apply Forall_app. split; [exact F1|exact F2].
    + destruct (IHb _ _ _ _ Eb) as (T1 & U1 & F1). rewrite B in F1. inversion R; subst. repeat split. exact F1.
Qed.

(* ---- scoping, any level ---- *)
Definition count_pub (cs : list cmd) : Z := Z.of_nat (length (filter (fun c => match c with CAlloc Pub _ => true | _ => false end) cs)).
Definition count_priv (cs : list cmd) : Z := Z.of_nat (length (filter (fun c => match c with CAlloc Priv _ => true | _ => false end) cs)).
Lemma count_pub_app a b : count_pub (a ++ b) = count_pub a + count_pub b.
Proof. unfold count_pub. rewrite filter_app, app_length. lia. Qed.
Lemma count_priv_app a b : count_priv (a ++ b) = count_priv a + count_priv b.
Proof. unfold count_priv. rewrite filter_app, app_length. lia. Qed.

Lemma scoped_app c1 : forall np nw c2,
  scoped_cmds np nw (c1 ++ c2) = scoped_cmds np nw c1 && scoped_cmds (np + count_pub c1) (nw + count_priv c1) c2.
Proof.
  induction c1 as [|c c1 IH]; intros np nw c2.
  - cbn. unfold count_pub, count_priv. cbn. now rewrite !Z.add_0_r.
  - destruct c as [[|] h|a b y|b e u|tag v l|tag x]; cbn [app scoped_cmds]; rewrite IH; unfold count_pub, count_priv; cbn [filter length];
      rewrite ?Nat2Z.inj_succ; rewrite ?andb_assoc; try reflexivity; f_equal; f_equal; lia.
Qed.

Theorem run_scoped : forall lvl A (m : M lvl A) s r s' cs,
  run m s = (r, s', cs) ->
  scoped_cmds (npub s) (npriv s) cs = true /\ npub s' = npub s + count_pub cs /\ npriv s' = npriv s + count_priv cs.
Proof.
  assert (ME : forall A (s : gst) (r : A + exn) s' cs, model_err s = (r, s', cs) ->
               scoped_cmds (npub s) (npriv s) cs = true /\ npub s' = npub s + count_pub cs /\ npriv s' = npriv s + count_priv cs).
  { intros A s r s' cs R. unfold model_err in R. inversion R; subst. cbn. unfold count_pub, count_priv. cbn. repeat split; lia. }
  intros lvl A m. induction m as [A a|A e|A k IH|A h k IH|A h k IH|A k IH|A c k IH|A b e k IH|A X g i body IHb k IHk|A H g i o k IH];
    intros s r s' cs R; cbn [run] in R.
  - inversion R; subst. cbn. unfold count_pub, count_priv. cbn. repeat split; lia.
  - inversion R; subst. cbn. unfold count_pub, count_priv. cbn. repeat split; lia.
  - exact (IH s s r s' cs R).
  - destruct (vscopedb _ _ h); [|exact (ME _ _ _ _ _ R)]. destruct (run (k _) _) as [[r0 s0] c0] eqn:E. inversion R; subst.
    destruct (IH _ _ _ _ _ E) as (S1 & P1 & W1). cbn in *. unfold count_pub, count_priv in *. cbn [filter length]. rewrite ?Nat2Z.inj_succ.
    repeat split; [exact S1|lia|lia].
  - destruct (vscopedb _ _ h); [|exact (ME _ _ _ _ _ R)]. destruct (run (k _) _) as [[r0 s0] c0] eqn:E. inversion R; subst.
    destruct (IH _ _ _ _ _ E) as (S1 & P1 & W1). cbn in *. unfold count_pub, count_priv in *. cbn [filter length]. rewrite ?Nat2Z.inj_succ.
    repeat split; [exact S1|lia|lia].
  - destruct (IH _ _ _ _ _ R) as (S1 & P1 & W1). cbn in *. repeat split; assumption.
  - destruct (emittable c && cmd_scoped (npub s) (npriv s) c && cmd_vscoped (npub s) (npriv s) c) eqn:Ec; [|exact (ME _ _ _ _ _ R)].
    destruct (run k s) as [[r0 s0] c0] eqn:E. inversion R; subst.
    destruct (IH _ _ _ _ E) as (S1 & P1 & W1). apply andb_prop in Ec. destruct Ec as [Ec _]. apply andb_prop in Ec. destruct Ec as [Em Ec].
    assert (NA : count_pub (c :: c0) = count_pub c0 /\ count_priv (c :: c0) = count_priv c0).
    { unfold count_pub, count_priv. destruct c; try discriminate Em; cbn; split; reflexivity. }
    destruct NA as [N1 N2]. rewrite N1, N2. repeat split; try assumption.
    destruct c; try discriminate Em; cbn [scoped_cmds]; rewrite Ec, S1; reflexivity.
  - destruct (bscopedb _ _ b); [|exact (ME _ _ _ _ _ R)]. destruct (run k s) as [[r0 s0] c0] eqn:E. inversion R; subst.
    destruct (IH _ _ _ _ E) as (S1 & P1 & W1). cbn. unfold count_pub, count_priv in *. cbn. repeat split; assumption.
  - destruct (globals_scoped _ _ _ _ _); [|exact (ME _ _ _ _ _ R)].
    set (s_in := upd_globals s (Some g) i g _) in *.
    destruct (run body s_in) as [[[x|e] s1] c1] eqn:Eb.
    + destruct (IHb _ _ _ _ Eb) as (S1 & P1 & W1). cbn in S1, P1, W1.
      destruct (run (k x) _) as [[r2 s2] c2] eqn:Ek. inversion R; subst.
      destruct (IHk x _ _ _ _ Ek) as (S2 & P2 & W2). cbn in S2, P2, W2.
      rewrite scoped_app, count_pub_app, count_priv_app, S1. rewrite <- P1, <- W1, S2. repeat split; lia.
    + destruct (IHb _ _ _ _ Eb) as (S1 & P1 & W1). cbn in S1, P1, W1. inversion R; subst. cbn. repeat split; assumption.
  - destruct (globals_scoped _ _ _ _ _); [|exact (ME _ _ _ _ _ R)]. destruct (IH _ _ _ _ R) as (S1 & P1 & W1). cbn in *. repeat split; assumption.
Qed.
End F.
