(* Infrastructure for verifying gadgets with the wp calculus: stability of value expressions when the (append-only)
   witness store grows, the invariant tying the generator's globals to the store, and the wp rules of the basic effects. *)
From Coq Require Import ZArith List Bool Lia Znumtheory.
From PySnark.Base Require Import FieldZ.
From PySnark.Model Require Import Lc Sym Good Gadgets.
From PySnark.Proofs Require Import Meta Frame Wp.
Import ListNotations.
Open Scope Z_scope.

Scheme valexp_mut := Induction for valexp Sort Prop
with bexp_mut := Induction for bexp Sort Prop.

Section B.
Context {p : Z}.
Variable ins : list Z.
Variable ig : bool.
Local Notation gst := (@Gadgets.gst p).
Local Notation cmd := (Sym.cmd p).
Local Notation slc := (Sym.slc p).
Local Notation M := (@Gadgets.M p).
Local Notation G := (@Gadgets.G p).
Local Notation ve := (Sym.veval p ins ig).
Local Notation be := (Sym.beval p ins ig).
Local Notation wp := (Wp.wp (p:=p) ins ig).

(* ---------------- monotonicity of the scope predicates ---------------- *)
Lemma var_okb_mono np nw np' nw' v : np <= np' -> nw <= nw' -> var_okb np nw v = true -> var_okb np' nw' v = true.
Proof. unfold var_okb. intros. lia. Qed.
Lemma lc_okb_mono np nw np' nw' l : np <= np' -> nw <= nw' -> lc_okb np nw l = true -> lc_okb np' nw' l = true.
Proof.
  unfold lc_okb. intros H1 H2. rewrite !forallb_forall. intros H x Hx. eapply var_okb_mono; eauto.
Qed.
Lemma scoped_mono np nw np' nw' : np <= np' -> nw <= nw' ->
  (forall e, vscopedb np nw e = true -> vscopedb np' nw' e = true) /\ (forall b, bscopedb np nw b = true -> bscopedb np' nw' b = true).
Proof.
  intros H1 H2.
  assert (K : forall e, vscopedb np nw e = true -> vscopedb np' nw' e = true).
  { apply (valexp_mut (fun e => vscopedb np nw e = true -> vscopedb np' nw' e = true)
                      (fun b => bscopedb np nw b = true -> bscopedb np' nw' b = true)); cbn [vscopedb bscopedb]; intros;
      repeat match goal with H : _ && _ = true |- _ => apply andb_prop in H; destruct H end;
      repeat (apply andb_true_intro; split); auto; try (eapply var_okb_mono; eauto); try (eapply lc_okb_mono; eauto). }
  split; [exact K|].
  apply (bexp_mut (fun e => vscopedb np nw e = true -> vscopedb np' nw' e = true)
                  (fun b => bscopedb np nw b = true -> bscopedb np' nw' b = true)); cbn [vscopedb bscopedb]; intros;
    repeat match goal with H : _ && _ = true |- _ => apply andb_prop in H; destruct H end;
    repeat (apply andb_true_intro; split); auto; try (eapply var_okb_mono; eauto); try (eapply lc_okb_mono; eauto).
Qed.
Lemma vscopedb_mono np nw np' nw' e : np <= np' -> nw <= nw' -> vscopedb np nw e = true -> vscopedb np' nw' e = true.
Proof. intros H1 H2. apply (proj1 (scoped_mono np nw np' nw' H1 H2)). Qed.
Lemma bscopedb_mono np nw np' nw' b : np <= np' -> nw <= nw' -> bscopedb np nw b = true -> bscopedb np' nw' b = true.
Proof. intros H1 H2. apply (proj2 (scoped_mono np nw np' nw' H1 H2)). Qed.
Lemma slc_scoped_mono np nw np' nw' (x : slc) : np <= np' -> nw <= nw' -> slc_scoped np nw x = true -> slc_scoped np' nw' x = true.
Proof.
  unfold slc_scoped. intros H1 H2 H. apply andb_prop in H. destruct H as [A B]. apply andb_true_intro. split;
    [eapply vscopedb_mono|eapply lc_okb_mono]; eauto.
Qed.
Lemma globals_scoped_mono np nw np' nw' g i (o : slc) : np <= np' -> nw <= nw' ->
  globals_scoped np nw g i o = true -> globals_scoped np' nw' g i o = true.
Proof.
  unfold globals_scoped. intros H1 H2 H. apply andb_prop in H. destruct H as [H C]. apply andb_prop in H. destruct H as [A B].
  rewrite (slc_scoped_mono _ _ _ _ _ H1 H2 C), (bscopedb_mono _ _ _ _ _ H1 H2 B).
  destruct g as [x|]; [rewrite (slc_scoped_mono _ _ _ _ _ H1 H2 A)|]; reflexivity.
Qed.

(* unfolding equations for the mutual fixpoint (cbn/simpl do not refold it) *)
Lemma veval_unfold s e : ve s e =
  match e with
  | VIn i => nth i ins 0 | VConst z => z | VWit v => wval s v
  | VAdd a b => ve s a + ve s b | VSub a b => ve s a - ve s b | VMul a b => ve s a * ve s b
  | VDiv a b => ve s a / ve s b | VMod a b => ve s a mod ve s b
  | VLand a b => Z.land (ve s a) (ve s b) | VLor a b => Z.lor (ve s a) (ve s b) | VLxor a b => Z.lxor (ve s a) (ve s b)
  | VShl a b => Z.shiftl (ve s a) (ve s b) | VShr a b => Z.shiftr (ve s a) (ve s b)
  | VInv a => finv p (ve s a) | VModP a => ve s a mod p | VLin l => eval (wval s) l
  | VIte c a b => if be s c then ve s a else ve s b | VB2Z b => if be s b then 1 else 0
  end.
Proof. destruct e; reflexivity. Qed.
Lemma beval_unfold s b : be s b =
  match b with
  | BTrue => true | BFalse => false | BIgn0 => ig | BNot b => negb (be s b)
  | BAnd a b => be s a && be s b | BOr a b => be s a || be s b
  | BEq a b => ve s a =? ve s b | BLt a b => ve s a <? ve s b | BLe a b => ve s a <=? ve s b
  | BBitLenLe a k => bit_length (ve s a) <=? k
  end.
Proof. destruct b; reflexivity. Qed.

Lemma ve_add s a b : ve s (VAdd a b) = ve s a + ve s b. Proof. reflexivity. Qed.
Lemma ve_sub s a b : ve s (VSub a b) = ve s a - ve s b. Proof. reflexivity. Qed.
Lemma ve_mul s a b : ve s (VMul a b) = ve s a * ve s b. Proof. reflexivity. Qed.
Lemma ve_div s a b : ve s (VDiv a b) = ve s a / ve s b. Proof. reflexivity. Qed.
Lemma ve_mod s a b : ve s (VMod a b) = ve s a mod ve s b. Proof. reflexivity. Qed.
Lemma ve_land s a b : ve s (VLand a b) = Z.land (ve s a) (ve s b). Proof. reflexivity. Qed.
Lemma ve_shl s a b : ve s (VShl a b) = Z.shiftl (ve s a) (ve s b). Proof. reflexivity. Qed.
Lemma ve_shr s a b : ve s (VShr a b) = Z.shiftr (ve s a) (ve s b). Proof. reflexivity. Qed.
Lemma ve_const s k : ve s (VConst k) = k. Proof. reflexivity. Qed.
Lemma ve_wit s v : ve s (VWit v) = wval s v. Proof. reflexivity. Qed.
Lemma ve_inv s a : ve s (VInv a) = finv p (ve s a). Proof. reflexivity. Qed.
Lemma ve_modp s a : ve s (VModP a) = ve s a mod p. Proof. reflexivity. Qed.
Lemma ve_ite s c a b : ve s (VIte c a b) = if be s c then ve s a else ve s b. Proof. reflexivity. Qed.
Lemma ve_b2z s b : ve s (VB2Z b) = if be s b then 1 else 0. Proof. reflexivity. Qed.
Lemma be_true s : be s BTrue = true. Proof. reflexivity. Qed.
Lemma be_false s : be s BFalse = false. Proof. reflexivity. Qed.
Lemma be_not s b : be s (BNot b) = negb (be s b). Proof. reflexivity. Qed.
Lemma be_and s a b : be s (BAnd a b) = be s a && be s b. Proof. reflexivity. Qed.
Lemma be_or s a b : be s (BOr a b) = be s a || be s b. Proof. reflexivity. Qed.
Lemma be_eq s a b : be s (BEq a b) = (ve s a =? ve s b). Proof. reflexivity. Qed.
Lemma be_lt s a b : be s (BLt a b) = (ve s a <? ve s b). Proof. reflexivity. Qed.
Lemma be_le s a b : be s (BLe a b) = (ve s a <=? ve s b). Proof. reflexivity. Qed.
Lemma be_bitlen s a k : be s (BBitLenLe a k) = (bit_length (ve s a) <=? k). Proof. reflexivity. Qed.

(* ---------------- stability of evaluation when the store grows ---------------- *)
Definition np_of (sg : store) : Z := Z.of_nat (length (pubs sg)).
Definition nw_of (sg : store) : Z := Z.of_nat (length (privs sg)).

Lemma var_okb_ok sg v : var_okb (np_of sg) (nw_of sg) v = true -> var_ok sg v.
Proof. unfold var_okb, var_ok, np_of, nw_of. lia. Qed.

Lemma eval_stable sg sg' : ext sg sg' ->
  (forall e, vscopedb (np_of sg) (nw_of sg) e = true -> ve sg' e = ve sg e) /\
  (forall b, bscopedb (np_of sg) (nw_of sg) b = true -> be sg' b = be sg b).
Proof.
  intros E.
  assert (V : forall v, var_okb (np_of sg) (nw_of sg) v = true -> wval sg' v = wval sg v).
  { intros v H. apply wval_ext; [exact E|]. apply var_okb_ok. exact H. }
  assert (L : forall l, lc_okb (np_of sg) (nw_of sg) l = true -> eval (wval sg') l = eval (wval sg) l).
  { intros l H. apply eval_ext; [exact E|]. apply lc_okb_ok. exact H. }
  assert (K : forall e, vscopedb (np_of sg) (nw_of sg) e = true -> ve sg' e = ve sg e).
  { apply (valexp_mut (fun e => vscopedb (np_of sg) (nw_of sg) e = true -> ve sg' e = ve sg e)
                      (fun b => bscopedb (np_of sg) (nw_of sg) b = true -> be sg' b = be sg b)); cbn [vscopedb bscopedb]; intros;
      match goal with |- Sym.veval _ _ _ _ _ = _ => rewrite (veval_unfold sg'), (veval_unfold sg)
                      | |- Sym.beval _ _ _ _ _ = _ => rewrite (beval_unfold sg'), (beval_unfold sg) end; cbv beta iota;
      repeat match goal with H : _ && _ = true |- _ => apply andb_prop in H; destruct H end;
      repeat match goal with IH : ?c = true -> _, H : ?c = true |- _ => specialize (IH H) end;
      repeat match goal with H : Sym.veval _ _ _ sg' _ = _ |- _ => rewrite H; clear H | H : Sym.beval _ _ _ sg' _ = _ |- _ => rewrite H; clear H end;
      auto. }
  split; [exact K|].
  apply (bexp_mut (fun e => vscopedb (np_of sg) (nw_of sg) e = true -> ve sg' e = ve sg e)
                  (fun b => bscopedb (np_of sg) (nw_of sg) b = true -> be sg' b = be sg b)); cbn [vscopedb bscopedb]; intros;
      match goal with |- Sym.veval _ _ _ _ _ = _ => rewrite (veval_unfold sg'), (veval_unfold sg)
                      | |- Sym.beval _ _ _ _ _ = _ => rewrite (beval_unfold sg'), (beval_unfold sg) end; cbv beta iota;
    repeat match goal with H : _ && _ = true |- _ => apply andb_prop in H; destruct H end;
    repeat match goal with IH : ?c = true -> _, H : ?c = true |- _ => specialize (IH H) end;
    repeat match goal with H : Sym.veval _ _ _ sg' _ = _ |- _ => rewrite H; clear H | H : Sym.beval _ _ _ sg' _ = _ |- _ => rewrite H; clear H end;
    auto.
Qed.
Lemma ve_stable sg sg' e : ext sg sg' -> vscopedb (np_of sg) (nw_of sg) e = true -> ve sg' e = ve sg e.
Proof. intros E. apply (proj1 (eval_stable sg sg' E)). Qed.
Lemma be_stable sg sg' b : ext sg sg' -> bscopedb (np_of sg) (nw_of sg) b = true -> be sg' b = be sg b.
Proof. intros E. apply (proj2 (eval_stable sg sg' E)). Qed.

Lemma ext_push_priv sg z : ext sg (push_priv sg z).
Proof. split; [exists []; cbn; now rewrite app_nil_r|exists [z]; reflexivity]. Qed.
Lemma ext_push_pub sg z : ext sg (push_pub sg z).
Proof. split; [exists [z]; reflexivity|exists []; cbn; now rewrite app_nil_r]. Qed.
Lemma ext_counts sg sg' : ext sg sg' -> np_of sg <= np_of sg' /\ nw_of sg <= nw_of sg'.
Proof. intros [[l1 H1] [l2 H2]]. unfold np_of, nw_of. rewrite H1, H2, !app_length. lia. Qed.

Lemma wval_push_priv sg z : wval (push_priv sg z) (- (nw_of sg + 1)) = z.
Proof.
  unfold wval, push_priv, nw_of. cbn [pubs privs]. set (n := length (privs sg)).
  destruct (Z.eqb_spec (- (Z.of_nat n + 1)) 0) as [H|_]; [lia|].
  destruct (Z.ltb_spec 0 (- (Z.of_nat n + 1))) as [H|_]; [lia|].
  replace (Z.to_nat (- - (Z.of_nat n + 1) - 1)) with n by lia.
  rewrite app_nth2 by lia. rewrite Nat.sub_diag. reflexivity.
Qed.
Lemma wval_push_pub sg z : wval (push_pub sg z) (np_of sg + 1) = z.
Proof.
  unfold wval, push_pub, np_of. cbn [pubs privs]. set (n := length (pubs sg)).
  destruct (Z.eqb_spec (Z.of_nat n + 1) 0) as [H|_]; [lia|].
  destruct (Z.ltb_spec 0 (Z.of_nat n + 1)) as [_|H]; [|lia].
  replace (Z.to_nat (Z.of_nat n + 1 - 1)) with n by lia.
  rewrite app_nth2 by lia. rewrite Nat.sub_diag. reflexivity.
Qed.

(* ---------------- the invariant ---------------- *)
(* counters of the generator = sizes of the store; the globals are scoped; and
   - outside any guarded region: errors are not suppressed and LinComb.ONE is the constant 1;
   - inside: suppressed errors imply that the guard is 0, and LinComb.ONE is the guard. *)
Definition cnt (s : gst) (sg : store) : Prop := npub s = np_of sg /\ npriv s = nw_of sg.
Definition gsem (g : option slc) (i : bexp) (o : slc) (sg : store) : Prop :=
  match g with
  | None => be sg i = false /\ ve sg (sval o) = 1
  | Some x => (be sg i = true -> ve sg (sval x) = 0) /\ ve sg (sval o) = ve sg (sval x)
  end.
Definition Inv (s : gst) (sg : store) : Prop :=
  cnt s sg /\ globals_scoped (npub s) (npriv s) (guard s) (ignore s) (one s) = true /\ gsem (guard s) (ignore s) (one s) sg.

Lemma gsem_stable g i o sg sg' : ext sg sg' -> globals_scoped (np_of sg) (nw_of sg) g i o = true -> gsem g i o sg -> gsem g i o sg'.
Proof.
  intros E S H. unfold globals_scoped in S. apply andb_prop in S. destruct S as [S So]. apply andb_prop in S. destruct S as [Sg Si].
  unfold slc_scoped in So. apply andb_prop in So. destruct So as [So _].
  unfold gsem in *. rewrite (be_stable _ _ _ E Si), (ve_stable _ _ _ E So).
  destruct g as [x|]; [|exact H].
  unfold slc_scoped in Sg. apply andb_prop in Sg. destruct Sg as [Sg _]. rewrite (ve_stable _ _ _ E Sg). exact H.
Qed.

Lemma Inv_priv s sg z : Inv s sg -> Inv (upd_counters s (npub s) (npriv s + 1) (noid s)) (push_priv sg z).
Proof.
  intros ((C1 & C2) & S & H). split; [|split]; cbn [npub npriv guard ignore one upd_counters].
  - unfold cnt, np_of, nw_of, push_priv in *. cbn [pubs privs npub npriv upd_counters]. rewrite app_length. cbn [length]. lia.
  - eapply globals_scoped_mono; [| |exact S]; lia.
  - eapply gsem_stable; [apply ext_push_priv| |exact H]. rewrite <- C1, <- C2. exact S.
Qed.
Lemma Inv_pub s sg z : Inv s sg -> Inv (upd_counters s (npub s + 1) (npriv s) (noid s)) (push_pub sg z).
Proof.
  intros ((C1 & C2) & S & H). split; [|split]; cbn [npub npriv guard ignore one upd_counters].
  - unfold cnt, np_of, nw_of, push_pub in *. cbn [pubs privs npub npriv upd_counters]. rewrite app_length. cbn [length]. lia.
  - eapply globals_scoped_mono; [| |exact S]; lia.
  - eapply gsem_stable; [apply ext_push_pub| |exact H]. rewrite <- C1, <- C2. exact S.
Qed.
Lemma Inv_fresh s sg : Inv s sg -> Inv (upd_counters s (npub s) (npriv s) (noid s + 1)) sg.
Proof. intros H. exact H. Qed.

(* scoped at the current counters = scoped w.r.t. the store *)
Lemma ve_push_priv s sg z e : cnt s sg -> vscopedb (npub s) (npriv s) e = true -> ve (push_priv sg z) e = ve sg e.
Proof. intros [C1 C2] H. apply ve_stable; [apply ext_push_priv|]. rewrite <- C1, <- C2. exact H. Qed.
Lemma ve_push_pub s sg z e : cnt s sg -> vscopedb (npub s) (npriv s) e = true -> ve (push_pub sg z) e = ve sg e.
Proof. intros [C1 C2] H. apply ve_stable; [apply ext_push_pub|]. rewrite <- C1, <- C2. exact H. Qed.
Lemma be_push_priv s sg z b : cnt s sg -> bscopedb (npub s) (npriv s) b = true -> be (push_priv sg z) b = be sg b.
Proof. intros [C1 C2] H. apply be_stable; [apply ext_push_priv|]. rewrite <- C1, <- C2. exact H. Qed.
Lemma be_push_pub s sg z b : cnt s sg -> bscopedb (npub s) (npriv s) b = true -> be (push_pub sg z) b = be sg b.
Proof. intros [C1 C2] H. apply be_stable; [apply ext_push_pub|]. rewrite <- C1, <- C2. exact H. Qed.
Lemma ve_ext s sg sg' e : cnt s sg -> ext sg sg' -> vscopedb (npub s) (npriv s) e = true -> ve sg' e = ve sg e.
Proof. intros [C1 C2] E H. apply ve_stable; [exact E|]. rewrite <- C1, <- C2. exact H. Qed.
Lemma be_ext s sg sg' b : cnt s sg -> ext sg sg' -> bscopedb (npub s) (npriv s) b = true -> be sg' b = be sg b.
Proof. intros [C1 C2] E H. apply be_stable; [exact E|]. rewrite <- C1, <- C2. exact H. Qed.
Lemma cnt_mono s sg s' sg' : cnt s sg -> cnt s' sg' -> ext sg sg' -> npub s <= npub s' /\ npriv s <= npriv s'.
Proof. intros [A B] [C D] E. destruct (ext_counts _ _ E). lia. Qed.
End B.

Ltac esimp := repeat (rewrite ve_add || rewrite ve_sub || rewrite ve_mul || rewrite ve_div || rewrite ve_mod || rewrite ve_land || rewrite ve_shl
  || rewrite ve_shr || rewrite ve_const || rewrite ve_wit || rewrite ve_inv || rewrite ve_modp || rewrite ve_ite || rewrite ve_b2z
  || rewrite be_true || rewrite be_false || rewrite be_not || rewrite be_and || rewrite be_or || rewrite be_eq || rewrite be_lt || rewrite be_le
  || rewrite be_bitlen).
Ltac esimp_in H := repeat (rewrite ve_add in H || rewrite ve_sub in H || rewrite ve_mul in H || rewrite ve_div in H || rewrite ve_mod in H
  || rewrite ve_land in H || rewrite ve_shl in H || rewrite ve_shr in H || rewrite ve_const in H || rewrite ve_wit in H || rewrite ve_inv in H
  || rewrite ve_modp in H || rewrite ve_ite in H || rewrite ve_b2z in H
  || rewrite be_true in H || rewrite be_false in H || rewrite be_not in H || rewrite be_and in H || rewrite be_or in H || rewrite be_eq in H
  || rewrite be_lt in H || rewrite be_le in H || rewrite be_bitlen in H).
