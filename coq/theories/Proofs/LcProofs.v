From Coq Require Import ZArith List Bool Lia Znumtheory.
From PySnark.Model Require Import Lc.
From PySnark.Base Require Import FieldZ.
Import ListNotations.
Open Scope Z_scope.


Lemma lc_get_none l v : lc_get l v = None <-> ~ In v (map fst l).
Proof.
  induction l as [|[w c] l IH]; simpl; [tauto|].
  destruct (Z.eqb_spec w v) as [->|Hn]; split; intro H; try discriminate.
  - exfalso. apply H. auto.
  - intros [E|E]; [congruence|]. apply IH in H. tauto.
  - apply IH. tauto.
Qed.

Lemma lc_get_some_in l v c : lc_get l v = Some c -> In (v, c) l.
Proof.
  induction l as [|[w d] l IH]; simpl; [discriminate|].
  destruct (Z.eqb_spec w v) as [->|Hn]; intro H; [injection H as ->; auto|auto].
Qed.

(* A cleaner route: evaluate through coefficient functions. *)
Definition coeff (l : lc) (v : var) : Z := match lc_get l v with Some c => c | None => 0 end.

Lemma eval_app w a b : eval w (a ++ b) = eval w a + eval w b.
Proof. induction a as [|[v c] a IH]; simpl; [lia|]. rewrite IH. lia. Qed.

Lemma eval_scale w a k : eval w (lc_scale a k) = eval w a * k.
Proof. unfold lc_scale. induction a as [|[v c] a IH]; simpl; [lia|]. rewrite IH. lia. Qed.

Lemma eval_neg w a : eval w (lc_neg a) = - eval w a.
Proof. unfold lc_neg. rewrite eval_scale. lia. Qed.

(* sum over a of (coeff in b) -- the part of b absorbed into a's entries *)
Fixpoint absorbed (w : var -> Z) (a b : lc) : Z :=
  match a with [] => 0 | (v, _) :: a' => coeff b v * w v + absorbed w a' b end.

Lemma eval_map_add w a b :
  eval w (map (fun vc => (fst vc, match lc_get b (fst vc) with Some d => snd vc + d | None => snd vc end)) a)
  = eval w a + absorbed w a b.
Proof.
  induction a as [|[v c] a IH]; simpl; [lia|]. rewrite IH. unfold coeff.
  destruct (lc_get b v); lia.
Qed.

Lemma absorbed_notin w a v c b : ~ In v (map fst a) -> absorbed w a ((v, c) :: b) = absorbed w a b.
Proof.
  induction a as [|[u d] a IH]; simpl; intro H; [reflexivity|].
  rewrite IH by tauto. unfold coeff. simpl.
  destruct (Z.eqb_spec v u) as [->|Hn]; [exfalso; apply H; auto|reflexivity].
Qed.

Lemma absorbed_in w a v c b : wf a -> In v (map fst a) -> lc_get b v = None ->
  absorbed w a ((v, c) :: b) = c * w v + absorbed w a b.
Proof.
  unfold wf. induction a as [|[u d] a IH]; simpl; intros Hnd Hin Hb; [tauto|].
  inversion Hnd as [|? ? Hnu Hnd']; subst.
  destruct (Z.eq_dec u v) as [->|Hn].
  - rewrite absorbed_notin by assumption. unfold coeff. simpl. rewrite Z.eqb_refl, Hb. lia.
  - assert (Hin' : In v (map fst a)) by (destruct Hin; [congruence|assumption]).
    rewrite (IH Hnd' Hin' Hb).
    unfold coeff. simpl. destruct (Z.eqb_spec v u); [congruence|]. lia.
Qed.

Lemma eval_add w a b : wf a -> wf b -> eval w (lc_add a b) = eval w a + eval w b.
Proof.
  intros Ha Hb. unfold lc_add. rewrite eval_app, eval_map_add.
  enough (absorbed w a b + eval w (filter (fun vc => match lc_get a (fst vc) with Some _ => false | None => true end) b) = eval w b) by lia.
  clear - Ha Hb. induction b as [|[v c] b IH]; simpl.
  - induction a as [|[u d] a IHa]; simpl; [reflexivity|]. inversion Ha; subst. rewrite IHa by assumption. reflexivity.
  - inversion Hb as [|? ? Hnv Hb']; subst. specialize (IH Hb').
    assert (Hg : lc_get b v = None) by (apply lc_get_none; assumption).
    destruct (lc_get a v) eqn:E.
    + rewrite absorbed_in; try assumption; [lia|].
      destruct (in_dec Z.eq_dec v (map fst a)) as [i|n]; [assumption|]. apply lc_get_none in n. congruence.
    + rewrite absorbed_notin by (apply lc_get_none; assumption). simpl. lia.
Qed.

Lemma wf_scale a k : wf a -> wf (lc_scale a k).
Proof. unfold wf, lc_scale. rewrite map_map. simpl. auto. Qed.
Lemma wf_neg a : wf a -> wf (lc_neg a).
Proof. apply wf_scale. Qed.

Lemma nodup_app (l1 l2 : list Z) : NoDup l1 -> NoDup l2 -> (forall x, In x l1 -> ~ In x l2) -> NoDup (l1 ++ l2).
Proof.
  induction l1 as [|x l1 IH]; simpl; intros H1 H2 D; [assumption|].
  inversion H1; subst. constructor.
  - rewrite in_app_iff. intros [K|K]; [tauto|]. exact (D x (or_introl eq_refl) K).
  - apply IH; auto.
Qed.
Lemma nodup_map_filter (f : var * Z -> bool) (b : lc) : NoDup (map fst b) -> NoDup (map fst (filter f b)).
Proof.
  induction b as [|x b IH]; simpl; intro H; [constructor|]. inversion H; subst.
  destruct (f x); simpl; [|auto]. constructor; [|auto].
  intro K. apply H2. apply in_map_iff in K. destruct K as [y [Hy Hin]]. apply filter_In in Hin.
  apply in_map_iff. exists y. tauto.
Qed.
Lemma wf_add a b : wf a -> wf b -> wf (lc_add a b).
Proof.
  unfold wf, lc_add. intros Ha Hb. rewrite map_app, map_map. simpl.
  change (map (fun x : var * Z => fst x) a) with (map fst a).
  apply nodup_app; [assumption|apply nodup_map_filter; assumption|].
  intros x Hx K. apply in_map_iff in K. destruct K as [[v c] [Hv Hin]]. simpl in Hv. subst v.
  apply filter_In in Hin. destruct Hin as [_ Hf]. simpl in Hf.
  destruct (lc_get a x) eqn:E; [discriminate|]. apply lc_get_none in E. tauto.
Qed.

Lemma wf_build e : wf (build e).
Proof.
  induction e; simpl; unfold lc_sub; auto using wf_add, wf_neg, wf_scale;
  unfold wf; simpl; repeat constructor; auto.
Qed.

(* C13, algebra: the object built by any tree of + - neg scale evaluates, on every assignment,
   to the corresponding expression of the operands' evaluations -- over Z, hence mod every p. *)
Theorem build_faithful (w : var -> Z) e : w 0 = 1 -> eval w (build e) = sem w e.
Proof.
  intros H1. induction e; cbn [build sem]; unfold lc_sub.
  - unfold lc_var, eval; cbn [fold_right fst snd]; lia.
  - unfold lc_one, eval; cbn [fold_right fst snd]; lia.
  - reflexivity.
  - rewrite eval_add by apply wf_build. lia.
  - rewrite eval_add, eval_neg by (try apply wf_neg; apply wf_build). lia.
  - rewrite eval_neg. lia.
  - rewrite eval_scale. lia.
Qed.

(* ---- qaptools Sig: congruent modulo p ---- *)
Section SigP.
Variable p : Z.
Hypothesis Hp : 0 < p.
Notation "a == b" := (feq p a b) (at level 70).
Lemma feq_modp a : a mod p == a.
Proof. exists (- (a / p)). rewrite (Z.mod_eq a p) by lia. ring. Qed.
Lemma sg_eval_app w a b : sg_eval w (sg_add a b) = sg_eval w a + sg_eval w b.
Proof. unfold sg_add. induction a as [|[c v] a IH]; simpl; [lia|]. rewrite IH. lia. Qed.
Lemma sg_eval_scale w a k : sg_eval w (sg_scale p a k) == sg_eval w a * k.
Proof.
  induction a as [|[c v] a IH]; cbn [sg_scale sg_eval map fold_right fst snd]; [reflexivity|].
  change (fold_right (fun cv acc => fst cv * w (snd cv) + acc) 0 (map (fun cv => ((fst cv * k) mod p, snd cv)) a))
    with (sg_eval w (sg_scale p a k)).
  change (fold_right (fun cv acc => fst cv * w (snd cv) + acc) 0 a) with (sg_eval w a).
  rewrite IH, feq_modp. apply eq_feq. ring.
Qed.
Lemma sg_eval_neg w a : sg_eval w (sg_neg p a) == - sg_eval w a.
Proof.
  induction a as [|[c v] a IH]; cbn [sg_neg sg_eval map fold_right fst snd]; [reflexivity|].
  change (fold_right (fun cv acc => fst cv * w (snd cv) + acc) 0 (map (fun cv => ((- fst cv) mod p, snd cv)) a))
    with (sg_eval w (sg_neg p a)).
  change (fold_right (fun cv acc => fst cv * w (snd cv) + acc) 0 a) with (sg_eval w a).
  rewrite IH, feq_modp. apply eq_feq. ring.
Qed.
Theorem sg_build_faithful w e : sg_eval w (sg_build p e) == sem w e.
Proof.
  induction e as [v| | |a IHa b IHb|a IHa b IHb|a IHa|a IHa k]; cbn [sg_build sem]; unfold sg_sub;
    rewrite ?sg_eval_app, ?sg_eval_neg, ?sg_eval_scale, ?IHa, ?IHb;
    try reflexivity; unfold sg_eval; cbn [fold_right fst snd]; apply eq_feq; ring.
Qed.
End SigP.

