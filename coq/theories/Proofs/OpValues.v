(* The Python-level operators on two secret integers (through the operator dispatch of Model/Api.v) return the Python value
   whenever they do not raise (C05 at the operator level). *)
From Coq Require Import ZArith List Bool Lia Znumtheory.
From PySnark.Base Require Import FieldZ Bits.
From PySnark.Model Require Import Lc Sym Good Gadgets Api.
From PySnark.Proofs Require Import Meta Frame Wp WpBase GadgetsOK Values FxValues BitValues.
Import ListNotations.
Open Scope Z_scope.

Section OV.
Context {p : Z}.
Variable ins : list Z.
Variable ig : bool.
Hypothesis F : field_ok p.
Local Notation gst := (@Gadgets.gst p).
Local Notation slc := (Sym.slc p).
Local Notation pyval := (Api.pyval p).
Local Notation ve := (Sym.veval p ins ig).
Local Notation be := (Sym.beval p ins ig).
Local Notation wp := (Wp.wp (p:=p) ins ig).
Local Notation Inv := (WpBase.Inv (p:=p) ins ig).
Variable c : cfg.
Variables (s : gst) (sg : store).
Hypothesis I : Inv s sg.
Hypothesis Chk : be sg (ignore s) = false.
Local Notation v x := (ve sg (sval x)).
Local Notation b2z b := (if b then 1 else 0).

(* the result is a LinCombBool / LinComb whose value satisfies P *)
Definition is_bool (P : Z -> Prop) (r : pyval) (sg' : store) : Prop := match r with PBool _ b => P (ve sg' (sval b)) | _ => False end.
Definition is_lc (P : Z -> Prop) (r : pyval) (sg' : store) : Prop := match r with PLC x => P (ve sg' (sval x)) | _ => False end.
Local Notation returns := (Values.returns ins ig).
Ltac opv := unfold addc, subc, sub; cbn [sval add neg constv]; esimp.

Theorem op_lt x y : returns (pyop c OLt (PLC x) (PLC y)) s sg (is_bool (fun r => r = b2z (v x <? v y))).
Proof.
  unfold Values.returns, pyop, FUEL. cbn [binop dispatch lc_dunder bind ret uneg same_class m_check_positive boolr NI].
  apply wp_bind. apply wp_bind. apply check_positive_wp; [exact I|]. intros r s' sg' _ _ V. cbn [ret wp is_bool]. rewrite (V Chk).
  replace (ve sg (sval (addc (add y (neg x)) (- (1))))) with (v y - v x - 1) by (opv; ring).
  destruct (Z.leb_spec 0 (v y - v x - 1)), (Z.ltb_spec (v x) (v y)); try reflexivity; lia.
Qed.
Theorem op_le x y : returns (pyop c OLe (PLC x) (PLC y)) s sg (is_bool (fun r => r = b2z (v x <=? v y))).
Proof.
  unfold Values.returns, pyop, FUEL. cbn [binop dispatch lc_dunder bind ret uneg same_class m_check_positive boolr NI].
  apply wp_bind. apply wp_bind. apply check_positive_wp; [exact I|]. intros r s' sg' _ _ V. cbn [ret wp is_bool]. rewrite (V Chk).
  replace (ve sg (sval (add y (neg x)))) with (v y - v x) by (opv; ring).
  destruct (Z.leb_spec 0 (v y - v x)), (Z.leb_spec (v x) (v y)); try reflexivity; lia.
Qed.
Theorem op_eq x y : returns (pyop c OEq (PLC x) (PLC y)) s sg (is_bool (fun r => r = b2z (v x =? v y))).
Proof.
  unfold Values.returns, pyop, FUEL. cbn [binop dispatch lc_dunder bind ret uneg same_class m_check_zero boolr NI].
  apply wp_bind. apply wp_bind. apply check_zero_wp; [exact F|exact I|]. intros r s' sg' _ _ _ V. cbn [ret wp is_bool]. rewrite V.
  replace (ve sg (sval (add x (neg y)))) with (v x - v y) by (opv; ring).
  destruct (Z.eqb_spec (v x - v y) 0), (Z.eqb_spec (v x) (v y)); try reflexivity; lia.
Qed.
Theorem op_mul x y : returns (pyop c OMul (PLC x) (PLC y)) s sg (is_lc (fun r => r = v x * v y)).
Proof.
  unfold Values.returns, pyop, FUEL. cbn [binop dispatch lc_dunder bind ret uneg same_class lcr NI].
  apply wp_bind. apply wp_bind. apply mul_wp; [exact I|]. intros r s' sg' _ _ V _ _. cbn [ret wp is_lc]. exact V.
Qed.
Theorem op_floordiv x y : returns (pyop c OFloorDiv (PLC x) (PLC y)) s sg (is_lc (fun r => r = v x / v y)).
Proof.
  unfold Values.returns, pyop, FUEL. cbn [binop dispatch lc_dunder lc_divmod bind ret uneg same_class NI].
  apply wp_bind. apply wp_bind. apply wp_bind. apply divmod_wp; [exact I|]. intros [q r] s' sg' _ [Vq _]. cbn [ret wp tuple_nth nth fst snd is_lc] in *. exact Vq.
Qed.
Theorem op_mod x y : returns (pyop c OMod (PLC x) (PLC y)) s sg (is_lc (fun r => r = v x mod v y)).
Proof.
  unfold Values.returns, pyop, FUEL. cbn [binop dispatch lc_dunder lc_divmod bind ret uneg same_class NI].
  apply wp_bind. apply wp_bind. apply wp_bind. apply divmod_wp; [exact I|]. intros [q r] s' sg' _ [_ Vr]. cbn [ret wp tuple_nth nth fst snd is_lc] in *. exact Vr.
Qed.
(* secret op int and the reflected int op secret *)
Theorem op_lt_int_right x k : returns (pyop c OLt (PLC x) (PInt k)) s sg (is_bool (fun r => r = b2z (v x <? k))).
Proof.
  unfold Values.returns, pyop, FUEL. cbn [binop dispatch lc_dunder lc_rdunder bind ret uneg same_class m_check_positive boolr NI].
  repeat apply wp_bind. apply check_positive_wp; [exact I|]. intros r s' sg' _ _ V. cbn [ret wp is_bool]. rewrite (V Chk).
  match goal with |- context [ve sg (sval ?d)] => replace (ve sg (sval d)) with (k - v x - 1) by (opv; ring) end.
  destruct (Z.leb_spec 0 (k - v x - 1)), (Z.ltb_spec (v x) k); try reflexivity; lia.
Qed.
Theorem op_lt_int_left k y : returns (pyop c OLt (PInt k) (PLC y)) s sg (is_bool (fun r => r = b2z (k <? v y))).
Proof.
  unfold Values.returns, pyop, FUEL. cbn [binop dispatch lc_dunder lc_rdunder bind ret uneg same_class m_check_positive boolr NI].
  repeat apply wp_bind. apply check_positive_wp; [exact I|]. intros r s' sg' _ _ V. cbn [ret wp is_bool]. rewrite (V Chk).
  match goal with |- context [ve sg (sval ?d)] => replace (ve sg (sval d)) with (v y - k - 1) by (opv; ring) end.
  destruct (Z.leb_spec 0 (v y - k - 1)), (Z.ltb_spec k (v y)); try reflexivity; lia.
Qed.
Theorem op_floordiv_int x k : returns (pyop c OFloorDiv (PLC x) (PInt k)) s sg (is_lc (fun r => r = v x / k)).
Proof.
  unfold Values.returns, pyop, FUEL. cbn [binop dispatch lc_dunder lc_divmod bind ret uneg same_class NI].
  repeat apply wp_bind. apply divmod_wp; [exact I|]. intros [q r] s' sg' _ [Vq _]. cbn [ret wp tuple_nth nth fst snd is_lc] in *. rewrite Vq. cbn [sval constv]. esimp. reflexivity.
Qed.
(* linear operators emit nothing and return the Python value (all operand kinds secret / int) *)
Theorem op_add x y : returns (pyop c OAdd (PLC x) (PLC y)) s sg (is_lc (fun r => r = v x + v y)).
Proof. unfold Values.returns, pyop, FUEL. cbn [binop dispatch lc_dunder bind ret wp is_lc]. opv. reflexivity. Qed.
Theorem op_sub x y : returns (pyop c OSub (PLC x) (PLC y)) s sg (is_lc (fun r => r = v x - v y)).
Proof. unfold Values.returns, pyop, FUEL. cbn [binop dispatch lc_dunder uneg bind ret wp is_lc]. opv. ring. Qed.
Theorem op_add_int x k : returns (pyop c OAdd (PLC x) (PInt k)) s sg (is_lc (fun r => r = v x + k)).
Proof. unfold Values.returns, pyop, FUEL. cbn [binop dispatch lc_dunder bind ret wp is_lc]. opv. reflexivity. Qed.
Theorem op_radd_int k x : returns (pyop c OAdd (PInt k) (PLC x)) s sg (is_lc (fun r => r = k + v x)).
Proof. unfold Values.returns, pyop, FUEL. cbn [binop dispatch lc_dunder lc_rdunder same_class NI bind ret wp is_lc]. opv. ring. Qed.
Theorem op_sub_int x k : returns (pyop c OSub (PLC x) (PInt k)) s sg (is_lc (fun r => r = v x - k)).
Proof. unfold Values.returns, pyop, FUEL. cbn [binop dispatch lc_dunder uneg bind ret wp is_lc]. opv. ring. Qed.
Theorem op_rsub_int k x : returns (pyop c OSub (PInt k) (PLC x)) s sg (is_lc (fun r => r = k - v x)).
Proof. unfold Values.returns, pyop, FUEL. cbn [binop dispatch lc_dunder lc_rdunder same_class NI uneg bind ret wp is_lc]. opv. ring. Qed.
Theorem op_mul_int x k : returns (pyop c OMul (PLC x) (PInt k)) s sg (is_lc (fun r => r = v x * k)).
Proof. unfold Values.returns, pyop, FUEL. cbn [binop dispatch lc_dunder bind ret wp is_lc]. cbn [sval scale]. esimp. reflexivity. Qed.
Theorem op_rmul_int k x : returns (pyop c OMul (PInt k) (PLC x)) s sg (is_lc (fun r => r = k * v x)).
Proof. unfold Values.returns, pyop, FUEL. cbn [binop dispatch lc_dunder lc_rdunder same_class NI bind ret wp is_lc]. cbn [sval scale]. esimp. ring. Qed.
Theorem op_neg x : returns (unop c (pyop c) UNeg (PLC x)) s sg (is_lc (fun r => r = - v x)).
Proof. unfold Values.returns, unop. cbn [uneg ret wp is_lc]. cbn [sval neg]. esimp. reflexivity. Qed.
(* the remaining comparisons *)
Theorem op_gt x y : returns (pyop c OGt (PLC x) (PLC y)) s sg (is_bool (fun r => r = b2z (v y <? v x))).
Proof.
  unfold Values.returns, pyop, FUEL. cbn [binop dispatch lc_dunder bind ret uneg same_class m_check_positive boolr NI].
  apply wp_bind. apply wp_bind. apply check_positive_wp; [exact I|]. intros r s' sg' _ _ V. cbn [ret wp is_bool]. rewrite (V Chk).
  match goal with |- context [ve sg (sval ?d)] => replace (ve sg (sval d)) with (v x - v y - 1) by (opv; ring) end.
  destruct (Z.leb_spec 0 (v x - v y - 1)), (Z.ltb_spec (v y) (v x)); try reflexivity; lia.
Qed.
Theorem op_ge x y : returns (pyop c OGe (PLC x) (PLC y)) s sg (is_bool (fun r => r = b2z (v y <=? v x))).
Proof.
  unfold Values.returns, pyop, FUEL. cbn [binop dispatch lc_dunder bind ret uneg same_class m_check_positive boolr NI].
  apply wp_bind. apply wp_bind. apply check_positive_wp; [exact I|]. intros r s' sg' _ _ V. cbn [ret wp is_bool]. rewrite (V Chk).
  match goal with |- context [ve sg (sval ?d)] => replace (ve sg (sval d)) with (v x - v y) by (opv; ring) end.
  destruct (Z.leb_spec 0 (v x - v y)), (Z.leb_spec (v y) (v x)); try reflexivity; lia.
Qed.
Theorem op_ne x y : returns (pyop c ONe (PLC x) (PLC y)) s sg (is_bool (fun r => r = b2z (negb (v x =? v y)))).
Proof.
  unfold Values.returns, pyop, FUEL. cbn [binop dispatch lc_dunder bind ret uneg same_class m_check_nonzero NI].
  apply wp_bind. apply wp_bind. apply check_zero_wp; [exact F|exact I|]. intros r s' sg' _ _ _ V. cbn [ret wp is_bool]. unfold bnot, rsubc. cbn [sval add neg constv]. esimp. rewrite V.
  replace (ve sg (sval (add x (neg y)))) with (v x - v y) by (opv; ring).
  destruct (Z.eqb_spec (v x - v y) 0), (Z.eqb_spec (v x) (v y)); try reflexivity; lia.
Qed.
Theorem op_eq_int x k : returns (pyop c OEq (PLC x) (PInt k)) s sg (is_bool (fun r => r = b2z (v x =? k))).
Proof.
  unfold Values.returns, pyop, FUEL. cbn [binop dispatch lc_dunder bind ret uneg same_class m_check_zero boolr NI].
  apply wp_bind. apply wp_bind. apply check_zero_wp; [exact F|exact I|]. intros r s' sg' _ _ _ V. cbn [ret wp is_bool]. rewrite V.
  match goal with |- context [ve sg (sval ?d)] => replace (ve sg (sval d)) with (v x - k) by (opv; ring) end.
  destruct (Z.eqb_spec (v x - k) 0), (Z.eqb_spec (v x) k); try reflexivity; lia.
Qed.
(* exact division: returns only if the divisor is non-zero and divides the dividend, and then the quotient *)
Theorem op_truediv x y : returns (pyop c OTrueDiv (PLC x) (PLC y)) s sg (is_lc (fun r => r = v x / v y /\ v x mod v y = 0 /\ v y <> 0)).
Proof.
  unfold Values.returns, pyop, FUEL. cbn [binop dispatch lc_dunder bind ret uneg same_class lcr NI].
  apply wp_bind. apply wp_bind. apply truediv_wp; [exact I|]. intros r s' sg' _ V. cbn [ret wp is_lc]. exact (V Chk).
Qed.
(* branching.if_then_else on two secret integers with a LinCombBool condition (no identity shortcut) *)
Theorem op_select cb t f o : same_val (PLC t) (PLC f) = false ->
  returns (if_then_else c (pyop c) (PBool o cb) (PLC t) (PLC f)) s sg (is_lc (fun r => r = v f + v cb * (v t - v f))).
Proof.
  intros Hne. unfold Values.returns, if_then_else. cbn [ite_fuel]. rewrite Hne. cbn [andb]. unfold pyop, FUEL.
  cbn [binop dispatch lc_dunder bool_dunder bool_rdunder lc_rdunder bind ret uneg same_class lcr NI].
  repeat apply wp_bind. apply mul_wp; [exact I|]. intros m s' sg' P Sm Vm Cc Ctf.
  cbn [ret wp bind lcr is_lc]. cbn [sval add]. esimp. rewrite Vm. cbn [sval add neg]. esimp.
  cbn [vscopedb sval add neg] in Ctf. apply andb_prop in Ctf. destruct Ctf as [Ct Cf]. cbn [vscopedb] in Cf. apply andb_prop in Cf. destruct Cf as [_ Cf].
  rewrite (ve_ext ins ig _ _ _ _ (proj1 I) (proj1 (proj2 P)) Cf). ring.
Qed.
(* ---- fixed-point operands (C14): the operators act on the integer representations rep = value * 2^resolution ---- *)
Definition is_fx (P : Z -> Prop) (r : pyval) (sg' : store) : Prop := match r with PFxp _ q => P (ve sg' (sval q)) | _ => False end.
Local Notation Rz := (Api.R c).
Ltac fxd := unfold Values.returns, pyop, FUEL;
  cbn [binop dispatch fxp_dunder' fxp_dunder ensurefxp lc_dunder bind ret uneg same_class m_check_positive m_check_zero m_check_nonzero boolr NI].
(* comparisons compare the representations, i.e. the rationals (same positive scale on both sides) *)
Theorem op_fx_lt o o' f g : returns (pyop c OLt (PFxp o f) (PFxp o' g)) s sg (is_bool (fun r => r = b2z (v f <? v g))).
Proof.
  fxd. repeat apply wp_bind. apply check_positive_wp; [exact I|]. intros r s' sg' _ _ V. cbn [ret wp is_bool]. rewrite (V Chk).
  match goal with |- context [ve sg (sval ?d)] => replace (ve sg (sval d)) with (v g - v f - 1) by (opv; ring) end.
  destruct (Z.leb_spec 0 (v g - v f - 1)), (Z.ltb_spec (v f) (v g)); try reflexivity; lia.
Qed.
Theorem op_fx_le o o' f g : returns (pyop c OLe (PFxp o f) (PFxp o' g)) s sg (is_bool (fun r => r = b2z (v f <=? v g))).
Proof.
  fxd. repeat apply wp_bind. apply check_positive_wp; [exact I|]. intros r s' sg' _ _ V. cbn [ret wp is_bool]. rewrite (V Chk).
  match goal with |- context [ve sg (sval ?d)] => replace (ve sg (sval d)) with (v g - v f) by (opv; ring) end.
  destruct (Z.leb_spec 0 (v g - v f)), (Z.leb_spec (v f) (v g)); try reflexivity; lia.
Qed.
Theorem op_fx_eq o o' f g : returns (pyop c OEq (PFxp o f) (PFxp o' g)) s sg (is_bool (fun r => r = b2z (v f =? v g))).
Proof.
  fxd. repeat apply wp_bind. apply check_zero_wp; [exact F|exact I|]. intros r s' sg' _ _ _ V. cbn [ret wp is_bool]. rewrite V.
  match goal with |- context [ve sg (sval ?d)] => replace (ve sg (sval d)) with (v f - v g) by (opv; ring) end.
  destruct (Z.eqb_spec (v f - v g) 0), (Z.eqb_spec (v f) (v g)); try reflexivity; lia.
Qed.
(* comparison with a plain integer k: the integer is scaled to k * 2^resolution *)
Theorem op_fx_lt_int o f k : returns (pyop c OLt (PFxp o f) (PInt k)) s sg (is_bool (fun r => r = b2z (v f <? k * Rz))).
Proof.
  fxd. repeat apply wp_bind. apply check_positive_wp; [exact I|]. intros r s' sg' _ _ V. cbn [ret wp is_bool]. rewrite (V Chk).
  match goal with |- context [ve sg (sval ?d)] => replace (ve sg (sval d)) with (k * Rz - v f - 1) by (opv; ring) end.
  destruct (Z.leb_spec 0 (k * Rz - v f - 1)), (Z.ltb_spec (v f) (k * Rz)); try reflexivity; lia.
Qed.
(* sums, differences and integer multiples are exact *)
Theorem op_fx_add o o' f g : returns (pyop c OAdd (PFxp o f) (PFxp o' g)) s sg (is_fx (fun r => r = v f + v g)).
Proof. fxd. cbn [ret wp is_fx]. opv. reflexivity. Qed.
Theorem op_fx_sub o o' f g : returns (pyop c OSub (PFxp o f) (PFxp o' g)) s sg (is_fx (fun r => r = v f - v g)).
Proof. fxd. cbn [ret wp is_fx]. opv. ring. Qed.
Theorem op_fx_mul_int o f k : returns (pyop c OMul (PFxp o f) (PInt k)) s sg (is_fx (fun r => r = v f * k)).
Proof. fxd. cbn [ret wp is_fx]. cbn [sval scale]. esimp. reflexivity. Qed.
(* mixed operand classes: an integer k or a secret integer y stands for the number k (resp. y), i.e. the representation k * 2^r *)
Ltac fxd2 := unfold Values.returns, pyop, FUEL;
  cbn [binop dispatch fxp_dunder' fxp_dunder add_scaling mkfxp ensurefxp lc_dunder bind ret uneg same_class m_check_positive m_check_zero boolr fxpr NI].
Theorem op_fx_add_int o f k : returns (pyop c OAdd (PFxp o f) (PInt k)) s sg (is_fx (fun r => r = v f + k * Rz)).
Proof. fxd2. cbn [ret wp is_fx]. opv. reflexivity. Qed.
Theorem op_fx_add_lc o f y : returns (pyop c OAdd (PFxp o f) (PLC y)) s sg (is_fx (fun r => r = v f + v y * Rz)).
Proof. fxd2. cbn [ret wp is_fx]. cbn [sval add scale]. esimp. reflexivity. Qed.
Theorem op_fx_mul_lc o f y : returns (pyop c OMul (PFxp o f) (PLC y)) s sg (is_fx (fun r => r = v f * v y)).
Proof. fxd2. apply wp_bind. apply wp_bind. apply mul_wp; [exact I|]. intros m s' sg' _ _ Vm _ _. cbn [ret wp is_fx]. exact Vm. Qed.
Theorem op_fx_lt_lc o f y : returns (pyop c OLt (PFxp o f) (PLC y)) s sg (is_bool (fun r => r = b2z (v f <? v y * Rz))).
Proof.
  fxd2. repeat apply wp_bind. apply check_positive_wp; [exact I|]. intros r s' sg' _ _ V. cbn [ret wp is_bool]. rewrite (V Chk).
  match goal with |- context [ve sg (sval ?d)] => replace (ve sg (sval d)) with (v y * Rz - v f - 1) by (unfold addc, subc, sub; cbn [sval add neg constv scale]; esimp; ring) end.
  destruct (Z.leb_spec 0 (v y * Rz - v f - 1)), (Z.ltb_spec (v f) (v y * Rz)); try reflexivity; lia.
Qed.
(* product and quotient through the operator dispatch: floor(rep a * rep b / 2^r) and floor(rep a * 2^r / rep b) *)
Theorem op_fx_mul o o' f g : returns (pyop c OMul (PFxp o f) (PFxp o' g)) s sg (is_fx (fun r => r = (v f * v g) / Rz)).
Proof.
  unfold Values.returns, pyop, FUEL. cbn [binop dispatch fxp_dunder']. apply wp_bind.
  eapply wp_mono; [|apply (fxp_mul_value ins ig c (binop c 11) s sg f g o' I)]. intros a s' sg' H. destruct a; try contradiction. cbn [ret wp is_fx]. exact H.
Qed.
Theorem op_fx_truediv o o' f g : returns (pyop c OTrueDiv (PFxp o f) (PFxp o' g)) s sg (is_fx (fun r => r = (v f * Rz) / v g)).
Proof.
  unfold Values.returns, pyop, FUEL. cbn [binop dispatch fxp_dunder']. apply wp_bind.
  eapply wp_mono; [|apply (fxp_div_value ins ig c (binop c 11) s sg f g o' I)]. intros a s' sg' H. destruct a; try contradiction. cbn [ret wp is_fx]. exact H.
Qed.
(* // and % on two fixed-point numbers: floor division and modulo of the REPRESENTATIONS; the quotient (a whole number) is rescaled by 2^r,
   the remainder keeps the scale: on the represented rationals A = a/2^r, B = b/2^r these are Python's A // B and A % B *)
Ltac fxdm := unfold Values.returns, pyop, FUEL; cbn [binop dispatch fxp_dunder' fxp_dunder fxp_divmod add_scaling lc_divmod bind ret NI].
Theorem op_fx_floordiv o o' f g : returns (pyop c OFloorDiv (PFxp o f) (PFxp o' g)) s sg (is_fx (fun r => r = (v f / v g) * Rz)).
Proof.
  fxdm. repeat apply wp_bind. apply divmod_wp; [exact I|]. intros [q r] s' sg' _ [Vq _].
  cbn [ret wp bind mkfxp tuple_nth nth fst snd is_fx] in *. cbn [sval scale]. esimp. rewrite Vq. reflexivity.
Qed.
Theorem op_fx_mod o o' f g : returns (pyop c OMod (PFxp o f) (PFxp o' g)) s sg (is_fx (fun r => r = v f mod v g)).
Proof.
  fxdm. repeat apply wp_bind. apply divmod_wp; [exact I|]. intros [q r] s' sg' _ [_ Vr].
  cbn [ret wp bind mkfxp tuple_nth nth fst snd is_fx] in *. exact Vr.
Qed.
(* by a public int k (standing for k * 2^r) *)
Theorem op_fx_floordiv_int o f k : returns (pyop c OFloorDiv (PFxp o f) (PInt k)) s sg (is_fx (fun r => r = (v f / (k * Rz)) * Rz)).
Proof.
  fxdm. repeat apply wp_bind. apply divmod_wp; [exact I|]. intros [q r] s' sg' _ [Vq _].
  cbn [ret wp bind mkfxp tuple_nth nth fst snd is_fx] in *. cbn [sval scale]. esimp. rewrite Vq. cbn [sval constv]. esimp. reflexivity.
Qed.
Theorem op_fx_mod_int o f k : returns (pyop c OMod (PFxp o f) (PInt k)) s sg (is_fx (fun r => r = v f mod (k * Rz))).
Proof.
  fxdm. repeat apply wp_bind. apply divmod_wp; [exact I|]. intros [q r] s' sg' _ [_ Vr].
  cbn [ret wp bind mkfxp tuple_nth nth fst snd is_fx] in *. rewrite Vr. cbn [sval constv]. esimp. reflexivity.
Qed.
(* ---- secret booleans (LinCombBool): &, |, ^, ~ return the values of the boolean connectives on 0/1 values ---- *)
Ltac bd := unfold Values.returns, pyop, FUEL; cbn [binop dispatch bool_dunder ensurebool bind ret same_class NI].
Theorem op_bool_and o o' a b : returns (pyop c OAnd (PBool o a) (PBool o' b)) s sg (is_bool (fun r => r = v a * v b)).
Proof.
  bd. apply wp_bind. apply wp_bind. apply mul_wp; [exact I|]. intros m s' sg' _ _ Vm _ _. unfold mkbool, raise_if. cbn [bind ret wp]. intros _ _.
  cbn [is_bool]. exact Vm.
Qed.
Theorem op_bool_or o o' a b : returns (pyop c OOr (PBool o a) (PBool o' b)) s sg (is_bool (fun r => r = v a + v b - v a * v b)).
Proof.
  bd. apply wp_bind. apply wp_bind. apply mul_wp; [exact I|]. intros m s' sg' P _ Vm Ca Cb. unfold mkbool, raise_if. cbn [bind ret wp]. intros _ _.
  cbn [is_bool]. unfold sub. cbn [sval add neg]. esimp. rewrite Vm.
  rewrite (ve_ext ins ig _ _ _ _ (proj1 I) (proj1 (proj2 P)) Ca), (ve_ext ins ig _ _ _ _ (proj1 I) (proj1 (proj2 P)) Cb). ring.
Qed.
Theorem op_bool_xor o o' a b : returns (pyop c OXor (PBool o a) (PBool o' b)) s sg (is_bool (fun r => r = v a + v b - 2 * v a * v b)).
Proof.
  bd. apply wp_bind. apply wp_bind. apply mul_wp; [exact I|]. intros m s' sg' P _ Vm Ca Cb. unfold mkbool, raise_if. cbn [bind ret wp]. intros _ _.
  cbn [is_bool]. unfold sub. cbn [sval add neg]. esimp. rewrite Vm. cbn [sval scale] in *. esimp. cbn [vscopedb] in Ca. apply andb_prop in Ca. destruct Ca as [Ca _].
  rewrite (ve_ext ins ig _ _ _ _ (proj1 I) (proj1 (proj2 P)) Ca), (ve_ext ins ig _ _ _ _ (proj1 I) (proj1 (proj2 P)) Cb). ring.
Qed.
Theorem op_bool_not o a : returns (unop c (pyop c) UInvert (PBool o a)) s sg (is_bool (fun r => r = 1 - v a)).
Proof.
  unfold Values.returns, unop, mkbool, raise_if. cbn [bind ret wp]. intros _ _. cbn [is_bool]. unfold bnot, rsubc. cbn [sval add neg constv]. esimp. ring.
Qed.
(* ---- bitwise operators on whole numbers: Python's &, |, ^ on the operands reduced to bitlength bits ---- *)
Local Notation nb := (Z.of_nat (nbits c)).
Theorem op_and x y : vscopedb (npub s) (npriv s) (sval y) = true -> returns (pyop c OAnd (PLC x) (PLC y)) s sg (is_lc (fun r => r = Z.land (v x) (v y) mod 2 ^ nb)).
Proof.
  intros Cy. unfold Values.returns, pyop, FUEL. cbn [binop dispatch lc_dunder bind ret same_class NI]. apply wp_bind. unfold lcr. apply wp_bind.
  apply (land_value ins ig c); [exact I|exact Cy|]. intros r s' sg' _ V. cbn [ret wp is_lc]. exact V.
Qed.
Theorem op_or x y : vscopedb (npub s) (npriv s) (sval y) = true -> returns (pyop c OOr (PLC x) (PLC y)) s sg (is_lc (fun r => r = Z.lor (v x) (v y) mod 2 ^ nb)).
Proof.
  intros Cy. unfold Values.returns, pyop, FUEL. cbn [binop dispatch lc_dunder bind ret same_class NI]. apply wp_bind. unfold lcr. apply wp_bind.
  apply (lor_value ins ig c); [exact I|exact Cy|]. intros r s' sg' _ V. cbn [ret wp is_lc]. exact V.
Qed.
Theorem op_xor x y : vscopedb (npub s) (npriv s) (sval y) = true -> returns (pyop c OXor (PLC x) (PLC y)) s sg (is_lc (fun r => r = Z.lxor (v x) (v y) mod 2 ^ nb)).
Proof.
  intros Cy. unfold Values.returns, pyop, FUEL. cbn [binop dispatch lc_dunder bind ret same_class NI]. apply wp_bind. unfold lcr. apply wp_bind.
  apply (lxor_value ins ig c); [exact I|exact Cy|]. intros r s' sg' _ V. cbn [ret wp is_lc]. exact V.
Qed.
(* x >> k for a public k >= 0: floor(x / 2^k) on the operand reduced to bitlength bits (the plain int 0 when k >= bitlength) *)
Theorem op_rshift_int x k : 0 <= k -> returns (pyop c ORshift (PLC x) (PInt k)) s sg
  (fun r sg' => match r with
                | PLC q => ve sg' (sval q) = Z.shiftr (v x) k mod 2 ^ Z.of_nat (nbits c - Z.to_nat k)
                | PInt z => z = 0 /\ (nbits c <= Z.to_nat k)%nat
                | _ => False end).
Proof.
  intros Hk. unfold Values.returns, pyop, FUEL. cbn [binop dispatch lc_dunder bind ret same_class NI].
  destruct (Z.ltb_spec k 0); [lia|]. apply wp_bind. unfold py_slice_from. destruct (Z.leb_spec 0 k); [|lia].
  apply (rshift_value ins ig c x (Z.to_nat k)); [exact I|]. intros r s' sg' _ V. rewrite Z2Nat.id in V by lia.
  destruct r; try contradiction; cbn [ret wp]; exact V.
Qed.
End OV.
