(* The Python-level operators on two secret integers (through the operator dispatch of Model/Api.v) return the Python value
   whenever they do not raise (C05 at the operator level). *)
From Coq Require Import ZArith List Bool Lia Znumtheory.
From PySnark.Base Require Import FieldZ Bits.
From PySnark.Model Require Import Lc Sym Good Gadgets Api.
From PySnark.Proofs Require Import Meta Frame Wp WpBase GadgetsOK Values.
Import ListNotations.
Open Scope Z_scope.

Section OV.
Context {p : Z}.
Variable ins : list Z.
Variable ig : bool.
Hypothesis F : field_ok p.
Local Notation gst := (@Gadgets.gst p).
Local Notation slc := (Sym.slc p).
Local Notation pyval := (Api.pyval p).
Local Notation ve := (Sym.veval p ins ig).
Local Notation be := (Sym.beval p ins ig).
Local Notation wp := (Wp.wp (p:=p) ins ig).
Local Notation Inv := (WpBase.Inv (p:=p) ins ig).
Variable c : cfg.
Variables (s : gst) (sg : store).
Hypothesis I : Inv s sg.
Hypothesis Chk : be sg (ignore s) = false.
Local Notation v x := (ve sg (sval x)).
Local Notation b2z b := (if b then 1 else 0).

(* the result is a LinCombBool / LinComb whose value satisfies P *)
Definition is_bool (P : Z -> Prop) (r : pyval) (sg' : store) : Prop := match r with PBool _ b => P (ve sg' (sval b)) | _ => False end.
Definition is_lc (P : Z -> Prop) (r : pyval) (sg' : store) : Prop := match r with PLC x => P (ve sg' (sval x)) | _ => False end.
Local Notation returns := (Values.returns ins ig).
Ltac opv := unfold addc, subc, sub; cbn [sval add neg constv]; esimp.

Theorem op_lt x y : returns (pyop c OLt (PLC x) (PLC y)) s sg (is_bool (fun r => r = b2z (v x <? v y))).
Proof.
  unfold Values.returns, pyop, FUEL. cbn [binop dispatch lc_dunder bind ret uneg same_class m_check_positive boolr NI].
  apply wp_bind. apply wp_bind. apply check_positive_wp; [exact I|]. intros r s' sg' _ _ V. cbn [ret wp is_bool]. rewrite (V Chk).
  replace (ve sg (sval (addc (add y (neg x)) (- (1))))) with (v y - v x - 1) by (opv; ring).
  destruct (Z.leb_spec 0 (v y - v x - 1)), (Z.ltb_spec (v x) (v y)); try reflexivity; lia.
Qed.
Theorem op_le x y : returns (pyop c OLe (PLC x) (PLC y)) s sg (is_bool (fun r => r = b2z (v x <=? v y))).
Proof.
  unfold Values.returns, pyop, FUEL. cbn [binop dispatch lc_dunder bind ret uneg same_class m_check_positive boolr NI].
  apply wp_bind. apply wp_bind. apply check_positive_wp; [exact I|]. intros r s' sg' _ _ V. cbn [ret wp is_bool]. rewrite (V Chk).
  replace (ve sg (sval (add y (neg x)))) with (v y - v x) by (opv; ring).
  destruct (Z.leb_spec 0 (v y - v x)), (Z.leb_spec (v x) (v y)); try reflexivity; lia.
Qed.
Theorem op_eq x y : returns (pyop c OEq (PLC x) (PLC y)) s sg (is_bool (fun r => r = b2z (v x =? v y))).
Proof.
  unfold Values.returns, pyop, FUEL. cbn [binop dispatch lc_dunder bind ret uneg same_class m_check_zero boolr NI].
  apply wp_bind. apply wp_bind. apply check_zero_wp; [exact F|exact I|]. intros r s' sg' _ _ _ V. cbn [ret wp is_bool]. rewrite V.
  replace (ve sg (sval (add x (neg y)))) with (v x - v y) by (opv; ring).
  destruct (Z.eqb_spec (v x - v y) 0), (Z.eqb_spec (v x) (v y)); try reflexivity; lia.
Qed.
Theorem op_mul x y : returns (pyop c OMul (PLC x) (PLC y)) s sg (is_lc (fun r => r = v x * v y)).
Proof.
  unfold Values.returns, pyop, FUEL. cbn [binop dispatch lc_dunder bind ret uneg same_class lcr NI].
  apply wp_bind. apply wp_bind. apply mul_wp; [exact I|]. intros r s' sg' _ _ V _ _. cbn [ret wp is_lc]. exact V.
Qed.
Theorem op_floordiv x y : returns (pyop c OFloorDiv (PLC x) (PLC y)) s sg (is_lc (fun r => r = v x / v y)).
Proof.
  unfold Values.returns, pyop, FUEL. cbn [binop dispatch lc_dunder lc_divmod bind ret uneg same_class NI].
  apply wp_bind. apply wp_bind. apply wp_bind. apply divmod_wp; [exact I|]. intros [q r] s' sg' _ [Vq _]. cbn [ret wp tuple_nth nth fst snd is_lc] in *. exact Vq.
Qed.
Theorem op_mod x y : returns (pyop c OMod (PLC x) (PLC y)) s sg (is_lc (fun r => r = v x mod v y)).
Proof.
  unfold Values.returns, pyop, FUEL. cbn [binop dispatch lc_dunder lc_divmod bind ret uneg same_class NI].
  apply wp_bind. apply wp_bind. apply wp_bind. apply divmod_wp; [exact I|]. intros [q r] s' sg' _ [_ Vr]. cbn [ret wp tuple_nth nth fst snd is_lc] in *. exact Vr.
Qed.
(* secret op int and the reflected int op secret *)
Theorem op_lt_int_right x k : returns (pyop c OLt (PLC x) (PInt k)) s sg (is_bool (fun r => r = b2z (v x <? k))).
Proof.
  unfold Values.returns, pyop, FUEL. cbn [binop dispatch lc_dunder lc_rdunder bind ret uneg same_class m_check_positive boolr NI].
  repeat apply wp_bind. apply check_positive_wp; [exact I|]. intros r s' sg' _ _ V. cbn [ret wp is_bool]. rewrite (V Chk).
  match goal with |- context [ve sg (sval ?d)] => replace (ve sg (sval d)) with (k - v x - 1) by (opv; ring) end.
  destruct (Z.leb_spec 0 (k - v x - 1)), (Z.ltb_spec (v x) k); try reflexivity; lia.
Qed.
Theorem op_lt_int_left k y : returns (pyop c OLt (PInt k) (PLC y)) s sg (is_bool (fun r => r = b2z (k <? v y))).
Proof.
  unfold Values.returns, pyop, FUEL. cbn [binop dispatch lc_dunder lc_rdunder bind ret uneg same_class m_check_positive boolr NI].
  repeat apply wp_bind. apply check_positive_wp; [exact I|]. intros r s' sg' _ _ V. cbn [ret wp is_bool]. rewrite (V Chk).
  match goal with |- context [ve sg (sval ?d)] => replace (ve sg (sval d)) with (v y - k - 1) by (opv; ring) end.
  destruct (Z.leb_spec 0 (v y - k - 1)), (Z.ltb_spec k (v y)); try reflexivity; lia.
Qed.
Theorem op_floordiv_int x k : returns (pyop c OFloorDiv (PLC x) (PInt k)) s sg (is_lc (fun r => r = v x / k)).
Proof.
  unfold Values.returns, pyop, FUEL. cbn [binop dispatch lc_dunder lc_divmod bind ret uneg same_class NI].
  repeat apply wp_bind. apply divmod_wp; [exact I|]. intros [q r] s' sg' _ [Vq _]. cbn [ret wp tuple_nth nth fst snd is_lc] in *. rewrite Vq. cbn [sval constv]. esimp. reflexivity.
Qed.
(* branching.if_then_else on two secret integers with a LinCombBool condition (no identity shortcut) *)
Theorem op_select cb t f o : same_val (PLC t) (PLC f) = false ->
  returns (if_then_else c (pyop c) (PBool o cb) (PLC t) (PLC f)) s sg (is_lc (fun r => r = v f + v cb * (v t - v f))).
Proof.
  intros Hne. unfold Values.returns, if_then_else. cbn [ite_fuel]. rewrite Hne. cbn [andb]. unfold pyop, FUEL.
  cbn [binop dispatch lc_dunder bool_dunder bool_rdunder lc_rdunder bind ret uneg same_class lcr NI].
  repeat apply wp_bind. apply mul_wp; [exact I|]. intros m s' sg' P Sm Vm Cc Ctf.
  cbn [ret wp bind lcr is_lc]. cbn [sval add]. esimp. rewrite Vm. cbn [sval add neg]. esimp.
  cbn [vscopedb sval add neg] in Ctf. apply andb_prop in Ctf. destruct Ctf as [Ct Cf]. cbn [vscopedb] in Cf. apply andb_prop in Cf. destruct Cf as [_ Cf].
  rewrite (ve_ext ins ig _ _ _ _ (proj1 I) (proj1 (proj2 P)) Cf). ring.
Qed.
End OV.
