From Coq Require Import ZArith List Bool Lia Permutation.
From PySnark.Model Require Import Qap.
Import ListNotations.
Open Scope Z_scope.

Section P.
Variable line : Type.
Variable sortl : list line -> list line.
Variable digest : list line -> Z.
Hypothesis sort_perm : forall l, Permutation (sortl l) l.                 (* sorting neither adds nor drops lines *)
Hypothesis digest_inj : forall a b, digest a = digest b -> a = b.         (* TRUSTED: md5 prefix collision-free on the lists at hand *)

Notation lines_of := (lines_of line).
Notation qap_of := (qap_of line sortl).
Notation split := (split line sortl digest).

(* every equation line is in the collection of its own call, and only there *)
Theorem lines_partition (f : eqfile line) call x : In (call, x) f <-> In x (lines_of f call) /\ True.
Proof.
  unfold Qap.lines_of. split.
  - intros H. split; [|exact I]. apply in_map_iff. exists (call, x). split; [reflexivity|]. apply filter_In. split; [exact H|]. cbn. apply Nat.eqb_refl.
  - intros [H _]. apply in_map_iff in H. destruct H as [[c y] [E H]]. cbn in E. subst y. apply filter_In in H. destruct H as [H C]. cbn in C.
    apply Nat.eqb_eq in C. subst c. exact H.
Qed.
Theorem qap_has_every_line (f : eqfile line) call x : In (call, x) f <-> In x (qap_of f call).
Proof.
  unfold Qap.qap_of. rewrite (lines_partition f call x). split.
  - intros [H _]. apply (Permutation_in _ (Permutation_sym (sort_perm _))). exact H.
  - intros H. split; [|exact I]. apply (Permutation_in _ (sort_perm _)). exact H.
Qed.
Theorem qap_no_loss (f : eqfile line) call : length (qap_of f call) = length (lines_of f call).
Proof. apply Permutation_length, sort_perm. Qed.

(* when the split succeeds, every call of a function has exactly the equation list written for that function *)
Lemma split_seen_consistent (f : eqfile line) calls : forall seen out,
  split f calls seen = Some out ->
  forall call fn, In (call, fn) calls ->
    (forall h, find (fun s => Nat.eqb (fst s) fn) seen = Some (fn, h) -> h = digest (qap_of f call)) /\
    (find (fun s => Nat.eqb (fst s) fn) seen = None -> exists q, In (fn, q) out /\ q = qap_of f call).
Proof.
  induction calls as [|[c0 f0] rest IH]; intros seen out S call fn Hin; [destruct Hin|].
  cbn [Qap.split] in S.
  destruct (find (fun s => Nat.eqb (fst s) f0) seen) as [[f0' h0]|] eqn:F0.
  - destruct (Z.eqb_spec h0 (digest (Qap.qap_of line sortl f c0))) as [E|NE]; [|discriminate].
    destruct Hin as [Hin|Hin].
    + inversion Hin; subst. split.
      * intros h Hf. rewrite F0 in Hf. inversion Hf; subst. reflexivity.
      * intros Hn. rewrite F0 in Hn. discriminate.
    + exact (IH seen out S call fn Hin).
  - destruct (Qap.split line sortl digest f rest ((f0, digest (Qap.qap_of line sortl f c0)) :: seen)) as [out'|] eqn:S'; [|discriminate].
    inversion S; subst out; clear S.
    destruct Hin as [Hin|Hin].
    + inversion Hin; subst. split.
      * intros h Hf. rewrite F0 in Hf. discriminate.
      * intros _. exists (Qap.qap_of line sortl f call). split; [left; reflexivity|reflexivity].
    + destruct (IH _ _ S' call fn Hin) as [A B]. split.
      * intros h Hf. apply A. cbn [find fst]. destruct (Nat.eqb_spec f0 fn) as [->|Hn]; [rewrite F0 in Hf; discriminate|exact Hf].
      * intros Hn. cbn [find fst] in A, B. destruct (Nat.eqb_spec f0 fn) as [->|Hne].
        -- specialize (A _ eq_refl). apply digest_inj in A. exists (Qap.qap_of line sortl f c0). split; [left; reflexivity|exact A].
        -- destruct (B Hn) as [q [Hq E]]. exists q. split; [right; exact Hq|exact E].
Qed.

Theorem split_faithful (f : eqfile line) calls out call fn :
  split f calls [] = Some out -> In (call, fn) calls -> exists q, In (fn, q) out /\ q = qap_of f call.
Proof. intros S Hin. destruct (split_seen_consistent f calls [] out S call fn Hin) as [_ B]. apply B. reflexivity. Qed.
End P.
