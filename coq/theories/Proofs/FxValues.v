(* Fixed-point arithmetic on representations (C14): with R = 2^resolution, the traced product of two fixed-point values is
   floor(a*b / R) and the traced quotient floor(a*R / b) on the integer representations; sums, differences, negation and
   multiplication by an integer are exact. *)
From Coq Require Import ZArith List Bool Lia Znumtheory.
From PySnark.Base Require Import FieldZ.
From PySnark.Model Require Import Lc Sym Good Gadgets Api.
From PySnark.Proofs Require Import Meta Frame Wp WpBase GadgetsOK Values.
Import ListNotations.
Open Scope Z_scope.

Section FX.
Context {p : Z}.
Variable ins : list Z.
Variable ig : bool.
Hypothesis F : field_ok p.
Local Notation gst := (@Gadgets.gst p).
Local Notation slc := (Sym.slc p).
Local Notation G := (@Gadgets.G p).
Local Notation pyval := (Api.pyval p).
Local Notation ve := (Sym.veval p ins ig).
Local Notation wp := (Wp.wp (p:=p) ins ig).
Local Notation Inv := (WpBase.Inv (p:=p) ins ig).
Variable c : cfg.
Variable rec : bop -> pyval -> pyval -> G pyval.
Variables (s : gst) (sg : store).
Hypothesis I : Inv s sg.
Local Notation v x := (ve sg (sval x)).
Local Notation Rz := (Api.R c).

Definition fx_rep (P : Z -> Prop) (r : pyval) (sg' : store) : Prop := match r with PFxp _ q => P (ve sg' (sval q)) | _ => False end.

Lemma floordiv_const_wp m k (Q : pyval -> gst -> store -> Prop) :
  (forall q s' sg', Post ins ig s sg s' sg' -> ve sg' (sval q) = v m / k -> Q (PLC q) s' sg') -> wp (lc_dunder c rec OFloorDiv m (PInt k)) s sg Q.
Proof.
  intros HQ. unfold lc_dunder, lc_divmod. apply wp_bind. apply wp_bind. apply divmod_wp; [exact I|]. intros [q r] s' sg' P [Vq _].
  cbn [ret wp tuple_nth nth fst snd] in *. apply HQ; [exact P|]. rewrite Vq. cbn [sval constv]. esimp. reflexivity.
Qed.
Lemma floordiv_lc_wp m y (Q : pyval -> gst -> store -> Prop) :
  (forall q s' sg', Post ins ig s sg s' sg' -> ve sg' (sval q) = v m / v y -> Q (PLC q) s' sg') -> wp (lc_dunder c rec OFloorDiv m (PLC y)) s sg Q.
Proof.
  intros HQ. unfold lc_dunder, lc_divmod. apply wp_bind. apply wp_bind. apply divmod_wp; [exact I|]. intros [q r] s' sg' P [Vq _].
  cbn [ret wp tuple_nth nth fst snd] in *. apply HQ; [exact P|]. exact Vq.
Qed.
End FX.

Section FX2.
Context {p : Z}.
Variable ins : list Z.
Variable ig : bool.
Local Notation gst := (@Gadgets.gst p).
Local Notation slc := (Sym.slc p).
Local Notation G := (@Gadgets.G p).
Local Notation pyval := (Api.pyval p).
Local Notation ve := (Sym.veval p ins ig).
Local Notation Inv := (WpBase.Inv (p:=p) ins ig).
Variable c : cfg.
Variable rec : bop -> pyval -> pyval -> G pyval.
Local Notation Rz := (Api.R c).
Local Notation returns := (Values.returns ins ig).

(* a * b on two fixed-point values: floor(rep a * rep b / 2^r) *)
Theorem fxp_mul_value (s : gst) sg f g o : Inv s sg ->
  returns (fxp_dunder c rec OMul f (PFxp o g)) s sg (fx_rep ins ig (fun q => q = (ve sg (sval f) * ve sg (sval g)) / Rz)).
Proof.
  intros I. unfold Values.returns, fxp_dunder. apply wp_bind. apply mul_wp; [exact I|]. intros m s1 sg1 P1 Sm Vm _ _.
  apply wp_bind. apply (floordiv_const_wp ins ig c rec s1 sg1 (proj1 P1)). intros q s2 sg2 P2 Vq.
  unfold mkfxp. cbn [ret wp fx_rep]. rewrite Vq, Vm. reflexivity.
Qed.
(* a / b on two fixed-point values: floor(rep a * 2^r / rep b) *)
Theorem fxp_div_value (s : gst) sg f g o : Inv s sg ->
  returns (fxp_dunder c rec OTrueDiv f (PFxp o g)) s sg (fx_rep ins ig (fun q => q = (ve sg (sval f) * Rz) / ve sg (sval g))).
Proof.
  intros I. unfold Values.returns, fxp_dunder. apply wp_bind. apply (floordiv_lc_wp ins ig c rec s sg I). intros q s2 sg2 P2 Vq.
  unfold mkfxp. cbn [ret wp fx_rep]. rewrite Vq. cbn [sval scale]. esimp. reflexivity.
Qed.
(* a * k, a + b, a - b, -a are exact on representations (pure linear combinations: no witness, no constraint) *)
Theorem fxp_linear_exact sg (f g : slc) k :
  ve sg (sval (scale f k)) = ve sg (sval f) * k /\ ve sg (sval (add f g)) = ve sg (sval f) + ve sg (sval g) /\
  ve sg (sval (sub f g)) = ve sg (sval f) - ve sg (sval g) /\ ve sg (sval (neg f)) = - ve sg (sval f).
Proof. unfold sub. cbn [sval scale add neg]. esimp. repeat split; ring. Qed.
End FX2.
